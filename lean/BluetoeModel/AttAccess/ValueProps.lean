import BluetoeModel.AttAccess.Lemmas
/-!
  # C06 and C05 — theorems about the attribute access functions and the requests built on them
-/
namespace BluetoeModel.AttAccess

/-! ## C06 — "a successful Write Request or Write Command stores exactly the written bytes at the
  given position and nothing else, a rejected write leaves every value unchanged, and Read / Read
  Blob return the current value bytes from the requested offset (truncated to the MTU) or Invalid
  Offset past the end. Permission options … are enforced for every access path, and the declared
  characteristic properties match what is actually permitted." -/

/-- the security check passes (the characteristic does not require encryption or the link is
    encrypted) -/
def SecOk (srv : Server) (c : Conn) (a : Attr) : Prop := secCheck (requiresEnc srv.enc a) c = none

/-- **write_refines**: a write of `v` at offset `off` to a writable bound value whose memory has
    the declared size stores exactly `v` at `[off, off+|v|)` of that cell and changes nothing else
    (other cells, CCCDs); it succeeds iff it fits -/
theorem write_refines (H : Handlers) (srv : Server) (cells : List Bytes) (c : Conn) (a : Attr)
    (cell size : Nat) (r : Bool) (m v : Bytes) (off : Nat)
    (hk : a.kind = .bound cell size r true) (hs : SecOk srv c a) (hm : cells[cell]? = some m) (hl : m.length = size) :
    writeAccess H srv cells c a off v =
      if off > size then (.err 0x07, cells, c.cccd)
      else if v.length + off > size then (.err 0x0D, cells, c.cccd)
      else (.success, cells.set cell (m.take off ++ v ++ m.drop (off + v.length)), c.cccd) := by
  unfold SecOk at hs
  unfold writeAccess
  rw [hk]
  simp only [hs, hm]
  by_cases h1 : off > size
  · simp [h1]
  · by_cases h2 : v.length + off > size
    · simp [h1, h2]
    · have : off + v.length ≤ m.length := by omega
      simp [h1, h2, writeAt?, this]

/-- **write_rejected_unchanged**: for every value kind implemented by the library itself and every
    declaration / descriptor (everything but user handlers, whose effect is the user's, and the
    CCCD, which is the cccd component's subject) a write that does not succeed leaves all memory
    cells and all CCCD flags unchanged -/
theorem write_rejected_unchanged (H : Handlers) (srv : Server) (cells : List Bytes) (c : Conn) (a : Attr)
    (off : Nat) (v : Bytes) (hk : ∀ rk wk cell nr, a.kind ≠ .handler rk wk cell nr) (hc : ∀ pos, a.kind ≠ .cccd pos)
    (hne : (writeAccess H srv cells c a off v).1 ≠ .success) :
    (writeAccess H srv cells c a off v).2 = (cells, c.cccd) := by
  unfold writeAccess at hne ⊢
  cases hkind : a.kind with
  | handler rk wk cell nr => exact absurd hkind (hk rk wk cell nr)
  | service _ _ => rfl
  | charDecl _ _ _ _ _ _ => rfl
  | userDesc _ => simp only []; split <;> rfl
  | descriptor _ => rfl
  | cstring _ _ => simp only []; split <;> rfl
  | fixed _ _ => simp only []; split <;> (try split) <;> rfl
  | bound cell size r w =>
    rw [hkind] at hne
    simp only [] at hne ⊢
    repeat' split
    all_goals first | rfl | (simp_all; done)
  | cccd pos => exact absurd hkind (hc pos)

/-- **read_refines**: Read (offset 0) / Read Blob of a readable bound value return the current
    bytes from the offset, truncated to the room in the buffer (MTU − 1), or Invalid Offset (0x07)
    iff the offset is past the end -/
theorem read_refines (H : Handlers) (srv : Server) (cells : List Bytes) (c : Conn) (idx : Nat) (a : Attr)
    (cell size : Nat) (w : Bool) (m : Bytes) (off room : Nat)
    (hk : a.kind = .bound cell size true w) (hs : SecOk srv c a) (hm : cells[cell]? = some m) (hl : m.length = size) :
    readAccess H srv cells c idx a off room =
      if off > size then (.err 0x07, []) else (.success, (m.drop off).take (min room (size - off))) := by
  unfold SecOk at hs
  unfold readAccess
  rw [hk]
  simp only [hs, hm, readMem, slice?]
  by_cases h1 : off > size
  · simp [h1]
  · have : off + min room (size - off) ≤ m.length := by omega
    simp [h1, this]

/-- **no_write_enforced**: values without write access (no_write_access, const, fixed values,
    cstring / blob values) refuse every write, whatever offset and length, and change nothing -/
theorem no_write_enforced (H : Handlers) (srv : Server) (cells : List Bytes) (c : Conn) (a : Attr) (off : Nat) (v : Bytes)
    (hk : (∃ cell size r, a.kind = .bound cell size r false) ∨ (∃ val r, a.kind = .fixed val r) ∨ (∃ val nr, a.kind = .cstring val nr)) :
    (∃ code, (writeAccess H srv cells c a off v).1 = .err code) ∧ (writeAccess H srv cells c a off v).2 = (cells, c.cccd) := by
  unfold writeAccess
  rcases hk with ⟨cell, size, r, hk⟩ | ⟨val, r, hk⟩ | ⟨val, nr, hk⟩
  · rw [hk]; dsimp only
    cases secCheck (requiresEnc srv.enc a) c <;> simp
  · rw [hk]; dsimp only
    cases secCheck (requiresEnc srv.enc a) c <;> cases r <;> simp
  · rw [hk]; dsimp only
    cases secCheck (requiresEnc srv.enc a) c <;> simp

/-- **no_read_enforced** (bound and fixed values): without read access every read is refused with
    Read Not Permitted (0x02) once the security check has passed -/
theorem no_read_enforced_bound (H : Handlers) (srv : Server) (cells : List Bytes) (c : Conn) (idx : Nat) (a : Attr) (off room : Nat)
    (hk : (∃ cell size w, a.kind = .bound cell size false w) ∨ (∃ val, a.kind = .fixed val false)) (hs : SecOk srv c a) :
    readAccess H srv cells c idx a off room = (.err 0x02, []) := by
  unfold SecOk at hs
  unfold readAccess
  rcases hk with ⟨cell, size, w, hk⟩ | ⟨val, hk⟩ <;> rw [hk] <;> simp [hs]

/-- the Read bit (0x02) of the declared properties -/
def declaresRead (k : Kind) : Bool := (valueAccessFlags k).1

/-- full strength: whenever the declared properties lack Read, a read is refused -/
def properties_match_permissions_full : Prop :=
  ∀ (H : Handlers) (srv : Server) (cells : List Bytes) (c : Conn) (idx : Nat) (a : Attr) (off room : Nat),
    declaresRead a.kind = false → (readAccess H srv cells c idx a off room).1 ≠ .success

/-- **properties_match_permissions (partial)**: holds for every value kind except handler values -/
theorem properties_match_permissions_partial (H : Handlers) (srv : Server) (cells : List Bytes) (c : Conn) (idx : Nat) (a : Attr)
    (off room : Nat)
    (hk : (∃ cell size r w, a.kind = .bound cell size r w) ∨ (∃ val r, a.kind = .fixed val r) ∨ (∃ val nr, a.kind = .cstring val nr))
    (hd : declaresRead a.kind = false) : (readAccess H srv cells c idx a off room).1 ≠ .success := by
  unfold readAccess
  rcases hk with ⟨cell, size, r, w, hk⟩ | ⟨val, r, hk⟩ | ⟨val, nr, hk⟩ <;> rw [hk] at hd ⊢ <;>
    simp [declaresRead, valueAccessFlags] at hd
  · subst hd
    simp only []
    split <;> simp
  · subst hd
    simp only []
    split <;> simp

def wHandlerSrv : Server :=
  ⟨23, ⟨false, false, false⟩, [⟨0x4003, .handler 1 0 0 true, default, default⟩], []⟩

/-- the full statement is false of the code: a characteristic with a read handler and
    `no_read_access` (declared properties without Read) is readable — `value_handler_base::
    characteristic_value_access` never consults `no_read` -/
theorem no_read_handler_witness : ¬ properties_match_permissions_full := by
  intro h
  exact h Handlers.std wHandlerSrv [[0x30, 0x31, 0x32, 0x33]] ⟨23, [], false, 0⟩ 0
    ⟨0x4003, .handler 1 0 0 true, default, default⟩ 0 22 (by decide) (by decide)

/-- non-vacuity of write_refines / read_refines: cell 0 of size 4, write 2 bytes at offset 1 -/
example : writeAccess Handlers.std wHandlerSrv [[1, 2, 3, 4]] ⟨23, [], false, 0⟩
    ⟨0x1001, .bound 0 4 true true, default, default⟩ 1 [0xAA, 0xBB] = (.success, [[1, 0xAA, 0xBB, 4]], []) := by decide

/-! ## C05 — "a characteristic value or client configuration that requires encryption is never
  returned … and never modified … while the connection is not encrypted. The rejection carries
  Insufficient Authentication when no key exists and Insufficient Encryption otherwise." -/

/-- the attribute kinds that carry the characteristic's encryption requirement: the value (all
    value kinds) and the client characteristic configuration -/
def protectable : Kind → Bool
  | .bound _ _ _ _ | .fixed _ _ | .cstring _ _ | .handler _ _ _ _ | .cccd _ => true
  | _ => false

/-- the rejection code of the sentence -/
def rejection (c : Conn) : Nat := if c.pairing = 0 then 0x05 else 0x0F

theorem secCheck_protected (c : Conn) (he : c.encrypted = false) : secCheck true c = some (rejection c) := by
  simp [secCheck, he, rejection]

/-- **protected_read_rejected**: every read access (any offset, any buffer) to a protected value or
    CCCD on an unencrypted link is rejected with 0x05 / 0x0F and copies nothing — independent of
    the memory content and of the handlers -/
theorem protected_read_rejected (H : Handlers) (srv : Server) (cells : List Bytes) (c : Conn) (idx : Nat) (a : Attr) (off room : Nat)
    (hp : protectable a.kind = true) (hr : requiresEnc srv.enc a = true) (he : c.encrypted = false) :
    readAccess H srv cells c idx a off room = (.err (rejection c), []) := by
  unfold readAccess
  cases hk : a.kind <;> rw [hk] at hp <;> simp [protectable] at hp <;> simp [hr, secCheck_protected c he]

/-- **protected_write_rejected**: every write access is rejected with the same code and neither a
    memory cell nor a CCCD flag changes -/
theorem protected_write_rejected (H : Handlers) (srv : Server) (cells : List Bytes) (c : Conn) (a : Attr) (off : Nat) (v : Bytes)
    (hp : protectable a.kind = true) (hr : requiresEnc srv.enc a = true) (he : c.encrypted = false) :
    writeAccess H srv cells c a off v = (.err (rejection c), cells, c.cccd) := by
  unfold writeAccess
  cases hk : a.kind <;> rw [hk] at hp <;> simp [protectable] at hp <;> simp [hr, secCheck_protected c he]

/-- **protected_request_rejected**: Read / Read Blob of a protected attribute answer with the
    Error Response carrying that code (the tail common to both handlers) -/
theorem protected_request_rejected (H : Handlers) (srv : Server) (cap : Nat) (op rsp : UInt8) (cells : List Bytes) (c : Conn)
    (h i off : Nat) (a : Attr) (ha : srv.attrs[i]? = some a)
    (hp : protectable a.kind = true) (hr : requiresEnc srv.enc a = true) (he : c.encrypted = false) :
    readResponse H srv cap op rsp cells c h i off = errorResponse cap op (rejection c) h := by
  unfold readResponse
  rw [ha]
  simp only [protected_read_rejected H srv cells c i a off (cap - 1) hp hr he, attCode]

theorem ite_pdu_nil {p : Prop} [Decidable p] {x : Resp} {b : Bytes} (hx : x = .pdu b → b = [])
    (h : (if p then x else .pdu []) = .pdu b) : b = [] := by
  split at h
  · exact hx h
  · cases h; rfl

/-- **protected_not_notified**: no notification / indication is produced for a protected
    characteristic on an unencrypted link -/
theorem protected_not_notified (H : Handlers) (srv : Server) (cells : List Bytes) (c : Conn) (ind : Bool) (pos n idx : Nat) (a : Attr)
    (hn : srv.ntf[pos]? = some idx) (ha : srv.attrs[idx]? = some a)
    (hp : protectable a.kind = true) (hr : requiresEnc srv.enc a = true) (he : c.encrypted = false) (b : Bytes)
    (h : l2capOutput H srv cells c ind pos n = .pdu b) : b = [] := by
  unfold l2capOutput at h
  cases hf : cccdFlags c pos with
  | none => rw [hn, hf] at h; cases h
  | some f =>
    rw [hn, hf] at h
    refine ite_pdu_nil ?_ h
    intro hx
    rw [ha] at hx
    dsimp only at hx
    rw [protected_read_rejected H srv cells c idx a 0 _ hp hr he] at hx
    dsimp only at hx
    cases hx; rfl

/-- **protected_not_read_by_type**: Read By Type skips a protected attribute (the collector's state
    — and with it the response — is unchanged, whatever the memory holds) -/
theorem protected_not_read_by_type (H : Handlers) (srv : Server) (cells : List Bytes) (c : Conn) (room : Nat) (st : Collect)
    (idx : Nat) (a : Attr) (hp : protectable a.kind = true) (hr : requiresEnc srv.enc a = true) (he : c.encrypted = false) :
    collectStep H srv cells c room st idx a = st := by
  unfold collectStep
  split
  · simp only [protected_read_rejected H srv cells c idx a 0 _ hp hr he]
  · rfl

/-- **requiresEnc_table**: the three-level inheritance is the documented table of
    `encryption_default`: an option at a level overrides the inherited value (`requires` → true,
    `no_encryption_required` → false, both → false), otherwise the value is inherited;
    `may_require_encryption` has no influence -/
theorem requiresEnc_table (o : EncOpt) (d : Bool) :
    encDefault d o = (if o.req ∧ ¬ o.noReq then true else if o.noReq then false else d) ∧
    encDefault d { o with may := !o.may } = encDefault d o := by
  cases o with
  | mk r n m => cases r <;> cases n <;> cases d <;> simp [encDefault]

/-- non-vacuity: server requires, service says no, characteristic requires again → protected;
    reading its 16 byte value over an unencrypted link with a key yields Insufficient Encryption -/
example : readAccess Handlers.std ⟨23, ⟨true, false, false⟩, [], []⟩ [List.replicate 16 7] ⟨23, [], false, 1⟩ 0
    ⟨0xE001, .bound 0 16 true true, ⟨false, true, false⟩, ⟨true, false, false⟩⟩ 0 22 = (.err 0x0F, []) := by decide

end BluetoeModel.AttAccess
