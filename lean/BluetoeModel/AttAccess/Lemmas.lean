import BluetoeModel.AttAccess.Model
/-! helper lemmas for Props.lean -/
namespace BluetoeModel.AttAccess

/-- a response that, if it is a PDU, fits into `cap` bytes -/
def Fits (cap : Nat) (r : Resp) : Prop := ∀ b, r = .pdu b → b.length ≤ cap

theorem fits_emit (cap : Nat) (b : Bytes) : Fits cap (emit cap b) := by
  intro x h; unfold emit at h; split at h
  · cases h; assumption
  · cases h

theorem fits_err (cap : Nat) (op : UInt8) (code h : Nat) : Fits cap (errorResponse cap op code h) := by
  intro x hx; unfold errorResponse at hx; split at hx <;> cases hx <;> simp <;> omega

theorem fits_nil (cap : Nat) : Fits cap (.pdu []) := by intro x h; cases h; simp
theorem fits_oobRead (cap : Nat) : Fits cap .oobRead := by intro x h; cases h
theorem fits_oobWrite (cap : Nat) : Fits cap .oobWrite := by intro x h; cases h
theorem fits_assert (cap : Nat) : Fits cap .assertFail := by intro x h; cases h

/-- framing: empty, or response opcode `rsp`, or an Error Response naming `op` -/
def Framed (op rsp : UInt8) (r : Resp) : Prop :=
  ∀ b, r = .pdu b → b = [] ∨ b.head? = some rsp ∨ (∃ x y z, b = [0x01, op, x, y, z])

theorem framed_emit (cap : Nat) (op rsp : UInt8) (b : Bytes) : Framed op rsp (emit cap (rsp :: b)) := by
  intro x h; unfold emit at h; split at h
  · cases h; right; left; rfl
  · cases h

theorem framed_err (cap : Nat) (op rsp : UInt8) (code h : Nat) : Framed op rsp (errorResponse cap op code h) := by
  intro x hx; unfold errorResponse at hx; split at hx <;> cases hx
  · right; right; exact ⟨_, _, _, rfl⟩
  · left; rfl

theorem framed_nil (op rsp : UInt8) : Framed op rsp (.pdu []) := by intro x h; cases h; left; rfl
theorem framed_oobRead (op rsp : UInt8) : Framed op rsp .oobRead := by intro x h; cases h
theorem framed_oobWrite (op rsp : UInt8) : Framed op rsp .oobWrite := by intro x h; cases h
theorem framed_assert (op rsp : UInt8) : Framed op rsp .assertFail := by intro x h; cases h

/-- both at once, for a handler result -/
def Good (cap : Nat) (op rsp : UInt8) (r : Resp) : Prop := Fits cap r ∧ Framed op rsp r

theorem good_emit (cap : Nat) (op rsp : UInt8) (b : Bytes) : Good cap op rsp (emit cap (rsp :: b)) :=
  ⟨fits_emit _ _, framed_emit _ _ _ _⟩
theorem good_err (cap : Nat) (op rsp : UInt8) (code h : Nat) : Good cap op rsp (errorResponse cap op code h) :=
  ⟨fits_err _ _ _ _, framed_err _ _ _ _ _⟩
theorem good_nil (cap : Nat) (op rsp : UInt8) : Good cap op rsp (.pdu []) := ⟨fits_nil _, framed_nil _ _⟩
theorem good_oobRead (cap : Nat) (op rsp : UInt8) : Good cap op rsp .oobRead := ⟨fits_oobRead _, framed_oobRead _ _⟩
theorem good_oobWrite (cap : Nat) (op rsp : UInt8) : Good cap op rsp .oobWrite := ⟨fits_oobWrite _, framed_oobWrite _ _⟩
theorem good_assert (cap : Nat) (op rsp : UInt8) : Good cap op rsp .assertFail := ⟨fits_assert _, framed_assert _ _⟩

macro "good_close" : tactic =>
  `(tactic| first
    | exact good_emit _ _ _ _ | exact good_err _ _ _ _ _ | exact good_nil _ _ _
    | exact good_oobRead _ _ _ | exact good_oobWrite _ _ _ | exact good_assert _ _ _)

theorem good_checkRange (srv : Server) (cap : Nat) (op rsp : UInt8) (p : Bytes) (A B : Nat) (r : Resp)
    (h : checkRange srv cap op p A B = .stop r) : Good cap op rsp r := by
  unfold checkRange at h
  repeat' split at h
  all_goals first | (cases h; good_close) | cases h

theorem good_checkHandle (srv : Server) (cap : Nat) (op rsp : UInt8) (p : Bytes) (r : Resp)
    (h : checkHandle srv cap op p = .stop r) : Good cap op rsp r := by
  unfold checkHandle at h
  repeat' split at h
  all_goals first | (cases h; good_close) | cases h

theorem good_checkSizeAndHandle (srv : Server) (cap : Nat) (op rsp : UInt8) (p : Bytes) (A : Nat) (r : Resp)
    (h : checkSizeAndHandle srv cap op p A = .stop r) : Good cap op rsp r := by
  unfold checkSizeAndHandle at h
  split at h
  · cases h; good_close
  · exact good_checkHandle _ _ _ _ _ _ h

theorem good_readResponse (H : Handlers) (srv : Server) (cap : Nat) (op rsp : UInt8) (cells : List Bytes) (c : Conn)
    (h i off : Nat) : Good cap op rsp (readResponse H srv cap op rsp cells c h i off) := by
  unfold readResponse
  repeat' split
  all_goals good_close

theorem good_handleRead (H : Handlers) (srv : Server) (cap : Nat) (op : UInt8) (p : Bytes) (cells : List Bytes) (c : Conn) :
    Good cap op 0x0B (handleRead H srv cap op p cells c) := by
  unfold handleRead
  split
  · exact good_checkSizeAndHandle _ _ _ _ _ _ _ ‹_›
  · exact good_readResponse ..

theorem good_handleReadBlob (H : Handlers) (srv : Server) (cap : Nat) (op : UInt8) (p : Bytes) (cells : List Bytes) (c : Conn) :
    Good cap op 0x0D (handleReadBlob H srv cap op p cells c) := by
  unfold handleReadBlob
  split
  · exact good_checkSizeAndHandle _ _ _ _ _ _ _ ‹_›
  · split
    · good_close
    · exact good_readResponse ..

theorem good_take_emit (cap : Nat) (op rsp : UInt8) (b : Bytes) (n : Nat) :
    Good cap op rsp (emit cap ((rsp :: b).take (n + 1))) := by
  simp only [List.take_succ_cons]; exact good_emit _ _ _ _

theorem good_handleReadByType (H : Handlers) (srv : Server) (cap : Nat) (op : UInt8) (p : Bytes) (cells : List Bytes) (c : Conn) :
    Good cap op 0x09 (handleReadByType H srv cap op p cells c) := by
  unfold handleReadByType
  split
  · exact good_checkRange _ _ _ _ _ _ _ _ ‹_›
  · split
    · good_close
    · simp only []
      split
      · good_close
      · have : ∀ n, 2 + n = (n + 1) + 1 := by intro n; omega
        rw [this]; exact good_take_emit ..

theorem good_handleFindInfo (srv : Server) (cap : Nat) (op : UInt8) (p : Bytes) :
    Good cap op 0x05 (handleFindInfo srv cap op p) := by
  unfold handleFindInfo
  split
  · exact good_checkRange _ _ _ _ _ _ _ _ ‹_›
  · repeat' first | split | (dsimp only; split)
    all_goals good_close

theorem good_handleFindByType (srv : Server) (cap : Nat) (op : UInt8) (p : Bytes) :
    Good cap op 0x07 (handleFindByType srv cap op p) := by
  unfold handleFindByType
  split
  · exact good_checkRange _ _ _ _ _ _ _ _ ‹_›
  · split
    · split
      · good_close
      · simp only []
        split
        · good_close
        · have : ∀ n, 1 + n = n + 1 := by intro n; omega
          rw [this]; exact good_take_emit ..
    · good_close

theorem good_handleReadByGroup (srv : Server) (cap : Nat) (op : UInt8) (p : Bytes) :
    Good cap op 0x11 (handleReadByGroup srv cap op p) := by
  unfold handleReadByGroup
  split
  · exact good_checkRange _ _ _ _ _ _ _ _ ‹_›
  · repeat' first | split | (dsimp only; split)
    all_goals good_close

/-- Read Multiple: the accumulator starts with the response opcode -/
theorem good_multiLoop (H : Handlers) (srv : Server) (cap : Nat) (op : UInt8) (cells : List Bytes) (c : Conn)
    (hs : Bytes) (acc : Bytes) (hacc : ∃ t, acc = 0x0F :: t) :
    Good cap op 0x0F (multiLoop H srv cap op cells c hs acc) := by
  fun_induction multiLoop H srv cap op cells c hs acc
  all_goals first
    | good_close
    | (obtain ⟨t, rfl⟩ := hacc; exact good_emit _ _ _ _)
    | (rename_i ih; apply ih; obtain ⟨t, rfl⟩ := hacc; exact ⟨_, rfl⟩)

theorem good_handleReadMultiple (H : Handlers) (srv : Server) (cap : Nat) (op : UInt8) (p : Bytes) (cells : List Bytes) (c : Conn) :
    Good cap op 0x0F (handleReadMultiple H srv cap op p cells c) := by
  unfold handleReadMultiple
  split
  · good_close
  · exact good_multiLoop _ _ _ _ _ _ _ _ ⟨_, rfl⟩

theorem good_handleWrite (H : Handlers) (srv : Server) (cap : Nat) (op : UInt8) (p : Bytes) (cells : List Bytes) (c : Conn) :
    Good cap op 0x13 (handleWrite H srv cap op p cells c).resp := by
  unfold handleWrite
  repeat' split
  all_goals first | good_close | exact good_checkHandle _ _ _ _ _ _ ‹_›

theorem good_handleExchangeMtu (srv : Server) (cap : Nat) (op : UInt8) (p : Bytes) (cells : List Bytes) (c : Conn) :
    Good cap op 0x03 (handleExchangeMtu srv cap op p cells c).resp := by
  unfold handleExchangeMtu
  repeat' split
  all_goals good_close

end BluetoeModel.AttAccess
