/-
  Executable model of the ATT request handling of `bluetoe::server<>`:
  `l2cap_input` (MTU clipping, opcode dispatch, every handler with its size / handle checks,
  `error_response`), attribute access by attribute kind, encryption requirement inheritance,
  Exchange MTU and `l2cap_output`.
  src: bluetoe/server.hpp, bluetoe/characteristic_value.hpp, bluetoe/characteristic.hpp,
       bluetoe/service.hpp, bluetoe/utility/include/bluetoe/attribute.hpp, bluetoe/encryption.hpp,
       bluetoe/filter.hpp, bluetoe/scattered_access.hpp

  Scope: servers without fixed handles / includes / secondary services / priorities (handle =
  attribute index + 1; the handle mapping is the atthandles / attdisc components' subject) and
  without a write queue (Prepare / Execute Write are then answered *Request Not Supported*; the
  queue is the attwq component's subject).  The attribute table is a value (`Server`), so the
  theorems quantify over all such declarations.

  Memory safety convention: wherever the C++ indexes the input PDU, a value in memory or the
  output buffer, the model performs the same index computation and yields an explicit failure
  (`Resp.oobRead`, `Resp.oobWrite`, `Rc.oob`, `Resp.assertFail`) where the C++ would leave the
  buffer or hit an `assert`.  Props.lean proves these are never produced.
-/
import BluetoeModel.Util.Proto
namespace BluetoeModel.AttAccess

abbrev Bytes := List UInt8

/-! ## little endian helpers (src: bluetoe/utility/include/bluetoe/bits.hpp) -/

def lo (n : Nat) : UInt8 := UInt8.ofNat (n % 256)
def hi (n : Nat) : UInt8 := UInt8.ofNat ((n / 256) % 256)
-- src: bits.hpp:write_16bit / write_handle
def le16 (n : Nat) : Bytes := [lo n, hi n]

-- src: bits.hpp:read_16bit / read_handle — `none` = the two bytes are not inside the buffer
def rd16? (p : Bytes) (i : Nat) : Option Nat :=
  match p[i]?, p[i+1]? with
  | some a, some b => some (a.toNat + 256 * b.toNat)
  | _, _ => none

/-- `std::copy( m + off, m + off + n, … )`: `none` = the source range leaves the object -/
def slice? (m : Bytes) (off n : Nat) : Option Bytes :=
  if off + n ≤ m.length then some ((m.drop off).take n) else none

/-- `std::copy( v.begin(), v.end(), m + off )`: `none` = the destination range leaves the object -/
def writeAt? (m : Bytes) (off : Nat) (v : Bytes) : Option Bytes :=
  if off + v.length ≤ m.length then some (m.take off ++ v ++ m.drop (off + v.length)) else none

/-! ## declarations as data -/

/-- presence of `requires_encryption` / `no_encryption_required` / `may_require_encryption`
    in one option pack -/
structure EncOpt where
  req   : Bool
  noReq : Bool
  may   : Bool
deriving Repr, DecidableEq, Inhabited

-- src: encryption.hpp:encryption_default<Default, Options...>::value
def encDefault (dflt : Bool) (o : EncOpt) : Bool :=
  (o.req && !o.noReq) || (!o.req && !o.noReq && dflt)

inductive Kind where
  /-- service declaration (value = service UUID); `nAttrs` = number of attributes of the service -/
  | service (uuid : Bytes) (nAttrs : Nat)
  /-- characteristic declaration; the properties byte and the value handle are computed.
      `auto` = 0: the characteristic has an explicit `characteristic_uuid`; `auto` = k > 0: its UUID
      is auto-generated, k = index of the characteristic within its service + 1 (`char_index` of
      `fixup_auto_uuid`) and `uuid` holds `uuid::bytes` = the bytes of the *service's* 128 bit UUID -/
  | charDecl (uuid : Bytes) (wwr owwr ntf ind : Bool) (auto : Nat)
  /-- `bind_characteristic_value<T,Ptr>`: `size = sizeof(T)`, has_read_access, has_write_access -/
  | bound (cell size : Nat) (readable writable : Bool)
  /-- `fixed_value<T,V>` -/
  | fixed (val : Bytes) (readable : Bool)
  /-- `cstring_wrapper` (cstring_value, fixed_blob_value); `noRead` = the no_read_access option of
      the characteristic (`cstring_wrapper::value_impl` never looks at it: has_read_access = true) -/
  | cstring (val : Bytes) (noRead : Bool)
  /-- handler value (`value_handler_base`): read / write handler kind 0 none, 1 without offset,
      2 blob; `noRead` = the no_read_access option (only used for the declared properties) -/
  | handler (rk wk cell : Nat) (noRead : Bool)
  /-- client characteristic configuration descriptor, `pos` = index into the connection's flags -/
  | cccd (pos : Nat)
  | userDesc (val : Bytes)
  | descriptor (val : Bytes)
deriving Repr, DecidableEq, Inhabited

structure Attr where
  /-- 16 bit attribute type; 1 = `internal_128bit_uuid` -/
  uuid   : Nat
  kind   : Kind
  svcEnc : EncOpt
  chrEnc : EncOpt
deriving Repr, DecidableEq, Inhabited

structure Server where
  /-- `max_mtu_size<>` (23 if absent) -/
  mtu   : Nat
  enc   : EncOpt
  attrs : List Attr
  /-- `find_notification_data_by_index`: CCCD position ↦ index of the value attribute -/
  ntf   : List Nat
deriving Repr, Inhabited

-- src: encryption.hpp:characteristic_requires_encryption<Characteristic, Service, Server>::value
def requiresEnc (srv : EncOpt) (a : Attr) : Bool :=
  encDefault (encDefault (encDefault false srv) a.svcEnc) a.chrEnc

/-- per connection data: `connection_data::client_mtu_`, the CCCD flags, `link_state` -/
structure Conn where
  clientMtu : Nat
  cccd      : List Nat
  encrypted : Bool
  /-- `device_pairing_status`, 0 = no_key -/
  pairing   : Nat
deriving Repr, DecidableEq, Inhabited

-- src: server.hpp:connection_data::negotiated_mtu
def negotiatedMtu (srv : Server) (c : Conn) : Nat := min srv.mtu c.clientMtu

/-- `attribute_access_result` -/
inductive Rc where
  | success
  | err (code : Nat)
  | valueEqual
  /-- the C++ would have read / written memory out of bounds -/
  | oob
deriving Repr, DecidableEq, Inhabited

/-- user supplied handlers (result code, data); the code is a `std::uint8_t` -/
structure Handlers where
  readBlob   : (cell : Nat) → List Bytes → (off readSize : Nat) → Nat × Bytes
  readPlain  : (cell : Nat) → List Bytes → (readSize : Nat) → Nat × Bytes
  writeBlob  : (cell : Nat) → List Bytes → (off : Nat) → Bytes → Nat × List Bytes
  writePlain : (cell : Nat) → List Bytes → Bytes → Nat × List Bytes

-- src: characteristic_value.hpp:encryption_requirements<RequiresEncryption>::check
def secCheck (req : Bool) (c : Conn) : Option Nat :=
  if !req then none
  else if c.encrypted then none
  else some (if c.pairing = 0 then 0x05 else 0x0F)

-- src: attribute.hpp:attribute_value_read_access (read branch); `size` is the static size
def readMem (m : Bytes) (size off bufSize : Nat) : Rc × Bytes :=
  if off > size then (.err 0x07, [])
  else match slice? m off (min bufSize (size - off)) with
    | some d => (.success, d)
    | none => (.oob, [])

def handlerRc (code : Nat) : Rc := if code = 0 then .success else .err code

-- src: characteristic.hpp:char_declaration_access (properties byte)
def charProps (hasRead hasWrite wwr owwr ntf ind : Bool) : Nat :=
  (if hasRead then 0x02 else 0) + (if hasWrite && !owwr then 0x08 else 0) +
  (if owwr || wwr then 0x04 else 0) + (if ntf then 0x10 else 0) + (if ind then 0x20 else 0)

/-- `value_type::has_read_access`, `value_type::has_write_access` of a value attribute -/
def valueAccessFlags : Kind → Bool × Bool
  | .bound _ _ r w => (r, w)
  | .fixed _ r => (r, false)
  | .cstring _ _ => (true, false)
  | .handler rk wk _ noRead => (rk != 0 && !noRead, wk != 0)
  | _ => (false, false)

-- src: characteristic.hpp:char_declaration_access (properties, value handle, uuid)
def declData (srv : Server) (idx : Nat) (uuid : Bytes) (wwr owwr ntf ind : Bool) : Bytes :=
  let f := match srv.attrs[idx + 1]? with
    | some v => valueAccessFlags v.kind
    | none => (false, false)
  UInt8.ofNat (charProps f.1 f.2 wwr owwr ntf ind) :: (le16 (idx + 2) ++ uuid)

/-- `args.buffer[ i ] ^= x`; `none` = index `i` lies outside the buffer -/
def xorAt? (b : Bytes) (i : Nat) (x : UInt8) : Option Bytes :=
  match b[i]? with
  | some y => some (b.set i (y ^^^ x))
  | none => none

/-- `fixup_auto_uuid` AS IT IS in the code: `buf` = the `bufSize` bytes of `args.buffer`,
    `index_low = buffer_offset - 3`, `index_high = buffer_offset - 4` (sic: the position of the two
    least significant UUID bytes in the buffer would be `3 - buffer_offset` / `4 - buffer_offset`),
    each applied when `0 ≤ index < args.buffer_size`.
    src: characteristic.hpp:generate_attribute<characteristic_declaration_parameter>::fixup_auto_uuid -/
def fixupAutoUuid (buf : Bytes) (off bufSize charIndex : Nat) : Option Bytes :=
  let step1 : Option Bytes :=
    if 3 ≤ off ∧ off - 3 < bufSize then xorAt? buf (off - 3) (lo charIndex) else some buf
  match step1 with
  | none => none
  | some b => if 4 ≤ off ∧ off - 4 < bufSize then xorAt? b (off - 4) (hi charIndex) else some b

/-- flags of CCCD `pos` (src: client_characteristic_configuration::flags) -/
def cccdFlags (c : Conn) (pos : Nat) : Option Nat := c.cccd[pos]?

/-- read access to attribute `idx` (src: the `access` function of each attribute kind with
    `args.type == read`); returns the result and the bytes copied to `args.buffer`
    (`args.buffer_size` afterwards = their number) -/
def readAccess (H : Handlers) (srv : Server) (cells : List Bytes) (c : Conn) (idx : Nat) (a : Attr)
    (off bufSize : Nat) : Rc × Bytes :=
  match a.kind with
  -- src: service.hpp:generate_attribute<service_defintion_tag>::access
  | .service uuid _ => readMem uuid uuid.length off bufSize
  -- src: characteristic.hpp:char_declaration_access + scattered_access.hpp
  --      (+ fixup_auto_uuid, called between the copy and the update of args.buffer_size; the bytes
  --      of the buffer behind the copied ones are not part of the result: modelled as zeros)
  | .charDecl uuid wwr owwr ntf ind auto =>
      let d := declData srv idx uuid wwr owwr ntf ind
      if auto = 0 then readMem d d.length off bufSize
      else match readMem d d.length off bufSize with
        | (.success, r) =>
          match fixupAutoUuid (r ++ List.replicate (bufSize - r.length) 0) off bufSize auto with
          | some b => (.success, b.take r.length)
          | none => (.oob, [])
        | x => x
  -- src: characteristic_value.hpp:bind_characteristic_value::value_impl::characteristic_value_access
  | .bound cell size readable _ =>
      match secCheck (requiresEnc srv.enc a) c with
      | some e => (.err e, [])
      | none =>
        if readable then
          match cells[cell]? with
          | some m => readMem m size off bufSize
          | none => (.oob, [])
        else (.err 0x02, [])
  -- src: characteristic_value.hpp:fixed_value::value_impl::characteristic_value_access
  | .fixed val readable =>
      match secCheck (requiresEnc srv.enc a) c with
      | some e => (.err e, [])
      | none => if !readable then (.err 0x02, []) else readMem val val.length off bufSize
  -- src: characteristic_value.hpp:cstring_wrapper::value_impl::characteristic_value_access
  | .cstring val _ =>
      match secCheck (requiresEnc srv.enc a) c with
      | some e => (.err e, [])
      | none => readMem val val.length off bufSize
  -- src: characteristic_value.hpp:value_handler_base::value_impl::characteristic_value_access,
  --      invoke_read_handler, free_read_handler / free_read_blob_handler::call_read_handler
  | .handler rk _ cell _ =>
      match secCheck (requiresEnc srv.enc a) c with
      | some e => (.err e, [])
      | none =>
        let r : Nat × Bytes :=
          if rk = 0 then (0x02, [])
          else if rk = 1 then (if off = 0 then H.readPlain cell cells bufSize else (0x0B, []))
          else H.readBlob cell cells off bufSize
        if r.1 = 0 then (if r.2.length ≤ bufSize then (.success, r.2) else (.oob, []))
        else (.err r.1, [])
  -- src: characteristic.hpp:generate_attribute<client_characteristic_configuration_parameter>::access
  | .cccd pos =>
      match secCheck (requiresEnc srv.enc a) c with
      | some e => (.err e, [])
      | none =>
        if off > 2 then (.err 0x07, [])
        else match cccdFlags c pos with
          | some f => readMem (le16 f) 2 off bufSize
          | none => (.oob, [])
  -- src: characteristic.hpp:generate_attribute<characteristic_user_description_parameter>::access
  | .userDesc val => readMem val val.length off bufSize
  -- src: characteristic.hpp:generate_attribute<descriptor_parameter>::access
  | .descriptor val => readMem val val.length off bufSize

/-- write access (`args.type == write`) with value `v` at offset `off`; returns the result, the
    memory cells and the connection's CCCD flags afterwards -/
def writeAccess (H : Handlers) (srv : Server) (cells : List Bytes) (c : Conn) (a : Attr)
    (off : Nat) (v : Bytes) : Rc × List Bytes × List Nat :=
  match a.kind with
  | .service _ _ => (.err 0x03, cells, c.cccd)
  | .charDecl _ _ _ _ _ _ => (.err 0x03, cells, c.cccd)
  -- src: bind_characteristic_value::value_impl::characteristic_value_write_access
  | .bound cell size _ writable =>
      match secCheck (requiresEnc srv.enc a) c with
      | some e => (.err e, cells, c.cccd)
      | none =>
        if !writable then (.err 0x03, cells, c.cccd)
        else if off > size then (.err 0x07, cells, c.cccd)
        else if v.length + off > size then (.err 0x0D, cells, c.cccd)
        else match cells[cell]? with
          | none => (.oob, cells, c.cccd)
          | some m => match writeAt? m off v with
            | some m' => (.success, cells.set cell m', c.cccd)
            | none => (.oob, cells, c.cccd)
  | .fixed _ readable =>
      match secCheck (requiresEnc srv.enc a) c with
      | some e => (.err e, cells, c.cccd)
      | none => if !readable then (.err 0x02, cells, c.cccd) else (.err 0x03, cells, c.cccd)
  | .cstring _ _ =>
      match secCheck (requiresEnc srv.enc a) c with
      | some e => (.err e, cells, c.cccd)
      | none => (.err 0x03, cells, c.cccd)
  -- src: value_handler_base, invoke_write_handler, free_raw_write_handler / free_write_blob_handler
  | .handler _ wk cell _ =>
      match secCheck (requiresEnc srv.enc a) c with
      | some e => (.err e, cells, c.cccd)
      | none =>
        if wk = 0 then (.err 0x03, cells, c.cccd)
        else if wk = 1 then
          (if off = 0 then
            let r := H.writePlain cell cells v
            (handlerRc r.1, r.2, c.cccd)
          else (.err 0x0B, cells, c.cccd))
        else
          let r := H.writeBlob cell cells off v
          (handlerRc r.1, r.2, c.cccd)
  -- src: generate_attribute<client_characteristic_configuration_parameter>::access (write branch)
  | .cccd pos =>
      match secCheck (requiresEnc srv.enc a) c with
      | some e => (.err e, cells, c.cccd)
      | none =>
        if off > 2 then (.err 0x07, cells, c.cccd)
        else if v.length + off > 2 then (.err 0x0D, cells, c.cccd)
        else if off = 0 then
          match cccdFlags c pos with
          | none => (.oob, cells, c.cccd)
          | some old =>
            -- serialized_value = write_16bit( old ); first min(len,2) bytes overwritten; & 0x03
            let ser := v ++ (le16 old).drop v.length
            let nv := match ser with
              | b0 :: _ => b0.toNat % 4
              | [] => old
            (.success, cells, c.cccd.set pos nv)
        else (.success, cells, c.cccd)
  | .userDesc val => if off > val.length then (.err 0x07, cells, c.cccd) else (.err 0x03, cells, c.cccd)
  | .descriptor _ => (.err 0x03, cells, c.cccd)

/-! ## the server -/

/-- what `l2cap_input` / `l2cap_output` leave in the output buffer -/
inductive Resp where
  | pdu (b : Bytes)
  /-- the C++ would have read behind the end of the input PDU -/
  | oobRead
  /-- the C++ would have written behind `output + out_size` (or behind a memory cell) -/
  | oobWrite
  /-- the C++ would have hit an `assert` -/
  | assertFail
deriving Repr, DecidableEq, Inhabited

structure Out where
  resp  : Resp
  cells : List Bytes
  conn  : Conn
deriving Repr, Inhabited

/-- the response lies in `output[0 .. cap)` -/
def emit (cap : Nat) (b : Bytes) : Resp := if b.length ≤ cap then .pdu b else .oobWrite

-- src: server.hpp:error_response
def errorResponse (cap : Nat) (op : UInt8) (code handle : Nat) : Resp :=
  if cap ≥ 5 then .pdu [0x01, op, lo handle, hi handle, UInt8.ofNat code] else .pdu []

-- src: server.hpp:access_result_to_att_code
def attCode (rc : Rc) (dflt : Nat) : Nat :=
  match rc with
  | .err c => c
  | _ => dflt

/-- `handle_mapping::first_index_by_handle` for a table without gaps (handle = index + 1) -/
def firstIndex (srv : Server) (h : Nat) : Option Nat :=
  if h ≤ srv.attrs.length then some (h - 1) else none

-- src: attribute_handle.hpp:handle_index_mapping::index_by_handle
def indexByHandle (srv : Server) (h : Nat) : Option Nat :=
  match firstIndex srv h with
  | some i => if i + 1 = h then some i else none
  | none => none

/-- result of the common prefix checks: either an early response or the parsed values -/
inductive Chk (α : Type) where
  | stop (r : Resp)
  | ok (a : α)

-- src: server.hpp:check_size_and_handle_range<A,B>
def checkRange (srv : Server) (cap : Nat) (op : UInt8) (p : Bytes) (A B : Nat) : Chk (Nat × Nat) :=
  if p.length ≠ A ∧ p.length ≠ B then .stop (errorResponse cap op 0x04 0)
  else match rd16? p 1, rd16? p 3 with
    | some s, some e =>
      if s = 0 ∨ s > e then .stop (errorResponse cap op 0x01 s)
      else if (firstIndex srv s).isNone then .stop (errorResponse cap op 0x0A s)
      else .ok (s, e)
    | _, _ => .stop .oobRead

-- src: server.hpp:check_handle
def checkHandle (srv : Server) (cap : Nat) (op : UInt8) (p : Bytes) : Chk (Nat × Nat) :=
  match rd16? p 1 with
  | none => .stop .oobRead
  | some h =>
    if h = 0 then .stop (errorResponse cap op 0x01 h)
    else match indexByHandle srv h with
      | none => .stop (errorResponse cap op 0x01 h)
      | some i => .ok (h, i)

-- src: server.hpp:check_size_and_handle<A>
def checkSizeAndHandle (srv : Server) (cap : Nat) (op : UInt8) (p : Bytes) (A : Nat) : Chk (Nat × Nat) :=
  if p.length ≠ A then .stop (errorResponse cap op 0x04 0) else checkHandle srv cap op p

-- src: server.hpp:handle_exchange_mtu_request
def handleExchangeMtu (srv : Server) (cap : Nat) (op : UInt8) (p : Bytes) (cells : List Bytes) (c : Conn) : Out :=
  if p.length ≠ 3 then ⟨errorResponse cap op 0x04 0, cells, c⟩
  else match rd16? p 1 with
    | none => ⟨.oobRead, cells, c⟩
    | some mtu =>
      if mtu < 23 then ⟨errorResponse cap op 0x04 0, cells, c⟩
      else ⟨emit cap (0x03 :: le16 srv.mtu), cells, { c with clientMtu := mtu }⟩

-- src: server.hpp:handle_read_request / handle_read_blob_request (common tail)
def readResponse (H : Handlers) (srv : Server) (cap : Nat) (op rsp : UInt8) (cells : List Bytes) (c : Conn)
    (h i off : Nat) : Resp :=
  match srv.attrs[i]? with
  | none => .assertFail            -- attribute_at: "index out of bound"
  | some a =>
    match readAccess H srv cells c i a off (cap - 1) with
    | (.success, d) => emit cap (rsp :: d)
    | (.oob, _) => .oobWrite
    | (rc, _) => errorResponse cap op (attCode rc 0x02) h

-- src: server.hpp:handle_read_request
def handleRead (H : Handlers) (srv : Server) (cap : Nat) (op : UInt8) (p : Bytes) (cells : List Bytes) (c : Conn) : Resp :=
  match checkSizeAndHandle srv cap op p 3 with
  | .stop r => r
  | .ok (h, i) => readResponse H srv cap op 0x0B cells c h i 0

-- src: server.hpp:handle_read_blob_request
def handleReadBlob (H : Handlers) (srv : Server) (cap : Nat) (op : UInt8) (p : Bytes) (cells : List Bytes) (c : Conn) : Resp :=
  match checkSizeAndHandle srv cap op p 5 with
  | .stop r => r
  | .ok (h, i) =>
    match rd16? p 3 with
    | none => .oobRead
    | some off => readResponse H srv cap op 0x0D cells c h i off

/-- bytes 0..11 of the Bluetooth base UUID, little endian (src: uuid.hpp:bluetooth_base_uuid) -/
def baseUuid12 : Bytes := [0xFB, 0x34, 0x9B, 0x5F, 0x80, 0x00, 0x00, 0x80, 0x00, 0x10, 0x00, 0x00]

/-- `uuid_filter` (src: filter.hpp): `some u` = compare the 16 bit attribute type with `u`;
    `none` = a true 128 bit UUID: no attribute's access function answers `uuid_equal`, so the
    filter never matches -/
def uuidFilterRaw (t : Bytes) : Option Nat :=
  if t.length = 16 then
    (if t.take 12 = baseUuid12 ∧ t[14]? = some 0 ∧ t[15]? = some 0 then rd16? t 12 else none)
  else rd16? t 0

/-- since fix dd62180 (`attr.uuid != internal_128bit_uuid && …`) the 16 bit value 0x0001 — the
    marker of attributes with a 128 bit type, not a type — matches no attribute -/
def uuidFilter (t : Bytes) : Option Nat :=
  match uuidFilterRaw t with
  | some 1 => none
  | r => r

/-- state of `details::collect_attributes` -/
structure Collect where
  acc   : Bytes
  size  : Nat
  first : Bool

-- src: server.hpp:collect_attributes::operator()
def collectStep (H : Handlers) (srv : Server) (cells : List Bytes) (c : Conn) (room : Nat)
    (st : Collect) (idx : Nat) (a : Attr) : Collect :=
  if room - st.acc.length ≥ 2 then
    let maxData := min (room - st.acc.length) 255 - 2
    match readAccess H srv cells c idx a 0 maxData with
    | (.success, d) =>
      let size := if st.first then d.length + 2 else st.size
      if d.length + 2 = size then ⟨st.acc ++ le16 (idx + 1) ++ d, size, false⟩
      else ⟨st.acc, size, false⟩
    | _ => st
  else st

/-- `all_attributes` loop from index `idx`, `n` attributes to go -/
def collectLoop (H : Handlers) (srv : Server) (cells : List Bytes) (c : Conn) (room : Nat)
    (filter : Option Nat) : (n idx : Nat) → Collect → Collect
  | 0, _, st => st
  | n + 1, idx, st =>
    match srv.attrs[idx]? with
    | none => st
    | some a =>
      let st' := if filter = some a.uuid then collectStep H srv cells c room st idx a else st
      collectLoop H srv cells c room filter n (idx + 1) st'

-- src: server.hpp:last_handle_index
def lastHandleIndex (srv : Server) (e : Nat) : Nat :=
  match firstIndex srv e with
  | some i => i
  | none => srv.attrs.length - 1

-- src: server.hpp:handle_read_by_type_request (+ all_attributes)
def handleReadByType (H : Handlers) (srv : Server) (cap : Nat) (op : UInt8) (p : Bytes) (cells : List Bytes) (c : Conn) : Resp :=
  match checkRange srv cap op p 7 21 with
  | .stop r => r
  | .ok (s, e) =>
    match slice? p 5 (p.length - 5) with
    | none => .oobRead
    | some t =>
      let first := s - 1
      let last := lastHandleIndex srv e
      let st := collectLoop H srv cells c (cap - 2) (uuidFilter t) (last + 1 - first) first ⟨[], 0, true⟩
      if st.acc.isEmpty then errorResponse cap op 0x0A s
      -- `iterator.size()` is a std::uint8_t
      else emit cap ((0x09 :: UInt8.ofNat st.size :: st.acc).take (2 + st.acc.length % 256))

/-- `index <= end || end == invalid_attribute_index` -/
def leEnd (idx : Nat) : Option Nat → Bool
  | some e => idx ≤ e
  | none => true

/-- `collect_handle_uuid_tuples` loop -/
def infoLoop (srv : Server) (only16 : Bool) (tuple : Nat) (endIdx : Option Nat) (room : Nat) :
    (n idx : Nat) → Bytes → Option Bytes
  | 0, _, acc => some acc
  | n + 1, idx, acc =>
    if leEnd idx endIdx ∧ idx < srv.attrs.length ∧ room - acc.length ≥ tuple then
      match srv.attrs[idx]? with
      | none => none
      | some a =>
        let is16 := a.uuid != 1
        if only16 = is16 then
          if is16 then infoLoop srv only16 tuple endIdx room n (idx + 1) (acc ++ le16 (idx + 1) ++ le16 a.uuid)
          else
            -- write_128bit_uuid: the declaration in front of the value holds the UUID
            match srv.attrs[idx - 1]? with
            | some ⟨_, .charDecl uuid _ _ _ _ _, _, _⟩ =>
              if uuid.length = 16 ∧ idx ≥ 1 then infoLoop srv only16 tuple endIdx room n (idx + 1) (acc ++ le16 (idx + 1) ++ uuid)
              else none
            | _ => none
        else infoLoop srv only16 tuple endIdx room n (idx + 1) acc
    else some acc

-- src: server.hpp:handle_find_information_request
def handleFindInfo (srv : Server) (cap : Nat) (op : UInt8) (p : Bytes) : Resp :=
  match checkRange srv cap op p 5 5 with
  | .stop r => r
  | .ok (s, e) =>
    match srv.attrs[s - 1]? with
    | none => .assertFail
    | some a0 =>
      let only16 := a0.uuid != 1
      let tuple := if only16 then 4 else 18
      if cap < 2 then .oobWrite
      else match infoLoop srv only16 tuple (some (lastHandleIndex srv e)) (cap - 2) srv.attrs.length (s - 1) [] with
        | none => .assertFail
        | some acc => emit cap (0x05 :: (if only16 then 0x01 else 0x02) :: acc)

/-- (start index, number of attributes, uuid) of every service, in table order -/
def servicesFrom : List Attr → Nat → List (Nat × Nat × Bytes)
  | [], _ => []
  | a :: rest, i =>
    match a.kind with
    | .service u n => (i, n, u) :: servicesFrom rest (i + 1)
    | _ => servicesFrom rest (i + 1)

-- src: server.hpp:services_by_group::each + collect_find_by_type_groups
def groupLoop (value : Bytes) (startIdx : Nat) (endIdx : Option Nat) (room : Nat) :
    List (Nat × Nat × Bytes) → Bytes → Bytes
  | [], acc => acc
  | (i, n, u) :: rest, acc =>
    if startIdx ≤ i ∧ leEnd i endIdx ∧ u = value ∧ room - acc.length ≥ 4 then
      groupLoop value startIdx endIdx room rest (acc ++ le16 (i + 1) ++ le16 (i + n))
    else groupLoop value startIdx endIdx room rest acc

-- src: server.hpp:handle_find_by_type_value_request
def handleFindByType (srv : Server) (cap : Nat) (op : UInt8) (p : Bytes) : Resp :=
  match checkRange srv cap op p 9 23 with
  | .stop r => r
  | .ok (s, e) =>
    match rd16? p 5, slice? p 7 (p.length - 7) with
    | some t, some value =>
      if t ≠ 0x2800 then errorResponse cap op 0x10 s
      else
        let acc := groupLoop value (s - 1) (firstIndex srv e) (cap - 1) (servicesFrom srv.attrs 0) []
        if acc.isEmpty then errorResponse cap op 0x0A s
        else emit cap ((0x07 :: acc).take (1 + acc.length % 256))
    | _, _ => .oobRead

/-- state of `collect_primary_services`: output so far, stopped, first, is128, attribute_data_size -/
structure Prim where
  acc     : Bytes
  stopped : Bool
  first   : Bool
  is128   : Bool
  ads     : Nat

-- src: server.hpp:collect_primary_services::each + service.hpp:read_primary_service_response
-- (`endIdx` = `last_handle_index( ending_handle )` since repo fix 4b0715c; before that fix the
--  ending *handle* was compared with attribute *indices*)
def primLoop (startIdx endIdx room : Nat) : List (Nat × Nat × Bytes) → Prim → Prim
  | [], st => st
  | (i, n, u) :: rest, st =>
    if !st.stopped ∧ startIdx ≤ i ∧ i ≤ endIdx then
      let s128 := u.length = 16
      let st1 : Prim :=
        if st.first then { st with is128 := s128, first := false, ads := if s128 then 20 else 6 }
        else if st.is128 ≠ s128 then { st with stopped := true }
        else st
      let ads := if st1.is128 then 20 else 6
      let st2 : Prim :=
        if st1.is128 = s128 ∧ room - st1.acc.length ≥ ads then
          { st1 with acc := st1.acc ++ le16 (i + 1) ++ le16 (i + n) ++ u.take (room - st1.acc.length - 4) }
        else st1
      primLoop startIdx endIdx room rest st2
    else primLoop startIdx endIdx room rest st

-- src: server.hpp:handle_read_by_group_type_request
def handleReadByGroup (srv : Server) (cap : Nat) (op : UInt8) (p : Bytes) : Resp :=
  match checkRange srv cap op p 7 21 with
  | .stop r => r
  | .ok (s, e) =>
    match rd16? p 5 with
    | none => .oobRead
    | some t =>
      if p.length = 21 ∨ t ≠ 0x2800 then errorResponse cap op 0x10 s
      else if cap < 2 then .oobWrite
      else
        let st := primLoop (s - 1) (lastHandleIndex srv e) (cap - 2) (servicesFrom srv.attrs 0) ⟨[], false, true, true, 0⟩
        if st.acc.isEmpty then errorResponse cap op 0x0A s
        else emit cap (0x11 :: UInt8.ofNat st.ads :: st.acc)

-- src: server.hpp:handle_read_multiple_request (the loop over the handles)
def multiLoop (H : Handlers) (srv : Server) (cap : Nat) (op : UInt8) (cells : List Bytes) (c : Conn) :
    (handles : Bytes) → (acc : Bytes) → Resp
  | lo' :: hi' :: rest, acc =>
    let h := lo'.toNat + 256 * hi'.toNat
    if h = 0 then errorResponse cap op 0x01 h
    else match indexByHandle srv h with
      | none => errorResponse cap op 0x01 h
      | some i =>
        match srv.attrs[i]? with
        | none => .assertFail
        | some a =>
          match readAccess H srv cells c i a 0 (cap - acc.length) with
          | (.success, d) =>
            if acc.length + d.length ≤ cap then multiLoop H srv cap op cells c rest (acc ++ d) else .assertFail
          | (.oob, _) => .oobWrite
          | (rc, _) => errorResponse cap op (attCode rc 0x02) h
  | [], acc => emit cap acc
  | [_], _ => .oobRead

-- src: server.hpp:handle_read_multiple_request
def handleReadMultiple (H : Handlers) (srv : Server) (cap : Nat) (op : UInt8) (p : Bytes) (cells : List Bytes) (c : Conn) : Resp :=
  if p.length < 5 ∨ p.length % 2 = 0 then errorResponse cap op 0x04 0
  else multiLoop H srv cap op cells c (p.drop 1) [0x0F]

-- src: server.hpp:handle_write_request
def handleWrite (H : Handlers) (srv : Server) (cap : Nat) (op : UInt8) (p : Bytes) (cells : List Bytes) (c : Conn) : Out :=
  if p.length < 3 then ⟨errorResponse cap op 0x04 0, cells, c⟩
  else match checkHandle srv cap op p with
    | .stop r => ⟨r, cells, c⟩
    | .ok (h, i) =>
      match srv.attrs[i]? with
      | none => ⟨.assertFail, cells, c⟩
      | some a =>
        match writeAccess H srv cells c a 0 (p.drop 3) with
        | (.success, cells', cccd') => ⟨emit cap [0x13], cells', { c with cccd := cccd' }⟩
        | (.oob, cells', cccd') => ⟨.oobWrite, cells', { c with cccd := cccd' }⟩
        | (rc, cells', cccd') => ⟨errorResponse cap op (attCode rc 0x03) h, cells', { c with cccd := cccd' }⟩

-- src: server.hpp:handle_write_command
def handleWriteCommand (H : Handlers) (srv : Server) (cap : Nat) (op : UInt8) (p : Bytes) (cells : List Bytes) (c : Conn) : Out :=
  -- just like a write request, but ignore all output
  match (handleWrite H srv cap op p cells c).resp with
  | .pdu _ => { handleWrite H srv cap op p cells c with resp := .pdu [] }
  | _ => handleWrite H srv cap op p cells c

-- src: server.hpp:handle_value_confirmation
def handleConfirmation (cap : Nat) (op : UInt8) (p : Bytes) : Resp :=
  if p.length ≠ 1 then errorResponse cap op 0x04 0 else .pdu []

-- src: server.hpp:server::l2cap_input (the `switch ( opcode )`)
def dispatch (H : Handlers) (srv : Server) (cap : Nat) (op : UInt8) (p : Bytes) (cells : List Bytes) (c : Conn) : Out :=
  if op = 0x01 then ⟨.pdu [], cells, c⟩
  else if op = 0x02 then handleExchangeMtu srv cap op p cells c
  else if op = 0x04 then ⟨handleFindInfo srv cap op p, cells, c⟩
  else if op = 0x06 then ⟨handleFindByType srv cap op p, cells, c⟩
  else if op = 0x08 then ⟨handleReadByType H srv cap op p cells c, cells, c⟩
  else if op = 0x0A then ⟨handleRead H srv cap op p cells c, cells, c⟩
  else if op = 0x0C then ⟨handleReadBlob H srv cap op p cells c, cells, c⟩
  else if op = 0x10 then ⟨handleReadByGroup srv cap op p, cells, c⟩
  else if op = 0x0E then ⟨handleReadMultiple H srv cap op p cells c, cells, c⟩
  else if op = 0x12 then handleWrite H srv cap op p cells c
  else if op = 0x52 then handleWriteCommand H srv cap op p cells c
  -- handle_prepair_write_request / handle_execute_write_request( …, const details::no_such_type& )
  else if op = 0x16 then ⟨errorResponse cap op 0x06 0, cells, c⟩
  else if op = 0x18 then ⟨errorResponse cap op 0x06 0, cells, c⟩
  else if op = 0x1E then ⟨handleConfirmation cap op p, cells, c⟩
  else ⟨errorResponse cap op 0x06 0, cells, c⟩

-- src: server.hpp:server::l2cap_input
def l2capInput (H : Handlers) (srv : Server) (cells : List Bytes) (c : Conn) : Bytes → Nat → Out
  | [], _ => ⟨.assertFail, cells, c⟩                    -- assert( in_size != 0 )
  | op :: rest, outSize =>
    -- clip the output size to the negotiated mtu; assert( out_size >= default_att_mtu_size )
    if min outSize (negotiatedMtu srv c) < 23 then ⟨.assertFail, cells, c⟩
    else dispatch H srv (min outSize (negotiatedMtu srv c)) op (op :: rest) cells c

/-- `l2cap_output` for the dequeued entry `(indication?, pos)` (the queue itself is the attnotify
    component's subject).  This is the code WITH fix attaccess-01 applied: the output size is
    clipped to the negotiated MTU first.
    src: server.hpp:server::l2cap_output -/
def l2capOutput (H : Handlers) (srv : Server) (cells : List Bytes) (c : Conn) (ind : Bool) (pos : Nat)
    (outSize : Nat) : Resp :=
  let cap := min outSize (negotiatedMtu srv c)
  match srv.ntf[pos]?, cccdFlags c pos with
  | some idx, some f =>
    let required := if ind then 2 else 1
    if f / required % 2 = 1 ∧ cap ≥ 3 then
      match srv.attrs[idx]? with
      | none => .assertFail
      | some a =>
        match readAccess H srv cells c idx a 0 (cap - 3) with
        | (.success, d) => emit cap ((if ind then 0x1D else 0x1B) :: (le16 (idx + 1) ++ d))
        | (.oob, _) => .oobWrite
        | _ => .pdu []
    else .pdu []
  | _, _ => .assertFail

/-- the unpatched `l2cap_output` (no clipping), kept for the witness of finding C08 -/
def l2capOutputUnfixed (H : Handlers) (srv : Server) (cells : List Bytes) (c : Conn) (ind : Bool) (pos : Nat)
    (outSize : Nat) : Resp :=
  l2capOutput H { srv with mtu := outSize } cells { c with clientMtu := outSize } ind pos outSize

/-! ## well-formedness of a table / a state (what the C++ type system guarantees by construction;
  the driver checks both on every table dumped from the real templates) -/

/-- attribute `idx` of the table is well-formed w.r.t. the table: an attribute whose 16 bit type is
    `internal_128bit_uuid` directly follows a characteristic declaration holding a 16 byte UUID
    (src: characteristic.hpp: only `characteristic_value_declaration_parameter` yields that type) -/
def attrTableOk (srv : Server) (idx : Nat) (a : Attr) : Bool :=
  if a.uuid = 1 then
    decide (1 ≤ idx) &&
      (match srv.attrs[idx - 1]? with
       | some ⟨_, .charDecl uuid _ _ _ _ _, _, _⟩ => decide (uuid.length = 16)
       | _ => false)
  else true

/-- well-formed table (decidable): `max_mtu_size ≥ 23`, `attrTableOk` for every attribute,
    `find_notification_data_by_index` yields existing attributes -/
def TableWF (srv : Server) : Bool :=
  decide (23 ≤ srv.mtu) &&
  (List.range srv.attrs.length).all (fun i => match srv.attrs[i]? with
    | some a => attrTableOk srv i a
    | none => true) &&
  srv.ntf.all (fun i => decide (i < srv.attrs.length))

/-- the memory behind attribute `a` exists: `lens` = sizes of the memory cells, `ncccd` = number of
    CCCD entries of the connection -/
def attrStateOk (lens : List Nat) (ncccd : Nat) (a : Attr) : Bool :=
  match a.kind with
  | .bound cell size _ _ => (match lens[cell]? with
      | some n => decide (size ≤ n)
      | none => false)
  | .cccd pos => decide (pos < ncccd)
  | _ => true

/-- well-formed state (decidable): a bound value's memory is at least `sizeof(T)` bytes, every CCCD
    position indexes the connection's configuration array (`number_of_client_configs` entries);
    depends on the memory only through the sizes of the cells -/
def StateWF (srv : Server) (cells : List Bytes) (c : Conn) : Bool :=
  srv.attrs.all (attrStateOk (cells.map List.length) c.cccd.length) && decide (srv.ntf.length ≤ c.cccd.length)

/-! ## the handlers of the harness (harness/attaccess/servers.hpp h_read_blob … h_write) -/

def stdReadBlob (cell : Nat) (cells : List Bytes) (off readSize : Nat) : Nat × Bytes :=
  match cells[cell]? with
  | none => (0x0E, [])
  | some m => if off > m.length then (0x07, []) else (0, (m.drop off).take (min readSize (m.length - off)))

def stdReadPlain (cell : Nat) (cells : List Bytes) (readSize : Nat) : Nat × Bytes :=
  match cells[cell]? with
  | none => (0x0E, [])
  | some m => (0, m.take (min readSize m.length))

def stdWriteBlob (cell : Nat) (cells : List Bytes) (off : Nat) (v : Bytes) : Nat × List Bytes :=
  match cells[cell]? with
  | none => (0x0E, cells)
  | some m =>
    if off > m.length then (0x07, cells)
    else if off + v.length > m.length then (0x0D, cells)
    else (0, cells.set cell (m.take off ++ v ++ m.drop (off + v.length)))

def stdWritePlain (cell : Nat) (cells : List Bytes) (v : Bytes) : Nat × List Bytes :=
  match cells[cell]? with
  | none => (0x0E, cells)
  | some m =>
    if v.length > m.length then (0x0D, cells)
    else if v.head? = some 0xEE then (0x80, cells)
    else (0, cells.set cell (v ++ m.drop v.length))

def Handlers.std : Handlers := ⟨stdReadBlob, stdReadPlain, stdWriteBlob, stdWritePlain⟩

end BluetoeModel.AttAccess
