import BluetoeModel.Cccd.Model
/-
  Model of the shared write queue and of the ATT requests that use it.

  src: bluetoe/write_queue.hpp  (`write_queue< shared_write_queue< S > >`, `write_queue_guard`)
       bluetoe/server.hpp       (`handle_prepair_write_request`, `handle_execute_write_request`,
                                 `client_disconnected`)
  with the `fix:` of fixes/attwq-01 applied: the permission probe of Prepare Write carries the
  connection's security attributes and client configuration
  (`attribute_access_arguments::check_write( cc, cs, server )`).

  The attribute access functions, connections and the requests that do not involve the queue are
  the ones of `BluetoeModel.Cccd.Model`.
-/
namespace BluetoeModel.AttWriteQueue
open BluetoeModel.Cccd

/-- `write_queue< shared_write_queue< S > >`: `owner` is `current_client_` (index of the
    connection, `none` = nullptr), `buf` is the live prefix `buffer_[0 .. buffer_end_)`; bytes
    behind `buffer_end_` are dead (never read before they are overwritten) -/
structure Queue where
  owner : Option Nat
  buf   : List UInt8
deriving DecidableEq, Repr

-- src: write_queue()
def Queue.empty : Queue := { owner := none, buf := [] }

/-- `allocate_from_write_queue( size, client )` followed by the `std::copy` of the caller that
    fills the element; `none` = nullptr (no room or held by another client) -/
-- src: write_queue::allocate_from_write_queue + std::copy in handle_prepair_write_request
def Queue.enqueue (q : Queue) (S : Nat) (client : Nat) (elem : List UInt8) : Option Queue :=
  if elem.length + 2 > S - q.buf.length ∨ (q.owner ≠ none ∧ q.owner ≠ some client) then none
  else some { owner := some client,
              buf := q.buf ++ [UInt8.ofNat (elem.length % 256), UInt8.ofNat (elem.length / 256)] ++ elem }

-- src: write_queue::free_write_queue
def Queue.free (q : Queue) (client : Nat) : Queue :=
  if q.owner = some client then Queue.empty else q

/-- the elements in `buf`, front to back: two length bytes (`read_size`), then the element;
    `none` = the C++ iteration would run past `buffer_end_` -/
-- src: write_queue::first_write_queue_element / next_write_queue_element / read_size
def elementsAux : Nat → List UInt8 → Option (List (List UInt8))
  | _, [] => some []
  | 0, _ :: _ => none
  | _ + 1, [_] => none
  | fuel + 1, lo :: hi :: rest =>
      let n := lo.toNat + hi.toNat * 256
      if n ≤ rest.length then
        match elementsAux fuel (rest.drop n) with
        | some es => some (rest.take n :: es)
        | none => none
      else none

def elements (buf : List UInt8) : Option (List (List UInt8)) := elementsAux buf.length buf

/-- the elements the loop of Execute Write visits for `client` -/
-- src: first_write_queue_element: `current_client_ != &client || buffer_end_ == 0` ⇒ nullptr
def Queue.elementsOf (q : Queue) (client : Nat) : Option (List (List UInt8)) :=
  if q.owner ≠ some client ∨ q.buf = [] then some [] else elements q.buf

structure State where
  base  : Cccd.State
  queue : Queue
deriving Repr

def State.init (d : Decl) (mem : Mem) : State := { base := Cccd.State.init d mem, queue := Queue.empty }

/-- Prepare Write Request on a server with `shared_write_queue< S >` -/
-- src: server::handle_prepair_write_request( …, const WriteQueue& )
def handlePrepare (s : State) (S : Nat) (ci : Nat) (conn : Conn) (pdu : List UInt8) : State × Out :=
  match pdu with
  | op :: lo :: hi :: _ :: _ :: _ =>
      let h := read16 lo hi
      match attrAt? s.base.decl h with
      | none => (s, .resp (errorResponse op 0x01 h) 0)
      | some a =>
          -- attribute_access_arguments::check_write( cc, cs, this ): a write of no bytes at offset 0
          match writeAccess s.base.mem conn.cfg conn.sec a 0 [] with
          | none => (s, .oob)
          | some r =>
              let base' := setConn { s.base with mem := r.mem } ci { conn with cfg := r.cfg }
              if r.rc ≠ .success then
                ({ s with base := base' }, .resp (errorResponse op r.rc.att h) (cbCount r.cb))
              else
                match s.queue.enqueue S ci (pdu.drop 1) with
                | none => ({ s with base := base' }, .resp (errorResponse op 0x09 h) (cbCount r.cb))
                | some q' =>
                    -- out_size = min( out_size, in_size ); copy( input + 1, input + out_size, output + 1 )
                    ({ base := base', queue := q' },
                     .resp (0x17 :: (pdu.take (negotiatedMtu s.base.decl conn)).drop 1) (cbCount r.cb))
  | op :: _ => (s, .resp (errorResponse op 0x04 0) 0)
  | [] => (s, .bad)

/-- result of applying queued writes -/
structure Applied where
  mem  : Mem
  cfg  : Config
  cb   : Nat
  /-- the first failing write: its access result and handle -/
  fail : Option (Rc × Nat)
deriving Repr

/-- the loop body of Execute Write over the queued elements, stopping at the first write that
    fails; `none` = out-of-bounds access (element shorter than its header / handle without attribute) -/
-- src: server::handle_execute_write_request (for loop)
def applyQueued (d : Decl) (sec : Sec) (mem : Mem) (cfg : Config) (cb : Nat) :
    List (List UInt8) → Option Applied
  | [] => some ⟨mem, cfg, cb, none⟩
  | e :: es =>
      match e with
      | lo :: hi :: olo :: ohi :: data =>
          let h := read16 lo hi
          match attrAt? d h with
          | none => none     -- attribute_at( invalid_attribute_index )
          | some a =>
              match writeAccess mem cfg sec a (read16 olo ohi) data with
              | none => none
              | some r =>
                  if r.rc = .success then applyQueued d sec r.mem r.cfg (cb + cbCount r.cb) es
                  else some ⟨r.mem, r.cfg, cb + cbCount r.cb, some (r.rc, h)⟩
      | _ => none

/-- Execute Write Request on a server with a write queue -/
-- src: server::handle_execute_write_request( …, const WriteQueue& ) + write_queue_guard
def handleExecute (s : State) (ci : Nat) (conn : Conn) (pdu : List UInt8) : State × Out :=
  match pdu with
  | [op, flag] =>
      if flag ≠ 0 ∧ flag ≠ 1 then (s, .resp (errorResponse op 0x04 0) 0)
      else if flag = 1 then
        match s.queue.elementsOf ci with
        | none => (s, .oob)
        | some es =>
            match applyQueued s.base.decl conn.sec s.base.mem conn.cfg 0 es with
            | none => (s, .oob)
            | some r =>
                let base' := setConn { s.base with mem := r.mem } ci { conn with cfg := r.cfg }
                let s' : State := { base := base', queue := s.queue.free ci }
                match r.fail with
                | some (rc, h) =>
                    (s', .resp (errorResponse op (if rc = .invalidLength then 0x0d else 0x07) h) r.cb)
                | none => (s', .resp [0x19] r.cb)
      else ({ s with queue := s.queue.free ci }, .resp [0x19] 0)
  | op :: _ => (s, .resp (errorResponse op 0x04 0) 0)
  | [] => (s, .bad)

/-- one harness op; servers without a write queue behave as `Cccd.step` -/
def step (s : State) (op : Op) : State × Out :=
  match s.base.conns[op.conn]? with
  | none => (s, .bad)
  | some conn =>
      match op with
      | .pdu ci (o :: rest) =>
          match s.base.decl.queueSize with
          | none => let (b, out) := Cccd.step s.base op; ({ s with base := b }, out)
          | some S =>
              if o = 0x16 then handlePrepare s S ci conn (o :: rest)
              else if o = 0x18 then handleExecute s ci conn (o :: rest)
              else let (b, out) := handlePlain s.base ci conn (o :: rest); ({ s with base := b }, out)
      | .pdu _ [] => (s, .bad)
      -- src: server::client_disconnected → free_write_queue; then the harness re-constructs the
      -- connection data
      | .disc ci =>
          ({ base := setConn s.base ci (Conn.init s.base.decl), queue := s.queue.free ci }, .ok)
      | op => match stepConn s.base op.conn conn op with
          | some (b, out) => ({ s with base := b }, out)
          | none => (s, .bad)

def run (s : State) : List Op → State × List Out
  | [] => (s, [])
  | op :: ops =>
      let (s', o) := step s op
      let (s'', os) := run s' ops
      (s'', o :: os)

end BluetoeModel.AttWriteQueue
