import BluetoeModel.AttWriteQueue.Lemmas
/-!
  The byte level queue holds exactly the accepted prepared writes of its owner, in order:
  encoding of the queue content, ghost tracking of a history, the invariant tying the two.
-/
namespace BluetoeModel.AttWriteQueue
open BluetoeModel.Cccd

/-- byte image of a list of queue elements: two length bytes, then the element -/
def encode : List (List UInt8) → List UInt8
  | [] => []
  | e :: es => UInt8.ofNat (e.length % 256) :: UInt8.ofNat (e.length / 256) :: (e ++ encode es)

theorem encode_append (es : List (List UInt8)) (e : List UInt8) :
    encode (es ++ [e]) = encode es ++ [UInt8.ofNat (e.length % 256), UInt8.ofNat (e.length / 256)] ++ e := by
  induction es with
  | nil => simp [encode]
  | cons x xs ih => simp [encode, ih]

theorem take_len_append {α} (a b : List α) : (a ++ b).take a.length = a := by
  induction a <;> simp_all

theorem drop_len_append {α} (a b : List α) : (a ++ b).drop a.length = b := by
  induction a <;> simp_all

theorem len_roundtrip (n : Nat) (h : n < 65536) :
    (UInt8.ofNat (n % 256)).toNat + (UInt8.ofNat (n / 256)).toNat * 256 = n := by
  simp only [UInt8.toNat_ofNat']
  omega

theorem elementsAux_encode (es : List (List UInt8)) (h : ∀ e ∈ es, e.length < 65536) (fuel : Nat)
    (hf : (encode es).length ≤ fuel) : elementsAux fuel (encode es) = some es := by
  induction es generalizing fuel with
  | nil => cases fuel <;> simp [encode, elementsAux]
  | cons e es ih =>
    cases fuel with
    | zero => simp [encode] at hf
    | succ f =>
      have hl : (encode (e :: es)).length = 2 + e.length + (encode es).length := by
        simp [encode]; omega
      simp only [encode, elementsAux]
      rw [len_roundtrip _ (h e (by simp))]
      simp only [List.length_append, Nat.le_add_right, if_true, take_len_append, drop_len_append]
      rw [ih (fun x hx => h x (by simp [hx])) f (by omega)]

/-- decoding the queue bytes gives back exactly the enqueued elements, in order -/
theorem elements_encode (es : List (List UInt8)) (h : ∀ e ∈ es, e.length < 65536) :
    elements (encode es) = some es :=
  elementsAux_encode es h _ (Nat.le_refl _)

/-! ### ghost tracking of a history -/

/-- owner and queued writes as they follow from the *answers* a history got -/
structure Ghost where
  owner : Option Nat
  items : List (List UInt8)
deriving DecidableEq, Repr

/-- the answer is a Prepare Write Response -/
def accepted : Out → Bool
  | .resp (b :: _) _ => b == 0x17
  | _ => false

/-- the answer shows that the Execute Write Request was carried out: Execute Write Response, or
    the error of a failing queued write (Invalid Attribute Value Length / Invalid Offset) -/
def executed : Out → Bool
  | .resp [b] _ => b == 0x19
  | .resp [e, o, _, _, code] _ => e == 0x01 && o == 0x18 && (code == 0x0d || code == 0x07)
  | _ => false

/-- accepted prepares are appended for their sender; a carried out execute / cancel or a
    disconnect of the owner empties the list -/
def track (g : Ghost) (op : Op) (out : Out) : Ghost :=
  match op with
  | .pdu c (o :: rest) =>
      if o = 0x16 then (if accepted out then ⟨some c, g.items ++ [rest]⟩ else g)
      else if o = 0x18 then (if executed out ∧ g.owner = some c then ⟨none, []⟩ else g)
      else g
  | .disc c => if out = .ok ∧ g.owner = some c then ⟨none, []⟩ else g
  | _ => g

def trackAll (g : Ghost) : List Op → List Out → Ghost
  | op :: ops, o :: os => trackAll (track g op o) ops os
  | _, _ => g

/-- the invariant: the byte queue is the encoding of the tracked writes of the tracked owner -/
structure Rel (s : State) (g : Ghost) : Prop where
  owner : s.queue.owner = g.owner
  buf   : s.queue.buf = encode g.items
  len   : ∀ e ∈ g.items, e.length < 65536

/-! ### the declaration never changes -/

theorem handleWrite_decl (s : Cccd.State) (ci : Nat) (conn : Conn) (op : UInt8) (pdu : List UInt8) (b : Bool) :
    (handleWrite s ci conn op pdu b).1.decl = s.decl := by
  simp only [handleWrite]
  repeat' (first | rfl | split)

theorem handlePlain_decl (s : Cccd.State) (ci : Nat) (conn : Conn) (pdu : List UInt8) :
    (handlePlain s ci conn pdu).1.decl = s.decl := by
  simp only [handlePlain]
  repeat' (first | rfl | apply handleWrite_decl | split)

theorem stepConn_decl (s : Cccd.State) (ci : Nat) (conn : Conn) (op : Op) (r : Cccd.State × Out)
    (h : stepConn s ci conn op = some r) : r.1.decl = s.decl := by
  cases op with
  | sec c e p => simp only [stepConn] at h; cases h; rfl
  | mtu c n =>
    simp only [stepConn] at h
    split at h <;> (cases h; rfl)
  | pdu c b => simp [stepConn] at h
  | disc c => simp [stepConn] at h

theorem cccd_step_decl (s : Cccd.State) (op : Op) : (Cccd.step s op).1.decl = s.decl := by
  simp only [Cccd.step]
  split
  · rfl
  · split
    · split
      · rfl
      · apply handlePlain_decl
    · rfl
    · rfl
    · split
      · rename_i h; exact stepConn_decl _ _ _ _ _ h
      · rfl

theorem handlePrepare_decl (s : State) (S ci : Nat) (conn : Conn) (pdu : List UInt8) :
    (handlePrepare s S ci conn pdu).1.base.decl = s.base.decl := by
  simp only [handlePrepare]
  repeat' (first | rfl | split)

theorem handleExecute_decl (s : State) (ci : Nat) (conn : Conn) (pdu : List UInt8) :
    (handleExecute s ci conn pdu).1.base.decl = s.base.decl := by
  simp only [handleExecute]
  repeat' (first | rfl | split)

theorem step_decl (s : State) (op : Op) : (step s op).1.base.decl = s.base.decl := by
  simp only [step]
  split
  · rfl
  · split
    · split
      · apply cccd_step_decl
      · split
        · apply handlePrepare_decl
        · split
          · apply handleExecute_decl
          · apply handlePlain_decl
    · rfl
    · rfl
    · split
      · rename_i h; exact stepConn_decl _ _ _ _ _ h
      · rfl

end BluetoeModel.AttWriteQueue
