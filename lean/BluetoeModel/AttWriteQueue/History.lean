import BluetoeModel.AttWriteQueue.Lemmas
/-!
  The byte level queue holds exactly the accepted prepared writes of its owner, in order:
  encoding of the queue content, ghost tracking of a history, the invariant tying the two.
-/
namespace BluetoeModel.AttWriteQueue
open BluetoeModel.Cccd

/-- byte image of a list of queue elements: two length bytes, then the element -/
def encode : List (List UInt8) → List UInt8
  | [] => []
  | e :: es => UInt8.ofNat (e.length % 256) :: UInt8.ofNat (e.length / 256) :: (e ++ encode es)

theorem encode_append (es : List (List UInt8)) (e : List UInt8) :
    encode (es ++ [e]) = encode es ++ [UInt8.ofNat (e.length % 256), UInt8.ofNat (e.length / 256)] ++ e := by
  induction es with
  | nil => simp [encode]
  | cons x xs ih => simp [encode, ih]

theorem take_len_append {α} (a b : List α) : (a ++ b).take a.length = a := by
  induction a <;> simp_all

theorem drop_len_append {α} (a b : List α) : (a ++ b).drop a.length = b := by
  induction a <;> simp_all

theorem len_roundtrip (n : Nat) (h : n < 65536) :
    (UInt8.ofNat (n % 256)).toNat + (UInt8.ofNat (n / 256)).toNat * 256 = n := by
  simp only [UInt8.toNat_ofNat']
  omega

theorem elementsAux_encode (es : List (List UInt8)) (h : ∀ e ∈ es, e.length < 65536) (fuel : Nat)
    (hf : (encode es).length ≤ fuel) : elementsAux fuel (encode es) = some es := by
  induction es generalizing fuel with
  | nil => cases fuel <;> simp [encode, elementsAux]
  | cons e es ih =>
    cases fuel with
    | zero => simp [encode] at hf
    | succ f =>
      have hl : (encode (e :: es)).length = 2 + e.length + (encode es).length := by
        simp [encode]; omega
      simp only [encode, elementsAux]
      rw [len_roundtrip _ (h e (by simp))]
      simp only [List.length_append, Nat.le_add_right, if_true, take_len_append, drop_len_append]
      rw [ih (fun x hx => h x (by simp [hx])) f (by omega)]

/-- decoding the queue bytes gives back exactly the enqueued elements, in order -/
theorem elements_encode (es : List (List UInt8)) (h : ∀ e ∈ es, e.length < 65536) :
    elements (encode es) = some es :=
  elementsAux_encode es h _ (Nat.le_refl _)

/-! ### ghost tracking of a history -/

/-- owner and queued writes as they follow from the *answers* a history got -/
structure Ghost where
  owner : Option Nat
  items : List (List UInt8)
deriving DecidableEq, Repr

/-- the answer is a Prepare Write Response -/
def accepted : Out → Bool
  | .resp (b :: _) _ => b == 0x17
  | _ => false

/-- the answer shows that the Execute Write Request was carried out: Execute Write Response, or
    the error of a failing queued write (Invalid Attribute Value Length / Invalid Offset) -/
def executed : Out → Bool
  | .resp [b] _ => b == 0x19
  | .resp [e, o, _, _, code] _ => e == 0x01 && o == 0x18 && (code == 0x0d || code == 0x07)
  | _ => false

/-- accepted prepares are appended for their sender; a carried out execute / cancel or a
    disconnect of the owner empties the list -/
def track (g : Ghost) (op : Op) (out : Out) : Ghost :=
  match op with
  | .pdu c (o :: rest) =>
      if o = 0x16 then (if accepted out then ⟨some c, g.items ++ [rest]⟩ else g)
      else if o = 0x18 then (if executed out ∧ g.owner = some c then ⟨none, []⟩ else g)
      else g
  | .disc c => if out = .ok ∧ g.owner = some c then ⟨none, []⟩ else g
  | _ => g

def trackAll (g : Ghost) : List Op → List Out → Ghost
  | op :: ops, o :: os => trackAll (track g op o) ops os
  | _, _ => g

/-- the invariant: the byte queue is the encoding of the tracked writes of the tracked owner -/
structure Rel (q : Queue) (g : Ghost) : Prop where
  owner : q.owner = g.owner
  buf   : q.buf = encode g.items
  len   : ∀ e ∈ g.items, e.length < 65536

/-! ### the declaration never changes -/

theorem handleWrite_decl (s : Cccd.State) (ci : Nat) (conn : Conn) (op : UInt8) (pdu : List UInt8) (b : Bool) :
    (handleWrite s ci conn op pdu b).1.decl = s.decl := by
  simp only [handleWrite]
  repeat' (first | rfl | split)

theorem handlePlain_decl (s : Cccd.State) (ci : Nat) (conn : Conn) (pdu : List UInt8) :
    (handlePlain s ci conn pdu).1.decl = s.decl := by
  simp only [handlePlain]
  repeat' (first | rfl | apply handleWrite_decl | split)

theorem stepConn_decl (s : Cccd.State) (ci : Nat) (conn : Conn) (op : Op) (r : Cccd.State × Out)
    (h : stepConn s ci conn op = some r) : r.1.decl = s.decl := by
  cases op with
  | sec c e p => simp only [stepConn] at h; cases h; rfl
  | mtu c n =>
    simp only [stepConn] at h
    split at h <;> (cases h; rfl)
  | pdu c b => simp [stepConn] at h
  | disc c => simp [stepConn] at h

theorem cccd_step_decl (s : Cccd.State) (op : Op) : (Cccd.step s op).1.decl = s.decl := by
  simp only [Cccd.step]
  split
  · rfl
  · split
    · split
      · rfl
      · apply handlePlain_decl
    · rfl
    · rfl
    · split
      · rename_i h; exact stepConn_decl _ _ _ _ _ h
      · rfl

theorem handlePrepare_decl (s : State) (S ci : Nat) (conn : Conn) (pdu : List UInt8) :
    (handlePrepare s S ci conn pdu).1.base.decl = s.base.decl := by
  simp only [handlePrepare]
  repeat' (first | rfl | split)

theorem handleExecute_decl (s : State) (ci : Nat) (conn : Conn) (pdu : List UInt8) :
    (handleExecute s ci conn pdu).1.base.decl = s.base.decl := by
  simp only [handleExecute]
  repeat' (first | rfl | split)

theorem step_decl (s : State) (op : Op) : (step s op).1.base.decl = s.base.decl := by
  simp only [step]
  split
  · rfl
  · split
    · split
      · apply cccd_step_decl
      · split
        · apply handlePrepare_decl
        · split
          · apply handleExecute_decl
          · apply handlePlain_decl
    · rfl
    · rfl
    · split
      · rename_i h; exact stepConn_decl _ _ _ _ _ h
      · rfl

/-! ### one step keeps the invariant -/

theorem rel_empty : Rel Queue.empty ⟨none, []⟩ := ⟨rfl, rfl, by simp⟩

theorem enqueue_rel {q q' : Queue} {g : Ghost} (h : Rel q g) {S c : Nat} {e : List UInt8}
    (hS : S < 65536) (he : q.enqueue S c e = some q') : Rel q' ⟨some c, g.items ++ [e]⟩ := by
  unfold Queue.enqueue at he
  split at he
  · contradiction
  · rename_i hcond
    cases he
    refine ⟨rfl, ?_, ?_⟩
    · simp only [h.buf, encode_append]
    · intro x hx
      rcases List.mem_append.mp hx with hx | hx
      · exact h.len x hx
      · have hx' : x = e := by simpa using hx
        subst hx'
        have : ¬ (x.length + 2 > S - q.buf.length) := fun y => hcond (Or.inl y)
        omega

theorem free_rel {q : Queue} {g : Ghost} (h : Rel q g) (c : Nat) :
    Rel (q.free c) (if g.owner = some c then ⟨none, []⟩ else g) := by
  unfold Queue.free
  rw [h.owner]
  split
  · exact rel_empty
  · exact h

theorem accepted_error (op code : UInt8) (hd : Nat) (cb : Nat) :
    accepted (.resp (errorResponse op code hd) cb) = false := by
  simp [accepted, errorResponse]

theorem handlePrepare_tracks (s : State) (g : Ghost) (h : Rel s.queue g) (S : Nat) (hS : S < 65536)
    (c : Nat) (conn : Conn) (rest : List UInt8) :
    Rel (handlePrepare s S c conn (0x16 :: rest)).1.queue
      (if accepted (handlePrepare s S c conn (0x16 :: rest)).2 then ⟨some c, g.items ++ [rest]⟩ else g) := by
  rcases rest with _ | ⟨lo, _ | ⟨hi, _ | ⟨olo, _ | ⟨ohi, data⟩⟩⟩⟩ <;>
    simp only [handlePrepare, accepted_error, Bool.false_eq_true, if_false]
  · exact h
  · exact h
  · exact h
  · exact h
  · cases ha : attrAt? s.base.decl (read16 lo hi) with
    | none => simp only [accepted_error, Bool.false_eq_true, if_false]; exact h
    | some a =>
      cases hw : writeAccess s.base.mem conn.cfg conn.sec a 0 [] with
      | none => simp only [hw, accepted, Bool.false_eq_true, if_false]; exact h
      | some w =>
        by_cases hrc : w.rc = .success
        · cases he : s.queue.enqueue S c (lo :: hi :: olo :: ohi :: data) with
          | none =>
            simp only [hw, hrc, ne_eq, not_true_eq_false, if_false, List.drop_succ_cons, List.drop_zero, he,
              accepted_error, Bool.false_eq_true]
            exact h
          | some q' =>
            simp only [hw, hrc, ne_eq, not_true_eq_false, if_false, List.drop_succ_cons, List.drop_zero, he,
              accepted, beq_self_eq_true, if_true]
            exact enqueue_rel h hS he
        · simp only [hw, hrc, ne_eq, not_false_eq_true, if_true, accepted_error, Bool.false_eq_true, if_false]
          exact h

theorem executed_invalid (hd cb : Nat) : executed (.resp (errorResponse 0x18 0x04 hd) cb) = false := by
  simp [executed, errorResponse]

theorem executed_fail (rc : Rc) (hd cb : Nat) :
    executed (.resp (errorResponse 0x18 (if rc = .invalidLength then 0x0d else 0x07) hd) cb) = true := by
  by_cases h : rc = .invalidLength <;> simp [executed, errorResponse, h]

theorem handleExecute_tracks (s : State) (g : Ghost) (h : Rel s.queue g) (c : Nat) (conn : Conn)
    (rest : List UInt8) :
    Rel (handleExecute s c conn (0x18 :: rest)).1.queue
      (if executed (handleExecute s c conn (0x18 :: rest)).2 = true ∧ g.owner = some c then ⟨none, []⟩ else g) := by
  rcases rest with _ | ⟨flag, _ | ⟨x, tl⟩⟩
  · simp only [handleExecute, executed_invalid, Bool.false_eq_true, false_and, if_false]; exact h
  · simp only [handleExecute]
    by_cases hbad : flag ≠ 0 ∧ flag ≠ 1
    · rw [if_pos hbad]
      simp only [executed_invalid, Bool.false_eq_true, false_and, if_false]; exact h
    · rw [if_neg hbad]
      by_cases h1 : flag = 1
      · rw [if_pos h1]
        cases hel : s.queue.elementsOf c with
        | none => simp only [executed, Bool.false_eq_true, false_and, if_false]; exact h
        | some es =>
          cases hap : applyQueued s.base.decl conn.sec s.base.mem conn.cfg 0 es with
          | none => simp only [hap, executed, Bool.false_eq_true, false_and, if_false]; exact h
          | some r =>
            cases hf : r.fail with
            | none =>
              simp only [hap, hf, executed, beq_self_eq_true, true_and]
              exact free_rel h c
            | some p =>
              obtain ⟨rc, hd⟩ := p
              simp only [hap, hf, executed_fail, true_and]
              exact free_rel h c
      · rw [if_neg h1]
        simp only [executed, beq_self_eq_true, true_and]
        exact free_rel h c
  · simp only [handleExecute, executed_invalid, Bool.false_eq_true, false_and, if_false]; exact h

end BluetoeModel.AttWriteQueue
