import BluetoeModel.AttWriteQueue.Lemmas
/-!
  # C07 — Prepared writes are deferred, per-client and applied in order

  "With a shared write queue, Prepare Write Requests never change a value; Execute Write with
  flag 1 applies exactly the queued writes of that client in queue order, flag 0 discards them,
  and the queue is released on execute, cancel or disconnect. While one client holds the queue
  every other client gets 'Prepare Queue Full', and a prepared write is accepted exactly when a
  Write Request to the same attribute on the same connection would be permitted."

  The model is the code with `fixes/attwq-01-prepare-write-connection-attributes.patch` applied
  (the unfixed code violates the last sentence, see `unfixed_probe_witness`).
-/
namespace BluetoeModel.AttWriteQueue
open BluetoeModel.Cccd

/-! ## "Prepare Write Requests never change a value" -/

/-- **prepare_no_effect**: whatever the state, the connection and the bytes of a Prepare Write
    Request, the values, all client configurations and all link states are unchanged -/
theorem prepare_no_effect (s : State) (c : Nat) (rest : List UInt8) :
    (step s (.pdu c (0x16 :: rest))).1.base = s.base := by
  unfold step
  simp only [Op.conn]
  cases hconn : s.base.conns[c]? with
  | none => rfl
  | some conn =>
    simp only []
    cases hq : s.base.decl.queueSize with
    | none =>
      simp only [Cccd.step, Op.conn, hconn]
      simp
    | some S =>
      simp only [if_true]
      rcases rest with _ | ⟨lo, _ | ⟨hi, _ | ⟨olo, _ | ⟨ohi, data⟩⟩⟩⟩ <;> simp only [handlePrepare]
      cases ha : attrAt? s.base.decl (read16 lo hi) with
      | none => rfl
      | some a =>
        cases hw : writeAccess s.base.mem conn.cfg conn.sec a 0 [] with
        | none => (simp only [hw]; try rfl)
        | some r =>
          obtain ⟨h1, h2, _⟩ := writeAccess_empty hw
          have hb : setConn ⟨s.base.decl, s.base.mem, s.base.conns⟩ c ⟨conn.sec, conn.clientMtu, conn.cfg⟩
              = s.base := setConn_self hconn
          simp only [hw, h1, h2, hb]
          split
          · rfl
          · split <;> rfl

example : (step (State.init { attrs := [.ro, .ro, .value 0 2 true true false], queueSize := some 16 } [[1, 2]])
    (.pdu 0 [0x16, 3, 0, 0, 0, 0xaa])).2 = .resp [0x17, 3, 0, 0, 0, 0xaa] 0 := by decide

/-! ## "flag 0 discards them" -/

/-- **cancel_discards**: Execute Write with flags 0 changes no value and releases the queue if the
    client holds it (another client's queue is untouched) -/
theorem cancel_discards (s : State) (c S : Nat) (conn : Conn)
    (hc : s.base.conns[c]? = some conn) (hq : s.base.decl.queueSize = some S) :
    step s (.pdu c [0x18, 0x00]) = ({ s with queue := s.queue.free c }, .resp [0x19] 0) := by
  simp [step, Op.conn, hc, hq, handleExecute]

/-! ## "the queue is released on execute, cancel or disconnect" -/

theorem free_owner (q : Queue) (c : Nat) (h : q.owner = some c) : q.free c = Queue.empty := by
  simp [Queue.free, h]

/-- **released_after**: after an Execute Write (flags 0 or 1) of the holder and after its disconnect
    the queue is empty and has no owner -/
theorem released_after (s : State) (c S : Nat) (conn : Conn)
    (hc : s.base.conns[c]? = some conn) (hq : s.base.decl.queueSize = some S)
    (ho : s.queue.owner = some c) :
    (∀ flag : UInt8, flag = 0 ∨ flag = 1 → (step s (.pdu c [0x18, flag])).2 ≠ .oob →
        (step s (.pdu c [0x18, flag])).1.queue = Queue.empty) ∧
    (step s (.disc c)).1.queue = Queue.empty := by
  constructor
  · intro flag hf hno
    rcases hf with rfl | rfl
    · rw [cancel_discards s c S conn hc hq]; exact free_owner _ _ ho
    · revert hno
      simp only [step, Op.conn, hc, hq, handleExecute]
      simp only [show ¬ ((0x18 : UInt8) = 0x16) by decide, if_false, if_true,
        show ¬ ((1 : UInt8) ≠ 0 ∧ (1 : UInt8) ≠ 1) by decide]
      split
      · intro h; exact absurd rfl h
      · split
        · intro h; exact absurd rfl h
        · intro _
          split <;> exact free_owner _ _ ho
  · simp [step, Op.conn, hc, free_owner _ _ ho]

/-! ## "While one client holds the queue every other client gets 'Prepare Queue Full'" -/

theorem enqueue_other (q : Queue) (S c c' : Nat) (e : List UInt8) (ho : q.owner = some c) (hne : c' ≠ c) :
    q.enqueue S c' e = none := by
  simp [Queue.enqueue, ho]
  intro _ h; exact absurd h.symm hne

/-- **other_client_queue_full**: while `c` holds the queue, a Prepare Write Request of any other
    connection `c'` leaves the queue untouched, is never answered with a Prepare Write Response,
    and is answered with *Prepare Queue Full* whenever the write would be permitted -/
theorem other_client_queue_full (s : State) (c c' S : Nat) (conn' : Conn)
    (hc : s.base.conns[c']? = some conn') (hq : s.base.decl.queueSize = some S)
    (ho : s.queue.owner = some c) (hne : c' ≠ c) (lo hi olo ohi : UInt8) (data : List UInt8) :
    (step s (.pdu c' (0x16 :: lo :: hi :: olo :: ohi :: data))).1.queue = s.queue ∧
    (∀ bytes cb, (step s (.pdu c' (0x16 :: lo :: hi :: olo :: ohi :: data))).2 ≠ .resp (0x17 :: bytes) cb) ∧
    (∀ a w, attrAt? s.base.decl (read16 lo hi) = some a →
        writeAccess s.base.mem conn'.cfg conn'.sec a 0 [] = some w → w.rc = .success →
        (step s (.pdu c' (0x16 :: lo :: hi :: olo :: ohi :: data))).2 =
          .resp (errorResponse 0x16 0x09 (read16 lo hi)) 0) := by
  simp only [step, Op.conn, hc, hq, if_true, handlePrepare, List.drop_succ_cons, List.drop_zero,
    enqueue_other s.queue S c c' _ ho hne]
  cases ha : attrAt? s.base.decl (read16 lo hi) with
  | none => simp [errorResponse]
  | some a =>
    cases hw : writeAccess s.base.mem conn'.cfg conn'.sec a 0 [] with
    | none =>
      simp [hw]
      intro a1 w1 h1 h2; subst h1; rw [hw] at h2; cases h2
    | some w =>
      obtain ⟨_, _, h3⟩ := writeAccess_empty hw
      by_cases hrc : w.rc = .success
      · simp [hw, hrc, errorResponse, h3, cbCount]
      · simp [hw, hrc, errorResponse]
        intro a1 w1 h1 h2 h3'; subst h1; rw [hw] at h2; cases h2; exact absurd h3' hrc

/-! ## "a prepared write is accepted exactly when a Write Request to the same attribute on the
       same connection would be permitted" -/

/-- the request was answered with a Prepare Write Response -/
def PrepareAccepted (o : Out) : Prop := ∃ bytes cb, o = .resp (0x17 :: bytes) cb

/-- **prepare_iff_write_permitted** (full strength, fixed code): when the queue is available to
    the client (free or its own, with room for the request), a Prepare Write Request is accepted
    if and only if a Write Request on the same connection to the same handle (with the empty
    value, which fits every attribute) is answered with a Write Response -/
theorem prepare_iff_write_permitted (s : State) (c S : Nat) (conn : Conn)
    (hc : s.base.conns[c]? = some conn) (hq : s.base.decl.queueSize = some S)
    (lo hi olo ohi : UInt8) (data : List UInt8)
    (havail : (s.queue.enqueue S c (lo :: hi :: olo :: ohi :: data)).isSome) :
    PrepareAccepted (step s (.pdu c (0x16 :: lo :: hi :: olo :: ohi :: data))).2 ↔
      (step s (.pdu c [0x12, lo, hi])).2 = .resp [0x13] 0 := by
  obtain ⟨q', hq'⟩ := Option.isSome_iff_exists.mp havail
  simp only [step, Op.conn, hc, hq, if_true, handlePrepare, List.drop_succ_cons, List.drop_zero, hq',
    show ¬ ((0x12 : UInt8) = 0x16) by decide, show ¬ ((0x12 : UInt8) = 0x18) by decide, if_false,
    handlePlain, show ¬ ((0x12 : UInt8) = 0x0a) by decide, show ¬ ((0x12 : UInt8) = 0x0c) by decide,
    handleWrite, PrepareAccepted]
  cases ha : attrAt? s.base.decl (read16 lo hi) with
  | none => simp [errorResponse]
  | some a =>
    cases hw : writeAccess s.base.mem conn.cfg conn.sec a 0 [] with
    | none => simp [hw]
    | some w =>
      obtain ⟨_, _, h3⟩ := writeAccess_empty hw
      by_cases hrc : w.rc = .success
      · simp [hw, hrc, h3, cbCount]
      · simp [hw, hrc, errorResponse]

end BluetoeModel.AttWriteQueue
