import BluetoeModel.AttWriteQueue.Lemmas
import BluetoeModel.AttWriteQueue.History
/-!
  # C07 — Prepared writes are deferred, per-client and applied in order

  "With a shared write queue, Prepare Write Requests never change a value; Execute Write with
  flag 1 applies exactly the queued writes of that client in queue order, flag 0 discards them,
  and the queue is released on execute, cancel or disconnect. While one client holds the queue
  every other client gets 'Prepare Queue Full', and a prepared write is accepted exactly when a
  Write Request to the same attribute on the same connection would be permitted."

  The model is the code with `fixes/attwq-01-prepare-write-connection-attributes.patch` applied
  (the unfixed code violates the last sentence, see `unfixed_probe_witness`).
-/
namespace BluetoeModel.AttWriteQueue
open BluetoeModel.Cccd

/-! ## "Prepare Write Requests never change a value" -/

/-- **prepare_no_effect**: whatever the state, the connection and the bytes of a Prepare Write
    Request, the values, all client configurations and all link states are unchanged -/
theorem prepare_no_effect (s : State) (c : Nat) (rest : List UInt8) :
    (step s (.pdu c (0x16 :: rest))).1.base = s.base := by
  unfold step
  simp only [Op.conn]
  cases hconn : s.base.conns[c]? with
  | none => rfl
  | some conn =>
    simp only []
    cases hq : s.base.decl.queueSize with
    | none =>
      simp only [Cccd.step, Op.conn, hconn]
      simp
    | some S =>
      simp only [if_true]
      rcases rest with _ | ⟨lo, _ | ⟨hi, _ | ⟨olo, _ | ⟨ohi, data⟩⟩⟩⟩ <;> simp only [handlePrepare]
      cases ha : attrAt? s.base.decl (read16 lo hi) with
      | none => rfl
      | some a =>
        cases hw : writeAccess s.base.mem conn.cfg conn.sec a 0 [] with
        | none => (simp only [hw]; try rfl)
        | some r =>
          obtain ⟨h1, h2, _⟩ := writeAccess_empty hw
          have hb : setConn ⟨s.base.decl, s.base.mem, s.base.conns⟩ c ⟨conn.sec, conn.clientMtu, conn.cfg⟩
              = s.base := setConn_self hconn
          simp only [hw, h1, h2, hb]
          split
          · rfl
          · split <;> rfl

example : (step (State.init { attrs := [.ro, .ro, .value 0 2 true true false], queueSize := some 16 } [[1, 2]])
    (.pdu 0 [0x16, 3, 0, 0, 0, 0xaa])).2 = .resp [0x17, 3, 0, 0, 0, 0xaa] 0 := by decide

/-! ## "flag 0 discards them" -/

/-- **cancel_discards**: Execute Write with flags 0 changes no value and releases the queue if the
    client holds it (another client's queue is untouched) -/
theorem cancel_discards (s : State) (c S : Nat) (conn : Conn)
    (hc : s.base.conns[c]? = some conn) (hq : s.base.decl.queueSize = some S) :
    step s (.pdu c [0x18, 0x00]) = ({ s with queue := s.queue.free c }, .resp [0x19] 0) := by
  simp [step, Op.conn, hc, hq, handleExecute]

/-! ## "the queue is released on execute, cancel or disconnect" -/

theorem free_owner (q : Queue) (c : Nat) (h : q.owner = some c) : q.free c = Queue.empty := by
  simp [Queue.free, h]

/-- **released_after**: after an Execute Write (flags 0 or 1) of the holder and after its disconnect
    the queue is empty and has no owner -/
theorem released_after (s : State) (c S : Nat) (conn : Conn)
    (hc : s.base.conns[c]? = some conn) (hq : s.base.decl.queueSize = some S)
    (ho : s.queue.owner = some c) :
    (∀ flag : UInt8, flag = 0 ∨ flag = 1 → (step s (.pdu c [0x18, flag])).2 ≠ .oob →
        (step s (.pdu c [0x18, flag])).1.queue = Queue.empty) ∧
    (step s (.disc c)).1.queue = Queue.empty := by
  constructor
  · intro flag hf hno
    rcases hf with rfl | rfl
    · rw [cancel_discards s c S conn hc hq]; exact free_owner _ _ ho
    · revert hno
      simp only [step, Op.conn, hc, hq, handleExecute]
      simp only [show ¬ ((0x18 : UInt8) = 0x16) by decide, if_false, if_true,
        show ¬ ((1 : UInt8) ≠ 0 ∧ (1 : UInt8) ≠ 1) by decide]
      split
      · intro h; exact absurd rfl h
      · split
        · intro h; exact absurd rfl h
        · intro _
          split <;> exact free_owner _ _ ho
  · simp [step, Op.conn, hc, free_owner _ _ ho]

/-! ## "While one client holds the queue every other client gets 'Prepare Queue Full'" -/

theorem enqueue_other (q : Queue) (S c c' : Nat) (e : List UInt8) (ho : q.owner = some c) (hne : c' ≠ c) :
    q.enqueue S c' e = none := by
  simp [Queue.enqueue, ho]
  intro _ h; exact absurd h.symm hne

/-- **other_client_queue_full**: while `c` holds the queue, a Prepare Write Request of any other
    connection `c'` leaves the queue untouched, is never answered with a Prepare Write Response,
    and is answered with *Prepare Queue Full* whenever the write would be permitted -/
theorem other_client_queue_full (s : State) (c c' S : Nat) (conn' : Conn)
    (hc : s.base.conns[c']? = some conn') (hq : s.base.decl.queueSize = some S)
    (ho : s.queue.owner = some c) (hne : c' ≠ c) (lo hi olo ohi : UInt8) (data : List UInt8) :
    (step s (.pdu c' (0x16 :: lo :: hi :: olo :: ohi :: data))).1.queue = s.queue ∧
    (∀ bytes cb, (step s (.pdu c' (0x16 :: lo :: hi :: olo :: ohi :: data))).2 ≠ .resp (0x17 :: bytes) cb) ∧
    (∀ a w, attrAt? s.base.decl (read16 lo hi) = some a →
        writeAccess s.base.mem conn'.cfg conn'.sec a 0 [] = some w → w.rc = .success →
        (step s (.pdu c' (0x16 :: lo :: hi :: olo :: ohi :: data))).2 =
          .resp (errorResponse 0x16 0x09 (read16 lo hi)) 0) := by
  simp only [step, Op.conn, hc, hq, if_true, handlePrepare, List.drop_succ_cons, List.drop_zero,
    enqueue_other s.queue S c c' _ ho hne]
  cases ha : attrAt? s.base.decl (read16 lo hi) with
  | none => simp [errorResponse]
  | some a =>
    cases hw : writeAccess s.base.mem conn'.cfg conn'.sec a 0 [] with
    | none =>
      simp [hw]
      intro a1 w1 h1 h2; subst h1; rw [hw] at h2; cases h2
    | some w =>
      obtain ⟨_, _, h3⟩ := writeAccess_empty hw
      by_cases hrc : w.rc = .success
      · simp [hw, hrc, errorResponse, h3, cbCount]
      · simp [hw, hrc, errorResponse]
        intro a1 w1 h1 h2 h3'; subst h1; rw [hw] at h2; cases h2; exact absurd h3' hrc

/-! ## "a prepared write is accepted exactly when a Write Request to the same attribute on the
       same connection would be permitted" -/

/-- the request was answered with a Prepare Write Response -/
def PrepareAccepted (o : Out) : Prop := ∃ bytes cb, o = .resp (0x17 :: bytes) cb

/-- **prepare_iff_write_permitted** (full strength, fixed code): when the queue is available to
    the client (free or its own, with room for the request), a Prepare Write Request is accepted
    if and only if a Write Request on the same connection to the same handle (with the empty
    value, which fits every attribute) is answered with a Write Response -/
theorem prepare_iff_write_permitted (s : State) (c S : Nat) (conn : Conn)
    (hc : s.base.conns[c]? = some conn) (hq : s.base.decl.queueSize = some S)
    (lo hi olo ohi : UInt8) (data : List UInt8)
    (havail : (s.queue.enqueue S c (lo :: hi :: olo :: ohi :: data)).isSome) :
    PrepareAccepted (step s (.pdu c (0x16 :: lo :: hi :: olo :: ohi :: data))).2 ↔
      (step s (.pdu c [0x12, lo, hi])).2 = .resp [0x13] 0 := by
  obtain ⟨q', hq'⟩ := Option.isSome_iff_exists.mp havail
  simp only [step, Op.conn, hc, hq, if_true, handlePrepare, List.drop_succ_cons, List.drop_zero, hq',
    show ¬ ((0x12 : UInt8) = 0x16) by decide, show ¬ ((0x12 : UInt8) = 0x18) by decide, if_false,
    handlePlain, show ¬ ((0x12 : UInt8) = 0x0a) by decide, show ¬ ((0x12 : UInt8) = 0x0c) by decide,
    handleWrite, PrepareAccepted]
  cases ha : attrAt? s.base.decl (read16 lo hi) with
  | none => simp [errorResponse]
  | some a =>
    cases hw : writeAccess s.base.mem conn.cfg conn.sec a 0 [] with
    | none => simp [hw]
    | some w =>
      obtain ⟨_, _, h3⟩ := writeAccess_empty hw
      by_cases hrc : w.rc = .success
      · simp [hw, hrc, h3, cbCount]
      · simp [hw, hrc, errorResponse]

/-! ## "Execute Write with flag 1 applies exactly the queued writes of that client in queue order"

  `track` / `trackAll` (History.lean) compute, from the *answers* of a history alone, who holds the
  queue and which prepared writes were accepted for him since the queue was last released.
  `reachable_inv` shows that for every history the byte queue of the model is exactly the encoding
  of that list (so nothing else ever gets into the queue, nothing is lost, the order is kept, other
  clients' requests never touch it); `execute_applies_in_order` shows that Execute Write applies
  that list front to back with the connection's own security attributes and configuration,
  stopping at the first failing write as the code does. -/

theorem step_tracks (s : State) (g : Ghost) (h : Rel s.queue g)
    (hS : ∀ S, s.base.decl.queueSize = some S → S < 65536) (op : Op) :
    Rel (step s op).1.queue (track g op (step s op).2) := by
  cases op with
  | sec c e p =>
    simp only [step, Op.conn, track]
    split
    · exact h
    · simp only [stepConn]; exact h
  | mtu c n =>
    simp only [step, Op.conn, track]
    split
    · exact h
    · simp only [stepConn]; split <;> exact h
  | disc c =>
    cases hc : s.base.conns[c]? with
    | none => simp only [step, Op.conn, hc, track, reduceCtorEq, false_and, if_false]; exact h
    | some conn => simp only [step, Op.conn, hc, track, true_and]; exact free_rel h c
  | pdu c bytes =>
    rcases bytes with _ | ⟨o, rest⟩
    · simp only [step, Op.conn, track]; split <;> exact h
    · simp only [step, Op.conn, track]
      split
      · simp only [accepted, executed, Bool.false_eq_true, false_and, if_false]
        split <;> (try split) <;> exact h
      · rename_i conn hc
        cases hq : s.base.decl.queueSize with
        | none =>
          simp only [Cccd.step, Op.conn, hc]
          by_cases h16 : o = 0x16
          · subst h16
            simp only [true_or, if_true, accepted_error, Bool.false_eq_true, if_false]; exact h
          · by_cases h18 : o = 0x18
            · subst h18
              simp only [or_true, if_true, h16, if_false, executed, errorResponse]
              simp; exact h
            · simp only [h16, h18, or_self, if_false]; exact h
        | some S =>
          by_cases h16 : o = 0x16
          · subst h16; simp only [if_true]; exact handlePrepare_tracks s g h S (hS S hq) c conn rest
          · by_cases h18 : o = 0x18
            · subst h18; simp only [h16, if_false, if_true]; exact handleExecute_tracks s g h c conn rest
            · simp only [h16, h18, if_false]; exact h

/-- **reachable_inv**: started from a state whose queue encodes `g`, after any history the queue
    encodes what `trackAll` computes from the answers -/
theorem reachable_inv (s : State) (g : Ghost) (h : Rel s.queue g)
    (hS : ∀ S, s.base.decl.queueSize = some S → S < 65536) (ops : List Op) :
    Rel (run s ops).1.queue (trackAll g ops (run s ops).2) := by
  induction ops generalizing s g with
  | nil => exact h
  | cons op ops ih =>
    have h1 := step_tracks s g h hS op
    have h2 := step_decl s op
    simp only [run]
    rcases hst : step s op with ⟨s', o⟩
    rw [hst] at h1 h2
    have h3 := ih s' (track g op o) h1 (fun S hq => hS S (by rw [← h2]; exact hq))
    rcases hrun : run s' ops with ⟨s'', os⟩
    rw [hrun] at h3
    simpa only [trackAll] using h3

/-- **queue_tracks_history**: for every declaration (queue size a `uint16_t`), every initial
    memory and every interleaving of requests, link state changes and disconnects of all
    connections: the queue is held by the tracked owner and decodes to exactly the accepted
    prepared writes of that client, in the order they were accepted -/
theorem queue_tracks_history (d : Decl) (mem : Mem) (hS : ∀ S, d.queueSize = some S → S < 65536)
    (ops : List Op) :
    (run (State.init d mem) ops).1.queue.owner
        = (trackAll ⟨none, []⟩ ops (run (State.init d mem) ops).2).owner ∧
    elements (run (State.init d mem) ops).1.queue.buf
        = some (trackAll ⟨none, []⟩ ops (run (State.init d mem) ops).2).items := by
  have h := reachable_inv (State.init d mem) ⟨none, []⟩ rel_empty hS ops
  exact ⟨h.owner, by rw [h.buf]; exact elements_encode _ h.len⟩

/-- **queue_iteration_in_bounds** (the write_queue.hpp part of "never out of bounds"): in every
    reachable state the element iteration of Execute Write (`first_/next_write_queue_element`)
    terminates exactly at `buffer_end_` for every client — the model's out-of-bounds result of the
    iteration is never taken -/
theorem queue_iteration_in_bounds (d : Decl) (mem : Mem) (hS : ∀ S, d.queueSize = some S → S < 65536)
    (ops : List Op) (c : Nat) : ((run (State.init d mem) ops).1.queue.elementsOf c).isSome := by
  have h := reachable_inv (State.init d mem) ⟨none, []⟩ rel_empty hS ops
  unfold Queue.elementsOf
  split
  · rfl
  · rw [h.buf, elements_encode _ h.len]; rfl

/-- non-vacuity: two connections interleaved on a 16 byte queue; the second prepare of connection
    0 is accepted, the one of connection 1 is refused, the tracked list has two entries -/
example :
    let d : Decl := { attrs := [.ro, .ro, .value 0 4 true true false], queueSize := some 16 }
    let ops : List Op := [.pdu 0 [0x16, 3, 0, 0, 0, 0xaa], .pdu 1 [0x16, 3, 0, 0, 0, 0xbb], .pdu 0 [0x16, 3, 0, 1, 0, 0xcc]]
    (trackAll ⟨none, []⟩ ops (run (State.init d [[1, 2, 3, 4]]) ops).2)
      = ⟨some 0, [[3, 0, 0, 0, 0xaa], [3, 0, 1, 0, 0xcc]]⟩ := by decide

theorem elementsOf_rel {q : Queue} {g : Ghost} (h : Rel q g) {c : Nat} (ho : g.owner = some c) :
    q.elementsOf c = some g.items := by
  unfold Queue.elementsOf
  rw [h.owner, ho, h.buf]
  cases hi : g.items with
  | nil => simp [encode]
  | cons e es =>
    have : encode (e :: es) ≠ [] := by simp [encode]
    simp only [ne_eq, not_true_eq_false, this, or_self, if_false]
    exact elements_encode _ (by rw [← hi]; exact h.len)

/-- **execute_applies_in_order**: Execute Write (flags 1) of the holder applies the tracked writes
    with `applyQueued` — front to back, each with the connection's security attributes and client
    configuration at its own handle / offset, stopping at the first write that fails — answers
    with the Execute Write Response or the error of the failing write, and releases the queue -/
theorem execute_applies_in_order (s : State) (c S : Nat) (conn : Conn) (g : Ghost)
    (hc : s.base.conns[c]? = some conn) (hq : s.base.decl.queueSize = some S)
    (h : Rel s.queue g) (ho : g.owner = some c) :
    step s (.pdu c [0x18, 0x01]) =
      match applyQueued s.base.decl conn.sec s.base.mem conn.cfg 0 g.items with
      | none => (s, .oob)
      | some r =>
          ({ base := setConn { s.base with mem := r.mem } c { conn with cfg := r.cfg }, queue := Queue.empty },
           match r.fail with
           | some (rc, hd) => .resp (errorResponse 0x18 (if rc = .invalidLength then 0x0d else 0x07) hd) r.cb
           | none => .resp [0x19] r.cb) := by
  have hfree : s.queue.free c = Queue.empty := free_owner _ _ (by rw [h.owner]; exact ho)
  simp only [step, Op.conn, hc, hq, handleExecute, elementsOf_rel h ho, hfree,
    show ¬ ((0x18 : UInt8) = 0x16) by decide, if_false, if_true,
    show ¬ ((1 : UInt8) ≠ 0 ∧ (1 : UInt8) ≠ 1) by decide]
  cases hap : applyQueued s.base.decl conn.sec s.base.mem conn.cfg 0 g.items with
  | none => rfl
  | some r =>
    obtain ⟨m, cf, cb, fail⟩ := r
    cases fail with
    | none => rfl
    | some p => obtain ⟨rc, hd⟩ := p; rfl

/-- the order matters and is the queue order: two queued writes to the same byte, the later wins -/
example :
    let d : Decl := { attrs := [.ro, .ro, .value 0 2 true true false], queueSize := some 64 }
    (applyQueued d {} [[1, 2]] [] 0 [[3, 0, 0, 0, 0xaa], [3, 0, 0, 0, 0xbb]]).map (·.mem) = some [[0xbb, 2]] := by
  decide

/-! ## the defect repaired by fixes/attwq-01 (for the record)

  Before the fix the permission probe of Prepare Write was
  `attribute_access_arguments::check_write( server )`: default security attributes (not
  encrypted, no key) and a default (null) client configuration. -/

/-- the unfixed probe -/
def probeUnfixed (mem : Mem) (a : Attr) : Option WriteRes := writeAccess mem [] {} a 0 []

/-- what the property demands of the probe: it answers like a write on the connection would -/
def unfixed_probe_full : Prop :=
  ∀ (mem : Mem) (cfg : Config) (sec : Sec) (a : Attr),
    (probeUnfixed mem a).map (·.rc) = (writeAccess mem cfg sec a 0 []).map (·.rc)

/-- **witness**: on an encrypted link a write to a `requires_encryption` value is permitted, the
    unfixed probe says Insufficient Authentication; for a CCCD the unfixed probe dereferences the
    null configuration (`none`) -/
theorem unfixed_probe_witness : ¬ unfixed_probe_full := by
  intro h
  have h1 := h [[1, 2]] [] ⟨true, 1⟩ (.value 0 2 true true true)
  revert h1
  decide

example : (probeUnfixed [[1, 2]] (.value 0 2 true true true)).map (·.rc) = some .insufficientAuth := by decide
example : probeUnfixed [] (.cccd 0 false) = none := by decide
example : (writeAccess [] [0] {} (.cccd 0 false) 0 []).map (·.rc) = some .success := by decide

end BluetoeModel.AttWriteQueue
