import BluetoeModel.Cccd.Lemmas
import BluetoeModel.AttWriteQueue.Model
/-! helper lemmas for the write queue proofs -/
namespace BluetoeModel.AttWriteQueue
open BluetoeModel.Cccd

theorem setConn_self {s : Cccd.State} {c : Nat} {conn : Conn} (h : s.conns[c]? = some conn) :
    setConn s c conn = s := by
  unfold setConn
  have : s.conns.set c conn = s.conns := by
    rcases List.getElem?_eq_some_iff.mp h with ⟨hlt, hget⟩
    apply List.ext_getElem (by simp)
    intro n h1 h2
    by_cases hn : c = n
    · subst hn; simp [hget]
    · simp [List.getElem_set_ne hn]
  rw [this]

theorem list_set_self {α} {l : List α} {i : Nat} {v : α} (h : l[i]? = some v) : l.set i v = l := by
  rcases List.getElem?_eq_some_iff.mp h with ⟨hlt, hget⟩
  apply List.ext_getElem (by simp)
  intro n h1 h2
  by_cases hn : i = n
  · subst hn; simp [hget]
  · simp [List.getElem_set_ne hn]

/-- the permission probe of Prepare Write (a write of no bytes at offset 0) changes nothing -/
theorem writeAccess_empty {mem : Mem} {cfg : Config} {sec : Sec} {a : Attr} {r : WriteRes}
    (h : writeAccess mem cfg sec a 0 [] = some r) : r.mem = mem ∧ r.cfg = cfg ∧ r.cb = false := by
  cases a with
  | ro => simp [writeAccess] at h; subst h; simp
  | descr len =>
    simp only [writeAccess] at h
    split at h <;> (cases h; simp)
  | value idx size rd wr enc =>
    simp only [writeAccess] at h
    split at h
    · split at h
      · cases h; simp
      · simp only [valueWrite, List.length_nil, Nat.zero_add] at h
        split at h
        · cases h; simp
        · split at h
          · contradiction
          · rename_i v hv
            split at h
            · cases h
              simp [list_set_self hv]
            · contradiction
    · cases h; simp
  | cccd pos enc =>
    simp only [writeAccess] at h
    split at h
    · simp only [cccdWrite, List.length_nil, Nat.zero_add] at h
      have h02 : ¬ (0 > 2) := by decide
      simp only [h02, if_false, if_true] at h
      split at h
      · contradiction
      · rename_i old hold
        simp only [List.nil_append, List.drop_zero] at h
        have hr : read16 old 0 = old.toNat := by simp [read16]
        rw [hr, setFlags?_same hold] at h
        simp only [hold] at h
        cases h
        simp
    · cases h; simp

end BluetoeModel.AttWriteQueue
