import BluetoeModel.Cccd.Shape
import BluetoeModel.AttWriteQueue.History
/-!
  The representation invariant of a server with `shared_write_queue< S >`:
  `Cccd.Shape` of the base state + `buffer_end_ ≤ S` + the queue bytes are the encoding of
  elements that have at least the 4 header bytes (handle, offset) and name an existing attribute.
  One step keeps it and never produces `Out.oob`.
-/
namespace BluetoeModel.AttWriteQueue
open BluetoeModel.Cccd

/-- a queue element as Execute Write needs it: handle, offset, data; the handle has an attribute -/
def ElemOk (d : Decl) (e : List UInt8) : Prop :=
  ∃ lo hi olo ohi data, e = lo :: hi :: olo :: ohi :: data ∧ (attrAt? d (read16 lo hi)).isSome

/-- **the representation invariant** -/
structure Inv (s : State) : Prop where
  shape : Cccd.Shape s.base
  /-- no queue: `buffer_` does not exist and the model's queue stays empty;
      queue of `S` bytes: `S` is a `uint16_t` and `buffer_end_ ≤ S` -/
  bound : match s.base.decl.queueSize with
          | none => s.queue = Queue.empty
          | some S => S < 65536 ∧ s.queue.buf.length ≤ S
  /-- `buffer_[0, buffer_end_)` is a sequence of length-prefixed elements -/
  elems : ∃ es, s.queue.buf = encode es ∧ ∀ e ∈ es, e.length < 65536 ∧ ElemOk s.base.decl e

theorem inv_init {d : Decl} {mem : Mem} (h : declWF d mem = true) : Inv (State.init d mem) := by
  refine ⟨shape_init h, ?_, ⟨[], rfl, by simp⟩⟩
  simp only [declWF, Bool.and_eq_true, decide_eq_true_eq] at h
  show match d.queueSize with
    | none => Queue.empty = Queue.empty
    | some S => S < 65536 ∧ ([] : List UInt8).length ≤ S
  cases hq : d.queueSize with
  | none => rfl
  | some S =>
    have := h.2
    rw [hq] at this
    simp only [decide_eq_true_eq] at this
    exact ⟨this, Nat.zero_le _⟩

/-- the queue part of the invariant, for a fixed declaration -/
structure QInv (d : Decl) (q : Queue) : Prop where
  bound : match d.queueSize with
          | none => q = Queue.empty
          | some S => S < 65536 ∧ q.buf.length ≤ S
  elems : ∃ es, q.buf = encode es ∧ ∀ e ∈ es, e.length < 65536 ∧ ElemOk d e

theorem Inv.q {s : State} (h : Inv s) : QInv s.base.decl s.queue := ⟨h.bound, h.elems⟩

theorem Inv.mk' {s : State} (h1 : Cccd.Shape s.base) (h2 : QInv s.base.decl s.queue) : Inv s := ⟨h1, h2.bound, h2.elems⟩

theorem qinv_empty {d : Decl} {q : Queue} (h : QInv d q) : QInv d Queue.empty := by
  refine ⟨?_, ⟨[], rfl, by simp⟩⟩
  have := h.bound
  cases hq : d.queueSize with
  | none => rfl
  | some S => rw [hq] at this; exact ⟨this.1, Nat.zero_le _⟩

theorem qinv_free {d : Decl} {q : Queue} (h : QInv d q) (c : Nat) : QInv d (q.free c) := by
  unfold Queue.free
  split
  · exact qinv_empty h
  · exact h

theorem qinv_enqueue {d : Decl} {q q' : Queue} (h : QInv d q) {S c : Nat} (hq : d.queueSize = some S)
    {e : List UInt8} (he : q.enqueue S c e = some q') (hok : ElemOk d e) : QInv d q' := by
  unfold Queue.enqueue at he
  split at he
  · contradiction
  · rename_i hcond
    cases he
    have hroom : ¬ (e.length + 2 > S - q.buf.length) := fun y => hcond (Or.inl y)
    have hb := h.bound
    rw [hq] at hb
    obtain ⟨es, hes, hall⟩ := h.elems
    refine ⟨?_, ⟨es ++ [e], ?_, ?_⟩⟩
    · rw [hq]
      refine ⟨hb.1, ?_⟩
      simp only [List.length_append, List.length_cons, List.length_nil]
      omega
    · simp only [hes, encode_append]
    · intro x hx
      rcases List.mem_append.mp hx with hx | hx
      · exact hall x hx
      · have hx' : x = e := by simpa using hx
        subst hx'
        exact ⟨by omega, hok⟩

/-- the element iteration of Execute Write stays inside `buffer_[0, buffer_end_)` and yields well
    formed elements -/
theorem elementsOf_ok {d : Decl} {q : Queue} (h : QInv d q) (c : Nat) :
    ∃ es, q.elementsOf c = some es ∧ ∀ e ∈ es, ElemOk d e := by
  unfold Queue.elementsOf
  split
  · exact ⟨[], rfl, by simp⟩
  · obtain ⟨es, hes, hall⟩ := h.elems
    refine ⟨es, ?_, fun e he => (hall e he).2⟩
    rw [hes]
    exact elements_encode es (fun e he => (hall e he).1)

/-- the loop of Execute Write: every queued write finds its attribute and stays inside the bound
    object / the configuration array -/
theorem applyQueued_shape (d : Decl) (sec : Sec) (n : Nat) (es : List (List UInt8)) :
    ∀ (mem : Mem) (cfg : Config) (cb : Nat), d.attrs.all (attrSafe n mem) = true → cfg.length = cfgLen n →
      (∀ e ∈ es, ElemOk d e) →
      ∃ r, applyQueued d sec mem cfg cb es = some r ∧ r.cfg.length = cfgLen n ∧
        r.mem.map List.length = mem.map List.length := by
  induction es with
  | nil => intro mem cfg cb _ hl _; exact ⟨_, rfl, hl, rfl⟩
  | cons e es ih =>
    intro mem cfg cb hattrs hl hall
    obtain ⟨lo, hi, olo, ohi, data, he, hat⟩ := hall e (by simp)
    obtain ⟨a, ha⟩ := Option.isSome_iff_exists.mp hat
    subst he
    have hok : attrSafe n mem a = true := List.all_eq_true.mp hattrs a (attrAt?_mem ha)
    obtain ⟨r, hr, hcl, hml⟩ := writeAccess_shape sec (read16 olo ohi) data hok hl
    simp only [applyQueued, ha, hr]
    split
    · obtain ⟨r', hr', hcl', hml'⟩ := ih r.mem r.cfg (cb + cbCount r.cb)
        (by rw [attrsSafe_congr hml]; exact hattrs) hcl (fun x hx => hall x (by simp [hx]))
      exact ⟨r', hr', hcl', by rw [hml', hml]⟩
    · exact ⟨_, rfl, hcl, hml⟩

theorem handlePrepare_inv {s : State} (hi : Inv s) {S : Nat} (hq : s.base.decl.queueSize = some S)
    (ci : Nat) {conn : Conn} (hc : connOk s.base.decl.nCccd conn) (pdu : List UInt8) :
    Inv (handlePrepare s S ci conn pdu).1 ∧ (handlePrepare s S ci conn pdu).2 ≠ .oob := by
  rcases pdu with _ | ⟨op, _ | ⟨lo, _ | ⟨hi', _ | ⟨olo, _ | ⟨ohi, data⟩⟩⟩⟩⟩ <;> simp only [handlePrepare]
  · exact ⟨hi, by simp⟩
  · exact ⟨hi, by simp⟩
  · exact ⟨hi, by simp⟩
  · exact ⟨hi, by simp⟩
  · exact ⟨hi, by simp⟩
  · cases ha : attrAt? s.base.decl (read16 lo hi') with
    | none => exact ⟨hi, by simp⟩
    | some a =>
      obtain ⟨r, hr, hcl, hml⟩ := writeAccess_shape conn.sec 0 [] (hi.shape.attrSafe_at ha) hc.1
      have hsh : Cccd.Shape (setConn { s.base with mem := r.mem } ci { conn with cfg := r.cfg }) :=
        hi.shape.update hml ci ⟨hcl, hc.2⟩
      simp only [hr]
      split
      · exact ⟨Inv.mk' hsh hi.q, by simp⟩
      · simp only [List.drop_succ_cons, List.drop_zero]
        cases he : s.queue.enqueue S ci (lo :: hi' :: olo :: ohi :: data) with
        | none => exact ⟨Inv.mk' hsh hi.q, by simp⟩
        | some q' =>
          have hel : ElemOk s.base.decl (lo :: hi' :: olo :: ohi :: data) :=
            ⟨lo, hi', olo, ohi, data, rfl, by rw [ha]; rfl⟩
          exact ⟨Inv.mk' hsh (qinv_enqueue hi.q hq he hel), by simp⟩

theorem handleExecute_inv {s : State} (hi : Inv s) (ci : Nat) {conn : Conn}
    (hc : connOk s.base.decl.nCccd conn) (pdu : List UInt8) :
    Inv (handleExecute s ci conn pdu).1 ∧ (handleExecute s ci conn pdu).2 ≠ .oob := by
  unfold handleExecute
  split
  · rename_i op flag
    split
    · exact ⟨hi, by simp⟩
    · split
      · obtain ⟨es, hes, hall⟩ := elementsOf_ok hi.q ci
        obtain ⟨r, hr, hcl, hml⟩ := applyQueued_shape s.base.decl conn.sec s.base.decl.nCccd es
          s.base.mem conn.cfg 0 hi.shape.attrs hc.1 hall
        have hsh : Cccd.Shape (setConn { s.base with mem := r.mem } ci { conn with cfg := r.cfg }) :=
          hi.shape.update hml ci ⟨hcl, hc.2⟩
        simp only [hes, hr]
        split
        · exact ⟨Inv.mk' hsh (qinv_free hi.q ci), by simp⟩
        · exact ⟨Inv.mk' hsh (qinv_free hi.q ci), by simp⟩
      · exact ⟨Inv.mk' hi.shape (qinv_free hi.q ci), by simp⟩
  · exact ⟨hi, by simp⟩
  · exact ⟨hi, by simp⟩

/-- replacing the base state by one with the same declaration and a good shape -/
theorem Inv.base {s : State} (hi : Inv s) {b : Cccd.State} (hb : Cccd.Shape b) (hd : b.decl = s.base.decl) :
    Inv { s with base := b } := by
  refine Inv.mk' hb ?_
  show QInv b.decl s.queue
  rw [hd]; exact hi.q

/-- **one step keeps the representation invariant and is never out of bounds** -/
theorem step_inv {s : State} (hi : Inv s) (op : Op) : Inv (step s op).1 ∧ (step s op).2 ≠ .oob := by
  unfold step
  split
  · exact ⟨hi, by simp⟩
  · rename_i conn hconn
    have hc := hi.shape.conn_at hconn
    split
    · rename_i ci o rest
      split
      · obtain ⟨h1, h2⟩ := Cccd.step_shape hi.shape (.pdu ci (o :: rest))
        exact ⟨hi.base h1 (cccd_step_decl _ _), h2⟩
      · rename_i S hq
        split
        · exact handlePrepare_inv hi hq ci hc _
        · split
          · exact handleExecute_inv hi ci hc _
          · obtain ⟨h1, h2⟩ := Cccd.handlePlain_shape hi.shape ci hc (o :: rest)
            exact ⟨hi.base h1 (handlePlain_decl _ _ _ _), h2⟩
    · exact ⟨hi, by simp⟩
    · rename_i ci
      exact ⟨Inv.mk' (hi.shape.setConn ci (connOk_init s.base.decl)) (qinv_free hi.q ci), by simp⟩
    · split
      · rename_i b out h
        obtain ⟨h1, h2⟩ := Cccd.stepConn_shape hi.shape hc h
        exact ⟨hi.base h1 (stepConn_decl _ _ _ _ _ h), h2⟩
      · exact ⟨hi, by simp⟩

theorem run_inv {s : State} (hi : Inv s) (ops : List Op) :
    Inv (run s ops).1 ∧ Out.oob ∉ (run s ops).2 := by
  induction ops generalizing s with
  | nil => exact ⟨hi, by simp [run]⟩
  | cons op ops ih =>
    obtain ⟨h1, h2⟩ := step_inv hi op
    obtain ⟨h3, h4⟩ := ih h1
    simp only [run]
    refine ⟨h3, ?_⟩
    intro hmem
    rcases List.mem_cons.mp hmem with h | h
    · exact h2 h.symm
    · exact h4 h

theorem run_decl (s : State) (ops : List Op) : (run s ops).1.base.decl = s.base.decl := by
  induction ops generalizing s with
  | nil => rfl
  | cons op ops ih =>
    simp only [run]
    rw [ih, step_decl]

end BluetoeModel.AttWriteQueue
