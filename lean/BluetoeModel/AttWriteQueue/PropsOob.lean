import BluetoeModel.AttWriteQueue.Props
import BluetoeModel.AttWriteQueue.Shape
import BluetoeModel.Cccd.ShapeExact
/-!
  # C07 (and the CCCD array of C09) — the representation invariant of the shared write queue

  write_queue.hpp keeps the prepared writes in `std::uint8_t buffer_[ S ]` as a sequence of
  elements `[ length lo, length hi, handle lo, handle hi, offset lo, offset hi, data… ]` that ends
  at `buffer_end_`; `handle_execute_write_request` walks that sequence and hands every element to
  `attribute_at( index_by_handle( handle ) ).access(…)`. None of this is checked at run time (an
  `assert` at most). The model makes every one of these accesses explicit: `elementsAux` answers
  `none` when the walk would pass `buffer_end_`, `applyQueued` answers `none` for an element without
  the 4 header bytes or without attribute, `valueWrite` / `readAccess` answer `none` for a value
  that is not `sizeof( T )` bytes long, `flags?` / `setFlags?` answer `none` outside of the
  configuration array; the handlers turn each `none` into `Out.oob`.

  **Precondition** (`Cccd.declWF d mem`, a `Bool`; Cccd/Shape.lean): every bound value `mem[idx]`
  exists and has the declared `sizeof( T )`; every CCCD position is `< number_of_client_configs`;
  `max_mtu_size ≥ 23`; the queue size is a `std::uint16_t`. It is what the C++ *types* guarantee by
  construction, and both model drivers evaluate it on every server table the harness dumps from
  the real templates (`MODEL-TABLE-NOT-WF` would be a disagreement with the real `reset` answer).

  Under it, for every history over all connections:
  `never_oob` — no `Out.oob`; `queue_representation` — `buffer_end_ ≤ S`, the bytes decode
  (`elements`, the C++ walk) to exactly the tracked prepared writes, each with its 4 header bytes
  and a handle that has an attribute; `representation_invariant` — the invariant itself.
-/
namespace BluetoeModel.AttWriteQueue
open BluetoeModel.Cccd

/-- **representation_invariant**: every reachable state of a well-formed declaration satisfies
    `Inv`: value lengths and configuration array lengths as declared, client MTUs ≥ 23,
    `buffer_end_ ≤ S`, the queue is an encoding of well formed elements -/
theorem representation_invariant (d : Decl) (mem : Mem) (hwf : declWF d mem = true) (ops : List Op) :
    Inv (run (State.init d mem) ops).1 :=
  (run_inv (inv_init hwf) ops).1

/-- **step_keeps_invariant**: the invariant is inductive and excludes every out-of-bounds result
    for *any* state that satisfies it (not only the reachable ones) -/
theorem step_keeps_invariant (s : State) (hi : Inv s) (op : Op) :
    Inv (step s op).1 ∧ (step s op).2 ≠ .oob :=
  step_inv hi op

/-- **never_oob**: for every well-formed declaration, every initial content of the bound variables
    of the declared sizes and every interleaving of PDUs (Read, Read Blob, Write Request / Command,
    Prepare Write, Execute Write, anything else, of any length), link security changes, MTU changes
    and disconnects of all connections, no answer is `Out.oob`: the queue walk never passes
    `buffer_end_`, every queued element has its header and an attribute, no value access leaves the
    bound object and no `flags( i )` / `flags( i, v )` leaves `configs_` -/
theorem never_oob (d : Decl) (mem : Mem) (hwf : declWF d mem = true) (ops : List Op) :
    Out.oob ∉ (run (State.init d mem) ops).2 :=
  (run_inv (inv_init hwf) ops).2

/-- **queue_representation**: in every reachable state of a server with `shared_write_queue< S >`:
    `buffer_end_ ≤ S`; walking the bytes like `first_/next_write_queue_element` ends exactly at
    `buffer_end_` and yields exactly the prepared writes that `trackAll` reads off the answers (the
    accepted prepares of the owner since the last release); the bytes are their encoding; every
    element is at least handle + offset and its handle has an attribute -/
theorem queue_representation (d : Decl) (mem : Mem) (hwf : declWF d mem = true) (ops : List Op)
    (S : Nat) (hq : d.queueSize = some S) :
    let q := (run (State.init d mem) ops).1.queue
    let items := (trackAll ⟨none, []⟩ ops (run (State.init d mem) ops).2).items
    q.buf.length ≤ S ∧ elements q.buf = some items ∧ q.buf = encode items ∧ ∀ e ∈ items, ElemOk d e := by
  intro q items
  have hS : ∀ S, d.queueSize = some S → S < 65536 := by
    intro S' h'
    have h := hwf
    simp only [declWF, Bool.and_eq_true, h', decide_eq_true_eq] at h
    exact h.2
  have hi := representation_invariant d mem hwf ops
  have hd : (run (State.init d mem) ops).1.base.decl = d := run_decl _ _
  have hrel := reachable_inv (State.init d mem) ⟨none, []⟩ rel_empty hS ops
  have hb := hi.bound
  rw [hd, hq] at hb
  obtain ⟨es, hes, hall⟩ := hi.elems
  have hdec : elements q.buf = some es := by
    show elements (run (State.init d mem) ops).1.queue.buf = some es
    rw [hes]; exact elements_encode es (fun e he => (hall e he).1)
  have hdec' : elements q.buf = some items := (queue_tracks_history d mem hS ops).2
  have heq : es = items := by rw [hdec] at hdec'; exact Option.some.inj hdec'
  refine ⟨hb.2, hdec', hrel.buf, ?_⟩
  intro e he
  have := (hall e (by rw [heq]; exact he)).2
  rw [hd] at this
  exact this

/-- **released_after_wf**: `released_after` without its "not out of bounds" side condition -/
theorem released_after_wf (s : State) (hi : Inv s) (c S : Nat) (conn : Conn)
    (hc : s.base.conns[c]? = some conn) (hq : s.base.decl.queueSize = some S)
    (ho : s.queue.owner = some c) :
    (∀ flag : UInt8, flag = 0 ∨ flag = 1 → (step s (.pdu c [0x18, flag])).1.queue = Queue.empty) ∧
    (step s (.disc c)).1.queue = Queue.empty := by
  obtain ⟨h1, h2⟩ := released_after s c S conn hc hq ho
  exact ⟨fun flag hf => h1 flag hf (step_inv hi _).2, h2⟩

/-- **attr_clause_exact**: with the numeric clauses (handles fit 16 bits, `max_mtu_size ≥ 23`, queue
    size a `uint16_t`), "no history is ever answered out of bounds" is *equivalent* to the attribute
    clause in its weakest form `attrSafe` (Cccd/Shape.lean): the precondition on the attributes
    cannot be weakened. `declWF` asks for `attrOk`, what the types deliver (`attrSafe_of_attrOk`). -/
theorem attr_clause_exact (d : Decl) (mem : Mem) (hlen : d.attrs.length ≤ 65535) (hmtu : 23 ≤ d.serverMtu)
    (hS : ∀ S, d.queueSize = some S → S < 65536) :
    (∀ ops, Out.oob ∉ (run (State.init d mem) ops).2) ↔ d.attrs.all (attrSafe d.nCccd mem) = true := by
  constructor
  · intro h
    apply Classical.byContradiction
    intro hne
    obtain ⟨i, hi, hbad⟩ := exists_unsafe_index hne
    obtain ⟨o, ho, hoob⟩ := handlePlain_oob (s := setConn (Cccd.State.init d mem) 0 (encConn d)) (conn := encConn d)
      0 i hi (by omega) rfl (connOk_init d).1 hbad
    apply h [.sec 0 true 1, .pdu 0 [o, UInt8.ofNat ((i + 1) % 256), UInt8.ofNat ((i + 1) / 256)]]
    have h16 : ¬ (o = 0x16) := by rcases ho with rfl | rfl <;> decide
    have h18 : ¬ (o = 0x18) := by rcases ho with rfl | rfl <;> decide
    have hsec : step (State.init d mem) (.sec 0 true 1)
        = ({ base := setConn (Cccd.State.init d mem) 0 (encConn d), queue := Queue.empty }, .ok) := by
      simp [step, Op.conn, State.init, Cccd.State.init, stepConn, encConn, List.replicate]
    simp only [run, hsec]
    cases hq : d.queueSize with
    | none =>
      have : (setConn (Cccd.State.init d mem) 0 (encConn d)).decl.queueSize = none := hq
      simp only [step, Op.conn, conn0_after_sec, this, Cccd.step, h16, h18, or_self, if_false, hoob]
      simp
    | some S =>
      have : (setConn (Cccd.State.init d mem) 0 (encConn d)).decl.queueSize = some S := hq
      simp only [step, Op.conn, conn0_after_sec, this, h16, h18, if_false, hoob]
      simp
  · intro h ops
    have hinv : Inv (State.init d mem) := by
      refine ⟨shape_init_safe h hmtu, ?_, ⟨[], rfl, by simp⟩⟩
      show match d.queueSize with
        | none => Queue.empty = Queue.empty
        | some S => S < 65536 ∧ ([] : List UInt8).length ≤ S
      cases hq : d.queueSize with
      | none => rfl
      | some S => exact ⟨hS S hq, Nat.zero_le _⟩
    exact (run_inv hinv ops).2

/-! ### non-vacuity, and why each clause of `declWF` is there -/

/-- a server like W2 of the harness: values, a read only value, a CCCD, a user description, a queue -/
def exDecl : Decl :=
  { attrs := [.ro, .ro, .value 0 4 true true false, .ro, .value 1 2 true false false, .cccd 0 false, .descr 3],
    nCccd := 1, queueSize := some 16 }

example : declWF exDecl [[1, 2, 3, 4], [5, 6]] = true := by decide

/-- the history fills the queue (2 × 7 of 16 bytes), is refused a third element, executes -/
example :
    let ops : List Op := [.pdu 0 [0x16, 3, 0, 0, 0, 0xaa], .pdu 0 [0x16, 6, 0, 0, 0, 1], .pdu 0 [0x16, 3, 0, 1, 0, 0xbb],
                          .pdu 0 [0x18, 1]]
    (run (State.init exDecl [[1, 2, 3, 4], [5, 6]]) ops).2 =
      [.resp [0x17, 3, 0, 0, 0, 0xaa] 0, .resp [0x17, 6, 0, 0, 0, 1] 0, .resp [0x01, 0x16, 3, 0, 0x09] 0,
       .resp [0x19] 1] := by decide

example : Inv (State.init exDecl [[1, 2, 3, 4], [5, 6]]) := inv_init (by decide)

/-- a bound variable shorter than the declared `sizeof( T )` (impossible in C++): the read is out of bounds -/
example : (step (State.init { exDecl with queueSize := none } [[1, 2, 3], [5, 6]]) (.pdu 0 [0x0a, 3, 0])).2 = .oob := by
  decide
example : declWF exDecl [[1, 2, 3], [5, 6]] = false := by decide

/-- a CCCD position outside of `configs_` (impossible: `index_of` over a permutation of `0 … n-1`) -/
example : (step (State.init { exDecl with nCccd := 0 } [[1, 2, 3, 4], [5, 6]]) (.pdu 0 [0x12, 6, 0, 1, 0])).2 = .oob := by
  decide
example : declWF { exDecl with nCccd := 0 } [[1, 2, 3, 4], [5, 6]] = false := by decide

/-- a state that violates the invariant (a queued element for handle 9, which has no attribute):
    Execute Write is out of bounds (`attribute_at( invalid_attribute_index )`) -/
example :
    (step { base := Cccd.State.init exDecl [[1, 2, 3, 4], [5, 6]], queue := ⟨some 0, encode [[9, 0, 0, 0, 1]]⟩ }
      (.pdu 0 [0x18, 1])).2 = .oob := by decide

end BluetoeModel.AttWriteQueue
