/-
  Model of the pairing method selection and of the reported pairing status of the three bluetoe
  security managers.

  src: bluetoe/sm/include/bluetoe/io_capabilities.hpp        (IO capability matrix)
       bluetoe/sm/include/bluetoe/oob_authentication.hpp     (OOB data presence)
       bluetoe/sm/include/bluetoe/security_manager.hpp       (selection call sites, exchange)
       bluetoe/sm/include/bluetoe/security_connection_data.hpp (local_device_pairing_status)

  Only as much of the pairing exchange is modelled as it takes to say whether a pairing driven by
  a central completes and what the peripheral reports afterwards (the protocol state machines are
  the subject of the `Sm` component).  Cryptography is ideal: a confirm / DHKey check passes iff
  both sides put the same inputs in (the harness runs the real AES / P-256 and reports `chk`).
-/
namespace BluetoeModel.SmSelect

/-! ### enumerations of io_capabilities.hpp -/

/-- `details::io_capabilities` (numeric values are the protocol values) -/
inductive IoCap where
  | displayOnly | displayYesNo | keyboardOnly | noInputNoOutput | keyboardDisplay
deriving DecidableEq, Repr

def IoCap.toNat : IoCap → Nat
  | .displayOnly => 0 | .displayYesNo => 1 | .keyboardOnly => 2
  | .noInputNoOutput => 3 | .keyboardDisplay => 4

def IoCap.ofNat? : Nat → Option IoCap
  | 0 => some .displayOnly | 1 => some .displayYesNo | 2 => some .keyboardOnly
  | 3 => some .noInputNoOutput | 4 => some .keyboardDisplay | _ => none

/-- `details::legacy_pairing_algorithm` -/
inductive LegacyAlg where
  | justWorks | oob | passkeyDisplay | passkeyInput
deriving DecidableEq, Repr

def LegacyAlg.toNat : LegacyAlg → Nat
  | .justWorks => 0 | .oob => 1 | .passkeyDisplay => 2 | .passkeyInput => 3

/-- `details::lesc_pairing_algorithm` -/
inductive LescAlg where
  | justWorks | oob | passkeyDisplay | passkeyInput | numericComparison
deriving DecidableEq, Repr

def LescAlg.toNat : LescAlg → Nat
  | .justWorks => 0 | .oob => 1 | .passkeyDisplay => 2 | .passkeyInput => 3
  | .numericComparison => 4

/-- the input option of the device: `pairing_no_input` (default) / `pairing_yes_no` / `pairing_keyboard` -/
inductive Input where
  | noInput | yesNo | keyboard
deriving DecidableEq, Repr

/-- the output option: `pairing_no_output` (default) / `pairing_numeric_output` -/
inductive Output where
  | noOutput | numeric
deriving DecidableEq, Repr

/-- `io_capabilities_matrix< Options... >`: input_capabilities × output_capabilities -/
structure LocalIo where
  inp : Input
  out : Output
deriving DecidableEq, Repr

-- src: io_capabilities.hpp: pairing_no_output::get_io_capabilities (3 overloads),
--      pairing_numeric_output::get_io_capabilities (3 overloads)
def getIoCapabilities (l : LocalIo) : IoCap :=
  match l.out, l.inp with
  | .noOutput, .noInput  => .noInputNoOutput
  | .noOutput, .yesNo    => .noInputNoOutput
  | .noOutput, .keyboard => .keyboardOnly
  | .numeric,  .noInput  => .displayOnly
  | .numeric,  .yesNo    => .displayYesNo
  | .numeric,  .keyboard => .keyboardDisplay

-- src: io_capabilities.hpp: pairing_no_output::select_legacy_pairing_algorithm (3 overloads),
--      pairing_numeric_output::select_legacy_pairing_algorithm (3 overloads);
--      `io` is the remote IO capability byte cast to the enum (any byte value)
def selectLegacy (l : LocalIo) (io : Nat) : LegacyAlg :=
  match l.out, l.inp with
  | .noOutput, .noInput  => .justWorks
  | .noOutput, .yesNo    => .justWorks
  | .noOutput, .keyboard => if io = 3 then .justWorks else .passkeyInput
  | .numeric,  .noInput  => if io = 2 ∨ io = 4 then .passkeyDisplay else .justWorks
  | .numeric,  .yesNo    => if io = 2 ∨ io = 4 then .passkeyDisplay else .justWorks
  | .numeric,  .keyboard =>
      if io = 3 then .justWorks
      else if io = 2 then .passkeyDisplay
      else .passkeyInput

-- src: io_capabilities.hpp: pairing_no_output::select_lesc_pairing_algorithm (3 overloads),
--      pairing_numeric_output::select_lesc_pairing_algorithm (3 overloads)
def selectLesc (l : LocalIo) (io : Nat) : LescAlg :=
  match l.out, l.inp with
  | .noOutput, .noInput  => .justWorks
  | .noOutput, .yesNo    => .justWorks
  | .noOutput, .keyboard => if io = 3 then .justWorks else .passkeyInput
  | .numeric,  .noInput  => if io = 2 ∨ io = 4 then .passkeyDisplay else .justWorks
  | .numeric,  .yesNo    =>
      if io = 1 ∨ io = 4 then .numericComparison
      else if io = 2 then .passkeyDisplay
      else .justWorks
  | .numeric,  .keyboard =>
      if io = 1 ∨ io = 4 then .numericComparison
      else if io = 0 then .passkeyInput
      else if io = 2 then .passkeyDisplay
      else .justWorks

/-! ### the three managers and their configuration -/

/-- `legacy_security_manager` / `lesc_security_manager` / `security_manager` -/
inductive Mgr where
  | legacy | lesc | combined
deriving DecidableEq, Repr

/-- the link layer options that matter for selection and status -/
structure Config where
  mgr    : Mgr
  io     : LocalIo
  mitm   : Bool     -- `require_man_in_the_middle_protection` in the option list
  oobOpt : Bool     -- `oob_authentication_callback< T, Obj >` in the option list
deriving DecidableEq, Repr

-- src: security_manager.hpp: security_manager_base::authentication_requirements_flags
--      (accumulated `flags` of the options; bonding / keypress options are not instantiated)
def authFlags (c : Config) : Nat := if c.mitm then 4 else 0

-- src: oob_authentication.hpp: oob_authentication_callback::request_oob_data_presents_for_remote_device
--      followed by has_oob_data_for_remote_device; details::no_oob_authentication answers false.
--      `cbHas` is the first member of what `Obj.sm_oob_authentication_data( address )` returns.
def requestOob (c : Config) (cbHas : Bool) : Bool := c.oobOpt && cbHas

-- src: oob_authentication.hpp: oob_authentication_callback() : oob_data_present_( false )
def oobInitially : Bool := false

-- src: security_manager.hpp: legacy_select_pairing_algorithm (auth_req is an unnamed parameter)
def legacySelectPairingAlgorithm (l : LocalIo) (io oobFlag _authReq : Nat) (hasOob : Bool) : LegacyAlg :=
  if oobFlag ≠ 0 ∧ hasOob = true then .oob else selectLegacy l io

-- src: security_manager.hpp: lesc_select_pairing_algorithm (auth_req is an unnamed parameter)
def lescSelectPairingAlgorithm (l : LocalIo) (io oobFlag _authReq : Nat) (hasOob : Bool) : LescAlg :=
  if oobFlag ≠ 0 ∨ hasOob = true then .oob else selectLesc l io

-- src: security_manager.hpp: legacy_local_io_caps
def legacyLocalIoCaps (c : Config) (hasOob : Bool) : Nat × Nat × Nat :=
  ((getIoCapabilities c.io).toNat, if hasOob then 1 else 0, authFlags c)

-- src: security_manager.hpp: lesc_local_io_caps (OOB flag constant 0, SC bit added)
def lescLocalIoCaps (c : Config) : Nat × Nat × Nat :=
  ((getIoCapabilities c.io).toNat, 0, authFlags c ||| 8)

/-- what a Pairing Request leads to: Pairing Failed, or a selected algorithm plus the three
    bytes IO capability / OOB flag / AuthReq of the Pairing Response -/
inductive Sel where
  | rej (code : Nat)
  | legacy (alg : LegacyAlg) (rsp : Nat × Nat × Nat)
  | lesc (alg : LescAlg) (rsp : Nat × Nat × Nat)
deriving DecidableEq, Repr

-- src: security_manager.hpp: the parameter check common to the three request handlers
--      (maximum key size 16 and key distribution 0 are fixed by the harness)
def validRequest (io oobFlag : Nat) : Bool := io ≤ 4 && oobFlag ≤ 1

-- src: `auth_req & authentication_requirements_flags::secure_connections`
def scRequested (authReq : Nat) : Bool := authReq &&& 8 != 0

-- src: security_manager.hpp: security_manager_base::legacy_handle_pairing_request (state idle, size 7)
def legacyHandlePairingRequest (c : Config) (cbHas : Bool) (io oobFlag authReq : Nat) : Sel :=
  if !validRequest io oobFlag then .rej 10
  else
    let has := requestOob c cbHas
    .legacy (legacySelectPairingAlgorithm c.io io oobFlag (authReq &&& 0x1f) has) (legacyLocalIoCaps c has)

-- src: security_manager.hpp: security_manager_base::lesc_handle_pairing_request (state idle, size 7).
--      This handler never calls request_oob_data_presents_for_remote_device: the OOB callback is
--      not consulted and has_oob_data_for_remote_device() still has its constructor value.
def lescHandlePairingRequest (c : Config) (_cbHas : Bool) (io oobFlag authReq : Nat) : Sel :=
  if !validRequest io oobFlag then .rej 10
  else if !scRequested authReq then .rej 5
  else .lesc (lescSelectPairingAlgorithm c.io io oobFlag authReq oobInitially) (lescLocalIoCaps c)

-- src: security_manager.hpp: security_manager_impl::handle_pairing_request (state idle, size 7);
--      both branches answer with lesc_local_io_caps()
def combinedHandlePairingRequest (c : Config) (cbHas : Bool) (io oobFlag authReq : Nat) : Sel :=
  if !validRequest io oobFlag then .rej 10
  else
    let has := requestOob c cbHas
    if scRequested authReq then
      .lesc (lescSelectPairingAlgorithm c.io io oobFlag authReq has) (lescLocalIoCaps c)
    else
      .legacy (legacySelectPairingAlgorithm c.io io oobFlag authReq has) (lescLocalIoCaps c)

-- src: l2cap_input of the three `*_security_manager_impl`, opcode pairing_request
def handlePairingRequest (c : Config) (cbHas : Bool) (io oobFlag authReq : Nat) : Sel :=
  match c.mgr with
  | .legacy   => legacyHandlePairingRequest c cbHas io oobFlag authReq
  | .lesc     => lescHandlePairingRequest c cbHas io oobFlag authReq
  | .combined => combinedHandlePairingRequest c cbHas io oobFlag authReq

/-- how often the OOB callback object is asked during one request -/
def oobQueries (c : Config) : Nat :=
  match c.mgr with
  | .lesc => 0
  | _ => if c.oobOpt then 1 else 0

/-! ### the rest of the exchange, as far as completion and the reported status go -/

/-- temporary key material by origin; the central of the harness uses one of them -/
inductive Tk where
  | zero      -- Just Works
  | passkey   -- the six digits the user reads from / types into the peripheral
  | oobData   -- the OOB data both sides hold
  | wrong     -- some other non-zero value
deriving DecidableEq, Repr

-- src: security_manager.hpp: legacy_create_temporary_key / legacy_temporary_key
def legacyTemporaryKey : LegacyAlg → Tk
  | .justWorks      => .zero
  | .oob            => .oobData       -- get_oob_data_for_last_remote_device()
  | .passkeyDisplay => .passkey       -- security_functions().create_passkey()
  | .passkeyInput   => .passkey       -- io_device_t::sm_pairing_passkey()

/-- how the user behaves when asked yes / no (see harness/smsel.cpp) -/
inductive User where
  | silent | yesAtOnce | noAtOnce | yesBeforeCheck | yesAfterCheck | noBeforeCheck | noAfterCheck
deriving DecidableEq, Repr

def User.confirms : User → Bool
  | .yesAtOnce | .yesBeforeCheck | .yesAfterCheck => true
  | _ => false

/-- where an exchange ends when it does not complete -/
inductive Fail where
  | none
  | req (code : Nat)
  | random (code : Nat)
  | dhkey (code : Nat)
  | dhkeyWait
deriving DecidableEq, Repr

/-- `device_pairing_status` -/
inductive Status where
  | noKey | unauthenticatedKey | authenticatedKey | authenticatedKeyWithSecureConnection
deriving DecidableEq, Repr

def Status.toNat : Status → Nat
  | .noKey => 0 | .unauthenticatedKey => 1 | .authenticatedKey => 2
  | .authenticatedKeyWithSecureConnection => 3

/-- the observable part of one pairing attempt -/
structure Rest where
  done  : Bool     -- the peripheral reached pairing_completed
  asked : Bool     -- sm_pairing_yes_no was called
  shown : Bool     -- sm_pairing_numeric_output was called
  kbd   : Bool     -- sm_pairing_passkey was called
  fail  : Fail
deriving DecidableEq, Repr

-- src: security_manager.hpp: legacy_handle_pairing_confirm (creates the TK, *always* hands it to
--      io_device_t::sm_pairing_numeric_output, answers Sconfirm) and legacy_handle_pairing_random
--      (c1( TK, Mrand ) ≠ Mconfirm → Pairing Failed confirm_value_failed (4), else completed)
def legacyRest (l : LocalIo) (alg : LegacyAlg) (centralTk : Tk) : Rest :=
  let shown := l.out == .numeric
  let kbd := alg == .passkeyInput && l.inp == .keyboard
  if legacyTemporaryKey alg = centralTk then
    { done := true, asked := false, shown := shown, kbd := kbd, fail := .none }
  else
    { done := false, asked := false, shown := shown, kbd := kbd, fail := .random 4 }

/-- pairing state after the Pairing Random of an LESC exchange -/
inductive AfterRandom where
  | exchanged | wait | failed
deriving DecidableEq, Repr

-- src: security_manager.hpp: lesc_handle_pairing_random: only numeric_comparison involves the
--      user: sm_pairing_numeric_compare_output, then sm_pairing_request_yes_no
--      (pairing_no_input: returns true, state unchanged; pairing_yes_no: wait_for_user_response,
--      then Obj.sm_pairing_yes_no which may answer at once: yes_no_response( true ) without a verified
--      DHKey check leads back to lesc_pairing_random_exchanged; pairing_keyboard: does not compile)
def lescAfterRandom (l : LocalIo) (alg : LescAlg) (u : User) : AfterRandom × Bool × Bool :=
  if alg = .numericComparison then
    let shown := l.out == .numeric
    match l.inp with
    | .yesNo =>
        match u with
        | .yesAtOnce => (.exchanged, true, shown)
        | .noAtOnce  => (.failed, true, shown)
        | _          => (.wait, true, shown)
    | _ => (.exchanged, false, shown)
  else (.exchanged, false, false)

-- src: security_manager.hpp: lesc_handle_pairing_public_key, lesc_l2cap_output (Cb = f4( PKb, PKa,
--      Nb, 0 ) for every algorithm), lesc_handle_pairing_random, lesc_handle_pairing_dhkey_check
--      (Ea checked with r = 0 for every algorithm; in user_response_wait it is checked as well and
--      remembered: user_response_wait_dhkey_verified), yes_no_response, lesc_l2cap_output in
--      user_response_success (sends Eb) / user_response_failed.
--      The central is honest (valid key, matching Ea), so no check fails for cryptographic reasons.
def lescRest (l : LocalIo) (alg : LescAlg) (u : User) : Rest :=
  match lescAfterRandom l alg u with
  | (.failed, asked, shown) =>
      -- Pairing Random answered with Pairing Failed passkey_entry_failed (1)
      { done := false, asked := asked, shown := shown, kbd := false, fail := .random 1 }
  | (.exchanged, asked, shown) =>
      { done := true, asked := asked, shown := shown, kbd := false, fail := .none }
  | (.wait, asked, shown) =>
      match u with
      | .yesBeforeCheck | .yesAfterCheck =>
          { done := true, asked := asked, shown := shown, kbd := false, fail := .none }
      | .noBeforeCheck | .noAfterCheck =>
          { done := false, asked := asked, shown := shown, kbd := false, fail := .dhkey 1 }
      | _ =>
          { done := false, asked := asked, shown := shown, kbd := false, fail := .dhkeyWait }

-- src: security_connection_data.hpp: legacy_security_connection_data::local_device_pairing_status,
--      security_connection_data::legacy_pairing_completed + local_device_pairing_status
def legacyStatus (alg : LegacyAlg) (done : Bool) : Status :=
  if !done then .noKey
  else if alg = .justWorks then .unauthenticatedKey else .authenticatedKey

-- src: security_connection_data.hpp: lesc_security_connection_data::local_device_pairing_status
--      (LESC only manager: authenticated_key after numeric comparison) and security_connection_data::lesc_pairing_completed +
--      local_device_pairing_status (combined manager)
def lescStatus (m : Mgr) (alg : LescAlg) (done : Bool) : Status :=
  if !done then .noKey
  else match m with
    | .combined => if alg = .justWorks then .unauthenticatedKey else .authenticatedKey
    | _ => if alg = .numericComparison then .authenticatedKey else .unauthenticatedKey

/-- one complete pairing attempt: what was selected, how it went, what is reported afterwards -/
structure Outcome where
  sel    : Sel
  rest   : Rest
  status : Status
deriving DecidableEq, Repr

def pair (c : Config) (cbHas : Bool) (io oobFlag authReq : Nat) (tk : Tk) (u : User) : Outcome :=
  match handlePairingRequest c cbHas io oobFlag authReq with
  | .rej code =>
      { sel := .rej code, status := .noKey,
        rest := { done := false, asked := false, shown := false, kbd := false, fail := .req code } }
  | .legacy alg rsp =>
      let r := legacyRest c.io alg tk
      { sel := .legacy alg rsp, rest := r, status := legacyStatus alg r.done }
  | .lesc alg rsp =>
      let r := lescRest c.io alg u
      { sel := .lesc alg rsp, rest := r, status := lescStatus c.mgr alg r.done }

/-! ### several pairings on one connection object -/

/-- pairing state between two pairing attempts, as far as the next Pairing Request and the status
    function read it: `idle`, `pairing_completed`, or stuck inside an exchange (the user never
    answered) -/
inductive Phase where
  | idle | completed | pending
deriving DecidableEq, Repr

/-- the members of the connection data that `local_device_pairing_status` reads -/
structure Conn where
  phase         : Phase
  legacyAlg     : LegacyAlg   -- legacy_security_connection_data::algorithm_, written by the request handler
  lescAlg       : LescAlg     -- lesc_security_connection_data::algorithm_, written by the request handler
  pairingStatus : Status      -- security_connection_data::pairing_status_, written at completion only
deriving DecidableEq, Repr

-- src: link_layer.hpp `connection_data_ = connection_data_t()`: value-initialised, state_( idle )
def Conn.fresh : Conn := ⟨.idle, .justWorks, .justWorks, .noKey⟩

-- src: security_connection_data.hpp: local_device_pairing_status of the three connection data classes
def Conn.reported (m : Mgr) (k : Conn) : Status :=
  if k.phase ≠ .completed then .noKey
  else match m with
    | .legacy   => if k.legacyAlg = .justWorks then .unauthenticatedKey else .authenticatedKey
    | .lesc     => if k.lescAlg = .numericComparison then .authenticatedKey else .unauthenticatedKey
    | .combined => k.pairingStatus

/-- where an attempt that was started in `idle` leaves the pairing state -/
def phaseAfter (r : Rest) : Phase :=
  if r.done then .completed else if r.fail = .dhkeyWait then .pending else .idle

-- src: the request handlers write the selected algorithm (`state.pairing_algorithm( … )`);
--      security_connection_data::legacy_pairing_completed / lesc_pairing_completed write
--      pairing_status_ (Just Works → unauthenticated_key, everything else → authenticated_key)
def connAfter (k : Conn) (o : Outcome) : Conn :=
  match o.sel with
  | .rej _ => k
  | .legacy alg _ =>
      { k with phase := phaseAfter o.rest, legacyAlg := alg,
               pairingStatus := if o.rest.done then
                   (if alg = .justWorks then .unauthenticatedKey else .authenticatedKey)
                 else k.pairingStatus }
  | .lesc alg _ =>
      { k with phase := phaseAfter o.rest, lescAlg := alg,
               pairingStatus := if o.rest.done then
                   (if alg = .justWorks then .unauthenticatedKey else .authenticatedKey)
                 else k.pairingStatus }

/-- one more pairing attempt on an existing connection: new connection data, what the central
    observed, how often the OOB callback was asked.
    src: every request handler: `state.state() != idle` → Pairing Failed unspecified_reason (8) and
    error_reset(), before anything else is looked at -/
def stepPair (c : Config) (k : Conn) (cbHas : Bool) (io oobFlag authReq : Nat) (tk : Tk) (u : User) :
    Conn × Outcome × Nat :=
  if k.phase ≠ .idle then
    ({ k with phase := .idle },
     { sel := .rej 8, status := .noKey,
       rest := { done := false, asked := false, shown := false, kbd := false, fail := .req 8 } }, 0)
  else
    let o := pair c cbHas io oobFlag authReq tk u
    (connAfter k o, o, oobQueries c)

/-- operations of a history on one connection -/
inductive HOp where
  | pair (cbHas : Bool) (io oobFlag authReq : Nat) (tk : Tk) (u : User)
  | peerFail     -- the central sends Pairing Failed: unknown opcode → error_response → idle
  | reset        -- new connection: `connection_data_ = connection_data_t()`
deriving DecidableEq, Repr

def stepH (c : Config) (k : Conn) : HOp → Conn
  | .pair cb io oob auth tk u => (stepPair c k cb io oob auth tk u).1
  | .peerFail => { k with phase := .idle }
  | .reset => Conn.fresh

def runH (c : Config) (h : List HOp) : Conn := h.foldl (stepH c) Conn.fresh

/-- configurations that exist: `lesc_security_manager` and `security_manager` do not compile with
    `pairing_keyboard` (io_capabilities_matrix::sm_pairing_request_yes_no needs a member the
    keyboard option does not have) -/
def Config.compiles (c : Config) : Bool :=
  c.mgr == .legacy || c.io.inp != .keyboard

end BluetoeModel.SmSelect
