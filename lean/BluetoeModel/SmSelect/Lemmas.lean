import BluetoeModel.SmSelect.Spec
/-!
  Finite enumerations of the parameter types (so that statements over the complete domain can be
  decided by evaluation) and the decoding of the AuthReq byte.
-/
namespace BluetoeModel.SmSelect

def IoCap.all : List IoCap :=
  [.displayOnly, .displayYesNo, .keyboardOnly, .noInputNoOutput, .keyboardDisplay]

theorem IoCap.mem_all (x : IoCap) : x ∈ IoCap.all := by cases x <;> decide

theorem IoCap.ofNat_toNat (x : IoCap) : IoCap.ofNat? x.toNat = some x := by cases x <;> rfl

def LocalIo.all : List LocalIo :=
  [⟨.noInput, .noOutput⟩, ⟨.yesNo, .noOutput⟩, ⟨.keyboard, .noOutput⟩,
   ⟨.noInput, .numeric⟩, ⟨.yesNo, .numeric⟩, ⟨.keyboard, .numeric⟩]

theorem LocalIo.mem_all (x : LocalIo) : x ∈ LocalIo.all := by
  rcases x with ⟨i, o⟩; cases i <;> cases o <;> decide

def Mgr.all : List Mgr := [.legacy, .lesc, .combined]
theorem Mgr.mem_all (x : Mgr) : x ∈ Mgr.all := by cases x <;> decide

def boolAll : List Bool := [false, true]
theorem mem_boolAll (b : Bool) : b ∈ boolAll := by cases b <;> decide

def LegacyAlg.all : List LegacyAlg := [.justWorks, .oob, .passkeyDisplay, .passkeyInput]
theorem LegacyAlg.mem_all (x : LegacyAlg) : x ∈ LegacyAlg.all := by cases x <;> decide

def LescAlg.all : List LescAlg :=
  [.justWorks, .oob, .passkeyDisplay, .passkeyInput, .numericComparison]
theorem LescAlg.mem_all (x : LescAlg) : x ∈ LescAlg.all := by cases x <;> decide

def Tk.all : List Tk := [.zero, .passkey, .oobData, .wrong]
theorem Tk.mem_all (x : Tk) : x ∈ Tk.all := by cases x <;> decide

def User.all : List User :=
  [.silent, .yesAtOnce, .noAtOnce, .yesBeforeCheck, .yesAfterCheck, .noBeforeCheck, .noAfterCheck]
theorem User.mem_all (x : User) : x ∈ User.all := by cases x <;> decide

/-- the defined bits of the AuthReq byte of a Pairing Request (Vol 3 Part H 3.5.1, Figure 3.3) -/
structure AuthReq where
  bonding  : Bool
  mitm     : Bool
  sc       : Bool
  keypress : Bool
deriving DecidableEq, Repr

def AuthReq.toNat (a : AuthReq) : Nat :=
  (if a.bonding then 1 else 0) + (if a.mitm then 4 else 0) + (if a.sc then 8 else 0)
    + (if a.keypress then 16 else 0)

def AuthReq.all : List AuthReq :=
  boolAll.flatMap fun b => boolAll.flatMap fun m => boolAll.flatMap fun s => boolAll.map fun k =>
    ⟨b, m, s, k⟩

theorem AuthReq.mem_all (a : AuthReq) : a ∈ AuthReq.all := by
  rcases a with ⟨b, m, s, k⟩; cases b <;> cases m <;> cases s <;> cases k <;> decide

/-- bit 2 of an AuthReq byte -/
def mitmBit (n : Nat) : Bool := n &&& 4 != 0

theorem scRequested_toNat (a : AuthReq) : scRequested a.toNat = a.sc := by
  rcases a with ⟨b, m, s, k⟩; cases b <;> cases m <;> cases s <;> cases k <;> rfl

theorem mitmBit_toNat (a : AuthReq) : mitmBit a.toNat = a.mitm := by
  rcases a with ⟨b, m, s, k⟩; cases b <;> cases m <;> cases s <;> cases k <;> rfl

/-- the remote side of a Pairing Request as far as method selection reads it -/
structure Request where
  io   : IoCap
  oob  : Bool
  auth : AuthReq
deriving DecidableEq, Repr

def Request.all : List Request :=
  IoCap.all.flatMap fun i => boolAll.flatMap fun o => AuthReq.all.map fun a => ⟨i, o, a⟩

theorem Request.mem_all (r : Request) : r ∈ Request.all := by
  rcases r with ⟨i, o, a⟩
  simp only [Request.all, List.mem_flatMap, List.mem_map]
  exact ⟨i, IoCap.mem_all i, o, mem_boolAll o, a, AuthReq.mem_all a, rfl⟩

def Config.all : List Config :=
  Mgr.all.flatMap fun m => LocalIo.all.flatMap fun l => boolAll.flatMap fun mi => boolAll.map fun o =>
    ⟨m, l, mi, o⟩

theorem Config.mem_all (c : Config) : c ∈ Config.all := by
  rcases c with ⟨m, l, mi, o⟩
  simp only [Config.all, List.mem_flatMap, List.mem_map]
  exact ⟨m, Mgr.mem_all m, l, LocalIo.mem_all l, mi, mem_boolAll mi, o, mem_boolAll o, rfl⟩

def oobByte (b : Bool) : Nat := if b then 1 else 0

/-- the model's answer to a well-formed request -/
def select (c : Config) (cbHas : Bool) (r : Request) : Sel :=
  handlePairingRequest c cbHas r.io.toNat (oobByte r.oob) r.auth.toNat

end BluetoeModel.SmSelect
