import BluetoeModel.SmSelect.Lemmas
/-!
  # C36 — Pairing method selection matches the IO capability mapping

  "For every local input/output capability configuration and every remote IO capability, OOB flag
  and authentication requirement, the chosen legacy and LESC pairing methods and the advertised
  local IO capability agree with the Core specification's mapping table (with OOB preferred as
  specified)."

  `Spec` (Spec.lean) is the specification: Tables 2.5 – 2.8 of Vol 3 Part H 2.3.2 / 2.3.5.1, written
  down from the specification.  `select` is the model of the three request handlers of
  security_manager.hpp on top of the model of io_capabilities.hpp.
-/
namespace BluetoeModel.SmSelect

/-! ## the IO capability table (Table 2.8) and the advertised IO capability (Table 2.5) -/

/-- **C36, table part**: for each of the 6 local IO configurations and each of the 5 remote IO
    capabilities, `select_legacy_pairing_algorithm` / `select_lesc_pairing_algorithm` return the
    responder's part of the Table 2.8 cell, and `get_io_capabilities` is the Table 2.5 entry. -/
theorem io_table_matches_spec (l : LocalIo) (remote : IoCap) :
    some (selectLegacy l remote.toNat) = Spec.respLegacy (Spec.table remote (Spec.ioCapOf l)).legacy
    ∧ selectLesc l remote.toNat = Spec.respLesc (Spec.table remote (Spec.ioCapOf l)).sc
    ∧ getIoCapabilities l = Spec.ioCapOf l := by
  have h : ∀ l ∈ LocalIo.all, ∀ r ∈ IoCap.all,
      some (selectLegacy l r.toNat) = Spec.respLegacy (Spec.table r (Spec.ioCapOf l)).legacy
      ∧ selectLesc l r.toNat = Spec.respLesc (Spec.table r (Spec.ioCapOf l)).sc
      ∧ getIoCapabilities l = Spec.ioCapOf l := by decide
  exact h l (LocalIo.mem_all l) remote (IoCap.mem_all remote)

/-- non-vacuity / reading aid: three cells of the table (keyboard+display responder) -/
example : selectLesc ⟨.keyboard, .numeric⟩ IoCap.displayYesNo.toNat = .numericComparison
    ∧ selectLegacy ⟨.keyboard, .numeric⟩ IoCap.displayYesNo.toNat = .passkeyInput
    ∧ selectLegacy ⟨.keyboard, .numeric⟩ IoCap.keyboardOnly.toNat = .passkeyDisplay := by decide

/-! ## the OOB rules (Tables 2.6 / 2.7, first rows) — for every byte value, not just 0..4 -/

/-- LE legacy pairing: OOB is chosen iff *both* sides have OOB data -/
theorem oob_rule_legacy (l : LocalIo) (io oobFlag authReq : Nat) (hasOob : Bool) :
    legacySelectPairingAlgorithm l io oobFlag authReq hasOob = .oob ↔ (oobFlag ≠ 0 ∧ hasOob = true) := by
  unfold legacySelectPairingAlgorithm
  by_cases h : oobFlag ≠ 0 ∧ hasOob = true
  · simp [h]
  · simp only [h, if_false, iff_false]
    rcases l with ⟨i, o⟩
    cases i <;> cases o <;> simp only [selectLegacy] <;> (repeat' split) <;> simp

/-- LE Secure Connections: OOB is chosen iff *at least one* side has OOB data -/
theorem oob_rule_lesc (l : LocalIo) (io oobFlag authReq : Nat) (hasOob : Bool) :
    lescSelectPairingAlgorithm l io oobFlag authReq hasOob = .oob ↔ (oobFlag ≠ 0 ∨ hasOob = true) := by
  unfold lescSelectPairingAlgorithm
  by_cases h : oobFlag ≠ 0 ∨ hasOob = true
  · simp [h]
  · simp only [h, if_false, iff_false]
    rcases l with ⟨i, o⟩
    cases i <;> cases o <;> simp only [selectLesc] <;> (repeat' split) <;> simp

example : legacySelectPairingAlgorithm ⟨.keyboard, .numeric⟩ 0 1 0 true = .oob
    ∧ legacySelectPairingAlgorithm ⟨.keyboard, .numeric⟩ 0 1 0 false = .passkeyInput
    ∧ lescSelectPairingAlgorithm ⟨.noInput, .noOutput⟩ 3 1 8 false = .oob := by decide

/-! ## the complete rule: Tables 2.6 – 2.8 applied to the exchanged Pairing Request / Response

  The specification's inputs are the fields of the two PDUs: IO capability, OOB data flag and the
  MITM / SC bits of AuthReq of the initiator (request) and of the responder (response). -/

/-- the selection for one request agrees with 2.3.5.1 applied to request and response.
    A refusal is conforming only for the LESC-only manager and a request without the SC bit
    (Secure Connections Only mode). -/
def conforms (c : Config) (cbHas : Bool) (r : Request) : Bool :=
  match select c cbHas r with
  | .rej _ => c.mgr == .lesc && !r.auth.sc
  | .legacy alg (rio, roob, rauth) =>
      !(r.auth.sc && scRequested rauth)
      && IoCap.ofNat? rio == some (Spec.ioCapOf c.io)
      && Spec.respLegacy (Spec.method false r.oob (roob != 0) r.auth.mitm (mitmBit rauth) r.io
            (Spec.ioCapOf c.io)) == some alg
  | .lesc alg (rio, roob, rauth) =>
      (r.auth.sc && scRequested rauth)
      && IoCap.ofNat? rio == some (Spec.ioCapOf c.io)
      && Spec.respLesc (Spec.method true r.oob (roob != 0) r.auth.mitm (mitmBit rauth) r.io
            (Spec.ioCapOf c.io)) == alg

/-- **C36 at full strength**: every configuration, every request -/
def selection_matches_spec_full : Prop :=
  ∀ (c : Config) (cbHas : Bool) (r : Request), conforms c cbHas r = true

/-! ### the two classes of requests on which the code deviates -/

/-- has_oob_data_for_remote_device() at the time of the selection -/
def effectiveOob (c : Config) (cbHas : Bool) : Bool :=
  match c.mgr with
  | .lesc => false                 -- the callback is never asked
  | _ => c.oobOpt && cbHas

/-- the request is handled by the LESC half of the manager -/
def scPath (c : Config) (r : Request) : Bool := c.mgr != .legacy && r.auth.sc

/-- the request is accepted at all -/
def accepted (c : Config) (r : Request) : Bool := !(c.mgr == .lesc && !r.auth.sc)

/-- the code picks OOB -/
def codeOob (c : Config) (cbHas : Bool) (r : Request) : Bool :=
  if scPath c r then r.oob || effectiveOob c cbHas else r.oob && effectiveOob c cbHas

/-- the Table 2.8 cell for this pair of IO capabilities is something else than Just Works -/
def cellNeedsMitm (c : Config) (r : Request) : Bool :=
  if scPath c r then selectLesc c.io r.io.toNat != .justWorks
  else selectLegacy c.io r.io.toNat != .justWorks

/-- deviation 1 (`auth_req` is an unnamed parameter of both select functions): neither the
    request nor the response sets MITM, so the specification prescribes Just Works, but the code
    goes by the IO capability table and picks pass key entry / numeric comparison -/
def mitmIgnoredCell (c : Config) (cbHas : Bool) (r : Request) : Bool :=
  accepted c r && !c.mitm && !r.auth.mitm && !codeOob c cbHas r && cellNeedsMitm c r

/-- deviation 2 (`security_manager` answers with lesc_local_io_caps(), OOB data flag constant 0,
    on both branches): the combined manager picks OOB because *it* has OOB data, while the
    response it sends says it has none — so by the exchanged flags the method is not OOB -/
def oobNotAdvertisedCell (c : Config) (cbHas : Bool) (r : Request) : Bool :=
  c.mgr == .combined && effectiveOob c cbHas && (if r.auth.sc then !r.oob else r.oob)

/-- only the SC bit of the AuthReq byte is read — for *every* byte value -/
theorem auth_req_only_sc_bit (c : Config) (cbHas : Bool) (io oobFlag a : Nat) :
    handlePairingRequest c cbHas io oobFlag a
      = handlePairingRequest c cbHas io oobFlag (if scRequested a then 8 else 0) := by
  have hsc : scRequested (if scRequested a then 8 else 0) = scRequested a := by
    cases h : scRequested a <;> simp [scRequested]
  rcases c with ⟨m, l, mi, o⟩
  cases m <;>
    simp only [handlePairingRequest, legacyHandlePairingRequest, lescHandlePairingRequest,
      combinedHandlePairingRequest, legacySelectPairingAlgorithm, lescSelectPairingAlgorithm, hsc]

/-- the request with the bits that are not read (bonding, keypress) cleared -/
def Request.core (r : Request) : Request := ⟨r.io, r.oob, ⟨false, r.auth.mitm, r.auth.sc, false⟩⟩

theorem select_core (c : Config) (cbHas : Bool) (r : Request) :
    select c cbHas r.core = select c cbHas r := by
  unfold select
  rw [auth_req_only_sc_bit c cbHas _ _ r.core.auth.toNat, auth_req_only_sc_bit c cbHas _ _ r.auth.toNat,
    scRequested_toNat, scRequested_toNat]
  rfl

def Request.coreAll : List Request :=
  IoCap.all.flatMap fun i => boolAll.flatMap fun o => boolAll.flatMap fun m => boolAll.map fun s =>
    ⟨i, o, ⟨false, m, s, false⟩⟩

theorem Request.core_mem (r : Request) : r.core ∈ Request.coreAll := by
  simp only [Request.coreAll, List.mem_flatMap, List.mem_map]
  exact ⟨r.io, IoCap.mem_all _, r.oob, mem_boolAll _, r.auth.mitm, mem_boolAll _, r.auth.sc,
    mem_boolAll _, rfl⟩

/-- one cell of the complete table: conformance ⇔ outside the two deviation classes -/
def cellOk (c : Config) (cbHas : Bool) (r : Request) : Bool :=
  conforms c cbHas r == !(mitmIgnoredCell c cbHas r || oobNotAdvertisedCell c cbHas r)

/-- the complete table (72 configurations × callback answer × 5 IO capabilities × OOB flag ×
    MITM bit × SC bit = 5760 cells), evaluated by the kernel -/
theorem all_cells_ok :
    (Config.all.all fun c => boolAll.all fun b => Request.coreAll.all fun r => cellOk c b r) = true := by
  decide +kernel

theorem cellOk_core (c : Config) (cbHas : Bool) (r : Request) : cellOk c cbHas r.core = cellOk c cbHas r := by
  simp only [cellOk, conforms, mitmIgnoredCell, oobNotAdvertisedCell, accepted, codeOob, scPath,
    cellNeedsMitm, select_core]
  rfl

/-- **C36, exact extent**: the selection conforms to the specification on exactly the requests
    outside the two deviation classes (complete domain: 72 configurations × OOB callback answer ×
    5 IO capabilities × OOB flag × 16 AuthReq values) -/
theorem selection_matches_spec_iff (c : Config) (cbHas : Bool) (r : Request) :
    conforms c cbHas r = !(mitmIgnoredCell c cbHas r || oobNotAdvertisedCell c cbHas r) := by
  have h1 := List.all_eq_true.mp all_cells_ok c (Config.mem_all c)
  have h2 := List.all_eq_true.mp h1 cbHas (mem_boolAll cbHas)
  have h3 := List.all_eq_true.mp h2 r.core (Request.core_mem r)
  rw [cellOk_core] at h3
  exact eq_of_beq h3

/-- **C36, partial**: outside the two named classes the chosen method and the advertised IO
    capability are the specification's -/
theorem selection_matches_spec_partial (c : Config) (cbHas : Bool) (r : Request)
    (h₁ : mitmIgnoredCell c cbHas r = false) (h₂ : oobNotAdvertisedCell c cbHas r = false) :
    conforms c cbHas r = true := by
  rw [selection_matches_spec_iff, h₁, h₂]; rfl

/-- non-vacuity of the partial theorem: display+keyboard legacy manager, remote DisplayYesNo with
    MITM set — pass key entry, as specified -/
example :
    let c : Config := ⟨.legacy, ⟨.keyboard, .numeric⟩, false, true⟩
    let r : Request := ⟨.displayYesNo, false, ⟨false, true, false, false⟩⟩
    mitmIgnoredCell c false r = false ∧ oobNotAdvertisedCell c false r = false
    ∧ select c false r = .legacy .passkeyInput (4, 0, 0) := by decide

/-- witness for deviation 1 (replayed by the harness as `req 0 5 0 1 0 1 0 0`): legacy manager,
    display+keyboard, no MITM option; remote DisplayYesNo without MITM.  Specified: Just Works;
    selected: pass key entry. -/
theorem mitm_ignored_witness :
    conforms ⟨.legacy, ⟨.keyboard, .numeric⟩, false, true⟩ false
      ⟨.displayYesNo, false, ⟨false, false, false, false⟩⟩ = false := by decide

/-- witness for deviation 2 (`req 2 0 0 1 1 3 0 8`): combined manager without IO, OOB callback
    has data, SC request without OOB flag.  Response says "no OOB data", OOB is selected. -/
theorem oob_not_advertised_witness :
    conforms ⟨.combined, ⟨.noInput, .noOutput⟩, false, true⟩ true
      ⟨.noInputNoOutput, false, ⟨false, false, true, false⟩⟩ = false
    ∧ select ⟨.combined, ⟨.noInput, .noOutput⟩, false, true⟩ true
      ⟨.noInputNoOutput, false, ⟨false, false, true, false⟩⟩ = .lesc .oob (3, 0, 8) := by decide

/-- the full-strength statement is false of the code -/
theorem selection_matches_spec_full_witness : ¬ selection_matches_spec_full := by
  intro h
  have := h ⟨.legacy, ⟨.keyboard, .numeric⟩, false, true⟩ false
    ⟨.displayYesNo, false, ⟨false, false, false, false⟩⟩
  rw [mitm_ignored_witness] at this
  exact Bool.false_ne_true this

/-- when the device is built with `require_man_in_the_middle_protection` and has no OOB data,
    the selection is the specified one for *every* request (the MITM rule then always says "use
    the IO capabilities") -/
theorem selection_matches_spec_with_local_mitm (c : Config) (cbHas : Bool) (r : Request)
    (hm : c.mitm = true) (ho : effectiveOob c cbHas = false) : conforms c cbHas r = true := by
  apply selection_matches_spec_partial
  · simp [mitmIgnoredCell, hm]
  · simp [oobNotAdvertisedCell, ho]

example : (⟨.combined, ⟨.yesNo, .numeric⟩, true, false⟩ : Config).mitm = true
    ∧ effectiveOob ⟨.combined, ⟨.yesNo, .numeric⟩, true, false⟩ true = false := by decide

end BluetoeModel.SmSelect
