import BluetoeModel.SmSelect.Props
/-!
  # C35 — Reported pairing status reflects the authentication actually performed

  "A link is reported as having an authenticated key exactly when the completed pairing exchange
  authenticated the peer (legacy passkey or OOB with the matching temporary key; LESC numeric
  comparison confirmed by the user, or a completed LESC passkey-entry or OOB protocol), as having
  an unauthenticated key exactly after Just Works, and as having no key when no pairing
  completed."

  A scenario is a manager configuration, what the OOB callback answers, a well-formed Pairing
  Request, the temporary key the central uses (legacy) and the behaviour of the user (LESC).
  `pair` (Model.lean) is the model of the code; `exchangeAuthenticated` below is the sentence in
  parentheses evaluated on the exchange that was *executed*, not on the algorithm that was
  selected.
-/
namespace BluetoeModel.SmSelect

structure Scenario where
  c     : Config
  cbHas : Bool
  r     : Request
  tk    : Tk
  user  : User
deriving DecidableEq, Repr

def Scenario.run (s : Scenario) : Outcome :=
  pair s.c s.cbHas s.r.io.toNat (oobByte s.r.oob) s.r.auth.toNat s.tk s.user

/-- the LESC protocol the code executes for a selected algorithm.
    src: security_manager.hpp lesc_l2cap_output (`f4( PKb, PKa, Nb, 0 )`, one round),
    lesc_handle_pairing_dhkey_check (`f6( …, r = zero, … )`), lesc_handle_pairing_random (the user
    is involved for numeric_comparison only): pass key entry and OOB are never executed. -/
inductive LescProtocol where
  | justWorks | numericComparison | passkeyEntry | oob
deriving DecidableEq, Repr

def lescProtocolExecuted : LescAlg → LescProtocol
  | .numericComparison => .numericComparison
  | _ => .justWorks

/-- "the completed pairing exchange authenticated the peer":
    legacy — the exchange completed and the temporary key that went into the matching confirm
    values is a pass key or OOB data; LESC — the exchange completed and it was a numeric comparison
    the user was asked about and confirmed, or a pass key entry / OOB protocol -/
def exchangeAuthenticated (tk : Tk) (u : User) (o : Outcome) : Bool :=
  match o.sel with
  | .rej _ => false
  | .legacy _ _ => o.rest.done && (tk == .passkey || tk == .oobData)
  | .lesc alg _ =>
      o.rest.done &&
        match lescProtocolExecuted alg with
        | .numericComparison => o.rest.asked && u.confirms
        | .passkeyEntry | .oob => true
        | .justWorks => false

def Status.authenticated : Status → Bool
  | .authenticatedKey | .authenticatedKeyWithSecureConnection => true
  | _ => false

/-- the three clauses of the property for one outcome -/
def statusCorrect (tk : Tk) (u : User) (o : Outcome) : Bool :=
  let a := exchangeAuthenticated tk u o
  (o.status.authenticated == a)
    && ((o.status == .unauthenticatedKey) == (o.rest.done && !a))
    && ((o.status == .noKey) == !o.rest.done)

/-- **C35 at full strength** (over the configurations that exist) -/
def authenticated_iff_authenticated_exchange_full : Prop :=
  ∀ s : Scenario, s.c.compiles = true → statusCorrect s.tk s.user s.run = true

/-! ### the class of scenarios on which the report is wrong -/

/-- combined manager, LESC: OOB or pass key entry was *selected*, a Just Works exchange was
    *executed*, `lesc_pairing_completed` reports authenticated_key -/
def falselyAuthenticated (m : Mgr) (alg : LescAlg) : Bool :=
  m == .combined && (alg == .oob || alg == .passkeyDisplay || alg == .passkeyInput)

def excluded (s : Scenario) : Bool :=
  match s.run.sel with
  | .lesc alg _ => falselyAuthenticated s.c.mgr alg
  | _ => false

/-! ### component lemmas (complete finite domains, decided by evaluation) -/

/-- legacy half, every manager that has one, *every* algorithm value and central key -/
theorem legacy_status_correct (l : LocalIo) (alg : LegacyAlg) (rsp : Nat × Nat × Nat) (tk : Tk) (u : User) :
    statusCorrect tk u
      { sel := .legacy alg rsp, rest := legacyRest l alg tk,
        status := legacyStatus alg (legacyRest l alg tk).done } = true := by
  have h : ∀ l ∈ LocalIo.all, ∀ alg ∈ LegacyAlg.all, ∀ tk ∈ Tk.all,
      (let r := legacyRest l alg tk
       let st := legacyStatus alg r.done
       let a := r.done && (tk == .passkey || tk == .oobData)
       (st.authenticated == a) && ((st == .unauthenticatedKey) == (r.done && !a))
         && ((st == .noKey) == !r.done)) = true := by decide
  exact h l (LocalIo.mem_all l) alg (LegacyAlg.mem_all alg) tk (Tk.mem_all tk)

/-- LESC half: the report is right exactly outside that class (numeric comparison is only
    ever selected with yes/no or keyboard input; keyboard does not compile) -/
theorem lesc_status_correct_iff (m : Mgr) (l : LocalIo) (alg : LescAlg) (rsp : Nat × Nat × Nat) (tk : Tk)
    (u : User) (hm : m ≠ .legacy) (hnc : alg = .numericComparison → l.inp = .yesNo) :
    statusCorrect tk u
      { sel := .lesc alg rsp, rest := lescRest l alg u, status := lescStatus m alg (lescRest l alg u).done }
      = !(falselyAuthenticated m alg) := by
  have h : ∀ m ∈ Mgr.all, ∀ l ∈ LocalIo.all, ∀ alg ∈ LescAlg.all, ∀ u ∈ User.all,
      m ≠ .legacy → (alg = .numericComparison → l.inp = .yesNo) →
      (let r := lescRest l alg u
       let st := lescStatus m alg r.done
       let a := r.done && (match lescProtocolExecuted alg with
                  | .numericComparison => r.asked && u.confirms
                  | .passkeyEntry | .oob => true
                  | .justWorks => false)
       (st.authenticated == a) && ((st == .unauthenticatedKey) == (r.done && !a))
         && ((st == .noKey) == !r.done))
      = !(falselyAuthenticated m alg) := by decide
  exact h m (Mgr.mem_all m) l (LocalIo.mem_all l) alg (LescAlg.mem_all alg) u (User.mem_all u) hm hnc

/-- non-vacuity of `lesc_status_correct_iff`: combined manager, display + yes/no, numeric comparison -/
example : (Mgr.combined ≠ .legacy) ∧ ((LescAlg.numericComparison = .numericComparison) →
    (⟨.yesNo, .numeric⟩ : LocalIo).inp = .yesNo) := by decide

/-- in a configuration that compiles, numeric comparison is only selected with yes/no input -/
theorem selected_nc_has_yesNo (c : Config) (cbHas : Bool) (io oobFlag authReq : Nat) (alg : LescAlg)
    (rsp : Nat × Nat × Nat) (hc : c.compiles = true)
    (h : handlePairingRequest c cbHas io oobFlag authReq = .lesc alg rsp)
    (hnc : alg = .numericComparison) : c.io.inp = .yesNo := by
  subst hnc
  rcases c with ⟨m, ⟨i, o⟩, mi, ob⟩
  cases m <;> cases i <;> cases o <;>
    simp only [handlePairingRequest, legacyHandlePairingRequest, lescHandlePairingRequest,
      combinedHandlePairingRequest, lescSelectPairingAlgorithm, selectLesc, Config.compiles] at h hc ⊢ <;>
    (repeat' split at h) <;> simp_all

/-- non-vacuity of `selected_nc_has_yesNo`: such a request exists -/
example : (⟨.lesc, ⟨.yesNo, .numeric⟩, false, true⟩ : Config).compiles = true
    ∧ handlePairingRequest ⟨.lesc, ⟨.yesNo, .numeric⟩, false, true⟩ false 1 0 8
        = .lesc .numericComparison (1, 0, 8) := by decide

/-- the LESC half is never entered by the legacy-only manager -/
theorem legacy_mgr_no_lesc (c : Config) (cbHas : Bool) (io oobFlag authReq : Nat) (alg : LescAlg)
    (rsp : Nat × Nat × Nat) (h : handlePairingRequest c cbHas io oobFlag authReq = .lesc alg rsp) :
    c.mgr ≠ .legacy := by
  intro hm
  simp only [handlePairingRequest, hm, legacyHandlePairingRequest] at h
  split at h <;> simp at h

/-! ### the property -/

/-- **C35, exact extent**: for every configuration that exists and every scenario, the three
    clauses hold exactly outside the named class -/
theorem authenticated_iff_authenticated_exchange_iff (s : Scenario) (hc : s.c.compiles = true) :
    statusCorrect s.tk s.user s.run = !excluded s := by
  unfold excluded Scenario.run pair
  cases hsel : handlePairingRequest s.c s.cbHas s.r.io.toNat (oobByte s.r.oob) s.r.auth.toNat with
  | rej code => rfl
  | legacy alg rsp => exact legacy_status_correct s.c.io alg rsp s.tk s.user
  | lesc alg rsp =>
      exact lesc_status_correct_iff s.c.mgr s.c.io alg rsp s.tk s.user
        (legacy_mgr_no_lesc _ _ _ _ _ _ _ hsel)
        (selected_nc_has_yesNo _ _ _ _ _ _ _ hc hsel)

/-- **C35, partial**: outside the named class the reported status is authenticated_key
    exactly after an authenticating exchange, unauthenticated_key exactly after a completed
    exchange that authenticated nothing, no_key exactly when no pairing completed -/
theorem authenticated_iff_authenticated_exchange_partial (s : Scenario) (hc : s.c.compiles = true)
    (hx : excluded s = false) : statusCorrect s.tk s.user s.run = true := by
  rw [authenticated_iff_authenticated_exchange_iff s hc, hx]; rfl

/-- third clause at full strength, for every scenario: no key is reported exactly when the
    exchange did not complete -/
theorem no_key_iff_not_completed (s : Scenario) :
    s.run.status = .noKey ↔ s.run.rest.done = false := by
  unfold Scenario.run pair
  cases handlePairingRequest s.c s.cbHas s.r.io.toNat (oobByte s.r.oob) s.r.auth.toNat with
  | rej code => simp
  | legacy alg rsp =>
      simp only [legacyStatus]
      cases (legacyRest s.c.io alg s.tk).done <;> simp
      split <;> simp
  | lesc alg rsp =>
      simp only [lescStatus]
      cases (lescRest s.c.io alg s.user).done <;> simp
      cases s.c.mgr <;> simp <;> split <;> simp

/-- an authenticated key is never reported for a Just-Works-selected pairing, and whenever one is
    reported after legacy pairing the central proved knowledge of a pass key or of OOB data -/
theorem legacy_authenticated_sound (s : Scenario) (alg : LegacyAlg) (rsp : Nat × Nat × Nat)
    (h : s.run.sel = .legacy alg rsp) (ha : s.run.status.authenticated = true) :
    s.run.rest.done = true ∧ (s.tk = .passkey ∨ s.tk = .oobData) := by
  have hc := legacy_status_correct s.c.io alg rsp s.tk s.user
  unfold Scenario.run pair at h ha ⊢
  cases hsel : handlePairingRequest s.c s.cbHas s.r.io.toNat (oobByte s.r.oob) s.r.auth.toNat with
  | rej code => simp [hsel] at h
  | lesc a r => simp [hsel] at h
  | legacy a r =>
      simp only [hsel] at h ha ⊢
      injection h with h1 h2
      subst h1
      simp only [statusCorrect, exchangeAuthenticated, Bool.and_eq_true, beq_iff_eq] at hc
      have := hc.1.1
      rw [ha] at this
      have hh := this.symm
      simp only [Bool.and_eq_true, Bool.or_eq_true, beq_iff_eq] at hh
      exact hh

/-- non-vacuity of `legacy_authenticated_sound` (and of `legacy_mgr_no_lesc`'s premise for the
    other managers): OOB pairing with the legacy manager is reported authenticated -/
example :
    let s : Scenario := ⟨⟨.legacy, ⟨.noInput, .noOutput⟩, false, true⟩, true,
      ⟨.noInputNoOutput, true, ⟨false, false, false, false⟩⟩, .oobData, .silent⟩
    s.run.sel = .legacy .oob (3, 1, 0) ∧ s.run.status.authenticated = true := by decide

example : handlePairingRequest ⟨.combined, ⟨.noInput, .noOutput⟩, false, true⟩ false 3 0 8
    = .lesc .justWorks (3, 0, 8) := by decide

/-! ### histories: several pairings on one connection

  "… as having no key when no pairing completed": on one link pairing can be repeated.  The
  reported status has to be the one of the LAST completed pairing since the connection was set
  up, and no_key as soon as anything else happened to pairing (a further Pairing Request — it is
  rejected and resets pairing —, a failed attempt, the peer's Pairing Failed, a new connection). -/

/-- operations of a history with well-formed requests -/
inductive SOp where
  | pair (cbHas : Bool) (r : Request) (tk : Tk) (u : User)
  | peerFail
  | reset
deriving DecidableEq, Repr

def SOp.toHOp : SOp → HOp
  | .pair cb r tk u => .pair cb r.io.toNat (oobByte r.oob) r.auth.toNat tk u
  | .peerFail => .peerFail
  | .reset => .reset

/-- the model run over a history, from a fresh connection -/
def runS (c : Config) (h : List SOp) : Conn := runH c (h.map SOp.toHOp)

/-- specification side, computed from the exchanges only (never from the connection data): the
    pairing phase and the scenario of the completed pairing nothing has happened to since -/
def specStep (c : Config) (g : Phase × Option Scenario) : SOp → Phase × Option Scenario
  | .pair cb r tk u =>
      if g.1 ≠ .idle then (.idle, none)
      else
        let s : Scenario := ⟨c, cb, r, tk, u⟩
        if s.run.rest.done then (.completed, some s)
        else if s.run.rest.fail = .dhkeyWait then (.pending, none) else (.idle, none)
  | .peerFail => (.idle, none)
  | .reset => (.idle, none)

def lastCompleted (c : Config) (h : List SOp) : Option Scenario :=
  (h.foldl (specStep c) (.idle, none)).2

/-- the LESC-only manager never takes the legacy half -/
theorem lesc_mgr_no_legacy (c : Config) (cbHas : Bool) (io oobFlag authReq : Nat) (alg : LegacyAlg)
    (rsp : Nat × Nat × Nat) (h : handlePairingRequest c cbHas io oobFlag authReq = .legacy alg rsp) :
    c.mgr ≠ .lesc := by
  intro hm
  simp only [handlePairingRequest, hm, lescHandlePairingRequest] at h
  (repeat' split at h) <;> simp at h

/-- a completing attempt leaves the status of exactly that attempt in the connection data,
    whatever the connection data held before -/
theorem connAfter_reported (c : Config) (k : Conn) (cbHas : Bool) (io oobFlag authReq : Nat) (tk : Tk) (u : User)
    (hd : (pair c cbHas io oobFlag authReq tk u).rest.done = true) :
    (connAfter k (pair c cbHas io oobFlag authReq tk u)).phase = .completed ∧
    (connAfter k (pair c cbHas io oobFlag authReq tk u)).reported c.mgr =
      (pair c cbHas io oobFlag authReq tk u).status := by
  unfold pair at hd ⊢
  cases hsel : handlePairingRequest c cbHas io oobFlag authReq with
  | rej code => simp [hsel] at hd
  | legacy alg rsp =>
      have hm := lesc_mgr_no_legacy _ _ _ _ _ _ _ hsel
      simp only [hsel] at hd ⊢
      simp only [connAfter, phaseAfter, hd, Conn.reported, legacyStatus]
      cases hmgr : c.mgr <;> simp_all
  | lesc alg rsp =>
      have hm := legacy_mgr_no_lesc _ _ _ _ _ _ _ hsel
      simp only [hsel] at hd ⊢
      simp only [connAfter, phaseAfter, hd, Conn.reported, lescStatus]
      cases hmgr : c.mgr <;> simp_all

/-- an attempt that does not complete leaves pairing not completed -/
theorem connAfter_not_done (c : Config) (k : Conn) (cbHas : Bool) (io oobFlag authReq : Nat) (tk : Tk) (u : User)
    (hk : k.phase = .idle) (hd : (pair c cbHas io oobFlag authReq tk u).rest.done = false) :
    (connAfter k (pair c cbHas io oobFlag authReq tk u)).phase =
      (if (pair c cbHas io oobFlag authReq tk u).rest.fail = .dhkeyWait then .pending else .idle) := by
  unfold pair at hd ⊢
  cases hsel : handlePairingRequest c cbHas io oobFlag authReq with
  | rej code => simp [connAfter, hk]
  | legacy alg rsp =>
      simp only [hsel] at hd ⊢
      simp [connAfter, phaseAfter, hd]
  | lesc alg rsp =>
      simp only [hsel] at hd ⊢
      simp [connAfter, phaseAfter, hd]

/-- the relation between the connection data and the specification side -/
def HInv (c : Config) (k : Conn) (g : Phase × Option Scenario) : Prop :=
  k.phase = g.1 ∧
  match g.2 with
  | none => k.phase ≠ .completed
  | some s => k.phase = .completed ∧ s.c = c ∧ s.run.rest.done = true ∧ k.reported c.mgr = s.run.status

theorem hinv_step (c : Config) (k : Conn) (g : Phase × Option Scenario) (op : SOp) (h : HInv c k g) :
    HInv c (stepH c k op.toHOp) (specStep c g op) := by
  obtain ⟨hp, _⟩ := h
  cases op with
  | peerFail => exact ⟨rfl, by simp [SOp.toHOp, stepH, specStep]⟩
  | reset => exact ⟨rfl, by simp [SOp.toHOp, stepH, specStep, Conn.fresh]⟩
  | pair cb r tk u =>
    simp only [SOp.toHOp, stepH, stepPair, specStep]
    by_cases hidle : k.phase = .idle
    · have hg : g.1 = .idle := by rw [← hp]; exact hidle
      simp only [hidle, hg, ne_eq, not_true_eq_false, if_false]
      have hrun : (⟨c, cb, r, tk, u⟩ : Scenario).run = pair c cb r.io.toNat (oobByte r.oob) r.auth.toNat tk u := rfl
      cases hd : (pair c cb r.io.toNat (oobByte r.oob) r.auth.toNat tk u).rest.done with
      | true =>
        obtain ⟨h1, h2⟩ := connAfter_reported c k cb r.io.toNat (oobByte r.oob) r.auth.toNat tk u hd
        simp only [hrun, hd, if_true]
        exact ⟨h1, h1, rfl, by rw [hrun]; exact hd, by rw [hrun]; exact h2⟩
      | false =>
        have h1 := connAfter_not_done c k cb r.io.toNat (oobByte r.oob) r.auth.toNat tk u hidle hd
        simp only [hrun, hd, Bool.false_eq_true, if_false]
        by_cases hw : (pair c cb r.io.toNat (oobByte r.oob) r.auth.toNat tk u).rest.fail = .dhkeyWait
        · simp only [hw, if_true] at h1 ⊢
          exact ⟨h1, by rw [h1]; simp⟩
        · simp only [hw, if_false] at h1 ⊢
          exact ⟨h1, by rw [h1]; simp⟩
    · have hg : g.1 ≠ .idle := by rw [← hp]; exact hidle
      simp only [ne_eq, hidle, not_false_eq_true, if_true, hg]
      exact ⟨rfl, by simp⟩

theorem hinv_run (c : Config) (h : List SOp) :
    ∀ (k : Conn) (g : Phase × Option Scenario), HInv c k g →
      HInv c ((h.map SOp.toHOp).foldl (stepH c) k) (h.foldl (specStep c) g) := by
  induction h with
  | nil => intro k g hi; exact hi
  | cons op ops ih =>
    intro k g hi
    simp only [List.map_cons, List.foldl_cons]
    exact ih _ _ (hinv_step c k g op hi)

/-- **status_reflects_last_pairing** (C35 over histories): after every history of pairing attempts,
    peer Pairing Failed PDUs and reconnects on one connection, the reported status is no_key
    unless the last thing that happened to pairing is a completed pairing `s`, and then it is
    the status of exactly that pairing — so the three clauses of the property hold for it against
    what *that* exchange authenticated, exactly outside the named class of
    `authenticated_iff_authenticated_exchange_iff`; nothing an earlier pairing on the same
    connection left behind is reported. -/
theorem status_reflects_last_pairing (c : Config) (hc : c.compiles = true) (h : List SOp) :
    match lastCompleted c h with
    | none => (runS c h).reported c.mgr = .noKey
    | some s =>
        s.c = c ∧ s.run.rest.done = true ∧ (runS c h).reported c.mgr = s.run.status ∧
        statusCorrect s.tk s.user { s.run with status := (runS c h).reported c.mgr } = !excluded s := by
  have hi := hinv_run c h Conn.fresh (.idle, none) ⟨rfl, by simp [Conn.fresh]⟩
  unfold lastCompleted runS runH
  obtain ⟨_, h2⟩ := hi
  generalize (h.map SOp.toHOp).foldl (stepH c) Conn.fresh = k at h2 ⊢
  generalize h.foldl (specStep c) (.idle, none) = g at h2 ⊢
  cases hg : g.2 with
  | none =>
    rw [hg] at h2
    simp only [Conn.reported]
    simp [h2]
  | some s =>
    rw [hg] at h2
    obtain ⟨_, hsc, hd, hr⟩ := h2
    refine ⟨hsc, hd, hr, ?_⟩
    rw [hr]
    exact authenticated_iff_authenticated_exchange_iff s (by rw [hsc]; exact hc)

/-- non-vacuity, and the history that was missed (`_miss`: a sticky `pairing_status_`): combined
    manager with display + yes/no; legacy pass key entry (authenticated_key), a further Pairing
    Request (rejected, pairing reset: no_key), Just Works: the status is the one of the Just Works
    pairing -/
def repairingHistory : List SOp :=
  [.pair false ⟨.keyboardDisplay, false, ⟨false, false, false, false⟩⟩ .passkey .silent,
   .pair false ⟨.noInputNoOutput, false, ⟨false, false, false, false⟩⟩ .zero .silent,
   .pair false ⟨.noInputNoOutput, false, ⟨false, false, false, false⟩⟩ .zero .silent]

def repairingCfg : Config := ⟨.combined, ⟨.yesNo, .numeric⟩, false, true⟩

example :
    (runS repairingCfg (repairingHistory.take 1)).reported .combined = .authenticatedKey
    ∧ (runS repairingCfg (repairingHistory.take 2)).reported .combined = .noKey
    ∧ (runS repairingCfg repairingHistory).reported .combined = .unauthenticatedKey
    ∧ (lastCompleted repairingCfg repairingHistory).map (fun s => (s.tk, s.run.status))
        = some (.zero, .unauthenticatedKey)
    ∧ (lastCompleted repairingCfg (repairingHistory.take 2)) = none := by decide

/-- the same with a confirmed LESC numeric comparison first, the peer's Pairing Failed in
    between, and an LESC Just Works pairing last; and the reverse order -/
example :
    let nc : SOp := .pair false ⟨.displayYesNo, false, ⟨false, false, true, false⟩⟩ .zero .yesAfterCheck
    let jw : SOp := .pair false ⟨.noInputNoOutput, false, ⟨false, false, true, false⟩⟩ .zero .silent
    (runS repairingCfg [nc, .peerFail, jw]).reported .combined = .unauthenticatedKey
    ∧ (runS repairingCfg [jw, .peerFail, nc]).reported .combined = .authenticatedKey
    ∧ (runS repairingCfg [nc, .reset]).reported .combined = .noKey := by decide

/-! ### non-vacuity and witnesses -/

/-- the partial theorem covers real pairings: combined manager with display + yes/no, remote
    DisplayYesNo, SC: numeric comparison, the user confirms after the DHKey check was received —
    completed, authenticated exchange, authenticated_key reported -/
example :
    let s : Scenario := ⟨⟨.combined, ⟨.yesNo, .numeric⟩, false, true⟩, false,
      ⟨.displayYesNo, false, ⟨false, false, true, false⟩⟩, .zero, .yesAfterCheck⟩
    s.c.compiles = true ∧ excluded s = false ∧ s.run.rest.done = true
    ∧ s.run.status = .authenticatedKey ∧ exchangeAuthenticated s.tk s.user s.run = true := by decide

/-- and legacy pass key entry with the legacy-only manager -/
example :
    let s : Scenario := ⟨⟨.legacy, ⟨.noInput, .numeric⟩, false, true⟩, false,
      ⟨.keyboardOnly, false, ⟨false, true, false, false⟩⟩, .passkey, .silent⟩
    s.c.compiles = true ∧ excluded s = false ∧ s.run.rest.done = true
    ∧ s.run.status = .authenticatedKey := by decide

/-- witness 1 (harness: `pair 2 0 0 1 0 3 1 8 0 0`): combined manager, *no* IO capabilities, no OOB
    data anywhere; the central sets the OOB flag in an SC Pairing Request and runs the plain
    Just Works exchange: completed, reported authenticated_key, nothing was authenticated -/
def witnessOobFlag : Scenario :=
  ⟨⟨.combined, ⟨.noInput, .noOutput⟩, false, true⟩, false,
   ⟨.noInputNoOutput, true, ⟨false, false, true, false⟩⟩, .zero, .silent⟩

theorem oob_flag_witness :
    witnessOobFlag.c.compiles = true ∧ witnessOobFlag.run.rest.done = true
    ∧ witnessOobFlag.run.status = .authenticatedKey
    ∧ exchangeAuthenticated witnessOobFlag.tk witnessOobFlag.user witnessOobFlag.run = false
    ∧ statusCorrect witnessOobFlag.tk witnessOobFlag.user witnessOobFlag.run = false := by decide

/-- **C35 at full strength for `lesc_security_manager`** (with fix smsel-01): every scenario of the
    LESC-only manager satisfies the three clauses; the manager never executes anything but Just
    Works and numeric comparison, and reports authenticated_key exactly after the latter -/
theorem lesc_only_status_correct (s : Scenario) (hc : s.c.compiles = true) (hm : s.c.mgr = .lesc) :
    statusCorrect s.tk s.user s.run = true := by
  rw [authenticated_iff_authenticated_exchange_iff s hc]
  unfold excluded
  split
  · simp [falselyAuthenticated, hm]
  · rfl

/-- non-vacuity, and the scenario that was reported unauthenticated_key before fix smsel-01
    (`pair 1 4 0 1 0 1 0 8 0 1`): LESC-only manager with display + yes/no, remote DisplayYesNo:
    numeric comparison, the user confirms: completed, reported authenticated_key -/
def witnessLescOnly : Scenario :=
  ⟨⟨.lesc, ⟨.yesNo, .numeric⟩, false, true⟩, false,
   ⟨.displayYesNo, false, ⟨false, false, true, false⟩⟩, .zero, .yesAtOnce⟩

theorem lesc_only_nc_authenticated :
    witnessLescOnly.c.compiles = true ∧ witnessLescOnly.c.mgr = .lesc ∧ witnessLescOnly.run.rest.done = true
    ∧ witnessLescOnly.run.status = .authenticatedKey
    ∧ exchangeAuthenticated witnessLescOnly.tk witnessLescOnly.user witnessLescOnly.run = true := by decide

/-- and a Just Works pairing with the same manager is reported unauthenticated_key -/
example :
    let s : Scenario := ⟨⟨.lesc, ⟨.yesNo, .numeric⟩, false, true⟩, false,
      ⟨.noInputNoOutput, false, ⟨false, false, true, false⟩⟩, .zero, .silent⟩
    s.run.rest.done = true ∧ s.run.status = .unauthenticatedKey := by decide

/-- the full-strength statement is false of the code -/
theorem authenticated_iff_authenticated_exchange_full_witness :
    ¬ authenticated_iff_authenticated_exchange_full := by
  intro h
  have := h witnessOobFlag oob_flag_witness.1
  rw [oob_flag_witness.2.2.2.2] at this
  exact Bool.false_ne_true this

end BluetoeModel.SmSelect
