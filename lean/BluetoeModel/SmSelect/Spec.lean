import BluetoeModel.SmSelect.Model
/-!
  The specification side of C36, transcribed from the Bluetooth Core Specification, Vol 3
  (Host), Part H (Security Manager), independently of the C++ code:

  * 2.3.2 "IO capabilities", Tables 2.3 – 2.5 (input capability × output capability → IO capability)
  * 2.3.5.1 "Selecting key generation method", Table 2.6 (rules for OOB / MITM, LE legacy
    pairing), Table 2.7 (the same for LE Secure Connections), Table 2.8 (mapping of the IO
    capabilities of initiator and responder to the key generation method).
-/
namespace BluetoeModel.SmSelect.Spec
open BluetoeModel.SmSelect

/-- Table 2.5: rows = local input capacity (No input / Yes-No / Keyboard), columns = local output
    capacity (No output / Numeric output) -/
def ioCapOf (l : LocalIo) : IoCap :=
  match l.inp, l.out with
  | .noInput,  .noOutput => .noInputNoOutput
  | .noInput,  .numeric  => .displayOnly
  | .yesNo,    .noOutput => .noInputNoOutput     -- "NoInputNoOutput¹": no pairing algorithm uses Yes/No alone
  | .yesNo,    .numeric  => .displayYesNo
  | .keyboard, .noOutput => .keyboardOnly
  | .keyboard, .numeric  => .keyboardDisplay

/-- the entries that occur in Tables 2.6 – 2.8 -/
inductive Method where
  | justWorks               -- "Just Works, Unauthenticated"
  | passkeyRespDisplays     -- "Passkey Entry: responder displays, initiator inputs, Authenticated"
  | passkeyInitDisplays     -- "Passkey Entry: initiator displays, responder inputs, Authenticated"
  | passkeyBothInput        -- "Passkey Entry: initiator and responder inputs, Authenticated"
  | numericComparison       -- "Numeric Comparison, Authenticated" (LE Secure Connections only)
  | oob                     -- "Use OOB"
deriving DecidableEq, Repr

/-- one cell of Table 2.8: the method for LE legacy pairing and for LE Secure Connections -/
structure Cell where
  legacy : Method
  sc     : Method
deriving DecidableEq, Repr

private def both (m : Method) : Cell := ⟨m, m⟩

/-- Table 2.8, row by row (rows: responder, columns: initiator in the order Display Only,
    Display YesNo, Keyboard Only, NoInput NoOutput, Keyboard Display) -/
def table (initiator responder : IoCap) : Cell :=
  match responder, initiator with
  -- Responder Display Only
  | .displayOnly, .displayOnly     => both .justWorks
  | .displayOnly, .displayYesNo    => both .justWorks
  | .displayOnly, .keyboardOnly    => both .passkeyRespDisplays
  | .displayOnly, .noInputNoOutput => both .justWorks
  | .displayOnly, .keyboardDisplay => both .passkeyRespDisplays
  -- Responder Display YesNo
  | .displayYesNo, .displayOnly     => both .justWorks
  | .displayYesNo, .displayYesNo    => ⟨.justWorks, .numericComparison⟩
  | .displayYesNo, .keyboardOnly    => both .passkeyRespDisplays
  | .displayYesNo, .noInputNoOutput => both .justWorks
  | .displayYesNo, .keyboardDisplay => ⟨.passkeyRespDisplays, .numericComparison⟩
  -- Responder Keyboard Only
  | .keyboardOnly, .displayOnly     => both .passkeyInitDisplays
  | .keyboardOnly, .displayYesNo    => both .passkeyInitDisplays
  | .keyboardOnly, .keyboardOnly    => both .passkeyBothInput
  | .keyboardOnly, .noInputNoOutput => both .justWorks
  | .keyboardOnly, .keyboardDisplay => both .passkeyInitDisplays
  -- Responder NoInput NoOutput
  | .noInputNoOutput, _ => both .justWorks
  -- Responder Keyboard Display
  | .keyboardDisplay, .displayOnly     => both .passkeyInitDisplays
  | .keyboardDisplay, .displayYesNo    => ⟨.passkeyInitDisplays, .numericComparison⟩
  | .keyboardDisplay, .keyboardOnly    => both .passkeyRespDisplays
  | .keyboardDisplay, .noInputNoOutput => both .justWorks
  | .keyboardDisplay, .keyboardDisplay => ⟨.passkeyInitDisplays, .numericComparison⟩

/-- Tables 2.6 / 2.7.  LE legacy pairing: OOB is used iff *both* devices set the OOB data flag;
    LE Secure Connections: iff *at least one* does.  Otherwise: "If both devices have not set the
    MITM option in the Authentication Requirements Flags, then the IO capabilities shall be
    ignored and the Just Works association model shall be used", else Table 2.8.
    `sc` = both devices set the SC bit. -/
def method (sc initOob respOob initMitm respMitm : Bool) (initIo respIo : IoCap) : Method :=
  if (if sc then initOob || respOob else initOob && respOob) then .oob
  else if !initMitm && !respMitm then .justWorks
  else if sc then (table initIo respIo).sc else (table initIo respIo).legacy

/-- the responder's part in a method, in bluetoe's `legacy_pairing_algorithm` vocabulary -/
def respLegacy : Method → Option LegacyAlg
  | .justWorks           => some .justWorks
  | .passkeyRespDisplays => some .passkeyDisplay
  | .passkeyInitDisplays => some .passkeyInput
  | .passkeyBothInput    => some .passkeyInput
  | .oob                 => some .oob
  | .numericComparison   => none

/-- the responder's part in a method, in bluetoe's `lesc_pairing_algorithm` vocabulary -/
def respLesc : Method → LescAlg
  | .justWorks           => .justWorks
  | .passkeyRespDisplays => .passkeyDisplay
  | .passkeyInitDisplays => .passkeyInput
  | .passkeyBothInput    => .passkeyInput
  | .oob                 => .oob
  | .numericComparison   => .numericComparison

end BluetoeModel.SmSelect.Spec
