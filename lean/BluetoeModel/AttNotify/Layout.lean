/-
  The compile time index computation of find_notification_data.hpp
  (`characteristics_with_attribute_indizes`, `characteristics_with_cccd_position`) agrees with the
  attribute table layout (`attrLayout`) that `server::attribute_at` dispatches on.
-/
import BluetoeModel.AttNotify.Model
namespace BluetoeModel.AttNotify

/-- the characteristics with a CCCD in declaration order, each with the attribute-table index of its declaration attribute -/
def cccdChars (d : ServerDecl) : List (CharDecl × Nat) := (attrLayout d).filter fun p => p.1.hasCccd

/-! ## `foldl addIndex` as a recursion -/

/-- `foldl addIndex` started behind an entry list that ends at attribute index `n` -/
def go (n : Nat) : List WithOffset → List Entry
  | [] => []
  | w :: ws => ⟨w.char, n + w.offset, w.prio, 0⟩ :: go (n + w.offset + w.char.nAttrs) ws

/-- the attribute index behind the last entry -/
def endOf (acc : List Entry) : Nat :=
  match acc.getLast? with
  | none => 0
  | some l => l.first + l.char.nAttrs

theorem endOf_concat (acc : List Entry) (e : Entry) : endOf (acc ++ [e]) = e.first + e.char.nAttrs := by
  simp [endOf]

theorem foldl_addIndex (ws : List WithOffset) (acc : List Entry) :
    ws.foldl addIndex acc = acc ++ go (endOf acc) ws := by
  induction ws generalizing acc with
  | nil => simp [go]
  | cons w ws ih =>
    have h : addIndex acc w = acc ++ [⟨w.char, endOf acc + w.offset, w.prio, 0⟩] := rfl
    rw [List.foldl_cons, ih, h, endOf_concat]
    simp [go]

theorem withIndicesOf_eq_go (ws : List WithOffset) : withIndicesOf ws = go 0 ws := by
  have h := foldl_addIndex ws []
  simpa [withIndicesOf, endOf] using h

/-! ## the fold over the services as a recursion -/

def flat (d : ServerDecl) (p : Nat) : List ServiceDecl → List WithOffset
  | [] => []
  | s :: ss => offsetChars (charPrio d s) (p + s.nSvcAttrs) s.chars ++
      flat d (if s.chars.isEmpty then p + s.nSvcAttrs else 0) ss

theorem foldl_charsFromService (d : ServerDecl) (svcs : List ServiceDecl) (acc : List WithOffset) (p : Nat) :
    (svcs.foldl (charsFromService d) (acc, p)).1 = acc ++ flat d p svcs := by
  induction svcs generalizing acc p with
  | nil => simp [flat]
  | cons s ss ih =>
    rw [List.foldl_cons]
    simp only [charsFromService]
    rw [ih]
    simp [flat]

theorem allWithOffset_eq_flat (d : ServerDecl) : allWithOffset d = flat d 0 d.services := by
  simp [allWithOffset, foldl_charsFromService]

/-! ## agreement with the layout -/

/-- projection of an entry to `(characteristic, index of the declaration attribute)` -/
abbrev proj (e : Entry) : CharDecl × Nat := (e.char, e.first)

theorem go_map_zero (f : CharDecl → Nat) (cs : List CharDecl) (m : Nat) (rest : List WithOffset) :
    (go m (cs.map (fun c' => (⟨c', 0, f c'⟩ : WithOffset)) ++ rest)).map proj =
      layoutChars m cs ++ (go (m + charsAttrs cs) rest).map proj := by
  induction cs generalizing m with
  | nil => simp [layoutChars, charsAttrs]
  | cons c cs ih =>
    simp only [List.map_cons, List.cons_append, go, layoutChars, charsAttrs, Nat.add_zero]
    rw [ih]
    simp [Nat.add_assoc]

theorem go_offsetChars (f : CharDecl → Nat) (off : Nat) (c : CharDecl) (cs : List CharDecl) (m : Nat)
    (rest : List WithOffset) :
    (go m (offsetChars f off (c :: cs) ++ rest)).map proj =
      layoutChars (m + off) (c :: cs) ++ (go (m + off + charsAttrs (c :: cs)) rest).map proj := by
  simp only [offsetChars, List.cons_append, go, layoutChars, charsAttrs, List.map_cons]
  rw [go_map_zero]
  simp [Nat.add_assoc]

theorem go_flat (d : ServerDecl) (svcs : List ServiceDecl) (n p : Nat) :
    (go n (flat d p svcs)).map proj = layoutServices (n + p) svcs := by
  induction svcs generalizing n p with
  | nil => simp [flat, go, layoutServices]
  | cons s ss ih =>
    cases hc : s.chars with
    | nil =>
      simp only [flat, hc, offsetChars, List.nil_append, List.isEmpty_nil, if_true, layoutServices,
        layoutChars, ServiceDecl.nAttrs, charsAttrs]
      rw [ih]
      simp [Nat.add_assoc]
    | cons c cs =>
      simp only [flat, hc, layoutServices, ServiceDecl.nAttrs]
      rw [go_offsetChars]
      simp only [List.isEmpty_cons, Bool.false_eq_true, if_false]
      rw [ih]
      simp [Nat.add_assoc]

theorem withIndices_layout (d : ServerDecl) :
    (withIndices d).map (fun e => (e.char, e.first)) = attrLayout d := by
  have h := go_flat d d.services 0 0
  simpa [withIndices, withIndicesOf_eq_go, allWithOffset_eq_flat, attrLayout, proj] using h

theorem layoutChars_fst (start : Nat) (cs : List CharDecl) : (layoutChars start cs).map Prod.fst = cs := by
  induction cs generalizing start with
  | nil => simp [layoutChars]
  | cons c cs ih => simp [layoutChars, ih]

theorem layoutServices_fst (start : Nat) (svcs : List ServiceDecl) :
    (layoutServices start svcs).map Prod.fst = svcs.flatMap ServiceDecl.chars := by
  induction svcs generalizing start with
  | nil => simp [layoutServices]
  | cons s ss ih => simp [layoutServices, layoutChars_fst, ih]

theorem allChars_layout (d : ServerDecl) : (attrLayout d).map Prod.fst = allChars d := by
  simp [attrLayout, allChars, layoutServices_fst]

/-! ## the CCCD positions -/

theorem number_map (k : Nat) (es : List Entry) :
    (number k es).map (fun e => (e.char, e.first)) = es.map (fun e => (e.char, e.first)) := by
  induction es generalizing k with
  | nil => simp [number]
  | cons e es ih => simp [number, ih]

theorem withCccdPosition_layout (d : ServerDecl) :
    (withCccdPosition d).map (fun e => (e.char, e.first)) = cccdChars d := by
  simp only [withCccdPosition, withCccdPositionOf, number_map, cccdChars, ← withIndices_layout,
    List.filter_map]
  rfl

theorem number_getElem? (k : Nat) (es : List Entry) (j : Nat) (e : Entry)
    (h : (number k es)[j]? = some e) : e.cccdPos = k + j := by
  induction es generalizing k j with
  | nil => simp [number] at h
  | cons x xs ih =>
    cases j with
    | zero =>
      simp [number] at h
      simp [← h]
    | succ j =>
      simp only [number, List.getElem?_cons_succ] at h
      have := ih (k + 1) j h
      omega

theorem withCccdPosition_cccdPos (d : ServerDecl) (j : Nat) (e : Entry)
    (h : (withCccdPosition d)[j]? = some e) : e.cccdPos = j := by
  have := number_getElem? 0 _ j e h
  omega

/-! ## declaration indices are strictly increasing -/

theorem nAttrs_pos (c : CharDecl) : 2 ≤ c.nAttrs := by
  simp only [CharDecl.nAttrs]; omega

theorem layoutChars_bounds (start : Nat) (cs : List CharDecl) (a : CharDecl × Nat)
    (h : a ∈ layoutChars start cs) : start ≤ a.2 ∧ a.2 < start + charsAttrs cs := by
  induction cs generalizing start with
  | nil => simp [layoutChars] at h
  | cons c cs ih =>
    have hc := nAttrs_pos c
    simp only [layoutChars, List.mem_cons] at h
    simp only [charsAttrs]
    rcases h with h | h
    · subst h; try simp only
      omega
    · have := ih _ h; omega

theorem layoutChars_pairwise (start : Nat) (cs : List CharDecl) :
    (layoutChars start cs).Pairwise (fun a b => a.2 < b.2) := by
  induction cs generalizing start with
  | nil => simp [layoutChars]
  | cons c cs ih =>
    have hc := nAttrs_pos c
    simp only [layoutChars, List.pairwise_cons]
    refine ⟨fun b hb => ?_, ih _⟩
    have := layoutChars_bounds _ _ b hb
    try simp only
    omega

theorem layoutServices_lower (start : Nat) (svcs : List ServiceDecl) (a : CharDecl × Nat)
    (h : a ∈ layoutServices start svcs) : start ≤ a.2 := by
  induction svcs generalizing start with
  | nil => simp [layoutServices] at h
  | cons s ss ih =>
    simp only [layoutServices, List.mem_append] at h
    rcases h with h | h
    · have := layoutChars_bounds _ _ a h; omega
    · have := ih _ h; simp only [ServiceDecl.nAttrs] at this; omega

theorem layoutServices_pairwise (start : Nat) (svcs : List ServiceDecl) :
    (layoutServices start svcs).Pairwise (fun a b => a.2 < b.2) := by
  induction svcs generalizing start with
  | nil => simp [layoutServices]
  | cons s ss ih =>
    simp only [layoutServices, List.pairwise_append]
    refine ⟨layoutChars_pairwise _ _, ih _, fun a ha b hb => ?_⟩
    have h1 := layoutChars_bounds _ _ a ha
    have h2 := layoutServices_lower _ _ b hb
    simp only [ServiceDecl.nAttrs] at h2
    omega

theorem find?_of_pairwise (l : List (CharDecl × Nat)) (c : CharDecl) (idx : Nat)
    (hp : l.Pairwise (fun a b => a.2 < b.2)) (h : (c, idx) ∈ l) :
    l.find? (fun p => p.2 + 1 == idx + 1) = some (c, idx) := by
  induction l with
  | nil => simp at h
  | cons x xs ih =>
    rw [List.pairwise_cons] at hp
    rw [List.mem_cons] at h
    rcases h with h | h
    · subst h; simp
    · have hlt := hp.1 _ h
      have hne : (x.2 + 1 == idx + 1) = false := by
        simp only [beq_eq_false_iff_ne, ne_eq]; omega
      rw [List.find?_cons, hne]
      exact ih hp.2 h

/-- declaration indices in the layout are strictly increasing, so a value attribute index identifies its characteristic -/
theorem valueAttrAt_layout (d : ServerDecl) (c : CharDecl) (idx : Nat)
    (h : (c, idx) ∈ attrLayout d) : valueAttrAt d (idx + 1) = some c := by
  have hf := find?_of_pairwise _ c idx (layoutServices_pairwise 0 d.services) h
  simp only [valueAttrAt]
  rw [show attrLayout d = layoutServices 0 d.services from rfl, hf]
  rfl

end BluetoeModel.AttNotify
