import BluetoeModel.AttNotify.Model
import BluetoeModel.AttNotify.QueueLemmas
namespace BluetoeModel.AttNotify
open BluetoeModel.NotifQueue (Kind Spec WFs reachable_wf)

/-- a Handle Value Indication PDU -/
def isIndicationPdu : Out → Bool
  | .pdu (b :: _) => b == 0x1D
  | _ => false

/-- trace predicate for connection `c`: "after an indication is sent, no further indication is sent
    until a Handle Value Confirmation arrives" (`aw` = a confirmation is awaited) -/
def oneOutstandingTrace (c : Nat) : Bool → List (Op × Out) → Bool
  | _, [] => true
  | aw, (op, o) :: r =>
    match op with
    | .output c' _ =>
      if c' = c ∧ isIndicationPdu o = true then !aw && oneOutstandingTrace c true r
      else oneOutstandingTrace c aw r
    | .confirm c' => oneOutstandingTrace c (if c' = c then false else aw) r
    | _ => oneOutstandingTrace c aw r

/-- every connection's queue is well formed -/
def QueuesWF (st : State) : Prop := ∀ conn ∈ st.conns, WFs conn.queue.levels

/-! ## well-formedness of all queues -/

theorem queuesWF_setConn {st : State} (h : QueuesWF st) (c : Nat) (conn : Conn)
    (hw : WFs conn.queue.levels) : QueuesWF (setConn st c conn) := by
  intro x hx
  rcases List.mem_or_eq_of_mem_set hx with h1 | h1
  · exact h x h1
  · exact h1 ▸ hw

theorem queuesWF_get {st : State} (h : QueuesWF st) {c : Nat} {conn : Conn}
    (hc : st.conns[c]? = some conn) : WFs conn.queue.levels :=
  h conn (List.mem_of_getElem? hc)

/-! ## facts about the queue's dequeue -/

theorem deq_wf (s : Spec) (hw : WFs s.levels) {q : Spec} {o : NotifQueue.Out}
    (h : s.step .deq = (q, o)) : WFs q.levels := by
  have h1 := step_wf s hw .deq
  rw [h] at h1; exact h1

theorem deq_ind (s : Spec) (hw : WFs s.levels) {q : Spec} {i : Nat}
    (h : s.step .deq = (q, .entry (some (.indication, i)))) :
    s.outstanding = none ∧ q.outstanding = some i := by
  have h2 : (s.step .deq).2 = .entry (some (.indication, i)) := by rw [h]
  obtain ⟨_, he, _, _, ho⟩ := NotifQueue.dequeue_exactly_once_in_priority_order s hw _ _ h2
  rw [h] at ho
  simp [NotifQueue.eligible] at he ho
  exact ⟨he, ho⟩

theorem deq_notif (s : Spec) (hw : WFs s.levels) {q : Spec} {i : Nat}
    (h : s.step .deq = (q, .entry (some (.notification, i)))) :
    q.outstanding = s.outstanding := by
  have h2 : (s.step .deq).2 = .entry (some (.notification, i)) := by rw [h]
  obtain ⟨_, _, _, _, ho⟩ := NotifQueue.dequeue_exactly_once_in_priority_order s hw _ _ h2
  rw [h] at ho
  simpa using ho

theorem deq_none (s : Spec) (hw : WFs s.levels) {q : Spec}
    (h : s.step .deq = (q, .entry none)) : q = s := by
  have h2 : (s.step .deq).2 = .entry none := by rw [h]
  have h3 := (NotifQueue.dequeue_empty_only_if_nothing_sendable s hw h2).1
  rw [h] at h3; exact h3

/-! ## the "confirmation outstanding" marker of connection `c` -/

def outs (st : State) (c : Nat) : Bool :=
  match st.conns[c]? with
  | some conn => conn.queue.outstanding.isSome
  | none => false

theorem outs_of_get {st : State} {c : Nat} {conn : Conn} (hc : st.conns[c]? = some conn) :
    outs st c = conn.queue.outstanding.isSome := by
  simp [outs, hc]

theorem outs_setConn_ne (st : State) {c c' : Nat} (hne : c' ≠ c) (conn : Conn) :
    outs (setConn st c' conn) c = outs st c := by
  simp [outs, setConn, List.getElem?_set_ne hne]

theorem outs_setConn_self {st : State} {c : Nat} {conn0 : Conn} (hc : st.conns[c]? = some conn0)
    (conn : Conn) : outs (setConn st c conn) c = conn.queue.outstanding.isSome := by
  have hl : c < st.conns.length := (List.getElem?_eq_some_iff.mp hc).1
  simp [outs, setConn, List.getElem?_set_self hl]

theorem outs_setConn_mono {st : State} {c' : Nat} {conn0 : Conn} (hc : st.conns[c']? = some conn0)
    (conn' : Conn)
    (hmono : conn0.queue.outstanding.isSome = true → conn'.queue.outstanding.isSome = true)
    (c : Nat) (h : outs st c = true) : outs (setConn st c' conn') c = true := by
  by_cases e : c' = c
  · subst e
    rw [outs_setConn_self hc]; apply hmono; rwa [outs_of_get hc] at h
  · rwa [outs_setConn_ne st e]

/-! ## `l2cap_output` -/

theorem unsentQueue_wf (k : Kind) (q : Spec) (hw : WFs q.levels) : WFs (unsentQueue k q).levels := by
  unfold unsentQueue
  split
  · exact step_wf q hw .conf
  · exact hw

theorem isIndicationPdu_opcode (k : Kind) (r : Bytes) :
    isIndicationPdu (.pdu (opcodeOf k :: r)) = true → k = .indication := by
  cases k
  · simp [isIndicationPdu, opcodeOf]
  · intro _; rfl

/-- what `l2cap_output` does to the state: nothing, or it replaces the queue of connection `c` by a
    well formed queue that keeps a set marker, and when an indication PDU is produced no
    confirmation was outstanding before and one is afterwards -/
theorem l2capOutput_spec (d : ServerDecl) (st : State) (hwf : QueuesWF st) (c size : Nat) :
    ((l2capOutput d st c size).1 = st ∧ isIndicationPdu (l2capOutput d st c size).2 = false) ∨
    ∃ conn q', st.conns[c]? = some conn ∧
      (l2capOutput d st c size).1 = setConn st c { conn with queue := q' } ∧ WFs q'.levels ∧
      (conn.queue.outstanding.isSome = true → q'.outstanding.isSome = true) ∧
      (isIndicationPdu (l2capOutput d st c size).2 = true →
        conn.queue.outstanding = none ∧ q'.outstanding.isSome = true) := by
  unfold l2capOutput l2capOutputGen
  split
  · left; exact ⟨rfl, rfl⟩
  · rename_i conn hc
    have hw := queuesWF_get hwf hc
    split
    · rename_i q hq
      right
      refine ⟨conn, q, hc, rfl, deq_wf _ hw hq, ?_, ?_⟩
      · rw [deq_none _ hw hq]; exact id
      · intro h; simp [isIndicationPdu] at h
    · rename_i q k i hq
      have hqw := deq_wf _ hw hq
      right
      cases k with
      | notification =>
        have ho := deq_notif _ hw hq
        have hu : unsentQueue .notification q = q := by simp [unsentQueue]
        simp only [hu]
        have key : ∀ o : Out, isIndicationPdu o = false →
            ∃ conn' q', st.conns[c]? = some conn' ∧
              (setConn st c { conn with queue := q }, o).1 = setConn st c { conn' with queue := q' } ∧
              WFs q'.levels ∧
              (conn'.queue.outstanding.isSome = true → q'.outstanding.isSome = true) ∧
              (isIndicationPdu (setConn st c { conn with queue := q }, o).2 = true →
                conn'.queue.outstanding = none ∧ q'.outstanding.isSome = true) := by
          intro o hno
          refine ⟨conn, q, hc, rfl, hqw, ?_, ?_⟩
          · rw [ho]; exact id
          · intro h; simp [hno] at h
        split
        · exact key _ rfl
        · split
          · split
            · exact key _ (by simp [isIndicationPdu, opcodeOf])
            · exact key _ rfl
            · exact key _ rfl
          · exact key _ rfl
      | indication =>
        obtain ⟨ho1, ho2⟩ := deq_ind _ hw hq
        have key : ∀ (o : Out) (q' : Spec), WFs q'.levels →
            (isIndicationPdu o = true → q'.outstanding.isSome = true) →
            ∃ conn' q'', st.conns[c]? = some conn' ∧
              (setConn st c { conn with queue := q' }, o).1 = setConn st c { conn' with queue := q'' } ∧
              WFs q''.levels ∧
              (conn'.queue.outstanding.isSome = true → q''.outstanding.isSome = true) ∧
              (isIndicationPdu (setConn st c { conn with queue := q' }, o).2 = true →
                conn'.queue.outstanding = none ∧ q''.outstanding.isSome = true) := by
          intro o q' hq' hi
          refine ⟨conn, q', hc, rfl, hq', ?_, ?_⟩
          · rw [ho1]; intro h; simp at h
          · intro h; exact ⟨ho1, hi h⟩
        have hqs : q.outstanding.isSome = true := by rw [ho2]; rfl
        have huw := unsentQueue_wf .indication q hqw
        simp only []
        split
        · exact key _ _ hqw (fun _ => hqs)
        · split
          · split
            · exact key _ _ hqw (fun _ => hqs)
            · exact key _ _ huw (by intro h; simp [isIndicationPdu] at h)
            · exact key _ _ hqw (fun _ => hqs)
          · exact key _ _ huw (by intro h; simp [isIndicationPdu] at h)
    · left; exact ⟨rfl, rfl⟩

/-! ## all operations -/

theorem queueRequest_queue (conn : Conn) (nd : NotifData) (k : Kind) :
    (queueRequest conn nd k).1.queue = (conn.queue.step (.queue k nd.cccdIndex)).1 := rfl

/-- the step function keeps all queues well formed (needed by Props.lean) -/
theorem step_queuesWF (d : ServerDecl) (st : State) (h : QueuesWF st) (op : Op) :
    QueuesWF (step d st op).1 := by
  cases op with
  | request c r k =>
    simp only [step, request]
    split
    · rename_i conn nd hc _
      exact queuesWF_setConn h c _
        (by rw [queueRequest_queue]; exact step_wf _ (queuesWF_get h hc) _)
    · exact h
  | output c size =>
    simp only [step]
    rcases l2capOutput_spec d st h c size with ⟨e, _⟩ | ⟨conn, q', hc, e, hw, _⟩
    · rw [e]; exact h
    · rw [e]; exact queuesWF_setConn h c _ hw
  | subscribe c p v =>
    simp only [step, subscribe]
    split
    · exact h
    · rename_i conn hc
      split
      · split
        · exact queuesWF_setConn h c _ (queuesWF_get (conn := conn) h hc)
        · exact h
      · exact h
  | mtu c m =>
    simp only [step, exchangeMtu]
    split
    · exact h
    · rename_i conn hc
      split
      · exact queuesWF_setConn h c _ (queuesWF_get (conn := conn) h hc)
      · exact h
  | confirm c =>
    simp only [step, confirm]
    split
    · exact h
    · rename_i conn hc
      exact queuesWF_setConn h c _ (step_wf _ (queuesWF_get h hc) .conf)
  | setCell cell v =>
    simp only [step]
    split
    · split
      · exact h
      · exact h
    · exact h

theorem init_queuesWF (d : ServerDecl) (hpos : ∀ n ∈ numbers d, 0 < n) (cells : List Bytes) (nConns : Nat) :
    QueuesWF (State.init d cells nConns) := by
  intro conn hconn
  simp only [State.init] at hconn
  have e := List.eq_of_mem_replicate hconn
  subst e
  exact reachable_wf (numbers d) hpos []

theorem run_cons (d : ServerDecl) (st : State) (op : Op) (ops : List Op) :
    run d st (op :: ops) =
      ((run d (step d st op).1 ops).1, (step d st op).2 :: (run d (step d st op).1 ops).2) := rfl

theorem run_queuesWF (d : ServerDecl) (st : State) (h : QueuesWF st) (ops : List Op) :
    QueuesWF (run d st ops).1 := by
  induction ops generalizing st with
  | nil => exact h
  | cons op ops ih => rw [run_cons]; exact ih _ (step_queuesWF d st h op)

/-- every operation except a confirmation on connection `c` keeps a set marker of `c` -/
theorem step_outs_pres (d : ServerDecl) (st : State) (hwf : QueuesWF st) (op : Op) (c : Nat)
    (hop : op ≠ .confirm c) (h : outs st c = true) : outs (step d st op).1 c = true := by
  cases op with
  | request c' r k =>
    simp only [step, request]
    split
    · rename_i conn nd hc _
      exact outs_setConn_mono hc _ (by rw [queueRequest_queue, queue_outstanding]; exact id) c h
    · exact h
  | output c' size =>
    simp only [step]
    rcases l2capOutput_spec d st hwf c' size with ⟨e, _⟩ | ⟨conn, q', hc, e, _, hm, _⟩
    · rw [e]; exact h
    · rw [e]; exact outs_setConn_mono hc _ hm c h
  | subscribe c' p v =>
    simp only [step, subscribe]
    split
    · exact h
    · rename_i conn hc
      split
      · split
        · refine outs_setConn_mono hc _ ?_ c h; exact fun x => x
        · exact h
      · exact h
  | mtu c' m =>
    simp only [step, exchangeMtu]
    split
    · exact h
    · rename_i conn hc
      split
      · refine outs_setConn_mono hc _ ?_ c h; exact fun x => x
      · exact h
  | confirm c' =>
    have hne : c' ≠ c := fun e => hop (by rw [e])
    simp only [step, confirm]
    split
    · exact h
    · rw [outs_setConn_ne st hne]; exact h
  | setCell cell v =>
    simp only [step]
    split
    · split
      · exact h
      · exact h
    · exact h

/-- an indication PDU leaves `l2cap_output` only if no confirmation was outstanding, and then one is -/
theorem output_indication (d : ServerDecl) (st : State) (hwf : QueuesWF st) (c size : Nat)
    (hi : isIndicationPdu (step d st (.output c size)).2 = true) :
    outs st c = false ∧ outs (step d st (.output c size)).1 c = true := by
  simp only [step] at hi ⊢
  rcases l2capOutput_spec d st hwf c size with ⟨_, e⟩ | ⟨conn, q', hc, e, _, _, hind⟩
  · rw [e] at hi; cases hi
  · obtain ⟨h1, h2⟩ := hind hi
    refine ⟨?_, ?_⟩
    · rw [outs_of_get hc, h1]; rfl
    · rw [e, outs_setConn_self hc]; exact h2

theorem one_outstanding_aux (d : ServerDecl) (c : Nat) (ops : List Op) :
    ∀ (st : State) (aw : Bool), QueuesWF st → (aw = true → outs st c = true) →
      oneOutstandingTrace c aw (ops.zip (run d st ops).2) = true := by
  induction ops with
  | nil => intros; rfl
  | cons op ops ih =>
    intro st aw hwf hinv
    rw [run_cons]
    simp only [List.zip_cons_cons]
    have hwf' := step_queuesWF d st hwf op
    cases op with
    | output c' sz =>
      simp only [oneOutstandingTrace]
      split
      · rename_i hcond
        obtain ⟨e, hi⟩ := hcond
        subst e
        obtain ⟨h1, h2⟩ := output_indication d st hwf c' sz hi
        have haw : aw = false := by
          cases aw
          · rfl
          · rw [hinv rfl] at h1; cases h1
        subst haw
        simp only [Bool.not_false, Bool.true_and]
        exact ih _ true hwf' (fun _ => h2)
      · exact ih _ aw hwf' (fun ha => step_outs_pres d st hwf _ c (by simp) (hinv ha))
    | confirm c' =>
      simp only [oneOutstandingTrace]
      by_cases e : c' = c
      · simp only [if_pos e]
        exact ih _ false hwf' (by intro h; cases h)
      · simp only [if_neg e]
        exact ih _ aw hwf' (fun ha => step_outs_pres d st hwf _ c (by simp [e]) (hinv ha))
    | request c' r k =>
      simp only [oneOutstandingTrace]
      exact ih _ aw hwf' (fun ha => step_outs_pres d st hwf _ c (by simp) (hinv ha))
    | subscribe c' p v =>
      simp only [oneOutstandingTrace]
      exact ih _ aw hwf' (fun ha => step_outs_pres d st hwf _ c (by simp) (hinv ha))
    | mtu c' m =>
      simp only [oneOutstandingTrace]
      exact ih _ aw hwf' (fun ha => step_outs_pres d st hwf _ c (by simp) (hinv ha))
    | setCell cell v =>
      simp only [oneOutstandingTrace]
      exact ih _ aw hwf' (fun ha => step_outs_pres d st hwf _ c (by simp) (hinv ha))

/-- **C11** `at_most_one_outstanding` on the server level model with the repaired `l2cap_output`
    (an unsent indication clears the marker, an unsent notification does not): for every declaration
    that compiles (all priority levels non-empty), every initial memory, number of connections,
    history `ops` and connection `c`, no second Handle Value Indication leaves `l2cap_output` on
    connection `c` before a confirmation arrived on it. -/
theorem at_most_one_outstanding (d : ServerDecl) (hpos : ∀ n ∈ numbers d, 0 < n) (cells : List Bytes) (nConns : Nat)
    (ops : List Op) (c : Nat) :
    oneOutstandingTrace c false (ops.zip (run d (State.init d cells nConns) ops).2) = true :=
  one_outstanding_aux d c ops _ false (init_queuesWF d hpos cells nConns) (by intro h; cases h)

end BluetoeModel.AttNotify
