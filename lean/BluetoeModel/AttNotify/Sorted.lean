/-
  Lemmas on the compile time list computations of find_notification_data.hpp as modelled in
  `BluetoeModel.AttNotify.Model`: `stable_sort` is a sorting permutation, `index_of` over the
  `cccd_indices` is the bijection between declaration order and priority order, and the two
  lookup loops (`valueLoop`, `typeLoop`) return the position of the entry they find.
-/
import BluetoeModel.AttNotify.Model
namespace BluetoeModel.AttNotify

/-- the entries are numbered by their position (`add_cccd_position`) -/
def Numbered (l : List Entry) : Prop := ∀ (j : Nat) (e : Entry), l[j]? = some e → e.cccdPos = j

/-! ## stable_insert / stable_sort -/

theorem stableInsert_perm (t : Entry) (l : List Entry) : (stableInsert t l).Perm (t :: l) := by
  induction l with
  | nil => exact List.Perm.refl _
  | cons f ts ih =>
    simp only [stableInsert]
    split
    · exact (List.Perm.cons f ih).trans (List.Perm.swap t f ts)
    · exact List.Perm.refl _

theorem stableSort_perm (l : List Entry) : (stableSort l).Perm l := by
  induction l with
  | nil => exact List.Perm.refl _
  | cons t ts ih =>
    simp only [stableSort]
    exact (stableInsert_perm t _).trans (List.Perm.cons t ih)

theorem stableSort_length (l : List Entry) : (stableSort l).length = l.length :=
  (stableSort_perm l).length_eq

theorem stableInsert_sorted (t : Entry) (l : List Entry)
    (h : l.Pairwise (fun a b => a.prio ≤ b.prio)) :
    (stableInsert t l).Pairwise (fun a b => a.prio ≤ b.prio) := by
  induction l with
  | nil => simp [stableInsert]
  | cons f ts ih =>
    rw [List.pairwise_cons] at h
    simp only [stableInsert]
    split
    · rename_i hlt
      rw [List.pairwise_cons]
      refine ⟨?_, ih h.2⟩
      intro b hb
      have hb' := (stableInsert_perm t ts).mem_iff.mp hb
      rcases List.mem_cons.mp hb' with rfl | hb''
      · omega
      · exact h.1 b hb''
    · rename_i hge
      rw [List.pairwise_cons]
      refine ⟨?_, List.pairwise_cons.mpr h⟩
      intro b hb
      rcases List.mem_cons.mp hb with rfl | hb''
      · omega
      · have := h.1 b hb''
        omega

/-- the sort really orders by priority (ascending) -/
theorem stableSort_sorted (l : List Entry) : (stableSort l).Pairwise (fun a b => a.prio ≤ b.prio) := by
  induction l with
  | nil => simp [stableSort]
  | cons t ts ih =>
    simp only [stableSort]
    exact stableInsert_sorted t _ ih

/-! ## index_of -/

theorem indexOf_getElem? (x : Nat) (m : List Nat) (h : x ∈ m) : m[indexOf x m]? = some x := by
  induction m with
  | nil => simp at h
  | cons y ys ih =>
    simp only [indexOf]
    split
    · rename_i hxy
      simp [hxy]
    · rename_i hxy
      rcases List.mem_cons.mp h with rfl | h'
      · exact absurd rfl hxy
      · simpa using ih h'

theorem indexOf_eq_of_getElem? (x : Nat) (m : List Nat) (hnd : m.Nodup) (i : Nat)
    (h : m[i]? = some x) : indexOf x m = i := by
  induction m generalizing i with
  | nil => simp at h
  | cons y ys ih =>
    rw [List.nodup_cons] at hnd
    simp only [indexOf]
    cases i with
    | zero =>
      simp at h
      simp [h]
    | succ i =>
      simp only [List.getElem?_cons_succ] at h
      have hmem : x ∈ ys := List.mem_iff_getElem?.mpr ⟨i, h⟩
      have hne : ¬ x = y := by
        intro hxy
        subst hxy
        exact hnd.1 hmem
      simp only [hne, if_false]
      rw [ih hnd.2 i h]

/-! ## the numbering -/

theorem Numbered.map_eq_range {l : List Entry} (hn : Numbered l) :
    l.map Entry.cccdPos = List.range' 0 l.length := by
  apply List.ext_getElem?
  intro i
  rw [List.getElem?_map]
  by_cases hi : i < l.length
  · rw [List.getElem?_range' hi]
    have : l[i]? = some l[i] := List.getElem?_eq_getElem hi
    rw [this]
    simp only [Option.map_some]
    rw [hn i l[i] this]
    simp
  · have h1 : l[i]? = none := List.getElem?_eq_none (by omega)
    have h2 : (List.range' 0 l.length)[i]? = none :=
      List.getElem?_eq_none (by simp only [List.length_range']; omega)
    rw [h1, h2]
    rfl

theorem Numbered.nodup {l : List Entry} (hn : Numbered l) : (l.map Entry.cccdPos).Nodup := by
  rw [hn.map_eq_range]
  exact List.nodup_range' 1

theorem Numbered.sorted_nodup {l : List Entry} (hn : Numbered l) :
    ((stableSort l).map Entry.cccdPos).Nodup :=
  ((stableSort_perm l).map Entry.cccdPos).nodup_iff.mpr hn.nodup

/-- a member of a numbered list sits at its `cccdPos` -/
theorem Numbered.getElem?_of_mem {l : List Entry} (hn : Numbered l) {e : Entry} (h : e ∈ l) :
    l[e.cccdPos]? = some e := by
  obtain ⟨j, hj⟩ := List.mem_iff_getElem?.mp h
  rw [hn j e hj]
  exact hj

/-- the sorted position of the j-th entry, computed the way the CCCD attribute computes it
    (`index_of< j, cccd_indices >`), holds exactly that entry -/
theorem sortedPos_spec (l : List Entry) (hn : Numbered l) (j : Nat) (e : Entry) (h : l[j]? = some e) :
    (stableSort l)[indexOf j ((stableSort l).map Entry.cccdPos)]? = some e := by
  have hel : e ∈ l := List.mem_iff_getElem?.mpr ⟨j, h⟩
  have hes : e ∈ stableSort l := (stableSort_perm l).mem_iff.mpr hel
  have hej : e.cccdPos = j := hn j e h
  have hjm : j ∈ (stableSort l).map Entry.cccdPos := List.mem_map.mpr ⟨e, hes, hej⟩
  have hp := indexOf_getElem? j _ hjm
  rw [List.getElem?_map] at hp
  cases hs : (stableSort l)[indexOf j ((stableSort l).map Entry.cccdPos)]? with
  | none => rw [hs] at hp; simp at hp
  | some e' =>
    rw [hs] at hp
    simp only [Option.map_some, Option.some.injEq] at hp
    have he's : e' ∈ stableSort l := List.mem_iff_getElem?.mpr ⟨_, hs⟩
    have he'l : e' ∈ l := (stableSort_perm l).mem_iff.mp he's
    have h' := hn.getElem?_of_mem he'l
    rw [hp, h] at h'
    simp only [Option.some.injEq] at h'
    rw [h']

/-- conversely every position of the sorted list is the sorted position of exactly one entry -/
theorem sortedPos_surj (l : List Entry) (hn : Numbered l) (i : Nat) (e : Entry)
    (h : (stableSort l)[i]? = some e) :
    l[e.cccdPos]? = some e ∧ indexOf e.cccdPos ((stableSort l).map Entry.cccdPos) = i := by
  have hes : e ∈ stableSort l := List.mem_iff_getElem?.mpr ⟨i, h⟩
  have hel : e ∈ l := (stableSort_perm l).mem_iff.mp hes
  refine ⟨hn.getElem?_of_mem hel, ?_⟩
  apply indexOf_eq_of_getElem? _ _ hn.sorted_nodup
  rw [List.getElem?_map, h]
  rfl

/-- `sortedPos` is injective on valid positions -/
theorem sortedPos_inj (l : List Entry) (hn : Numbered l) (j j' : Nat) (hj : j < l.length) (hj' : j' < l.length)
    (h : indexOf j ((stableSort l).map Entry.cccdPos) = indexOf j' ((stableSort l).map Entry.cccdPos)) : j = j' := by
  have h1 : l[j]? = some l[j] := List.getElem?_eq_getElem hj
  have h2 : l[j']? = some l[j'] := List.getElem?_eq_getElem hj'
  have s1 := sortedPos_spec l hn j _ h1
  have s2 := sortedPos_spec l hn j' _ h2
  rw [h, s2] at s1
  simp only [Option.some.injEq] at s1
  have e1 := hn j _ h1
  have e2 := hn j' _ h2
  rw [← e1, ← e2, s1]

theorem sortedPos_lt (l : List Entry) (hn : Numbered l) (j : Nat) (hj : j < l.length) :
    indexOf j ((stableSort l).map Entry.cccdPos) < l.length := by
  have h1 : l[j]? = some l[j] := List.getElem?_eq_getElem hj
  have s1 := sortedPos_spec l hn j _ h1
  have := (List.getElem?_eq_some_iff.mp s1).1
  rw [stableSort_length] at this
  exact this

/-! ## the lookup loops -/

theorem valueLoop_no_match (cell : Nat) (l : List Entry) (k : Nat) (r : Option NotifData)
    (hno : ∀ e ∈ l, e.char.cell ≠ cell) : valueLoop cell l k r = r := by
  induction l generalizing k r with
  | nil => rfl
  | cons a as ih =>
    simp only [valueLoop]
    have ha : ¬ a.char.cell = cell := hno a (List.mem_cons_self)
    simp only [ha, if_false]
    exact ih (k + 1) r (fun e he => hno e (List.mem_cons_of_mem _ he))

theorem valueLoop_unique_from (cell : Nat) (l : List Entry) (k : Nat) (r : Option NotifData)
    (i : Nat) (e : Entry) (h : l[i]? = some e)
    (hc : e.char.cell = cell) (hu : ∀ i' e', l[i']? = some e' → e'.char.cell = cell → i' = i) :
    valueLoop cell l k r = some ⟨e.first + 1, k + i⟩ := by
  induction l generalizing k r i with
  | nil => simp at h
  | cons a as ih =>
    simp only [valueLoop]
    cases i with
    | zero =>
      simp only [List.getElem?_cons_zero, Option.some.injEq] at h
      subst h
      simp only [hc, if_true]
      rw [valueLoop_no_match]
      · rfl
      · intro e' he' hce'
        obtain ⟨i', hi'⟩ := List.mem_iff_getElem?.mp he'
        have := hu (i' + 1) e' (by simpa using hi') hce'
        omega
    | succ i =>
      simp only [List.getElem?_cons_succ] at h
      have ha : ¬ a.char.cell = cell := by
        intro hac
        have := hu 0 a (by simp) hac
        omega
      simp only [ha, if_false]
      rw [ih (k + 1) r i h (fun i' e' hi' hce' => by
        have := hu (i' + 1) e' (by simpa using hi') hce'
        omega)]
      have : k + 1 + i = k + (i + 1) := by omega
      rw [this]

/-- lookup by value: if exactly one entry of the list is bound to `cell`, the loop returns it with its position -/
theorem valueLoop_unique (cell : Nat) (l : List Entry) (i : Nat) (e : Entry) (h : l[i]? = some e)
    (hc : e.char.cell = cell) (hu : ∀ i' e', l[i']? = some e' → e'.char.cell = cell → i' = i) :
    valueLoop cell l 0 none = some ⟨e.first + 1, i⟩ := by
  have := valueLoop_unique_from cell l 0 none i e h hc hu
  simpa using this

theorem typeLoop_first_from (c : CharDecl) (l : List Entry) (k : Nat) (i : Nat) (e : Entry)
    (h : l[i]? = some e)
    (hc : e.char = c) (hf : ∀ i' e', l[i']? = some e' → e'.char = c → i ≤ i') :
    typeLoop c l k = some ⟨e.first + 1, k + i⟩ := by
  induction l generalizing k i with
  | nil => simp at h
  | cons a as ih =>
    simp only [typeLoop]
    cases i with
    | zero =>
      simp only [List.getElem?_cons_zero, Option.some.injEq] at h
      subst h
      simp only [hc, if_true]
      rfl
    | succ i =>
      simp only [List.getElem?_cons_succ] at h
      have ha : ¬ a.char = c := by
        intro hac
        have := hf 0 a (by simp) hac
        omega
      simp only [ha, if_false]
      rw [ih (k + 1) i h (fun i' e' hi' hce' => by
        have := hf (i' + 1) e' (by simpa using hi') hce'
        omega)]
      have : k + 1 + i = k + (i + 1) := by omega
      rw [this]

/-- lookup by type: the loop returns the first entry whose characteristic is `c` -/
theorem typeLoop_first (c : CharDecl) (l : List Entry) (i : Nat) (e : Entry) (h : l[i]? = some e)
    (hc : e.char = c) (hf : ∀ i' e', l[i']? = some e' → e'.char = c → i ≤ i') :
    typeLoop c l 0 = some ⟨e.first + 1, i⟩ := by
  have := typeLoop_first_from c l 0 i e h hc hf
  simpa using this

theorem valueLoop_none (cell : Nat) (l : List Entry) (hno : ∀ e ∈ l, e.char.cell ≠ cell) :
    valueLoop cell l 0 none = none :=
  valueLoop_no_match cell l 0 none hno

end BluetoeModel.AttNotify
