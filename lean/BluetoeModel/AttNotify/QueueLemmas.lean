import BluetoeModel.NotifQueue.Props
namespace BluetoeModel.AttNotify
open BluetoeModel.NotifQueue

/-! Facts about the notification queue specification `Spec` used by the ATT notification model. -/

theorem slot_set_set (sl : Slot) (k : Kind) : (sl.set k).set k = sl.set k := by
  cases k <;> rfl

theorem slot_set_has_self (sl : Slot) (k : Kind) : (sl.set k).has k = true := by
  cases k <;> rfl

theorem wfs_head {l : SLevel} {ls : List SLevel} (hw : WFs (l :: ls)) : l.WF := hw l (by simp)

theorem wfs_tail {l : SLevel} {ls : List SLevel} (hw : WFs (l :: ls)) : WFs ls :=
  fun x hx => hw x (by simp [hx])

theorem wfs_cons {l : SLevel} {ls : List SLevel} (hl : l.WF) (hls : WFs ls) : WFs (l :: ls) := by
  intro x hx
  rcases List.mem_cons.mp hx with e | e
  · exact e ▸ hl
  · exact hls x e

theorem slevel_add_wf {l : SLevel} (hw : l.WF) (i : Nat) (k : Kind) : (l.add i k).1.WF :=
  ⟨hw.pos, hw.nlt, by simp [SLevel.add, hw.len]⟩

theorem slevel_add_twice {l : SLevel} (hw : l.WF) {i : Nat} (hi : i < l.size) (k : Kind) :
    (l.add i k).1.add i k = ((l.add i k).1, false) := by
  have hs : (l.add i k).1.slot i = (l.slot i).set k := by
    rw [SLevel.add_slot hw hi]; simp
  have hl : i < l.slots.length := by rw [hw.len]; exact hi
  show (({ (l.add i k).1 with slots := (l.add i k).1.slots.set i (((l.add i k).1.slot i).set k) } : SLevel),
      !((l.add i k).1.slot i).has k) = _
  rw [hs, slot_set_set, slot_set_has_self]
  simp [SLevel.add, List.set_set]

theorem squeueLv_twice {ss : List SLevel} (hw : WFs ss) (idx : Nat) (k : Kind) :
    squeueLv (squeueLv ss idx k).1 idx k = ((squeueLv ss idx k).1, false) := by
  induction ss generalizing idx with
  | nil => simp [squeueLv]
  | cons l ls ih =>
    by_cases c : idx < l.size
    · have c' : idx < (l.add idx k).1.size := c
      have e1 : squeueLv (l :: ls) idx k = ((l.add idx k).1 :: ls, (l.add idx k).2) := by
        simp [squeueLv, c]
      rw [e1]
      simp only [squeueLv, c', if_true, slevel_add_twice (wfs_head hw) c k]
    · have e1 : squeueLv (l :: ls) idx k =
          (l :: (squeueLv ls (idx - l.size) k).1, (squeueLv ls (idx - l.size) k).2) := by
        simp [squeueLv, c]
      rw [e1]
      simp only [squeueLv, c, if_false, ih (wfs_tail hw) (idx - l.size)]

theorem squeueLv_wf {ss : List SLevel} (hw : WFs ss) (idx : Nat) (k : Kind) :
    WFs (squeueLv ss idx k).1 := by
  induction ss generalizing idx with
  | nil => simpa [squeueLv] using hw
  | cons l ls ih =>
    by_cases c : idx < l.size
    · have e1 : squeueLv (l :: ls) idx k = ((l.add idx k).1 :: ls, (l.add idx k).2) := by
        simp [squeueLv, c]
      rw [e1]; exact wfs_cons (slevel_add_wf (wfs_head hw) idx k) (wfs_tail hw)
    · have e1 : squeueLv (l :: ls) idx k =
          (l :: (squeueLv ls (idx - l.size) k).1, (squeueLv ls (idx - l.size) k).2) := by
        simp [squeueLv, c]
      rw [e1]; exact wfs_cons (wfs_head hw) (ih (wfs_tail hw) _)

theorem slevel_deq_wf {l : SLevel} (hw : l.WF) (off : Nat) (out : Option Nat) : (l.deq off out).1.WF := by
  unfold SLevel.deq
  split
  · exact hw
  · exact ⟨hw.pos, Nat.mod_lt _ hw.pos, by simp [hw.len]⟩

theorem sdeqLv_wf {ss : List SLevel} (hw : WFs ss) (off : Nat) (out : Option Nat) :
    WFs (sdeqLv ss off out).1 := by
  induction ss generalizing off out with
  | nil => simpa [sdeqLv] using hw
  | cons l ls ih =>
    have hd := slevel_deq_wf (wfs_head hw) off out
    unfold sdeqLv
    split
    · rename_i l' o' r e; rw [e] at hd; exact wfs_cons hd (wfs_tail hw)
    · rename_i l' o' e; rw [e] at hd; exact wfs_cons hd (ih (wfs_tail hw) _ _)

theorem slevel_clear_wf {l : SLevel} (hw : l.WF) : l.clear.WF :=
  ⟨hw.pos, hw.pos, by simp [SLevel.clear, hw.len]⟩

/-- "repeated requests before transmission produce a single PDU", queue part: requesting the same
    (characteristic, kind) a second time changes nothing and answers `false` -/
theorem queue_twice (s : Spec) (hw : WFs s.levels) (k : Kind) (i : Nat) :
    (s.step (.queue k i)).1.step (.queue k i) = ((s.step (.queue k i)).1, .bool false) := by
  simp only [Spec.step, squeueLv_twice hw i k]

/-- requesting does not touch the outstanding confirmation and keeps well-formedness -/
theorem queue_wf (s : Spec) (hw : WFs s.levels) (k : Kind) (i : Nat) :
    WFs (s.step (.queue k i)).1.levels := squeueLv_wf hw i k

theorem queue_outstanding (s : Spec) (k : Kind) (i : Nat) :
    (s.step (.queue k i)).1.outstanding = s.outstanding := rfl

theorem step_wf (s : Spec) (hw : WFs s.levels) (op : Op) : WFs (s.step op).1.levels := by
  cases op with
  | queue k i => exact squeueLv_wf hw i k
  | deq => exact sdeqLv_wf hw 0 s.outstanding
  | conf => exact hw
  | clear =>
    intro x hx
    simp only [Spec.step, List.mem_map] at hx
    obtain ⟨l, hl, e⟩ := hx
    exact e ▸ slevel_clear_wf (hw l hl)

theorem run_append (s : Spec) (a b : List Op) :
    (s.run (a ++ b)).2 = (s.run a).2 ++ ((s.run a).1.run b).2 ∧
      (s.run (a ++ b)).1 = ((s.run a).1.run b).1 := by
  induction a generalizing s with
  | nil => simp [Spec.run]
  | cons op ops ih =>
    obtain ⟨h1, h2⟩ := ih (s.step op).1
    simp only [List.cons_append, Spec.run, h1, h2, List.cons_append, and_self]

theorem run_wf (s : Spec) (hw : WFs s.levels) (ops : List Op) : WFs (s.run ops).1.levels := by
  induction ops generalizing s with
  | nil => exact hw
  | cons op ops ih => exact ih _ (step_wf s hw op)

/-- history form of `queue_twice`: inserting a repetition of a request directly behind it adds one
    `false` answer and changes no other output, in particular not the number of dequeued entries -/
theorem coalesced_history (sizes : List Nat) (hpos : ∀ n ∈ sizes, 0 < n) (p q : List Op) (k : Kind) (i : Nat) :
    ((Spec.init sizes).run (p ++ [.queue k i, .queue k i] ++ q)).2 =
      ((Spec.init sizes).run (p ++ [.queue k i])).2 ++ [.bool false] ++
        (((Spec.init sizes).run (p ++ [.queue k i])).1.run q).2 ∧
    ((Spec.init sizes).run (p ++ [.queue k i] ++ q)).2 =
      ((Spec.init sizes).run (p ++ [.queue k i])).2 ++ (((Spec.init sizes).run (p ++ [.queue k i])).1.run q).2 := by
  refine ⟨?_, (run_append _ _ _).1⟩
  have hw : WFs ((Spec.init sizes).run p).1.levels := reachable_wf sizes hpos p
  have e : p ++ [Op.queue k i, Op.queue k i] ++ q = (p ++ [Op.queue k i]) ++ (Op.queue k i :: q) := by simp
  rw [e, (run_append _ _ _).1]
  have h1 : ((Spec.init sizes).run (p ++ [Op.queue k i])).1 = (((Spec.init sizes).run p).1.step (.queue k i)).1 := by
    rw [(run_append _ _ _).2]; simp [Spec.run]
  have h2 := queue_twice _ hw k i
  rw [← h1] at h2
  simp only [Spec.run, h2, List.append_assoc, List.singleton_append]

/-- the output of a queue request is always a boolean, of a dequeue always an entry -/
theorem step_queue_bool (s : Spec) (k : Kind) (i : Nat) : ∃ b, (s.step (.queue k i)).2 = .bool b :=
  ⟨_, rfl⟩

theorem step_deq_entry (s : Spec) : ∃ e, (s.step .deq).2 = .entry e := ⟨_, rfl⟩

end BluetoeModel.AttNotify
