import BluetoeModel.AttNotify.Layout
import BluetoeModel.AttNotify.Sorted
import BluetoeModel.AttNotify.QueueLemmas
import BluetoeModel.AttNotify.Outstanding
/-!
  # C10 — Notifications carry the requested characteristic to subscribed clients only

  "Whichever way a notification or indication is requested (by bound value or by characteristic
  UUID, with or without outgoing priorities), the resulting Handle Value Notification/Indication
  carries the handle and current value of that characteristic, is sent only to a connection
  subscribed for that kind, and repeated requests before transmission produce a single PDU."

  All theorems quantify over every server declaration `d : ServerDecl` (any number of services and
  characteristics, any `higher_outgoing_priority<>` lists at service and server level — the
  priority of a characteristic enters only through `stableSort`, which is a permutation for every
  priority assignment) and over every server / connection state.

  The characteristic a request is about is named by its position `j` in the declaration-order list
  `cccdChars d` of the characteristics with a CCCD, read off the attribute table layout
  (`attrLayout`, the order in which `server::attribute_at` dispatches): `(cccdChars d)[j]? = some
  (c, idx)` — `c` is the declaration, `idx` the attribute index of its declaration attribute, so
  `idx + 1` is its value attribute and `d.handles[idx + 1]` its value handle.
-/
namespace BluetoeModel.AttNotify
open BluetoeModel.NotifQueue (Kind Spec Queue WFs queue_refines_set reachable_wf squeueLv)

/-- the index under which everything per-characteristic is kept (queue entry, CCCD flags): the
    position of the `j`-th characteristic in the priority sorted list, *as the CCCD descriptor of
    that characteristic computes it* (`index_of< j, cccd_indices >`) -/
abbrev sortedPos (d : ServerDecl) (j : Nat) : Nat := cccdFlagIndex d j

theorem numbered (d : ServerDecl) : Numbered (withCccdPosition d) :=
  fun j e h => withCccdPosition_cccdPos d j e h

theorem entry_of_cccdChar (d : ServerDecl) (j : Nat) (c : CharDecl) (idx : Nat)
    (h : (cccdChars d)[j]? = some (c, idx)) :
    ∃ e, (withCccdPosition d)[j]? = some e ∧ e.char = c ∧ e.first = idx := by
  rw [← withCccdPosition_layout, List.getElem?_map] at h
  cases he : (withCccdPosition d)[j]? with
  | none => simp [he] at h
  | some e =>
    simp only [he, Option.map_some, Option.some.injEq, Prod.mk.injEq] at h
    exact ⟨e, rfl, h.1, h.2⟩

theorem cccdChar_of_entry (d : ServerDecl) (j : Nat) (e : Entry) (h : (withCccdPosition d)[j]? = some e) :
    (cccdChars d)[j]? = some (e.char, e.first) := by
  rw [← withCccdPosition_layout, List.getElem?_map, h]; rfl

theorem sorted_at (d : ServerDecl) (j : Nat) (e : Entry) (h : (withCccdPosition d)[j]? = some e) :
    (sorted d)[sortedPos d j]? = some e :=
  sortedPos_spec _ (numbered d) j e h

theorem cccdChars_length (d : ServerDecl) : (cccdChars d).length = (withCccdPosition d).length := by
  rw [← withCccdPosition_layout, List.length_map]

/-- every position of the priority order (every index the queue can hold) belongs to exactly one
    characteristic with a CCCD -/
theorem sortedPos_onto (d : ServerDecl) (i : Nat) (hi : i < (cccdChars d).length) :
    ∃ j c idx, (cccdChars d)[j]? = some (c, idx) ∧ sortedPos d j = i := by
  rw [cccdChars_length, ← stableSort_length] at hi
  have he : (sorted d)[i]? = some ((sorted d)[i]'hi) := List.getElem?_eq_getElem hi
  obtain ⟨h1, h2⟩ := sortedPos_surj _ (numbered d) i _ he
  exact ⟨_, _, _, cccdChar_of_entry d _ _ h1, h2⟩

/-- … and different characteristics have different positions -/
theorem sortedPos_injective (d : ServerDecl) (j j' : Nat) (hj : j < (cccdChars d).length)
    (hj' : j' < (cccdChars d).length) (h : sortedPos d j = sortedPos d j') : j = j' := by
  rw [cccdChars_length] at hj hj'
  exact sortedPos_inj _ (numbered d) j j' hj hj' h

/-! ## the three lookups agree on the characteristic -/

/-- `find_notification_data_by_index` (used by `l2cap_output` for a dequeued entry) maps the
    position of characteristic `j` to the value attribute of characteristic `j`, for every
    declaration and every priority permutation -/
theorem find_by_index_correct (d : ServerDecl) (j : Nat) (c : CharDecl) (idx : Nat)
    (h : (cccdChars d)[j]? = some (c, idx)) :
    findByIndex d (sortedPos d j) = ⟨idx + 1, sortedPos d j⟩ := by
  obtain ⟨e, he, _, hf⟩ := entry_of_cccdChar d j c idx h
  have := sorted_at d j e he
  simp only [findByIndex, findByIndexIn, this, hf]

/-- **C10** "requested by bound value … with or without outgoing priorities": `server.notify(
    value )` / `indicate( value )` hands the link layer the value attribute and the queue / CCCD
    index of the characteristic the variable is bound to — provided the variable is bound to one
    characteristic with a CCCD only (otherwise "that characteristic" is not defined; the code
    takes the last one in priority order). -/
theorem lookup_by_value (d : ServerDecl) (j : Nat) (c : CharDecl) (idx : Nat)
    (h : (cccdChars d)[j]? = some (c, idx))
    (hu : ∀ j' c' idx', (cccdChars d)[j']? = some (c', idx') → c'.cell = c.cell → j' = j) (k : Kind) :
    lookup d (.byValue c.cell) k = some ⟨idx + 1, sortedPos d j⟩ := by
  obtain ⟨e, he, hc, hf⟩ := entry_of_cccdChar d j c idx h
  have hs := sorted_at d j e he
  have := valueLoop_unique c.cell (sorted d) (sortedPos d j) e hs (by rw [hc]) (by
    intro i' e' hi' hcell
    obtain ⟨h1, h2⟩ := sortedPos_surj _ (numbered d) i' e' hi'
    have := hu _ _ _ (cccdChar_of_entry d _ _ h1) hcell
    rw [← h2, this]; rfl)
  simp only [lookup, findByValue, this, hf]

/-- non-vacuity: the server of DESIGN.md §5 C10 (A, B notify, `higher_outgoing_priority< B >`) -/
def exampleDecl : ServerDecl :=
  { services := [{ uuid := 0x1001, nSvcAttrs := 1, prio := [0xA002],
                   chars := [⟨0xA001, 0, 1, true, true, false, 0⟩, ⟨0xA002, 1, 2, true, true, false, 0⟩] }],
    prio := [], mtu := 23, handles := [1, 2, 3, 4, 5, 6, 7] }

example : (cccdChars exampleDecl)[0]? = some (⟨0xA001, 0, 1, true, true, false, 0⟩, 1) ∧
    sortedPos exampleDecl 0 = 1 ∧ sortedPos exampleDecl 1 = 0 ∧
    lookup exampleDecl (.byValue 0) .notification = some ⟨2, 1⟩ := by decide

/-- **C10** "requested … by characteristic UUID": `server.notify< UUID >()` / `indicate< UUID >()`
    hands the link layer the value attribute and the queue / CCCD index of the characteristic with
    that UUID — provided the UUID names this characteristic (`hfirst`: it is the first one with
    that UUID) and no second characteristic of the very same C++ type exists (`hu`; otherwise the
    code takes the first one in priority order). -/
theorem lookup_by_uuid (d : ServerDecl) (j : Nat) (c : CharDecl) (idx : Nat)
    (h : (cccdChars d)[j]? = some (c, idx)) (k : Kind) (hk : c.has k = true)
    (hfirst : findCharByUuid d c.uuid = some c)
    (hu : ∀ j' idx', (cccdChars d)[j']? = some (c, idx') → j' = j) :
    lookup d (.byUuid c.uuid) k = some ⟨idx + 1, sortedPos d j⟩ := by
  obtain ⟨e, he, hc, hf⟩ := entry_of_cccdChar d j c idx h
  have hs := sorted_at d j e he
  have := typeLoop_first c (sorted d) (sortedPos d j) e hs hc (by
    intro i' e' hi' hch
    obtain ⟨h1, h2⟩ := sortedPos_surj _ (numbered d) i' e' hi'
    have h3 := cccdChar_of_entry d _ _ h1
    rw [hch] at h3
    have := hu _ _ h3
    rw [← h2, this]; exact Nat.le_refl _)
  simp only [lookup, hfirst, hk, if_true, findByType, this, hf]

example : lookup exampleDecl (.byUuid 0xA001) .notification = some ⟨2, 1⟩ ∧
    findCharByUuid exampleDecl 0xA001 = some ⟨0xA001, 0, 1, true, true, false, 0⟩ := by decide

/-- a UUID that occurs once in the server names its characteristic -/
theorem findCharByUuid_unique (d : ServerDecl) (c : CharDecl) (hc : c ∈ allChars d)
    (hu : ∀ c' ∈ allChars d, c'.uuid = c.uuid → c' = c) : findCharByUuid d c.uuid = some c := by
  unfold findCharByUuid
  cases hf : (allChars d).find? (fun x => x.uuid == c.uuid) with
  | none =>
    have := List.find?_eq_none.mp hf c hc
    simp at this
  | some c' =>
    have h1 := List.find?_some hf
    have h2 := List.mem_of_find?_eq_some hf
    simp only [beq_iff_eq] at h1
    rw [hu c' h2 h1]

/-! ### characteristic UUIDs that occur more than once

  Nothing above assumes distinct UUIDs: `lookup_by_uuid` asks for `findCharByUuid d c.uuid = some c`,
  i.e. that `c` is the *first* characteristic with its UUID.  That is the reading of "the requested
  characteristic" for `notify< UUID >()` / `indicate< UUID >()` when several characteristics share
  the UUID: the first one in declaration order (services in the order of the server's option
  list, characteristics in the order of the service's) — it is the characteristic the call is
  type checked against (`find_characteristic_data_by_uuid_in_service_list`, the `static_assert`s on
  `has_notification` / `has_indication`, `configured_for_notifications< UUID >`), and it must not
  depend on the outgoing priorities ("with or without outgoing priorities"). -/

/-- the characteristic a request by UUID `u` is about, read off the attribute table layout: the
    first one with that UUID, together with the index of its declaration attribute -/
def requestedByUuid (d : ServerDecl) (u : Nat) : Option (CharDecl × Nat) :=
  (attrLayout d).find? fun p => p.1.uuid == u

theorem findCharByUuid_layout (d : ServerDecl) (u : Nat) :
    findCharByUuid d u = (requestedByUuid d u).map Prod.fst := by
  unfold findCharByUuid requestedByUuid
  rw [← allChars_layout, List.find?_map]
  rfl

/-- **C10**, shared UUIDs: whatever else carries the UUID `u`, wherever the priorities sort it —
    `notify< u >()` / `indicate< u >()` queue the first characteristic with UUID `u` in declaration
    order (`hreq`), `j` being its number among the characteristics with a CCCD.  (`hu`: no second
    characteristic of the identical C++ type — same UUID, variable and options —, which no lookup
    could tell apart.)  If the first characteristic with the UUID has no CCCD or not the property
    the call does not compile (`lookup_by_uuid_unnotifiable`). -/
theorem lookup_by_uuid_shared (d : ServerDecl) (u : Nat) (j : Nat) (c : CharDecl) (idx : Nat) (k : Kind)
    (hreq : requestedByUuid d u = some (c, idx))
    (hj : (cccdChars d)[j]? = some (c, idx)) (hk : c.has k = true)
    (hu : ∀ j' idx', (cccdChars d)[j']? = some (c, idx') → j' = j) :
    lookup d (.byUuid u) k = some ⟨idx + 1, sortedPos d j⟩ := by
  have hcu : c.uuid = u := by
    have := List.find?_some hreq
    simpa using this
  have hfirst : findCharByUuid d c.uuid = some c := by
    rw [findCharByUuid_layout, hcu, hreq]; rfl
  rw [← hcu]
  exact lookup_by_uuid d j c idx hj k hk hfirst hu

theorem lookup_by_uuid_unnotifiable (d : ServerDecl) (u : Nat) (c : CharDecl) (idx : Nat) (k : Kind)
    (hreq : requestedByUuid d u = some (c, idx)) (hk : c.has k = false) :
    lookup d (.byUuid u) k = none := by
  have : findCharByUuid d u = some c := by rw [findCharByUuid_layout, hreq]; rfl
  simp only [lookup, this, hk]
  rfl

/-- harness server X1: UUID 0xA001 in two services (variables 0 and 5), the second service has the
    higher priority, so the later characteristic is sorted in front of the first one -/
def sharedUuidDecl : ServerDecl :=
  { services := [{ uuid := 0x1001, nSvcAttrs := 1, prio := [],
                   chars := [⟨0xA001, 0, 1, true, true, false, 0⟩, ⟨0xA002, 1, 2, true, true, false, 0⟩] },
                 { uuid := 0x1002, nSvcAttrs := 1, prio := [],
                   chars := [⟨0xA001, 5, 1, true, true, true, 0⟩, ⟨0xA003, 2, 4, true, false, true, 0⟩] }],
    prio := [0x1002], mtu := 23, handles := [1, 2, 3, 4, 5, 6, 7, 8, 9, 10, 11, 12, 13, 14] }

/-- non-vacuity of `lookup_by_uuid_shared` with a UUID that really is shared and reordered: the
    requested characteristic is #0 (declaration attribute 1, variable 0) although characteristic #2
    with the same UUID is first in priority order (`sortedPos 2 = 0`, `sortedPos 0 = 2`) -/
example : requestedByUuid sharedUuidDecl 0xA001 = some (⟨0xA001, 0, 1, true, true, false, 0⟩, 1) ∧
    (cccdChars sharedUuidDecl)[0]? = some (⟨0xA001, 0, 1, true, true, false, 0⟩, 1) ∧
    ((cccdChars sharedUuidDecl)[2]?).map (fun p => p.1.uuid) = some 0xA001 ∧
    sortedPos sharedUuidDecl 2 = 0 ∧ sortedPos sharedUuidDecl 0 = 2 ∧
    lookup sharedUuidDecl (.byUuid 0xA001) .notification = some ⟨2, 2⟩ ∧
    lookup sharedUuidDecl (.byUuid 0xA001) .indication = none := by decide

/-- the lookup a seeded change introduced (`equal_char` comparing `configured_uuid` instead of the
    resolved characteristic type): first entry *in priority order* with the UUID -/
def uuidLoop (u : Nat) : List Entry → Nat → Option NotifData
  | [], _ => none
  | e :: es, k => if e.char.uuid = u then some ⟨e.first + 1, k⟩ else uuidLoop u es (k + 1)

/-- … which addresses another characteristic as soon as a shared UUID is reordered: in
    `sharedUuidDecl` it yields value attribute 9 / index 0 (the characteristic of the second
    service) where the code yields value attribute 2 / index 2 -/
theorem match_by_uuid_witness :
    uuidLoop 0xA001 (sorted sharedUuidDecl) 0 = some ⟨9, 0⟩ ∧
    lookup sharedUuidDecl (.byUuid 0xA001) .notification = some ⟨2, 2⟩ := by decide

/-- the CCCD flag index is the position *of* `j` in `cccd_indices` (`index_of`), not the `j`-th
    element of `cccd_indices` (the inverse permutation): for a cyclic reordering (harness server C3:
    a, b, c with `higher_outgoing_priority< c >`) the two differ -/
theorem cccd_index_inverse_witness :
    let d : ServerDecl :=
      { services := [{ uuid := 0x1001, nSvcAttrs := 1, prio := [0xA003],
                       chars := [⟨0xA001, 0, 1, true, true, false, 0⟩, ⟨0xA002, 1, 2, true, true, true, 0⟩,
                                 ⟨0xA003, 2, 4, true, true, false, 0⟩] }],
        prio := [], mtu := 23, handles := [1, 2, 3, 4, 5, 6, 7, 8, 9, 10] }
    cccdIndices d = [2, 0, 1] ∧ [0, 1, 2].map (cccdFlagIndex d) = [1, 2, 0] := by decide

/-! ## the queued request -/

/-- **C10** `notify_by_value_correct` / `notify_by_uuid_correct`, request side: whichever way the
    request is made, what reaches the connection's queue is the request `(k, sortedPos d j)` of the
    requested characteristic `j` (what the queue does with it — set semantics, priority order,
    fairness — is C11/C12: `NotifQueue.queue_refines_set` …). -/
theorem request_queues_requested (d : ServerDecl) (st : State) (ci : Nat) (conn : Conn)
    (hconn : st.conns[ci]? = some conn) (r : Req) (k : Kind) (i a : Nat)
    (hl : lookup d r k = some ⟨a, i⟩) :
    request d st ci r k =
      (setConn st ci { conn with queue := (conn.queue.step (.queue k i)).1 }, .bool (squeueLv conn.queue.levels i k).2) := by
  simp only [request, hconn, hl, queueRequest, Spec.step]

theorem notify_by_value_correct (d : ServerDecl) (j : Nat) (c : CharDecl) (idx : Nat)
    (h : (cccdChars d)[j]? = some (c, idx))
    (hu : ∀ j' c' idx', (cccdChars d)[j']? = some (c', idx') → c'.cell = c.cell → j' = j)
    (st : State) (ci : Nat) (conn : Conn) (hconn : st.conns[ci]? = some conn) (k : Kind) :
    request d st ci (.byValue c.cell) k =
      (setConn st ci { conn with queue := (conn.queue.step (.queue k (sortedPos d j))).1 },
        .bool (squeueLv conn.queue.levels (sortedPos d j) k).2) :=
  request_queues_requested d st ci conn hconn _ k _ _ (lookup_by_value d j c idx h hu k)

theorem notify_by_uuid_correct (d : ServerDecl) (j : Nat) (c : CharDecl) (idx : Nat)
    (h : (cccdChars d)[j]? = some (c, idx)) (k : Kind) (hk : c.has k = true)
    (hfirst : findCharByUuid d c.uuid = some c)
    (hu : ∀ j' idx', (cccdChars d)[j']? = some (c, idx') → j' = j)
    (st : State) (ci : Nat) (conn : Conn) (hconn : st.conns[ci]? = some conn) :
    request d st ci (.byUuid c.uuid) k =
      (setConn st ci { conn with queue := (conn.queue.step (.queue k (sortedPos d j))).1 },
        .bool (squeueLv conn.queue.levels (sortedPos d j) k).2) :=
  request_queues_requested d st ci conn hconn _ k _ _ (lookup_by_uuid d j c idx h k hk hfirst hu)

/-- `notify_by_uuid_correct` without any assumption on the other characteristics' UUIDs: the
    request by UUID `u` queues the first characteristic with UUID `u` in declaration order -/
theorem notify_by_uuid_shared_correct (d : ServerDecl) (u : Nat) (j : Nat) (c : CharDecl) (idx : Nat) (k : Kind)
    (hreq : requestedByUuid d u = some (c, idx))
    (hj : (cccdChars d)[j]? = some (c, idx)) (hk : c.has k = true)
    (hu : ∀ j' idx', (cccdChars d)[j']? = some (c, idx') → j' = j)
    (st : State) (ci : Nat) (conn : Conn) (hconn : st.conns[ci]? = some conn) :
    request d st ci (.byUuid u) k =
      (setConn st ci { conn with queue := (conn.queue.step (.queue k (sortedPos d j))).1 },
        .bool (squeueLv conn.queue.levels (sortedPos d j) k).2) :=
  request_queues_requested d st ci conn hconn _ k _ _ (lookup_by_uuid_shared d u j c idx k hreq hj hk hu)

/-! ## the transmitted PDU -/

/-- the client's subscription of characteristic `j` for kind `k` on a connection: the flags last
    written to the CCCD descriptor of that characteristic (`subscribe` stores them at
    `cccdFlagIndex d j`) -/
def subscribed (d : ServerDecl) (conn : Conn) (j : Nat) (k : Kind) : Prop :=
  ∃ f, conn.cccd[cccdFlagIndex d j]? = some f ∧ f &&& k.bit ≠ 0

theorem mem_attrLayout_of_cccdChar (d : ServerDecl) (j : Nat) (c : CharDecl) (idx : Nat)
    (h : (cccdChars d)[j]? = some (c, idx)) : (c, idx) ∈ attrLayout d :=
  (List.mem_filter.mp (List.mem_of_getElem? h)).1

/-- **C10** "the resulting Handle Value Notification/Indication carries the handle and current
    value of that characteristic": when `l2cap_output` dequeues the request `(k, sortedPos d j)`
    — the one `notify_by_value_correct` / `notify_by_uuid_correct` show to be queued for
    characteristic `j` — the PDU is `[0x1B | 0x1D, handle lo, handle hi, value…]` with the value
    handle and the current memory of characteristic `j`, clipped to the output size and the
    negotiated MTU; it is empty unless the connection's CCCD flags of characteristic `j` contain
    the bit of kind `k` (and the buffer has room for the header and the value is readable). -/
theorem output_correct (d : ServerDecl) (st : State) (ci : Nat) (conn : Conn) (size : Nat)
    (j : Nat) (c : CharDecl) (idx : Nat) (k : Kind) (q : Spec) (hd f : Nat) (m : Bytes)
    (hconn : st.conns[ci]? = some conn)
    (hj : (cccdChars d)[j]? = some (c, idx))
    (hdeq : conn.queue.step .deq = (q, .entry (some (k, sortedPos d j))))
    (hh : d.handles[idx + 1]? = some hd)
    (hm : st.cells[c.cell]? = some m) (hlen : c.size ≤ m.length)
    (hf : conn.cccd[sortedPos d j]? = some f) :
    (l2capOutput d st ci size).2 =
      .pdu (if f &&& k.bit ≠ 0 ∧ 3 ≤ min size (min d.mtu conn.clientMtu) ∧ c.readable = true then
              opcodeOf k :: (le16 hd ++ m.take (min (min size (min d.mtu conn.clientMtu) - 3) c.size))
            else []) := by
  have hv := valueAttrAt_layout d c idx (mem_attrLayout_of_cccdChar d j c idx hj)
  simp only [l2capOutput, l2capOutputGen, hconn, hdeq, find_by_index_correct d j c idx hj, hf]
  by_cases h1 : f &&& k.bit ≠ 0 ∧ 3 ≤ min size (min d.mtu conn.clientMtu)
  · rw [if_pos h1]
    simp only [readValueAttr, hv, hm, hh]
    have hrd : readMem m c.size (min size (min d.mtu conn.clientMtu) - 3) =
        some (m.take (min (min size (min d.mtu conn.clientMtu) - 3) c.size)) := by
      unfold readMem
      rw [if_pos (by omega)]
    cases hr : c.readable with
    | true => simp [hrd, h1.1, h1.2]
    | false => simp
  · rw [if_neg h1, if_neg (by intro h; exact h1 ⟨h.1, h.2.1⟩)]

/-- **C10** "is sent only to a connection subscribed for that kind": a non-empty PDU for the
    request of characteristic `j` and kind `k` leaves `l2cap_output` only if the connection is
    subscribed to characteristic `j` for kind `k`. -/
theorem only_if_subscribed (d : ServerDecl) (st : State) (ci : Nat) (conn : Conn) (size : Nat)
    (j : Nat) (c : CharDecl) (idx : Nat) (k : Kind) (q : Spec) (hd f : Nat) (m : Bytes)
    (hconn : st.conns[ci]? = some conn)
    (hj : (cccdChars d)[j]? = some (c, idx))
    (hdeq : conn.queue.step .deq = (q, .entry (some (k, sortedPos d j))))
    (hh : d.handles[idx + 1]? = some hd)
    (hm : st.cells[c.cell]? = some m) (hlen : c.size ≤ m.length)
    (hf : conn.cccd[sortedPos d j]? = some f)
    (p : Bytes) (hp : (l2capOutput d st ci size).2 = .pdu p) (hne : p ≠ []) :
    subscribed d conn j k := by
  rw [output_correct d st ci conn size j c idx k q hd f m hconn hj hdeq hh hm hlen hf] at hp
  by_cases h1 : f &&& k.bit ≠ 0 ∧ 3 ≤ min size (min d.mtu conn.clientMtu) ∧ c.readable = true
  · exact ⟨f, hf, h1.1⟩
  · rw [if_neg h1] at hp
    simp only [Out.pdu.injEq] at hp
    exact absurd hp.symm hne

/-- non-vacuity of `output_correct` / `only_if_subscribed`: the example server, connection 0
    subscribed to A for notifications, `notify( a )`, `l2cap_output` -/
example :
    let st0 := State.init exampleDecl [[0xaa], [0xb1, 0xb2]] 2
    let st1 := (step exampleDecl st0 (.subscribe 0 0 1)).1
    let st2 := (step exampleDecl st1 (.request 0 (.byValue 0) .notification)).1
    (step exampleDecl st2 (.output 0 23)).2 = .pdu [0x1B, 0x03, 0x00, 0xaa] ∧
    (step exampleDecl st2 (.output 1 23)).2 = .pdu [] := by decide

/-- the CCCD write reaches exactly the flags of the written characteristic -/
theorem subscribe_exact (d : ServerDecl) (st : State) (ci : Nat) (conn : Conn) (j v : Nat)
    (hconn : st.conns[ci]? = some conn) (hj : j < (cccdChars d).length)
    (hlen : conn.cccd.length = (cccdChars d).length) :
    ∃ conn', (subscribe d st ci j v).1.conns[ci]? = some conn' ∧ conn'.queue = conn.queue ∧
      conn'.cccd[sortedPos d j]? = some (v &&& 3) ∧
      ∀ j', j' < (cccdChars d).length → j' ≠ j → conn'.cccd[sortedPos d j']? = conn.cccd[sortedPos d j']? := by
  have hlt : sortedPos d j < conn.cccd.length := by
    rw [hlen, cccdChars_length]; exact sortedPos_lt _ (numbered d) j (by rw [← cccdChars_length]; exact hj)
  have hci : ci < st.conns.length := by
    cases hlt' : decide (ci < st.conns.length) with
    | true => exact of_decide_eq_true hlt'
    | false =>
      have : st.conns.length ≤ ci := Nat.le_of_not_lt (of_decide_eq_false hlt')
      rw [List.getElem?_eq_none this] at hconn; cases hconn
  refine ⟨{ conn with cccd := conn.cccd.set (sortedPos d j) (v &&& 3) }, ?_, rfl, ?_, ?_⟩
  · simp only [subscribe, hconn, ← cccdChars_length, hj, if_true, sortedPos] at *
    simp only [hlt, if_true, setConn, List.getElem?_set_self hci]
  · simp only [List.getElem?_set_self hlt]
  · intro j' hj' hne
    have : sortedPos d j ≠ sortedPos d j' := fun h => hne (sortedPos_injective d j j' hj hj' h).symm
    simp only [List.getElem?_set_ne this]

/-! ## coalescing -/

/-- **C10** "repeated requests before transmission produce a single PDU": a second identical
    request (same connection, same way of requesting, same kind) before the first one was
    dequeued changes nothing — the state is the one after the first request and the answer is
    "was already queued" — so it cannot produce a second PDU. -/
theorem coalesced (d : ServerDecl) (st : State) (ci : Nat) (conn : Conn) (r : Req) (k : Kind) (nd : NotifData)
    (hconn : st.conns[ci]? = some conn) (hw : WFs conn.queue.levels) (hl : lookup d r k = some nd) :
    request d (request d st ci r k).1 ci r k = ((request d st ci r k).1, .bool false) := by
  have hci : ci < st.conns.length := by
    cases hlt' : decide (ci < st.conns.length) with
    | true => exact of_decide_eq_true hlt'
    | false =>
      have : st.conns.length ≤ ci := Nat.le_of_not_lt (of_decide_eq_false hlt')
      rw [List.getElem?_eq_none this] at hconn; cases hconn
  obtain ⟨a, i⟩ := nd
  rw [request_queues_requested d st ci conn hconn r k i a hl]
  have h2 : (setConn st ci { conn with queue := (conn.queue.step (.queue k i)).1 }).conns[ci]? =
      some { conn with queue := (conn.queue.step (.queue k i)).1 } := by
    simp only [setConn, List.getElem?_set_self hci]
  rw [request_queues_requested d _ ci _ h2 r k i a hl]
  have := queue_twice conn.queue hw k i
  have h3 : (squeueLv (conn.queue.step (.queue k i)).1.levels i k).2 = false := by
    have h' := congrArg Prod.snd this
    simpa [Spec.step] using h'
  simp only [this, setConn, List.set_set, h3]

example : WFs (Conn.init exampleDecl).queue.levels := reachable_wf (numbers exampleDecl) (by decide) []

/-- … and in every history of one connection's queue (C12's set specification, which the byte
    level model of notification_queue.hpp refines): repeating a request directly behind itself
    adds one `false` answer and changes no other output, in particular not the dequeued entries -/
theorem coalesced_in_every_history (sizes : List Nat) (hpos : ∀ n ∈ sizes, 0 < n) (p q : List NotifQueue.Op) (k : Kind) (i : Nat) :
    ((Queue.init sizes).run (p ++ [NotifQueue.Op.queue k i, NotifQueue.Op.queue k i] ++ q)).2 =
      ((Spec.init sizes).run (p ++ [NotifQueue.Op.queue k i])).2 ++ [NotifQueue.Out.bool false] ++
        (((Spec.init sizes).run (p ++ [NotifQueue.Op.queue k i])).1.run q).2 ∧
    ((Queue.init sizes).run (p ++ [NotifQueue.Op.queue k i] ++ q)).2 =
      ((Spec.init sizes).run (p ++ [NotifQueue.Op.queue k i])).2 ++ (((Spec.init sizes).run (p ++ [NotifQueue.Op.queue k i])).1.run q).2 := by
  rw [queue_refines_set sizes hpos, queue_refines_set sizes hpos]
  exact coalesced_history sizes hpos p q k i

example : ∀ n ∈ numbers exampleDecl, 0 < n := by decide

/-! ## the defects that were repaired (fixes/attnotify-01, fixes/attnotify-02) -/

/-- the statement `lookup_by_value` for the code *before* fixes/attnotify-01
    (`find_notification_data` counting in declaration order) -/
def lookup_by_value_prefix_full : Prop :=
  ∀ (d : ServerDecl) (j : Nat) (c : CharDecl) (idx : Nat), (cccdChars d)[j]? = some (c, idx) →
    (∀ j' c' idx', (cccdChars d)[j']? = some (c', idx') → c'.cell = c.cell → j' = j) →
    findByValueOld d c.cell = some ⟨idx + 1, sortedPos d j⟩

/-- … is false: in the example server (`higher_outgoing_priority< B >`) `notify( a )` queued index
    0, which `l2cap_output` resolves to characteristic B (value attribute 5, handle 6) -/
theorem notify_by_value_prefix_witness : ¬ lookup_by_value_prefix_full := by
  intro h
  have := h exampleDecl 0 ⟨0xA001, 0, 1, true, true, false, 0⟩ 1 (by decide) (by
    intro j' c' idx' h hc
    have e : cccdChars exampleDecl =
        [(⟨0xA001, 0, 1, true, true, false, 0⟩, 1), (⟨0xA002, 1, 2, true, true, false, 0⟩, 4)] := by decide
    rw [e] at h
    match j', h with
    | 0, _ => rfl
    | 1, h =>
      simp only [List.getElem?_cons_succ, List.getElem?_cons_zero, Option.some.injEq, Prod.mk.injEq] at h
      rw [← h.1] at hc; simp at hc
    | n + 2, h => simp at h)
  revert this; decide

theorem notify_by_value_prefix_sends_b :
    (findByValueOld exampleDecl 0).map (fun nd => findByIndex exampleDecl nd.cccdIndex) = some ⟨5, 0⟩ := by decide

/-- without priorities reordering anything the old code was right (the `…_partial` statement of
    DESIGN.md: identity permutation) -/
theorem lookup_by_value_prefix_partial (d : ServerDecl) (hid : sorted d = withCccdPosition d) (cell : Nat) :
    findByValueOld d cell = findByValue d cell := by
  simp only [findByValueOld, findByValue, hid]

/-- a service without characteristics in front of the notifying one (harness server E1) -/
def emptyServiceDecl : ServerDecl :=
  { services := [{ uuid := 0x1000, nSvcAttrs := 1, prio := [], chars := [] },
                 { uuid := 0x1001, nSvcAttrs := 1, prio := [],
                   chars := [⟨0xA001, 0, 1, true, true, false, 0⟩] }],
    prio := [], mtu := 23, handles := [1, 2, 3, 4, 5] }

/-- before fixes/attnotify-02 the attributes of a service without characteristics were not
    counted: the notification of the characteristic at attribute index 2 (value attribute 3) was
    built from attribute 2 — the characteristic *declaration* — while the fixed code agrees with
    the attribute table (`withIndices_layout`) -/
theorem empty_service_prefix_witness :
    (sortedOld emptyServiceDecl).map Entry.first = [1] ∧ (sorted emptyServiceDecl).map Entry.first = [2] ∧
    (attrLayout emptyServiceDecl).map Prod.snd = [2] := by decide

/-! ## observations -/

/-- `no_read_access` + `notify` on a bound value never transmits: the read access that
    `l2cap_output` performs on the value attribute answers *read not permitted* -/
theorem no_read_access_never_transmits (d : ServerDecl) (st : State) (ci : Nat) (conn : Conn) (size : Nat)
    (j : Nat) (c : CharDecl) (idx : Nat) (k : Kind) (q : Spec) (hd f : Nat) (m : Bytes)
    (hconn : st.conns[ci]? = some conn) (hj : (cccdChars d)[j]? = some (c, idx))
    (hdeq : conn.queue.step .deq = (q, .entry (some (k, sortedPos d j))))
    (hh : d.handles[idx + 1]? = some hd) (hm : st.cells[c.cell]? = some m) (hlen : c.size ≤ m.length)
    (hf : conn.cccd[sortedPos d j]? = some f) (hr : c.readable = false) :
    (l2capOutput d st ci size).2 = .pdu [] := by
  rw [output_correct d st ci conn size j c idx k q hd f m hconn hj hdeq hh hm hlen hf]
  rw [if_neg (by intro h; have := h.2.2; rw [hr] at this; cases this)]

/-- before fixes/attnotify-03 (C11): an indication requested for a characteristic the client did
    not subscribe for indications was dequeued, not sent, and nevertheless left the queue waiting
    for a confirmation: further indications on this connection were held back until a Handle
    Value Confirmation arrived that no client has a reason to send -/
theorem unsubscribed_indication_blocks_witness :
    let st0 := State.init exampleDecl [[0xaa], [0xb1, 0xb2]] 2
    let st1 := (stepOld exampleDecl st0 (.subscribe 0 1 2)).1                      -- B: indications
    let st2 := (stepOld exampleDecl st1 (.request 0 (.byValue 0) .indication)).1  -- indicate( a ): not subscribed
    let st3 := (stepOld exampleDecl st2 (.output 0 23)).1                         -- nothing sent …
    let st4 := (stepOld exampleDecl st3 (.request 0 (.byValue 1) .indication)).1  -- indicate( b ): subscribed
    (stepOld exampleDecl st2 (.output 0 23)).2 = .pdu [] ∧
    (stepOld exampleDecl st4 (.output 0 23)).2 = .pdu [] ∧                         -- … and b is stuck
    (stepOld exampleDecl (stepOld exampleDecl st4 (.confirm 0)).1 (.output 0 23)).2 = .pdu [0x1D, 0x06, 0x00, 0xb1, 0xb2] := by
  decide

/-- … and the same history on the fixed code: `indicate( b )` is transmitted by the next `l2cap_output` -/
example :
    let st0 := State.init exampleDecl [[0xaa], [0xb1, 0xb2]] 2
    let st1 := (step exampleDecl st0 (.subscribe 0 1 2)).1
    let st2 := (step exampleDecl st1 (.request 0 (.byValue 0) .indication)).1
    let st3 := (step exampleDecl st2 (.output 0 23)).1
    let st4 := (step exampleDecl st3 (.request 0 (.byValue 1) .indication)).1
    (step exampleDecl st2 (.output 0 23)).2 = .pdu [] ∧
    (step exampleDecl st4 (.output 0 23)).2 = .pdu [0x1D, 0x06, 0x00, 0xb1, 0xb2] := by
  decide

/-! ## C11 — an indication that is dequeued but not transmitted must not block the connection

  "Indications are confirmed one at a time and never lost": `l2cap_output` after fixes/attnotify-03.
  `at_most_one_outstanding` (Outstanding.lean) is the "one at a time" half on the server level model;
  the theorems below are the "never blocked by an indication that was not sent" half. -/

theorem setConn_get (st : State) (ci : Nat) (conn x : Conn) (hconn : st.conns[ci]? = some conn) :
    (setConn st ci x).conns[ci]? = some x := by
  have hci : ci < st.conns.length := by
    cases hlt' : decide (ci < st.conns.length) with
    | true => exact of_decide_eq_true hlt'
    | false =>
      have : st.conns.length ≤ ci := Nat.le_of_not_lt (of_decide_eq_false hlt')
      rw [List.getElem?_eq_none this] at hconn; cases hconn
  simp only [setConn, List.getElem?_set_self hci]

/-- what `l2cap_output` leaves behind when it dequeued `(k, i)` and produced no PDU: the connection
    with the dequeued queue `q`, treated by `unsentQueue k` -/
theorem output_unsent_state (d : ServerDecl) (st : State) (ci : Nat) (conn : Conn) (size : Nat) (q : Spec) (k : Kind) (i : Nat)
    (hconn : st.conns[ci]? = some conn)
    (hdeq : conn.queue.step .deq = (q, .entry (some (k, i))))
    (hp : (l2capOutput d st ci size).2 = .pdu []) :
    (l2capOutput d st ci size).1.conns[ci]? = some { conn with queue := unsentQueue k q } := by
  simp only [l2capOutput, l2capOutputGen, hconn, hdeq] at hp ⊢
  cases hc : conn.cccd[(findByIndex d i).cccdIndex]? with
  | none => simp [hc] at hp
  | some flags =>
    simp only [hc] at hp ⊢
    split at hp
    · rename_i hcond
      rw [if_pos hcond]
      split at hp
      · simp at hp
      · rename_i hr
        exact setConn_get st ci conn _ hconn
      · simp at hp
    · rename_i hcond
      rw [if_neg hcond]
      exact setConn_get st ci conn _ hconn

/-- **C11** `unsent_indication_does_not_block`: for every declaration and every state (hence after
    every history), after an `l2cap_output` that dequeued an indication but produced no PDU (the
    client is not subscribed for indications of that characteristic, the value is not readable, or
    the buffer is below 3 bytes) **no confirmation is outstanding**; everything else of the
    connection is as the dequeue left it. -/
theorem unsent_indication_does_not_block (d : ServerDecl) (st : State) (ci : Nat) (conn : Conn) (size : Nat) (q : Spec) (i : Nat)
    (hconn : st.conns[ci]? = some conn)
    (hdeq : conn.queue.step .deq = (q, .entry (some (.indication, i))))
    (hp : (l2capOutput d st ci size).2 = .pdu []) :
    ∃ conn', (l2capOutput d st ci size).1.conns[ci]? = some conn' ∧
      conn'.queue.outstanding = none ∧ conn'.queue.levels = q.levels ∧
      conn'.cccd = conn.cccd ∧ conn'.clientMtu = conn.clientMtu :=
  ⟨_, output_unsent_state d st ci conn size q .indication i hconn hdeq hp, rfl, rfl, rfl, rfl⟩

/-- … "so a later subscribed indication is sent": with no confirmation outstanding a pending
    indication cannot be held back — the next dequeue returns a request (C11/C12:
    `dequeue_exactly_once_in_priority_order` says which), it does not answer "nothing to send". -/
theorem indication_not_held_back (s : Spec) (hw : WFs s.levels) (ho : s.outstanding = none) (j : Nat)
    (hp : s.pending j .indication = true) : (s.step .deq).2 ≠ .entry none := by
  intro h
  have := (NotifQueue.dequeue_empty_only_if_nothing_sendable s hw h).2 j .indication hp
  simp [NotifQueue.eligible, ho] at this

/-- the mirror image (a seeded change got exactly this wrong): a *notification* that is dequeued
    but not transmitted leaves the outstanding confirmation of an earlier, transmitted indication
    untouched — `indication_confirmed()` is not called on that path -/
theorem unsent_notification_keeps_outstanding (d : ServerDecl) (st : State) (ci : Nat) (conn : Conn) (size : Nat) (q : Spec) (i : Nat)
    (hconn : st.conns[ci]? = some conn)
    (hdeq : conn.queue.step .deq = (q, .entry (some (.notification, i))))
    (hp : (l2capOutput d st ci size).2 = .pdu []) :
    (l2capOutput d st ci size).1.conns[ci]? = some { conn with queue := q } :=
  output_unsent_state d st ci conn size q .notification i hconn hdeq hp

/-- non-vacuity: the history of `unsubscribed_indication_blocks_witness` on the fixed code reaches
    the hypotheses of `unsent_indication_does_not_block` -/
example :
    let st0 := State.init exampleDecl [[0xaa], [0xb1, 0xb2]] 2
    let st2 := (step exampleDecl (step exampleDecl st0 (.subscribe 0 1 2)).1 (.request 0 (.byValue 0) .indication)).1
    (st2.conns[0]?).map (fun conn => (conn.queue.step .deq).2) = some (.entry (some (.indication, 1))) ∧
    (l2capOutput exampleDecl st2 0 23).2 = .pdu [] := by
  decide

end BluetoeModel.AttNotify
