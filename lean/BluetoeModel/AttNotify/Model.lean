/-
  Executable model of the notification / indication path of `bluetoe::server<>` (property C10):

    server::notify( value ) / indicate( value ) / notify< UUID >() / indicate< UUID >()
      -> find_notification_data / find_notification_by_uuid              (find_notification_data.hpp)
      -> link layer callback: queue_notification / queue_indication( index ) (link_layer.hpp)
    server::l2cap_output
      -> dequeue_indication_or_confirmation, find_notification_data_by_index, CCCD gate,
         read access to the value attribute, `[0x1B|0x1D, handle, value...]` clipped to the MTU

  together with the compile time computations these functions rest on: the outgoing priority of
  every characteristic (outgoing_priority.hpp), the list of characteristics with a CCCD sorted by
  priority (`stable_sort`), the attribute index of every characteristic, the CCCD flag index.

  A server declaration is a *value* (`ServerDecl`), so the theorems quantify over declarations.
  Modelled is the code after fixes/attnotify-01 (lookup by value returns the position in the
  priority sorted list) and fixes/attnotify-02 (attributes of a service without characteristics
  are counted); the pre-fix functions are kept as `findByValueOld` / `charsFromServiceOld` for
  the witness theorems.

  The per-connection notification queue is `BluetoeModel.NotifQueue.Spec`, the set-of-pending-
  requests specification that `NotifQueue.queue_refines_set` proves equal (for every priority
  partition and history) to the byte level model of notification_queue.hpp.

  Not modelled: value kinds other than `bind_characteristic_value` (handlers, fixed values can
  only be notified by UUID and are read through the same `attribute::access` call), encryption
  requirements (C05), the handle mapping (C04; `ServerDecl.handles` is data).
-/
import BluetoeModel.Util.Proto
import BluetoeModel.NotifQueue.Model
namespace BluetoeModel.AttNotify
open BluetoeModel.NotifQueue (Kind Spec)

abbrev Bytes := List UInt8

/-! ## declarations as data -/

/-- `bluetoe::characteristic< characteristic_uuid16< uuid >, bind_characteristic_value< T, &cell >, ... >` -/
structure CharDecl where
  /-- `configured_uuid` -/
  uuid     : Nat
  /-- identity of the bound variable (`value_impl::is_this( p )` is `p == &cell`) -/
  cell     : Nat
  /-- `sizeof( T )` -/
  size     : Nat
  /-- `value_type::has_read_access` (no `no_read_access` option) -/
  readable : Bool
  /-- `value_type::has_notification` -/
  notify   : Bool
  /-- `value_type::has_indication` -/
  indicate : Bool
  /-- number of attributes behind the CCCD (user description, descriptors) -/
  extra    : Nat
deriving Repr, DecidableEq, Inhabited

/-- `number_of_client_configs != 0` -/
def CharDecl.hasCccd (c : CharDecl) : Bool := c.notify || c.indicate

/-- `characteristic::number_of_attributes` -/
def CharDecl.nAttrs (c : CharDecl) : Nat := 2 + (if c.hasCccd then 1 else 0) + c.extra

structure ServiceDecl where
  uuid      : Nat
  /-- `number_of_service_attributes` (1 + number of includes) -/
  nSvcAttrs : Nat
  chars     : List CharDecl
  /-- the characteristic UUIDs of the service's `higher_outgoing_priority< ... >` -/
  prio      : List Nat
deriving Repr, DecidableEq, Inhabited

structure ServerDecl where
  /-- `server::services`: the declared services followed by the GAP service -/
  services : List ServiceDecl
  /-- the service UUIDs of the server's `higher_outgoing_priority< ... >` -/
  prio     : List Nat
  /-- `max_mtu_size<>` (23 if absent) -/
  mtu      : Nat
  /-- `handle_mapping::handle_by_index( i )` for every attribute index `i` -/
  handles  : List Nat
deriving Repr, Inhabited

/-! ## outgoing priorities  (src: bluetoe/outgoing_priority.hpp) -/

-- src: meta_tools.hpp:index_of (position of the first match, `sizeof...(Ts)` if absent)
def indexOf (x : Nat) : List Nat → Nat
  | [] => 0
  | y :: ys => if x = y then 0 else indexOf x ys + 1

/-- `service::number_of_client_configs` -/
def ServiceDecl.nCccd (s : ServiceDecl) : Nat := (s.chars.filter CharDecl.hasCccd).length

-- src: details::number_of_additional_priorities< Services, ServiceUUID >
-- (a UUID that names no service does not compile; the model answers 0)
def additionalPrios (svcs : List ServiceDecl) (u : Nat) : Nat :=
  match svcs.find? (fun s => s.uuid == u) with
  | none => 0
  | some s =>
    let size := s.prio.length
    let withDefault := if size = s.nCccd then size else size + 1
    if withDefault = 0 then 1 else withDefault

-- src: higher_outgoing_priority::service_base_priority (fold over the server's UUID list).
-- `optional_sum_prio::sum` is `found ? prio : number_of_additional_priorities< U >` — despite its
-- name the fold does not add up: the base priority is the number of priorities of the *last*
-- UUID in front of the service (of the last UUID of the list for a service that is not named)
def serviceBasePrio (svcs : List ServiceDecl) (prio : List Nat) (su : Nat) : Nat :=
  (prio.foldl (fun (acc : Bool × Nat) u =>
      let found := acc.1 || u == su
      (found, if found then acc.2 else additionalPrios svcs u)) (false, 0)).2

-- src: higher_outgoing_priority::expand_shared_priorities folded over all services
def sharedPrios (svcs : List ServiceDecl) (prio : List Nat) : Nat :=
  svcs.foldl (fun sum s => if indexOf s.uuid prio = prio.length then max s.prio.length sum else sum) 0

-- src: higher_outgoing_priority::characteristic_position (instantiated for the service's list)
def charPosition (s : ServiceDecl) (c : CharDecl) (within : Bool) (shared : Nat) : Nat :=
  let pos := indexOf c.uuid s.prio
  if within then pos else pos + shared - s.prio.length

-- src: higher_outgoing_priority::characteristic_priority (instantiated for the server's list)
def charPrio (d : ServerDecl) (s : ServiceDecl) (c : CharDecl) : Nat :=
  serviceBasePrio d.services d.prio s.uuid +
    charPosition s c (indexOf s.uuid d.prio != d.prio.length) (sharedPrios d.services d.prio)

/-! ## find_notification_data_in_list  (src: bluetoe/find_notification_data.hpp) -/

/-- `impl::characteristic_with_service_attribute_offset` -/
structure WithOffset where
  char   : CharDecl
  offset : Nat
  prio   : Nat
deriving Repr, DecidableEq, Inhabited

/-- `impl::characteristic_index_pair` (+ `cccd_position` once `add_cccd_position` ran) -/
structure Entry where
  char    : CharDecl
  /-- `first_attribute_index`: index of the characteristic declaration attribute -/
  first   : Nat
  prio    : Nat
  cccdPos : Nat
deriving Repr, DecidableEq, Inhabited

/-- the characteristics of one service with `offset` attached to the first one -/
def offsetChars (prioOf : CharDecl → Nat) (offset : Nat) : List CharDecl → List WithOffset
  | [] => []
  | c :: cs => ⟨c, offset, prioOf c⟩ :: cs.map fun c' => ⟨c', 0, prioOf c'⟩

-- src: find_notification_data_in_list::characteristics_from_service (fold step; the accumulator
-- is the pair of the characteristics so far and the attributes of directly preceding services
-- without characteristics — fixes/attnotify-02)
def charsFromService (d : ServerDecl) (acc : List WithOffset × Nat) (s : ServiceDecl) : List WithOffset × Nat :=
  let off := acc.2 + s.nSvcAttrs
  (acc.1 ++ offsetChars (charPrio d s) off s.chars, if s.chars.isEmpty then off else 0)

/-- the code before fixes/attnotify-02: a service without characteristics contributes nothing -/
def charsFromServiceOld (d : ServerDecl) (acc : List WithOffset × Nat) (s : ServiceDecl) : List WithOffset × Nat :=
  (acc.1 ++ offsetChars (charPrio d s) s.nSvcAttrs s.chars, 0)

-- src: find_notification_data_in_list::all_characteristics
def allWithOffset (d : ServerDecl) : List WithOffset := (d.services.foldl (charsFromService d) ([], 0)).1
def allWithOffsetOld (d : ServerDecl) : List WithOffset := (d.services.foldl (charsFromServiceOld d) ([], 0)).1

-- src: impl::add_index_to_characteristic (`last_type< Characteristics, pair< preudo_first_char, 0, 0 > >`)
def addIndex (acc : List Entry) (w : WithOffset) : List Entry :=
  let base := match acc.getLast? with
    | none => 0
    | some l => l.first + l.char.nAttrs
  acc ++ [⟨w.char, base + w.offset, w.prio, 0⟩]

-- src: characteristics_with_attribute_indizes
def withIndicesOf (ws : List WithOffset) : List Entry := ws.foldl addIndex []
def withIndices (d : ServerDecl) : List Entry := withIndicesOf (allWithOffset d)

/-- `impl::add_cccd_position`: the position in the list so far -/
def number (k : Nat) : List Entry → List Entry
  | [] => []
  | e :: es => { e with cccdPos := k } :: number (k + 1) es

-- src: characteristics_only_with_cccd, characteristics_with_cccd_position
def withCccdPositionOf (es : List Entry) : List Entry := number 0 (es.filter fun e => e.char.hasCccd)
def withCccdPosition (d : ServerDecl) : List Entry := withCccdPositionOf (withIndices d)

-- src: meta_tools.hpp:stable_insert with impl::order_by_prio (`A::priority < B::priority`)
def stableInsert (t : Entry) : List Entry → List Entry
  | [] => [t]
  | f :: ts => if f.prio < t.prio then f :: stableInsert t ts else t :: f :: ts

-- src: meta_tools.hpp:stable_sort
def stableSort : List Entry → List Entry
  | [] => []
  | t :: ts => stableInsert t (stableSort ts)

-- src: characteristics_sorted_by_priority; `cccd_handle` of `characteristics_with_cccd_handle` is
-- the position in this list
def sorted (d : ServerDecl) : List Entry := stableSort (withCccdPosition d)
def sortedOld (d : ServerDecl) : List Entry := stableSort (withCccdPositionOf (withIndicesOf (allWithOffsetOld d)))

-- src: find_notification_data_in_list::cccd_indices
def cccdIndices (d : ServerDecl) : List Nat := (sorted d).map Entry.cccdPos

/-- `notification_data( value_attribute_table_index, client_characteristic_configuration_index )` -/
structure NotifData where
  attrIndex : Nat
  cccdIndex : Nat
deriving Repr, DecidableEq, Inhabited

-- src: find_notification_data_in_list::find_notification_data_by_index (`impl::attribute_at`: an
-- index behind the list leaves `attribute_index = 0`)
def findByIndexIn (l : List Entry) (i : Nat) : NotifData :=
  match l[i]? with
  | some e => ⟨e.first + 1, i⟩
  | none => ⟨0 + 1, i⟩
def findByIndex (d : ServerDecl) (i : Nat) : NotifData := findByIndexIn (sorted d) i

/-- the `for_<>::each( attribute_value )` loop: the last characteristic bound to `cell` wins;
    `k` is the `cccd_handle` of the head of the list -/
def valueLoop (cell : Nat) : List Entry → Nat → Option NotifData → Option NotifData
  | [], _, r => r
  | e :: es, k, r => valueLoop cell es (k + 1) (if e.char.cell = cell then some ⟨e.first + 1, k⟩ else r)

-- src: find_notification_data_in_list::find_notification_data( value ) after fixes/attnotify-01
-- (`none` = an invalid notification_data, `assert( data.valid() )` fails)
def findByValue (d : ServerDecl) (cell : Nat) : Option NotifData := valueLoop cell (sorted d) 0 none

/-- before the fix: iterates `characteristics_only_with_cccd` (declaration order) and counts -/
def findByValueOld (d : ServerDecl) (cell : Nat) : Option NotifData := valueLoop cell (withCccdPosition d) 0 none

/-- all characteristics of the server in declaration order -/
def allChars (d : ServerDecl) : List CharDecl := d.services.flatMap ServiceDecl.chars

-- src: attribute.hpp:find_characteristic_data_by_uuid_in_service_list (first match)
def findCharByUuid (d : ServerDecl) (u : Nat) : Option CharDecl := (allChars d).find? fun c => c.uuid == u

/-- `find_if< characteristics_with_cccd_handle, equal_char >`: first entry of the same type -/
def typeLoop (c : CharDecl) : List Entry → Nat → Option NotifData
  | [], _ => none
  | e :: es, k => if e.char = c then some ⟨e.first + 1, k⟩ else typeLoop c es (k + 1)

-- src: find_notification_by_uuid< Priorities, Services, Characteristic >::data
def findByType (d : ServerDecl) (c : CharDecl) : Option NotifData := typeLoop c (sorted d) 0

-- src: characteristic.hpp: CCCD attribute, `index_of< ClientCharacteristicIndex, CCCDIndices >`
def cccdFlagIndex (d : ServerDecl) (p : Nat) : Nat := indexOf p (cccdIndices d)

-- src: details::add_prio< Numbers, Prio >
def addPrio : List Nat → Nat → List Nat
  | [], 0 => [1]
  | n :: ns, 0 => (n + 1) :: ns
  | [], p + 1 => 0 :: addPrio [] p
  | n :: ns, p + 1 => n :: addPrio ns p

-- src: higher_outgoing_priority::numbers< Services > (sizes of the queue's priority levels)
def numbers (d : ServerDecl) : List Nat := (withCccdPosition d).foldl (fun acc e => addPrio acc e.prio) []

/-! ## the attribute table layout (what `server::attribute_at( index )` dispatches on)

  src: server.hpp:server::attribute_at / service.hpp:service::attribute_at /
  attribute_at_list: the services one after the other, in every service
  `number_of_service_attributes` attributes followed by the characteristics, each
  `[declaration, value, CCCD?, further descriptors]`. -/

def layoutChars (start : Nat) : List CharDecl → List (CharDecl × Nat)
  | [] => []
  | c :: cs => (c, start) :: layoutChars (start + c.nAttrs) cs

def charsAttrs : List CharDecl → Nat
  | [] => 0
  | c :: cs => c.nAttrs + charsAttrs cs

/-- `service::number_of_attributes` -/
def ServiceDecl.nAttrs (s : ServiceDecl) : Nat := s.nSvcAttrs + charsAttrs s.chars

/-- every characteristic with the index of its declaration attribute -/
def layoutServices (start : Nat) : List ServiceDecl → List (CharDecl × Nat)
  | [] => []
  | s :: ss => layoutChars (start + s.nSvcAttrs) s.chars ++ layoutServices (start + s.nAttrs) ss

def attrLayout (d : ServerDecl) : List (CharDecl × Nat) := layoutServices 0 d.services

/-- the characteristic whose value attribute has index `idx` -/
def valueAttrAt (d : ServerDecl) (idx : Nat) : Option CharDecl :=
  ((attrLayout d).find? fun p => p.2 + 1 == idx).map Prod.fst

/-! ## little endian, memory -/

def lo (n : Nat) : UInt8 := UInt8.ofNat (n % 256)
def hi (n : Nat) : UInt8 := UInt8.ofNat ((n / 256) % 256)
-- src: bits.hpp:write_handle
def le16 (n : Nat) : Bytes := [lo n, hi n]

/-! ## connections and the server state -/

/-- per connection: `client_characteristic_configurations<>` (2 bits per CCCD, indexed by the
    CCCD flag index), the notification queue, `client_mtu_` -/
structure Conn where
  cccd      : List Nat
  queue     : Spec
  clientMtu : Nat
deriving Repr, DecidableEq

structure State where
  /-- memory of the bound variables, by cell -/
  cells : List Bytes
  conns : List Conn
deriving Repr, DecidableEq

def Conn.init (d : ServerDecl) : Conn :=
  { cccd := List.replicate (withCccdPosition d).length 0, queue := Spec.init (numbers d), clientMtu := 23 }

def State.init (d : ServerDecl) (cells : List Bytes) (nConns : Nat) : State :=
  { cells := cells, conns := List.replicate nConns (Conn.init d) }

inductive Req where
  | byValue (cell : Nat)     -- `server.notify( value )` / `server.indicate( value )`
  | byUuid (uuid : Nat)      -- `server.notify< UUID >()` / `server.indicate< UUID >()`
deriving Repr, DecidableEq

/-- `has_notification` / `has_indication` -/
def CharDecl.has (c : CharDecl) : Kind → Bool
  | .notification => c.notify
  | .indication => c.indicate

-- src: server.hpp:server::notify( const T& ), notify< UUID >(), indicate( const T& ), indicate< UUID >()
-- up to the call of the link layer's callback; `none` = `assert( data.valid() )` fails / one of
-- the `static_assert`s fails (the call does not compile).  The by-value variants do not look at
-- `has_notification` / `has_indication`.
def lookup (d : ServerDecl) : Req → Kind → Option NotifData
  | .byValue cell, _ => findByValue d cell
  | .byUuid u, k =>
    match findCharByUuid d u with
    | none => none
    | some c => if c.has k then findByType d c else none

inductive Out where
  | bool (b : Bool)
  | pdu (p : Bytes)
  | ok
  | nat (n : Nat)
  | bad            -- op refused (does not compile / precondition of the op violated)
  | oob            -- the C++ would index behind an array
deriving Repr, DecidableEq

def setConn (st : State) (c : Nat) (conn : Conn) : State := { st with conns := st.conns.set c conn }

-- src: link_layer.hpp:queue_lcap_notification → `connection.queue_notification / queue_indication(
-- item.client_characteristic_configuration_index() )`
def queueRequest (conn : Conn) (nd : NotifData) (k : Kind) : Conn × Out :=
  match conn.queue.step (.queue k nd.cccdIndex) with
  | (q, .bool r) => ({ conn with queue := q }, .bool r)
  | (_, _) => (conn, .oob)

/-- `server.notify / indicate` on connection `c` (the callback of that connection's link layer) -/
def request (d : ServerDecl) (st : State) (c : Nat) (req : Req) (k : Kind) : State × Out :=
  match st.conns[c]?, lookup d req k with
  | some conn, some nd => let (conn', o) := queueRequest conn nd k; (setConn st c conn', o)
  | _, _ => (st, .bad)

-- src: attribute.hpp:attribute_value_read_access with offset 0 (`none` = reads behind the variable)
def readMem (m : Bytes) (size bufSize : Nat) : Option Bytes :=
  let n := min bufSize size
  if n ≤ m.length then some (m.take n) else none

/-- opcode of the Handle Value Notification / Indication -/
def opcodeOf : Kind → UInt8
  | .notification => 0x1B
  | .indication => 0x1D

inductive Access where
  | success (data : Bytes)
  | error              -- `rc != success` (read_not_permitted, not a value attribute, ...)
  | oob
deriving Repr, DecidableEq

-- src: `attribute_at( index ).access( read, index )` for a read with offset 0 into a buffer of
-- `bufSize` bytes; only value attributes of bound values answer `success`
def readValueAttr (d : ServerDecl) (cells : List Bytes) (idx : Nat) (bufSize : Nat) : Access :=
  match valueAttrAt d idx with
  | none => .error
  | some ch =>
    if ch.readable then
      match cells[ch.cell]? with
      | none => .oob
      | some m => match readMem m ch.size bufSize with
        | some v => .success v
        | none => .oob
    else .error

/-- what `l2cap_output` does with the queue when a dequeued entry of kind `k` is NOT transmitted
    (client not subscribed, `out_size < 3`, read access refused) — fixes/attnotify-03:
    `if ( pending.first == indication ) connection.indication_confirmed();`, nothing for a
    notification (an outstanding confirmation of an earlier, transmitted indication stays) -/
def unsentQueue (k : Kind) (q : Spec) : Spec :=
  if k = .indication then (q.step .conf).1 else q

/-- before fixes/attnotify-03: the "indication outstanding" marker set by the dequeue stays -/
def unsentQueueOld (_ : Kind) (q : Spec) : Spec := q

-- src: server.hpp:server::l2cap_output (after fixes/attaccess-01: clipped to the negotiated MTU;
-- `unsent` = treatment of a dequeued but not transmitted entry, see `unsentQueue`)
def l2capOutputGen (unsent : Kind → Spec → Spec) (d : ServerDecl) (st : State) (c : Nat) (size : Nat) : State × Out :=
  match st.conns[c]? with
  | none => (st, .bad)
  | some conn =>
    let outSize := min size (min d.mtu conn.clientMtu)
    match conn.queue.step .deq with
    | (q, .entry none) => (setConn st c { conn with queue := q }, .pdu [])
    | (q, .entry (some (k, i))) =>
      let st' := setConn st c { conn with queue := q }
      let stUnsent := setConn st c { conn with queue := unsent k q }
      let data := findByIndex d i
      match conn.cccd[data.cccdIndex]? with
      | none => (st', .oob)
      | some flags =>
        if flags &&& k.bit ≠ 0 ∧ 3 ≤ outSize then
          match readValueAttr d st.cells data.attrIndex (outSize - 3), d.handles[data.attrIndex]? with
          | .success v, some h => (st', .pdu (opcodeOf k :: (le16 h ++ v)))
          | .error, _ => (stUnsent, .pdu [])
          | _, _ => (st', .oob)
        else (stUnsent, .pdu [])
    | (_, _) => (st, .oob)

def l2capOutput (d : ServerDecl) (st : State) (c : Nat) (size : Nat) : State × Out :=
  l2capOutputGen unsentQueue d st c size

/-- the code before fixes/attnotify-03 -/
def l2capOutputOld (d : ServerDecl) (st : State) (c : Nat) (size : Nat) : State × Out :=
  l2capOutputGen unsentQueueOld d st c size

/-- Write Request `v` to the CCCD of the characteristic with `cccd_position` `p` (declaration
    order); src: characteristic.hpp CCCD attribute `access` (write, offset 0, 2 bytes) and
    client_characteristic_configuration::flags( index, value ) (2 bits are stored) -/
def subscribe (d : ServerDecl) (st : State) (c : Nat) (p : Nat) (v : Nat) : State × Out :=
  match st.conns[c]? with
  | none => (st, .bad)
  | some conn =>
    let i := cccdFlagIndex d p
    if p < (withCccdPosition d).length then
      if i < conn.cccd.length then (setConn st c { conn with cccd := conn.cccd.set i (v &&& 3) }, .ok)
      else (st, .oob)
    else (st, .bad)

-- src: server.hpp:handle_exchange_mtu_request (valid request, client MTU >= 23)
def exchangeMtu (d : ServerDecl) (st : State) (c : Nat) (m : Nat) : State × Out :=
  match st.conns[c]? with
  | none => (st, .bad)
  | some conn => if 23 ≤ m then (setConn st c { conn with clientMtu := m }, .nat (min d.mtu m)) else (st, .bad)

-- src: server.hpp:handle_value_confirmation → callback( confirmation ) → indication_confirmed()
def confirm (st : State) (c : Nat) : State × Out :=
  match st.conns[c]? with
  | none => (st, .bad)
  | some conn => (setConn st c { conn with queue := (conn.queue.step .conf).1 }, .ok)

inductive Op where
  | request (c : Nat) (r : Req) (k : Kind)
  | output (c : Nat) (size : Nat)
  | subscribe (c : Nat) (p : Nat) (v : Nat)
  | mtu (c : Nat) (m : Nat)
  | confirm (c : Nat)
  | setCell (cell : Nat) (v : Bytes)
deriving Repr, DecidableEq

def step (d : ServerDecl) (st : State) : Op → State × Out
  | .request c r k => request d st c r k
  | .output c size => l2capOutput d st c size
  | .subscribe c p v => subscribe d st c p v
  | .mtu c m => exchangeMtu d st c m
  | .confirm c => confirm st c
  | .setCell cell v =>
    match st.cells[cell]? with
    | some old => if old.length = v.length then ({ st with cells := st.cells.set cell v }, .ok) else (st, .bad)
    | none => (st, .bad)

/-- `step` with the `l2cap_output` before fixes/attnotify-03 (witness theorems only) -/
def stepOld (d : ServerDecl) (st : State) : Op → State × Out
  | .output c size => l2capOutputOld d st c size
  | op => step d st op

def run (d : ServerDecl) (st : State) : List Op → State × List Out
  | [] => (st, [])
  | op :: ops =>
    let (st', o) := step d st op
    let (st'', os) := run d st' ops
    (st'', o :: os)

end BluetoeModel.AttNotify
