import BluetoeModel.Cccd.Model
/-! helper lemmas: 2-bit packing on bytes, positions, CCCD access -/
namespace BluetoeModel.Cccd

/-! ### one byte: four 2-bit fields -/

theorem getBits_setBits (b v : UInt8) (k k' : Nat) (hk : k < 4) (hk' : k' < 4) :
    getBits (setBits b k v) k' = if k = k' then v &&& 3 else getBits b k' := by
  have h : k = 0 ∨ k = 1 ∨ k = 2 ∨ k = 3 := by omega
  have h' : k' = 0 ∨ k' = 1 ∨ k' = 2 ∨ k' = 3 := by omega
  rcases h with rfl | rfl | rfl | rfl <;> rcases h' with rfl | rfl | rfl | rfl <;>
    simp only [getBits, setBits] <;> rw [← UInt8.toBitVec_inj] <;> simp <;>
    ext j hj <;>
    (have hj' : j = 0 ∨ j = 1 ∨ j = 2 ∨ j = 3 ∨ j = 4 ∨ j = 5 ∨ j = 6 ∨ j = 7 := by omega) <;>
    rcases hj' with rfl | rfl | rfl | rfl | rfl | rfl | rfl | rfl <;> simp

theorem setBits_getBits (b : UInt8) (k : Nat) (hk : k < 4) : setBits b k (getBits b k) = b := by
  have h : k = 0 ∨ k = 1 ∨ k = 2 ∨ k = 3 := by omega
  rcases h with rfl | rfl | rfl | rfl <;>
    simp only [getBits, setBits] <;> rw [← UInt8.toBitVec_inj] <;> simp <;>
    ext j hj <;>
    (have hj' : j = 0 ∨ j = 1 ∨ j = 2 ∨ j = 3 ∨ j = 4 ∨ j = 5 ∨ j = 6 ∨ j = 7 := by omega) <;>
    rcases hj' with rfl | rfl | rfl | rfl | rfl | rfl | rfl | rfl <;> simp

theorem getBits_and3 (b : UInt8) (k : Nat) : getBits b k &&& 3 = getBits b k := by
  simp only [getBits]
  rw [← UInt8.toBitVec_inj]
  simp [BitVec.and_assoc]

theorem ofNat_read16 (lo hi : UInt8) : UInt8.ofNat (read16 lo hi) = lo := by
  apply UInt8.toNat_inj.mp
  simp only [read16, UInt8.toNat_ofNat']
  have := lo.toNat_lt
  omega

/-! ### the configuration array -/

theorem setFlags?_length {d d' : Config} {i v : Nat} (h : setFlags? d i v = some d') :
    d'.length = d.length := by
  unfold setFlags? at h
  split at h
  · contradiction
  · cases h; simp

theorem flags?_isSome {d : Config} {i : Nat} (h : i / 4 < d.length) : (flags? d i).isSome := by
  unfold flags?
  rw [List.getElem?_eq_getElem h]; rfl

theorem setFlags?_isSome {d : Config} {i v : Nat} (h : i / 4 < d.length) : (setFlags? d i v).isSome := by
  unfold setFlags?
  rw [List.getElem?_eq_getElem h]; rfl

/-- the packing is exact: reading configuration `j` after writing `v` to configuration `i` gives
    the two low bits of `v` for `j = i` and the old value for every other `j` -/
theorem flags?_setFlags? {d d' : Config} {i v : Nat} (h : setFlags? d i v = some d') (j : Nat) :
    flags? d' j = if i = j then some (UInt8.ofNat v &&& 3) else flags? d j := by
  unfold setFlags? at h
  split at h
  · contradiction
  · rename_i b hb
    cases h
    have hi : i / 4 < d.length := by
      rcases List.getElem?_eq_some_iff.mp hb with ⟨hlt, _⟩; exact hlt
    unfold flags?
    by_cases hq : i / 4 = j / 4
    · rw [← hq, List.getElem?_set_self hi, hb]
      simp only []
      rw [getBits_setBits _ _ _ _ (Nat.mod_lt _ (by decide)) (Nat.mod_lt _ (by decide))]
      have : (i % 4 = j % 4) ↔ i = j := by omega
      by_cases hij : i = j
      · simp [hij]
      · have : ¬ i % 4 = j % 4 := fun e => hij (this.mp e)
        simp [hij, this]
    · have hij : i ≠ j := fun e => hq (by rw [e])
      rw [List.getElem?_set_ne hq]
      simp [hij]

theorem setFlags?_same {d : Config} {i : Nat} {f : UInt8} (h : flags? d i = some f) :
    setFlags? d i f.toNat = some d := by
  unfold flags? at h
  unfold setFlags?
  split at h
  · contradiction
  · rename_i b hb
    cases h
    simp only [UInt8.ofNat_toNat, setBits_getBits _ _ (Nat.mod_lt _ (by decide : 4 > 0))]
    rcases List.getElem?_eq_some_iff.mp hb with ⟨hlt, hget⟩
    congr 1
    apply List.ext_getElem (by simp)
    intro n h1 h2
    by_cases hn : i / 4 = n
    · subst hn; simp [hget]
    · simp [List.getElem_set_ne hn]

end BluetoeModel.Cccd
