import BluetoeModel.Cccd.Model
/-! the priority sort only permutes the CCCD positions -/
namespace BluetoeModel.Cccd

theorem insertByPrio_perm (x : Nat × Int) (l : List (Nat × Int)) : (insertByPrio x l).Perm (x :: l) := by
  induction l with
  | nil => exact List.Perm.refl _
  | cons y ys ih =>
    simp only [insertByPrio]
    split
    · exact List.Perm.refl _
    · exact (List.Perm.cons y ih).trans (List.Perm.swap x y ys)

theorem foldl_insert_perm (l acc : List (Nat × Int)) :
    (l.foldl (fun acc x => insertByPrio x acc) acc).Perm (l ++ acc) := by
  induction l generalizing acc with
  | nil => exact List.Perm.refl _
  | cons x xs ih =>
    simp only [List.foldl_cons, List.cons_append]
    exact (ih _).trans ((List.Perm.append_left xs (insertByPrio_perm x acc)).trans List.perm_middle)

theorem sortByPrio_perm (l : List (Nat × Int)) : (sortByPrio l).Perm l := by
  have := foldl_insert_perm l []
  simpa [sortByPrio] using this

theorem cccdIndices_perm (prios : List Int) : (cccdIndices prios).Perm (List.range prios.length) := by
  unfold cccdIndices
  have h := (sortByPrio_perm ((List.range prios.length).zip prios)).map (·.1)
  rw [List.map_fst_zip (by simp)] at h
  exact h

theorem idxOf_eq_imp {l : List Nat} {i j : Nat} (hi : i ∈ l) (h : l.idxOf i = l.idxOf j) : i = j := by
  induction l with
  | nil => cases hi
  | cons x xs ih =>
    simp only [List.idxOf_cons] at h
    by_cases hxi : x = i
    · subst hxi
      by_cases hxj : x = j
      · exact hxj
      · have h2 : (x == j) = false := by simpa using hxj
        simp [h2] at h
    · have h1 : (x == i) = false := by simpa using hxi
      by_cases hxj : x = j
      · subst hxj
        simp [h1] at h
      · have h2 : (x == j) = false := by simpa using hxj
        simp only [h1, h2, cond_false, Nat.add_right_cancel_iff] at h
        cases hi with
        | head => exact absurd rfl hxi
        | tail _ h' => exact ih h' h

theorem idxOf_lt_of_mem {l : List Nat} {i : Nat} (hi : i ∈ l) : l.idxOf i < l.length := by
  induction l with
  | nil => cases hi
  | cons x xs ih =>
    simp only [List.idxOf_cons, List.length_cons]
    by_cases hxi : x = i
    · subst hxi; simp
    · have h1 : (x == i) = false := by simpa using hxi
      simp only [h1, cond_false]
      cases hi with
      | head => exact absurd rfl hxi
      | tail _ h' => exact Nat.succ_lt_succ (ih h')

/-- **cccd_positions_distinct**: whatever the priorities are, different characteristics get
    different configuration slots, all inside the per connection array -/
theorem cccd_positions_distinct (prios : List Int) (i j : Nat) (hi : i < prios.length)
    (hij : i ≠ j) :
    cccdPosition (cccdIndices prios) i ≠ cccdPosition (cccdIndices prios) j ∧
    cccdPosition (cccdIndices prios) i < prios.length := by
  have hp := cccdIndices_perm prios
  have hmem : i ∈ cccdIndices prios := hp.mem_iff.mpr (List.mem_range.mpr hi)
  constructor
  · intro h
    exact hij (idxOf_eq_imp hmem h)
  · have := idxOf_lt_of_mem hmem
    rw [hp.length_eq, List.length_range] at this
    exact this

/-- non-vacuity / the C5P server of the harness: priorities 2,1,2,0,2 put characteristic 3 first -/
example : cccdIndices [2, 1, 2, 0, 2] = [3, 1, 0, 2, 4] := by decide
example : (List.range 5).map (cccdPosition (cccdIndices [2, 1, 2, 0, 2])) = [2, 1, 3, 0, 4] := by decide

end BluetoeModel.Cccd
