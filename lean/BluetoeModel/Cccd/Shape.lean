import BluetoeModel.Cccd.Lemmas
/-!
  Well-formedness of a server table (`declWF`, decidable, evaluated by the drivers on every real
  table) and the shape invariant that makes the model's out-of-bounds results (`none` of the access
  functions, `Out.oob` of the handlers) unreachable:

  * every bound value `mem[idx]` exists and has `sizeof( T ) = size` bytes (writes replace bytes
    in place, so the *lengths* of all values are constant),
  * every connection's configuration array has `(nCccd * 2 + 7) / 8` bytes and every CCCD
    position is `< nCccd` (so `position / 4` is inside the array),
  * MTUs are ≥ 23 (`negotiatedMtu - 1` is never a truncated subtraction).
-/
namespace BluetoeModel.Cccd

/-- `sizeof( configs_ )` of `client_characteristic_configurations< n >` -/
def cfgLen (n : Nat) : Nat := (n * 2 + 7) / 8

/-- what the C++ types guarantee for one attribute: a bound value refers to an object of
    `size` bytes; a CCCD position (`index_of< …, cccd_indices >`) is one of the `n` configurations -/
def attrOk (n : Nat) (mem : Mem) : Attr → Bool
  | .value idx size _ _ _ => (mem[idx]?).map List.length == some size
  | .cccd pos _ => decide (pos < n)
  | _ => true

/-- **the well-formedness precondition on a server table** (with the bound variables `mem`):
    every attribute is `attrOk`, `max_mtu_size ≥ 23` (static_assert in server.hpp), the write
    queue size is a `std::uint16_t` (template parameter type of `shared_write_queue`) -/
def declWF (d : Decl) (mem : Mem) : Bool :=
  d.attrs.all (attrOk d.nCccd mem) && decide (23 ≤ d.serverMtu) &&
    (match d.queueSize with | none => true | some S => decide (S < 65536))

/-- what an access to the attribute really needs (the weakest condition): a value that can be
    read or written refers to an object of `size` bytes (an attribute that is neither readable nor
    writable never touches its object); `position / 4` is inside `configs_` -/
def attrSafe (n : Nat) (mem : Mem) : Attr → Bool
  | .value idx size r w _ => !(r || w) || ((mem[idx]?).map List.length == some size)
  | .cccd pos _ => decide (pos / 4 < cfgLen n)
  | _ => true

theorem attrSafe_of_attrOk {n : Nat} {mem : Mem} {a : Attr} (h : attrOk n mem a = true) : attrSafe n mem a = true := by
  cases a with
  | value idx size r w e => simp only [attrOk] at h; simp [attrSafe, h]
  | cccd pos e =>
    simp only [attrOk, decide_eq_true_eq] at h
    exact decide_eq_true (by unfold cfgLen; omega)
  | _ => rfl

/-- what holds for every connection object -/
def connOk (n : Nat) (c : Conn) : Prop := c.cfg.length = cfgLen n ∧ 23 ≤ c.clientMtu

/-- the shape invariant of a server state -/
structure Shape (s : State) : Prop where
  attrs : s.decl.attrs.all (attrSafe s.decl.nCccd s.mem) = true
  conns : ∀ c ∈ s.conns, connOk s.decl.nCccd c
  mtu   : 23 ≤ s.decl.serverMtu

theorem attrSafe_congr {n : Nat} {mem mem' : Mem} (h : mem'.map List.length = mem.map List.length)
    (a : Attr) : attrSafe n mem' a = attrSafe n mem a := by
  cases a with
  | value idx size r w e =>
    simp only [attrSafe]
    rw [← List.getElem?_map, ← List.getElem?_map, h]
  | _ => rfl

theorem attrsSafe_congr {n : Nat} {mem mem' : Mem} (h : mem'.map List.length = mem.map List.length)
    (l : List Attr) : l.all (attrSafe n mem') = l.all (attrSafe n mem) := by
  induction l with
  | nil => rfl
  | cons a t ih => simp only [List.all_cons, ih, attrSafe_congr h]

theorem attrAt?_mem {d : Decl} {h : Nat} {a : Attr} (ha : attrAt? d h = some a) : a ∈ d.attrs := by
  unfold attrAt? at ha
  split at ha
  · contradiction
  · exact List.mem_of_getElem? ha

theorem Shape.attrSafe_at {s : State} (hs : Shape s) {h : Nat} {a : Attr} (ha : attrAt? s.decl h = some a) :
    attrSafe s.decl.nCccd s.mem a = true :=
  List.all_eq_true.mp hs.attrs a (attrAt?_mem ha)

theorem Shape.conn_at {s : State} (hs : Shape s) {ci : Nat} {conn : Conn} (hc : s.conns[ci]? = some conn) :
    connOk s.decl.nCccd conn :=
  hs.conns conn (List.mem_of_getElem? hc)

theorem connOk_init (d : Decl) : connOk d.nCccd (Conn.init d) := by
  simp [connOk, Conn.init, Config.init, cfgLen]

theorem flags?_some_of_lt {cfg : Config} {pos n : Nat} (hp : pos / 4 < cfgLen n) (hl : cfg.length = cfgLen n) :
    ∃ f, flags? cfg pos = some f := by
  apply Option.isSome_iff_exists.mp
  apply flags?_isSome
  rw [hl]; exact hp

theorem setFlags?_some_of_lt {cfg : Config} {pos n v : Nat} (hp : pos / 4 < cfgLen n) (hl : cfg.length = cfgLen n) :
    ∃ c', setFlags? cfg pos v = some c' ∧ c'.length = cfgLen n := by
  have : (setFlags? cfg pos v).isSome := by
    apply setFlags?_isSome
    rw [hl]; exact hp
  obtain ⟨c', hc'⟩ := Option.isSome_iff_exists.mp this
  exact ⟨c', hc', by rw [setFlags?_length hc', hl]⟩

theorem value_at {n : Nat} {mem : Mem} {idx size : Nat} {r w e : Bool}
    (h : attrSafe n mem (.value idx size r w e) = true) (hrw : (r || w) = true) :
    ∃ v, mem[idx]? = some v ∧ v.length = size := by
  simp only [attrSafe, hrw, Bool.not_true, Bool.false_or, beq_iff_eq] at h
  cases hm : mem[idx]? with
  | none => rw [hm] at h; simp at h
  | some v => rw [hm] at h; exact ⟨v, rfl, by simpa using h⟩

/-- read access to a value or a CCCD never leaves the object / the configuration array -/
theorem readAccess_isSome {n : Nat} {mem : Mem} {cfg : Config} {sec : Sec} {a : Attr} (off bs : Nat)
    (ha : attrSafe n mem a = true) (hl : cfg.length = cfgLen n) (h1 : a ≠ .ro) (h2 : ∀ l, a ≠ .descr l) :
    (readAccess mem cfg sec a off bs).isSome := by
  cases a with
  | ro => exact absurd rfl h1
  | descr l => exact absurd rfl (h2 l)
  | value idx size r w e =>
    cases r with
    | false =>
      simp only [readAccess]
      split <;> rfl
    | true =>
      obtain ⟨v, hv, hlen⟩ := value_at ha rfl
      simp only [readAccess, hv, hlen, if_true]
      split
      · split <;> rfl
      · rfl
  | cccd pos e =>
    have hp : pos / 4 < cfgLen n := by simpa [attrSafe] using ha
    obtain ⟨f, hf⟩ := flags?_some_of_lt hp hl
    simp only [readAccess, cccdRead, hf]
    split
    · split <;> rfl
    · rfl

theorem set_map_length_self {mem : Mem} {idx : Nat} {v v' : List UInt8} (hv : mem[idx]? = some v)
    (hl : v'.length = v.length) : (mem.set idx v').map List.length = mem.map List.length := by
  rcases List.getElem?_eq_some_iff.mp hv with ⟨hlt, hget⟩
  apply List.ext_getElem (by simp)
  intro k h1 h2
  by_cases hk : idx = k
  · subst hk; simp [hget, hl]
  · simp [List.getElem_set_ne hk]

theorem valueWrite_shape {mem : Mem} {cfg : Config} {idx size : Nat} (off : Nat) (data : List UInt8)
    {v : List UInt8} (hv : mem[idx]? = some v) (hlen : v.length = size) :
    ∃ r, valueWrite mem cfg idx size off data = some r ∧ r.cfg = cfg ∧
      r.mem.map List.length = mem.map List.length := by
  unfold valueWrite
  by_cases h1 : off > size
  · rw [if_pos h1]; exact ⟨_, rfl, rfl, rfl⟩
  · rw [if_neg h1]
    by_cases h2 : data.length + off > size
    · rw [if_pos h2]; exact ⟨_, rfl, rfl, rfl⟩
    · rw [if_neg h2]
      simp only [hv, hlen, if_true]
      refine ⟨_, rfl, rfl, ?_⟩
      apply set_map_length_self hv
      simp only [List.length_append, List.length_take, List.length_drop]
      omega

theorem cccdWrite_shape {n : Nat} {mem : Mem} {cfg : Config} {pos : Nat} (off : Nat) (data : List UInt8)
    (hp : pos / 4 < cfgLen n) (hl : cfg.length = cfgLen n) :
    ∃ r, cccdWrite mem cfg pos off data = some r ∧ r.cfg.length = cfgLen n ∧ r.mem = mem := by
  unfold cccdWrite
  by_cases h1 : off > 2
  · rw [if_pos h1]; exact ⟨_, rfl, hl, rfl⟩
  · rw [if_neg h1]
    by_cases h2 : data.length + off > 2
    · rw [if_pos h2]; exact ⟨_, rfl, hl, rfl⟩
    · rw [if_neg h2]
      by_cases h3 : off = 0
      · rw [if_pos h3]
        obtain ⟨old, hold⟩ := flags?_some_of_lt hp hl
        simp only [hold]
        have hser : ∃ lo hi, data ++ ([old, 0] : List UInt8).drop data.length = [lo, hi] := by
          rcases data with _ | ⟨x, _ | ⟨y, _ | ⟨z, t⟩⟩⟩
          · exact ⟨_, _, rfl⟩
          · exact ⟨_, _, rfl⟩
          · exact ⟨_, _, rfl⟩
          · simp at h2; omega
        obtain ⟨lo, hi, hser⟩ := hser
        rw [hser]
        obtain ⟨c', hc', hl'⟩ := setFlags?_some_of_lt (v := read16 lo hi) hp hl
        obtain ⟨new, hnew⟩ := flags?_some_of_lt hp hl'
        simp only [hc', hnew]
        exact ⟨_, rfl, hl', rfl⟩
      · rw [if_neg h3]; exact ⟨_, rfl, hl, rfl⟩

/-- **write access never leaves the bound object / the configuration array**, keeps the length of
    every value and of the configuration array -/
theorem writeAccess_shape {n : Nat} {mem : Mem} {cfg : Config} (sec : Sec) {a : Attr} (off : Nat)
    (data : List UInt8) (ha : attrSafe n mem a = true) (hl : cfg.length = cfgLen n) :
    ∃ r, writeAccess mem cfg sec a off data = some r ∧ r.cfg.length = cfgLen n ∧
      r.mem.map List.length = mem.map List.length := by
  cases a with
  | ro => exact ⟨_, rfl, hl, rfl⟩
  | descr l =>
    simp only [writeAccess]
    split <;> exact ⟨_, rfl, hl, rfl⟩
  | value idx size r w e =>
    cases w with
    | false =>
      simp only [writeAccess]
      split <;> exact ⟨_, rfl, hl, rfl⟩
    | true =>
      obtain ⟨v, hv, hlen⟩ := value_at ha (by simp)
      simp only [writeAccess]
      split
      · split
        · exact ⟨_, rfl, hl, rfl⟩
        · obtain ⟨r, hr, hc, hm⟩ := valueWrite_shape (cfg := cfg) off data hv hlen
          exact ⟨r, hr, by rw [hc]; exact hl, hm⟩
      · exact ⟨_, rfl, hl, rfl⟩
  | cccd pos e =>
    have hp : pos / 4 < cfgLen n := by simpa [attrSafe] using ha
    simp only [writeAccess]
    split
    · obtain ⟨r, hr, hc, hm⟩ := cccdWrite_shape (mem := mem) off data hp hl
      exact ⟨r, hr, hc, by rw [hm]⟩
    · exact ⟨_, rfl, hl, rfl⟩

/-- replacing the memory by one of the same shape and one connection by a well shaped one -/
theorem Shape.update {s : State} (hs : Shape s) {mem' : Mem} (hm : mem'.map List.length = s.mem.map List.length)
    (ci : Nat) {conn' : Conn} (hc : connOk s.decl.nCccd conn') :
    Shape (setConn { s with mem := mem' } ci conn') := by
  refine ⟨?_, ?_, hs.mtu⟩
  · show s.decl.attrs.all (attrSafe s.decl.nCccd mem') = true
    rw [attrsSafe_congr hm]; exact hs.attrs
  · intro c hmem
    have : c ∈ s.conns.set ci conn' := hmem
    rcases List.mem_or_eq_of_mem_set this with h | h
    · exact hs.conns c h
    · rw [h]; exact hc

theorem Shape.setConn {s : State} (hs : Shape s) (ci : Nat) {conn' : Conn} (hc : connOk s.decl.nCccd conn') :
    Shape (setConn s ci conn') :=
  hs.update (mem' := s.mem) rfl ci hc

theorem handleRead_ne_oob {s : State} (hs : Shape s) {conn : Conn} (hc : connOk s.decl.nCccd conn)
    (op : UInt8) (pdu : List UInt8) (blob : Bool) : handleRead s conn op pdu blob ≠ .oob := by
  unfold handleRead
  simp only []
  split
  · simp
  · split
    · simp
    · simp
    · simp
    · rename_i a h1 h2 ha
      have hok := hs.attrSafe_at ha
      have : ∀ off, (readAccess s.mem conn.cfg conn.sec a off (negotiatedMtu s.decl conn - 1)).isSome :=
        fun off => readAccess_isSome off _ hok hc.1 (by intro e; exact h1 e) (by intro l e; exact h2 l e)
      split
      · rename_i hnone; exact absurd hnone (Option.isSome_iff_ne_none.mp (this _))
      · simp
      · simp

theorem handleWrite_shape {s : State} (hs : Shape s) (ci : Nat) {conn : Conn} (hc : connOk s.decl.nCccd conn)
    (op : UInt8) (pdu : List UInt8) (respond : Bool) :
    Shape (handleWrite s ci conn op pdu respond).1 ∧ (handleWrite s ci conn op pdu respond).2 ≠ .oob := by
  unfold handleWrite
  simp only []
  split
  · rename_i x lo hi data
    split
    · exact ⟨hs, by simp⟩
    · rename_i a ha
      obtain ⟨r, hr, hcl, hml⟩ := writeAccess_shape conn.sec 0 data (hs.attrSafe_at ha) hc.1
      simp only [hr]
      have hsh : Shape (setConn { s with mem := r.mem } ci { conn with cfg := r.cfg }) :=
        hs.update hml ci ⟨hcl, hc.2⟩
      split
      · exact ⟨hsh, by simp⟩
      · exact ⟨hsh, by simp⟩
  · exact ⟨hs, by simp⟩

theorem handlePlain_shape {s : State} (hs : Shape s) (ci : Nat) {conn : Conn} (hc : connOk s.decl.nCccd conn)
    (pdu : List UInt8) :
    Shape (handlePlain s ci conn pdu).1 ∧ (handlePlain s ci conn pdu).2 ≠ .oob := by
  unfold handlePlain
  split
  · exact ⟨hs, by simp⟩
  · split
    · exact ⟨hs, handleRead_ne_oob hs hc _ _ _⟩
    · split
      · exact ⟨hs, handleRead_ne_oob hs hc _ _ _⟩
      · split
        · exact handleWrite_shape hs ci hc _ _ _
        · split
          · exact handleWrite_shape hs ci hc _ _ _
          · exact ⟨hs, by simp⟩

theorem stepConn_shape {s : State} (hs : Shape s) {ci : Nat} {conn : Conn} (hc : connOk s.decl.nCccd conn)
    {op : Op} {r : State × Out} (h : stepConn s ci conn op = some r) : Shape r.1 ∧ r.2 ≠ .oob := by
  cases op with
  | sec c e p =>
    simp only [stepConn] at h; cases h
    exact ⟨hs.setConn ci ⟨hc.1, hc.2⟩, by simp⟩
  | mtu c n =>
    simp only [stepConn] at h
    split at h
    · rename_i hn
      cases h
      exact ⟨hs.setConn ci ⟨hc.1, hn.1⟩, by simp⟩
    · cases h; exact ⟨hs, by simp⟩
  | pdu c b => simp [stepConn] at h
  | disc c => simp [stepConn] at h

/-- one step of a server without write queue keeps the shape and never is out of bounds -/
theorem step_shape {s : State} (hs : Shape s) (op : Op) : Shape (step s op).1 ∧ (step s op).2 ≠ .oob := by
  unfold step
  split
  · exact ⟨hs, by simp⟩
  · rename_i conn hconn
    have hc := hs.conn_at hconn
    split
    · split
      · exact ⟨hs, by simp⟩
      · exact handlePlain_shape hs _ hc _
    · exact ⟨hs, by simp⟩
    · exact ⟨hs.setConn _ (connOk_init s.decl), by simp⟩
    · split
      · rename_i h; exact stepConn_shape hs hc h
      · exact ⟨hs, by simp⟩

theorem shape_init {d : Decl} {mem : Mem} (h : declWF d mem = true) : Shape (State.init d mem) := by
  simp only [declWF, Bool.and_eq_true, decide_eq_true_eq] at h
  refine ⟨List.all_eq_true.mpr (fun a ha => attrSafe_of_attrOk (List.all_eq_true.mp h.1.1 a ha)), ?_, h.1.2⟩
  intro c hc
  have : c = Conn.init d := by
    simp only [State.init] at hc
    exact List.eq_of_mem_replicate hc
  rw [this]; exact connOk_init d

theorem run_shape {s : State} (hs : Shape s) (ops : List Op) :
    Shape (run s ops).1 ∧ Out.oob ∉ (run s ops).2 := by
  induction ops generalizing s with
  | nil => exact ⟨hs, by simp [run]⟩
  | cons op ops ih =>
    obtain ⟨h1, h2⟩ := step_shape hs op
    obtain ⟨h3, h4⟩ := ih h1
    simp only [run]
    refine ⟨h3, ?_⟩
    intro hmem
    rcases List.mem_cons.mp hmem with h | h
    · exact h2 h.symm
    · exact h4 h

end BluetoeModel.Cccd
