import BluetoeModel.Util.Proto
import BluetoeModel.Cccd.Model
/-
  Line protocol pieces shared by the drivers `drv_cccd` and `drv_attwq` (no theorem talks about
  anything in this file).

  reset <name> q=<S|-> mtu=<M> prios=<p,p,…|-> mem=<hex/hex/…> attrs=<tok,tok,…>
     tok:  s | c        service / characteristic declaration (read only)
           u<len>       characteristic user description, strlen = len
           v<idx>.<size>.<r>.<w>.<e>   bound value in mem[idx]; readable, writable, requires encryption
           d<k>.<e>     CCCD of the k-th characteristic with a CCCD in declaration order
-/
namespace BluetoeModel.Cccd
open BluetoeModel.Util

def splitNat (s : String) (sep : String) : Option (List Nat) :=
  (s.splitOn sep).mapM (·.toNat?)

def parseInt (s : String) : Option Int :=
  if s.startsWith "-" then (s.drop 1).toNat?.map (fun n => - (n : Int)) else s.toNat?.map (fun n => (n : Int))

def parseAttr (indices : List Nat) (tok : String) : Option (Attr × Char) :=
  let body := (tok.drop 1).toString
  match tok.toList.head? with
  | some 's' => some (.ro, 's')
  | some 'c' => some (.ro, 'c')
  | some 'u' => body.toNat?.map (fun n => (.descr n, 'u'))
  | some 'v' => match splitNat body "." with
      | some [idx, size, r, w, e] => some (.value idx size (r == 1) (w == 1) (e == 1), 'v')
      | _ => none
  | some 'd' => match splitNat body "." with
      | some [k, e] => some (.cccd (cccdPosition indices k) (e == 1), 'd')
      | _ => none
  | _ => none

def field (ws : List String) (key : String) : Option String :=
  (ws.find? (·.startsWith (key ++ "="))).map (fun w => (w.drop (key.length + 1)).toString)

structure Spec where
  decl  : Decl
  mem   : Mem
  kinds : String
  indices : List Nat
  prios : List Int

def parseSpec (ws : List String) : Option Spec := do
  let q ← field ws "q"
  let queueSize ← if q == "-" then some none else q.toNat?.map some
  let mtu ← (← field ws "mtu").toNat?
  let p ← field ws "prios"
  let prios ← if p == "-" then some [] else (p.splitOn ",").mapM parseInt
  let m ← field ws "mem"
  let mem ← (m.splitOn "/").mapM parseHex
  let indices := cccdIndices prios
  let attrs ← ((← field ws "attrs").splitOn ",").mapM (parseAttr indices)
  pure { decl := { attrs := attrs.map (·.1), serverMtu := mtu, nCccd := prios.length, queueSize := queueSize },
         mem := mem, kinds := String.ofList (attrs.map (·.2)), indices := indices, prios := prios }

def Spec.describe (sp : Spec) : String :=
  s!"ok q={sp.decl.queueSize.getD 0} mtu={sp.decl.serverMtu} cccd={sp.decl.nCccd} kinds={sp.kinds} idx={",".intercalate (sp.indices.map toString)} prios={",".intercalate (sp.prios.map toString)}"

def outStr : Out → String
  | .resp bytes cb => s!"{toHex bytes} cb={cb}"
  | .ok => "ok"
  | .bad => "bad-op"
  | .oob => "MODEL-OOB"
  | .unmodelled => "unmodelled"

def parseOp : List String → Option Op
  | ["sec", c, e, p] => do
      let c ← c.toNat?
      let e ← parseBool e
      let p ← p.toNat?
      if p < 4 then pure (.sec c e p) else none
  | ["mtu", c, n] => do pure (.mtu (← c.toNat?) (← n.toNat?))
  | ["pdu", c, h] => do
      let bytes ← parseHex h
      if bytes.isEmpty then none else pure (.pdu (← c.toNat?) bytes)
  | ["disc", c] => do pure (.disc (← c.toNat?))
  | _ => none

def memStr (s : State) : String :=
  "/".intercalate (s.mem.map toHex) ++ " | " ++ " ".intercalate (s.conns.map (fun c => toHex c.cfg))

end BluetoeModel.Cccd
