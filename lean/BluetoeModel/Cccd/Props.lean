import BluetoeModel.Cccd.Lemmas
import BluetoeModel.Cccd.Positions
/-!
  # C09 — Client characteristic configuration is per connection and exact

  "For every characteristic with notify or indicate, each connection reads back exactly the
  notification/indication bits it last wrote to that characteristic's CCCD (other bits are
  dropped), writes to one CCCD never affect another CCCD or another connection, and the
  subscription-changed callback is invoked exactly when the stored value changes."
-/
namespace BluetoeModel.Cccd

/-- **flags_get_set**: the 2-bit packing is exact for every index and every array size: after
    `flags( i, v )`, `flags( j )` is `v & 3` for `j = i` and unchanged for every other `j` -/
theorem flags_get_set (d : Config) (i j v : Nat) (hi : i / 4 < d.length) :
    ∃ d', setFlags? d i v = some d' ∧ d'.length = d.length ∧
      flags? d' j = if i = j then some (UInt8.ofNat v &&& 3) else flags? d j := by
  obtain ⟨d', h⟩ := Option.isSome_iff_exists.mp (setFlags?_isSome (v := v) hi)
  exact ⟨d', h, setFlags?_length h, flags?_setFlags? h j⟩

/-- non-vacuity: configuration 4 lives in the second byte; the stray bits of 0xff are dropped -/
example : setFlags? [0x1b, 0x00] 4 0xff = some [0x1b, 0x03] := by decide
example : flags? [0x1b, 0x03] 1 = some 2 := by decide

/-- **cccd_write_exact**: a write of one or two bytes at offset 0 to a CCCD succeeds, stores
    exactly the two lowest bits of the first byte ("other bits are dropped"), leaves every other
    configuration of the connection and all values alone and reports "changed" iff the stored
    bits differ from the old ones -/
theorem cccd_write_exact (mem : Mem) (cfg : Config) (pos : Nat) (b : UInt8) (rest : List UInt8)
    (hrest : rest.length ≤ 1) (hp : pos / 4 < cfg.length) :
    ∃ r old, cccdWrite mem cfg pos 0 (b :: rest) = some r ∧ flags? cfg pos = some old ∧
      r.rc = .success ∧ r.mem = mem ∧ r.cfg.length = cfg.length ∧
      flags? r.cfg pos = some (b &&& 3) ∧ (∀ j, j ≠ pos → flags? r.cfg j = flags? cfg j) ∧
      (r.cb = true ↔ old ≠ b &&& 3) := by
  obtain ⟨old, hold⟩ := Option.isSome_iff_exists.mp (flags?_isSome hp)
  have hser : ∃ hi, (b :: rest) ++ ([old, 0] : List UInt8).drop (b :: rest).length = [b, hi] := by
    rcases rest with _ | ⟨x, _ | ⟨y, t⟩⟩
    · exact ⟨0, rfl⟩
    · exact ⟨x, rfl⟩
    · simp at hrest
  obtain ⟨hi, hser⟩ := hser
  obtain ⟨cfg', hset⟩ := Option.isSome_iff_exists.mp (setFlags?_isSome (v := read16 b hi) hp)
  have hnew := flags?_setFlags? hset pos
  simp only [if_true, ofNat_read16] at hnew
  refine ⟨⟨.success, mem, cfg', old != (b &&& 3)⟩, old, ?_, hold, rfl, rfl, setFlags?_length hset, hnew, ?_, ?_⟩
  · unfold cccdWrite
    have h1 : ¬ (0 > 2) := by decide
    have h2 : ¬ ((b :: rest).length + 0 > 2) := by simp; omega
    simp only [h1, h2, if_false, if_true, hold, hser, hset, hnew]
  · intro j hj
    have := flags?_setFlags? hset j
    simp only [Ne.symm hj, if_false] at this
    exact this
  · simp

example : (cccdWrite [] [0x00, 0x00] 5 0 [0xfe, 0x01]).map (fun r => (r.rc, r.cfg, r.cb)) = some (.success, [0x00, 0x08], true) := by
  decide

/-- **cccd_read_after_write**: "each connection reads back exactly the notification/indication
    bits it last wrote": after such a write, a read of the same CCCD through the same
    configuration yields `[b & 3, 0]` (clipped to the buffer) -/
theorem cccd_read_after_write (mem : Mem) (cfg : Config) (pos : Nat) (b : UInt8) (rest : List UInt8)
    (hrest : rest.length ≤ 1) (hp : pos / 4 < cfg.length) (n : Nat) :
    ∃ r, cccdWrite mem cfg pos 0 (b :: rest) = some r ∧
      cccdRead r.cfg pos 0 n = some (.success, ([b &&& 3, 0] : List UInt8).take n) := by
  obtain ⟨r, old, hw, _, _, _, _, hf, _, _⟩ := cccd_write_exact mem cfg pos b rest hrest hp
  refine ⟨r, hw, ?_⟩
  have h1 : ¬ (0 > 2) := by decide
  simp only [cccdRead, h1, if_false, hf, List.drop_zero]

/-- **callback_iff_changed**: for every write access to a CCCD (any offset, any length, also the
    rejected ones) `notification_subscription_changed` is called exactly when the stored value
    of that CCCD changed -/
theorem callback_iff_changed (mem : Mem) (cfg : Config) (pos off : Nat) (data : List UInt8) (r : WriteRes)
    (h : cccdWrite mem cfg pos off data = some r) :
    (r.cb = true ↔ flags? r.cfg pos ≠ flags? cfg pos) := by
  unfold cccdWrite at h
  split at h
  · cases h; simp
  · split at h
    · cases h; simp
    · split at h
      · split at h
        · contradiction
        · rename_i old hold
          split at h
          · split at h
            · contradiction
            · rename_i cfg' hset
              split at h
              · contradiction
              · rename_i new hnew
                cases h
                simp only [hold, hnew, bne_iff_ne, ne_eq, Option.some.injEq]
                exact ⟨fun h e => h e.symm, fun h e => h e.symm⟩
          · contradiction
      · cases h; simp

theorem handleWrite_conns (s : State) (ci : Nat) (conn : Conn) (op : UInt8) (pdu : List UInt8) (b : Bool)
    (c' : Nat) (hne : c' ≠ ci) : (handleWrite s ci conn op pdu b).1.conns[c']? = s.conns[c']? := by
  simp only [handleWrite]
  repeat' (first | rfl | (simp only [setConn]; rw [List.getElem?_set_ne (Ne.symm hne)]; done) | split)

/-- **cccd_isolation** (other connections): whatever PDU connection `c` sends, the data of every
    other connection (its CCCD bits, its link state) is unchanged; the isolation between the CCCDs
    of one connection is the `∀ j ≠ pos` part of `cccd_write_exact` together with
    `cccd_positions_distinct` -/
theorem cccd_isolation (s : State) (c c' : Nat) (pdu : List UInt8) (hne : c' ≠ c) :
    (step s (.pdu c pdu)).1.conns[c']? = s.conns[c']? := by
  simp only [step, Op.conn]
  split
  · rfl
  · rename_i conn _
    rcases pdu with _ | ⟨o, rest⟩
    · rfl
    · simp only []
      split
      · rfl
      · simp only [handlePlain]
        repeat' (first | rfl | exact handleWrite_conns _ _ _ _ _ _ _ hne | split)

example : (step (State.init { attrs := [.ro, .ro, .value 0 2 true true false, .cccd 0 false], nCccd := 1 } [[1, 2]])
    (.pdu 1 [0x12, 4, 0, 3])).1.conns.map (·.cfg) = [[0], [3], [0]] := by decide

end BluetoeModel.Cccd
