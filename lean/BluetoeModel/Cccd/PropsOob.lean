import BluetoeModel.Cccd.Props
import BluetoeModel.Cccd.Shape
import BluetoeModel.Cccd.ShapeExact
/-!
  # C09 (shared with C07) — accesses to the configuration array and to bound values stay in bounds

  `client_characteristic_configuration::flags( i )` / `flags( i, v )` index `configs_[ i / 4 ]`
  without any check; the CCCD attribute passes `index_of< ClientCharacteristicIndex, cccd_indices >`.
  The model answers `none` / `Out.oob` where that index is outside of the array (and where a value
  access leaves the bound object). Under `declWF` (Shape.lean, evaluated by the drivers on every
  table dumped from the real templates) that never happens, for every history of all connections.
-/
namespace BluetoeModel.Cccd

/-- **cccd_position_in_array**: for every priority assignment the position the CCCD access
    computes for the `k`-th characteristic with a CCCD is one of the `n` configurations, hence
    `position / 4` is inside `configs_` (`(n * 2 + 7) / 8` bytes) -/
theorem cccd_position_in_array (prios : List Int) (k : Nat) (hk : k < prios.length) :
    cccdPosition (cccdIndices prios) k < prios.length ∧
      cccdPosition (cccdIndices prios) k / 4 < (Config.init prios.length).length := by
  have hmem : k ∈ cccdIndices prios := (cccdIndices_perm prios).mem_iff.mpr (List.mem_range.mpr hk)
  have hlen : (cccdIndices prios).length = prios.length := by
    rw [(cccdIndices_perm prios).length_eq, List.length_range]
  have h := idxOf_lt_of_mem hmem
  rw [hlen] at h
  refine ⟨h, ?_⟩
  simp only [cccdPosition, Config.init, List.length_replicate]
  omega

example : cccdPosition (cccdIndices [0, 0, 1, 0, 0]) 2 = 4 ∧ cccdPosition (cccdIndices [0, 0, -1, 0, 0]) 2 = 0 := by decide

/-- **shape_invariant**: every reachable state of a well-formed declaration has values of the
    declared sizes, configuration arrays of `(n * 2 + 7) / 8` bytes and MTUs ≥ 23 -/
theorem shape_invariant (d : Decl) (mem : Mem) (hwf : declWF d mem = true) (ops : List Op) :
    Shape (run (State.init d mem) ops).1 :=
  (run_shape (shape_init hwf) ops).1

/-- **cccd_never_oob**: for every well-formed declaration, every content of the bound variables and
    every interleaving of PDUs, link security / MTU changes and disconnects of all connections, no
    answer is `Out.oob`: no `flags( i )` / `flags( i, v )` outside of `configs_`, no value access
    outside of the bound object -/
theorem cccd_never_oob (d : Decl) (mem : Mem) (hwf : declWF d mem = true) (ops : List Op) :
    Out.oob ∉ (run (State.init d mem) ops).2 :=
  (run_shape (shape_init hwf) ops).2

/-- the same for a single step from any state with the invariant -/
theorem step_keeps_shape (s : State) (hs : Shape s) (op : Op) :
    Shape (step s op).1 ∧ (step s op).2 ≠ .oob :=
  step_shape hs op

/-- **access_in_bounds**: the two access functions, for any attribute of a well shaped state -/
theorem access_in_bounds (n : Nat) (mem : Mem) (cfg : Config) (sec : Sec) (a : Attr)
    (ha : attrSafe n mem a = true) (hl : cfg.length = cfgLen n) (off : Nat) (data : List UInt8) (bs : Nat) :
    (∃ r, writeAccess mem cfg sec a off data = some r ∧ r.cfg.length = cfgLen n ∧
        r.mem.map List.length = mem.map List.length) ∧
    (a ≠ .ro → (∀ l, a ≠ .descr l) → (readAccess mem cfg sec a off bs).isSome) :=
  ⟨writeAccess_shape sec off data ha hl, readAccess_isSome off bs ha hl⟩

/-- **attr_clause_exact**: the attribute clause is the weakest possible. For a table whose
    attributes all have a handle (at most 0xFFFF of them) and `max_mtu_size ≥ 23`: no history is ever
    answered out of bounds **iff** every attribute is `attrSafe` (a readable or writable value
    refers to an object of `sizeof( T )` bytes, `position / 4` of a CCCD is inside `configs_`).
    `declWF` demands the slightly stronger `attrOk` that the C++ types actually deliver (also for
    values that are neither readable nor writable; position `< n`), `attrSafe_of_attrOk`. -/
theorem attr_clause_exact (d : Decl) (mem : Mem) (hlen : d.attrs.length ≤ 65535) (hmtu : 23 ≤ d.serverMtu) :
    (∀ ops, Out.oob ∉ (run (State.init d mem) ops).2) ↔ d.attrs.all (attrSafe d.nCccd mem) = true := by
  constructor
  · intro h
    apply Classical.byContradiction
    intro hne
    obtain ⟨i, hi, hbad⟩ := exists_unsafe_index hne
    obtain ⟨o, ho, hoob⟩ := handlePlain_oob (s := setConn (State.init d mem) 0 (encConn d)) (conn := encConn d)
      0 i hi (by omega) rfl (connOk_init d).1 hbad
    apply h [.sec 0 true 1, .pdu 0 [o, UInt8.ofNat ((i + 1) % 256), UInt8.ofNat ((i + 1) / 256)]]
    have h16 : ¬ (o = 0x16 ∨ o = 0x18) := by rcases ho with rfl | rfl <;> decide
    simp only [run, step_sec_init]
    simp only [step, Op.conn, conn0_after_sec, h16, if_false, hoob]
    simp
  · intro h ops
    exact (run_shape (shape_init_safe h hmtu) ops).2

/-! ### non-vacuity -/

/-- five CCCDs (two bytes of configuration), priorities permute the positions -/
def exDecl5 : Decl :=
  { attrs := [.ro, .ro, .value 0 2 true true false, .cccd 3 false, .ro, .value 1 1 true true false, .cccd 1 false,
              .cccd 0 true, .cccd 2 false, .cccd 4 false],
    nCccd := 5 }

example : declWF exDecl5 [[1, 2], [3]] = true := by decide
example : exDecl5.attrs.all (attrSafe exDecl5.nCccd [[1, 2], [3]]) = true := by decide

/-- both directions are inhabited: `exDecl5` is safe; with a one byte variable behind the two byte
    value it is not, and `sec 0 1 1; read 3` is the history `attr_clause_exact` constructs -/
example : (run (State.init exDecl5 [[1], [3]]) [.sec 0 true 1, .pdu 0 [0x0a, 3, 0]]).2 = [.ok, .oob] := by decide

example :
    (run (State.init exDecl5 [[1, 2], [3]]) [.pdu 1 [0x12, 10, 0, 3, 0], .pdu 1 [0x0a, 10, 0], .pdu 0 [0x0a, 10, 0]]).2
      = [.resp [0x13] 1, .resp [0x0b, 3, 0] 0, .resp [0x0b, 0, 0] 0] := by decide

/-- position 5 of 5 configurations: `5 / 4 = 1` is still inside the two bytes, position 8 is not;
    `declWF` refuses both (the C++ types can produce neither) -/
example : (step (State.init { exDecl5 with attrs := [.cccd 8 false] } []) (.pdu 0 [0x0a, 1, 0])).2 = .oob := by decide
example : declWF { exDecl5 with attrs := [.cccd 8 false] } [] = false := by decide
example : declWF { exDecl5 with attrs := [.cccd 5 false] } [] = false := by decide

end BluetoeModel.Cccd
