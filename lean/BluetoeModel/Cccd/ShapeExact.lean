import BluetoeModel.Cccd.Shape
/-!
  The attribute clause of the precondition is exact: an attribute that violates `attrSafe` and has a
  handle (≤ 0xFFFF) is driven out of bounds by two ops (encrypt the link, then read or write it).
-/
namespace BluetoeModel.Cccd

theorem read16_handle (h : Nat) (h16 : h < 65536) :
    read16 (UInt8.ofNat (h % 256)) (UInt8.ofNat (h / 256)) = h := by
  simp only [read16, UInt8.toNat_ofNat']
  omega

theorem secCheck_enc (e : Bool) (p : Nat) : secCheck e ⟨true, p⟩ = .success := by
  cases e <;> rfl

theorem readAccess_value_none {mem : Mem} {cfg : Config} {idx size : Nat} {w e : Bool} (p off bs : Nat)
    (h : ((mem[idx]?).map List.length == some size) = false) :
    readAccess mem cfg ⟨true, p⟩ (.value idx size true w e) off bs = none := by
  simp only [readAccess, secCheck_enc]
  cases hm : mem[idx]? with
  | none => rfl
  | some v =>
    have : ¬ v.length = size := by
      intro hv; rw [hm] at h; simp [hv] at h
    simp [this]

theorem writeAccess_value_none {mem : Mem} {cfg : Config} {idx size : Nat} {r e : Bool} (p : Nat)
    (h : ((mem[idx]?).map List.length == some size) = false) :
    writeAccess mem cfg ⟨true, p⟩ (.value idx size r true e) 0 [] = none := by
  simp only [writeAccess, secCheck_enc, valueWrite]
  cases hm : mem[idx]? with
  | none => simp
  | some v =>
    have : ¬ v.length = size := by
      intro hv; rw [hm] at h; simp [hv] at h
    simp [this]

theorem readAccess_cccd_none {mem : Mem} {cfg : Config} {n pos : Nat} {e : Bool} (p bs : Nat)
    (hl : cfg.length = cfgLen n) (h : ¬ pos / 4 < cfgLen n) :
    readAccess mem cfg ⟨true, p⟩ (.cccd pos e) 0 bs = none := by
  have : cfg[pos / 4]? = none := List.getElem?_eq_none (by omega)
  simp [readAccess, secCheck_enc, cccdRead, flags?, this]

/-- a request to the attribute at index `i` that is answered out of bounds -/
theorem handlePlain_oob {s : State} {conn : Conn} (ci i : Nat) (hi : i < s.decl.attrs.length)
    (h16 : i + 1 < 65536) (hsec : conn.sec = ⟨true, 1⟩) (hcfg : conn.cfg.length = cfgLen s.decl.nCccd)
    (hbad : attrSafe s.decl.nCccd s.mem s.decl.attrs[i] = false) :
    ∃ o : UInt8, (o = 0x0a ∨ o = 0x12) ∧
      (handlePlain s ci conn [o, UInt8.ofNat ((i + 1) % 256), UInt8.ofNat ((i + 1) / 256)]).2 = .oob := by
  have hh := read16_handle (i + 1) h16
  have hat : attrAt? s.decl (i + 1) = some s.decl.attrs[i] := by
    simp [attrAt?, List.getElem?_eq_getElem hi]
  generalize s.decl.attrs[i] = a at hbad hat
  cases a with
  | ro => simp [attrSafe] at hbad
  | descr l => simp [attrSafe] at hbad
  | value idx size r w e =>
    cases r with
    | true =>
      refine ⟨0x0a, Or.inl rfl, ?_⟩
      have hb : ((s.mem[idx]?).map List.length == some size) = false := by simpa [attrSafe] using hbad
      simp only [handlePlain, handleRead, if_true, hh, hat, hsec, readAccess_value_none _ _ _ hb]
    | false =>
      have hw : w = true := by
        cases w with
        | true => rfl
        | false => simp [attrSafe] at hbad
      subst hw
      refine ⟨0x12, Or.inr rfl, ?_⟩
      have hb : ((s.mem[idx]?).map List.length == some size) = false := by simpa [attrSafe] using hbad
      simp only [handlePlain, show ¬ ((0x12 : UInt8) = 0x0a) by decide, show ¬ ((0x12 : UInt8) = 0x0c) by decide,
        if_false, if_true, handleWrite, hh, hat, hsec, writeAccess_value_none _ hb]
  | cccd pos e =>
    refine ⟨0x0a, Or.inl rfl, ?_⟩
    have hb : ¬ pos / 4 < cfgLen s.decl.nCccd := by simpa [attrSafe] using hbad
    simp only [handlePlain, handleRead, if_true, hh, hat, hsec, readAccess_cccd_none _ _ hcfg hb]

theorem shape_init_safe {d : Decl} {mem : Mem} (ha : d.attrs.all (attrSafe d.nCccd mem) = true)
    (hm : 23 ≤ d.serverMtu) : Shape (State.init d mem) := by
  refine ⟨ha, ?_, hm⟩
  intro c hc
  have : c = Conn.init d := by
    simp only [State.init] at hc
    exact List.eq_of_mem_replicate hc
  rw [this]; exact connOk_init d

/-- the connection 0 after `sec 0 1 1` -/
def encConn (d : Decl) : Conn := { Conn.init d with sec := ⟨true, 1⟩ }

theorem step_sec_init (d : Decl) (mem : Mem) :
    step (State.init d mem) (.sec 0 true 1) = (setConn (State.init d mem) 0 (encConn d), .ok) := by
  simp [step, Op.conn, State.init, stepConn, encConn, List.replicate]

theorem conn0_after_sec (d : Decl) (mem : Mem) :
    (setConn (State.init d mem) 0 (encConn d)).conns[0]? = some (encConn d) := by
  simp [setConn, State.init, List.replicate]

theorem exists_unsafe_index {n : Nat} {mem : Mem} {l : List Attr} (h : l.all (attrSafe n mem) ≠ true) :
    ∃ i, ∃ hi : i < l.length, attrSafe n mem l[i] = false := by
  have : ∃ a ∈ l, attrSafe n mem a = false := by
    simpa [List.all_eq_true] using h
  obtain ⟨a, ha, hb⟩ := this
  obtain ⟨i, hi, rfl⟩ := List.getElem_of_mem ha
  exact ⟨i, hi, hb⟩

end BluetoeModel.Cccd
