import BluetoeModel.Cccd.Bits
/-
  Model of the attribute access functions a GATT client reaches through ATT Read / Read Blob /
  Write Requests and Write Commands, for bound characteristic values and for Client Characteristic
  Configuration Descriptors (CCCDs), with the per connection state they work on.

  src: bluetoe/characteristic.hpp (CCCD `generate_attribute<…client_characteristic_configuration_parameter…>::access`),
       bluetoe/characteristic_value.hpp (`bind_characteristic_value::value_impl`, `encryption_requirements`),
       bluetoe/utility/include/bluetoe/attribute.hpp (`attribute_value_read_access`),
       bluetoe/find_notification_data.hpp (`cccd_indices`),
       bluetoe/server.hpp (`l2cap_input`, `check_handle`, `error_response`, `handle_read_request`,
       `handle_read_blob_request`, `handle_write_request`, `handle_write_command`).

  A server *type* is represented by a value `Decl`; handles are `index + 1` (servers without fixed
  handles, i.e. without gaps).
-/
namespace BluetoeModel.Cccd

/-! ### position of a CCCD in the per connection configuration (priority order) -/

/-- insert behind all entries whose priority is not greater: stable -/
def insertByPrio (x : Nat × Int) : List (Nat × Int) → List (Nat × Int)
  | [] => [x]
  | y :: ys => if x.2 < y.2 then x :: y :: ys else y :: insertByPrio x ys

/-- `stable_sort< order_by_prio, … >` (`A::priority < B::priority`) -/
-- src: find_notification_data_in_list::characteristics_sorted_by_priority
def sortByPrio (l : List (Nat × Int)) : List (Nat × Int) :=
  l.foldl (fun acc x => insertByPrio x acc) []

/-- `cccd_indices`: the declaration-order numbers (`cccd_position`) of the characteristics that
    have a CCCD, listed in priority order; `prios[i]` is the priority of the i-th such
    characteristic in declaration order -/
-- src: find_notification_data_in_list::cccd_indices
def cccdIndices (prios : List Int) : List Nat :=
  (sortByPrio ((List.range prios.length).zip prios)).map (·.1)

/-- `index_of< integral_constant< ClientCharacteristicIndex >, CCCDIndices >` (the length of the
    list when not found) -/
-- src: CCCD access: cccd_position_index
def cccdPosition (indices : List Nat) (declIdx : Nat) : Nat := indices.idxOf declIdx

/-! ### access results, link security -/

/-- `attribute_access_result` (the members reachable from the modelled attribute kinds) -/
inductive Rc where
  | success | invalidOffset | writeNotPermitted | readNotPermitted | invalidLength
  | insufficientEnc | insufficientAuth
deriving DecidableEq, Repr

/-- the ATT error code an access result is turned into (`access_result_to_att_code`: all of them
    are lossless `att_error_codes`) -/
def Rc.att : Rc → UInt8
  | .success => 0x00
  | .invalidOffset => 0x07
  | .writeNotPermitted => 0x03
  | .readNotPermitted => 0x02
  | .invalidLength => 0x0d
  | .insufficientEnc => 0x0f
  | .insufficientAuth => 0x05

/-- `connection_security_attributes`; `pairing = 0` is `device_pairing_status::no_key` -/
structure Sec where
  enc     : Bool := false
  pairing : Nat := 0
deriving DecidableEq, Repr

-- src: details::encryption_requirements< RequiresEncryption >::check
def secCheck (requiresEnc : Bool) (s : Sec) : Rc :=
  if !requiresEnc then .success
  else if s.enc then .success
  else if s.pairing = 0 then .insufficientAuth
  else .insufficientEnc

/-! ### attributes -/

inductive Attr where
  /-- service / characteristic declaration, user descriptor: no write access; content not modelled -/
  | ro
  /-- characteristic user description of `strlen = len`: the offset check precedes the access type -/
  | descr (len : Nat)
  /-- `bind_characteristic_value< T, Ptr >` with `sizeof( T ) = size`, stored in `mem[idx]` -/
  | value (idx size : Nat) (readable writable requiresEnc : Bool)
  /-- CCCD using configuration number `pos` (already mapped through `cccdPosition`) -/
  | cccd (pos : Nat) (requiresEnc : Bool)
deriving DecidableEq, Repr

/-- the bound variables -/
abbrev Mem := List (List UInt8)

-- src: details::attribute_value_read_access (read branch)
def readBytes (v : List UInt8) (offset bufSize : Nat) : Rc × List UInt8 :=
  if offset > v.length then (.invalidOffset, [])
  else (.success, (v.drop offset).take bufSize)

/-- CCCD read; `none` = access outside of the configuration array -/
-- src: generate_attribute< …client_characteristic_configuration_parameter… >::access (read)
def cccdRead (cfg : Config) (pos offset bufSize : Nat) : Option (Rc × List UInt8) :=
  if offset > 2 then some (.invalidOffset, [])
  else match flags? cfg pos with
    | none => none
    | some f => some (.success, (([f, 0] : List UInt8).drop offset).take bufSize)

/-- read access to a value or a CCCD (other attributes are not modelled: `handleRead` filters) -/
def readAccess (mem : Mem) (cfg : Config) (sec : Sec) (a : Attr) (offset bufSize : Nat) :
    Option (Rc × List UInt8) :=
  match a with
  | .ro => none
  | .descr _ => none
  -- src: bind_characteristic_value::value_impl::characteristic_value_access (read)
  | .value idx size readable _ enc =>
      match secCheck enc sec with
      | .success =>
          if !readable then some (.readNotPermitted, [])
          else match mem[idx]? with
            | none => none
            | some v => if v.length = size then some (readBytes v offset bufSize) else none
      | rc => some (rc, [])
  | .cccd pos enc =>
      match secCheck enc sec with
      | .success => cccdRead cfg pos offset bufSize
      | rc => some (rc, [])

/-- result of a write access: access result, memory, configuration of the writing connection,
    "the stored configuration changed" (`notification_subscription_changed` was called) -/
structure WriteRes where
  rc  : Rc
  mem : Mem
  cfg : Config
  cb  : Bool
deriving Repr

-- src: bind_characteristic_value::value_impl::characteristic_value_write_access( …, true_type )
def valueWrite (mem : Mem) (cfg : Config) (idx size offset : Nat) (data : List UInt8) :
    Option WriteRes :=
  if offset > size then some ⟨.invalidOffset, mem, cfg, false⟩
  else if data.length + offset > size then some ⟨.invalidLength, mem, cfg, false⟩
  else match mem[idx]? with
    | none => none
    | some v =>
        if v.length = size then
          some ⟨.success, mem.set idx (v.take offset ++ data ++ v.drop (offset + data.length)), cfg, false⟩
        else none

/-- `read_16bit` -/
def read16 (lo hi : UInt8) : Nat := lo.toNat + 256 * hi.toNat

-- src: generate_attribute< …client_characteristic_configuration_parameter… >::access (write)
def cccdWrite (mem : Mem) (cfg : Config) (pos offset : Nat) (data : List UInt8) : Option WriteRes :=
  if offset > 2 then some ⟨.invalidOffset, mem, cfg, false⟩
  else if data.length + offset > 2 then some ⟨.invalidLength, mem, cfg, false⟩
  else if offset = 0 then
    match flags? cfg pos with
    | none => none
    | some old =>
        -- serialized_value = le16( old ); the written bytes replace its beginning
        match data ++ (([old, 0] : List UInt8).drop data.length) with
        | [lo, hi] =>
            match setFlags? cfg pos (read16 lo hi) with
            | none => none
            | some cfg' =>
                match flags? cfg' pos with
                | none => none
                | some new => some ⟨.success, mem, cfg', old != new⟩
        | _ => none
  else some ⟨.success, mem, cfg, false⟩

/-- write access to any attribute -/
def writeAccess (mem : Mem) (cfg : Config) (sec : Sec) (a : Attr) (offset : Nat) (data : List UInt8) :
    Option WriteRes :=
  match a with
  -- src: char_declaration_access / service attribute access: `type != read` ⇒ write_not_permitted
  | .ro => some ⟨.writeNotPermitted, mem, cfg, false⟩
  -- src: generate_attribute< …characteristic_user_description_parameter… >::access
  | .descr len =>
      if offset > len then some ⟨.invalidOffset, mem, cfg, false⟩
      else some ⟨.writeNotPermitted, mem, cfg, false⟩
  -- src: bind_characteristic_value::value_impl::characteristic_value_access (write)
  | .value idx size _ writable enc =>
      match secCheck enc sec with
      | .success =>
          if !writable then some ⟨.writeNotPermitted, mem, cfg, false⟩
          else valueWrite mem cfg idx size offset data
      | rc => some ⟨rc, mem, cfg, false⟩
  | .cccd pos enc =>
      match secCheck enc sec with
      | .success => cccdWrite mem cfg pos offset data
      | rc => some ⟨rc, mem, cfg, false⟩

/-! ### server declaration, connections, state -/

structure Decl where
  attrs     : List Attr
  /-- `max_mtu_size< N >`, 23 by default -/
  serverMtu : Nat := 23
  /-- `number_of_client_configs` -/
  nCccd     : Nat := 0
  /-- `shared_write_queue< S >` -/
  queueSize : Option Nat := none
deriving Repr

/-- `server::connection_data` + `link_state` -/
structure Conn where
  sec       : Sec := {}
  clientMtu : Nat := 23
  cfg       : Config
deriving Repr

-- src: connection_data() / client_characteristic_configurations() / link_state()
def Conn.init (d : Decl) : Conn := { cfg := Config.init d.nCccd }

-- src: connection_data::negotiated_mtu
def negotiatedMtu (d : Decl) (c : Conn) : Nat := min d.serverMtu c.clientMtu

structure State where
  decl  : Decl
  mem   : Mem
  conns : List Conn
deriving Repr

def State.init (d : Decl) (mem : Mem) : State :=
  { decl := d, mem := mem, conns := List.replicate 3 (Conn.init d) }

inductive Out where
  /-- response PDU (`[]` = no response) and the number of `notification_subscription_changed` calls -/
  | resp (bytes : List UInt8) (cb : Nat)
  | ok
  | bad
  /-- the C++ would access memory out of bounds / hit an assertion -/
  | oob
  /-- outside of what this model covers (the generators do not produce it) -/
  | unmodelled
deriving DecidableEq, Repr

-- src: server::error_response (out_size ≥ 23 ≥ 5 always)
def errorResponse (opcode code : UInt8) (handle : Nat) : List UInt8 :=
  [0x01, opcode, UInt8.ofNat (handle % 256), UInt8.ofNat (handle / 256), code]

/-- `check_handle` + `handle_index_mapping::index_by_handle` for a server without fixed handles:
    handle `h` is attribute `h - 1`; `none` = Invalid Handle -/
-- src: server::check_handle
def attrAt? (d : Decl) (handle : Nat) : Option Attr :=
  if handle = 0 then none else d.attrs[handle - 1]?

def setConn (s : State) (ci : Nat) (c : Conn) : State := { s with conns := s.conns.set ci c }

def cbCount (b : Bool) : Nat := if b then 1 else 0

/-- Read Request (`blob = false`, PDU size 3) and Read Blob Request (`blob = true`, PDU size 5);
    reads never change the state -/
-- src: server::handle_read_request / handle_read_blob_request / check_size_and_handle
def handleRead (s : State) (conn : Conn) (op : UInt8) (pdu : List UInt8) (blob : Bool) : Out :=
  let parsed : Option (UInt8 × UInt8 × Nat) :=
    match blob, pdu with
    | false, [_, lo, hi] => some (lo, hi, 0)
    | true, [_, lo, hi, olo, ohi] => some (lo, hi, read16 olo ohi)
    | _, _ => none
  match parsed with
  | none => .resp (errorResponse op 0x04 0) 0
  | some (lo, hi, offset) =>
      let h := read16 lo hi
      match attrAt? s.decl h with
      | none => .resp (errorResponse op 0x01 h) 0
      | some .ro => .unmodelled
      | some (.descr _) => .unmodelled
      | some a =>
          match readAccess s.mem conn.cfg conn.sec a offset (negotiatedMtu s.decl conn - 1) with
          | none => .oob
          | some (.success, bytes) => .resp ((if blob then 0x0d else 0x0b) :: bytes) 0
          | some (rc, _) => .resp (errorResponse op rc.att h) 0

/-- Write Request (`respond = true`) and Write Command (`respond = false`: all output dropped) -/
-- src: server::handle_write_request / handle_write_command
def handleWrite (s : State) (ci : Nat) (conn : Conn) (op : UInt8) (pdu : List UInt8) (respond : Bool) :
    State × Out :=
  let answer (bytes : List UInt8) (cb : Nat) : Out := .resp (if respond then bytes else []) cb
  match pdu with
  | _ :: lo :: hi :: data =>
      let h := read16 lo hi
      match attrAt? s.decl h with
      | none => (s, answer (errorResponse op 0x01 h) 0)
      | some a =>
          match writeAccess s.mem conn.cfg conn.sec a 0 data with
          | none => (s, .oob)
          | some r =>
              let s' := setConn { s with mem := r.mem } ci { conn with cfg := r.cfg }
              if r.rc = .success then (s', answer [0x13] (cbCount r.cb))
              else (s', answer (errorResponse op r.rc.att h) (cbCount r.cb))
  | _ => (s, answer (errorResponse op 0x04 0) 0)

/-- the requests that do not involve the write queue -/
-- src: server::l2cap_input (dispatch)
def handlePlain (s : State) (ci : Nat) (conn : Conn) (pdu : List UInt8) : State × Out :=
  match pdu with
  | [] => (s, .bad)
  | op :: _ =>
      if op = 0x0a then (s, handleRead s conn op pdu false)
      else if op = 0x0c then (s, handleRead s conn op pdu true)
      else if op = 0x12 then handleWrite s ci conn op pdu true
      else if op = 0x52 then handleWrite s ci conn op pdu false
      else (s, .unmodelled)

inductive Op where
  | sec (c : Nat) (enc : Bool) (pairing : Nat)
  | mtu (c : Nat) (n : Nat)
  | pdu (c : Nat) (bytes : List UInt8)
  /-- `client_disconnected` followed by the re-construction of the connection data -/
  | disc (c : Nat)
deriving Repr

/-- the ops that only touch one connection's link state -/
def stepConn (s : State) (ci : Nat) (conn : Conn) : Op → Option (State × Out)
  | .sec _ enc pairing => some (setConn s ci { conn with sec := ⟨enc, pairing⟩ }, .ok)
  -- src: connection_data::client_mtu( mtu ) (asserts mtu ≥ 23)
  | .mtu _ n => if 23 ≤ n ∧ n ≤ 65535 then some (setConn s ci { conn with clientMtu := n }, .ok) else some (s, .bad)
  | _ => none

def Op.conn : Op → Nat
  | .sec c _ _ => c
  | .mtu c _ => c
  | .pdu c _ => c
  | .disc c => c

/-- step of a server without write queue: Prepare / Execute Write are answered with Request Not
    Supported -/
-- src: handle_prepair_write_request / handle_execute_write_request ( …, const details::no_such_type& )
def step (s : State) (op : Op) : State × Out :=
  match s.conns[op.conn]? with
  | none => (s, .bad)
  | some conn =>
      match op with
      | .pdu ci (o :: rest) =>
          if o = 0x16 ∨ o = 0x18 then (s, .resp (errorResponse o 0x06 0) 0)
          else handlePlain s ci conn (o :: rest)
      | .pdu _ [] => (s, .bad)
      | .disc ci => (setConn s ci (Conn.init s.decl), .ok)
      | op => match stepConn s op.conn conn op with
          | some r => r
          | none => (s, .bad)

def run (s : State) : List Op → State × List Out
  | [] => (s, [])
  | op :: ops =>
      let (s', o) := step s op
      let (s'', os) := run s' ops
      (s'', o :: os)

end BluetoeModel.Cccd
