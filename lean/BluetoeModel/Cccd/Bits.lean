/-
  2-bit packing of the client characteristic configurations of one connection.
  src: bluetoe/utility/include/bluetoe/client_characteristic_configuration.hpp
-/
namespace BluetoeModel.Cccd

/-- `client_characteristic_configurations<Size>::configs_`: `(Size * 2 + 7) / 8` bytes, four
    configurations per byte -/
abbrev Config := List UInt8

-- src: client_characteristic_configurations<Size>() (std::fill … 0); Size = 0 has no array at all
-- (client_configurations() then hands out a null pointer)
def Config.init (size : Nat) : Config := List.replicate ((size * 2 + 7) / 8) 0

/-- `( byte >> shift( index ) ) & 0x3` with `shift( index ) = ( index % 4 ) * 2`, `k = index % 4` -/
-- src: client_characteristic_configuration::flags( index ) const / shift
def getBits (b : UInt8) (k : Nat) : UInt8 := (b >>> UInt8.ofNat (2 * k)) &&& 3

/-- `( byte & ~mask( index ) ) | ( ( new_flags & 0x03 ) << shift( index ) )` with
    `mask( index ) = 0x03 << shift( index )`; the C++ computes in `int` and truncates to `uint8_t`,
    which is the same as computing in `uint8_t` because `byte & ~mask` has no bits above bit 7 -/
-- src: client_characteristic_configuration::flags( index, new_flags ) / mask / shift
def setBits (b : UInt8) (k : Nat) (v : UInt8) : UInt8 :=
  (b &&& ~~~((3 : UInt8) <<< UInt8.ofNat (2 * k))) ||| ((v &&& 3) <<< UInt8.ofNat (2 * k))

/-- `flags( index )`; `none` = the C++ reads outside of `configs_` (or asserts on the null pointer) -/
-- src: client_characteristic_configuration::flags( index ) const
def flags? (d : Config) (i : Nat) : Option UInt8 :=
  match d[i / 4]? with
  | none => none
  | some b => some (getBits b (i % 4))

/-- `flags( index, new_flags )`; `new_flags` is a `uint16_t`, only its two lowest bits are used, so
    the truncation to the low byte (`UInt8.ofNat`) loses nothing; `none` = write outside of `configs_` -/
-- src: client_characteristic_configuration::flags( index, new_flags )
def setFlags? (d : Config) (i : Nat) (newFlags : Nat) : Option Config :=
  match d[i / 4]? with
  | none => none
  | some b => some (d.set (i / 4) (setBits b (i % 4) (UInt8.ofNat newFlags)))

end BluetoeModel.Cccd
