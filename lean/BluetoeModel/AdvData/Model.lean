/-
  Model of `server<…>::advertising_data` / `scan_response_data` for the automatic and the custom
  advertising data sources.
  src: bluetoe/server.hpp (advertising_data_impl, scan_response_data_impl, details::copy_name),
       bluetoe/adv_service_list.hpp, bluetoe/appearance.hpp,
       bluetoe/peripheral_connection_interval_range.hpp, bluetoe/custom_advertising.hpp
  The scan response model is the code with fixes/advdata-01-scan-response-buffer-size.patch.

  A server declaration is a value (`Decl`); the output buffer is the list of octets written so far
  plus its capacity; every write goes through `push?`, which fails (`none`) where the C++ would
  write behind `begin + buffer_size`.
-/
namespace BluetoeModel.AdvData

structure Decl where
  name          : Option (List UInt8)          -- server_name< Name >; none: no such option (nullptr)
  appearance    : Nat                          -- device appearance (appearance::unknown = 0)
  advAppearance : Bool                         -- advertise_appearance
  svc16         : List Nat                     -- 16 bit UUIDs of the declared services, in order
  svc128        : List (List UInt8)            -- 128 bit UUIDs of the declared services (UUID::bytes)
  gap           : Bool                         -- GAP service (0x1800) added to the services
  noList        : Bool                         -- no_list_of_service_uuids
  list16        : Option (List Nat)            -- list_of_16_bit_service_uuids< … > given explicitly
  list128       : Option (List (List UInt8))   -- list_of_128_bit_service_uuids< … > given explicitly
  range         : Option (Nat × Nat)           -- peripheral_connection_interval_range< Min, Max >
  customAdv     : Option (List UInt8)          -- custom_advertising_data / runtime_custom_…
  customScan    : Option (List UInt8)          -- custom_scan_response_data / runtime_custom_…
deriving Repr

structure Buf where
  out : List UInt8
  cap : Nat
deriving Repr

/-- `end - begin` -/
def Buf.room (b : Buf) : Nat := b.cap - b.out.length

/-- write `bytes` at `begin`, advance `begin`; `none`: the write leaves the buffer -/
def push? (b : Buf) (bytes : List UInt8) : Option Buf :=
  if bytes.length ≤ b.room then some { b with out := b.out ++ bytes } else none

def u8 (n : Nat) : UInt8 := UInt8.ofNat n
def le16 (n : Nat) : List UInt8 := [u8 (n % 256), u8 (n / 256 % 256)]

/-- src: server::advertising_data_impl( auto_advertising_data ), the flags -/
def flagsSeg (cap : Nat) : List UInt8 := if cap ≥ 3 then [2, 1, 6] else []

/-- src: advertise_appearance::advertising_data / no_advertise_appearance -/
def appearanceSeg (d : Decl) (room : Nat) : List UInt8 :=
  if d.advAppearance ∧ room ≥ 4 then [3, 0x19] ++ le16 d.appearance else []

/-- src: details::copy_name -/
def nameSeg (d : Decl) (room : Nat) : List UInt8 :=
  match d.name with
  | none => []
  | some n =>
    if room ≤ 2 then []
    else
      let k := min n.length (room - 2)
      if n.length > 0 then [u8 (k + 1), if k = n.length then 0x09 else 0x08] ++ n.take k else []

/-- the 16 bit UUID list the templates select -/
def eff16 (d : Decl) : List Nat :=
  if d.noList then []
  else match d.list16 with
    | some l => l
    | none => d.svc16 ++ (if d.gap then [0x1800] else [])

def eff128 (d : Decl) : List (List UInt8) :=
  if d.noList then []
  else match d.list128 with
    | some l => l
    | none => d.svc128

/-- src: list_of_16_bit_service_uuids::advertising_data (empty list: specialisation, nothing) -/
def list16Seg (d : Decl) (room : Nat) : List UInt8 :=
  let l := eff16 d
  if l.isEmpty then []
  else if room < 4 then []
  else
    let k := min ((room - 2) / 2) l.length
    [u8 (1 + 2 * k), if k = l.length then 0x03 else 0x02] ++ ((l.take k).map le16).flatten

/-- src: details::uuid_128_writer::each — copies a UUID only if `begin + 16 <= end` -/
def write128 (room : Nat) (acc : List UInt8) (uuid : List UInt8) : List UInt8 :=
  if acc.length + 16 ≤ room then acc ++ uuid else acc

/-- src: list_of_128_bit_service_uuids::advertising_data -/
def list128Seg (d : Decl) (room : Nat) : List UInt8 :=
  let l := eff128 d
  if l.isEmpty then []
  else if room < 2 + 16 then []
  else
    let k := min ((room - 2) / 16) l.length
    l.foldl (write128 room) [u8 (1 + 16 * k), if k = l.length then 0x07 else 0x06]

/-- src: peripheral_connection_interval_range::advertising_data -/
def rangeSeg (d : Decl) (room : Nat) : List UInt8 :=
  match d.range with
  | some (mn, mx) => if room ≥ 6 then [5, 0x12] ++ le16 mn ++ le16 mx else []
  | none => []

/-- the additional empty AD "to be visible to Nordic sniffer" -/
def trailerSeg (room : Nat) : List UInt8 := if room ≥ 2 then [0, 0] else []

/-- src: server::advertising_data_impl( auto_advertising_data ) -/
def autoAdv (d : Decl) (cap : Nat) : Option Buf := do
  let b : Buf := { out := [], cap := cap }
  let b ← push? b (flagsSeg cap)
  let b ← push? b (appearanceSeg d b.room)
  let b ← push? b (nameSeg d b.room)
  let b ← push? b (list16Seg d b.room)
  let b ← push? b (list128Seg d b.room)
  let b ← push? b (rangeSeg d b.room)
  push? b (trailerSeg b.room)

/-- src: custom_advertising_data::advertising_data / runtime_custom_advertising_data -/
def customCopy (data : List UInt8) (cap : Nat) : Option Buf :=
  push? { out := [], cap := cap } (data.take (min data.length cap))

/-- src: server::advertising_data; result: the octets written (the returned size is their number) -/
def advData (d : Decl) (cap : Nat) : Option (List UInt8) :=
  match d.customAdv with
  | some data => (customCopy data cap).map (·.out)
  | none => (autoAdv d cap).map (·.out)

/-- src: server::scan_response_data (auto: with the `buffer_size < 2` guard of the fix) -/
def scanRsp (d : Decl) (cap : Nat) : Option (List UInt8) :=
  match d.customScan with
  | some data => (customCopy data cap).map (·.out)
  | none => if cap < 2 then some [] else (push? { out := [], cap := cap } [0, 0]).map (·.out)

end BluetoeModel.AdvData
