import BluetoeModel.AdvData.Model
/-!
  # C14 — Advertising and scan response data are well-formed

  "For any server declaration (name, appearance, service lists, connection interval range, custom
  data), the generated advertising and scan response payloads fit the given buffer and at most 31
  octets, consist of length-prefixed AD structures that exactly tile the payload, include the
  flags, and list the name and service UUIDs either completely or marked as shortened/incomplete."

  Proved here for every declaration and every buffer size (no bound): no write leaves the buffer
  (`adv_never_oob`, `scan_rsp_never_oob`: the model's explicit out-of-bounds result is never
  taken), the returned size fits the buffer (`adv_fits`, `scan_rsp_fits`), the flags come first
  (`flags_present`), the name and the UUID lists are complete or marked shortened / incomplete
  (`name_complete_or_shortened`, `uuid16_complete_or_incomplete`).  The exact tiling of the whole
  payload is checked exhaustively on the real code (all server types x all buffer sizes) by the
  monitor of comp/advdata.py; it is not a Lean theorem (see docs/advdata.md).
-/
namespace BluetoeModel.AdvData

/-- what `static_assert`s / the type system guarantee for a declaration: UUID::bytes has 16 octets -/
def Decl.WF (d : Decl) : Prop := ∀ u ∈ eff128 d, u.length = 16

theorem push?_some (b : Buf) (seg : List UInt8) (h : seg.length ≤ b.room) :
    push? b seg = some { b with out := b.out ++ seg } := by
  simp [push?, h]

theorem flags_len (cap : Nat) : (flagsSeg cap).length ≤ cap := by
  unfold flagsSeg; split <;> simp <;> omega

theorem appearance_len (d : Decl) (r : Nat) : (appearanceSeg d r).length ≤ r := by
  unfold appearanceSeg le16; split
  · rename_i h; simp; omega
  · simp

theorem name_len (d : Decl) (r : Nat) : (nameSeg d r).length ≤ r := by
  unfold nameSeg
  split
  · simp
  · split
    · simp
    · simp only
      split
      · simp only [List.length_append, List.length_cons, List.length_nil, List.length_take]; omega
      · simp

theorem flatten_le16_len (l : List Nat) : ((l.map le16).flatten).length = 2 * l.length := by
  induction l with
  | nil => rfl
  | cons a t ih => simp [le16, ih]; omega

theorem list16_len (d : Decl) (r : Nat) : (list16Seg d r).length ≤ r := by
  unfold list16Seg
  simp only
  split
  · simp
  · split
    · simp
    · simp only [List.length_append, List.length_cons, List.length_nil, flatten_le16_len, List.length_take]
      omega

theorem fold128_len (r : Nat) (l : List (List UInt8)) (h16 : ∀ u ∈ l, u.length = 16) (acc : List UInt8)
    (h : acc.length ≤ r) : (l.foldl (write128 r) acc).length ≤ r := by
  induction l generalizing acc with
  | nil => simpa using h
  | cons u t ih =>
    simp only [List.foldl_cons]
    apply ih (fun v hv => h16 v (by simp [hv]))
    unfold write128
    split
    · have := h16 u (by simp); simp only [List.length_append]; omega
    · exact h

theorem list128_len (d : Decl) (wf : d.WF) (r : Nat) : (list128Seg d r).length ≤ r := by
  unfold list128Seg
  simp only
  split
  · simp
  · split
    · simp
    · apply fold128_len r _ wf
      simp only [List.length_cons, List.length_nil]; omega

theorem range_len (d : Decl) (r : Nat) : (rangeSeg d r).length ≤ r := by
  unfold rangeSeg le16
  split
  · split
    · simp; omega
    · simp
  · simp

theorem trailer_len (r : Nat) : (trailerSeg r).length ≤ r := by
  unfold trailerSeg; split <;> simp <;> omega

/-- the automatic advertising data: every write stays inside the buffer and the result is the
    concatenation of the seven segments, each computed from the room left in front of it -/
theorem autoAdv_segments (d : Decl) (wf : d.WF) (cap : Nat) :
    ∃ s1 s2 s3 s4 s5 s6 s7 : List UInt8,
      autoAdv d cap = some { out := s1 ++ s2 ++ s3 ++ s4 ++ s5 ++ s6 ++ s7, cap := cap }
      ∧ (s1 ++ s2 ++ s3 ++ s4 ++ s5 ++ s6 ++ s7).length ≤ cap
      ∧ s1 = flagsSeg cap
      ∧ s2 = appearanceSeg d (cap - s1.length)
      ∧ s3 = nameSeg d (cap - (s1 ++ s2).length)
      ∧ s4 = list16Seg d (cap - (s1 ++ s2 ++ s3).length)
      ∧ s5 = list128Seg d (cap - (s1 ++ s2 ++ s3 ++ s4).length)
      ∧ s6 = rangeSeg d (cap - (s1 ++ s2 ++ s3 ++ s4 ++ s5).length)
      ∧ s7 = trailerSeg (cap - (s1 ++ s2 ++ s3 ++ s4 ++ s5 ++ s6).length) := by
  have h1 := flags_len cap
  have h2 := appearance_len d (cap - (flagsSeg cap).length)
  generalize hs1 : flagsSeg cap = s1 at *
  generalize hs2 : appearanceSeg d (cap - s1.length) = s2 at *
  have h3 := name_len d (cap - (s1 ++ s2).length)
  generalize hs3 : nameSeg d (cap - (s1 ++ s2).length) = s3 at *
  have h4 := list16_len d (cap - (s1 ++ s2 ++ s3).length)
  generalize hs4 : list16Seg d (cap - (s1 ++ s2 ++ s3).length) = s4 at *
  have h5 := list128_len d wf (cap - (s1 ++ s2 ++ s3 ++ s4).length)
  generalize hs5 : list128Seg d (cap - (s1 ++ s2 ++ s3 ++ s4).length) = s5 at *
  have h6 := range_len d (cap - (s1 ++ s2 ++ s3 ++ s4 ++ s5).length)
  generalize hs6 : rangeSeg d (cap - (s1 ++ s2 ++ s3 ++ s4 ++ s5).length) = s6 at *
  have h7 := trailer_len (cap - (s1 ++ s2 ++ s3 ++ s4 ++ s5 ++ s6).length)
  generalize hs7 : trailerSeg (cap - (s1 ++ s2 ++ s3 ++ s4 ++ s5 ++ s6).length) = s7 at *
  have hlen : (s1 ++ s2 ++ s3 ++ s4 ++ s5 ++ s6 ++ s7).length ≤ cap := by
    simp only [List.length_append] at h1 h2 h3 h4 h5 h6 h7 ⊢
    omega
  refine ⟨s1, s2, s3, s4, s5, s6, s7, ?_, hlen,
    rfl, hs2.symm, hs3.symm, hs4.symm, hs5.symm, hs6.symm, hs7.symm⟩
  have push_step : ∀ (o seg : List UInt8), seg.length ≤ cap - o.length →
      push? { out := o, cap := cap } seg = some { out := o ++ seg, cap := cap } :=
    fun o seg h => push?_some _ _ h
  unfold autoAdv
  have e1 : push? { out := [], cap := cap } (flagsSeg cap) = some { out := s1, cap := cap } := by
    rw [hs1]; exact push_step [] s1 (by simpa using h1)
  have e2 : push? { out := s1, cap := cap } (appearanceSeg d (Buf.room { out := s1, cap := cap }))
      = some { out := s1 ++ s2, cap := cap } := by
    show push? { out := s1, cap := cap } (appearanceSeg d (cap - s1.length)) = _
    rw [hs2]; exact push_step s1 s2 h2
  have e3 : push? { out := s1 ++ s2, cap := cap } (nameSeg d (Buf.room { out := s1 ++ s2, cap := cap }))
      = some { out := s1 ++ s2 ++ s3, cap := cap } := by
    show push? { out := s1 ++ s2, cap := cap } (nameSeg d (cap - (s1 ++ s2).length)) = _
    rw [hs3]; exact push_step _ s3 h3
  have e4 : push? { out := s1 ++ s2 ++ s3, cap := cap } (list16Seg d (Buf.room { out := s1 ++ s2 ++ s3, cap := cap }))
      = some { out := s1 ++ s2 ++ s3 ++ s4, cap := cap } := by
    show push? { out := s1 ++ s2 ++ s3, cap := cap } (list16Seg d (cap - (s1 ++ s2 ++ s3).length)) = _
    rw [hs4]; exact push_step _ s4 h4
  have e5 : push? { out := s1 ++ s2 ++ s3 ++ s4, cap := cap }
      (list128Seg d (Buf.room { out := s1 ++ s2 ++ s3 ++ s4, cap := cap }))
      = some { out := s1 ++ s2 ++ s3 ++ s4 ++ s5, cap := cap } := by
    show push? { out := s1 ++ s2 ++ s3 ++ s4, cap := cap } (list128Seg d (cap - (s1 ++ s2 ++ s3 ++ s4).length)) = _
    rw [hs5]; exact push_step _ s5 h5
  have e6 : push? { out := s1 ++ s2 ++ s3 ++ s4 ++ s5, cap := cap }
      (rangeSeg d (Buf.room { out := s1 ++ s2 ++ s3 ++ s4 ++ s5, cap := cap }))
      = some { out := s1 ++ s2 ++ s3 ++ s4 ++ s5 ++ s6, cap := cap } := by
    show push? { out := s1 ++ s2 ++ s3 ++ s4 ++ s5, cap := cap }
      (rangeSeg d (cap - (s1 ++ s2 ++ s3 ++ s4 ++ s5).length)) = _
    rw [hs6]; exact push_step _ s6 h6
  have e7 : push? { out := s1 ++ s2 ++ s3 ++ s4 ++ s5 ++ s6, cap := cap }
      (trailerSeg (Buf.room { out := s1 ++ s2 ++ s3 ++ s4 ++ s5 ++ s6, cap := cap }))
      = some { out := s1 ++ s2 ++ s3 ++ s4 ++ s5 ++ s6 ++ s7, cap := cap } := by
    show push? { out := s1 ++ s2 ++ s3 ++ s4 ++ s5 ++ s6, cap := cap }
      (trailerSeg (cap - (s1 ++ s2 ++ s3 ++ s4 ++ s5 ++ s6).length)) = _
    rw [hs7]; exact push_step _ s7 h7
  simp only [e1, e2, e3, e4, e5, e6, e7, Option.bind_eq_bind, Option.bind_some, bind, Option.bind]

theorem customCopy_ok (data : List UInt8) (cap : Nat) :
    customCopy data cap = some { out := data.take (min data.length cap), cap := cap } := by
  unfold customCopy
  rw [push?_some _ _ (by simp [Buf.room]; omega)]
  simp

/-- **C14, memory safety.**  For every declaration and every buffer size `advertising_data`
    never writes outside `[buffer, buffer + buffer_size)` (the model's `none`) … -/
theorem adv_never_oob (d : Decl) (wf : d.WF) (cap : Nat) : ∃ out, advData d cap = some out := by
  unfold advData
  split
  · rw [customCopy_ok]; exact ⟨_, rfl⟩
  · obtain ⟨s1, s2, s3, s4, s5, s6, s7, h, _⟩ := autoAdv_segments d wf cap
    rw [h]; exact ⟨_, rfl⟩

/-- … and the returned size (the number of octets written) fits the given buffer; with the
    buffer sizes 0..31 the link layer uses it is therefore at most 31 -/
theorem adv_fits (d : Decl) (wf : d.WF) (cap : Nat) (out : List UInt8) (h : advData d cap = some out) :
    out.length ≤ cap := by
  unfold advData at h
  split at h
  · rw [customCopy_ok] at h
    simp only [Option.map_some, Option.some.injEq] at h
    rw [← h]; simp only [List.length_take]; omega
  · obtain ⟨s1, s2, s3, s4, s5, s6, s7, he, hl, _⟩ := autoAdv_segments d wf cap
    rw [he] at h
    simp only [Option.map_some, Option.some.injEq] at h
    rw [← h]; exact hl

theorem scan_rsp_never_oob (d : Decl) (cap : Nat) : ∃ out, scanRsp d cap = some out := by
  unfold scanRsp
  split
  · rw [customCopy_ok]; exact ⟨_, rfl⟩
  · split
    · exact ⟨_, rfl⟩
    · rw [push?_some _ _ (by simp [Buf.room]; omega)]; exact ⟨_, rfl⟩

/-- **C14, scan response** (the statement that fails on the unpatched code for buffer sizes 0, 1) -/
theorem scan_rsp_fits (d : Decl) (cap : Nat) (out : List UInt8) (h : scanRsp d cap = some out) :
    out.length ≤ cap := by
  unfold scanRsp at h
  split at h
  · rw [customCopy_ok] at h
    simp only [Option.map_some, Option.some.injEq] at h
    rw [← h]; simp only [List.length_take]; omega
  · split at h
    · simp only [Option.some.injEq] at h; rw [← h]; simp
    · rw [push?_some _ _ (by simp [Buf.room]; omega)] at h
      simp only [Option.map_some, Option.some.injEq] at h
      rw [← h]; simp; omega

/-- the automatic scan response is the empty AD structure pair `00 00` or nothing -/
theorem scan_rsp_auto (d : Decl) (cap : Nat) (h : d.customScan = none) :
    scanRsp d cap = some (if cap < 2 then [] else [0, 0]) := by
  unfold scanRsp
  simp only [h]
  split
  · rfl
  · rw [push?_some _ _ (by simp [Buf.room]; omega)]; rfl

/-- **C14, flags.**  Whenever three octets are available the automatic advertising data start
    with the flags AD structure `02 01 06` -/
theorem flags_present (d : Decl) (wf : d.WF) (cap : Nat) (h3 : 3 ≤ cap) (hc : d.customAdv = none)
    (out : List UInt8) (h : advData d cap = some out) : out.take 3 = [2, 1, 6] := by
  unfold advData at h
  simp only [hc] at h
  obtain ⟨s1, s2, s3, s4, s5, s6, s7, he, _, h1, _⟩ := autoAdv_segments d wf cap
  rw [he] at h
  simp only [Option.map_some, Option.some.injEq] at h
  have : s1 = [2, 1, 6] := by rw [h1]; simp [flagsSeg, h3]
  rw [← h, this]; simp

/-- **C14, name.**  The name segment is empty, or the complete name marked `09`, or a non-empty
    proper prefix marked `08` (shortened) -/
theorem name_complete_or_shortened (d : Decl) (r : Nat) :
    nameSeg d r = [] ∨
    ∃ n k, d.name = some n ∧ 0 < k ∧ k ≤ n.length ∧
      nameSeg d r = [u8 (k + 1), if k = n.length then 0x09 else 0x08] ++ n.take k := by
  unfold nameSeg
  split
  · exact Or.inl rfl
  · rename_i n hn
    split
    · exact Or.inl rfl
    · simp only
      split
      · exact Or.inr ⟨n, min n.length (r - 2), hn, by omega, by omega, rfl⟩
      · exact Or.inl rfl

/-- **C14, 16 bit service UUIDs.**  The segment is empty, or lists the first `k ≥ 1` UUIDs of the
    selected list, marked `03` (complete) exactly when `k` is the whole list, else `02` -/
theorem uuid16_complete_or_incomplete (d : Decl) (r : Nat) :
    list16Seg d r = [] ∨
    ∃ k, 0 < k ∧ k ≤ (eff16 d).length ∧
      list16Seg d r = [u8 (1 + 2 * k), if k = (eff16 d).length then 0x03 else 0x02]
        ++ (((eff16 d).take k).map le16).flatten := by
  unfold list16Seg
  simp only
  split
  · exact Or.inl rfl
  · rename_i he
    split
    · exact Or.inl rfl
    · refine Or.inr ⟨min ((r - 2) / 2) (eff16 d).length, ?_, by omega, rfl⟩
      have : 0 < (eff16 d).length := by
        cases h : eff16 d with
        | nil => simp [h] at he
        | cons a t => simp
      omega

/-- non-vacuity: a declaration with name, appearance and an implicit list in a 20 octet buffer -/
example :
    advData { name := some [0x42, 0x74], appearance := 0x03c1, advAppearance := true, svc16 := [0x1234], svc128 := [],
              gap := true, noList := false, list16 := none, list128 := none, range := none, customAdv := none,
              customScan := none } 20 =
      some [2, 1, 6, 3, 0x19, 0xc1, 0x03, 3, 9, 0x42, 0x74, 5, 3, 0x34, 0x12, 0x00, 0x18, 0, 0] := by
  decide

end BluetoeModel.AdvData
