import BluetoeModel.AdvData.Props
/-!
  # C14 — exact tiling and the 128 bit UUID list marking

  "… consist of length-prefixed AD structures that exactly tile the payload … and list the …
  service UUIDs either completely or marked as shortened/incomplete."

  `Tiles l`: `l` is a concatenation of AD structures `[len] ++ body` with `len = body.length`
  (`body` = AD type + AD data; `len = 0` is the early-termination structure of Core Spec Vol 3 Part C
  11, which is what the trailing `00 00` of bluetoe is).  `parseAds` is the executable reading of
  the same thing (what a scanner does); `tiles_parse` ties the two.
-/
namespace BluetoeModel.AdvData

/-- `l` is exactly tiled by AD structures `[len, body(len)]` -/
inductive Tiles : List UInt8 → Prop
  | nil : Tiles []
  | cons (body rest : List UInt8) : body.length < 256 → Tiles rest → Tiles (u8 body.length :: (body ++ rest))

/-- what a scanner does: split into AD structures; `none`: a length octet points behind the end -/
def parseAds : List UInt8 → Option (List (List UInt8))
  | [] => some []
  | n :: rest =>
    if n.toNat ≤ rest.length then (parseAds (rest.drop n.toNat)).map (rest.take n.toNat :: ·) else none
termination_by l => l.length
decreasing_by simp only [List.length_drop, List.length_cons]; omega

theorem u8_toNat (n : Nat) (h : n < 256) : (u8 n).toNat = n := by
  simp only [u8, UInt8.toNat_ofNat']; omega

/-- a tiled list parses, consuming every octet, into bodies that re-assemble to the list -/
theorem tiles_parse (l : List UInt8) (h : Tiles l) :
    ∃ ads, parseAds l = some ads ∧ (ads.map (fun a => u8 a.length :: a)).flatten = l := by
  induction h with
  | nil => exact ⟨[], by simp [parseAds], rfl⟩
  | cons body rest hb _ ih =>
    obtain ⟨ads, hp, hf⟩ := ih
    refine ⟨body :: ads, ?_, ?_⟩
    · rw [parseAds]
      simp only [u8_toNat _ hb, List.length_append, Nat.le_add_right, ↓reduceIte,
        List.drop_left, List.take_left, hp, Option.map_some]
    · simp only [List.map_cons, List.flatten_cons, hf, List.cons_append]

theorem tiles_append (a b : List UInt8) (ha : Tiles a) (hb : Tiles b) : Tiles (a ++ b) := by
  induction ha with
  | nil => simpa using hb
  | cons body rest hl _ ih =>
    have := Tiles.cons body (rest ++ b) hl ih
    simpa only [List.cons_append, List.append_assoc] using this

/-- one AD structure -/
theorem tiles_one (body : List UInt8) (n : Nat) (hn : n = body.length) (h : n < 256) :
    Tiles (u8 n :: body) := by
  subst hn
  simpa using Tiles.cons body [] h Tiles.nil

theorem tiles_flags (cap : Nat) : Tiles (flagsSeg cap) := by
  unfold flagsSeg; split
  · exact tiles_one [1, 6] 2 rfl (by omega)
  · exact Tiles.nil

theorem tiles_appearance (d : Decl) (r : Nat) : Tiles (appearanceSeg d r) := by
  unfold appearanceSeg le16; split
  · exact tiles_one _ 3 rfl (by omega)
  · exact Tiles.nil

theorem tiles_name (d : Decl) (r : Nat) (hr : r ≤ 256) : Tiles (nameSeg d r) := by
  unfold nameSeg
  split
  · exact Tiles.nil
  · split
    · exact Tiles.nil
    · split
      · apply tiles_one
        · simp only [List.append_eq, List.length_append, List.length_cons, List.length_nil, List.length_take]; omega
        · omega
      · exact Tiles.nil

theorem tiles_list16 (d : Decl) (r : Nat) (hr : r ≤ 256) : Tiles (list16Seg d r) := by
  unfold list16Seg
  simp only
  split
  · exact Tiles.nil
  · split
    · exact Tiles.nil
    · apply tiles_one
      · simp only [List.append_eq, List.length_append, List.length_cons, List.length_nil, flatten_le16_len, List.length_take]; omega
      · omega

theorem flatten_len16 (l : List (List UInt8)) (h : ∀ u ∈ l, u.length = 16) : l.flatten.length = 16 * l.length := by
  induction l with
  | nil => rfl
  | cons a t ih =>
    have ha := h a (by simp)
    have := ih (fun u hu => h u (by simp [hu]))
    simp only [List.flatten_cons, List.length_append, List.length_cons, ha, this]; omega

/-- src: `for_< UUID128... >::each( uuid_128_writer )`: the per-UUID guard copies exactly the first
    `min ((room - written) / 16) n` UUIDs -/
theorem fold128_eq (r : Nat) (l : List (List UInt8)) (h16 : ∀ u ∈ l, u.length = 16) (acc : List UInt8)
    (h : acc.length ≤ r) :
    l.foldl (write128 r) acc = acc ++ (l.take (min ((r - acc.length) / 16) l.length)).flatten := by
  induction l generalizing acc with
  | nil => simp
  | cons u t ih =>
    have hu := h16 u (by simp)
    have ht : ∀ v ∈ t, v.length = 16 := fun v hv => h16 v (by simp [hv])
    simp only [List.foldl_cons, List.length_cons]
    have hw : write128 r acc u = if acc.length + 16 ≤ r then acc ++ u else acc := rfl
    rw [hw]
    split
    · rename_i hfit
      rw [ih ht _ (by simp only [List.length_append]; omega)]
      simp only [List.length_append, hu]
      have e : min ((r - acc.length) / 16) (t.length + 1) = min ((r - (acc.length + 16)) / 16) t.length + 1 := by omega
      rw [e, List.take_succ_cons, List.flatten_cons, List.append_assoc]
    · rename_i hno
      have e : min ((r - acc.length) / 16) (t.length + 1) = 0 := by omega
      have e' : min ((r - acc.length) / 16) t.length = 0 := by omega
      rw [ih ht _ h, e, e']
      simp

/-- **C14, 128 bit service UUIDs.**  The segment is empty, or lists exactly the first `k ≥ 1` UUIDs of
    the selected list, marked `07` (complete) exactly when `k` is the whole list, else `06` -/
theorem uuid128_complete_or_incomplete (d : Decl) (wf : d.WF) (r : Nat) :
    list128Seg d r = [] ∨
    ∃ k, 0 < k ∧ k ≤ (eff128 d).length ∧
      list128Seg d r = [u8 (1 + 16 * k), if k = (eff128 d).length then 0x07 else 0x06]
        ++ ((eff128 d).take k).flatten := by
  unfold list128Seg
  simp only
  split
  · exact Or.inl rfl
  · rename_i he
    split
    · exact Or.inl rfl
    · rename_i hr
      have hpos : 0 < (eff128 d).length := by
        cases h : eff128 d with
        | nil => simp [h] at he
        | cons a t => simp
      refine Or.inr ⟨min ((r - 2) / 16) (eff128 d).length, by omega, by omega, ?_⟩
      rw [fold128_eq r _ wf _ (by simp only [List.length_cons, List.length_nil]; omega)]
      simp only [List.length_cons, List.length_nil, Nat.zero_add, Nat.reduceAdd]

theorem tiles_list128 (d : Decl) (wf : d.WF) (r : Nat) (hr : r ≤ 256) : Tiles (list128Seg d r) := by
  rcases hseg : list128Seg d r with _ | _
  · exact Tiles.nil
  · rw [← hseg]
    have hlen := list128_len d wf r
    rcases uuid128_complete_or_incomplete d wf r with h | ⟨k, hk, hkl, h⟩
    · rw [h]; exact Tiles.nil
    · rw [h] at hlen ⊢
      have hf : ((eff128 d).take k).flatten.length = 16 * k := by
        rw [flatten_len16 _ (fun u hu => wf u (List.mem_of_mem_take hu)), List.length_take]; omega
      simp only [List.cons_append, List.nil_append, List.length_cons, hf] at hlen
      apply tiles_one
      · simp only [List.append_eq, List.length_append, List.length_cons, List.length_nil, hf]
      · omega

theorem tiles_range (d : Decl) (r : Nat) : Tiles (rangeSeg d r) := by
  unfold rangeSeg le16
  split
  · split
    · exact tiles_one _ 5 rfl (by omega)
    · exact Tiles.nil
  · exact Tiles.nil

theorem tiles_trailer (r : Nat) : Tiles (trailerSeg r) := by
  unfold trailerSeg; split
  · exact tiles_append [0] [0] (tiles_one [] 0 rfl (by omega)) (tiles_one [] 0 rfl (by omega))
  · exact Tiles.nil

/-- **C14, exact tiling of the generated advertising data.**  For every declaration without custom
    advertising data and every buffer size up to 256 (the property: 0..31) the octets written by
    `advertising_data` are a sequence of AD structures `[len, type, payload(len-1)]` (closed by up to two
    zero-length structures) that consumes exactly the returned size -/
theorem adv_tiles (d : Decl) (wf : d.WF) (cap : Nat) (hcap : cap ≤ 256) (hc : d.customAdv = none)
    (out : List UInt8) (h : advData d cap = some out) : Tiles out := by
  unfold advData at h
  simp only [hc] at h
  obtain ⟨s1, s2, s3, s4, s5, s6, s7, he, _, h1, h2, h3, h4, h5, h6, h7⟩ := autoAdv_segments d wf cap
  rw [he] at h
  simp only [Option.map_some, Option.some.injEq] at h
  rw [← h]
  have t1 : Tiles s1 := h1 ▸ tiles_flags cap
  have t2 : Tiles s2 := h2 ▸ tiles_appearance d _
  have t3 : Tiles s3 := h3 ▸ tiles_name d _ (by omega)
  have t4 : Tiles s4 := h4 ▸ tiles_list16 d _ (by omega)
  have t5 : Tiles s5 := h5 ▸ tiles_list128 d wf _ (by omega)
  have t6 : Tiles s6 := h6 ▸ tiles_range d _
  have t7 : Tiles s7 := h7 ▸ tiles_trailer _
  exact tiles_append _ _ (tiles_append _ _ (tiles_append _ _ (tiles_append _ _ (tiles_append _ _
    (tiles_append _ _ t1 t2) t3) t4) t5) t6) t7

/-- the scanner's reading of it: the parse succeeds and re-assembles to exactly the returned octets -/
theorem adv_parses (d : Decl) (wf : d.WF) (cap : Nat) (hcap : cap ≤ 256) (hc : d.customAdv = none)
    (out : List UInt8) (h : advData d cap = some out) :
    ∃ ads, parseAds out = some ads ∧ (ads.map (fun a => u8 a.length :: a)).flatten = out :=
  tiles_parse out (adv_tiles d wf cap hcap hc out h)

/-- **C14, custom advertising / scan response data are opaque.**  `custom_…_data< Size, Data >` and
    `runtime_custom_…_data` hand the user's octets to the link layer verbatim: the output is the prefix
    of the user data that fits the buffer, nothing is added, re-ordered or interpreted.  (Flags, name
    and UUID lists are then the user's business; so is the AD structure of the octets.) -/
theorem custom_adv_verbatim (d : Decl) (cap : Nat) (data : List UInt8) (hc : d.customAdv = some data) :
    advData d cap = some (data.take cap) := by
  unfold advData
  simp only [hc, customCopy_ok, Option.map_some]
  congr 1
  rw [List.take_eq_take_iff]; omega

theorem custom_scan_verbatim (d : Decl) (cap : Nat) (data : List UInt8) (hc : d.customScan = some data) :
    scanRsp d cap = some (data.take cap) := by
  unfold scanRsp
  simp only [hc, customCopy_ok, Option.map_some]
  congr 1
  rw [List.take_eq_take_iff]; omega

/-- consequently: user data that are well-formed and fit the buffer are advertised well-formed -/
theorem custom_adv_tiles (d : Decl) (cap : Nat) (data : List UInt8) (hc : d.customAdv = some data)
    (hfit : data.length ≤ cap) (ht : Tiles data) : ∃ out, advData d cap = some out ∧ out = data ∧ Tiles out := by
  refine ⟨data, ?_, rfl, ht⟩
  rw [custom_adv_verbatim d cap data hc, List.take_of_length_le hfit]

theorem custom_scan_tiles (d : Decl) (cap : Nat) (data : List UInt8) (hc : d.customScan = some data)
    (hfit : data.length ≤ cap) (ht : Tiles data) : ∃ out, scanRsp d cap = some out ∧ out = data ∧ Tiles out := by
  refine ⟨data, ?_, rfl, ht⟩
  rw [custom_scan_verbatim d cap data hc, List.take_of_length_le hfit]

/-- **C14, scan response tiles.**  The generated scan response is `00 00` or empty -/
theorem scan_rsp_tiles (d : Decl) (cap : Nat) (hc : d.customScan = none) (out : List UInt8)
    (h : scanRsp d cap = some out) : Tiles out := by
  rw [scan_rsp_auto d cap hc] at h
  simp only [Option.some.injEq] at h
  rw [← h]
  split
  · exact Tiles.nil
  · exact tiles_append [0] [0] (tiles_one [] 0 rfl (by omega)) (tiles_one [] 0 rfl (by omega))

/-- **C14, the whole sentence for generated advertising data**, every declaration, every buffer size
    0..31: no out-of-bounds write, fits the buffer and 31 octets, exact tiling, flags first (as soon as
    three octets are available), then appearance, name (complete `09` / shortened `08` / omitted),
    16 bit list (complete `03` / incomplete `02` / omitted), 128 bit list (complete `07` / incomplete
    `06` / omitted), interval range, terminator. -/
theorem adv_wellformed (d : Decl) (wf : d.WF) (cap : Nat) (hcap : cap ≤ 31) (hc : d.customAdv = none) :
    ∃ out, advData d cap = some out ∧ out.length ≤ cap ∧ out.length ≤ 31 ∧ Tiles out
      ∧ (3 ≤ cap → out.take 3 = [2, 1, 6])
      ∧ ∃ app name l16 l128 range trailer : List UInt8,
          out = flagsSeg cap ++ app ++ name ++ l16 ++ l128 ++ range ++ trailer
          ∧ (name = [] ∨ ∃ n k, d.name = some n ∧ 0 < k ∧ k ≤ n.length ∧
              name = [u8 (k + 1), if k = n.length then 0x09 else 0x08] ++ n.take k)
          ∧ (l16 = [] ∨ ∃ k, 0 < k ∧ k ≤ (eff16 d).length ∧
              l16 = [u8 (1 + 2 * k), if k = (eff16 d).length then 0x03 else 0x02]
                ++ (((eff16 d).take k).map le16).flatten)
          ∧ (l128 = [] ∨ ∃ k, 0 < k ∧ k ≤ (eff128 d).length ∧
              l128 = [u8 (1 + 16 * k), if k = (eff128 d).length then 0x07 else 0x06]
                ++ ((eff128 d).take k).flatten) := by
  obtain ⟨out, ho⟩ := adv_never_oob d wf cap
  have hfit := adv_fits d wf cap out ho
  refine ⟨out, ho, hfit, by omega, adv_tiles d wf cap (by omega) hc out ho,
    fun h3 => flags_present d wf cap h3 hc out ho, ?_⟩
  obtain ⟨s1, s2, s3, s4, s5, s6, s7, he, _, h1, _, h3, h4, h5, _, _⟩ := autoAdv_segments d wf cap
  unfold advData at ho
  simp only [hc, he, Option.map_some, Option.some.injEq] at ho
  refine ⟨s2, s3, s4, s5, s6, s7, by rw [← ho, h1], ?_, ?_, ?_⟩
  · rw [h3]; exact name_complete_or_shortened d _
  · rw [h4]; exact uuid16_complete_or_incomplete d _
  · rw [h5]; exact uuid128_complete_or_incomplete d wf _

/-- non-vacuity (`adv_tiles`, `uuid128_complete_or_incomplete`): two 128 bit UUIDs declared, 31 octets:
    one fits, the list is marked incomplete `06` -/
example :
    let u1 : List UInt8 := [1, 2, 3, 4, 5, 6, 7, 8, 9, 10, 11, 12, 13, 14, 15, 16]
    let u2 : List UInt8 := [21, 22, 23, 24, 25, 26, 27, 28, 29, 30, 31, 32, 33, 34, 35, 36]
    let d : Decl := { name := some [0x42, 0x74], appearance := 0, advAppearance := false, svc16 := [], svc128 := [u1, u2],
                      gap := false, noList := false, list16 := none, list128 := none, range := none,
                      customAdv := none, customScan := none }
    d.WF ∧ advData d 31 = some ([2, 1, 6, 3, 9, 0x42, 0x74, 17, 6] ++ u1 ++ [0, 0]) := by
  refine ⟨?_, by decide⟩
  intro u hu
  simp [eff128] at hu
  rcases hu with rfl | rfl <;> rfl

/-- non-vacuity (`custom_adv_tiles`): well-formed user data of 5 octets in a 31 octet buffer -/
example : Tiles [2, 1, 6, 1, 0xff] :=
  tiles_append [2, 1, 6] [1, 0xff] (tiles_one [1, 6] 2 rfl (by omega)) (tiles_one [0xff] 1 rfl (by omega))

/-- the opaque data are cut where the buffer ends: 5 octets of user data in a 4 octet buffer end inside
    the second structure (no claim of the property: the library does not generate these octets) -/
example : parseAds ([2, 1, 6, 1, 0xff].take 4) = none := by
  simp [parseAds]

end BluetoeModel.AdvData
