/-
  Line-protocol helpers shared by all model drivers (core Lean only, no Mathlib).

  A driver reads one operation per line from stdin and prints exactly one line per operation.
  Byte strings travel as lower-case hex without separators; the empty byte string is `-`.
-/
namespace BluetoeModel.Util

def hexDigit (n : Nat) : Char :=
  if n < 10 then Char.ofNat (48 + n) else Char.ofNat (87 + n)

def hexByte (b : UInt8) : String :=
  String.ofList [hexDigit (b.toNat / 16), hexDigit (b.toNat % 16)]

/-- lower-case hex, `-` for the empty list -/
def toHex (bs : List UInt8) : String :=
  if bs.isEmpty then "-" else String.join (bs.map hexByte)

def hexVal (c : Char) : Option Nat :=
  if '0' ≤ c ∧ c ≤ '9' then some (c.toNat - 48)
  else if 'a' ≤ c ∧ c ≤ 'f' then some (c.toNat - 87)
  else if 'A' ≤ c ∧ c ≤ 'F' then some (c.toNat - 55)
  else none

def parseHexChars : List Char → Option (List UInt8)
  | [] => some []
  | [_] => none
  | a :: b :: rest => do
      let x ← hexVal a
      let y ← hexVal b
      let r ← parseHexChars rest
      pure (UInt8.ofNat (x * 16 + y) :: r)

/-- inverse of `toHex`; `-` is the empty list -/
def parseHex (s : String) : Option (List UInt8) :=
  if s == "-" then some [] else parseHexChars s.toList

def words (line : String) : List String :=
  (line.trimAscii.toString.splitOn " ").filter (· ≠ "")

def boolStr (b : Bool) : String := if b then "1" else "0"

def parseBool (s : String) : Option Bool :=
  if s == "1" then some true else if s == "0" then some false else none

/-- read stdin to the end, feeding each line to `step`; one output line per input line -/
partial def lineLoop {σ : Type} (step : σ → List String → σ × String) (init : σ) : IO Unit := do
  let stdin ← IO.getStdin
  let stdout ← IO.getStdout
  let rec loop (s : σ) : IO Unit := do
    let line ← stdin.getLine
    if line.isEmpty then
      stdout.flush
      return ()
    let (s', out) := step s (words line)
    stdout.putStrLn out
    loop s'
  loop init

end BluetoeModel.Util
