import BluetoeModel.LlControl.SecLemmas
/-!
  Invariant behind `callbacks_well_ordered_partial` (C29): as long as no event was refused by the
  ring (`dropped = 0`) and `disconnect()` was not called before the first connection event
  (`early = false`), the language automaton run over everything reported so far plus everything
  pending in the ring is in the state that corresponds to the link layer's state.
-/
namespace BluetoeModel.LlControl

/-- the language `(requested (attempt_timeout | established other* closed))*` as an automaton -/
inductive LState where
  | idle | requested | established | bad
deriving DecidableEq, Repr

def isOther : Event → Bool
  | .changed | .version _ | .rejected _ | .unknown _ | .features _ | .phy _ _ => true
  | _ => false

def lstep : LState → Event → LState
  | .idle, .requested => .requested
  | .requested, .attemptTimeout => .idle
  | .requested, .established => .established
  | .established, .closed _ => .idle
  | .established, e => if isOther e then .established else .bad
  | _, _ => .bad

/-- the automaton state that belongs to a link layer state -/
def lstateOf : Phase → LState
  | .advertising => .idle
  | .connecting => .requested
  | _ => .established

def Est (p : Phase) : Prop := p = .connected ∨ p = .disconnecting ∨ p = .connectionChanged

theorem lstateOf_est {p : Phase} (h : Est p) : lstateOf p = .established := by
  rcases h with h | h | h <;> subst h <;> rfl

theorem est_ne_adv {p : Phase} (h : Est p) : p ≠ .advertising := by
  rcases h with h | h | h <;> subst h <;> simp

theorem foldl_other (es : List Event) (h : ∀ e ∈ es, isOther e = true) :
    es.foldl lstep .established = .established := by
  induction es with
  | nil => rfl
  | cons e es ih =>
    have he := h e (by simp)
    have : lstep .established e = .established := by
      cases e <;> simp_all [lstep, isOther]
    simp only [List.foldl_cons, this]
    exact ih (fun e' he' => h e' (by simp [he']))

/-- what the "inner" functions of a radio callback do to the callback queue: they only append
    events of the `other` class (or get one refused), stay within the established states and do
    not touch `early` -/
structure Quiet (s s' : State) : Prop where
  early : s'.early = s.early
  mono  : s.dropped ≤ s'.dropped
  phase : Est s.phase → Est s'.phase
  ring  : s'.dropped = s.dropped → ∃ es, s'.ring = s.ring ++ es ∧ ∀ e ∈ es, isOther e = true

theorem Quiet.of_eq {s s' : State} (h1 : s'.early = s.early) (h2 : s'.dropped = s.dropped)
    (h3 : s'.ring = s.ring) (h4 : s'.phase = s.phase) : Quiet s s' :=
  ⟨h1, by omega, by rw [h4]; exact id, fun _ => ⟨[], by simp [h3], by simp⟩⟩

theorem Quiet.refl (s : State) : Quiet s s := Quiet.of_eq rfl rfl rfl rfl

theorem Quiet.trans {a b c : State} (h1 : Quiet a b) (h2 : Quiet b c) : Quiet a c := by
  refine ⟨h2.early.trans h1.early, Nat.le_trans h1.mono h2.mono, fun h => h2.phase (h1.phase h), ?_⟩
  intro hd
  have m1 := h1.mono
  have m2 := h2.mono
  obtain ⟨e1, r1, o1⟩ := h1.ring (by omega)
  obtain ⟨e2, r2, o2⟩ := h2.ring (by omega)
  refine ⟨e1 ++ e2, by rw [r2, r1, List.append_assoc], ?_⟩
  intro e he
  rcases List.mem_append.mp he with h | h
  · exact o1 e h
  · exact o2 e h

theorem quiet_commit (s : State) (p : Pdu) : Quiet s (commit s p) := by
  unfold commit; split
  · exact Quiet.refl s
  · exact Quiet.of_eq rfl rfl rfl rfl

theorem quiet_push (s : State) (e : Event) (h : isOther e = true) : Quiet s (push s e) := by
  unfold push; split
  · exact ⟨rfl, Nat.le_refl _, id, fun _ => ⟨[e], rfl, by simpa using h⟩⟩
  · refine ⟨rfl, by simp, id, ?_⟩
    intro hd
    simp at hd

theorem quiet_push_of {s t : State} (hq : Quiet s t) (e : Event) (h : isOther e = true) :
    Quiet s (push t e) := Quiet.trans hq (quiet_push t e h)

theorem quiet_commit_of {s t : State} (hq : Quiet s t) (p : Pdu) : Quiet s (commit t p) :=
  Quiet.trans hq (quiet_commit t p)

macro "qpush" : tactic =>
  `(tactic| (refine quiet_push_of ?_ _ ?_ <;> first | rfl | exact Quiet.of_eq rfl rfl rfl rfl))

theorem quiet_handleRejects (s : State) (o : UInt8) (b : Bytes) : Quiet s (handleRejects s o b) := by
  unfold handleRejects
  refine Quiet.trans (b := if ¬ (o = LL_UNKNOWN_RSP ∨ o = LL_REJECT_EXT_IND) ∨ rd8 b 1 = LL_CONNECTION_PARAM_REQ
      then endsProcedure s o else s) ?_ (quiet_push _ _ ?_)
  · split
    · exact Quiet.of_eq rfl rfl rfl rfl
    · exact Quiet.refl s
  · split <;> rfl

theorem quiet_encryptionPdus (s : State) (o : UInt8) (n : Nat) (b : Bytes) (s' : State) (r : Option Pdu)
    (h : handleEncryptionPdus s o n b = some (s', r)) : Quiet s s' := by
  unfold handleEncryptionPdus at h
  split at h
  · simp at h
  split at h
  · simp only [Option.some.injEq, Prod.mk.injEq] at h
    obtain ⟨rfl, -⟩ := h
    exact Quiet.of_eq rfl rfl rfl rfl
  split at h
  · simp only [Option.some.injEq, Prod.mk.injEq] at h
    obtain ⟨rfl, -⟩ := h
    split
    · qpush
    · exact Quiet.of_eq rfl rfl rfl rfl
  split at h
  · simp only [Option.some.injEq, Prod.mk.injEq] at h
    obtain ⟨rfl, -⟩ := h
    split
    · qpush
    · exact Quiet.of_eq rfl rfl rfl rfl
  split at h
  · simp only [Option.some.injEq, Prod.mk.injEq] at h
    obtain ⟨rfl, -⟩ := h
    split
    · qpush
    · exact Quiet.of_eq rfl rfl rfl rfl
  · simp at h

theorem quiet_phyRequest (s : State) (p : Pdu) (o : UInt8) (n : Nat) (s' : State) (r : Option Pdu)
    (h : handlePhyRequest s p o n = some (s', r)) : Quiet s s' := by
  unfold handlePhyRequest at h
  simp only [] at h
  split at h
  · simp at h
  split at h
  · simp only [Option.some.injEq, Prod.mk.injEq] at h
    obtain ⟨rfl, -⟩ := h
    exact Quiet.refl _
  split at h
  · split at h
    · simp at h
    split at h
    · simp only [Option.some.injEq, Prod.mk.injEq] at h
      obtain ⟨rfl, -⟩ := h
      exact quiet_push _ _ rfl
    · simp only [Option.some.injEq, Prod.mk.injEq] at h
      obtain ⟨rfl, -⟩ := h
      exact Quiet.of_eq rfl rfl rfl rfl
  · simp at h

theorem quiet_phyInstantCheck (s : State) : Quiet s (phyInstantCheck s).1 := by
  unfold phyInstantCheck; split
  · exact Quiet.of_eq rfl rfl rfl rfl
  · exact Quiet.refl _

theorem quiet_ctlOther (s : State) (p : Pdu) (o : UInt8) (n : Nat) : Quiet s (ctlOther s p o n).1 := by
  unfold ctlOther
  split
  · rename_i s' rsp h
    exact Quiet.trans (quiet_encryptionPdus _ _ _ _ _ _ h) (quiet_commit _ _)
  · rename_i s' h
    exact quiet_encryptionPdus _ _ _ _ _ _ h
  · split
    · rename_i s' rsp h
      exact Quiet.trans (Quiet.trans (quiet_phyRequest _ _ _ _ _ _ h) (quiet_phyInstantCheck s')) (quiet_commit _ _)
    · rename_i s' h
      exact Quiet.trans (quiet_phyRequest _ _ _ _ _ _ h) (quiet_phyInstantCheck s')
    · split
      · exact quiet_commit _ _
      · exact Quiet.refl _

theorem quiet_handleControl (s : State) (p : Pdu) : Quiet s (handleControl s p).1 := by
  unfold handleControl handleControlAux
  split
  · unfold ctlConnectionUpdate; split <;> exact Quiet.of_eq rfl rfl rfl rfl
  split
  · exact Quiet.of_eq rfl rfl rfl rfl
  split
  · unfold ctlVersion
    (refine quiet_commit_of ?_ _; qpush)
  split
  · unfold ctlChannelMap; split <;> exact Quiet.of_eq rfl rfl rfl rfl
  split
  · exact quiet_commit _ _
  split
  · unfold ctlFeature
    (refine quiet_commit_of ?_ _; qpush)
  split
  · exact quiet_handleRejects _ _ _
  split
  · exact quiet_commit _ _
  · exact quiet_ctlOther _ _ _ _

theorem quiet_l2capInput (s : State) (b : Bytes) : Quiet s (l2capInput s b) := by
  unfold l2capInput
  split
  · split
    · exact quiet_commit _ _
    · exact quiet_commit _ _
  · exact Quiet.refl _

theorem quiet_handleReceivedLoop (q : List Pdu) : ∀ s : State, Quiet s (handleReceivedLoop s q).1 := by
  induction q with
  | nil => intro s; exact Quiet.of_eq rfl rfl rfl rfl
  | cons p rest ih =>
    intro s
    unfold handleReceivedLoop
    split
    · exact Quiet.of_eq rfl rfl rfl rfl
    split
    · have hc := quiet_handleControl s p
      generalize handleControl s p = res at hc
      obtain ⟨s', disc⟩ := res
      simp only
      split
      · exact Quiet.trans hc (Quiet.of_eq rfl rfl rfl rfl)
      · exact Quiet.trans hc (ih s')
    split
    · exact Quiet.trans (quiet_l2capInput s p.body) (ih _)
    · exact Quiet.of_eq rfl rfl rfl rfl

theorem quiet_handleReceived (s : State) : Quiet s (handleReceived s).1 := by
  unfold handleReceived; split
  · exact Quiet.refl _
  · exact quiet_handleReceivedLoop _ _

theorem quiet_sendControlPdus (s : State) : Quiet s (sendControlPdus s) := by
  unfold sendControlPdus; split
  · exact Quiet.trans (quiet_commit _ _) (Quiet.of_eq rfl rfl rfl rfl)
  · exact Quiet.refl _

theorem quiet_transmitPendingSecurity (s : State) : Quiet s (transmitPendingSecurity s) := by
  unfold transmitPendingSecurity
  split
  · exact Quiet.refl _
  split
  · exact Quiet.trans (quiet_commit _ _) (Quiet.of_eq rfl rfl rfl rfl)
  · exact Quiet.trans (quiet_commit _ _) (Quiet.of_eq rfl rfl rfl rfl)

theorem quiet_decTimeout (s : State) : Quiet s (decTimeout s) := by
  unfold decTimeout; split
  · exact Quiet.of_eq rfl rfl rfl rfl
  · exact Quiet.refl _

theorem quiet_applyDeferred (s : State) (p : Pdu) : Quiet s (applyDeferred s p).1 := by
  unfold applyDeferred
  split
  · exact Quiet.of_eq rfl rfl rfl rfl
  split
  · split
    · refine quiet_push_of ?_ _ ?_
      · exact ⟨rfl, Nat.le_refl _, fun _ => Or.inr (Or.inr rfl), fun _ => ⟨[], by simp, by simp⟩⟩
      · rfl
    · exact Quiet.of_eq rfl rfl rfl rfl
  · qpush

theorem quiet_handlePending (s : State) : Quiet s (handlePending s).1 := by
  unfold handlePending
  split
  · exact Quiet.refl _
  · split
    · exact Quiet.refl _
    · exact quiet_applyDeferred _ _

theorem quiet_transmitPendingControl (s : State) : Quiet s (transmitPendingControl s) := by
  unfold transmitPendingControl
  split
  · (refine quiet_commit_of ?_ _; exact Quiet.of_eq rfl rfl rfl rfl)
  split
  · (refine quiet_commit_of ?_ _; exact Quiet.of_eq rfl rfl rfl rfl)
  split
  · (refine quiet_commit_of ?_ _; exact Quiet.of_eq rfl rfl rfl rfl)
  · exact Quiet.refl _

/-- the invariant, relative to the automaton state `l` reached by the callbacks reported before
    the current radio callback -/
structure K (l : LState) (s : State) : Prop where
  defer : s.phase = .advertising ∨ s.phase = .connecting → s.deferred = none
  order : s.dropped = 0 → s.early = false → s.ring.foldl lstep l = lstateOf s.phase

theorem K_quiet {l : LState} {s s' : State} (h : K l s) (hq : Quiet s s') (he : Est s.phase) : K l s' := by
  have he' := hq.phase he
  refine ⟨?_, ?_⟩
  · intro hp
    rcases hp with hp | hp <;> rcases he' with h1 | h1 | h1 <;> rw [h1] at hp <;> simp at hp
  · intro hd hearly
    have m := hq.mono
    have h0 : s.dropped = 0 := by omega
    obtain ⟨es, hr, ho⟩ := hq.ring (by omega)
    have := h.order h0 (by rw [← hq.early]; exact hearly)
    rw [hr, List.foldl_append, this, lstateOf_est he, lstateOf_est he']
    exact foldl_other es ho

@[simp] theorem push_early (s : State) (e : Event) : (push s e).early = s.early := by
  unfold push; split <;> rfl

theorem push_dropped_zero (s : State) (e : Event) (h : (push s e).dropped = 0) :
    s.dropped = 0 ∧ (push s e).ring = s.ring ++ [e] := by
  unfold push at h ⊢
  split
  · rename_i hl; rw [if_pos hl] at h; exact ⟨h, rfl⟩
  · rename_i hl; rw [if_neg hl] at h; simp at h

theorem K_forceDisconnect {l : LState} {s : State} (h : K l s) (hp : s.phase ≠ .advertising) :
    K l (forceDisconnect s) := by
  refine ⟨fun _ => rfl, ?_⟩
  intro hd hearly
  have hd' : (push (resetEncryption s)
      (if s.phase ≠ .connecting then .closed s.reason else .attemptTimeout)).dropped = 0 := hd
  obtain ⟨h0, hr⟩ := push_dropped_zero _ _ hd'
  have he : s.early = false := by
    have : (push (resetEncryption s)
      (if s.phase ≠ .connecting then .closed s.reason else .attemptTimeout)).early = false := hearly
    simpa [resetEncryption] using this
  have ho := h.order h0 he
  show List.foldl lstep l (push (resetEncryption s)
      (if s.phase ≠ .connecting then .closed s.reason else .attemptTimeout)).ring = lstateOf .advertising
  rw [hr]
  simp only [resetEncryption, List.foldl_append, List.foldl_cons, List.foldl_nil]
  rw [ho]
  cases hph : s.phase <;> simp_all [lstateOf, lstep]

theorem K_endEventEnter {l : LState} {s : State} (h : K l s) (hp : s.phase ≠ .advertising) :
    K l (endEventEnter s) ∧ Est (endEventEnter s).phase := by
  unfold endEventEnter
  simp only []
  by_cases hc : s.phase = .connecting
  · rw [if_pos hc]
    have hph : (push s .established).phase ≠ .disconnecting := by simp [hc]
    rw [if_pos hph]
    refine ⟨⟨fun hh => by simp at hh, ?_⟩, Or.inl rfl⟩
    intro hd hearly
    have hd' : (push s .established).dropped = 0 := hd
    obtain ⟨h0, hr⟩ := push_dropped_zero _ _ hd'
    have he : s.early = false := by
      have : (push s .established).early = false := hearly
      simpa using this
    have ho := h.order h0 he
    show List.foldl lstep l (push s .established).ring = lstateOf .connected
    rw [hr, List.foldl_append, ho, hc]
    rfl
  · rw [if_neg hc]
    have hest : Est s.phase := by
      cases hph : s.phase <;> simp_all [Est]
    split
    · exact ⟨K_quiet h ⟨rfl, Nat.le_refl _, fun _ => Or.inl rfl, fun _ => ⟨[], by simp, by simp⟩⟩ hest, Or.inl rfl⟩
    · exact ⟨h, hest⟩

theorem K_endEventPlan {l : LState} {s : State} (h : K l s) (he : Est s.phase) : K l (endEventPlan s) := by
  unfold endEventPlan
  have hq := quiet_handlePending { s with evCounter := (s.evCounter + 1) % 65536, timeSince := s.interval }
  have hk : K l { s with evCounter := (s.evCounter + 1) % 65536, timeSince := s.interval } := ⟨h.defer, h.order⟩
  split
  · rename_i s' heq
    rw [heq] at hq
    have := K_quiet hk hq he
    exact K_forceDisconnect this (est_ne_adv (hq.phase he))
  · rename_i s' heq
    rw [heq] at hq
    have hk' := K_quiet hk hq he
    split
    · exact K_quiet hk' (quiet_transmitPendingControl _) (hq.phase he)
    · exact hk'

theorem K_endEventTail {l : LState} {s : State} (h : K l s) (he : Est s.phase) : K l (endEventTail s) := by
  unfold endEventTail
  split
  · exact K_forceDisconnect (s := { s with reason := 0x22 }) ⟨h.defer, h.order⟩ (est_ne_adv he)
  · have q1 := quiet_decTimeout s
    have q2 := quiet_transmitPendingSecurity (decTimeout s)
    have k2 := K_quiet (K_quiet h q1 he) q2 (q1.phase he)
    exact K_endEventPlan k2 (q2.phase (q1.phase he))

theorem K_endEventBody {l : LState} {s : State} (h : K l s) (he : Est s.phase) : K l (endEventBody s) := by
  unfold endEventBody
  split
  · exact K_forceDisconnect h (est_ne_adv he)
  · have hq := quiet_handleReceived s
    split
    · rename_i s' heq
      rw [heq] at hq
      exact K_forceDisconnect (K_quiet h hq he) (est_ne_adv (hq.phase he))
    · rename_i s' heq
      rw [heq] at hq
      have q2 := quiet_sendControlPdus s'
      exact K_endEventTail (K_quiet (K_quiet h hq he) q2 (hq.phase he)) (q2.phase (hq.phase he))

theorem K_endEvent {l : LState} {s : State} (h : K l s) (hp : s.phase ≠ .advertising) : K l (endEvent s) := by
  have := K_endEventEnter h hp
  exact K_endEventBody this.1 this.2

theorem K_timeoutPlan {l : LState} {s : State} (h : K l s) (hp : s.phase ≠ .advertising) :
    K l (timeoutPlan s) := by
  unfold timeoutPlan
  have hk : K l { s with evCounter := (s.evCounter + 1) % 65536, timeSince := s.timeSince + s.interval } := ⟨h.defer, h.order⟩
  by_cases hc : s.phase = .connecting
  · have hd := h.defer (Or.inr hc)
    have : handlePending { s with evCounter := (s.evCounter + 1) % 65536, timeSince := s.timeSince + s.interval }
        = ({ s with evCounter := (s.evCounter + 1) % 65536, timeSince := s.timeSince + s.interval }, false) := by
      simp [handlePending, hd]
    rw [this]
    exact hk
  · have he : Est s.phase := by cases hph : s.phase <;> simp_all [Est]
    have hq := quiet_handlePending { s with evCounter := (s.evCounter + 1) % 65536, timeSince := s.timeSince + s.interval }
    split
    · rename_i s' heq
      rw [heq] at hq
      exact K_forceDisconnect (K_quiet hk hq he) (est_ne_adv (hq.phase he))
    · rename_i s' heq
      rw [heq] at hq
      exact K_quiet hk hq he

theorem K_timeoutCallback {l : LState} {s : State} (h : K l s) (hp : s.phase ≠ .advertising) :
    K l (timeoutCallback s) := by
  unfold timeoutCallback
  split
  · exact K_forceDisconnect h hp
  split
  · exact K_forceDisconnect (s := { s with reason := 0x22 }) ⟨h.defer, h.order⟩ hp
  split
  · exact K_timeoutPlan h hp
  · exact K_forceDisconnect h hp

theorem K_connect {l : LState} {s : State} (h : K l s) (hp : s.phase = .advertising) (hr : s.ring = [])
    (i t : Nat) : K l (connect s i t) := by
  unfold connect
  simp only []
  refine ⟨?_, ?_⟩
  · intro _
    rw [push_deferred]
    exact h.defer (Or.inl hp)
  · intro hd hearly
    obtain ⟨h0, hr'⟩ := push_dropped_zero _ _ hd
    have he : s.early = false := by simpa using hearly
    have ho := h.order h0 he
    rw [hr'] 
    simp only [hr, List.foldl_nil, hp, lstateOf] at ho
    simp [hr, ho, lstateOf, lstep]

end BluetoeModel.LlControl
