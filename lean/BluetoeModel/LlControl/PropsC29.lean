import BluetoeModel.LlControl.SecLemmas
/-!
  # C29 — Connection lifecycle is reported completely and in order

  "For any sequence of link layer events (connect requests, lost events, control procedures,
  remote terminations, local disconnects), the application's connection callbacks report each
  connection as requested, then established (or attempt timed out), then any changes, then closed
  with the reason, each exactly once and in that order, and no callback refers to a connection
  that was never requested."

  The callbacks are the entries of `ring< 4 >` (`connection_callbacks::events_`), pushed with
  `try_push` whose result is ignored and drained by `handle_connection_events` at the end of
  every radio callback.  The full statement is FALSE of the code (`callbacks_well_ordered_witness`):
  the fifth and later events of one radio callback are dropped.  What is proved for all inputs is
  the behaviour of the queue itself; the simulation invariant "phase = automaton state whenever
  no callback produced more than four events" (`callbacks_well_ordered_partial` of DESIGN §5) is
  NOT proved here — it is evaluated by the monitor on every sampled history.
-/
namespace BluetoeModel.LlControl

/-- the language `(requested (attempt_timeout | established other* closed))*` as an automaton -/
inductive LState where
  | idle | requested | established | bad
deriving DecidableEq, Repr

def isOther : Event → Bool
  | .changed | .version _ | .rejected _ | .unknown _ | .features _ | .phy _ _ => true
  | _ => false

def lstep : LState → Event → LState
  | .idle, .requested => .requested
  | .requested, .attemptTimeout => .idle
  | .requested, .established => .established
  | .established, .closed _ => .idle
  | .established, e => if isOther e then .established else .bad
  | _, _ => .bad

/-- all callbacks of a history, in order -/
def trace : List Out → List Event
  | [] => []
  | o :: os => o.cbs ++ trace os

/-- what the callbacks say must be what the link layer is in -/
def agree : Phase → LState → Bool
  | .advertising, .idle => true
  | .connecting, .requested => true
  | .connected, .established => true
  | .disconnecting, .established => true
  | .connectionChanged, .established => true
  | _, _ => false

/-- **C29 at full strength**: after every history the callback trace is a word of the language
    (never `bad`: order, exactly once, nothing for a connection that was not requested) and is
    complete (the automaton state is the link layer's state: e.g. `closed` was reported when the
    link layer is advertising again). -/
def callbacks_well_ordered_full : Prop :=
  ∀ (c : Cfg) (ops : List Op),
    agree (run (init c) ops).1.phase ((trace (run (init c) ops).2).foldl lstep .idle) = true

/-- the burst of DESIGN §5 C29: LL_VERSION_IND, LL_REJECT_IND ×2, LL_UNKNOWN_RSP, LL_TERMINATE_IND
    in one connection event -/
def overflowOps : List Op :=
  [.connect 24 72, .ev [],
   .ev [ctrl [LL_VERSION_IND, 9, 1, 2, 3, 4], ctrl [LL_REJECT_IND, 0x11], ctrl [LL_REJECT_IND, 0x12],
        ctrl [LL_UNKNOWN_RSP, 0x01], ctrl [LL_TERMINATE_IND, 0x13]]]

/-- five events are pushed, four are reported, `closed` is lost although the link is gone -/
theorem overflow_drops_witness :
    ((run (init ⟨false, false⟩) overflowOps).2.getLast?.map (·.cbs)) =
      some [.version [9, 1, 2, 3, 4], .rejected 0x11, .rejected 0x12, .unknown 0x01]
    ∧ (run (init ⟨false, false⟩) overflowOps).1.phase = .advertising := by decide

theorem callbacks_well_ordered_witness : ¬ callbacks_well_ordered_full := by
  intro h
  have := h ⟨false, false⟩ overflowOps
  revert this
  decide

/-- `try_push` on a ring of capacity 4: from an empty queue exactly the first four events of a
    callback survive, in order -/
theorem ring_pushes (es : List Event) : ∀ (s : State), s.ring.length ≤ 4 →
    (es.foldl push s).ring = (s.ring ++ es).take 4 := by
  induction es with
  | nil => intro s h; simp [List.take_of_length_le h]
  | cons e es ih =>
    intro s h
    simp only [List.foldl_cons]
    by_cases hl : s.ring.length < 4
    · have hp : (push s e).ring = s.ring ++ [e] := by simp [push, hl]
      rw [ih _ (by rw [hp]; simp; omega), hp]
      simp
    · have hp : push s e = s := by simp [push, hl]
      have h4 : s.ring.length = 4 := by omega
      rw [hp, ih _ h]
      rw [List.take_append_of_le_length (by omega), List.take_append_of_le_length (by omega)]

theorem ring_reports_first_four (s : State) (es : List Event) (h : s.ring = []) :
    (drain (es.foldl push s)).2 = es.take 4 := by
  have := ring_pushes es s (by simp [h])
  simpa [drain, h] using this

/-- `handle_connection_events` runs at the end of every radio callback and API calls push
    nothing: the queue is empty between callbacks, so every callback starts with four free slots -/
theorem ring_empty_between_callbacks (c : Cfg) (ops : List Op) : (run (init c) ops).1.ring = [] := by
  have hstep : ∀ (s : State) (op : Op), s.ring = [] → (step s op).1.ring = [] := by
    intro s op h
    cases op <;> simp only [step] <;> (repeat' split) <;> simp_all [drain, resetEncryption]
  have hrun : ∀ (ops : List Op) (s : State), s.ring = [] → (run s ops).1.ring = [] := by
    intro ops
    induction ops with
    | nil => intro s h; exact h
    | cons op ops ih => intro s h; simp only [run]; exact ih _ (hstep s op h)
  exact hrun ops _ rfl

/-- non-vacuity / the good case: the same burst without the second reject fits into the ring
    and the trace is complete -/
example : agree (run (init ⟨false, false⟩) [.connect 24 72, .ev [],
    .ev [ctrl [LL_VERSION_IND, 9, 1, 2, 3, 4], ctrl [LL_REJECT_IND, 0x11], ctrl [LL_UNKNOWN_RSP, 0x01],
         ctrl [LL_TERMINATE_IND, 0x13]], .connect 24 72]).1.phase
    ((trace (run (init ⟨false, false⟩) [.connect 24 72, .ev [],
    .ev [ctrl [LL_VERSION_IND, 9, 1, 2, 3, 4], ctrl [LL_REJECT_IND, 0x11], ctrl [LL_UNKNOWN_RSP, 0x01],
         ctrl [LL_TERMINATE_IND, 0x13]], .connect 24 72]).2).foldl lstep .idle) = true := by decide

end BluetoeModel.LlControl
