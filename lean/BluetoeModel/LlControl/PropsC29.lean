import BluetoeModel.LlControl.OrderLemmas
/-!
  # C29 — Connection lifecycle is reported completely and in order

  "For any sequence of link layer events (connect requests, lost events, control procedures,
  remote terminations, local disconnects), the application's connection callbacks report each
  connection as requested, then established (or attempt timed out), then any changes, then closed
  with the reason, each exactly once and in that order, and no callback refers to a connection
  that was never requested."

  The callbacks are the entries of `ring< 4 >` (`connection_callbacks::events_`), pushed with
  `try_push` whose result is ignored and drained by `handle_connection_events` at the end of
  every radio callback.  The full statement is FALSE of the code (`callbacks_well_ordered_witness`,
  `early_disconnect_witness`): the fifth and later events of one radio callback are dropped, and
  `disconnect()` before the first connection event suppresses `established`.
  `callbacks_well_ordered_partial` proves the statement for every history that avoids exactly
  these two situations (automaton `LState`/`lstep`/`lstateOf` and the invariant live in
  OrderLemmas.lean).
-/
namespace BluetoeModel.LlControl

/-- all callbacks of a history, in order -/
def trace : List Out → List Event
  | [] => []
  | o :: os => o.cbs ++ trace os

/-- what the callbacks say must be what the link layer is in -/
def agree : Phase → LState → Bool
  | .advertising, .idle => true
  | .connecting, .requested => true
  | .connected, .established => true
  | .disconnecting, .established => true
  | .connectionChanged, .established => true
  | _, _ => false

/-- **C29 at full strength**: after every history the callback trace is a word of the language
    (never `bad`: order, exactly once, nothing for a connection that was not requested) and is
    complete (the automaton state is the link layer's state: e.g. `closed` was reported when the
    link layer is advertising again). -/
def callbacks_well_ordered_full : Prop :=
  ∀ (c : Cfg) (ops : List Op),
    agree (run (init c) ops).1.phase ((trace (run (init c) ops).2).foldl lstep .idle) = true

/-- the burst of DESIGN §5 C29: LL_VERSION_IND, LL_REJECT_IND ×2, LL_UNKNOWN_RSP, LL_TERMINATE_IND
    in one connection event -/
def overflowOps : List Op :=
  [.connect 24 72, .ev [],
   .ev [ctrl [LL_VERSION_IND, 9, 1, 2, 3, 4], ctrl [LL_REJECT_IND, 0x11], ctrl [LL_REJECT_IND, 0x12],
        ctrl [LL_UNKNOWN_RSP, 0x01], ctrl [LL_TERMINATE_IND, 0x13]]]

/-- five events are pushed, four are reported, `closed` is lost although the link is gone -/
theorem overflow_drops_witness :
    ((run (init ⟨false, false⟩) overflowOps).2.getLast?.map (·.cbs)) =
      some [.version [9, 1, 2, 3, 4], .rejected 0x11, .rejected 0x12, .unknown 0x01]
    ∧ (run (init ⟨false, false⟩) overflowOps).1.phase = .advertising := by decide

theorem callbacks_well_ordered_witness : ¬ callbacks_well_ordered_full := by
  intro h
  have := h ⟨false, false⟩ overflowOps
  revert this
  decide

/-- `try_push` on a ring of capacity 4: from an empty queue exactly the first four events of a
    callback survive, in order -/
theorem ring_pushes (es : List Event) : ∀ (s : State), s.ring.length ≤ 4 →
    (es.foldl push s).ring = (s.ring ++ es).take 4 := by
  induction es with
  | nil => intro s h; simp [List.take_of_length_le h]
  | cons e es ih =>
    intro s h
    simp only [List.foldl_cons]
    by_cases hl : s.ring.length < 4
    · have hp : (push s e).ring = s.ring ++ [e] := by simp [push, hl]
      rw [ih _ (by rw [hp]; simp; omega), hp]
      simp
    · have hp : (push s e).ring = s.ring := by simp [push, hl]
      have h4 : s.ring.length = 4 := by omega
      rw [ih _ (by rw [hp]; exact h), hp]
      rw [List.take_append_of_le_length (by omega), List.take_append_of_le_length (by omega)]

theorem ring_reports_first_four (s : State) (es : List Event) (h : s.ring = []) :
    (drain (es.foldl push s)).2 = es.take 4 := by
  have := ring_pushes es s (by simp [h])
  simpa [drain, h] using this

/-- `handle_connection_events` runs at the end of every radio callback and API calls push
    nothing: the queue is empty between callbacks, so every callback starts with four free slots -/
theorem ring_empty_between_callbacks (c : Cfg) (ops : List Op) : (run (init c) ops).1.ring = [] := by
  have hstep : ∀ (s : State) (op : Op), s.ring = [] → (step s op).1.ring = [] := by
    intro s op h
    cases op <;> simp only [step] <;> (repeat' split) <;> simp_all [drain, resetEncryption]
  have hrun : ∀ (ops : List Op) (s : State), s.ring = [] → (run s ops).1.ring = [] := by
    intro ops
    induction ops with
    | nil => intro s h; exact h
    | cons op ops ih => intro s h; simp only [run]; exact ih _ (hstep s op h)
  exact hrun ops _ rfl

/-- the history variable `dropped` counts exactly the refused `try_push` calls -/
theorem dropped_only_when_ring_full (s : State) (e : Event) :
    (push s e).dropped = s.dropped + (if s.ring.length < 4 then 0 else 1) := by
  unfold push; split <;> simp

theorem K_drain {l : LState} {x : State} (h : K l x) : K (x.ring.foldl lstep l) (drain x).1 :=
  ⟨h.defer, fun hd he => by simpa [drain] using h.order hd he⟩

theorem step_K (l : LState) (s : State) (op : Op) (h : K l s) (hr : s.ring = []) :
    K ((step s op).2.cbs.foldl lstep l) (step s op).1 ∧ (step s op).1.ring = [] := by
  have same : ∀ s' : State, s'.phase = s.phase → s'.deferred = s.deferred → s'.dropped = s.dropped →
      s'.early = s.early → s'.ring = s.ring → K l s' := by
    intro s' h1 h2 h3 h4 h5
    exact ⟨by rw [h1, h2]; exact h.defer, by rw [h3, h4, h5, h1]; exact h.order⟩
  cases op with
  | key e r => exact ⟨same _ rfl rfl rfl rfl rfl, hr⟩
  | connect i t =>
    simp only [step]
    split
    · exact ⟨h, hr⟩
    · rename_i hp
      simp only [ne_eq, Decidable.not_not] at hp
      split
      · exact ⟨K_drain (K_connect h hp hr i t), rfl⟩
      · exact ⟨h, hr⟩
  | ev pdus =>
    simp only [step]
    split
    · exact ⟨h, hr⟩
    · rename_i hp
      have hk : K l (radioExchange s pdus).1 := same _ rfl rfl rfl rfl rfl
      exact ⟨K_drain (K_endEvent hk hp), rfl⟩
  | timeout =>
    simp only [step]
    split
    · exact ⟨h, hr⟩
    · rename_i hp
      exact ⟨K_drain (K_timeoutCallback h hp), rfl⟩
  | adv => simp only [step]; split <;> exact ⟨h, hr⟩
  | apiDisconnect r =>
    simp only [step]
    split
    · rename_i hc
      refine ⟨⟨?_, ?_⟩, hr⟩
      · intro hh; simp [resetEncryption] at hh
      · intro hd he
        simp only [resetEncryption, Bool.or_eq_false_iff, decide_eq_false_iff_not] at hd he ⊢
        have ho := h.order hd he.1
        simp only [hr, List.foldl_nil] at ho ⊢
        rw [ho]
        have hne := he.2
        cases hph : s.phase <;> simp_all [connectedLike, lstateOf]
    · exact ⟨h, hr⟩
  | apiVersion => simp only [step]; split <;> exact ⟨same _ rfl rfl rfl rfl rfl, hr⟩
  | apiParam a b c d =>
    simp only [step]
    split
    · split <;> exact ⟨same _ rfl rfl rfl rfl rfl, hr⟩
    · exact ⟨h, hr⟩
  | apiParamLl a b c d => simp only [step]; split <;> exact ⟨same _ rfl rfl rfl rfl rfl, hr⟩
  | apiPhy t r => simp only [step]; split <;> exact ⟨same _ rfl rfl rfl rfl rfl, hr⟩

theorem run_K (ops : List Op) : ∀ (l : LState) (s : State), K l s → s.ring = [] →
    K ((trace (run s ops).2).foldl lstep l) (run s ops).1 ∧ (run s ops).1.ring = [] := by
  induction ops with
  | nil => intro l s h hr; exact ⟨h, hr⟩
  | cons op ops ih =>
    intro l s h hr
    have hs := step_K l s op h hr
    have := ih _ _ hs.1 hs.2
    simp only [run, trace, List.foldl_append]
    exact this

theorem agree_lstateOf (p : Phase) : agree p (lstateOf p) = true := by cases p <;> rfl

/-- **C29, strongest true statement**: for every history of connects, connection events with
    arbitrary PDU lists, radio timeouts and API calls, on both link layer types: if no radio
    callback produced more than four lifecycle events (`dropped = 0`: `try_push` never refused,
    see `dropped_only_when_ring_full` and `ring_empty_between_callbacks`) and `disconnect()` was
    never called between `requested` and the first connection event (`early = false`), then the
    callbacks reported so far form a word of `(requested (attempt_timeout | established other*
    closed))*` (prefix) and are complete: the automaton is in the state of the link layer. -/
theorem callbacks_well_ordered_partial (c : Cfg) (ops : List Op)
    (hd : (run (init c) ops).1.dropped = 0) (he : (run (init c) ops).1.early = false) :
    agree (run (init c) ops).1.phase ((trace (run (init c) ops).2).foldl lstep .idle) = true := by
  have hk : K .idle (init c) := ⟨fun _ => rfl, fun _ _ => rfl⟩
  obtain ⟨k, hr⟩ := run_K ops .idle (init c) hk rfl
  have := k.order hd he
  rw [hr, List.foldl_nil] at this
  rw [this]
  exact agree_lstateOf _

/-- `force_disconnect` reports `closed` in every state but `connecting` — in particular in the
    transient states `connection_changed` (a connection update was applied, no event with the new
    parameters yet) and `disconnecting`; `attempt_timeout` is reported in state `connecting` only -/
theorem force_disconnect_reports_closed (s : State) (hl : s.ring.length < 4) :
    (s.phase ≠ .connecting → (forceDisconnect s).ring = s.ring ++ [.closed s.reason])
    ∧ (s.phase = .connecting → (forceDisconnect s).ring = s.ring ++ [.attemptTimeout]) := by
  constructor <;> intro h <;> simp [forceDisconnect, resetEncryption, push, hl, h]

set_option maxRecDepth 20000 in
/-- non-vacuity of `callbacks_well_ordered_partial` in the transient state: LL_CONNECTION_UPDATE_IND
    (interval 20 ms, timeout 100 ms, instant 4) is applied at its instant (`changed`, state
    `connection_changed`), then every event is lost: the supervision timeout is reported as
    `closed(0x08)`; no event was refused and `disconnect()` was not used -/
example :
    let r := run (init ⟨false, false⟩) ([.connect 24 72, .ev [],
      .ev [ctrl [LL_CONNECTION_UPDATE_IND, 1, 0, 0, 16, 0, 0, 0, 10, 0, 4, 0]], .ev [], .ev []]
      ++ List.replicate 5 .timeout)
    trace r.2 = [.requested, .established, .changed, .closed 0x08]
    ∧ r.1.dropped = 0 ∧ r.1.early = false ∧ r.1.phase = .advertising := by decide

/-- the second excluded situation is a real violation as well: `disconnect()` right after
    `requested`: the connection is reported `closed` without ever having been `established` -/
theorem early_disconnect_witness :
    trace (run (init ⟨false, false⟩) [.connect 24 72, .apiDisconnect 0x16, .ev [], .ev [], .ev []]).2
      = [.requested, .closed 0x16]
    ∧ (run (init ⟨false, false⟩) [.connect 24 72, .apiDisconnect 0x16, .ev [], .ev [], .ev []]).1.early = true := by
  decide

/-- non-vacuity / the good case: the same burst without the second reject fits into the ring
    and the trace is complete -/
example : agree (run (init ⟨false, false⟩) [.connect 24 72, .ev [],
    .ev [ctrl [LL_VERSION_IND, 9, 1, 2, 3, 4], ctrl [LL_REJECT_IND, 0x11], ctrl [LL_UNKNOWN_RSP, 0x01],
         ctrl [LL_TERMINATE_IND, 0x13]], .connect 24 72]).1.phase
    ((trace (run (init ⟨false, false⟩) [.connect 24 72, .ev [],
    .ev [ctrl [LL_VERSION_IND, 9, 1, 2, 3, 4], ctrl [LL_REJECT_IND, 0x11], ctrl [LL_UNKNOWN_RSP, 0x01],
         ctrl [LL_TERMINATE_IND, 0x13]], .connect 24 72]).2).foldl lstep .idle) = true := by decide

end BluetoeModel.LlControl
