import BluetoeModel.LlControl.SecLemmas
/-!
  # C27 — Link control PDUs get the specified responses

  "Every received LL control PDU with a known opcode and correct length gets its specified
  response (feature response with the intersected feature set, a single version indication per
  connection, ping response, phy response, parameter request handling), unknown or malformed
  requests get LL_UNKNOWN_RSP, responses and rejects are never answered, and a
  peripheral-initiated procedure without an answer ends the connection after the 40 s response
  timeout."

  All theorems are about `handleControl` (= `handle_ll_control_data`) for EVERY state, payload
  and length.  Three parts of the sentence are false of the code; they are kept as `…_full` /
  `…_literal` definitions with machine checked witnesses and are known findings of the check.
-/
namespace BluetoeModel.LlControl

/-- the (opcode, length[, state / payload]) shapes `handle_ll_control_data` recognises -/
def recognised (s : State) (p : Pdu) : Prop :=
  (opcodeOf p.body = LL_CONNECTION_UPDATE_IND ∧ p.body.length = 12)
  ∨ (opcodeOf p.body = LL_TERMINATE_IND ∧ p.body.length = 2)
  ∨ (opcodeOf p.body = LL_VERSION_IND ∧ p.body.length = 6 ∧ s.versionReceived = false)
  ∨ (opcodeOf p.body = LL_CHANNEL_MAP_REQ ∧ p.body.length = 8)
  ∨ (opcodeOf p.body = LL_PING_REQ ∧ p.body.length = 1)
  ∨ (opcodeOf p.body = LL_FEATURE_REQ ∧ p.body.length = 9)
  ∨ ((opcodeOf p.body = LL_UNKNOWN_RSP ∧ p.body.length = 2) ∨ (opcodeOf p.body = LL_REJECT_IND ∧ p.body.length = 2)
      ∨ (opcodeOf p.body = LL_REJECT_EXT_IND ∧ p.body.length = 3))
  ∨ (opcodeOf p.body = LL_CONNECTION_PARAM_REQ ∧ p.body.length = 24)
  ∨ (s.cfg.security = true ∧
      ((opcodeOf p.body = LL_ENC_REQ ∧ p.body.length = 23)
       ∨ (opcodeOf p.body = LL_START_ENC_RSP ∧ p.body.length = 1 ∧ s.sec.startPending = true)
       ∨ (opcodeOf p.body = LL_PAUSE_ENC_REQ ∧ p.body.length = 1)
       ∨ (opcodeOf p.body = LL_PAUSE_ENC_RSP ∧ p.body.length = 1)))
  ∨ (s.cfg.phy2m = true ∧
      ((opcodeOf p.body = LL_PHY_REQ ∧ p.body.length = 3)
       ∨ (opcodeOf p.body = LL_PHY_UPDATE_IND ∧ p.body.length = 5
           ∧ validPhy (rd8 p.body 1) = true ∧ validPhy (rd8 p.body 2) = true)))

/-- "unknown or malformed requests get LL_UNKNOWN_RSP": whatever is not one of the recognised
    shapes — unknown opcode, known opcode with a wrong length, LL_VERSION_IND a second time,
    LL_START_ENC_RSP without a pending start, PHY PDUs without 2M support, encryption PDUs without
    encryption support — and is not itself an LL_UNKNOWN_RSP is answered with LL_UNKNOWN_RSP
    carrying the opcode, changes nothing else and does not end the connection. -/
theorem unknown_or_malformed_gets_unknown_rsp (s : State) (p : Pdu) (h : ¬ recognised s p)
    (h7 : opcodeOf p.body ≠ LL_UNKNOWN_RSP) :
    handleControl s p = (commit s (ctrl [LL_UNKNOWN_RSP, opcodeOf p.body]), false) := by
  simp only [recognised, not_or] at h
  obtain ⟨h1, h2, h3, h4, h5, h6, hr, h8, hsec, hphy⟩ := h
  have e1 : handleControlAux s p (opcodeOf p.body) p.body.length = ctlOther s p (opcodeOf p.body) p.body.length := by
    unfold handleControlAux
    rw [if_neg h1, if_neg h2, if_neg h3, if_neg h4, if_neg h5, if_neg h6, if_neg (by simpa [not_or] using hr), if_neg h8]
  have e2 : handleEncryptionPdus s (opcodeOf p.body) p.body.length p.body = none := by
    unfold handleEncryptionPdus
    by_cases hs : s.cfg.security = true
    · simp only [hs, true_and, not_or] at hsec
      obtain ⟨a, b, c, d⟩ := hsec
      simp [hs, a, b, c, d]
    · simp [hs]
  have e3 : handlePhyRequest s p (opcodeOf p.body) p.body.length = none := by
    unfold handlePhyRequest
    by_cases hs : s.cfg.phy2m = true
    · simp only [hs, true_and, not_or] at hphy
      obtain ⟨a, b⟩ := hphy
      simp only [hs, not_true_eq_false, if_false, if_neg a]
      split
      · rename_i hc
        have : ¬ (validPhy (rd8 p.body 1) = true ∧ validPhy (rd8 p.body 2) = true) := fun hv => b ⟨hc.1, hc.2, hv.1, hv.2⟩
        simp [this]
      · rfl
    · simp [hs]
  unfold handleControl
  rw [e1]
  unfold ctlOther
  rw [e2, e3]
  simp [h7]

/-- LL_UNKNOWN_RSP of any length is never answered -/
theorem unknown_rsp_never_answered (s : State) (p : Pdu) (h7 : opcodeOf p.body = LL_UNKNOWN_RSP) :
    (handleControl s p).1.txq = s.txq ∧ (handleControl s p).2 = false := by
  by_cases hn : p.body.length = 2
  · simp [handleControl, handleControlAux, h7, hn, handleRejects, endsProcedure, push, LL_UNKNOWN_RSP,
      LL_CONNECTION_UPDATE_IND, LL_TERMINATE_IND, LL_VERSION_IND, LL_CHANNEL_MAP_REQ, LL_PING_REQ, LL_FEATURE_REQ,
      LL_REJECT_EXT_IND]
    repeat' split
    all_goals simp
  · have e2 : handleEncryptionPdus s 7 p.body.length p.body = none := by
      simp [handleEncryptionPdus, LL_ENC_REQ, LL_START_ENC_RSP, LL_PAUSE_ENC_REQ, LL_PAUSE_ENC_RSP]
    have e3 : handlePhyRequest s p 7 p.body.length = none := by
      simp [handlePhyRequest, LL_PHY_REQ, LL_PHY_UPDATE_IND]
    simp [handleControl, handleControlAux, h7, hn, ctlOther, e2, e3, LL_UNKNOWN_RSP,
      LL_CONNECTION_UPDATE_IND, LL_TERMINATE_IND, LL_VERSION_IND, LL_CHANNEL_MAP_REQ, LL_PING_REQ, LL_FEATURE_REQ,
      LL_REJECT_IND, LL_REJECT_EXT_IND, LL_CONNECTION_PARAM_REQ]

/-- "responses and rejects are never answered": well-formed LL_UNKNOWN_RSP, LL_REJECT_IND and
    LL_REJECT_EXT_IND are consumed by `handleRejects`, which transmits nothing -/
theorem rejects_not_answered (s : State) (p : Pdu)
    (h : (opcodeOf p.body = LL_UNKNOWN_RSP ∧ p.body.length = 2) ∨ (opcodeOf p.body = LL_REJECT_IND ∧ p.body.length = 2)
      ∨ (opcodeOf p.body = LL_REJECT_EXT_IND ∧ p.body.length = 3)) :
    handleControl s p = (handleRejects s (opcodeOf p.body) p.body, false)
    ∧ (handleRejects s (opcodeOf p.body) p.body).txq = s.txq := by
  refine ⟨?_, ?_⟩
  · unfold handleControl handleControlAux
    rcases h with h | h | h <;>
      simp [h.1, h.2, LL_UNKNOWN_RSP, LL_REJECT_IND, LL_REJECT_EXT_IND, LL_CONNECTION_UPDATE_IND, LL_TERMINATE_IND,
        LL_VERSION_IND, LL_CHANNEL_MAP_REQ, LL_PING_REQ, LL_FEATURE_REQ]
  · unfold handleRejects endsProcedure push
    repeat' split
    all_goals simp

/-- "gets its specified response", request by request, for every state -/
theorem known_request_response (s : State) :
    -- ping
    handleControl s (ctrl [LL_PING_REQ]) = (commit s (ctrl [LL_PING_RSP]), false)
    -- feature request: FeatureSet[0] is the intersection of the used and the central's set
    ∧ (∀ f0 f1 f2 f3 f4 f5 f6 f7 : UInt8,
        handleControl s (ctrl [LL_FEATURE_REQ, f0, f1, f2, f3, f4, f5, f6, f7])
          = (commit (push { s with usedFeatures := s.usedFeatures &&& (f0.toNat + 256 * f1.toNat) }
                      (.features [f0, f1, f2, f3, f4, f5, f6, f7]))
              (ctrl [LL_FEATURE_RSP, lo8 (s.usedFeatures &&& (f0.toNat + 256 * f1.toNat)),
                     hi8 (supportedFeatures s.cfg), 0, 0, 0, 0, 0, 0]), false))
    -- the first LL_VERSION_IND of a connection is answered with ours
    ∧ (∀ v c0 c1 s0 s1 : UInt8, s.versionReceived = false →
        handleControl s (ctrl [LL_VERSION_IND, v, c0, c1, s0, s1])
          = (ctlVersion s [LL_VERSION_IND, v, c0, c1, s0, s1], false)
        ∧ (s.stopped = false → (ctlVersion s [LL_VERSION_IND, v, c0, c1, s0, s1]).txq = s.txq ++ [versionInd])
        ∧ (ctlVersion s [LL_VERSION_IND, v, c0, c1, s0, s1]).versionReceived = true)
    -- phy request
    ∧ (∀ a b : UInt8, s.cfg.phy2m = true → s.deferred = none →   -- (handle_phy_request asserts the latter)
        handleControl s (ctrl [LL_PHY_REQ, a, b]) = (commit s (ctrl [LL_PHY_RSP, 0x03, 0x03]), false))
    -- connection parameter request: echo as response, or LL_REJECT_EXT_IND(invalid parameters)
    ∧ (∀ p : Pdu, opcodeOf p.body = LL_CONNECTION_PARAM_REQ → p.body.length = 24 →
        handleControl s p = (commit s (paramRequestResponse p.body), false)) := by
  refine ⟨?_, ?_, ?_, ?_, ?_⟩
  · simp [handleControl, handleControlAux, opcodeOf, rd8, ctrl, LL_PING_REQ, LL_CONNECTION_UPDATE_IND,
      LL_TERMINATE_IND, LL_VERSION_IND, LL_CHANNEL_MAP_REQ]
  · intro f0 f1 f2 f3 f4 f5 f6 f7
    simp [handleControl, handleControlAux, opcodeOf, rd8, rd16, ctrl, ctlFeature, LL_FEATURE_REQ, LL_PING_REQ,
      LL_CONNECTION_UPDATE_IND, LL_TERMINATE_IND, LL_VERSION_IND, LL_CHANNEL_MAP_REQ]
  · intro v c0 c1 s0 s1 hv
    refine ⟨?_, ?_, ?_⟩
    · simp [handleControl, handleControlAux, opcodeOf, rd8, ctrl, hv, LL_VERSION_IND, LL_CONNECTION_UPDATE_IND,
        LL_TERMINATE_IND]
    · intro hs
      unfold ctlVersion commit push
      repeat' split
      all_goals simp_all
    · unfold ctlVersion commit push
      repeat' split
      all_goals simp_all
  · intro a b hp hdef
    have e2 : handleEncryptionPdus s 22 3 [22, a, b] = none := by
      simp [handleEncryptionPdus, LL_ENC_REQ, LL_START_ENC_RSP, LL_PAUSE_ENC_REQ, LL_PAUSE_ENC_RSP]
    simp [handleControl, handleControlAux, opcodeOf, rd8, ctrl, ctlOther, e2, handlePhyRequest, hp, phyInstantCheck, hdef, LL_PHY_REQ,
      LL_CONNECTION_UPDATE_IND, LL_TERMINATE_IND, LL_VERSION_IND, LL_CHANNEL_MAP_REQ, LL_PING_REQ, LL_FEATURE_REQ,
      LL_UNKNOWN_RSP, LL_REJECT_IND, LL_REJECT_EXT_IND, LL_CONNECTION_PARAM_REQ]
  · intro p ho hn
    simp [handleControl, handleControlAux, ho, hn, LL_CONNECTION_PARAM_REQ, LL_CONNECTION_UPDATE_IND,
      LL_TERMINATE_IND, LL_VERSION_IND, LL_CHANNEL_MAP_REQ, LL_PING_REQ, LL_FEATURE_REQ, LL_UNKNOWN_RSP,
      LL_REJECT_IND, LL_REJECT_EXT_IND]

/-! ### "a single version indication per connection" -/

/-- once the central's LL_VERSION_IND was received, a further one is answered with LL_UNKNOWN_RSP,
    never with a second LL_VERSION_IND (this is all the code guarantees) -/
theorem one_version_ind_per_connection_partial (s : State) (v c0 c1 s0 s1 : UInt8)
    (h : s.versionReceived = true) :
    handleControl s (ctrl [LL_VERSION_IND, v, c0, c1, s0, s1])
      = (commit s (ctrl [LL_UNKNOWN_RSP, LL_VERSION_IND]), false) := by
  have e2 : handleEncryptionPdus s LL_VERSION_IND 6 [LL_VERSION_IND, v, c0, c1, s0, s1] = none := by
    simp [handleEncryptionPdus, LL_VERSION_IND, LL_ENC_REQ, LL_START_ENC_RSP, LL_PAUSE_ENC_REQ, LL_PAUSE_ENC_RSP]
  have e3 : handlePhyRequest s (ctrl [LL_VERSION_IND, v, c0, c1, s0, s1]) LL_VERSION_IND 6 = none := by
    simp [handlePhyRequest, LL_VERSION_IND, LL_PHY_REQ, LL_PHY_UPDATE_IND]
  simp [handleControl, handleControlAux, opcodeOf, rd8, ctrl, ctlOther, h, LL_VERSION_IND,
    LL_CONNECTION_UPDATE_IND, LL_TERMINATE_IND, LL_CHANNEL_MAP_REQ, LL_PING_REQ, LL_FEATURE_REQ, LL_UNKNOWN_RSP,
    LL_REJECT_IND, LL_REJECT_EXT_IND, LL_CONNECTION_PARAM_REQ] at e2 e3 ⊢
  simp [e2, e3]

def isConnect : Op → Bool
  | .connect _ _ => true
  | _ => false

def allTx : List Out → List Pdu
  | [] => []
  | o :: os => o.tx ++ allTx os

/-- full strength: on one connection the peripheral transmits at most one LL_VERSION_IND -/
def one_version_ind_full : Prop :=
  ∀ (c : Cfg) (rest : List Op), rest.all (fun op => ! isConnect op) = true →
    (allTx (run (init c) (.connect 24 72 :: rest)).2).count versionInd ≤ 1

/-- FALSE: after `remote_versions_request()` the peripheral sends LL_VERSION_IND and then answers
    the central's LL_VERSION_IND with a second one -/
theorem one_version_ind_witness : ¬ one_version_ind_full := by
  intro h
  have := h ⟨false, false⟩ [.ev [], .apiVersion, .ev [], .ev [ctrl [LL_VERSION_IND, 9, 1, 2, 3, 4]], .ev [], .ev []]
    (by decide)
  revert this
  decide

/-! ### "responses and rejects are never answered", literal reading -/

/-- the response opcodes of DESIGN §5 C27 -/
def responseOpcodes : List UInt8 := [0x04, 0x07, 0x09, 0x0B, 0x0D, 0x10, 0x11, 0x13, 0x17]

def responses_never_answered_literal : Prop :=
  ∀ (s : State) (p : Pdu), opcodeOf p.body ∈ responseOpcodes → (handleControl s p).1.txq = s.txq

/-- FALSE: e.g. an (unsolicited) LL_PING_RSP is answered with LL_UNKNOWN_RSP; the same holds for
    LL_ENC_RSP, LL_FEATURE_RSP, LL_CONNECTION_PARAM_RSP, LL_PHY_RSP and for wrong-length rejects
    (theorem `unknown_or_malformed_gets_unknown_rsp` says exactly which) -/
theorem responses_never_answered_witness : ¬ responses_never_answered_literal := by
  intro h
  have := h (init ⟨true, true⟩) (ctrl [LL_PING_RSP]) (by decide)
  revert this
  decide

/-! ### "a peripheral-initiated procedure without an answer ends the connection after the 40 s
    response timeout" -/

/-- the bookkeeping of `end_event`: with a running timer that is not larger than the time since
    the last event the connection ends with reason 0x22 (LL response timeout) … -/
theorem procedure_timeout_40s (s : State) (h : s.procTimeout ≠ 0) (ht : s.procTimeout ≤ s.timeSince) :
    endEventTail s = forceDisconnect { s with reason := 0x22 }
    ∧ (s.phase ≠ .connecting → s.ring.length < 4 →
        (forceDisconnect { s with reason := 0x22 }).ring = s.ring ++ [.closed 0x22])
    ∧ (forceDisconnect { s with reason := 0x22 }).phase = .advertising := by
  refine ⟨by simp [endEventTail, h, ht], ?_, rfl⟩
  intro hp hl
  simp [forceDisconnect, resetEncryption, push, hl, hp]

/-- … otherwise the timer is decremented by exactly that time: the connection ends in the first
    event in which the accumulated event time reaches the 40 s the timer was started with -/
theorem procedure_timeout_countdown (s : State) (h : s.procTimeout ≠ 0) (ht : ¬ s.procTimeout ≤ s.timeSince) :
    endEventTail s = endEventPlan (transmitPendingSecurity (decTimeout s))
    ∧ (decTimeout s).procTimeout = s.procTimeout - s.timeSince
    ∧ (transmitPendingSecurity (decTimeout s)).procTimeout = s.procTimeout - s.timeSince := by
  refine ⟨by simp [endEventTail, ht], by simp [decTimeout, h], ?_⟩
  unfold transmitPendingSecurity
  repeat' split
  all_goals simp [decTimeout, h, commit]
  all_goals (repeat' split)
  all_goals simp

set_option maxRecDepth 20000 in
/-- concrete run (4 s connection interval): `remote_versions_request()`, LL_VERSION_IND queued in
    the next event (timer := 40 s), no answer: the tenth event after that reports closed(0x22) -/
example : ((run (init ⟨false, false⟩) ([.connect 3200 3200, .ev [], .apiVersion] ++ List.replicate 11 (.ev []))).2.map (·.cbs)).drop 3
    = [[], [], [], [], [], [], [], [], [], [], [.closed 0x22]] := by decide

/-- full strength for the PHY update procedure: once LL_PHY_REQ was sent the timer runs -/
def phy_request_times_out_full : Prop :=
  ∀ (c : Cfg), (run (init c) [.connect 3200 3200, .ev [], .apiPhy 2 2, .ev []]).1.procTimeout ≠ 0

set_option maxRecDepth 20000 in
/-- FALSE: `transmit_pending_control_pdus` sends LL_PHY_REQ without starting the procedure timer;
    twenty silent events (80 s) later the connection is still up -/
theorem phy_request_no_timeout_witness : ¬ phy_request_times_out_full
    ∧ (run (init ⟨true, true⟩) ([.connect 3200 3200, .ev [], .apiPhy 2 2] ++ List.replicate 21 (.ev []))).1.phase = .connected
    ∧ ((run (init ⟨true, true⟩) [.connect 3200 3200, .ev [], .apiPhy 2 2, .ev [], .ev []]).2.getLast?.map (·.tx))
        = some [ctrl [LL_PHY_REQ, 2, 2]] := by
  refine ⟨?_, by decide, by decide⟩
  intro h
  have := h ⟨true, true⟩
  revert this
  decide

end BluetoeModel.LlControl
