import BluetoeModel.LlControl.SecLemmas
/-!
  # C28 — A link is encrypted only with a key supplied for it

  "The link is reported as encrypted, and encryption-protected attributes become accessible, only
  after an encryption start procedure in which the security manager or bond database supplied a
  long-term key for the EDIV/Rand of the central's request and the peripheral sent
  LL_START_ENC_REQ. An encryption request for an unknown key is rejected and never leads to an
  encrypted state, and pausing or disconnecting returns the link to unencrypted."

  The theorems are about the model of the code WITH `fixes/llctrl-01-start-enc-rsp-needs-request`
  and `fixes/llctrl-02-encryption-state-ends-with-connection`; the unpatched code violates the
  first sentence (replayed by the check: a bare LL_START_ENC_RSP encrypts the link; an
  LL_ENC_REQ + LL_TERMINATE_IND burst leaves a key behind that encrypts the *next* connection).

  History variables (`Sec.gKey`, `gReq`, `gStarted`, never read by the model):
  * `gKey`  := result of `find_key` — written only where LL_ENC_REQ is handled;
  * `gReq`  := true — written only where LL_START_ENC_REQ is handed to the PDU buffer
               (and false again with the next LL_ENC_REQ);
  * `gStarted` := `gKey ∧ gReq` — written only where LL_START_ENC_RSP is accepted; false again on
               LL_PAUSE_ENC_REQ / LL_PAUSE_ENC_RSP; all three false after `reset_encryption`
               (disconnect) — `ghost_writes` below states exactly this.
-/
namespace BluetoeModel.LlControl

/-- **C28, first sentence**: in every state reachable by any history of connection events (each
    with any list of PDUs), radio timeouts, connects, key data base changes and API calls — for
    both link layer configurations — a link that is reported encrypted went, on this connection
    and since the last pause, through LL_ENC_REQ answered with a key by `find_key`, then
    LL_START_ENC_REQ, then LL_START_ENC_RSP. -/
theorem encrypted_implies_key_and_start_req (c : Cfg) (ops : List Op) :
    (run (init c) ops).1.sec.encrypted = true → (run (init c) ops).1.sec.gStarted = true :=
  (run_inv ops _ (init_inv c)).ok.enc

/-- the protected value is sent only in such a state (the ATT server consults `is_encrypted`) -/
theorem protected_value_only_when_encrypted (s : State) (h : s.cfg.security = true)
    (hne : s.sec.encrypted = false) (hs : s.stopped = false) :
    (l2capInput s attReadReq).txq = s.txq ++ [attReadErr] := by
  simp [l2capInput, h, hne, commit, hs]

/-- nothing of an encryption procedure survives a connection: while advertising (before the first
    and between connections) the security state is the initial one, history variables included -/
theorem no_encryption_state_between_connections (c : Cfg) (ops : List Op) :
    (run (init c) ops).1.phase = .advertising → (run (init c) ops).1.sec = Sec.init :=
  (run_inv ops _ (init_inv c)).adv

/-- where the history variables are written (so that `gStarted` means what the docstring says):
    handling one control PDU can set `gStarted` only if the PDU is LL_START_ENC_RSP and both
    `gKey` and `gReq` were set; it can set `gKey` only if the PDU is an LL_ENC_REQ whose
    (EDIV, Rand) is in the bond data base; it never sets `gReq`. -/
theorem ghost_writes (s : State) (o : UInt8) (n : Nat) (b : Bytes) (s' : State) (r : Option Pdu)
    (h : handleEncryptionPdus s o n b = some (s', r)) :
    (s'.sec.gStarted = true → s.sec.gStarted = false →
        o = LL_START_ENC_RSP ∧ s.sec.gKey = true ∧ s.sec.gReq = true)
    ∧ (s'.sec.gKey = true → s.sec.gKey = false →
        o = LL_ENC_REQ ∧ n = 23 ∧ s.keys.contains (rd16 b 9, rdLE b 1 8) = true)
    ∧ (s'.sec.gReq = true → s.sec.gReq = true) := by
  unfold handleEncryptionPdus at h
  split at h
  · simp at h
  split at h
  · rename_i hc
    simp only [Option.some.injEq, Prod.mk.injEq] at h
    obtain ⟨rfl, -⟩ := h
    refine ⟨?_, ?_, by simp⟩
    · intro h1 h2; simp [h2] at h1
    · intro h1 _; exact ⟨hc.1, hc.2, by simpa using h1⟩
  split at h
  · rename_i hc
    simp only [Option.some.injEq, Prod.mk.injEq] at h
    obtain ⟨rfl, -⟩ := h
    refine ⟨?_, ?_, ?_⟩
    · intro h1 _
      have : s.sec.gKey = true ∧ s.sec.gReq = true := by
        split at h1 <;> simpa using h1
      exact ⟨hc.1, this⟩
    · intro h1 h2; split at h1 <;> simp [h2] at h1
    · intro h1; split at h1 <;> simpa using h1
  split at h
  · simp only [Option.some.injEq, Prod.mk.injEq] at h
    obtain ⟨rfl, -⟩ := h
    refine ⟨?_, ?_, ?_⟩
    · intro h1 _; split at h1 <;> simp at h1
    · intro h1 h2; split at h1 <;> simp [h2] at h1
    · intro h1; split at h1 <;> simpa using h1
  split at h
  · simp only [Option.some.injEq, Prod.mk.injEq] at h
    obtain ⟨rfl, -⟩ := h
    refine ⟨?_, ?_, ?_⟩
    · intro h1 _; split at h1 <;> simp at h1
    · intro h1 h2; split at h1 <;> simp [h2] at h1
    · intro h1; split at h1 <;> simpa using h1
  · simp at h

/-- `gReq` is set by `transmit_pending_security_pdus` only together with handing LL_START_ENC_REQ
    to the PDU buffer, and only if the pending LL_ENC_REQ was given a key -/
theorem ghost_start_req (s : State) (h : (transmitPendingSecurity s).sec.gReq = true)
    (h0 : s.sec.gReq = false) :
    s.sec.inProgress = true ∧ s.sec.hasKey = true
    ∧ (s.stopped = false → (transmitPendingSecurity s).txq = s.txq ++ [ctrl [LL_START_ENC_REQ]]) := by
  unfold transmitPendingSecurity at h ⊢
  split at h
  · simp [h0] at h
  · rename_i hc
    simp only [not_or, Decidable.not_not] at hc
    split at h
    · rename_i hk
      refine ⟨hc.2, hk, ?_⟩
      intro hs
      rw [if_neg (by simp [hc]), if_pos hk]
      simp [commit, hs]
    · simp [h0] at h

/-- non-vacuity of `encrypted_implies_key_and_start_req`: the regular start procedure does
    encrypt the link, the same PDUs without the key in the data base do not, and a bare
    LL_START_ENC_RSP does not either -/
def encReqPdu : Pdu := ctrl ([LL_ENC_REQ, 1, 0, 0, 0, 0, 0, 0, 0, 0x34, 0x12] ++ List.replicate 12 0)

example : (run (init ⟨true, true⟩) [.key 0x1234 1, .connect 24 72, .ev [], .ev [encReqPdu], .ev [],
    .ev [ctrl [LL_START_ENC_RSP]]]).1.sec.encrypted = true := by decide
example : (run (init ⟨true, true⟩) [.connect 24 72, .ev [], .ev [encReqPdu], .ev [],
    .ev [ctrl [LL_START_ENC_RSP]]]).1.sec.encrypted = false := by decide
example : (run (init ⟨true, true⟩) [.key 0x1234 1, .connect 24 72, .ev [],
    .ev [ctrl [LL_START_ENC_RSP]]]).1.sec.encrypted = false := by decide

/-! ### "An encryption request for an unknown key is rejected and never leads to an encrypted state" -/

/-- shape of an LL_ENC_REQ as `handle_encryption_pdus` recognises it -/
def encReqShape (p : Pdu) : Prop := p.llid = 3 ∧ opcodeOf p.body = LL_ENC_REQ ∧ p.body.length = 23

instance (p : Pdu) : Decidable (encReqShape p) := by unfold encReqShape; infer_instance

/-- no way to the encrypted state is open: not encrypted, no LL_START_ENC_REQ outstanding, and a
    pending request (if any) has no key -/
structure Locked (x : Sec) : Prop where
  enc  : x.encrypted = false
  pend : x.startPending = false
  prog : x.inProgress = true → x.hasKey = false

/-- the request for an unknown key is answered with LL_ENC_RSP, leaves the link `Locked`, and
    the next `transmit_pending_security_pdus` rejects it with "PIN or key missing" (0x06) -/
theorem unknown_key_rejected (s : State) (p : Pdu) (hsec : s.cfg.security = true)
    (hp : p.body.length = 23) (ho : opcodeOf p.body = LL_ENC_REQ)
    (hk : s.keys.contains (rd16 p.body 9, rdLE p.body 1 8) = false)
    (hne : s.sec.encrypted = false) (hs : s.stopped = false) :
    Locked (handleControl s p).1.sec
    ∧ (handleControl s p).1.txq = s.txq ++ [encRsp]
    ∧ (transmitPendingSecurity (handleControl s p).1).txq
        = s.txq ++ [encRsp, rejectPdu s LL_ENC_REQ 0x06]
    ∧ Locked (transmitPendingSecurity (handleControl s p).1).sec := by
  have hk' : decide ((rd16 p.body 9, rdLE p.body 1 8) ∈ s.keys) = false := by simpa using hk
  have e : handleControl s p =
      (commit { s with sec := { s.sec with inProgress := true, startPending := false, hasKey := false,
                                           gKey := false, gReq := false } } encRsp, false) := by
    simp [handleControl, handleControlAux, ho, hp, ctlOther, handleEncryptionPdus, hsec, hk',
      LL_ENC_REQ, LL_CONNECTION_UPDATE_IND, LL_TERMINATE_IND, LL_VERSION_IND, LL_CHANNEL_MAP_REQ,
      LL_PING_REQ, LL_FEATURE_REQ, LL_UNKNOWN_RSP, LL_REJECT_IND, LL_REJECT_EXT_IND,
      LL_CONNECTION_PARAM_REQ]
  rw [e]
  refine ⟨⟨by simpa using hne, by simp, by simp⟩, by simp [commit, hs], ?_, ?_⟩
  · simp [transmitPendingSecurity, hsec, commit, hs, rejectPdu]
  · simp [transmitPendingSecurity, hsec]
    exact ⟨by simpa using hne, by simp, by simp⟩

theorem locked_encryptionPdus (s : State) (o : UInt8) (n : Nat) (b : Bytes) (s' : State) (r : Option Pdu)
    (h : handleEncryptionPdus s o n b = some (s', r)) (hl : Locked s.sec)
    (hne : ¬ (o = LL_ENC_REQ ∧ n = 23)) : Locked s'.sec := by
  unfold handleEncryptionPdus at h
  obtain ⟨he, hp, hg⟩ := hl
  split at h
  · simp at h
  split at h
  · rename_i hc; simp [hp] at hc
  split at h
  · simp only [Option.some.injEq, Prod.mk.injEq] at h
    obtain ⟨rfl, -⟩ := h
    split <;> exact ⟨by simp, by simpa using hp, by simpa using hg⟩
  split at h
  · simp only [Option.some.injEq, Prod.mk.injEq] at h
    obtain ⟨rfl, -⟩ := h
    split <;> exact ⟨by simp, by simpa using hp, by simpa using hg⟩
  · simp at h

theorem locked_handleControl (s : State) (p : Pdu) (hl : Locked s.sec)
    (hne : ¬ (opcodeOf p.body = LL_ENC_REQ ∧ p.body.length = 23)) :
    Locked (handleControl s p).1.sec := by
  unfold handleControl handleControlAux
  split
  · unfold ctlConnectionUpdate; split <;> exact hl
  split
  · exact hl
  split
  · unfold ctlVersion; simpa using hl
  split
  · unfold ctlChannelMap; split <;> exact hl
  split
  · simpa using hl
  split
  · unfold ctlFeature; simpa using hl
  split
  · simpa using hl
  split
  · simpa using hl
  · unfold ctlOther
    split
    · rename_i s' rsp h
      simpa using locked_encryptionPdus _ _ _ _ _ _ h hl hne
    · rename_i s' h
      exact locked_encryptionPdus _ _ _ _ _ _ h hl hne
    · split
      · rename_i s' rsp h
        have := handlePhyRequest_same _ _ _ _ _ _ h
        simp only [commit_sec, (phyInstantCheck_same s').1, this.1]; exact hl
      · rename_i s' h
        have := handlePhyRequest_same _ _ _ _ _ _ h
        simp only [(phyInstantCheck_same s').1, this.1]; exact hl
      · split
        · simpa using hl
        · exact hl

/-- **C28, second sentence**: once `Locked` (e.g. after the request for an unknown key), no list
    of received PDUs that contains no further LL_ENC_REQ — LL_START_ENC_RSP, pause PDUs, ATT
    traffic, anything — followed by `transmit_pending_security_pdus` encrypts the link -/
theorem unknown_key_never_encrypted (q : List Pdu) : ∀ (s : State), Locked s.sec →
    (∀ p ∈ q, ¬ encReqShape p) →
    Locked (handleReceivedLoop s q).1.sec
    ∧ Locked (transmitPendingSecurity (handleReceivedLoop s q).1).sec := by
  have tps : ∀ s : State, Locked s.sec → Locked (transmitPendingSecurity s).sec := by
    intro s hl
    unfold transmitPendingSecurity
    split
    · exact hl
    · rename_i hc
      simp only [not_or, Decidable.not_not] at hc
      split
      · rename_i hk; have := hl.prog hc.2; simp [this] at hk
      · exact ⟨by simpa using hl.enc, by simpa using hl.pend, by simp⟩
  suffices h : ∀ (s : State), Locked s.sec → (∀ p ∈ q, ¬ encReqShape p) →
      Locked (handleReceivedLoop s q).1.sec from fun s hl hq => ⟨h s hl hq, tps _ (h s hl hq)⟩
  induction q with
  | nil => intro s hl _; exact hl
  | cons p rest ih =>
    intro s hl hq
    unfold handleReceivedLoop
    split
    · exact hl
    split
    · rename_i hllid
      have hne : ¬ (opcodeOf p.body = LL_ENC_REQ ∧ p.body.length = 23) := by
        intro hc; exact hq p (by simp) ⟨hllid, hc.1, hc.2⟩
      have hc := locked_handleControl s p hl hne
      generalize handleControl s p = res at hc
      obtain ⟨s', disc⟩ := res
      simp only
      split
      · exact hc
      · exact ih s' hc (fun p' hp' => hq p' (by simp [hp']))
    split
    · exact ih _ (by simpa using hl) (fun p' hp' => hq p' (by simp [hp']))
    · exact hl

/-! ### "pausing or disconnecting returns the link to unencrypted" -/

theorem pause_and_disconnect_clear (s : State) (hsec : s.cfg.security = true) :
    (handleControl s (ctrl [LL_PAUSE_ENC_REQ])).1.sec.encrypted = false
    ∧ (handleControl s (ctrl [LL_PAUSE_ENC_REQ])).1.sec.rxEnc = false
    ∧ (handleControl s (ctrl [LL_PAUSE_ENC_RSP])).1.sec.encrypted = false
    ∧ (handleControl s (ctrl [LL_PAUSE_ENC_RSP])).1.sec.txEnc = false
    ∧ (forceDisconnect s).sec = Sec.init
    ∧ (∀ r, connectedLike s = true → (step s (.apiDisconnect r)).1.sec = Sec.init)
    ∧ (∀ i t, (connect s i t).sec.encrypted = false) := by
  have e1 : (handleControl s (ctrl [LL_PAUSE_ENC_REQ])).1.sec =
      { s.sec with rxEnc := false, encrypted := false, gStarted := false } := by
    simp [handleControl, handleControlAux, opcodeOf, rd8, ctrl, ctlOther, handleEncryptionPdus, hsec,
      LL_PAUSE_ENC_REQ, LL_ENC_REQ, LL_CONNECTION_UPDATE_IND, LL_TERMINATE_IND, LL_VERSION_IND,
      LL_CHANNEL_MAP_REQ, LL_PING_REQ, LL_FEATURE_REQ, LL_UNKNOWN_RSP, LL_REJECT_IND, LL_REJECT_EXT_IND,
      LL_CONNECTION_PARAM_REQ, LL_START_ENC_RSP]
    split <;> simp
  have e2 : (handleControl s (ctrl [LL_PAUSE_ENC_RSP])).1.sec =
      { s.sec with txEnc := false, encrypted := false, gStarted := false } := by
    simp [handleControl, handleControlAux, opcodeOf, rd8, ctrl, ctlOther, handleEncryptionPdus, hsec,
      LL_PAUSE_ENC_REQ, LL_PAUSE_ENC_RSP, LL_ENC_REQ, LL_CONNECTION_UPDATE_IND, LL_TERMINATE_IND,
      LL_VERSION_IND, LL_CHANNEL_MAP_REQ, LL_PING_REQ, LL_FEATURE_REQ, LL_UNKNOWN_RSP, LL_REJECT_IND,
      LL_REJECT_EXT_IND, LL_CONNECTION_PARAM_REQ, LL_START_ENC_RSP]
    split <;> simp
  refine ⟨by rw [e1], by rw [e1], by rw [e2], by rw [e2], forceDisconnect_sec s, ?_, ?_⟩
  · intro r hc
    simp [step, hc, resetEncryption]
  · intro i t
    simp [connect]

/-- non-vacuity: an encrypted link (regular procedure) is unencrypted after LL_PAUSE_ENC_REQ and
    after `disconnect()` -/
example : (run (init ⟨true, true⟩) [.key 0x1234 1, .connect 24 72, .ev [], .ev [encReqPdu], .ev [],
    .ev [ctrl [LL_START_ENC_RSP]], .ev [ctrl [LL_PAUSE_ENC_REQ]]]).1.sec.encrypted = false := by decide
example : (run (init ⟨true, true⟩) [.key 0x1234 1, .connect 24 72, .ev [], .ev [encReqPdu], .ev [],
    .ev [ctrl [LL_START_ENC_RSP]], .apiDisconnect 0x16]).1.sec = Sec.init := by decide

end BluetoeModel.LlControl
