/-
  Model of the link layer's control PDU handling, its security implementation, the procedure
  response timeout and the connection callback queue, at the granularity of *radio callbacks*
  (`adv_received`, `end_event`, `timeout`) and API calls.

  src: bluetoe/link_layer/include/bluetoe/link_layer.hpp
       bluetoe/link_layer/include/bluetoe/connection_callbacks.hpp
       bluetoe/link_layer/include/bluetoe/ll_options.hpp (no_desired_connection_parameters)
       bluetoe/link_layer/include/bluetoe/peripheral_latency.hpp (event counter / time since last event)

  The security implementation is modelled WITH the fixes `fixes/llctrl-01-…` and
  `fixes/llctrl-02-…` (member `start_encryption_requested_`, reset in `reset_encryption`).

  The instant checks are those of fix d12fb4f (`instant_passed`, 16-bit event counter).

  Restrictions (stated, not hidden): peripheral latency is 0 (the event counter advances by one
  per connection event), transmit / receive buffers never run full (the harness uses 2000 byte
  buffers), L2CAP traffic is the single ATT Read Request for the encryption-protected
  characteristic (everything else on LLID 2 is consumed without an answer), `no_signaling_channel`.
  Reads `b.getD i 0` are always guarded by the `size = n` test of the same branch, exactly as the
  `body[ i ]` reads in the C++ are.
-/
namespace BluetoeModel.LlControl

abbrev Bytes := List UInt8

/-- a data channel PDU as the link layer sees it: LLID and payload (`size = body.length`) -/
structure Pdu where
  llid : Nat
  body : Bytes
deriving Repr, DecidableEq

/-- entries of the `connection_callbacks` event ring = the callbacks the application sees -/
inductive Event where
  | requested | attemptTimeout | established | changed
  | closed (reason : UInt8)
  | version (details : Bytes)
  | rejected (code : UInt8)
  | unknown (opcode : UInt8)
  | features (f : Bytes)
  | phy (cToP pToC : UInt8)
deriving Repr, DecidableEq

-- src: link_layer::state (initial is left by the first run())
inductive Phase where
  | advertising | connecting | connected | disconnecting | connectionChanged
deriving Repr, DecidableEq

/-- the two link layer types the harness instantiates -/
structure Cfg where
  security : Bool      -- requires_encryption_support_t< Server > (link_layer_security_impl)
  phy2m    : Bool      -- radio_t::hardware_supports_2mbit (phy_update_request_impl)
deriving Repr, DecidableEq

/-- `link_layer_security_impl::impl` + `link_state::is_encrypted` + the radio's two flags.
    `gKey`, `gReq`, `gStarted` are history (ghost) variables: never read by the model, written
    exactly where the observable event happens (find_key result, START_ENC_REQ handed to the PDU
    buffer, START_ENC_RSP completing that procedure). -/
structure Sec where
  hasKey       : Bool   -- has_key_
  inProgress   : Bool   -- encryption_in_progress_
  startPending : Bool   -- start_encryption_requested_ (fix)
  encrypted    : Bool   -- connection_data_.is_encrypted()
  rxEnc        : Bool   -- radio: start/stop_receive_encrypted
  txEnc        : Bool   -- radio: start/stop_transmit_encrypted
  gKey         : Bool   -- ghost: the last LL_ENC_REQ of this connection was given a key by find_key
  gReq         : Bool   -- ghost: … and LL_START_ENC_REQ was handed to the PDU buffer after it
  gStarted     : Bool   -- ghost: … and LL_START_ENC_RSP arrived after that; no pause/disconnect since
deriving Repr, DecidableEq

def Sec.init : Sec :=
  { hasKey := false, inProgress := false, startPending := false, encrypted := false,
    rxEnc := false, txEnc := false, gKey := false, gReq := false, gStarted := false }

structure State where
  cfg               : Cfg
  phase             : Phase
  sec               : Sec
  keys              : List (Nat × Nat)     -- bond data base: (EDIV, Rand) with a long term key
  usedFeatures      : Nat                  -- used_features_
  versionReceived   : Bool                 -- version_indication_received_
  versionReqPending : Bool                 -- remote_versions_request_pending_
  paramReqPending   : Bool                 -- connection_parameters_request_pending_
  paramReqRunning   : Bool                 -- connection_parameters_request_running_
  paramReqSignaling : Bool                 -- connection_parameters_request_use_signaling_channel_
  proposed          : List Nat             -- proposed_interval_min_ … proposed_timeout_
  phyReqPending     : Bool                 -- phy_update_request_pending_
  phyReqTx          : UInt8
  phyReqRx          : UInt8
  procTimeout       : Nat                  -- procedure_timeout_ in µs, 0 = not running
  interval          : Nat                  -- connection_interval_ in µs
  connTimeout       : Nat                  -- connection_timeout_ in µs
  timeSince         : Nat                  -- time_since_last_event() in µs
  evCounter         : Nat                  -- connection_event_counter() (std::uint16_t: kept < 65536)
  deferred          : Option Pdu           -- defered_ll_control_pdu_
  deferredInstant   : Nat                  -- defered_conn_event_counter_
  terminationSent   : Bool                 -- termination_send_
  stopped           : Bool                 -- ll_data_pdu_buffer::stopped_
  reason            : UInt8                -- disconnecting_reason_
  rxq               : List Pdu             -- received, not yet handled (next_ll_l2cap_received)
  txq               : List Pdu             -- committed, not yet transmitted
  inflight          : Bool                 -- last transmitted PDU not yet acknowledged
  ring              : List Event           -- connection_callbacks::events_ (ring< 4 >)
  dropped           : Nat                  -- ghost: number of events `try_push` refused (never read)
  early             : Bool                 -- ghost: disconnect() was called in state `connecting` (never read)
deriving Repr

-- src: link_layer::supported_features
def supportedFeatures (c : Cfg) : Nat :=
  0x02 + 0x04 + 0x10 + (if c.security then 0x01 else 0) + (if c.phy2m then 0x100 else 0)

-- src: link_layer::link_layer() + first run() (start_advertising_impl)
def init (c : Cfg) : State :=
  { cfg := c, phase := .advertising, sec := Sec.init, keys := [],
    usedFeatures := supportedFeatures c, versionReceived := false, versionReqPending := false,
    paramReqPending := false, paramReqRunning := false, paramReqSignaling := false,
    proposed := [0, 0, 0, 0], phyReqPending := false, phyReqTx := 0, phyReqRx := 0,
    procTimeout := 0, interval := 0, connTimeout := 0, timeSince := 0, evCounter := 0,
    deferred := none, deferredInstant := 0, terminationSent := false, stopped := false,
    reason := 0x08, rxq := [], txq := [], inflight := false, ring := [], dropped := 0, early := false }

def rd8 (b : Bytes) (i : Nat) : UInt8 := b.getD i 0
-- src: bluetoe::details::read_16bit / read_64bit
def rd16 (b : Bytes) (i : Nat) : Nat := (rd8 b i).toNat + 256 * (rd8 b (i + 1)).toNat
def rdLE (b : Bytes) (i n : Nat) : Nat :=
  match n with
  | 0 => 0
  | n + 1 => (rd8 b i).toNat + 256 * rdLE b (i + 1) n

def lo8 (n : Nat) : UInt8 := UInt8.ofNat (n % 256)
def hi8 (n : Nat) : UInt8 := UInt8.ofNat (n / 256 % 256)

def ctrl (body : Bytes) : Pdu := { llid := 3, body := body }

/-! opcodes -/
def LL_CONNECTION_UPDATE_IND : UInt8 := 0x00
def LL_CHANNEL_MAP_REQ : UInt8 := 0x01
def LL_TERMINATE_IND : UInt8 := 0x02
def LL_ENC_REQ : UInt8 := 0x03
def LL_ENC_RSP : UInt8 := 0x04
def LL_START_ENC_REQ : UInt8 := 0x05
def LL_START_ENC_RSP : UInt8 := 0x06
def LL_UNKNOWN_RSP : UInt8 := 0x07
def LL_FEATURE_REQ : UInt8 := 0x08
def LL_FEATURE_RSP : UInt8 := 0x09
def LL_PAUSE_ENC_REQ : UInt8 := 0x0A
def LL_PAUSE_ENC_RSP : UInt8 := 0x0B
def LL_VERSION_IND : UInt8 := 0x0C
def LL_REJECT_IND : UInt8 := 0x0D
def LL_CONNECTION_PARAM_REQ : UInt8 := 0x0F
def LL_CONNECTION_PARAM_RSP : UInt8 := 0x10
def LL_REJECT_EXT_IND : UInt8 := 0x11
def LL_PING_REQ : UInt8 := 0x12
def LL_PING_RSP : UInt8 := 0x13
def LL_PHY_REQ : UInt8 := 0x16
def LL_PHY_RSP : UInt8 := 0x17
def LL_PHY_UPDATE_IND : UInt8 := 0x18

/-- our LL_VERSION_IND: version 0x09, company 0x0269, subversion 0 -/
def versionInd : Pdu := ctrl [LL_VERSION_IND, 0x09, 0x69, 0x02, 0x00, 0x00]

-- src: ll_data_pdu_buffer::commit_transmit_buffer (dropped once stop_ll_pdu_buffer() was called)
def commit (s : State) (p : Pdu) : State :=
  if s.stopped then s else { s with txq := s.txq ++ [p] }

-- src: connection_callbacks::* → events_.try_push( data ) with the result ignored (ring< 4 >)
def push (s : State) (e : Event) : State :=
  if s.ring.length < 4 then { s with ring := s.ring ++ [e] } else { s with dropped := s.dropped + 1 }

-- src: link_layer_security_impl::reset_encryption (with fix 02). Without security support
--      (link_layer_no_security_impl) the function is empty and `sec` is `Sec.init` all the time,
--      so assigning `Sec.init` is the identity there as well.
def resetEncryption (s : State) : State := { s with sec := Sec.init }

-- src: link_layer::reject
def rejectPdu (s : State) (opcode code : UInt8) : Pdu :=
  if s.usedFeatures &&& 0x04 ≠ 0 then ctrl [LL_REJECT_EXT_IND, opcode, code]
  else ctrl [LL_REJECT_IND, code]

-- src: link_layer::force_disconnect + start_advertising_impl
def forceDisconnect (s : State) : State :=
  { push (resetEncryption s) (if s.phase ≠ .connecting then .closed s.reason else .attemptTimeout) with
    phase := .advertising, deferred := none }

-- src: desired_connection_parameters_base::parse_and_check_params +
--      no_desired_connection_parameters::handle_connection_parameters_request
def paramRequestResponse (body : Bytes) : Pdu :=
  let mn := rd16 body 1
  let mx := rd16 body 3
  let lat := rd16 body 5
  if mx < mn ∨ mn < 5 ∨ mx > 3200 ∨ lat > 499 then
    ctrl [LL_REJECT_EXT_IND, LL_CONNECTION_PARAM_REQ, 0x1E]
  else ctrl (LL_CONNECTION_PARAM_RSP :: body.drop 1)

def validPhy (c : UInt8) : Bool := c = 0 ∨ c = 1 ∨ c = 2

/-- LL_ENC_RSP with the SKDs / IVs of the test radio's `setup_encryption` -/
def encRsp : Pdu :=
  ctrl [LL_ENC_RSP, 0x56, 0xaa, 0x55, 0x78, 0x10, 0x22, 0xac, 0x3f, 0x12, 0x34, 0x56, 0x78]

-- src: link_layer_security_impl::handle_encryption_pdus (with fix 01); `none` = "return false"
--      result: state, response to commit (if commit stays true)
def handleEncryptionPdus (s : State) (opcode : UInt8) (size : Nat) (body : Bytes) :
    Option (State × Option Pdu) :=
  if ¬ s.cfg.security then none
  else if opcode = LL_ENC_REQ ∧ size = 23 then
    let found := s.keys.contains (rd16 body 9, rdLE body 1 8)     -- connection_data_.find_key( ediv, rand )
    some ({ s with sec := { s.sec with inProgress := true, startPending := false, hasKey := found,
                                       gKey := found, gReq := false } }, some encRsp)
  else if opcode = LL_START_ENC_RSP ∧ size = 1 ∧ s.sec.startPending then
    let changed := ! s.sec.encrypted
    let s := { s with sec := { s.sec with startPending := false, txEnc := true, encrypted := true,
                                          gStarted := s.sec.gKey && s.sec.gReq } }
    some (if changed then push s .changed else s, some (ctrl [LL_START_ENC_RSP]))
  else if opcode = LL_PAUSE_ENC_REQ ∧ size = 1 then
    let changed := s.sec.encrypted
    let s := { s with sec := { s.sec with rxEnc := false, encrypted := false, gStarted := false } }
    some (if changed then push s .changed else s, some (ctrl [LL_PAUSE_ENC_RSP]))
  else if opcode = LL_PAUSE_ENC_RSP ∧ size = 1 then
    let changed := s.sec.encrypted
    let s := { s with sec := { s.sec with txEnc := false, encrypted := false, gStarted := false } }
    some (if changed then push s .changed else s, none)
  else none

-- src: phy_update_request_impl::handle_phy_request; `none` = "return false"
def handlePhyRequest (s : State) (p : Pdu) (opcode : UInt8) (size : Nat) :
    Option (State × Option Pdu) :=
  if ¬ s.cfg.phy2m then none
  else if opcode = LL_PHY_REQ ∧ size = 3 then some (s, some (ctrl [LL_PHY_RSP, 0x03, 0x03]))
  else if opcode = LL_PHY_UPDATE_IND ∧ size = 5 then
    let c2p := rd8 p.body 1
    let p2c := rd8 p.body 2
    if ¬ (validPhy c2p ∧ validPhy p2c) then none
    else if c2p = 0 ∧ p2c = 0 then some (push s (.phy c2p p2c), none)
    else some ({ s with deferred := some p, deferredInstant := rd16 p.body 3 }, none)
  else none

/-- the reject / unknown branch of handle_ll_control_data -/
def endsProcedure (s : State) (opcode : UInt8) : State :=
  -- signaling_channel_t::connection_parameter_update_request: no_signaling_channel → false
  { s with procTimeout := 0,
           paramReqSignaling := if s.paramReqRunning ∧ s.paramReqSignaling then false else s.paramReqSignaling,
           paramReqRunning := if s.paramReqRunning ∧ s.paramReqSignaling then false else s.paramReqRunning,
           usedFeatures := if opcode = LL_UNKNOWN_RSP then s.usedFeatures &&& 0xFFFD else s.usedFeatures }

def handleRejects (s : State) (opcode : UInt8) (body : Bytes) : State :=
  push (if ¬ (opcode = LL_UNKNOWN_RSP ∨ opcode = LL_REJECT_EXT_IND) ∨ rd8 body 1 = LL_CONNECTION_PARAM_REQ
        then endsProcedure s opcode else s)
    (if opcode ≠ LL_UNKNOWN_RSP then .rejected (if opcode = LL_REJECT_IND then rd8 body 1 else rd8 body 2)
     else .unknown (rd8 body 1))

def opcodeOf (body : Bytes) : UInt8 := if body.length > 0 then rd8 body 0 else 0xff

-- src: link_layer::instant_passed (fix d12fb4f): `distance = uint16( instant - connEventCount )`,
--      passed (or not reachable: the PDU is handled after its event) iff 0 or >= 32767
def instantPassed (s : State) (inst : Nat) : Bool :=
  decide ((inst + 65536 - s.evCounter) % 65536 = 0 ∨ (inst + 65536 - s.evCounter) % 65536 ≥ 32767)

/-- LL_CONNECTION_UPDATE_IND branch -/
def ctlConnectionUpdate (s : State) (p : Pdu) : State × Bool :=
  if instantPassed s (rd16 p.body 10) = true ∨ rd16 p.body 10 = s.evCounter + 1 then
    ({ s with deferredInstant := rd16 p.body 10, reason := 0x28 }, true)
  else ({ s with deferredInstant := rd16 p.body 10, deferred := some p }, false)

/-- LL_CHANNEL_MAP_REQ branch -/
def ctlChannelMap (s : State) (p : Pdu) : State × Bool :=
  if instantPassed s (rd16 p.body 6) = true then
    ({ s with deferredInstant := rd16 p.body 6, reason := 0x28 }, true)
  else ({ s with deferredInstant := rd16 p.body 6, deferred := some p }, false)

/-- LL_VERSION_IND branch (first one of the connection) -/
def ctlVersion (s : State) (body : Bytes) : State :=
  commit (push { s with procTimeout := 0, versionReceived := true,
                        usedFeatures := if (rd8 body 1).toNat ≤ 6 then s.usedFeatures &&& 0xFFFD else s.usedFeatures }
            (.version ((body.drop 1).take 5))) versionInd

/-- LL_FEATURE_REQ branch -/
def ctlFeature (s : State) (body : Bytes) : State :=
  commit (push { s with usedFeatures := s.usedFeatures &&& rd16 body 1 } (.features ((body.drop 1).take 8)))
    (ctrl [LL_FEATURE_RSP, lo8 (s.usedFeatures &&& rd16 body 1), hi8 (supportedFeatures s.cfg), 0, 0, 0, 0, 0, 0])

/-- after handle_phy_request (fix d12fb4f): a just deferred LL_PHY_UPDATE_IND is subject to the
    same instant rule; an unreachable instant ends the connection with reason 0x28 -/
def phyInstantCheck (s : State) : State × Bool :=
  if s.deferred.isSome = true ∧ instantPassed s s.deferredInstant = true then
    ({ s with deferred := none, reason := 0x28 }, true)
  else (s, false)

/-- the tail of handle_ll_control_data: encryption PDUs, PHY PDUs, LL_UNKNOWN_RSP -/
def ctlOther (s : State) (p : Pdu) (opcode : UInt8) (size : Nat) : State × Bool :=
  match handleEncryptionPdus s opcode size p.body with
  | some (s', some rsp) => (commit s' rsp, false)
  | some (s', none) => (s', false)
  | none =>
    match handlePhyRequest s p opcode size with
    | some (s', some rsp) => (commit (phyInstantCheck s').1 rsp, (phyInstantCheck s').2)
    | some (s', none) => phyInstantCheck s'
    | none =>
      if opcode ≠ LL_UNKNOWN_RSP then (commit s (ctrl [LL_UNKNOWN_RSP, opcode]), false)
      else (s, false)

def handleControlAux (s : State) (p : Pdu) (opcode : UInt8) (size : Nat) : State × Bool :=
  if opcode = LL_CONNECTION_UPDATE_IND ∧ size = 12 then ctlConnectionUpdate s p
  else if opcode = LL_TERMINATE_IND ∧ size = 2 then ({ s with reason := rd8 p.body 1 }, true)
  else if opcode = LL_VERSION_IND ∧ size = 6 ∧ s.versionReceived = false then (ctlVersion s p.body, false)
  else if opcode = LL_CHANNEL_MAP_REQ ∧ size = 8 then ctlChannelMap s p
  else if opcode = LL_PING_REQ ∧ size = 1 then (commit s (ctrl [LL_PING_RSP]), false)
  else if opcode = LL_FEATURE_REQ ∧ size = 9 then (ctlFeature s p.body, false)
  else if (opcode = LL_UNKNOWN_RSP ∧ size = 2) ∨ (opcode = LL_REJECT_IND ∧ size = 2)
       ∨ (opcode = LL_REJECT_EXT_IND ∧ size = 3) then
    (handleRejects s opcode p.body, false)
  else if opcode = LL_CONNECTION_PARAM_REQ ∧ size = 24 then
    (commit s (paramRequestResponse p.body), false)
  else ctlOther s p opcode size

-- src: link_layer::handle_ll_control_data; second component: ll_result::disconnect
def handleControl (s : State) (p : Pdu) : State × Bool :=
  handleControlAux s p (opcodeOf p.body) p.body.length

/-- ATT Read Request for handle 3 (the encryption-protected characteristic value) on CID 4 -/
def attReadReq : Bytes := [0x03, 0x00, 0x04, 0x00, 0x0a, 0x03, 0x00]
def attReadRsp : Pdu := { llid := 2, body := [0x03, 0x00, 0x04, 0x00, 0x0b, 0x11, 0x47] }
def attReadErr : Pdu := { llid := 2, body := [0x05, 0x00, 0x04, 0x00, 0x01, 0x0a, 0x03, 0x00, 0x05] }

-- src: handle_l2cap_input → server::l2cap_input (only the request the correspondence uses);
--      a server without encryption requirement answers with its value
def l2capInput (s : State) (body : Bytes) : State :=
  if body = attReadReq then
    if s.cfg.security then commit s (if s.sec.encrypted then attReadRsp else attReadErr)
    else commit s { llid := 2, body := [0x03, 0x00, 0x04, 0x00, 0x0b, 0x15, 0x08] }
  else s

-- src: link_layer::handle_received_data (the for loop; `q` = PDUs still in the receive buffer)
def handleReceivedLoop (s : State) : List Pdu → State × Bool
  | [] => ({ s with rxq := [] }, false)
  | p :: rest =>
    if s.deferred.isSome then ({ s with rxq := p :: rest }, false)
    else if p.llid = 3 then
      let (s', disc) := handleControl s p
      if disc then ({ s' with rxq := rest }, true) else handleReceivedLoop s' rest
    else if p.llid = 2 ∧ s.phase ≠ .disconnecting then
      handleReceivedLoop (l2capInput s p.body) rest
    else ({ s with rxq := p :: rest }, false)

def handleReceived (s : State) : State × Bool :=
  if s.deferred.isSome then (s, false) else handleReceivedLoop s s.rxq

-- src: link_layer::send_control_pdus
def sendControlPdus (s : State) : State :=
  if s.phase = .disconnecting ∧ ¬ s.terminationSent then
    let s := commit s (ctrl [LL_TERMINATE_IND, s.reason])
    { s with stopped := true, terminationSent := true }
  else s

-- src: link_layer_security_impl::transmit_pending_security_pdus (with fix 01)
def transmitPendingSecurity (s : State) : State :=
  if ¬ s.cfg.security ∨ ¬ s.sec.inProgress then s
  else if s.sec.hasKey then
    let s := commit s (ctrl [LL_START_ENC_REQ])
    { s with sec := { s.sec with rxEnc := true, startPending := true, inProgress := false, gReq := true } }
  else
    let s := commit s (rejectPdu s LL_ENC_REQ 0x06)
    { s with sec := { s.sec with inProgress := false } }

-- src: link_layer::check_timing_paremeters / parse_timing_parameters_from_connection_update_request
def updateTimingOk (body : Bytes) : Bool :=
  let winSize := (rd8 body 1).toNat * 1250
  let winOffset := rd16 body 2 * 1250
  let interval := rd16 body 4 * 1250
  let latency := rd16 body 6
  let timeout := rd16 body 8 * 10000
  decide (winOffset ≤ interval ∧ winSize ≤ 10000 ∧ winSize ≤ interval ∧ 100000 ≤ timeout
    ∧ timeout ≤ 32000000 ∧ (latency + 1) * 2 * interval ≤ timeout ∧ latency ≤ 499)

/-- the deferred PDU is applied -/
def applyDeferred (s : State) (p : Pdu) : State × Bool :=
  if rd8 p.body 0 = LL_CHANNEL_MAP_REQ then ({ s with deferred := none }, false)
  else if rd8 p.body 0 = LL_CONNECTION_UPDATE_IND then
    if updateTimingOk p.body then
      (push { s with procTimeout := 0, interval := rd16 p.body 4 * 1250, connTimeout := rd16 p.body 8 * 10000,
                     phase := .connectionChanged, deferred := none } .changed, false)
    else ({ s with procTimeout := 0, interval := rd16 p.body 4 * 1250, connTimeout := rd16 p.body 8 * 10000,
                   deferred := none }, true)
  else
    -- handle_pending_phy_request (only LL_PHY_UPDATE_IND can be deferred otherwise)
    (push { s with deferred := none } (.phy (rd8 p.body 1) (rd8 p.body 2)), false)

-- src: link_layer::handle_pending_ll_control( connection_event_counter() )
def handlePending (s : State) : State × Bool :=
  match s.deferred with
  | none => (s, false)
  | some p => if s.deferredInstant ≠ s.evCounter then (s, false) else applyDeferred s p

def paramReqPdu (s : State) : Pdu :=
  let v := fun i => s.proposed.getD i 0
  ctrl ([LL_CONNECTION_PARAM_REQ, lo8 (v 0), hi8 (v 0), lo8 (v 1), hi8 (v 1), lo8 (v 2), hi8 (v 2),
         lo8 (v 3), hi8 (v 3), 0x00, 0x00, 0x00] ++ List.replicate 12 0xff)

-- src: link_layer::transmit_pending_control_pdus
def transmitPendingControl (s : State) : State :=
  if s.paramReqPending then
    commit { s with procTimeout := 40000000, paramReqPending := false, paramReqRunning := true }
      (paramReqPdu s)
  else if s.phyReqPending then
    commit { s with phyReqPending := false } (ctrl [LL_PHY_REQ, s.phyReqTx, s.phyReqRx])
  else if s.versionReqPending then
    commit { s with procTimeout := 40000000, versionReqPending := false } versionInd
  else s

-- src: connection_callbacks::handle_connection_events (drains the ring at the end of a callback)
def drain (s : State) : State × List Event := ({ s with ring := [] }, s.ring)

-- src: link_layer::check_timing_paremeters for the CONNECT_IND of the harness
--      (window size 3, window offset 11, latency 0)
def connectOk (interval timeout : Nat) : Bool :=
  decide (11 * 1250 ≤ interval * 1250 ∧ 3750 ≤ interval * 1250 ∧ 100000 ≤ timeout * 10000
    ∧ timeout * 10000 ≤ 32000000 ∧ 2 * (interval * 1250) ≤ timeout * 10000)

-- src: link_layer::adv_received (valid CONNECT_IND)
def connect (s : State) (interval timeout : Nat) : State :=
  let s := { s with
    phase := .connecting, usedFeatures := supportedFeatures s.cfg,
    paramReqPending := false, paramReqRunning := false, paramReqSignaling := false,
    phyReqPending := false, versionReqPending := false, versionReceived := false,
    reason := 0x08, procTimeout := 0, interval := interval * 1250, connTimeout := timeout * 10000,
    timeSince := 0, evCounter := 0, rxq := [], txq := [], inflight := false, stopped := false,
    -- connection_data_ = connection_data_t(): a fresh link_state is not encrypted
    sec := { s.sec with encrypted := false, gStarted := false } }
  push s .requested

def timeoutPlan (s : State) : State :=
  match handlePending { s with evCounter := (s.evCounter + 1) % 65536, timeSince := s.timeSince + s.interval } with
  | (s', true) => forceDisconnect s'
  | (s', false) => s'

-- src: link_layer::timeout
def timeoutCallback (s : State) : State :=
  if s.phase = .disconnecting ∧ s.terminationSent ∧ ¬ (s.inflight ∨ s.txq ≠ []) then
    forceDisconnect s
  else if s.procTimeout ≠ 0 ∧ s.procTimeout ≤ s.timeSince then
    forceDisconnect { s with reason := 0x22 }
  else if s.timeSince < s.connTimeout ∧ ¬ (s.phase = .connecting ∧ s.timeSince ≥ 5 * s.interval) then
    timeoutPlan s
  else forceDisconnect s

-- src: test radio simulate_connection_event_response + ll_data_pdu_buffer::received:
--      everything committed goes out; the peripheral's k-th PDU is acknowledged by the central's
--      (k+1)-th PDU of the same event, so the last one stays unacknowledged unless the central
--      sent more PDUs than the peripheral; PDUs without payload are not handed to the link layer
def radioExchange (s : State) (pdus : List Pdu) : State × List Pdu :=
  ({ s with rxq := s.rxq ++ pdus.filter (fun p => p.body ≠ []), txq := [],
            inflight := decide (s.txq ≠ [] ∧ max 1 pdus.length ≤ s.txq.length) }, s.txq)

/-! `link_layer::end_event` (after the radio exchange), cut into its stages -/

def endEventEnter (s : State) : State :=
  let s := if s.phase = .connecting then push s .established else s
  if s.phase ≠ .disconnecting then { s with phase := .connected } else s

def decTimeout (s : State) : State :=
  if s.procTimeout ≠ 0 then { s with procTimeout := s.procTimeout - s.timeSince } else s

/-- plan_next_connection_event, handle_pending_ll_control, transmit_pending_control_pdus -/
def endEventPlan (s : State) : State :=
  match handlePending { s with evCounter := (s.evCounter + 1) % 65536, timeSince := s.interval } with
  | (s', true) => forceDisconnect s'
  | (s', false) =>
    if s'.phase = .connected ∨ s'.phase = .connecting then transmitPendingControl s' else s'

/-- procedure timeout bookkeeping, transmit_pending_security_pdus -/
def endEventTail (s : State) : State :=
  if s.procTimeout ≠ 0 ∧ s.procTimeout ≤ s.timeSince then forceDisconnect { s with reason := 0x22 }
  else endEventPlan (transmitPendingSecurity (decTimeout s))

def endEventBody (s : State) : State :=
  if s.phase = .disconnecting ∧ s.terminationSent ∧ ¬ (s.inflight ∨ s.txq ≠ []) then forceDisconnect s
  else
    match handleReceived s with
    | (s', true) => forceDisconnect s'
    | (s', false) => endEventTail (sendControlPdus s')

-- src: link_layer::end_event
def endEvent (s : State) : State := endEventBody (endEventEnter s)

inductive Op where
  | key (ediv rand : Nat)
  | connect (interval timeout : Nat)
  | ev (pdus : List Pdu)
  | timeout
  | adv
  | apiDisconnect (reason : UInt8)
  | apiVersion
  | apiParam (a b c d : Nat)
  | apiParamLl (a b c d : Nat)
  | apiPhy (t r : UInt8)
deriving Repr, DecidableEq

structure Out where
  tx  : List Pdu := []          -- PDUs the peripheral transmitted in this connection event
  cbs : List Event := []        -- callbacks the application received during this radio callback
  r   : Option Bool := none     -- result of the API call
  bad : Bool := false           -- the harness refuses the op in this state
deriving Repr, DecidableEq

def connectedLike (s : State) : Bool :=
  s.phase = .connected ∨ s.phase = .connecting ∨ s.phase = .connectionChanged

def step (s : State) : Op → State × Out
  | .key e r => ({ s with keys := (e, r) :: s.keys }, {})
  | .connect i t =>
    if s.phase ≠ .advertising then (s, { r := some false })
    else if connectOk i t then
      let (s, cbs) := drain (connect s i t)
      (s, { cbs := cbs, r := some true })
    else (s, { r := some false })
  | .ev pdus =>
    if s.phase = .advertising then (s, { bad := true })
    else
      let (s, tx) := radioExchange s pdus
      let (s, cbs) := drain (endEvent s)
      (s, { tx := tx, cbs := cbs })
  | .timeout =>
    if s.phase = .advertising then (s, { bad := true })
    else
      let (s, cbs) := drain (timeoutCallback s)
      (s, { cbs := cbs })
  | .adv => if s.phase = .advertising then (s, {}) else (s, { bad := true })
  | .apiDisconnect reason =>
    -- src: link_layer::disconnect( reason )
    if connectedLike s then
      (resetEncryption { s with phase := .disconnecting, terminationSent := false, reason := reason,
                                procTimeout := s.connTimeout,
                                early := s.early || decide (s.phase = .connecting) }, { r := some true })
    else (s, { bad := true })
  | .apiVersion =>
    -- src: link_layer::remote_versions_request
    if s.versionReqPending ∨ s.procTimeout ≠ 0 then (s, { r := some false })
    else ({ s with versionReqPending := true }, { r := some true })
  | .apiParam a b c d =>
    -- src: link_layer::connection_parameter_update_request (no_signaling_channel)
    if s.usedFeatures &&& 0x02 ≠ 0 then
      if s.paramReqPending then (s, { r := some false })
      else ({ s with proposed := [a, b, c, d], paramReqPending := true, paramReqSignaling := true },
            { r := some true })
    else (s, { r := some false })
  | .apiParamLl a b c d =>
    -- src: link_layer::initiating_connection_parameter_request
    if s.paramReqPending ∨ s.procTimeout ≠ 0 then (s, { r := some false })
    else ({ s with proposed := [a, b, c, d], paramReqPending := true }, { r := some true })
  | .apiPhy t r =>
    -- src: link_layer::phy_update_request
    if s.phyReqPending then (s, { r := some false })
    else ({ s with phyReqPending := true, phyReqTx := t, phyReqRx := r }, { r := some true })

/-- run a history, collecting the outputs -/
def run (s : State) : List Op → State × List Out
  | [] => (s, [])
  | op :: ops =>
    let (s', o) := step s op
    let (s'', os) := run s' ops
    (s'', o :: os)

end BluetoeModel.LlControl
