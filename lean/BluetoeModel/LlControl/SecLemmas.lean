import BluetoeModel.LlControl.Model
/-!
  Invariant of the security state used by the C28 theorems, and its preservation by every
  function of the model.
-/
namespace BluetoeModel.LlControl

/-- the part of the invariant that only talks about the security state -/
structure SecOK (x : Sec) : Prop where
  enc  : x.encrypted = true → x.gStarted = true
  pend : x.startPending = true → x.gKey = true ∧ x.gReq = true
  prog : x.inProgress = true → x.hasKey = true → x.gKey = true

/-- the invariant: `SecOK`, and nothing of an encryption procedure survives the end of a connection -/
structure Inv (s : State) : Prop where
  ok  : SecOK s.sec
  adv : s.phase = .advertising → s.sec = Sec.init

theorem secOK_init : SecOK Sec.init := ⟨by simp [Sec.init], by simp [Sec.init], by simp [Sec.init]⟩

@[simp] theorem commit_sec (s : State) (p : Pdu) : (commit s p).sec = s.sec := by
  unfold commit; split <;> rfl
@[simp] theorem commit_phase (s : State) (p : Pdu) : (commit s p).phase = s.phase := by
  unfold commit; split <;> rfl
@[simp] theorem commit_cfg (s : State) (p : Pdu) : (commit s p).cfg = s.cfg := by
  unfold commit; split <;> rfl
@[simp] theorem commit_keys (s : State) (p : Pdu) : (commit s p).keys = s.keys := by
  unfold commit; split <;> rfl
@[simp] theorem commit_deferred (s : State) (p : Pdu) : (commit s p).deferred = s.deferred := by
  unfold commit; split <;> rfl
@[simp] theorem push_sec (s : State) (e : Event) : (push s e).sec = s.sec := by
  unfold push; split <;> rfl
@[simp] theorem push_phase (s : State) (e : Event) : (push s e).phase = s.phase := by
  unfold push; split <;> rfl
@[simp] theorem push_cfg (s : State) (e : Event) : (push s e).cfg = s.cfg := by
  unfold push; split <;> rfl
@[simp] theorem push_keys (s : State) (e : Event) : (push s e).keys = s.keys := by
  unfold push; split <;> rfl
@[simp] theorem push_deferred (s : State) (e : Event) : (push s e).deferred = s.deferred := by
  unfold push; split <;> rfl

@[simp] theorem handleRejects_sec (s : State) (o : UInt8) (b : Bytes) : (handleRejects s o b).sec = s.sec := by
  unfold handleRejects endsProcedure; rw [push_sec]; split <;> rfl
@[simp] theorem handleRejects_phase (s : State) (o : UInt8) (b : Bytes) :
    (handleRejects s o b).phase = s.phase := by
  unfold handleRejects endsProcedure; rw [push_phase]; split <;> rfl

/-- what `handle_encryption_pdus` does to the security state -/
theorem handleEncryptionPdus_ok (s : State) (o : UInt8) (n : Nat) (b : Bytes) (s' : State) (r : Option Pdu)
    (h : handleEncryptionPdus s o n b = some (s', r)) (hok : SecOK s.sec) :
    SecOK s'.sec ∧ s'.phase = s.phase := by
  unfold handleEncryptionPdus at h
  obtain ⟨he, hp, hg⟩ := hok
  split at h
  · simp at h
  · split at h
    · simp only [Option.some.injEq, Prod.mk.injEq] at h
      obtain ⟨rfl, -⟩ := h
      exact ⟨⟨by simpa using he, by simp, by simp⟩, rfl⟩
    · split at h
      · rename_i hc
        simp only [Option.some.injEq, Prod.mk.injEq] at h
        obtain ⟨rfl, -⟩ := h
        have := hp hc.2.2
        refine ⟨?_, ?_⟩
        · split
          · rw [push_sec]; exact ⟨by simp [this], by simp, by simpa using hg⟩
          · exact ⟨by simp [this], by simp, by simpa using hg⟩
        · split <;> simp
      · split at h
        · simp only [Option.some.injEq, Prod.mk.injEq] at h
          obtain ⟨rfl, -⟩ := h
          refine ⟨?_, ?_⟩
          · split
            · rw [push_sec]; exact ⟨by simp, by simpa using hp, by simpa using hg⟩
            · exact ⟨by simp, by simpa using hp, by simpa using hg⟩
          · split <;> simp
        · split at h
          · simp only [Option.some.injEq, Prod.mk.injEq] at h
            obtain ⟨rfl, -⟩ := h
            refine ⟨?_, ?_⟩
            · split
              · rw [push_sec]; exact ⟨by simp, by simpa using hp, by simpa using hg⟩
              · exact ⟨by simp, by simpa using hp, by simpa using hg⟩
            · split <;> simp
          · simp at h

theorem handlePhyRequest_same (s : State) (p : Pdu) (o : UInt8) (n : Nat) (s' : State) (r : Option Pdu)
    (h : handlePhyRequest s p o n = some (s', r)) : s'.sec = s.sec ∧ s'.phase = s.phase := by
  unfold handlePhyRequest at h
  simp only [] at h
  repeat' split at h
  all_goals simp only [Option.some.injEq, Prod.mk.injEq, reduceCtorEq] at h
  all_goals (try (obtain ⟨rfl, -⟩ := h))
  all_goals simp

theorem phyInstantCheck_same (s : State) :
    (phyInstantCheck s).1.sec = s.sec ∧ (phyInstantCheck s).1.phase = s.phase := by
  unfold phyInstantCheck; split <;> exact ⟨rfl, rfl⟩

theorem ctlOther_ok (s : State) (p : Pdu) (o : UInt8) (n : Nat) (hok : SecOK s.sec) :
    SecOK (ctlOther s p o n).1.sec ∧ (ctlOther s p o n).1.phase = s.phase := by
  unfold ctlOther
  split
  · rename_i s' rsp h
    have := handleEncryptionPdus_ok _ _ _ _ _ _ h hok
    simpa using this
  · rename_i s' h
    exact handleEncryptionPdus_ok _ _ _ _ _ _ h hok
  · split
    · rename_i s' rsp h
      have := handlePhyRequest_same _ _ _ _ _ _ h
      have hc := phyInstantCheck_same s'
      simp only [commit_sec, commit_phase, hc.1, hc.2, this.1, this.2]; exact ⟨hok, trivial⟩
    · rename_i s' h
      have := handlePhyRequest_same _ _ _ _ _ _ h
      have hc := phyInstantCheck_same s'
      simp only [hc.1, hc.2, this.1, this.2]; exact ⟨hok, trivial⟩
    · split
      · simpa using hok
      · exact ⟨hok, rfl⟩

theorem handleControl_ok (s : State) (p : Pdu) (hok : SecOK s.sec) :
    SecOK (handleControl s p).1.sec ∧ (handleControl s p).1.phase = s.phase := by
  unfold handleControl handleControlAux
  split
  · unfold ctlConnectionUpdate; split <;> exact ⟨hok, rfl⟩
  split
  · exact ⟨hok, rfl⟩
  split
  · unfold ctlVersion; simpa using hok
  split
  · unfold ctlChannelMap; split <;> exact ⟨hok, rfl⟩
  split
  · simpa using hok
  split
  · unfold ctlFeature; simpa using hok
  split
  · simpa using hok
  split
  · simpa using hok
  · exact ctlOther_ok _ _ _ _ hok

@[simp] theorem l2capInput_sec (s : State) (b : Bytes) : (l2capInput s b).sec = s.sec := by
  unfold l2capInput; repeat' split
  all_goals simp
@[simp] theorem l2capInput_phase (s : State) (b : Bytes) : (l2capInput s b).phase = s.phase := by
  unfold l2capInput; repeat' split
  all_goals simp

theorem handleReceivedLoop_ok (q : List Pdu) : ∀ (s : State), SecOK s.sec →
    SecOK (handleReceivedLoop s q).1.sec ∧ (handleReceivedLoop s q).1.phase = s.phase := by
  induction q with
  | nil => intro s h; exact ⟨h, rfl⟩
  | cons p rest ih =>
    intro s h
    unfold handleReceivedLoop
    split
    · exact ⟨h, rfl⟩
    split
    · have hc := handleControl_ok s p h
      generalize handleControl s p = res at hc
      obtain ⟨s', disc⟩ := res
      simp only
      split
      · exact hc
      · have := ih s' hc.1
        exact ⟨this.1, this.2.trans hc.2⟩
    split
    · have := ih (l2capInput s p.body) (by simpa using h)
      simpa using this
    · exact ⟨h, rfl⟩

theorem handleReceived_ok (s : State) (h : SecOK s.sec) :
    SecOK (handleReceived s).1.sec ∧ (handleReceived s).1.phase = s.phase := by
  unfold handleReceived; split
  · exact ⟨h, rfl⟩
  · exact handleReceivedLoop_ok _ _ h

@[simp] theorem sendControlPdus_sec (s : State) : (sendControlPdus s).sec = s.sec := by
  unfold sendControlPdus; split <;> simp
@[simp] theorem sendControlPdus_phase (s : State) : (sendControlPdus s).phase = s.phase := by
  unfold sendControlPdus; split <;> simp

theorem transmitPendingSecurity_ok (s : State) (h : SecOK s.sec) :
    SecOK (transmitPendingSecurity s).sec ∧ (transmitPendingSecurity s).phase = s.phase := by
  unfold transmitPendingSecurity
  obtain ⟨he, hp, hg⟩ := h
  split
  · exact ⟨⟨he, hp, hg⟩, rfl⟩
  · rename_i hc
    simp only [not_or, Decidable.not_not] at hc
    split
    · rename_i hk
      refine ⟨⟨by simpa using he, ?_, by simp⟩, by simp⟩
      intro _
      exact ⟨by simpa using hg hc.2 hk, by simp⟩
    · exact ⟨⟨by simpa using he, by simpa using hp, by simp⟩, by simp⟩

theorem applyDeferred_sec (s : State) (p : Pdu) : (applyDeferred s p).1.sec = s.sec := by
  unfold applyDeferred
  split
  · rfl
  split
  · split
    · simp
    · rfl
  · simp

theorem applyDeferred_phase (s : State) (p : Pdu) (h : s.phase ≠ .advertising) :
    (applyDeferred s p).1.phase ≠ .advertising := by
  unfold applyDeferred
  split
  · exact h
  split
  · split
    · simp
    · exact h
  · simpa using h

theorem handlePending_sec (s : State) : (handlePending s).1.sec = s.sec := by
  unfold handlePending
  split
  · rfl
  · split
    · rfl
    · exact applyDeferred_sec _ _

theorem handlePending_phase (s : State) (h : s.phase ≠ .advertising) :
    (handlePending s).1.phase ≠ .advertising := by
  unfold handlePending
  split
  · exact h
  · split
    · exact h
    · exact applyDeferred_phase _ _ h

@[simp] theorem transmitPendingControl_sec (s : State) : (transmitPendingControl s).sec = s.sec := by
  unfold transmitPendingControl; repeat' split
  all_goals simp
@[simp] theorem transmitPendingControl_phase (s : State) : (transmitPendingControl s).phase = s.phase := by
  unfold transmitPendingControl; repeat' split
  all_goals simp

theorem forceDisconnect_sec (s : State) : (forceDisconnect s).sec = Sec.init := by
  unfold forceDisconnect resetEncryption; simp
theorem forceDisconnect_phase (s : State) : (forceDisconnect s).phase = .advertising := rfl

theorem forceDisconnect_inv (s : State) : Inv (forceDisconnect s) :=
  ⟨by rw [forceDisconnect_sec]; exact secOK_init, fun _ => forceDisconnect_sec s⟩

theorem inv_of (s : State) (h : SecOK s.sec) (hp : s.phase ≠ .advertising) : Inv s :=
  ⟨h, fun e => absurd e hp⟩

theorem endEventPlan_inv (s : State) (h : SecOK s.sec) (hp : s.phase ≠ .advertising) :
    Inv (endEventPlan s) := by
  unfold endEventPlan
  have hs := handlePending_sec { s with evCounter := (s.evCounter + 1) % 65536, timeSince := s.interval }
  have hph := handlePending_phase { s with evCounter := (s.evCounter + 1) % 65536, timeSince := s.interval } hp
  split
  · exact forceDisconnect_inv _
  · rename_i s' heq
    rw [heq] at hs hph
    simp only at hs hph
    split
    · exact inv_of _ (by simpa [hs] using h) (by simpa using hph)
    · exact inv_of _ (by rw [hs]; exact h) hph

theorem decTimeout_sec (s : State) : (decTimeout s).sec = s.sec ∧ (decTimeout s).phase = s.phase := by
  unfold decTimeout; split <;> exact ⟨rfl, rfl⟩

theorem endEventTail_inv (s : State) (h : SecOK s.sec) (hp : s.phase ≠ .advertising) :
    Inv (endEventTail s) := by
  unfold endEventTail
  split
  · exact forceDisconnect_inv _
  · have hd := decTimeout_sec s
    have ht := transmitPendingSecurity_ok (decTimeout s) (by rw [hd.1]; exact h)
    exact endEventPlan_inv _ ht.1 (by rw [ht.2, hd.2]; exact hp)

theorem endEventBody_inv (s : State) (h : SecOK s.sec) (hp : s.phase ≠ .advertising) :
    Inv (endEventBody s) := by
  unfold endEventBody
  split
  · exact forceDisconnect_inv _
  · have hr := handleReceived_ok s h
    split
    · exact forceDisconnect_inv _
    · rename_i s' heq
      rw [heq] at hr
      simp only at hr
      exact endEventTail_inv _ (by simpa using hr.1) (by simpa [hr.2] using hp)

theorem endEventEnter_ok (s : State) (h : SecOK s.sec) (hp : s.phase ≠ .advertising) :
    SecOK (endEventEnter s).sec ∧ (endEventEnter s).phase ≠ .advertising := by
  unfold endEventEnter
  simp only []
  split
  · split
    · exact ⟨by simpa using h, by simp⟩
    · exact ⟨by simpa using h, by simpa using hp⟩
  · split
    · exact ⟨h, by simp⟩
    · exact ⟨h, hp⟩

theorem endEvent_inv (s : State) (h : SecOK s.sec) (hp : s.phase ≠ .advertising) : Inv (endEvent s) := by
  have := endEventEnter_ok s h hp
  exact endEventBody_inv _ this.1 this.2

theorem timeoutPlan_inv (s : State) (h : SecOK s.sec) (hp : s.phase ≠ .advertising) :
    Inv (timeoutPlan s) := by
  unfold timeoutPlan
  have hs := handlePending_sec { s with evCounter := (s.evCounter + 1) % 65536, timeSince := s.timeSince + s.interval }
  have hph := handlePending_phase { s with evCounter := (s.evCounter + 1) % 65536, timeSince := s.timeSince + s.interval } hp
  split
  · exact forceDisconnect_inv _
  · rename_i s' heq
    rw [heq] at hs hph
    simp only at hs hph
    exact inv_of _ (by rw [hs]; exact h) hph

theorem timeoutCallback_inv (s : State) (h : SecOK s.sec) (hp : s.phase ≠ .advertising) :
    Inv (timeoutCallback s) := by
  unfold timeoutCallback
  split
  · exact forceDisconnect_inv _
  split
  · exact forceDisconnect_inv _
  split
  · exact timeoutPlan_inv s h hp
  · exact forceDisconnect_inv _

theorem radioExchange_sec (s : State) (l : List Pdu) :
    (radioExchange s l).1.sec = s.sec ∧ (radioExchange s l).1.phase = s.phase := ⟨rfl, rfl⟩

theorem drain_sec (s : State) : (drain s).1.sec = s.sec ∧ (drain s).1.phase = s.phase := ⟨rfl, rfl⟩

theorem inv_drain (s : State) (h : Inv s) : Inv (drain s).1 := ⟨h.ok, h.adv⟩

theorem connect_inv (s : State) (i t : Nat) (h : Inv s) (hp : s.phase = .advertising) :
    Inv (connect s i t) := by
  have hs := h.adv hp
  unfold connect
  simp only []
  refine inv_of _ ?_ (by simp)
  rw [push_sec]
  simp only [hs, Sec.init]
  exact ⟨by simp, by simp, by simp⟩

theorem resetEncryption_sec (s : State) : (resetEncryption s).sec = Sec.init := rfl
theorem resetEncryption_phase (s : State) : (resetEncryption s).phase = s.phase := rfl

/-- every operation preserves the invariant -/
theorem step_inv (s : State) (op : Op) (h : Inv s) : Inv (step s op).1 := by
  cases op with
  | key e r => exact ⟨h.ok, h.adv⟩
  | connect i t =>
    simp only [step]
    split
    · exact h
    · rename_i hp
      simp only [ne_eq, Decidable.not_not] at hp
      split
      · exact inv_drain _ (connect_inv s i t h hp)
      · exact h
  | ev pdus =>
    simp only [step]
    split
    · exact h
    · rename_i hp
      exact inv_drain _ (endEvent_inv _ h.ok hp)
  | timeout =>
    simp only [step]
    split
    · exact h
    · rename_i hp
      exact inv_drain _ (timeoutCallback_inv _ h.ok hp)
  | adv => simp only [step]; split <;> exact h
  | apiDisconnect r =>
    simp only [step]
    split
    · refine inv_of _ ?_ ?_
      · rw [resetEncryption_sec]; exact secOK_init
      · rw [resetEncryption_phase]; simp
    · exact h
  | apiVersion => simp only [step]; split <;> exact ⟨h.ok, h.adv⟩
  | apiParam a b c d => simp only [step]; repeat' split
                        all_goals exact ⟨h.ok, h.adv⟩
  | apiParamLl a b c d => simp only [step]; split <;> exact ⟨h.ok, h.adv⟩
  | apiPhy t r => simp only [step]; split <;> exact ⟨h.ok, h.adv⟩

theorem init_inv (c : Cfg) : Inv (init c) := ⟨secOK_init, fun _ => rfl⟩

theorem run_inv (ops : List Op) : ∀ s, Inv s → Inv (run s ops).1 := by
  induction ops with
  | nil => intro s h; exact h
  | cons op ops ih =>
    intro s h
    simp only [run]
    exact ih _ (step_inv s op h)

end BluetoeModel.LlControl
