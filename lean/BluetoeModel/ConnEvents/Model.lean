/-
  Model of the connection event book keeping of the link layer:
  `delta_time` (bluetoe/link_layer/delta_time.cpp) and
  `details::connection_state_base` / `disarmable_connection_state` / `peripheral_latency_state`
  (bluetoe/link_layer/include/bluetoe/peripheral_latency.hpp).

  Every function that contains an `assert` (or would overflow the 32 bit micro second counter in a
  way the assert is meant to catch) returns `Option`: `none` = the assertion fails.
-/
namespace BluetoeModel.ConnEvents

/-! ### delta_time: `std::uint32_t usec_` -/


-- src: delta_time.cpp:operator+=   `assert( sum >= usec_ && sum >= rhs.usec_ )`
def dtAdd (a b : Nat) : Option Nat :=
  let sum := (a + b) % 4294967296
  if sum ≥ a ∧ sum ≥ b then some sum else none

-- src: delta_time.cpp:operator-=   `assert( diff <= usec_ )`
def dtSub (a b : Nat) : Option Nat :=
  let diff := (a + 4294967296 - b) % 4294967296
  if diff ≤ a then some diff else none

-- src: delta_time.cpp:operator*=( unsigned rhs )   (`a` is `usec_`)
def dtMul (a rhs : Nat) : Option Nat :=
  if rhs = 0 ∨ a = 0 then some 0
  else if rhs > 1 then
    if a = 1 then some rhs
    else
      let prod := (a * rhs) % 4294967296
      if prod > a ∧ prod > rhs then some prod else none
  else some a

-- src: delta_time.cpp:operator/   `assert( rhs.usec_ )`
def dtDiv (a b : Nat) : Option Nat := if b = 0 then none else some (a / b)

-- src: delta_time.cpp:ppm   `( std::uint64_t( usec_ ) * part * 140737488 ) >> 47`, result truncated to 32 bit
def ppm (usec part : Nat) : Nat := (((usec * part * 140737488) % 18446744073709551616) / 140737488355328) % 4294967296

/-! ### peripheral latency configuration and connection event outcome -/

/-- `peripheral_latency_configuration< Options... >` as the set of enabled options -/
structure Cfg where
  pendingTx    : Bool   -- listen_if_pending_transmit_data  (also selects the disarmable state)
  unacked      : Bool   -- listen_if_unacknowledged_data
  rxNotEmpty   : Bool   -- listen_if_last_received_not_empty
  txNotEmpty   : Bool   -- listen_if_last_transmitted_not_empty
  rxMoreData   : Bool   -- listen_if_last_received_had_more_data
  listenAlways : Bool   -- listen_always (static_assert: then no other option)
deriving Repr, DecidableEq

/-- `connection_event_events` -/
structure Events where
  unacked    : Bool
  rxNotEmpty : Bool
  txNotEmpty : Bool
  rxMoreData : Bool
  pendingOut : Bool
  error      : Bool
deriving Repr, DecidableEq

/-- `connection_state_base` members plus `disarmable_connection_state::last_latency_` (only written
    and read when `cfg.pendingTx`, the `std::true_type` specialisation) -/
structure St where
  channelIndex : Nat
  eventCounter : Nat
  timeSince    : Nat
  lastLatency  : Nat
deriving Repr, DecidableEq

-- src: disarmable_connection_state::disarmable_connection_state_last_latency   `assert( l > 0 )`
def setLastLatency (cfg : Cfg) (s : St) (l : Nat) : Option St :=
  if cfg.pendingTx then (if l > 0 then some { s with lastLatency := l } else none) else some s

-- src: connection_state_base::reset_connection_state
def resetState (cfg : Cfg) (s : St) : Option St :=
  setLastLatency cfg { s with channelIndex := 0, eventCounter := 0, timeSince := 0 } 1

/-- the condition of the big `if` in `plan_next_connection_event` -/
-- src: connection_state_base::plan_next_connection_event (condition)
def listenNext (cfg : Cfg) (e : Events) : Bool :=
  (cfg.unacked && e.unacked) || (cfg.rxNotEmpty && e.rxNotEmpty) || (cfg.txNotEmpty && e.txNotEmpty)
  || (cfg.rxMoreData && e.rxMoreData) || (cfg.pendingTx && e.pendingOut) || cfg.listenAlways || e.error

/-- the number of events the next planned event is ahead (`connection_peripheral_latency` after
    the adjustments); `latency` and the instant are `std::uint16_t` -/
-- src: connection_state_base::plan_next_connection_event (latency computation)
def advance (cfg : Cfg) (s : St) (latency : Nat) (e : Events) (pending : Option Nat) : Nat :=
  let l0 := if listenNext cfg e then 0 else latency
  let l1 := (l0 + 1) % 65536
  match pending with
  | none => l1
  | some inst =>
      let d := (inst + 65536 - s.eventCounter) % 65536     -- both branches of the ?: as uint16_t
      if d > 0 then min l1 d else l1

-- src: connection_state_base::plan_next_connection_event
def planNext (cfg : Cfg) (s : St) (latency : Nat) (e : Events) (interval : Nat) (pending : Option Nat) :
    Option St := do
  let l := advance cfg s latency e pending
  let t ← dtMul interval l
  setLastLatency cfg
    { s with channelIndex := (s.channelIndex + l) % 37, eventCounter := (s.eventCounter + l) % 65536,
             timeSince := t } l

-- src: connection_state_base::plan_next_connection_event_after_timeout
def planAfterTimeout (s : St) (interval : Nat) : Option St := do
  let t ← dtAdd s.timeSince interval
  some { s with channelIndex := (s.channelIndex + 1) % 37, eventCounter := (s.eventCounter + 1) % 65536,
                timeSince := t }

-- `maximum_link_layer_peripheral_latency = 499`; `offset = ( 499 / 37 + 1 ) * 37 = 518`

/-- `m = -count`, the number of events the planned event is pulled back -/
-- src: connection_state_base::peripheral_latency_move_connection_event
def moveBack (s : St) (m : Nat) (interval : Nat) : Option St :=
  if m > 499 then none                           -- assert( -count <= 499 )
  else do
    let d ← dtMul interval m
    let t ← dtSub s.timeSince d
    some { s with channelIndex := (s.channelIndex + 518 - m) % 37,
                  eventCounter := (s.eventCounter + 65536 - m) % 65536, timeSince := t }

/-- result of `reschedule_on_pending_data`: new state, return value, was the radio asked to disarm -/
structure Resched where
  st      : St
  ret     : Bool
  disarm  : Bool
  pulled  : Nat      -- `-count` handed to `peripheral_latency_move_connection_event` (0: not called)
deriving Repr, DecidableEq

/-- `( now + interval - delta_time( 1 ) ) / interval` with the asserts of the `delta_time` operators -/
-- src: reschedule_on_pending_data_impl (argument of std::max)
def ceilDiv? (now interval : Nat) : Option Nat :=
  (dtAdd now interval).bind fun a => (dtSub a 1).bind fun b => dtDiv b interval

/-- the part of `reschedule_on_pending_data_impl` after a successful disarm; `q` is the quotient -/
-- src: reschedule_on_pending_data_impl (`times`, `moved`, move, `last_latency_ = 1`)
def reschedMove (s : St) (q interval : Nat) : Option Resched :=
  if max 1 q ≥ 2147483648 then none                   -- unsigned -> int conversion not modelled
  else
    -- `moved = min( times, last_latency_ )`, so `count = moved - last_latency_ <= 0`
    (moveBack s (s.lastLatency - min (max 1 q) s.lastLatency) interval).map fun s' =>
      ⟨{ s' with lastLatency := 1 }, true, true, s.lastLatency - min (max 1 q) s.lastLatency⟩

/-- `rc` is what `radio.disarm_connection_event()` answers (if it is asked) -/
-- src: disarmable_connection_state< true_type >::reschedule_on_pending_data_impl  /  < false_type >
def reschedule (cfg : Cfg) (s : St) (rc : Bool × Nat) (interval : Nat) : Option Resched :=
  if cfg.pendingTx = false then some ⟨s, false, false, 0⟩
  else if s.lastLatency = 1 then some ⟨s, false, false, 0⟩
  else if rc.1 = false then some ⟨s, false, true, 0⟩
  else if interval = 0 then none                        -- assert( !connection_iterval.zero() )
  else (ceilDiv? rc.2 interval).bind fun q => reschedMove s q interval

/-! ### `peripheral_latency_state< peripheral_latency_configuration_set< Configurations... > >`
  The runtime switchable set: `configs` are the `Configurations...`, `cur` is `current_configuration_`. -/

/-- all / none of the configurations: decided at compile time; otherwise the selected configuration is
    asked (`peripheral_latency_feature_checker`: `result` stays false if the index matches nothing) -/
-- src: peripheral_latency_state< configuration_set >::peripheral_latency_feature / runtime_feature
def setFeature (configs : List Cfg) (cur : Nat) (f : Cfg → Bool) : Bool :=
  if configs.all f then true
  else if configs.all (fun c => !f c) then false
  else match configs[cur]? with
    | some c => f c
    | none => false

/-- the six feature queries of the set, collected -/
def setCfg (configs : List Cfg) (cur : Nat) : Cfg :=
  ⟨setFeature configs cur (·.pendingTx), setFeature configs cur (·.unacked), setFeature configs cur (·.rxNotEmpty),
   setFeature configs cur (·.txNotEmpty), setFeature configs cur (·.rxMoreData), setFeature configs cur (·.listenAlways)⟩

/-- the set always derives from `disarmable_connection_state< std::true_type, … >`
    (`listen_if_pending_transmit_data_is_part_of_any_configuration::type` is `std::true_type`) -/
def asDisarmable (c : Cfg) : Cfg := { c with pendingTx := true }

-- src: connection_state_base::reset_connection_state (set)
def resetStateSet (configs : List Cfg) (cur : Nat) (s : St) : Option St :=
  resetState (asDisarmable (setCfg configs cur)) s

-- src: connection_state_base::plan_next_connection_event (set: features of the set, disarmable state)
def planNextSet (configs : List Cfg) (cur : Nat) (s : St) (latency : Nat) (e : Events) (interval : Nat)
    (pending : Option Nat) : Option St :=
  let l := advance (setCfg configs cur) s latency e pending
  (dtMul interval l).bind fun t =>
    setLastLatency (asDisarmable (setCfg configs cur))
      { s with channelIndex := (s.channelIndex + l) % 37, eventCounter := (s.eventCounter + l) % 65536,
               timeSince := t } l

-- src: peripheral_latency_state< configuration_set >::reschedule_on_pending_data
def rescheduleSet (configs : List Cfg) (cur : Nat) (s : St) (rc : Bool × Nat) (interval : Nat) : Option Resched :=
  reschedule (asDisarmable (setCfg configs cur)) s rc interval

/-! ### histories -/

inductive Op where
  | reset
  | plan (latency : Nat) (e : Events) (interval : Nat) (pending : Option Nat)
  | timeout (interval : Nat)
  | resched (rc : Bool × Nat) (interval : Nat)
deriving Repr, DecidableEq

def step (cfg : Cfg) (s : St) : Op → Option St
  | .reset => resetState cfg s
  | .plan l e i p => planNext cfg s l e i p
  | .timeout i => planAfterTimeout s i
  | .resched rc i => (reschedule cfg s rc i).map (·.st)

/-- the state after `reset_connection_state()` on a fresh object -/
def init : St := { channelIndex := 0, eventCounter := 0, timeSince := 0, lastLatency := 1 }

def run (cfg : Cfg) (s : St) : List Op → Option St
  | [] => some s
  | op :: ops => (step cfg s op).bind (fun s' => run cfg s' ops)

end BluetoeModel.ConnEvents
