import BluetoeModel.ConnEvents.Model
/-! helper lemmas for C23 / C22 -/
namespace BluetoeModel.ConnEvents

theorem dtMul_exact (a r : Nat) (h : a * r < 4294967296) : dtMul a r = some (a * r) := by
  unfold dtMul
  by_cases h0 : r = 0 ∨ a = 0
  · rw [if_pos h0]
    rcases h0 with h0 | h0 <;> subst h0 <;> simp
  · rw [if_neg h0]
    by_cases h1 : r > 1
    · rw [if_pos h1]
      by_cases ha1 : a = 1
      · rw [if_pos ha1, ha1, Nat.one_mul]
      · rw [if_neg ha1]
        have hm : (a * r) % 4294967296 = a * r := Nat.mod_eq_of_lt h
        have h2 : a * r ≥ a * 2 := Nat.mul_le_mul_left a h1
        have h3 : a * r ≥ 2 * r := Nat.mul_le_mul_right r (by omega)
        have h4 : a * r > a ∧ a * r > r := by omega
        simp only [hm]
        rw [if_pos h4]
    · rw [if_neg h1]
      have : r = 1 := by omega
      rw [this, Nat.mul_one]

theorem dtAdd_exact (a b : Nat) (h : a + b < 4294967296) : dtAdd a b = some (a + b) := by
  unfold dtAdd
  have h4 : a + b ≥ a ∧ a + b ≥ b := by omega
  simp only [Nat.mod_eq_of_lt h]
  rw [if_pos h4]

theorem dtAdd_some (a b t : Nat) (h : dtAdd a b = some t) : t < 4294967296 := by
  unfold dtAdd at h
  by_cases hc : (a + b) % 4294967296 ≥ a ∧ (a + b) % 4294967296 ≥ b
  · simp only at h; rw [if_pos hc] at h
    have := Option.some.inj h
    omega
  · simp only at h; rw [if_neg hc] at h; cases h

theorem dtSub_some (a b t : Nat) (ha : a < 4294967296) (hb : b < 4294967296) (h : dtSub a b = some t) :
    b ≤ a ∧ t = a - b := by
  unfold dtSub at h
  simp only at h
  by_cases hd : (a + 4294967296 - b) % 4294967296 ≤ a
  · rw [if_pos hd] at h
    have ht := Option.some.inj h
    omega
  · rw [if_neg hd] at h; cases h

theorem dtSub_exact (a b : Nat) (ha : a < 4294967296) (hle : b ≤ a) : dtSub a b = some (a - b) := by
  unfold dtSub
  simp only
  have h1 : (a + 4294967296 - b) % 4294967296 = a - b := by omega
  rw [h1, if_pos (Nat.sub_le a b)]

/-- `(now + I - 1) / I` is the ceiling of `now / I` -/
theorem ceil_mul_ge (now i : Nat) (hi : 0 < i) : now ≤ ((now + i - 1) / i) * i := by
  have h := Nat.div_add_mod (now + i - 1) i
  have hm := Nat.mod_lt (now + i - 1) hi
  rw [Nat.mul_comm] at h
  omega

theorem pull_arith (L times i now T : Nat) (hlt : times ≤ L) (hceil : now ≤ times * i) (hT : L * i ≤ T) :
    now ≤ T - i * (L - times) := by
  have h1 : i * (L - times) = L * i - times * i := by rw [Nat.mul_comm, Nat.sub_mul]
  have h2 : times * i ≤ L * i := Nat.mul_le_mul_right i hlt
  omega

theorem setLastLatency_some (cfg : Cfg) (s s' : St) (l : Nat) (h : setLastLatency cfg s l = some s') :
    s'.channelIndex = s.channelIndex ∧ s'.eventCounter = s.eventCounter ∧ s'.timeSince = s.timeSince ∧
    (cfg.pendingTx = true → s'.lastLatency = l ∧ 0 < l) ∧ (cfg.pendingTx = false → s'.lastLatency = s.lastLatency) := by
  unfold setLastLatency at h
  by_cases hp : cfg.pendingTx = true
  · rw [if_pos hp] at h
    by_cases hl : l > 0
    · rw [if_pos hl] at h
      have := Option.some.inj h; subst this
      exact ⟨rfl, rfl, rfl, fun _ => ⟨rfl, hl⟩, fun hf => by rw [hp] at hf; cases hf⟩
    · rw [if_neg hl] at h; cases h
  · rw [if_neg hp] at h
    have := Option.some.inj h; subst this
    exact ⟨rfl, rfl, rfl, fun ht => absurd ht hp, fun _ => rfl⟩

theorem moveBack_some (s s2 : St) (m i : Nat) (h : moveBack s m i = some s2) :
    m ≤ 499 ∧ ∃ d t, dtMul i m = some d ∧ dtSub s.timeSince d = some t ∧
      s2 = { s with channelIndex := (s.channelIndex + 518 - m) % 37,
                    eventCounter := (s.eventCounter + 65536 - m) % 65536, timeSince := t } := by
  unfold moveBack at h
  by_cases hm : m > 499
  · rw [if_pos hm] at h; cases h
  · rw [if_neg hm] at h
    simp only [Option.bind_eq_bind, Option.bind_eq_some_iff] at h
    obtain ⟨d, hd, t, ht, h⟩ := h
    refine ⟨Nat.le_of_not_gt hm, d, t, hd, ht, ?_⟩
    exact (Option.some.inj h).symm

theorem reschedMove_some (s : St) (q i : Nat) (r : Resched) (h : reschedMove s q i = some r) :
    ∃ s2, moveBack s (s.lastLatency - min (max 1 q) s.lastLatency) i = some s2 ∧
      r.st = { s2 with lastLatency := 1 } ∧ r.ret = true ∧
      r.pulled = s.lastLatency - min (max 1 q) s.lastLatency := by
  unfold reschedMove at h
  by_cases hc : max 1 q ≥ 2147483648
  · rw [if_pos hc] at h; cases h
  · rw [if_neg hc] at h
    simp only [Option.map_eq_some_iff] at h
    obtain ⟨s2, h2, hr⟩ := h
    subst hr
    exact ⟨s2, h2, rfl, rfl, rfl⟩

/-- the two ways `reschedule_on_pending_data` can end without a failed assertion -/
theorem reschedule_cases (cfg : Cfg) (s : St) (rc : Bool × Nat) (i : Nat) (r : Resched)
    (h : reschedule cfg s rc i = some r) :
    (r.st = s ∧ r.pulled = 0 ∧ r.ret = false) ∨
    (cfg.pendingTx = true ∧ s.lastLatency ≠ 1 ∧ rc.1 = true ∧ i ≠ 0 ∧
      ∃ q, ceilDiv? rc.2 i = some q ∧ reschedMove s q i = some r) := by
  unfold reschedule at h
  by_cases hp : cfg.pendingTx = false
  · rw [if_pos hp] at h
    have := Option.some.inj h; subst this; exact Or.inl ⟨rfl, rfl, rfl⟩
  · rw [if_neg hp] at h
    by_cases h1 : s.lastLatency = 1
    · rw [if_pos h1] at h
      have := Option.some.inj h; subst this; exact Or.inl ⟨rfl, rfl, rfl⟩
    · rw [if_neg h1] at h
      by_cases hrc : rc.1 = false
      · rw [if_pos hrc] at h
        have := Option.some.inj h; subst this; exact Or.inl ⟨rfl, rfl, rfl⟩
      · rw [if_neg hrc] at h
        by_cases hi0 : i = 0
        · rw [if_pos hi0] at h; cases h
        · rw [if_neg hi0] at h
          rw [Option.bind_eq_some_iff] at h
          obtain ⟨q, hq, hr⟩ := h
          refine Or.inr ⟨?_, h1, ?_, hi0, q, hq, hr⟩
          · cases hb : cfg.pendingTx with
            | true => rfl
            | false => exact absurd hb hp
          · cases hb : rc.1 with
            | true => rfl
            | false => exact absurd hb hrc

theorem ceilDiv?_exact (now i : Nat) (hi : i ≠ 0) (h : now + i < 4294967296) :
    ceilDiv? now i = some ((now + i - 1) / i) := by
  unfold ceilDiv?
  rw [dtAdd_exact now i h, Option.bind_some, dtSub_exact (now + i) 1 h (by omega), Option.bind_some]
  unfold dtDiv
  rw [if_neg hi]

end BluetoeModel.ConnEvents
