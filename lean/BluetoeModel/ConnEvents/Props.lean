import BluetoeModel.ConnEvents.Lemmas
/-!
  # C23 — Peripheral latency skips only permitted events

  "With any latency configuration, the peripheral never skips more than the connection's
  peripheral latency, listens at the next event whenever one of its configured listen conditions
  held, and keeps the event counter and channel index advancing together by exactly the number of
  events that passed, including when a skipped event is pulled back because new data became
  pending."

  All theorems are for every configuration `cfg` (all 2^6 option sets, a superset of what the
  `static_assert` admits), every state and every input.
-/
namespace BluetoeModel.ConnEvents

/-! ### never skips more than the latency -/

/-- "never skips more than the connection's peripheral latency": the next planned event is at
    least 1 and at most `latency + 1` events ahead (i.e. at most `latency` events are skipped), for
    every 16 bit latency except 0xFFFF (the link layer only accepts `latency ≤ 499`). -/
theorem skip_le_latency (cfg : Cfg) (s : St) (latency : Nat) (e : Events) (pending : Option Nat)
    (hl : latency < 65535) :
    1 ≤ advance cfg s latency e pending ∧ advance cfg s latency e pending ≤ latency + 1 := by
  unfold advance
  cases pending with
  | none =>
    simp only
    by_cases hc : listenNext cfg e = true
    · rw [if_pos hc]; omega
    · rw [if_neg hc]; omega
  | some inst =>
    simp only
    by_cases hc : listenNext cfg e = true
    · rw [if_pos hc]
      by_cases hd : (inst + 65536 - s.eventCounter) % 65536 > 0
      · rw [if_pos hd]; omega
      · rw [if_neg hd]; omega
    · rw [if_neg hc]
      by_cases hd : (inst + 65536 - s.eventCounter) % 65536 > 0
      · rw [if_pos hd]; omega
      · rw [if_neg hd]; omega

example : (499 : Nat) < 65535 := by decide

/-- after a missed event (`timeout()`), exactly the next event is planned: nothing is skipped -/
theorem timeout_advances_one (s s' : St) (i : Nat) (h : planAfterTimeout s i = some s') :
    s'.eventCounter = (s.eventCounter + 1) % 65536 ∧ s'.channelIndex = (s.channelIndex + 1) % 37 := by
  unfold planAfterTimeout at h
  simp only [Option.bind_eq_bind, Option.bind_eq_some_iff] at h
  obtain ⟨t, _, h⟩ := h
  have := Option.some.inj h; subst this
  exact ⟨rfl, rfl⟩

/-- the full-strength reading for latency 0xFFFF is false of the class (the `++` wraps to 0: the
    *same* event is planned again) — outside the range `check_timing_paremeters` accepts -/
theorem latency_ffff_witness :
    advance ⟨false, false, false, false, false, false⟩ ⟨0, 0, 0, 1⟩ 65535 ⟨false, false, false, false, false, false⟩ none = 0 := by
  decide

/-! ### listens at the next event whenever a configured condition held -/

/-- the configured listen conditions, written out from the documentation of the options -/
def conditionHeld (cfg : Cfg) (e : Events) : Prop :=
  (cfg.pendingTx = true ∧ e.pendingOut = true) ∨ (cfg.unacked = true ∧ e.unacked = true) ∨
  (cfg.rxNotEmpty = true ∧ e.rxNotEmpty = true) ∨ (cfg.txNotEmpty = true ∧ e.txNotEmpty = true) ∨
  (cfg.rxMoreData = true ∧ e.rxMoreData = true) ∨ cfg.listenAlways = true ∨ e.error = true

/-- "listens at the next event whenever one of its configured listen conditions held" -/
theorem listen_next_if_condition (cfg : Cfg) (s : St) (latency : Nat) (e : Events) (pending : Option Nat)
    (h : conditionHeld cfg e) : advance cfg s latency e pending = 1 := by
  have hl : listenNext cfg e = true := by
    unfold conditionHeld at h
    unfold listenNext
    rcases h with h | h | h | h | h | h | h <;> simp [h]
  unfold advance
  rw [if_pos hl]
  cases pending with
  | none => rfl
  | some inst =>
    simp only
    by_cases hd : (inst + 65536 - s.eventCounter) % 65536 > 0
    · rw [if_pos hd]; omega
    · rw [if_neg hd]

example : conditionHeld ⟨false, false, true, false, false, false⟩ ⟨false, true, false, false, false, false⟩ := by
  unfold conditionHeld; simp

/-- and without a condition and without a pending instant the full latency is used (the skip is
    not an artefact of always listening) -/
theorem full_latency_without_condition (cfg : Cfg) (s : St) (latency : Nat) (e : Events)
    (h : listenNext cfg e = false) (hl : latency < 65535) : advance cfg s latency e none = latency + 1 := by
  unfold advance
  have hc : ¬ (listenNext cfg e = true) := by rw [h]; exact Bool.false_ne_true
  rw [if_neg hc]
  simp only
  omega

/-- an instant that is pending is never skipped: the advance is at most the distance to it -/
theorem instant_not_skipped (cfg : Cfg) (s : St) (latency : Nat) (e : Events) (inst : Nat)
    (hd : (inst + 65536 - s.eventCounter) % 65536 > 0) :
    advance cfg s latency e (some inst) ≤ (inst + 65536 - s.eventCounter) % 65536 := by
  unfold advance
  simp only
  rw [if_pos hd]
  exact Nat.min_le_right _ _

/-! ### counter and channel index advance together -/

/-- ghost bookkeeping: `n` is the absolute number (unbounded; an `Int` so that a pull back is a
    plain subtraction) of the connection event that is planned next.  `plan` adds the advance,
    a timeout adds 1, a reschedule subtracts the `-count` it handed to the move function. -/
def stepG (cfg : Cfg) (s : St) (n : Int) : Op → Option (St × Int)
  | .reset => (resetState cfg s).map fun s' => (s', 0)
  | .plan l e i p => (planNext cfg s l e i p).map fun s' => (s', n + advance cfg s l e p)
  | .timeout i => (planAfterTimeout s i).map fun s' => (s', n + 1)
  | .resched rc i => (reschedule cfg s rc i).map fun r => (r.st, n - r.pulled)

def track (cfg : Cfg) : St → Int → List Op → Option (St × Int)
  | s, n, [] => some (s, n)
  | s, n, op :: ops => (stepG cfg s n op).bind fun x => track cfg x.1 x.2 ops

theorem stepG_fst (cfg : Cfg) (s : St) (n : Int) (op : Op) :
    (stepG cfg s n op).map (·.1) = step cfg s op := by
  cases op <;> simp only [stepG, step, Option.map_map] <;> (try rfl)
  all_goals (rw [show ((fun x : St × Int => x.1) ∘ fun s' => (s', _)) = id from rfl, Option.map_id]; rfl)

/-- the ghost does not influence the run -/
theorem track_fst (cfg : Cfg) (s : St) (n : Int) (ops : List Op) :
    (track cfg s n ops).map (·.1) = run cfg s ops := by
  induction ops generalizing s n with
  | nil => rfl
  | cons op ops ih =>
    simp only [track, run]
    rw [← stepG_fst cfg s n op]
    cases h : stepG cfg s n op with
    | none => rfl
    | some x => simp only [Option.bind_some, Option.map_some]; exact ih _ _

structure Inv (cfg : Cfg) (s : St) (n : Int) : Prop where
  nonneg  : 0 ≤ n
  channel : (s.channelIndex : Int) = n % 37
  counter : (s.eventCounter : Int) = n % 65536
  last    : cfg.pendingTx = true → 1 ≤ s.lastLatency ∧ (s.lastLatency : Int) ≤ n + 1

theorem stepG_inv (cfg : Cfg) (s s' : St) (n n' : Int) (op : Op) (hi : Inv cfg s n)
    (hs : stepG cfg s n op = some (s', n')) : Inv cfg s' n' := by
  obtain ⟨h0, hc, he, hl⟩ := hi
  cases op with
  | reset =>
    simp only [stepG, Option.map_eq_some_iff] at hs
    obtain ⟨s1, hs1, hx⟩ := hs
    have hx1 : s1 = s' := congrArg Prod.fst hx
    have hx2 : (0 : Int) = n' := congrArg Prod.snd hx
    subst hx1; subst hx2
    unfold resetState at hs1
    obtain ⟨h1, h2, _, h4, _⟩ := setLastLatency_some _ _ _ _ hs1
    simp only at h1 h2
    refine ⟨by omega, by omega, by omega, fun hp => ?_⟩
    have := (h4 hp).1; omega
  | plan l e i p =>
    simp only [stepG, Option.map_eq_some_iff] at hs
    obtain ⟨s1, hs1, hx⟩ := hs
    have hx1 : s1 = s' := congrArg Prod.fst hx
    have hx2 : n + (advance cfg s l e p : Int) = n' := congrArg Prod.snd hx
    subst hx1; subst hx2
    unfold planNext at hs1
    simp only [Option.bind_eq_bind, Option.bind_eq_some_iff] at hs1
    obtain ⟨t, _, hs2⟩ := hs1
    obtain ⟨h1, h2, _, h4, _⟩ := setLastLatency_some _ _ _ _ hs2
    simp only at h1 h2
    generalize advance cfg s l e p = a at *
    refine ⟨by omega, by omega, by omega, fun hp => ?_⟩
    obtain ⟨h5, h6⟩ := h4 hp; omega
  | timeout i =>
    simp only [stepG, Option.map_eq_some_iff] at hs
    obtain ⟨s1, hs1, hx⟩ := hs
    have hx1 : s1 = s' := congrArg Prod.fst hx
    have hx2 : n + 1 = n' := congrArg Prod.snd hx
    subst hx1; subst hx2
    obtain ⟨h1, h2⟩ := timeout_advances_one s s1 i hs1
    have h3 : s1.lastLatency = s.lastLatency := by
      unfold planAfterTimeout at hs1
      simp only [Option.bind_eq_bind, Option.bind_eq_some_iff] at hs1
      obtain ⟨t, _, h⟩ := hs1
      have := Option.some.inj h; subst this; rfl
    refine ⟨by omega, by omega, by omega, fun hp => ?_⟩
    have := hl hp; omega
  | resched rc i =>
    simp only [stepG, Option.map_eq_some_iff] at hs
    obtain ⟨r, hr, hx⟩ := hs
    have hx1 : r.st = s' := congrArg Prod.fst hx
    have hx2 : n - (r.pulled : Int) = n' := congrArg Prod.snd hx
    subst hx1; subst hx2
    rcases reschedule_cases cfg s rc i r hr with ⟨h1, h2, _⟩ | ⟨hp, _, _, _, q, _, hq⟩
    · rw [h1, h2]
      exact ⟨by omega, by omega, by omega, fun hp => by have := hl hp; omega⟩
    · obtain ⟨s2, hmv, hst, _, hpl⟩ := reschedMove_some s q i r hq
      obtain ⟨hm, d, t, _, _, hs2⟩ := moveBack_some s s2 _ i hmv
      have hl' := hl hp
      rw [hst, hpl, hs2]
      have hmle : s.lastLatency - min (max 1 q) s.lastLatency ≤ s.lastLatency - 1 := by omega
      generalize s.lastLatency - min (max 1 q) s.lastLatency = m at *
      refine ⟨by omega, ?_, ?_, fun _ => ?_⟩
      · simp only; omega
      · simp only; omega
      · simp only; omega

/-- **"keeps the event counter and channel index advancing together by exactly the number of
    events that passed, including when a skipped event is pulled back"**: after every history of
    resets, planned events (any latency, any outcome, any pending instant), timeouts and
    reschedules (any radio answer) that trips no assertion, the channel index is `n mod 37` and
    the event counter `n mod 2^16` for the same absolute event number `n ≥ 0`. -/
theorem counter_channel_in_step (cfg : Cfg) (ops : List Op) (s : St) (n : Int)
    (h : track cfg init 0 ops = some (s, n)) :
    0 ≤ n ∧ (s.channelIndex : Int) = n % 37 ∧ (s.eventCounter : Int) = n % 65536 := by
  have key : ∀ (ops : List Op) (s0 : St) (n0 : Int), Inv cfg s0 n0 →
      track cfg s0 n0 ops = some (s, n) → Inv cfg s n := by
    intro ops
    induction ops with
    | nil =>
      intro s0 n0 hi ht
      simp only [track] at ht
      have := Option.some.inj ht
      have h1 : s0 = s := congrArg Prod.fst this
      have h2 : n0 = n := congrArg Prod.snd this
      subst h1; subst h2; exact hi
    | cons op ops ih =>
      intro s0 n0 hi ht
      simp only [track, Option.bind_eq_some_iff] at ht
      obtain ⟨x, hx, ht⟩ := ht
      exact ih x.1 x.2 (stepG_inv cfg s0 x.1 n0 x.2 op hi hx) ht
  have hinit : Inv cfg init 0 := ⟨by omega, rfl, rfl, fun _ => ⟨by decide, by decide⟩⟩
  have := key ops init 0 hinit h
  exact ⟨this.nonneg, this.channel, this.counter⟩

/-- non-vacuity (the test `half_way_to_the_connection_event`): latency 7, then pending data 3.5
    intervals after the anchor pulls the event back from 8 to 4 -/
example : track ⟨true, false, false, false, false, false⟩ init 0
    [.plan 7 ⟨false, false, false, false, false, false⟩ 30000 none, .resched (true, 105000) 30000]
    = some (⟨4, 4, 120000, 1⟩, 4) := by decide

/-! ### a pulled back event is not before "now" -/

/-- "including when a skipped event is pulled back because new data became pending": if the radio
    disarmed the event (`rc.1`), reports `now = rc.2 ≤` the planned time, and the planned time is
    at least `last_latency_` intervals after the anchor (it is exactly that after
    `plan_next_connection_event`), then the new planned time is not before `now`, it is earlier by
    exactly `pulled` intervals, and fewer than `last_latency_` events are pulled back. -/
theorem moved_event_not_before_now (cfg : Cfg) (s : St) (rc : Bool × Nat) (i : Nat) (r : Resched)
    (h : reschedule cfg s rc i = some r) (hret : r.ret = true)
    (hnow : rc.2 ≤ s.timeSince) (hT : s.lastLatency * i ≤ s.timeSince)
    (hts : s.timeSince < 4294967296) (hni : rc.2 + i < 4294967296) (hL : 1 ≤ s.lastLatency) :
    rc.2 ≤ r.st.timeSince ∧ r.st.timeSince + r.pulled * i = s.timeSince ∧ r.pulled < s.lastLatency := by
  rcases reschedule_cases cfg s rc i r h with ⟨_, _, h3⟩ | ⟨_, _, _, hi0, q, hq, hr⟩
  · rw [h3] at hret; cases hret
  · rw [ceilDiv?_exact rc.2 i hi0 hni] at hq
    have hq' := Option.some.inj hq
    obtain ⟨s2, hmv, hst, _, hpl⟩ := reschedMove_some s q i r hr
    obtain ⟨hm, d, t, hd, ht, hs2⟩ := moveBack_some s s2 _ i hmv
    have hipos : 0 < i := Nat.pos_of_ne_zero hi0
    have hceil : rc.2 ≤ q * i := by rw [← hq']; exact ceil_mul_ge rc.2 i hipos
    have hmax : q * i ≤ max 1 q * i := Nat.mul_le_mul_right i (Nat.le_max_right 1 q)
    generalize hmv' : min (max 1 q) s.lastLatency = moved at *
    have hmoved1 : 1 ≤ moved := by rw [← hmv']; omega
    have hmovedL : moved ≤ s.lastLatency := by rw [← hmv']; exact Nat.min_le_right _ _
    have hbound : i * (s.lastLatency - moved) ≤ s.lastLatency * i := by
      rw [Nat.mul_comm]; exact Nat.mul_le_mul_right i (Nat.sub_le _ _)
    rw [dtMul_exact i _ (by omega)] at hd
    have hd' := Option.some.inj hd
    obtain ⟨hle, htt⟩ := dtSub_some s.timeSince d t hts (by omega) ht
    have hst2 : r.st.timeSince = t := by rw [hst, hs2]
    rw [hst2, hpl, htt, ← hd']
    refine ⟨?_, ?_, by omega⟩
    · by_cases hcase : max 1 q ≤ s.lastLatency
      · have hme : moved = max 1 q := by rw [← hmv']; exact Nat.min_eq_left hcase
        exact pull_arith s.lastLatency moved i rc.2 s.timeSince hmovedL (by rw [hme]; omega) hT
      · have hme : moved = s.lastLatency := by rw [← hmv']; exact Nat.min_eq_right (by omega)
        rw [hme, Nat.sub_self, Nat.mul_zero]; omega
    · rw [Nat.mul_comm (s.lastLatency - moved) i]; omega

example : reschedule ⟨true, false, false, false, false, false⟩ ⟨8, 8, 240000, 8⟩ (true, 105000) 30000
    = some ⟨⟨4, 4, 120000, 1⟩, true, true, 4⟩ := by decide

/-- class level remark: `plan_next_connection_event_after_timeout` does not update
    `last_latency_`, so the class relies on the radio's contract ("the current time from the last
    anchor"): a radio that answers with a time *before* the event that just timed out makes the
    class pull the counter back behind events that already took place (plan 5 ahead, that event
    times out, radio claims now = 0: the planned event is number 2). -/
theorem stale_last_latency_witness :
    (run ⟨true, false, false, false, false, false⟩ init
      [.plan 4 ⟨false, false, false, false, false, false⟩ 30000 none, .timeout 30000,
       .resched (true, 0) 30000]).map (·.eventCounter) = some 2 := by decide

/-! ### runtime switchable configuration sets -/

theorem setFeature_eq (configs : List Cfg) (cur : Nat) (f : Cfg → Bool) (h : cur < configs.length) :
    setFeature configs cur f = f configs[cur] := by
  unfold setFeature
  by_cases ha : configs.all f = true
  · rw [if_pos ha]
    exact ((List.all_eq_true.mp ha) _ (List.getElem_mem h)).symm
  · rw [if_neg ha]
    by_cases hn : configs.all (fun c => !f c) = true
    · rw [if_pos hn]
      have := (List.all_eq_true.mp hn) _ (List.getElem_mem h)
      cases hf : f configs[cur] with
      | false => rfl
      | true => rw [hf] at this; cases this
    · rw [if_neg hn, List.getElem?_eq_getElem h]

/-- **the set behaves as the currently selected configuration**: every feature query of
    `peripheral_latency_configuration_set< Configurations... >` answers what the selected
    configuration (`change_peripheral_latency< NewConfig >()`) declares — in particular
    `listen_always` when `peripheral_latency_ignored` is selected in a mixed set. -/
theorem set_behaves_as_selected (configs : List Cfg) (cur : Nat) (h : cur < configs.length) :
    setCfg configs cur = configs[cur] := by
  unfold setCfg
  simp only [setFeature_eq configs cur _ h]

/-- so a set listens at the next event whenever a listen condition of the *selected* configuration held -/
theorem set_listens_as_selected (configs : List Cfg) (cur : Nat) (h : cur < configs.length)
    (s s' : St) (latency : Nat) (e : Events) (interval : Nat) (pending : Option Nat)
    (hc : conditionHeld configs[cur] e)
    (hp : planNextSet configs cur s latency e interval pending = some s') :
    s'.eventCounter = (s.eventCounter + 1) % 65536 ∧ s'.channelIndex = (s.channelIndex + 1) % 37 := by
  unfold planNextSet at hp
  rw [set_behaves_as_selected configs cur h, listen_next_if_condition _ s latency e pending hc] at hp
  simp only [Option.bind_eq_some_iff] at hp
  obtain ⟨t, _, hs⟩ := hp
  obtain ⟨h1, h2, _⟩ := setLastLatency_some _ _ _ _ hs
  exact ⟨h2, h1⟩

/-- non-vacuity: the documented set< peripheral_latency_ignored, peripheral_latency_strict_plus > with
    `peripheral_latency_ignored` selected, latency 5, an empty event: the very next event is planned -/
example : planNextSet [⟨false, false, false, false, false, true⟩, ⟨false, false, true, false, true, false⟩] 0
    ⟨0, 0, 0, 1⟩ 5 ⟨false, false, false, false, false, false⟩ 30000 none = some ⟨1, 1, 30000, 1⟩ := by decide

end BluetoeModel.ConnEvents
