/-
  C22 — "Every connection event is scheduled at the last anchor plus a whole number of connection
  intervals, with a receive window that covers the anchor widened by at least the combined sleep clock
  accuracy over the elapsed time (plus the transmit window after a connect request or update). The
  connection is dropped for supervision timeout only after no valid packet for the supervision timeout,
  and a connection is only established from a connect request with valid timing parameters."

  Only property theorems and their non-vacuity examples.  The model is the repository's code with
  fixes/timing-01 and fixes/timing-02 applied.
-/
import BluetoeModel.Timing.Lemmas
import BluetoeModel.Timing.Invariant

namespace BluetoeModel.Timing
open BluetoeModel.ConnEvents (dtAdd dtSub dtMul ppm Cfg Events St advance)

/-! ### "widened by at least the combined sleep clock accuracy": `delta_time::ppm` -/

-- `ppm` is the truncated product: for every time up to 100 s and every accuracy up to 1000 ppm the 64 bit
-- product does not overflow and the result is ⌊u·p/10^6⌋ or one less.
theorem ppm_bounds (u p : Nat) (hu : u ≤ 100000000) (hp : p ≤ 1000) :
    ppm u p ≤ u * p / 1000000 ∧ u * p / 1000000 ≤ ppm u p + 1 ∧ u * p * 140737488 < 18446744073709551616 :=
  ⟨(ppm_floor hu hp).1, (ppm_floor hu hp).2, (ppm_x (u * p) (mul_le_e11 hu hp)).1⟩

example : (30000 : Nat) ≤ 100000000 ∧ (550 : Nat) ≤ 1000 ∧ ppm 30000 550 = 16 := by decide

-- the cumulated accuracy is the worst case of the central's SCA field plus the device's own accuracy
theorem sca_is_sum_of_both_sides (s s' : LL) (r : Raw) (sca : Nat) (h : advReceived s r sca = some s')
    (hc : s'.phase = .connecting) (ha : s.phase = .advertising) :
    s'.sca = centralSca sca + s.ownSca ∧ centralSca sca ≤ 500 := by
  refine ⟨?_, centralSca_le sca⟩
  unfold advReceived at h
  cases hp : (parseConnect r).2 with
  | none => rw [hp] at h; cases h
  | some b =>
    rw [hp] at h
    cases b with
    | true =>
      obtain ⟨a, b, _, e⟩ := setupNext_some h
      rw [e]
    | false =>
      injection h with h
      rw [← h] at hc
      rw [ha] at hc
      cases hc

/-! ### "a receive window that covers the anchor ... (plus the transmit window ...)" -/

-- the event is expected `ts` after the last anchor (`ws = 0`), or, with a transmit window in force,
-- anywhere in `[ts + wo, ts + wo + ws]`: the window given to the radio covers that
theorem window_contains_anchor {ts ws wo sca a b : Nat} (hb : ts + wo + ws ≤ 100000000) (hs : sca ≤ 1000)
    (h : window ts ws wo sca = some (a, b)) :
    if ws ≠ 0 then a ≤ ts + wo ∧ ts + wo + ws ≤ b else a ≤ ts ∧ ts ≤ b := by
  rw [window_closed hb hs] at h
  by_cases hw : ws ≠ 0
  · rw [if_pos hw] at h ⊢
    injection h with h; injection h with h1 h2
    omega
  · rw [if_neg hw] at h ⊢
    injection h with h; injection h with h1 h2
    omega

-- inside the value range of valid connection parameters the window is always defined (no `assert`)
theorem window_defined {ts ws wo sca : Nat} (hb : ts + wo + ws ≤ 100000000) (hs : sca ≤ 1000) :
    ∃ a b, window ts ws wo sca = some (a, b) := by
  rw [window_closed hb hs]
  by_cases hw : ws ≠ 0
  · rw [if_pos hw]; exact ⟨_, _, rfl⟩
  · rw [if_neg hw]; exact ⟨_, _, rfl⟩

example : window 30000 0 15000 550 = some (29984, 30016) := by decide
example : window 0 3750 15000 550 = some (14992, 18760) := by decide

-- FULL STRENGTH: either edge is widened by at least the clock drift `T · sca / 10^6` over the elapsed time `T`
def WideningFull : Prop :=
  ∀ ts sca a b, ts ≤ 100000000 → sca ≤ 1000 → window ts 0 0 sca = some (a, b) →
    ts * sca ≤ (ts - a) * 1000000 ∧ ts * sca ≤ (b - ts) * 1000000

-- false: 30 ms at 550 ppm drift by 16.5 µs, the window is widened by 16 µs
theorem window_widening_witness : ¬ WideningFull := by
  intro h
  have := h 30000 550 29984 30016 (by decide) (by decide) (by decide)
  omega

-- what holds: the widening is at least ⌊T · sca / 10^6⌋ - 1 µs at either edge (T = time from the last
-- anchor to that edge of the transmit window, or to the expected anchor)
theorem window_widening_ge {ts ws wo sca a b : Nat} (hb : ts + wo + ws ≤ 100000000) (hs : sca ≤ 1000)
    (h : window ts ws wo sca = some (a, b)) :
    if ws ≠ 0 then (ts + wo) * sca / 1000000 ≤ (ts + wo - a) + 1 ∧ (ts + wo + ws) * sca / 1000000 ≤ (b - (ts + wo + ws)) + 1
    else ts * sca / 1000000 ≤ (ts - a) + 1 ∧ ts * sca / 1000000 ≤ (b - ts) + 1 := by
  rw [window_closed hb hs] at h
  by_cases hw : ws ≠ 0
  · rw [if_pos hw] at h ⊢
    injection h with h; injection h with h1 h2
    have p1 := ppm_floor (u := ts + wo) (p := sca) (by omega) hs
    have p2 := ppm_floor (u := ts + wo + ws) (p := sca) (by omega) hs
    have q1 := ppm_le_thousandth (u := ts + wo) (p := sca) (by omega) hs
    generalize ppm (ts + wo) sca = x1 at *
    generalize ppm (ts + wo + ws) sca = x2 at *
    generalize (ts + wo) * sca / 1000000 = d1 at *
    generalize (ts + wo + ws) * sca / 1000000 = d2 at *
    omega
  · rw [if_neg hw] at h ⊢
    injection h with h; injection h with h1 h2
    have p1 := ppm_floor (u := ts) (p := sca) (by omega) hs
    have q1 := ppm_le_thousandth (u := ts) (p := sca) (by omega) hs
    generalize ppm ts sca = x1 at *
    generalize ts * sca / 1000000 = d1 at *
    omega

example : (30000 : Nat) + 15000 + 3750 ≤ 100000000 ∧ window 30000 3750 15000 550 = some (44976, 48776) := by decide

/-! ### "a connection is only established from a connect request with valid timing parameters" -/

-- validity of the LLData timing fields as the Core specification (Vol 6, Part B, 2.3.3.1 and 4.5.1, 4.5.2)
-- states it, in protocol units: connInterval 7.5 ms .. 4 s; connPeripheralLatency ≤ 499; connSupervisionTimeout
-- 100 ms .. 32 s and larger than (1 + latency) · interval · 2; transmitWindowSize 1.25 ms .. min(10 ms,
-- interval − 1.25 ms); transmitWindowOffset 0 .. interval
def SpecValid (r : Raw) : Prop :=
  6 ≤ r.iv ∧ r.iv ≤ 3200 ∧ r.lat ≤ 499 ∧ 10 ≤ r.to ∧ r.to ≤ 3200
  ∧ (1 + r.lat) * (r.iv * 1250) * 2 < r.to * 10000
  ∧ 1 ≤ r.ws ∧ r.ws * 1250 ≤ 10000 ∧ r.ws * 1250 + 1250 ≤ r.iv * 1250
  ∧ r.wo ≤ r.iv

instance (r : Raw) : Decidable (SpecValid r) := by unfold SpecValid; infer_instance

-- the only deviation: a window as long as the interval (1.25 ms more than allowed)
def WindowEqualsInterval (r : Raw) : Prop := r.ws = r.iv ∧ r.iv ≤ 8 ∧ SpecValid { r with ws := r.iv - 1 }

instance (r : Raw) : Decidable (WindowEqualsInterval r) := by unfold WindowEqualsInterval; infer_instance

theorem prod_comm (lat iv : Nat) : iv * 1250 * ((lat + 1) * 2) = (1 + lat) * (iv * 1250) * 2 := by
  rw [Nat.add_comm 1 lat]
  ac_rfl

theorem parseConnect_accepts_iff (r : Raw) :
    (parseConnect r).2 = some true ↔ (SpecValid r ∨ WindowEqualsInterval r) := by
  unfold parseConnect SpecValid WindowEqualsInterval SpecValid
  simp only
  have e := prod_comm r.lat r.iv
  by_cases h : r.wo * 1250 ≤ r.iv * 1250
  · rw [if_pos h, checkTiming_spec]
    simp only [Option.some.injEq, decide_eq_true_eq]
    generalize r.iv * 1250 * ((r.lat + 1) * 2) = x at *
    generalize (1 + r.lat) * (r.iv * 1250) * 2 = y at *
    omega
  · rw [if_neg h]
    simp only [Option.some.injEq, Bool.false_eq_true, false_iff]
    omega

theorem parseUpdate_accepts_iff (r : Raw) :
    (parseUpdate r).2 = some true ↔ (SpecValid r ∨ WindowEqualsInterval r) := by
  unfold parseUpdate SpecValid WindowEqualsInterval SpecValid
  simp only
  have e := prod_comm r.lat r.iv
  by_cases h : r.wo * 1250 ≤ r.iv * 1250
  · rw [if_pos h, checkTiming_spec]
    simp only [Option.some.injEq, decide_eq_true_eq]
    generalize r.iv * 1250 * ((r.lat + 1) * 2) = x at *
    generalize (1 + r.lat) * (r.iv * 1250) * 2 = y at *
    omega
  · rw [if_neg h]
    simp only [Option.some.injEq, Bool.false_eq_true, false_iff]
    omega

-- FULL STRENGTH: a CONNECT_IND that leads to a connection carries valid parameters
def ConnectOnlyIfValidFull : Prop :=
  ∀ (s s' : LL) (r : Raw) (sca : Nat), s.phase = .advertising → advReceived s r sca = some s' →
    s'.phase = .connecting → SpecValid r

-- false: WinSize 6, WinOffset 3, Interval 6, Latency 0, Timeout 72 is accepted
theorem connect_only_if_valid_witness : ¬ ConnectOnlyIfValidFull := by
  intro h
  have := h (init ⟨false, false, false, false, false, false⟩ 500)
    { init ⟨false, false, false, false, false, false⟩ 500 with
      phase := .connecting, advSched := false, reason := 8, tp := ⟨7500, 5000, 7500, 0, 720000⟩, sca := 550,
      win := (4998, 12506, 7500) }
    ⟨6, 3, 6, 0, 72⟩ 5 rfl (by decide) rfl
  revert this
  decide

theorem parseConnect_total (r : Raw) : ∃ b, (parseConnect r).2 = some b := by
  unfold parseConnect
  simp only
  split
  · rw [checkTiming_spec]; exact ⟨_, rfl⟩
  · exact ⟨false, rfl⟩

theorem parseUpdate_total (r : Raw) : ∃ b, (parseUpdate r).2 = some b := by
  unfold parseUpdate
  simp only
  split
  · rw [checkTiming_spec]; exact ⟨_, rfl⟩
  · exact ⟨false, rfl⟩

theorem connect_phase {s s' : LL} {r : Raw} {sca : Nat} (ha : s.phase = .advertising)
    (h : advReceived s r sca = some s') (hc : s'.phase = .connecting) : (parseConnect r).2 = some true := by
  unfold advReceived at h
  cases hp : (parseConnect r).2 with
  | none => rw [hp] at h; cases h
  | some b =>
    cases b with
    | true => rfl
    | false =>
      rw [hp] at h
      injection h with h
      rw [← h] at hc
      rw [ha] at hc
      cases hc

-- what holds: valid, or valid except for `transmitWindowSize = connInterval`
theorem connect_only_if_valid_partial (s s' : LL) (r : Raw) (sca : Nat) (ha : s.phase = .advertising)
    (h : advReceived s r sca = some s') (hc : s'.phase = .connecting) :
    SpecValid r ∨ WindowEqualsInterval r :=
  (parseConnect_accepts_iff r).1 (connect_phase ha h hc)

example : advReceived (init ⟨false, false, false, false, false, false⟩ 500) ⟨3, 11, 24, 0, 72⟩ 5 ≠ none
    ∧ SpecValid ⟨3, 11, 24, 0, 72⟩ := by decide

-- a refused CONNECT_IND never fails an assertion and leaves the device advertising, with the next
-- advertising PDU scheduled (fix timing-02)
theorem refused_connect_keeps_advertising (s : LL) (r : Raw) (sca : Nat) (ha : s.phase = .advertising)
    (hv : ¬ (SpecValid r ∨ WindowEqualsInterval r)) :
    ∃ s', advReceived s r sca = some s' ∧ s'.phase = .advertising ∧ s'.advSched = true := by
  have hn : (parseConnect r).2 ≠ some true := fun h => hv ((parseConnect_accepts_iff r).1 h)
  obtain ⟨b, hb⟩ := parseConnect_total r
  cases b with
  | true => exact absurd hb hn
  | false =>
    unfold advReceived
    rw [hb]
    exact ⟨_, rfl, ha, rfl⟩

example : ¬ (SpecValid ⟨0, 11, 24, 0, 72⟩ ∨ WindowEqualsInterval ⟨0, 11, 24, 0, 72⟩) := by decide
example : ¬ (SpecValid ⟨3, 2, 3, 0, 72⟩ ∨ WindowEqualsInterval ⟨3, 2, 3, 0, 72⟩) := by decide
example : ¬ (SpecValid ⟨3, 11, 24, 5, 36⟩ ∨ WindowEqualsInterval ⟨3, 11, 24, 5, 36⟩) := by decide

-- every valid CONNECT_IND is accepted (no assertion, first event planned in the transmit window)
theorem valid_connect_accepted (s : LL) (r : Raw) (sca : Nat) (ho : s.ownSca ≤ 500) (hv : SpecValid r) :
    ∃ s', advReceived s r sca = some s' ∧ s'.phase = .connecting ∧ s'.timeSince = 0
      ∧ s'.tp = (parseConnect r).1 := by
  have hs : (parseConnect r).2 = some true := (parseConnect_accepts_iff r).2 (Or.inl hv)
  unfold advReceived
  rw [hs]
  simp only
  have hc := centralSca_le sca
  unfold SpecValid at hv
  obtain ⟨a, b, hw⟩ := window_defined (ts := 0) (ws := (parseConnect r).1.winSize) (wo := (parseConnect r).1.winOffset)
    (sca := centralSca sca + s.ownSca) (by simp only [parseConnect]; omega) (by omega)
  refine ⟨{ s with phase := .connecting, tp := (parseConnect r).1, counter := 0, timeSince := 0,
                   sca := centralSca sca + s.ownSca, reason := connectionTimeout, proc := 0, pending := none,
                   advSched := false, win := (a, b, (parseConnect r).1.interval) }, ?_, rfl, rfl, rfl⟩
  unfold setupNext
  dsimp only
  rw [hw]
  rfl

/-! ### LL_CONNECTION_UPDATE_IND: the new parameters are only taken over when valid -/

-- `handle_pending_ll_control` at the instant: the update is applied (state `connection_changed`, new
-- parameters in force for the planned event) only for valid parameters (or WinSize = Interval); otherwise the
-- link is given up.  Never an assertion.
theorem update_only_if_valid_partial (s s1 : LL) (go : Bool) (r : Raw) (inst : Nat)
    (hp : s.pending = some (r, inst)) (hi : inst = s.counter) (h : handlePending s = some (s1, go)) :
    (go = true ∧ (SpecValid r ∨ WindowEqualsInterval r) ∧ s1.tp = (parseUpdate r).1 ∧ s1.phase = .changed
      ∧ s1.timeSince = s.timeSince ∧ s1.pending = none)
    ∨ (go = false ∧ ¬ (SpecValid r ∨ WindowEqualsInterval r)) := by
  unfold handlePending at h
  rw [hp] at h
  simp only [hi, if_true] at h
  obtain ⟨b, hb⟩ := parseUpdate_total r
  rw [hb] at h
  cases b with
  | true =>
    simp only [Option.some.injEq, Prod.mk.injEq] at h
    left
    rw [← h.1, ← h.2]
    exact ⟨rfl, (parseUpdate_accepts_iff r).1 hb, rfl, rfl, rfl, rfl⟩
  | false =>
    simp only [Option.some.injEq, Prod.mk.injEq] at h
    right
    refine ⟨h.2.symm, fun hv => ?_⟩
    have := (parseUpdate_accepts_iff r).2 hv
    rw [hb] at this
    cases this


-- planning the next event after a lost event ends the link only through a refused connection update
theorem drop_means_refused_update (s s' : LL) (hc : s.phase ≠ .advertising)
    (h : (dtAdd s.timeSince s.tp.interval).bind
        (fun ts' => applyPendingAndSetup { s with counter := (s.counter + 1) % 65536, timeSince := ts' }) = some s')
    (hd : s'.phase = .advertising) :
    ∃ r, s.pending = some (r, (s.counter + 1) % 65536) ∧ ¬ (SpecValid r ∨ WindowEqualsInterval r) := by
  cases ha : dtAdd s.timeSince s.tp.interval with
  | none => rw [ha] at h; cases h
  | some ts' =>
    rw [ha] at h
    simp only [Option.bind_some] at h
    unfold applyPendingAndSetup at h
    cases hh : handlePending { s with counter := (s.counter + 1) % 65536, timeSince := ts' } with
    | none => rw [hh] at h; cases h
    | some res =>
      obtain ⟨s1, go⟩ := res
      rw [hh] at h
      simp only [Option.bind_eq_bind, Option.bind_some] at h
      cases hpend : s.pending with
      | none =>
        unfold handlePending at hh
        simp only [hpend, Option.some.injEq, Prod.mk.injEq] at hh
        rw [← hh.2] at h
        simp only [if_true] at h
        obtain ⟨a, b, _, e⟩ := setupNext_some h
        rw [e, ← hh.1] at hd
        exact absurd hd hc
      | some ri =>
        obtain ⟨r, inst⟩ := ri
        by_cases hi : inst = (s.counter + 1) % 65536
        · have := update_only_if_valid_partial { s with counter := (s.counter + 1) % 65536, timeSince := ts' } s1 go r inst
            hpend hi hh
          rcases this with ⟨hgo, _, _, hph, _, _⟩ | ⟨_, hbad⟩
          · rw [hgo] at h
            simp only [if_true] at h
            obtain ⟨a, b, _, e⟩ := setupNext_some h
            rw [e] at hd
            simp only at hd
            rw [hph] at hd
            cases hd
          · exact ⟨r, by rw [hi], hbad⟩
        · unfold handlePending at hh
          simp only [hpend] at hh
          rw [if_neg hi] at hh
          simp only [Option.some.injEq, Prod.mk.injEq] at hh
          rw [← hh.2] at h
          simp only [if_true] at h
          obtain ⟨a, b, _, e⟩ := setupNext_some h
          rw [e, ← hh.1] at hd
          exact absurd hd hc

/-! ### "The connection is dropped for supervision timeout only after no valid packet for the supervision timeout" -/

-- `timeout()`: the planned event was lost `timeSince` after the last anchor.  The link is given up only
--  * by the LL procedure timer (reason 0x22), or
--  * when that time has reached the supervision timeout, or
--  * before the connection is established, at the sixth lost event (`timeSince ≥ 5 · interval`), or
--  * when a connection update with refused parameters reaches its instant.
theorem supervision_only_after_timeout (s s' : LL) (hiv : s.tp.interval ≤ 4000000)
    (hc : s.phase ≠ .advertising) (h : timeoutStep s = some s') (hd : s'.phase = .advertising) :
    (s.proc ≠ 0 ∧ s.proc ≤ s.timeSince)
    ∨ s.tp.timeoutUs ≤ s.timeSince
    ∨ (s.phase = .connecting ∧ 5 * s.tp.interval ≤ s.timeSince)
    ∨ (∃ r, s.pending = some (r, (s.counter + 1) % 65536) ∧ ¬ (SpecValid r ∨ WindowEqualsInterval r)) := by
  unfold timeoutStep at h
  by_cases hp : s.proc ≠ 0 ∧ s.proc ≤ s.timeSince
  · exact Or.inl hp
  · right
    simp only [if_neg hp] at h
    by_cases ht : s.timeSince < s.tp.timeoutUs
    · simp only [if_pos ht] at h
      have h5 : dtMul s.tp.interval 5 = some (s.tp.interval * 5) := dtMul_small (by omega)
      by_cases hcon : s.phase = .connecting
      · simp only [if_pos hcon, h5, Option.map_some, Option.bind_eq_bind, Option.bind_some] at h
        by_cases h6 : s.timeSince ≥ s.tp.interval * 5
        · right; left; exact ⟨hcon, by omega⟩
        · simp only [h6, decide_false, Bool.not_false, if_true] at h
          right; right
          exact drop_means_refused_update s s' hc h hd
      · simp only [if_neg hcon, Option.bind_eq_bind, Option.bind_some, if_true] at h
        right; right
        exact drop_means_refused_update s s' hc h hd
    · left; omega

-- and it *is* given up then: a lost event at or after the supervision timeout ends the connection
theorem supervision_timeout_enforced (s s' : LL) (ht : s.tp.timeoutUs ≤ s.timeSince)
    (h : timeoutStep s = some s') : s'.phase = .advertising := by
  unfold timeoutStep at h
  by_cases hp : s.proc ≠ 0 ∧ s.proc ≤ s.timeSince
  · simp only [if_pos hp, Option.some.injEq] at h
    rw [← h]; rfl
  · have hn : ¬ s.timeSince < s.tp.timeoutUs := by omega
    simp only [if_neg hp, if_neg hn, Option.bind_eq_bind, Option.bind_some, Bool.false_eq_true, if_false,
      Option.some.injEq] at h
    rw [← h]; rfl

/-! ### "Every connection event is scheduled at the last anchor plus a whole number of connection intervals" -/

-- planning with no connection update pending: the radio gets the window for `timeSince`, nothing else changes
theorem applyPendingAndSetup_none {s1 s' : LL} (hp : s1.pending = none) (h : applyPendingAndSetup s1 = some s') :
    ∃ a b, window s1.timeSince s1.tp.winSize s1.tp.winOffset s1.sca = some (a, b)
      ∧ s' = { s1 with win := (a, b, s1.tp.interval) } := by
  unfold applyPendingAndSetup handlePending at h
  rw [hp] at h
  simp only [Option.bind_eq_bind, Option.bind_some, if_true] at h
  exact setupNext_some h

-- `k` consecutive lost events
def lostRun : Nat → LL → Option LL
  | 0, s => some s
  | k + 1, s => (step s .lost).bind (lostRun k)

-- an event that took place (no connection update involved) plans the next event a whole number `l` of
-- intervals later, `1 ≤ l ≤ latency + 1`, and the radio gets the window for exactly that distance
theorem event_at_anchor_plus_l_intervals (s s' : LL) (hiv : s.tp.interval ≤ 4000000) (hl : s.tp.latency ≤ 499)
    (hp : s.pending = none) (h : endEvent s none = some s') (hc : s'.phase ≠ .advertising) :
    ∃ l, 1 ≤ l ∧ l ≤ s.tp.latency + 1 ∧ s'.timeSince = l * s.tp.interval
      ∧ s'.counter = (s.counter + l) % 65536 ∧ s'.tp = { s.tp with winSize := 0 } ∧ s'.pending = none
      ∧ ∃ a b, window s'.timeSince 0 s.tp.winOffset s.sca = some (a, b) ∧ s'.win = (a, b, s.tp.interval) := by
  have hb := advance_bounds s.cfg ⟨0, s.counter, 0, 1⟩ s.tp.latency none hl
  have key : ∀ (l proc' : Nat), 1 ≤ l ∧ l ≤ s.tp.latency + 1 →
      (dtMul s.tp.interval l).bind (fun ts' => applyPendingAndSetup
        { cfg := s.cfg, ownSca := s.ownSca, phase := .connected, advSched := s.advSched, reason := s.reason,
          counter := (s.counter + l) % 65536, timeSince := ts',
          tp := ⟨0, s.tp.winOffset, s.tp.interval, s.tp.latency, s.tp.timeoutUs⟩, sca := s.sca, proc := proc',
          pending := none, win := s.win }) = some s' →
      ∃ l, 1 ≤ l ∧ l ≤ s.tp.latency + 1 ∧ s'.timeSince = l * s.tp.interval
        ∧ s'.counter = (s.counter + l) % 65536 ∧ s'.tp = { s.tp with winSize := 0 } ∧ s'.pending = none
        ∧ ∃ a b, window s'.timeSince 0 s.tp.winOffset s.sca = some (a, b) ∧ s'.win = (a, b, s.tp.interval) := by
    intro l proc' hb h
    have hm : s.tp.interval * l ≤ 4000000 * 500 := Nat.mul_le_mul hiv (by omega)
    rw [dtMul_small (by omega), Option.bind_some] at h
    obtain ⟨a, b, hw, e⟩ := applyPendingAndSetup_none rfl h
    refine ⟨l, hb.1, hb.2, ?_, ?_, ?_, ?_, a, b, ?_, ?_⟩
    · rw [e]; exact Nat.mul_comm _ _
    · rw [e]
    · rw [e]
    · rw [e]
    · rw [e]; exact hw
    · rw [e]
  unfold endEvent at h
  simp only [Bool.not_true, Bool.false_eq_true, if_false] at h
  rw [hp] at h
  simp only [Option.map_none] at h
  by_cases hpr : s.proc ≠ 0 ∧ s.proc ≤ s.timeSince
  · simp only [if_pos hpr, Option.some.injEq] at h
    rw [← h] at hc
    exact absurd rfl hc
  · simp only [if_neg hpr, Option.bind_eq_bind] at h
    by_cases hz : s.proc ≠ 0
    · simp only [if_pos hz] at h
      cases hq : dtSub s.proc s.timeSince with
      | none => rw [hq] at h; cases h
      | some proc' =>
        rw [hq, Option.bind_some] at h
        exact key _ proc' hb h
    · simp only [if_neg hz] at h
      rw [Option.bind_some] at h
      exact key _ 0 hb h

-- one lost event with no connection update pending
theorem lost_step_none (s s' : LL) (hiv : s.tp.interval ≤ 4000000) (hto : s.tp.timeoutUs ≤ 32000000)
    (hp : s.pending = none) (hc : s.phase ≠ .advertising) (h : step s .lost = some s')
    (hc' : s'.phase ≠ .advertising) :
    s'.timeSince = s.timeSince + s.tp.interval ∧ s'.counter = (s.counter + 1) % 65536
      ∧ s'.tp = s.tp ∧ s'.sca = s.sca ∧ s'.pending = none ∧ s'.phase = s.phase
      ∧ ∃ a b, window s'.timeSince s.tp.winSize s.tp.winOffset s.sca = some (a, b) ∧ s'.win = (a, b, s.tp.interval) := by
  have key : s.timeSince < s.tp.timeoutUs →
      (dtAdd s.timeSince s.tp.interval).bind (fun ts' => applyPendingAndSetup
        { s with counter := (s.counter + 1) % 65536, timeSince := ts' }) = some s' →
      s'.timeSince = s.timeSince + s.tp.interval ∧ s'.counter = (s.counter + 1) % 65536
      ∧ s'.tp = s.tp ∧ s'.sca = s.sca ∧ s'.pending = none ∧ s'.phase = s.phase
      ∧ ∃ a b, window s'.timeSince s.tp.winSize s.tp.winOffset s.sca = some (a, b) ∧ s'.win = (a, b, s.tp.interval) := by
    intro ht h
    rw [dtAdd_small (by omega), Option.bind_some] at h
    obtain ⟨a, b, hw, e⟩ := applyPendingAndSetup_none (by exact hp) h
    refine ⟨?_, ?_, ?_, ?_, ?_, ?_, a, b, ?_, ?_⟩
    · rw [e]
    · rw [e]
    · rw [e]
    · rw [e]
    · rw [e]; exact hp
    · rw [e]
    · rw [e]; exact hw
    · rw [e]
  simp only [step, if_pos hc] at h
  unfold timeoutStep at h
  by_cases hpr : s.proc ≠ 0 ∧ s.proc ≤ s.timeSince
  · simp only [if_pos hpr, Option.some.injEq] at h
    rw [← h] at hc'
    exact absurd rfl hc'
  · simp only [if_neg hpr] at h
    by_cases ht : s.timeSince < s.tp.timeoutUs
    · simp only [if_pos ht] at h
      have h5 : dtMul s.tp.interval 5 = some (s.tp.interval * 5) := dtMul_small (by omega)
      by_cases hcon : s.phase = .connecting
      · simp only [if_pos hcon, h5, Option.map_some, Option.bind_eq_bind, Option.bind_some] at h
        by_cases h6 : s.timeSince ≥ s.tp.interval * 5
        · simp only [h6, decide_true, Bool.not_true, Bool.false_eq_true, if_false, Option.some.injEq] at h
          rw [← h] at hc'
          exact absurd rfl hc'
        · simp only [h6, decide_false, Bool.not_false, if_true] at h
          exact key ht h
      · simp only [if_neg hcon, Option.bind_eq_bind, Option.bind_some, if_true] at h
        exact key ht h
    · simp only [if_neg ht, Option.bind_eq_bind, Option.bind_some, Bool.false_eq_true, if_false,
        Option.some.injEq] at h
      rw [← h] at hc'
      exact absurd rfl hc'

-- after `k` further lost events (the connection still alive, no connection update pending) the planned
-- event is `k` more intervals after the same anchor: `timeSince = timeSince₀ + k · interval`; parameters
-- unchanged, the radio gets the window for exactly that distance
theorem event_at_anchor_plus_k_intervals (k : Nat) (s s' : LL) (hiv : s.tp.interval ≤ 4000000)
    (hto : s.tp.timeoutUs ≤ 32000000) (hp : s.pending = none) (hc0 : s.phase ≠ .advertising)
    (h : lostRun k s = some s') (hc : s'.phase ≠ .advertising) :
    s'.timeSince = s.timeSince + k * s.tp.interval ∧ s'.counter % 65536 = (s.counter + k) % 65536
      ∧ s'.tp = s.tp ∧ s'.sca = s.sca ∧ s'.pending = none
      ∧ (k ≠ 0 → ∃ a b, window s'.timeSince s.tp.winSize s.tp.winOffset s.sca = some (a, b)
            ∧ s'.win = (a, b, s.tp.interval)) := by
  induction k generalizing s s' with
  | zero =>
    simp only [lostRun, Option.some.injEq] at h
    rw [← h]
    exact ⟨by omega, rfl, rfl, rfl, hp, fun hk => absurd rfl hk⟩
  | succ k ih =>
    simp only [lostRun] at h
    cases h1 : step s .lost with
    | none => rw [h1] at h; cases h
    | some s1 =>
      rw [h1, Option.bind_some] at h
      by_cases hc1 : s1.phase = .advertising
      · -- once advertising, lost events do not apply any more
        have hstay : ∀ (n : Nat) (t t' : LL), t.phase = .advertising → lostRun n t = some t' → t'.phase = .advertising := by
          intro n
          induction n with
          | zero => intro t t' ht h; simp only [lostRun, Option.some.injEq] at h; rw [← h]; exact ht
          | succ n ihn =>
            intro t t' ht h
            simp only [lostRun, step, ht, ne_eq, not_true_eq_false, if_false, Option.bind_some] at h
            exact ihn t t' ht h
        exact absurd (hstay k s1 s' hc1 h) hc
      · obtain ⟨e1, e2, e3, e4, e5, e6, a, b, hw, e7⟩ := lost_step_none s s1 hiv hto hp hc0 h1 hc1
        have := ih s1 s' (by rw [e3]; exact hiv) (by rw [e3]; exact hto) e5 hc1 h hc
        obtain ⟨f1, f2, f3, f4, f5, f6⟩ := this
        refine ⟨?_, ?_, ?_, ?_, f5, fun _ => ?_⟩
        · rw [f1, e1, e3, Nat.add_mul]; omega
        · rw [f2, e2]; omega
        · rw [f3, e3]
        · rw [f4, e4]
        · by_cases hk : k = 0
          · subst hk
            simp only [lostRun, Option.some.injEq] at h
            rw [← h]
            exact ⟨a, b, hw, e7⟩
          · obtain ⟨a', b', hw', e'⟩ := f6 hk
            rw [e3, e4] at hw'
            rw [e3] at e'
            exact ⟨a', b', hw', e'⟩

/-! ### non-vacuity of the hypotheses above: concrete histories -/

def exCfg : Cfg := ⟨false, false, false, false, false, false⟩

-- CONNECT_IND (WinSize 3, WinOffset 11, Interval 24 = 30 ms, Latency 0, Timeout 72 = 720 ms, SCA 5),
-- the first event takes place, then the next three events are lost
def exConnected : Option LL := run (init exCfg 500) [.connect ⟨3, 11, 24, 0, 72⟩ 5, .ev]

example : exConnected.map (fun s => (s.phase, s.timeSince, s.win))
    = some (.connected, 30000, (29984, 30016, 30000)) := by decide
example : exConnected.map (fun s => (s.tp.interval, s.tp.latency, s.tp.timeoutUs, s.pending.isNone))
    = some (30000, 0, 720000, true) := by decide

example : (exConnected.bind (lostRun 3)).map (fun s => (s.phase, s.timeSince, s.win))
    = some (.connected, 120000, (119935, 120065, 30000)) := by decide

-- supervision: timeout 210 ms, interval 50 ms: the fifth lost event (250 ms after the anchor) ends the link
example : ((run (init exCfg 20) [.connect ⟨2, 0, 40, 0, 21⟩ 0, .ev]).bind (lostRun 4)).map (fun s => (s.phase, s.timeSince))
    = some (.connected, 250000) := by decide
example : ((run (init exCfg 20) [.connect ⟨2, 0, 40, 0, 21⟩ 0, .ev]).bind (lostRun 5)).map (fun s => (s.phase, s.reason))
    = some (.advertising, 8) := by decide

-- a connection that is never established is given up with the sixth lost event
example : ((run (init exCfg 500) [.connect ⟨3, 11, 24, 0, 72⟩ 5]).bind (lostRun 5)).map (·.phase) = some .connecting
    ∧ ((run (init exCfg 500) [.connect ⟨3, 11, 24, 0, 72⟩ 5]).bind (lostRun 6)).map (·.phase) = some .advertising := by
  decide

-- a connection update with valid parameters is applied at its instant; one with interval 5 ends the link there
example : (run (init exCfg 500) [.connect ⟨3, 11, 24, 0, 72⟩ 5, .upd ⟨5, 6, 40, 1, 25⟩ 2, .ev]).map
    (fun s => (s.phase, s.tp, s.timeSince, s.win)) = some (.changed, ⟨6250, 7500, 50000, 1, 250000⟩, 30000, (37480, 43774, 50000)) := by
  decide
example : (run (init exCfg 500) [.connect ⟨3, 11, 24, 0, 72⟩ 5, .upd ⟨5, 5, 5, 1, 25⟩ 2, .ev]).map (·.phase)
    = some .advertising := by decide

/-! ### no `delta_time` assertion, no overflow, in any history -/

-- "For every history of radio callbacks — CONNECT_IND with any field values (those accepted by the fixed
-- `check_timing_paremeters()` open a connection), connection events that take place, with or without an
-- LL_CONNECTION_UPDATE_IND, lost events, the procedure timer — no `delta_time` operation of the link layer's
-- timing code hits its assertion, and all planned times stay within 32 bit."
--
-- Preconditions, all of them:
--   * `ownSca ≤ 500`: the device's own sleep clock accuracy (`sleep_clock_accuracy_ppm<>`, default 500) is within
--     the 500 ppm the Core specification allows a peripheral (Vol 6 Part B 4.2.2);
--   * `Op.WF`: the five raw fields have the width of their PDU fields (1 + 4 × 2 octets), `procedure_timeout_` is
--     poked with a 32 bit value.
-- No bound on the number of lost events is assumed: `timeout()` itself gives up as soon as
-- `time_since_last_event_ ≥ connection_timeout_`, which is where the bound `timeSince < 32 s + 4 s` comes from.
--
-- `run … = some s` says that none of the steps (hence no prefix of the history) returned `none`, the model's
-- result for a failing `assert` in `delta_time::operator+= / -= / *=`.  `Inv s` (Invariant.lean) is the
-- inductive invariant: in every state all timing members fit their C++ types; while a connection exists the
-- parameters are the ones the check accepted (interval ≤ 4 s, latency ≤ 499, timeout ≤ 32 s,
-- (latency+1)·interval·2 < timeout, window size ≤ 10 ms, offset ≤ interval + 1.25 ms), `time_since_last_event_`
-- < 36 s, cumulated accuracy ≤ 1000 ppm, the window at the radio is the one `setup_next_connection_event()`
-- computes from the current members, ends before 41 s, and both `ppm()` calls were exact (no 64 bit overflow of
-- the product, quotient fits 32 bit).
theorem no_delta_time_assert_in_any_history (cfg : Cfg) (ownSca : Nat) (ho : ownSca ≤ 500) (ops : List Op)
    (hw : ∀ o ∈ ops, o.WF) :
    ∃ s, run (init cfg ownSca) ops = some s ∧ Inv s :=
  run_inv ops _ (init_inv cfg ownSca ho) hw

-- the same, spelled out for the times handed to the radio
theorem planned_times_fit_32_bit (cfg : Cfg) (ownSca : Nat) (ho : ownSca ≤ 500) (ops : List Op)
    (hw : ∀ o ∈ ops, o.WF) :
    ∃ s, run (init cfg ownSca) ops = some s
      ∧ s.timeSince < 4294967296 ∧ s.proc < 4294967296
      ∧ s.win.1 < 4294967296 ∧ s.win.2.1 < 4294967296 ∧ s.win.2.2 < 4294967296
      ∧ (s.phase ≠ .advertising →
          s.timeSince < 36000000 ∧ s.win.1 ≤ s.win.2.1 ∧ s.win.2.1 < 41000000 ∧ s.win.2.2 = s.tp.interval
          ∧ s.tp.interval ≤ 4000000 ∧ s.tp.timeoutUs ≤ 32000000 ∧ s.sca ≤ 1000
          ∧ window s.timeSince s.tp.winSize s.tp.winOffset s.sca = some (s.win.1, s.win.2.1)
          ∧ WindowExact s.timeSince s.tp.winSize s.tp.winOffset s.sca) := by
  obtain ⟨s, hr, hi⟩ := no_delta_time_assert_in_any_history cfg ownSca ho ops hw
  refine ⟨s, hr, hi.base.ts, hi.base.proc, hi.base.win.1, hi.base.win.2.1, hi.base.win.2.2, fun hc => ?_⟩
  obtain ⟨c, p⟩ := hi.conn hc
  exact ⟨c.ts, p.le, p.lt, p.iv, c.tp.iv, c.tp.to, c.sca, p.eq, p.exact⟩

-- non-vacuity: a history that satisfies the preconditions and goes to the edge of the invariant — interval
-- 3.99875 s, supervision timeout 32 s, first event takes place, then eight events are lost:
-- `time_since_last_event_` reaches 35.98875 s (< 36 s) with the connection still alive; the ninth lost event is
-- the supervision timeout
def exLongOps : List Op := [.connect ⟨8, 3199, 3199, 0, 3200⟩ 0, .ev, .lost, .lost, .lost, .lost, .lost, .lost, .lost, .lost]

example : (500 : Nat) ≤ 500 ∧ (∀ o ∈ exLongOps ++ [.lost], o.WF) := by decide
example : (run (init exCfg 500) exLongOps).map (fun s => (s.phase, s.timeSince, s.sca, s.win))
    = some (.connected, 35988750, 1000, (35952762, 36024738, 3998750)) := by decide
example : (run (init exCfg 500) (exLongOps ++ [.lost])).map (fun s => (s.phase, s.reason))
    = some (.advertising, 8) := by decide
-- … with an update that shrinks interval and timeout at its instant (the old distance stays in
-- `time_since_last_event_`), and the procedure timer running
def exUpdOps : List Op := [.connect ⟨8, 3199, 3199, 0, 3200⟩ 0, .upd ⟨1, 0, 6, 0, 10⟩ 3, .setProc 40000000, .lost, .lost]

example : ∀ o ∈ exUpdOps, o.WF := by decide
example : (run (init exCfg 500) exUpdOps).map (fun s => (s.phase, s.timeSince, s.tp.timeoutUs, s.win))
    = some (.changed, 11996250, 100000, (11984254, 12009497, 7500)) := by decide

-- the precondition on the device's own accuracy is needed: with an (absurd) accuracy of 200 % the widening of the
-- first window exceeds the distance to the window and `delta_time::operator-=` asserts
example : run (init exCfg 2000000) [.connect ⟨3, 11, 24, 0, 72⟩ 5] = none := by decide

end BluetoeModel.Timing
