/-
  Model of the connection timing of `bluetoe::link_layer::link_layer<>`
  (bluetoe/link_layer/include/bluetoe/link_layer.hpp): acceptance of the timing parameters of
  CONNECT_IND and LL_CONNECTION_UPDATE_IND, the receive window computed for every planned connection
  event, the planning of the next event after an event took place / was missed, and the supervision
  timeout.  `delta_time` arithmetic and `ppm` come from `BluetoeModel.ConnEvents.Model`
  (bluetoe/link_layer/delta_time.cpp); every function that contains an `assert` in the C++ returns
  `Option` here, `none` = the assertion fails.

  The model is the code of the repository *with* the two fixes `fixes/timing-01-*.patch` and
  `fixes/timing-02-*.patch` applied.
-/
import BluetoeModel.ConnEvents.Model

namespace BluetoeModel.Timing
open BluetoeModel.ConnEvents (dtAdd dtSub dtMul ppm Cfg Events St advance)

/-- the raw fields of the LLData of CONNECT_IND / the CtrData of LL_CONNECTION_UPDATE_IND, in
    protocol units (1.25 ms, 1.25 ms, 1.25 ms, events, 10 ms) -/
structure Raw where
  ws  : Nat   -- transmitWindowSize  (uint8)
  wo  : Nat   -- transmitWindowOffset (uint16)
  iv  : Nat   -- connInterval (uint16)
  lat : Nat   -- connPeripheralLatency (uint16)
  to  : Nat   -- connSupervisionTimeout (uint16)
deriving Repr, DecidableEq

/-- the timing members of `link_layer<>`: `transmit_window_size_`, `transmit_window_offset_`,
    `connection_interval_`, `connection_timeout_` (µs) and `peripheral_latency_` -/
structure Tp where
  winSize   : Nat
  winOffset : Nat
  interval  : Nat
  latency   : Nat
  timeoutUs : Nat
deriving Repr, DecidableEq

-- src: link_layer.hpp:sleep_clock_accuracy  (`inaccuracy_ppm[ body[ 33 ] >> 5 & 7 ]`)
def centralSca (sca : Nat) : Nat :=
  match sca % 8 with
  | 0 => 500 | 1 => 250 | 2 => 150 | 3 => 100 | 4 => 75 | 5 => 50 | 6 => 30 | _ => 20

-- src: link_layer.hpp:check_timing_paremeters  (with fix timing-01; the `&&` chain short-circuits,
-- the product `( peripheral_latency_ + 1 ) * 2 * connection_interval_` is `delta_time::operator*=`)
def checkTiming (p : Tp) : Option Bool :=
  if 7500 ≤ p.interval ∧ p.interval ≤ 4000000 ∧ p.winSize ≠ 0 ∧ p.winSize ≤ 10000
      ∧ p.winSize ≤ p.interval ∧ 100000 ≤ p.timeoutUs ∧ p.timeoutUs ≤ 32000000 ∧ p.latency ≤ 499 then
    (dtMul p.interval ((p.latency + 1) * 2)).map (fun x => decide (p.timeoutUs > x))
  else some false

-- src: link_layer.hpp:parse_timing_parameters_from_connect_request  (members written, then the checks)
def parseConnect (r : Raw) : Tp × Option Bool :=
  let p : Tp := { winSize := r.ws * 1250, winOffset := r.wo * 1250 + 1250, interval := r.iv * 1250,
                  latency := r.lat, timeoutUs := r.to * 10000 }
  (p, if r.wo * 1250 ≤ p.interval then checkTiming p else some false)

-- src: link_layer.hpp:parse_timing_parameters_from_connection_update_request
def parseUpdate (r : Raw) : Tp × Option Bool :=
  let p : Tp := { winSize := r.ws * 1250, winOffset := r.wo * 1250, interval := r.iv * 1250,
                  latency := r.lat, timeoutUs := r.to * 10000 }
  (p, if p.winOffset ≤ p.interval then checkTiming p else some false)

/-- `setup_next_connection_event` with the window widening `w` (time ↦ clock drift over that time) -/
-- src: link_layer.hpp:setup_next_connection_event
def windowWith (w : Nat → Nat) (ts winSize winOffset : Nat) : Option (Nat × Nat) :=
  if winSize ≠ 0 then do
    let ws ← dtAdd ts winOffset
    let we ← dtAdd ws winSize
    let ws' ← dtSub ws (w ws)
    let we' ← dtAdd we (w we)
    some (ws', we')
  else do
    let a ← dtSub ts (w ts)
    let b ← dtAdd ts (w ts)
    some (a, b)

/-- the `start_receive` / `end_receive` arguments of `schedule_connection_event()`:
    the widening is `delta_time::ppm( cumulated_sleep_clock_accuracy_ )` -/
-- src: link_layer.hpp:setup_next_connection_event
def window (ts winSize winOffset sca : Nat) : Option (Nat × Nat) :=
  windowWith (fun u => ppm u sca) ts winSize winOffset

inductive Phase where
  | advertising | connecting | connected | changed
deriving Repr, DecidableEq

/-- the part of the link layer's state the timing depends on -/
structure LL where
  cfg       : Cfg            -- peripheral latency configuration
  ownSca    : Nat            -- `device_sleep_clock_accuracy::accuracy_ppm`
  phase     : Phase          -- `state_`
  advSched  : Bool           -- an advertising PDU is scheduled at the radio
  reason    : Nat            -- `disconnecting_reason_`
  counter   : Nat            -- `event_counter_` of the planned event
  timeSince : Nat            -- `time_since_last_event_`
  tp        : Tp
  sca       : Nat            -- `cumulated_sleep_clock_accuracy_`
  proc      : Nat            -- `procedure_timeout_`
  pending   : Option (Raw × Nat)   -- deferred LL_CONNECTION_UPDATE_IND and its instant
  win       : Nat × Nat × Nat      -- last `schedule_connection_event( _, start, end, interval )`
deriving Repr, DecidableEq

def connectionTimeout : Nat := 0x08          -- link_layer.hpp: connection_timeout
def llResponseTimeout : Nat := 0x22          -- connection_ll_response_timeout
def instantPassedReason : Nat := 0x28        -- connection_instant_passed

-- src: link_layer.hpp:link_layer() + run() (state initial -> start_advertising_impl)
def init (cfg : Cfg) (ownSca : Nat) : LL :=
  { cfg := cfg, ownSca := ownSca, phase := .advertising, advSched := true, reason := 0, counter := 0,
    timeSince := 0, tp := ⟨0, 0, 0, 0, 0⟩, sca := 0, proc := 0, pending := none, win := (0, 0, 0) }

-- src: link_layer.hpp:setup_next_connection_event (state update: the radio gets the window)
def setupNext (s : LL) : Option LL := do
  let w ← window s.timeSince s.tp.winSize s.tp.winOffset s.sca
  some { s with win := (w.1, w.2, s.tp.interval) }

-- src: link_layer.hpp:force_disconnect + start_advertising_impl
def forceDisconnect (s : LL) (reason : Nat) : LL :=
  { s with phase := .advertising, advSched := true, reason := reason, pending := none }

-- src: link_layer.hpp:adv_received  (a CONNECT_IND for this device, from a central that passes the
-- filter policy, with a valid channel map and hop; fix timing-02: the `else` branch)
def advReceived (s : LL) (r : Raw) (sca : Nat) : Option LL :=
  match (parseConnect r).2 with
  | none => none
  | some true =>
      setupNext { s with phase := .connecting, tp := (parseConnect r).1, counter := 0, timeSince := 0,
                         sca := centralSca sca + s.ownSca, reason := connectionTimeout, proc := 0,
                         pending := none, advSched := false }
  | some false => some { s with tp := (parseConnect r).1, advSched := true }

/-- result of `handle_pending_ll_control`: `none` = assertion, `some (s, goAhead)` -/
-- src: link_layer.hpp:handle_pending_ll_control (LL_CONNECTION_UPDATE_IND only)
def handlePending (s : LL) : Option (LL × Bool) :=
  match s.pending with
  | some (r, inst) =>
      if inst = s.counter then
        match (parseUpdate r).2 with
        | none => none
        | some true  => some ({ s with tp := (parseUpdate r).1, proc := 0, phase := .changed, pending := none }, true)
        | some false => some ({ s with tp := (parseUpdate r).1, proc := 0, pending := none }, false)
      else some (s, true)
  | none => some (s, true)

/-- `handle_pending_ll_control` followed by `setup_next_connection_event` or `force_disconnect` -/
def applyPendingAndSetup (s : LL) : Option LL := do
  let (s1, go) ← handlePending s
  if go then setupNext s1 else some (forceDisconnect s1 s1.reason)

-- src: link_layer.hpp:timeout  (+ peripheral_latency.hpp:plan_next_connection_event_after_timeout)
def timeoutStep (s : LL) : Option LL :=
  let ts := s.timeSince
  if s.proc ≠ 0 ∧ s.proc ≤ ts then some (forceDisconnect s llResponseTimeout)
  else do
    let keep ←
      if ts < s.tp.timeoutUs then
        (if s.phase = .connecting then (dtMul s.tp.interval 5).map (fun x => !decide (ts ≥ x)) else some true)
      else some false
    if keep then
      let ts' ← dtAdd ts s.tp.interval
      applyPendingAndSetup { s with counter := (s.counter + 1) % 65536, timeSince := ts' }
    else some (forceDisconnect s s.reason)

/-- `instant_passed( instant )` for `instant = counter + delta` -/
-- src: link_layer.hpp:instant_passed
def instantPassed (delta : Nat) : Bool := delta % 65536 = 0 ∨ delta % 65536 ≥ 32767

/-- all `connection_event_events` flags false: an empty PDU was received, nothing transmitted -/
def quiet : Events := ⟨false, false, false, false, false, false⟩

-- src: link_layer.hpp:end_event  (+ handle_received_data / handle_ll_control_data for
-- LL_CONNECTION_UPDATE_IND, peripheral_latency.hpp:plan_next_connection_event).
-- `upd = some (r, delta)`: the central sent LL_CONNECTION_UPDATE_IND with instant `counter + delta`.
def endEvent (s : LL) (upd : Option (Raw × Nat)) : Option LL :=
  let s0 := { s with phase := .connected, tp := { s.tp with winSize := 0 } }
  -- handle_received_data
  let r : LL × Bool :=
    match upd with
    | some (raw, delta) =>
        if s0.pending.isSome then (s0, true)      -- a PDU stays in the receive buffer (not generated)
        else
          let inst := (s0.counter + delta) % 65536
          if instantPassed delta ∨ inst = s0.counter + 1 then ({ s0 with reason := instantPassedReason }, false)
          else ({ s0 with pending := some (raw, inst) }, true)
    | none => (s0, true)
  let s1 := r.1
  if !r.2 then some (forceDisconnect s1 s1.reason)
  else
    let ts := s1.timeSince
    if s1.proc ≠ 0 ∧ s1.proc ≤ ts then some (forceDisconnect s1 llResponseTimeout)
    else do
      let proc' ← if s1.proc ≠ 0 then dtSub s1.proc ts else some 0
      let l := advance s1.cfg ⟨0, s1.counter, 0, 1⟩ s1.tp.latency quiet (s1.pending.map (·.2))
      let ts' ← dtMul s1.tp.interval l
      applyPendingAndSetup { s1 with proc := proc', counter := (s1.counter + l) % 65536, timeSince := ts' }

inductive Op where
  | connect (r : Raw) (sca : Nat)
  | ev
  | upd (r : Raw) (delta : Nat)
  | lost
  | setProc (usec : Nat)
deriving Repr, DecidableEq

/-- `none` = an `assert` of the C++ fails; an op that is not applicable in the current state leaves
    the state unchanged (the harness answers `bad-op`) -/
def step (s : LL) : Op → Option LL
  | .connect r sca => if s.phase = .advertising ∧ s.advSched then advReceived s r sca else some s
  | .ev => if s.phase ≠ .advertising then endEvent s none else some s
  | .upd r d => if s.phase ≠ .advertising ∧ s.pending.isNone then endEvent s (some (r, d)) else some s
  | .lost => if s.phase ≠ .advertising then timeoutStep s else some s
  | .setProc u => if s.phase ≠ .advertising then some { s with proc := u } else some s

def run (s : LL) : List Op → Option LL
  | [] => some s
  | o :: os => (step s o).bind (fun s' => run s' os)

end BluetoeModel.Timing
