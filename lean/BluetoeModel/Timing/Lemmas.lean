/-
  Helper lemmas for the C22 theorems: `delta_time` arithmetic without wrap-around inside the
  value ranges that valid connection parameters guarantee, the closed form of the receive window,
  and the invariant that keeps every history of the link layer inside those ranges.
-/
import BluetoeModel.Timing.Model

namespace BluetoeModel.Timing
open BluetoeModel.ConnEvents (dtAdd dtSub dtMul ppm Cfg Events St advance listenNext)

/-! ### delta_time arithmetic inside 32 bit -/

theorem dtAdd_small {a b : Nat} (h : a + b < 4294967296) : dtAdd a b = some (a + b) := by
  unfold dtAdd
  simp only [Nat.mod_eq_of_lt h]
  rw [if_pos]; omega

theorem dtSub_small {a b : Nat} (h : b ≤ a) (ha : a < 4294967296) : dtSub a b = some (a - b) := by
  unfold dtSub
  have e : (a + 4294967296 - b) % 4294967296 = a - b := by omega
  simp only [e]
  rw [if_pos]; omega

theorem dtMul_small {a r : Nat} (h : a * r < 4294967296) : dtMul a r = some (a * r) := by
  unfold dtMul
  by_cases h0 : r = 0 ∨ a = 0
  · rw [if_pos h0]; rcases h0 with h0 | h0 <;> simp [h0]
  · rw [if_neg h0]
    have hr : 1 ≤ r := by omega
    have ha : 1 ≤ a := by omega
    by_cases h1 : r > 1
    · rw [if_pos h1]
      by_cases h2 : a = 1
      · rw [if_pos h2]; simp [h2]
      · rw [if_neg h2]
        simp only [Nat.mod_eq_of_lt h]
        have h3 : 2 * r ≤ a * r := Nat.mul_le_mul_right r (by omega)
        have h4 : a * 2 ≤ a * r := Nat.mul_le_mul_left a (by omega)
        rw [if_pos]; omega
    · rw [if_neg h1]
      have : r = 1 := by omega
      simp [this]

/-! ### ppm -/

theorem ppm_x (x : Nat) (h : x ≤ 100000000000) :
    x * 140737488 < 18446744073709551616
    ∧ ((x * 140737488) % 18446744073709551616 / 140737488355328) % 4294967296 ≤ x / 1000000
    ∧ x / 1000000 ≤ ((x * 140737488) % 18446744073709551616 / 140737488355328) % 4294967296 + 1 := by
  have h1 : x * 140737488 < 18446744073709551616 := by omega
  refine ⟨h1, ?_⟩
  rw [Nat.mod_eq_of_lt h1]
  have h2 : x * 140737488 / 140737488355328 < 4294967296 := by omega
  rw [Nat.mod_eq_of_lt h2]
  omega

theorem mul_le_e11 {u p : Nat} (hu : u ≤ 100000000) (hp : p ≤ 1000) : u * p ≤ 100000000000 :=
  Nat.mul_le_mul hu hp

theorem ppm_floor {u p : Nat} (hu : u ≤ 100000000) (hp : p ≤ 1000) :
    ppm u p ≤ u * p / 1000000 ∧ u * p / 1000000 ≤ ppm u p + 1 := by
  have h := ppm_x (u * p) (mul_le_e11 hu hp)
  unfold ppm
  exact h.2

/-- the widening never exceeds a thousandth of the time it is computed for -/
theorem ppm_le_thousandth {u p : Nat} (hu : u ≤ 100000000) (hp : p ≤ 1000) : ppm u p * 1000 ≤ u := by
  have h := (ppm_floor hu hp).1
  have hx : u * p ≤ u * 1000 := Nat.mul_le_mul_left u hp
  omega

/-! ### the receive window in closed form -/

theorem windowWith_closed {w : Nat → Nat} {ts ws wo : Nat} (hw : ∀ u, u ≤ 100000000 → w u * 1000 ≤ u)
    (hb : ts + wo + ws ≤ 100000000) :
    windowWith w ts ws wo =
      if ws ≠ 0 then some (ts + wo - w (ts + wo), ts + wo + ws + w (ts + wo + ws))
      else some (ts - w ts, ts + w ts) := by
  unfold windowWith
  by_cases h : ws ≠ 0
  · rw [if_pos h, if_pos h]
    have p1 := hw (ts + wo) (by omega)
    have p2 := hw (ts + wo + ws) (by omega)
    have e1 : dtAdd ts wo = some (ts + wo) := dtAdd_small (by omega)
    have e2 : dtAdd (ts + wo) ws = some (ts + wo + ws) := dtAdd_small (by omega)
    have e3 : dtSub (ts + wo) (w (ts + wo)) = some (ts + wo - w (ts + wo)) := dtSub_small (by omega) (by omega)
    have e4 : dtAdd (ts + wo + ws) (w (ts + wo + ws)) = some (ts + wo + ws + w (ts + wo + ws)) := dtAdd_small (by omega)
    rw [e1]
    simp only [Option.bind_eq_bind]
    rw [Option.bind_some, e2, Option.bind_some, e3, Option.bind_some, e4, Option.bind_some]
  · rw [if_neg h, if_neg h]
    have p1 := hw ts (by omega)
    have e1 : dtSub ts (w ts) = some (ts - w ts) := dtSub_small (by omega) (by omega)
    have e2 : dtAdd ts (w ts) = some (ts + w ts) := dtAdd_small (by omega)
    rw [e1]
    simp only [Option.bind_eq_bind]
    rw [Option.bind_some, e2, Option.bind_some]

theorem window_closed {ts ws wo sca : Nat} (hb : ts + wo + ws ≤ 100000000) (hs : sca ≤ 1000) :
    window ts ws wo sca =
      if ws ≠ 0 then some (ts + wo - ppm (ts + wo) sca, ts + wo + ws + ppm (ts + wo + ws) sca)
      else some (ts - ppm ts sca, ts + ppm ts sca) :=
  windowWith_closed (w := fun u => ppm u sca) (fun _ hu => ppm_le_thousandth hu hs) hb

/-! ### planning -/

theorem advance_bounds (cfg : Cfg) (st : St) (lat : Nat) (pend : Option Nat) (h : lat ≤ 499) :
    1 ≤ advance cfg st lat quiet pend ∧ advance cfg st lat quiet pend ≤ lat + 1 := by
  unfold advance
  generalize listenNext cfg quiet = b
  cases b <;> cases pend <;> simp only [Bool.false_eq_true, if_false, if_true] <;> (try split) <;> omega

/-! ### acceptance of timing parameters -/

theorem centralSca_le (sca : Nat) : centralSca sca ≤ 500 := by
  unfold centralSca
  split <;> omega

/-- `check_timing_paremeters` never fails an assertion and accepts exactly these parameters -/
theorem checkTiming_spec (p : Tp) :
    checkTiming p = some (decide (7500 ≤ p.interval ∧ p.interval ≤ 4000000 ∧ p.winSize ≠ 0 ∧ p.winSize ≤ 10000
      ∧ p.winSize ≤ p.interval ∧ 100000 ≤ p.timeoutUs ∧ p.timeoutUs ≤ 32000000 ∧ p.latency ≤ 499
      ∧ p.interval * ((p.latency + 1) * 2) < p.timeoutUs)) := by
  unfold checkTiming
  by_cases h : 7500 ≤ p.interval ∧ p.interval ≤ 4000000 ∧ p.winSize ≠ 0 ∧ p.winSize ≤ 10000
      ∧ p.winSize ≤ p.interval ∧ 100000 ≤ p.timeoutUs ∧ p.timeoutUs ≤ 32000000 ∧ p.latency ≤ 499
  · rw [if_pos h]
    have hm : p.interval * ((p.latency + 1) * 2) ≤ 4000000 * 1000 :=
      Nat.mul_le_mul h.2.1 (by omega)
    rw [dtMul_small (by omega)]
    simp only [Option.map_some, gt_iff_lt]
    by_cases hx : p.interval * ((p.latency + 1) * 2) < p.timeoutUs
    · simp [h, hx]
    · simp [hx]
  · rw [if_neg h]
    have : ¬ (7500 ≤ p.interval ∧ p.interval ≤ 4000000 ∧ p.winSize ≠ 0 ∧ p.winSize ≤ 10000
      ∧ p.winSize ≤ p.interval ∧ 100000 ≤ p.timeoutUs ∧ p.timeoutUs ≤ 32000000 ∧ p.latency ≤ 499
      ∧ p.interval * ((p.latency + 1) * 2) < p.timeoutUs) := by
      intro hh; apply h
      exact ⟨hh.1, hh.2.1, hh.2.2.1, hh.2.2.2.1, hh.2.2.2.2.1, hh.2.2.2.2.2.1, hh.2.2.2.2.2.2.1, hh.2.2.2.2.2.2.2.1⟩
    simp [this]

theorem setupNext_some {s s' : LL} (h : setupNext s = some s') :
    ∃ a b, window s.timeSince s.tp.winSize s.tp.winOffset s.sca = some (a, b)
      ∧ s' = { s with win := (a, b, s.tp.interval) } := by
  unfold setupNext at h
  cases hw : window s.timeSince s.tp.winSize s.tp.winOffset s.sca with
  | none => rw [hw] at h; simp at h
  | some w =>
      rw [hw] at h
      simp only [Option.bind_eq_bind, Option.bind_some, Option.some.injEq] at h
      exact ⟨w.1, w.2, rfl, h.symm⟩

end BluetoeModel.Timing
