/-
  The inductive invariant behind `no_delta_time_assert_in_any_history` (C22): every state the model of
  `link_layer<>` reaches from `init` keeps its timing members in ranges in which none of the
  `delta_time` operations of `adv_received()`, `end_event()`, `timeout()`,
  `handle_pending_ll_control()` and `setup_next_connection_event()` can hit its assertion, the 64 bit
  product of `delta_time::ppm` does not overflow, and every time handed to the radio fits 32 bit.

  Base case: parameters accepted by the (fixed) `check_timing_paremeters()`.  Step: every radio callback.
-/
import BluetoeModel.Timing.Lemmas

namespace BluetoeModel.Timing
open BluetoeModel.ConnEvents (dtAdd dtSub dtMul ppm Cfg Events St advance)

/-! ### well-formed inputs: what a PDU can carry -/

/-- the field widths of LLData / CtrData: WinSize is one octet, the other four are 16 bit -/
def Raw.WF (r : Raw) : Prop := r.ws < 256 ∧ r.wo < 65536 ∧ r.iv < 65536 ∧ r.lat < 65536 ∧ r.to < 65536

instance (r : Raw) : Decidable r.WF := by unfold Raw.WF; infer_instance

/-- `procedure_timeout_` is a `delta_time` (32 bit); the raw fields have their PDU widths -/
def Op.WF : Op → Prop
  | .connect r _ => r.WF
  | .upd r _ => r.WF
  | .setProc u => u < 4294967296
  | .ev => True
  | .lost => True

instance (o : Op) : Decidable o.WF := by cases o <;> unfold Op.WF <;> infer_instance

/-! ### the invariant -/

/-- what `check_timing_paremeters()` = true leaves in the members (`transmit_window_size_` may have been
    cleared by `end_event()` since; the offset of a connect request is one unit larger than an update's) -/
structure TpOk (p : Tp) : Prop where
  iv  : p.interval ≤ 4000000
  ws  : p.winSize ≤ 10000
  wo  : p.winOffset ≤ p.interval + 1250
  lat : p.latency ≤ 499
  to  : p.timeoutUs ≤ 32000000
  sup : p.interval * ((p.latency + 1) * 2) < p.timeoutUs

/-- the members fit their C++ types -/
def Tp.Bits (p : Tp) : Prop :=
  p.winSize < 4294967296 ∧ p.winOffset < 4294967296 ∧ p.interval < 4294967296 ∧ p.latency < 65536
    ∧ p.timeoutUs < 4294967296

/-- `delta_time::ppm`: neither the 64 bit product nor the conversion of the quotient to 32 bit loses anything -/
def PpmExact (u p : Nat) : Prop :=
  u * p * 140737488 < 18446744073709551616 ∧ u * p * 140737488 / 140737488355328 < 4294967296
    ∧ ppm u p = u * p * 140737488 / 140737488355328

/-- the `ppm` calls of `setup_next_connection_event()` -/
def WindowExact (ts ws wo sca : Nat) : Prop :=
  if ws ≠ 0 then PpmExact (ts + wo) sca ∧ PpmExact (ts + wo + ws) sca else PpmExact ts sca

/-- holds in every state, connected or not -/
structure Base (s : LL) : Prop where
  own  : s.ownSca ≤ 500
  cnt  : s.counter < 65536
  tp   : s.tp.Bits
  proc : s.proc < 4294967296
  ts   : s.timeSince < 4294967296
  win  : s.win.1 < 4294967296 ∧ s.win.2.1 < 4294967296 ∧ s.win.2.2 < 4294967296
  pend : ∀ r i, s.pending = some (r, i) → r.WF

/-- the ranges the next callback relies on -/
structure CoreOk (tp : Tp) (ts sca : Nat) : Prop where
  tp  : TpOk tp
  ts  : ts < 36000000          -- < supervision timeout (≤ 32 s) + one interval (≤ 4 s)
  sca : sca ≤ 1000

/-- the event planned at the radio is the window of the current members, computed without wrap-around -/
structure Planned (s : LL) : Prop where
  eq    : window s.timeSince s.tp.winSize s.tp.winOffset s.sca = some (s.win.1, s.win.2.1)
  iv    : s.win.2.2 = s.tp.interval
  le    : s.win.1 ≤ s.win.2.1
  lt    : s.win.2.1 < 41000000
  exact : WindowExact s.timeSince s.tp.winSize s.tp.winOffset s.sca

structure Inv (s : LL) : Prop where
  base : Base s
  conn : s.phase ≠ .advertising → CoreOk s.tp s.timeSince s.sca ∧ Planned s

/-! ### arithmetic -/

theorem ppmExact_of {u p : Nat} (hu : u ≤ 100000000) (hp : p ≤ 1000) : PpmExact u p := by
  have hx : u * p ≤ 100000000000 := mul_le_e11 hu hp
  unfold PpmExact ppm
  generalize u * p = x at *
  have h1 : x * 140737488 < 18446744073709551616 := by omega
  have h2 : x * 140737488 / 140737488355328 < 4294967296 := by omega
  refine ⟨h1, h2, ?_⟩
  rw [Nat.mod_eq_of_lt h1, Nat.mod_eq_of_lt h2]

theorem window_inv {ts ws wo sca : Nat} (hts : ts < 36000000) (hws : ws ≤ 10000) (hwo : wo ≤ 4001250)
    (hs : sca ≤ 1000) :
    ∃ a b, window ts ws wo sca = some (a, b) ∧ a ≤ b ∧ b < 41000000 ∧ WindowExact ts ws wo sca := by
  have hb : ts + wo + ws ≤ 100000000 := by omega
  rw [window_closed hb hs]
  unfold WindowExact
  by_cases hw : ws ≠ 0
  · rw [if_pos hw, if_pos hw]
    have q2 := ppm_le_thousandth (u := ts + wo + ws) (p := sca) (by omega) hs
    exact ⟨_, _, rfl, by omega, by omega, ppmExact_of (by omega) hs, ppmExact_of (by omega) hs⟩
  · rw [if_neg hw, if_neg hw]
    have q2 := ppm_le_thousandth (u := ts) (p := sca) (by omega) hs
    exact ⟨_, _, rfl, by omega, by omega, ppmExact_of (by omega) hs⟩

/-! ### base case: accepted parameters -/

theorem checkTiming_ok {p : Tp} (hwo : p.winOffset ≤ p.interval + 1250) (h : checkTiming p = some true) : TpOk p := by
  rw [checkTiming_spec] at h
  simp only [Option.some.injEq, decide_eq_true_eq] at h
  exact ⟨h.2.1, h.2.2.2.1, hwo, h.2.2.2.2.2.2.2.1, h.2.2.2.2.2.2.1, h.2.2.2.2.2.2.2.2⟩

theorem parseConnect_ok {r : Raw} (h : (parseConnect r).2 = some true) : TpOk (parseConnect r).1 := by
  unfold parseConnect at h ⊢
  simp only at h ⊢
  by_cases hw : r.wo * 1250 ≤ r.iv * 1250
  · rw [if_pos hw] at h
    exact checkTiming_ok (show r.wo * 1250 + 1250 ≤ r.iv * 1250 + 1250 from Nat.add_le_add_right hw 1250) h
  · rw [if_neg hw] at h; cases h

theorem parseUpdate_ok {r : Raw} (h : (parseUpdate r).2 = some true) : TpOk (parseUpdate r).1 := by
  unfold parseUpdate at h ⊢
  simp only at h ⊢
  by_cases hw : r.wo * 1250 ≤ r.iv * 1250
  · rw [if_pos hw] at h
    exact checkTiming_ok (show r.wo * 1250 ≤ r.iv * 1250 + 1250 from Nat.le_trans hw (Nat.le_add_right _ _)) h
  · rw [if_neg hw] at h; cases h

theorem parseConnect_bits {r : Raw} (h : r.WF) : Tp.Bits (parseConnect r).1 := by
  unfold Raw.WF at h
  unfold parseConnect Tp.Bits
  simp only
  omega

theorem parseUpdate_bits {r : Raw} (h : r.WF) : Tp.Bits (parseUpdate r).1 := by
  unfold Raw.WF at h
  unfold parseUpdate Tp.Bits
  simp only
  omega

theorem some_bool (b : Bool) : some b = some true ∨ some b = some false := by
  cases b
  · exact Or.inr rfl
  · exact Or.inl rfl

theorem z16 : (0 : Nat) < 65536 := by decide
theorem z32 : (0 : Nat) < 4294967296 := by decide
theorem z36 : (0 : Nat) < 36000000 := by decide

theorem parse_total_connect (r : Raw) : (parseConnect r).2 = some true ∨ (parseConnect r).2 = some false := by
  unfold parseConnect
  simp only
  split
  · rw [checkTiming_spec]
    exact some_bool _
  · exact Or.inr rfl

theorem parse_total_update (r : Raw) : (parseUpdate r).2 = some true ∨ (parseUpdate r).2 = some false := by
  unfold parseUpdate
  simp only
  split
  · rw [checkTiming_spec]
    exact some_bool _
  · exact Or.inr rfl

theorem TpOk.bits {p : Tp} (h : TpOk p) : p.Bits := by
  have := h.iv; have := h.ws; have := h.wo; have := h.lat; have := h.to
  unfold Tp.Bits
  omega

/-! ### step: the callbacks -/

-- `setup_next_connection_event()` inside the ranges: no assertion, the window fits, everything else untouched
theorem setupNext_inv (s : LL) (hb : Base s) (hc : CoreOk s.tp s.timeSince s.sca) :
    ∃ s', setupNext s = some s' ∧ Inv s' := by
  have hwo : s.tp.winOffset ≤ 4001250 := by have := hc.tp.wo; have := hc.tp.iv; omega
  obtain ⟨a, b, hw, hab, hb41, hex⟩ := window_inv hc.ts hc.tp.ws hwo hc.sca
  refine ⟨{ s with win := (a, b, s.tp.interval) }, ?_, ?_, ?_⟩
  · unfold setupNext
    rw [hw]
    rfl
  · have := hc.tp.iv
    exact ⟨hb.own, hb.cnt, hb.tp, hb.proc, hb.ts,
      ⟨show a < 4294967296 by omega, show b < 4294967296 by omega, show s.tp.interval < 4294967296 by omega⟩, hb.pend⟩
  · intro _
    exact ⟨⟨hc.tp, hc.ts, hc.sca⟩, ⟨hw, rfl, hab, hb41, hex⟩⟩

-- `force_disconnect()`: advertising again, nothing planned
theorem forceDisconnect_inv (s : LL) (reason : Nat) (hb : Base s) : Inv (forceDisconnect s reason) := by
  refine ⟨⟨hb.own, hb.cnt, hb.tp, hb.proc, hb.ts, hb.win, ?_⟩, ?_⟩
  · intro r i h; cases h
  · intro h; exact absurd rfl h

theorem handlePending_none {s : LL} (h : s.pending = none) : handlePending s = some (s, true) := by
  unfold handlePending; rw [h]

theorem handlePending_later {s : LL} {r : Raw} {inst : Nat} (h : s.pending = some (r, inst)) (hi : inst ≠ s.counter) :
    handlePending s = some (s, true) := by
  unfold handlePending; rw [h]; simp only [if_neg hi]

theorem handlePending_true {s : LL} {r : Raw} {inst : Nat} (h : s.pending = some (r, inst)) (hi : inst = s.counter)
    (hu : (parseUpdate r).2 = some true) :
    handlePending s
      = some ({ s with tp := (parseUpdate r).1, proc := 0, phase := .changed, pending := none }, true) := by
  unfold handlePending; rw [h]; simp only [if_pos hi]; rw [hu]

theorem handlePending_false {s : LL} {r : Raw} {inst : Nat} (h : s.pending = some (r, inst)) (hi : inst = s.counter)
    (hu : (parseUpdate r).2 = some false) :
    handlePending s = some ({ s with tp := (parseUpdate r).1, proc := 0, pending := none }, false) := by
  unfold handlePending; rw [h]; simp only [if_pos hi]; rw [hu]

-- `handle_pending_ll_control()` + `setup_next_connection_event()` / `force_disconnect()`: the new parameters
-- were accepted by the same check, `time_since_last_event_` is not touched
theorem applyPending_inv (s : LL) (hb : Base s) (hc : CoreOk s.tp s.timeSince s.sca) :
    ∃ s', applyPendingAndSetup s = some s' ∧ Inv s' := by
  unfold applyPendingAndSetup
  cases hp : s.pending with
  | none =>
    rw [handlePending_none hp]
    simp only [Option.bind_eq_bind, Option.bind_some, if_true]
    exact setupNext_inv s hb hc
  | some ri =>
    obtain ⟨r, inst⟩ := ri
    by_cases hi : inst = s.counter
    · rcases parse_total_update r with hu | hu
      · rw [handlePending_true hp hi hu]
        simp only [Option.bind_eq_bind, Option.bind_some, if_true]
        have ht := parseUpdate_ok hu
        refine setupNext_inv _ ⟨hb.own, hb.cnt, ht.bits, z32, hb.ts, hb.win, ?_⟩ ⟨ht, hc.ts, hc.sca⟩
        intro r i h; cases h
      · rw [handlePending_false hp hi hu]
        simp only [Option.bind_eq_bind, Option.bind_some, Bool.false_eq_true, if_false]
        refine ⟨_, rfl, forceDisconnect_inv _ _ ⟨hb.own, hb.cnt, parseUpdate_bits (hb.pend r inst hp), z32, hb.ts, hb.win, ?_⟩⟩
        intro r i h; cases h
    · rw [handlePending_later hp hi]
      simp only [Option.bind_eq_bind, Option.bind_some, if_true]
      exact setupNext_inv s hb hc

-- `adv_received()`: base case of the induction
theorem advReceived_inv (s : LL) (r : Raw) (sca : Nat) (hi : Inv s) (ha : s.phase = .advertising) (hr : r.WF) :
    ∃ s', advReceived s r sca = some s' ∧ Inv s' := by
  unfold advReceived
  have hb := hi.base
  rcases parse_total_connect r with hu | hu
  · rw [hu]
    have ht := parseConnect_ok hu
    have hs := centralSca_le sca
    have ho := hb.own
    refine setupNext_inv _ ⟨hb.own, z16, ht.bits, z32, z32, hb.win, ?_⟩
      ⟨ht, z36, show centralSca sca + s.ownSca ≤ 1000 by omega⟩
    intro r i h; cases h
  · rw [hu]
    refine ⟨_, rfl, ⟨hb.own, hb.cnt, parseConnect_bits hr, hb.proc, hb.ts, hb.win, hb.pend⟩, ?_⟩
    intro h; exact absurd ha h

-- `timeout()`: the supervision test bounds `time_since_last_event_` before an interval is added
theorem timeoutStep_inv (s : LL) (hi : Inv s) (hc : s.phase ≠ .advertising) :
    ∃ s', timeoutStep s = some s' ∧ Inv s' := by
  have hb := hi.base
  obtain ⟨hcore, _⟩ := hi.conn hc
  have hiv := hcore.tp.iv
  have hto := hcore.tp.to
  unfold timeoutStep
  by_cases hp : s.proc ≠ 0 ∧ s.proc ≤ s.timeSince
  · simp only [if_pos hp]
    exact ⟨_, rfl, forceDisconnect_inv _ _ hb⟩
  · simp only [if_neg hp]
    have h5 : dtMul s.tp.interval 5 = some (s.tp.interval * 5) := dtMul_small (by omega)
    have key : s.timeSince < s.tp.timeoutUs →
        ∃ s', ((dtAdd s.timeSince s.tp.interval).bind fun ts' =>
          applyPendingAndSetup { s with counter := (s.counter + 1) % 65536, timeSince := ts' }) = some s' ∧ Inv s' := by
      intro ht
      rw [dtAdd_small (by omega), Option.bind_some]
      exact applyPending_inv _
        ⟨hb.own, Nat.mod_lt _ (by decide), hb.tp, hb.proc, show s.timeSince + s.tp.interval < 4294967296 by omega,
          hb.win, hb.pend⟩
        ⟨hcore.tp, show s.timeSince + s.tp.interval < 36000000 by omega, hcore.sca⟩
    by_cases ht : s.timeSince < s.tp.timeoutUs
    · simp only [if_pos ht]
      by_cases hcon : s.phase = .connecting
      · simp only [if_pos hcon, h5, Option.map_some, Option.bind_eq_bind, Option.bind_some]
        by_cases h6 : s.timeSince ≥ s.tp.interval * 5
        · simp only [h6, decide_true, Bool.not_true, Bool.false_eq_true, if_false]
          exact ⟨_, rfl, forceDisconnect_inv _ _ hb⟩
        · simp only [h6, decide_false, Bool.not_false, if_true]
          exact key ht
      · simp only [if_neg hcon, Option.bind_eq_bind, Option.bind_some, if_true]
        exact key ht
    · simp only [if_neg ht, Option.bind_eq_bind, Option.bind_some, Bool.false_eq_true, if_false]
      exact ⟨_, rfl, forceDisconnect_inv _ _ hb⟩

/-- the part of `end_event()` after `handle_received_data()` -/
def endPlan (s1 : LL) : Option LL :=
  let ts := s1.timeSince
  if s1.proc ≠ 0 ∧ s1.proc ≤ ts then some (forceDisconnect s1 llResponseTimeout)
  else do
    let proc' ← if s1.proc ≠ 0 then dtSub s1.proc ts else some 0
    let l := advance s1.cfg ⟨0, s1.counter, 0, 1⟩ s1.tp.latency quiet (s1.pending.map (·.2))
    let ts' ← dtMul s1.tp.interval l
    applyPendingAndSetup { s1 with proc := proc', counter := (s1.counter + l) % 65536, timeSince := ts' }

-- procedure timer, `plan_next_connection_event()`: at most `latency + 1` intervals, less than half the
-- supervision timeout
theorem endPlan_inv (s1 : LL) (hb : Base s1) (hc : CoreOk s1.tp s1.timeSince s1.sca) :
    ∃ s', endPlan s1 = some s' ∧ Inv s' := by
  unfold endPlan
  by_cases hp : s1.proc ≠ 0 ∧ s1.proc ≤ s1.timeSince
  · simp only [if_pos hp]
    exact ⟨_, rfl, forceDisconnect_inv _ _ hb⟩
  · simp only [if_neg hp]
    have hl := advance_bounds s1.cfg ⟨0, s1.counter, 0, 1⟩ s1.tp.latency (s1.pending.map (·.2)) hc.tp.lat
    generalize advance s1.cfg ⟨0, s1.counter, 0, 1⟩ s1.tp.latency quiet (s1.pending.map (·.2)) = l at hl
    have hiv := hc.tp.iv
    have hto := hc.tp.to
    have hsup := hc.tp.sup
    have hm : s1.tp.interval * l ≤ s1.tp.interval * (s1.tp.latency + 1) := Nat.mul_le_mul_left _ hl.2
    have hm2 : s1.tp.interval * ((s1.tp.latency + 1) * 2) = s1.tp.interval * (s1.tp.latency + 1) * 2 := by
      rw [Nat.mul_assoc]
    have hts : s1.tp.interval * l < 16000000 := by omega
    have hmul : dtMul s1.tp.interval l = some (s1.tp.interval * l) := dtMul_small (by omega)
    have hproc := hb.proc
    have fin : ∀ proc', proc' < 4294967296 →
        ∃ s', ((dtMul s1.tp.interval l).bind fun ts' => applyPendingAndSetup
          { s1 with proc := proc', counter := (s1.counter + l) % 65536, timeSince := ts' }) = some s' ∧ Inv s' := by
      intro proc' hpr
      rw [hmul, Option.bind_some]
      exact applyPending_inv _
        ⟨hb.own, Nat.mod_lt _ (by decide), hb.tp, hpr, show s1.tp.interval * l < 4294967296 by omega, hb.win, hb.pend⟩
        ⟨hc.tp, show s1.tp.interval * l < 36000000 by omega, hc.sca⟩
    by_cases hz : s1.proc ≠ 0
    · simp only [if_pos hz, Option.bind_eq_bind]
      rw [dtSub_small (by omega) hproc, Option.bind_some]
      exact fin _ (by omega)
    · simp only [if_neg hz, Option.bind_eq_bind]
      rw [Option.bind_some]
      exact fin 0 z32

theorem endEvent_eq (s : LL) (upd : Option (Raw × Nat)) :
    endEvent s upd =
      (let s0 : LL := { s with phase := .connected, tp := { s.tp with winSize := 0 } }
       match upd with
       | some (raw, delta) =>
           if s0.pending.isSome then endPlan s0
           else if instantPassed delta ∨ (s0.counter + delta) % 65536 = s0.counter + 1 then
             some (forceDisconnect { s0 with reason := instantPassedReason } instantPassedReason)
           else endPlan { s0 with pending := some (raw, (s0.counter + delta) % 65536) }
       | none => endPlan s0) := by
  unfold endEvent endPlan
  cases upd with
  | none => rfl
  | some rd =>
    obtain ⟨raw, delta⟩ := rd
    dsimp only
    by_cases h1 : s.pending.isSome = true
    · rw [if_pos h1, if_pos h1]; rfl
    · rw [if_neg h1, if_neg h1]
      by_cases h2 : instantPassed delta = true ∨ (s.counter + delta) % 65536 = s.counter + 1
      · rw [if_pos h2, if_pos h2]; rfl
      · rw [if_neg h2, if_neg h2]; rfl

-- `end_event()`: `transmit_window_size_` cleared, an LL_CONNECTION_UPDATE_IND is stored or refused
theorem endEvent_inv (s : LL) (upd : Option (Raw × Nat)) (hi : Inv s) (hc : s.phase ≠ .advertising)
    (hu : ∀ r d, upd = some (r, d) → r.WF) : ∃ s', endEvent s upd = some s' ∧ Inv s' := by
  have hb := hi.base
  obtain ⟨hcore, _⟩ := hi.conn hc
  have ht0 : TpOk { s.tp with winSize := 0 } :=
    ⟨hcore.tp.iv, Nat.zero_le _, hcore.tp.wo, hcore.tp.lat, hcore.tp.to, hcore.tp.sup⟩
  have hbits0 : Tp.Bits { s.tp with winSize := 0 } := ht0.bits
  have hb0 : Base { s with phase := .connected, tp := { s.tp with winSize := 0 } } :=
    ⟨hb.own, hb.cnt, hbits0, hb.proc, hb.ts, hb.win, hb.pend⟩
  rw [endEvent_eq]
  cases upd with
  | none => exact endPlan_inv _ hb0 ⟨ht0, hcore.ts, hcore.sca⟩
  | some rd =>
    obtain ⟨raw, delta⟩ := rd
    dsimp only
    split
    · exact endPlan_inv _ hb0 ⟨ht0, hcore.ts, hcore.sca⟩
    · split
      · exact ⟨_, rfl, forceDisconnect_inv _ _ ⟨hb.own, hb.cnt, hbits0, hb.proc, hb.ts, hb.win, hb.pend⟩⟩
      · refine endPlan_inv _ ⟨hb.own, hb.cnt, hbits0, hb.proc, hb.ts, hb.win, ?_⟩ ⟨ht0, hcore.ts, hcore.sca⟩
        intro r i h
        simp only [Option.some.injEq, Prod.mk.injEq] at h
        rw [← h.1]
        exact hu raw delta rfl

theorem init_inv (cfg : Cfg) (ownSca : Nat) (ho : ownSca ≤ 500) : Inv (init cfg ownSca) := by
  refine ⟨⟨ho, z16, ⟨z32, z32, z32, z16, z32⟩, z32, z32, ⟨z32, z32, z32⟩, ?_⟩, ?_⟩
  · intro r i h; cases h
  · intro h; exact absurd rfl h

theorem step_inv (s : LL) (o : Op) (hi : Inv s) (ho : o.WF) : ∃ s', step s o = some s' ∧ Inv s' := by
  cases o with
  | connect r sca =>
    simp only [step]
    by_cases h : s.phase = .advertising ∧ s.advSched
    · rw [if_pos h]; exact advReceived_inv s r sca hi h.1 ho
    · rw [if_neg h]; exact ⟨s, rfl, hi⟩
  | ev =>
    simp only [step]
    by_cases h : s.phase ≠ .advertising
    · rw [if_pos h]; exact endEvent_inv s none hi h (fun r d e => by cases e)
    · rw [if_neg h]; exact ⟨s, rfl, hi⟩
  | upd r d =>
    simp only [step]
    by_cases h : s.phase ≠ .advertising ∧ s.pending.isNone
    · rw [if_pos h]
      refine endEvent_inv s (some (r, d)) hi h.1 (fun r' d' e => ?_)
      simp only [Option.some.injEq, Prod.mk.injEq] at e
      rw [← e.1]; exact ho
    · rw [if_neg h]; exact ⟨s, rfl, hi⟩
  | lost =>
    simp only [step]
    by_cases h : s.phase ≠ .advertising
    · rw [if_pos h]; exact timeoutStep_inv s hi h
    · rw [if_neg h]; exact ⟨s, rfl, hi⟩
  | setProc u =>
    simp only [step]
    by_cases h : s.phase ≠ .advertising
    · rw [if_pos h]
      have hb := hi.base
      refine ⟨_, rfl, ⟨hb.own, hb.cnt, hb.tp, ho, hb.ts, hb.win, hb.pend⟩, fun hc => ?_⟩
      obtain ⟨c, p⟩ := hi.conn hc
      exact ⟨⟨c.tp, c.ts, c.sca⟩, ⟨p.eq, p.iv, p.le, p.lt, p.exact⟩⟩
    · rw [if_neg h]; exact ⟨s, rfl, hi⟩

theorem run_inv (ops : List Op) (s : LL) (hi : Inv s) (hw : ∀ o ∈ ops, o.WF) :
    ∃ s', run s ops = some s' ∧ Inv s' := by
  induction ops generalizing s with
  | nil => exact ⟨s, rfl, hi⟩
  | cons o os ih =>
    obtain ⟨s1, h1, i1⟩ := step_inv s o hi (hw o (List.mem_cons_self))
    obtain ⟨s2, h2, i2⟩ := ih s1 i1 (fun o' ho' => hw o' (List.mem_cons_of_mem _ ho'))
    refine ⟨s2, ?_, i2⟩
    simp only [run]
    rw [h1, Option.bind_some]
    exact h2

end BluetoeModel.Timing
