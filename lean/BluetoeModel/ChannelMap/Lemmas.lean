import BluetoeModel.ChannelMap.Model
/-! helper lemmas for C20 -/
namespace BluetoeModel.ChannelMap

theorem and_shift_ne_zero (b k : Nat) : ((b &&& (1 <<< k)) != 0) = b.testBit k := by
  rw [Nat.one_shiftLeft]
  cases h : b.testBit k
  · have : b &&& 2 ^ k = 0 := by
      apply Nat.eq_of_testBit_eq; intro i
      simp only [Nat.testBit_and, Nat.testBit_two_pow, Nat.zero_testBit]
      by_cases hi : k = i
      · subst hi; simp [h]
      · simp [hi]
    simp [this]
  · have h1 : (b &&& 2 ^ k).testBit k = true := by
      simp [Nat.testBit_and, h]
    have : b &&& 2 ^ k ≠ 0 := by
      intro e; rw [e] at h1; simp at h1
    simp [this]

/-- a 5 byte map is never read out of bounds for channel numbers below 40, and the code's bit
    test is the specification's "bit c%8 of byte c/8" -/
theorem inMap?_eq (map : List UInt8) (hl : map.length = 5) (c : Nat) (hc : c < 40) :
    inMap? map c = some (chanUsed map c) := by
  have hlt : c / 8 < map.length := by omega
  simp only [inMap?, chanUsed, List.getElem?_eq_getElem hlt, Option.map_some, and_shift_ne_zero]

theorem buildUsedAux_eq (map : List UInt8) (hl : map.length = 5) (l : List Nat)
    (h : ∀ c ∈ l, c < 40) : buildUsedAux map l = some (l.filter (chanUsed map)) := by
  induction l with
  | nil => rfl
  | cons c cs ih =>
    have hc : c < 40 := h c (List.mem_cons_self)
    have ih' := ih (fun x hx => h x (List.mem_cons_of_mem _ hx))
    simp only [buildUsedAux, inMap?_eq map hl c hc, ih', List.filter_cons]
    cases chanUsed map c <;> rfl

theorem buildUsed_eq (map : List UInt8) (hl : map.length = 5) :
    buildUsed map = some (remapTable (chanUsed map)) := by
  unfold buildUsed remapTable
  apply buildUsedAux_eq map hl
  intro c hc
  have := List.mem_range.mp hc
  simp only [numChannels] at this; omega

/-- the code's choice for an unmapped channel `u` -/
def pick (used : Nat → Bool) (u : Nat) : Option Nat :=
  if used u then some u
  else if (remapTable used).length = 0 then none
  else (remapTable used)[u % (remapTable used).length]?

theorem csa1_eq_pick (used : Nat → Bool) (hop n : Nat) : csa1 used hop n = pick used (unmapped hop n) := rfl

theorem pick_isSome (used : Nat → Bool) (u : Nat) (h : 0 < (remapTable used).length) :
    ∃ c, pick used u = some c := by
  unfold pick
  by_cases hu : used u = true
  · exact ⟨u, by simp [hu]⟩
  · have hlt : u % (remapTable used).length < (remapTable used).length := Nat.mod_lt _ h
    refine ⟨(remapTable used)[u % (remapTable used).length], ?_⟩
    have h0 : (remapTable used).length ≠ 0 := by omega
    simp [hu, h0, List.getElem?_eq_getElem hlt]

theorem fill_spec (map : List UInt8) (hl : map.length = 5) (hop : Nat)
    (hlen : 0 < (remapTable (chanUsed map)).length) :
    ∀ (k ch : Nat), ch < 37 →
      ∃ t, fill map (remapTable (chanUsed map)) hop k ch = some t ∧ t.length = k ∧
        ∀ j, j < k → t[j]? = pick (chanUsed map) ((ch + j * hop) % 37) := by
  intro k
  induction k with
  | zero => intro ch _; exact ⟨[], rfl, rfl, fun j hj => by omega⟩
  | succ k ih =>
    intro ch hch
    obtain ⟨t, ht, htl, hti⟩ := ih ((ch + hop) % 37) (Nat.mod_lt _ (by omega))
    obtain ⟨e, he⟩ := pick_isSome (chanUsed map) ch hlen
    refine ⟨e :: t, ?_, by simp [htl], ?_⟩
    · have he' : (if chanUsed map ch = true then some ch
          else if (remapTable (chanUsed map)).length = 0 then none
          else (remapTable (chanUsed map))[ch % (remapTable (chanUsed map)).length]?) = some e := he
      simp only [fill, inMap?_eq map hl ch (by omega), numChannels, ht]
      simp only [Option.bind_eq_bind, Option.bind_some]
      by_cases hu : chanUsed map ch = true
      · simp only [hu, if_true] at he' ⊢
        cases he'; rfl
      · simp only [hu] at he' ⊢
        simp only [Bool.false_eq_true, if_false] at he' ⊢
        rw [he']; rfl
    · intro j hj
      cases j with
      | zero =>
        simp only [List.getElem?_cons_zero, Nat.zero_mul, Nat.add_zero, Nat.mod_eq_of_lt hch, he]
      | succ j =>
        simp only [List.getElem?_cons_succ]
        rw [hti j (by omega)]
        congr 1
        rw [Nat.succ_mul]
        omega

theorem unmapped_eq (hop n : Nat) : unmapped hop n = ((n + 1) * hop) % 37 := by
  induction n with
  | zero => simp [unmapped]
  | succ n ih =>
    simp only [unmapped, ih]
    rw [Nat.add_mul (n + 1) 1 hop, Nat.one_mul]
    omega

theorem index_mod (hop n : Nat) : (hop + (n % 37) * hop) % 37 = ((n + 1) * hop) % 37 := by
  rw [Nat.add_mul, Nat.one_mul, Nat.add_comm, Nat.add_mod, Nat.mod_mul_mod, ← Nat.add_mod]

end BluetoeModel.ChannelMap
