import BluetoeModel.ChannelMap.Lemmas
/-!
  # C20 — Data channel selection follows Channel Selection Algorithm #1

  "For every channel map with at least two used channels, every hop increment 5..16 and every
  connection event counter, the data channel used equals the Core specification's Channel
  Selection Algorithm #1 result; connection requests and channel map updates with fewer than two
  used channels or an invalid hop are not applied."

  `csa1` (Model.lean) is the Core text: the recursion `unmapped (n+1) = (unmapped n + hop) mod 37`
  starting from `lastUnmappedChannel = 0`, and the remapping through the ascending table of used
  channels.  The code instead precomputes a 37 entry table that is indexed with the running channel
  index (`event number mod 37`, see C23 `counter_channel_in_step`).  The theorems hold for **every**
  5 byte map (all 2^40 byte patterns, bits 37..39 are ignored), every hop and every event number.
-/
namespace BluetoeModel.ChannelMap

/-- numUsedChannels of a 5 byte channel map -/
def usedCount (map : List UInt8) : Nat := (remapTable (chanUsed map)).length

/-! ### the specification is what the Core text says -/

/-- the remapping table is strictly ascending … -/
theorem remapTable_ascending (used : Nat → Bool) : (remapTable used).Pairwise (· < ·) :=
  List.Pairwise.filter _ List.pairwise_lt_range

/-- … and contains exactly the used channels 0..36 -/
theorem mem_remapTable (used : Nat → Bool) (c : Nat) : c ∈ remapTable used ↔ c < 37 ∧ used c = true := by
  simp [remapTable, List.mem_filter, List.mem_range]

/-- CSA#1 always selects a used data channel (when there is one) -/
theorem csa1_selects_used (used : Nat → Bool) (hop n : Nat) (h : 0 < (remapTable used).length) :
    ∃ c, csa1 used hop n = some c ∧ c < 37 ∧ used c = true := by
  have hu : unmapped hop n < 37 := by rw [unmapped_eq]; exact Nat.mod_lt _ (by omega)
  unfold csa1
  by_cases hx : used (unmapped hop n) = true
  · exact ⟨_, by simp [hx], hu, hx⟩
  · have hlt : unmapped hop n % (remapTable used).length < (remapTable used).length := Nat.mod_lt _ h
    have h0 : (remapTable used).length ≠ 0 := by omega
    refine ⟨(remapTable used)[unmapped hop n % (remapTable used).length], ?_, ?_⟩
    · simp [hx, h0, List.getElem?_eq_getElem hlt]
    · exact (mem_remapTable used _).mp (List.getElem_mem hlt)

/-! ### the code -/

/-- **C20, first sentence.** For every state, every 5 byte channel map with at least two used
    channels and every hop 5..16, `reset` succeeds and afterwards, for every connection event
    number `n` (unbounded), the table entry at the channel index `n mod 37` is the CSA#1 channel. -/
theorem data_channel_eq_csa1 (s : State) (map : List UInt8) (hop : Nat)
    (hl : map.length = 5) (hu : 2 ≤ usedCount map) (h5 : 5 ≤ hop) (h16 : hop ≤ 16) :
    ∃ s', reset s map hop = .ok s' ∧ s'.hop = hop ∧
      ∀ n, dataChannel s' (n % 37) = csa1 (chanUsed map) hop n := by
  have hlen : 0 < (remapTable (chanUsed map)).length := by unfold usedCount at hu; omega
  obtain ⟨t, ht, htl, hti⟩ := fill_spec map hl hop hlen 37 hop (by omega)
  refine ⟨{ table := some t, hop := hop }, ?_, rfl, ?_⟩
  · have hn : ¬ (hop < 5 ∨ hop > 16) := by omega
    have hu' : ¬ (remapTable (chanUsed map)).length < 2 := by unfold usedCount at hu; omega
    simp only [reset, hn, if_false, buildUsed_eq map hl, hu', numChannels, ht]
  · intro n
    have hn : n % 37 < 37 := Nat.mod_lt _ (by omega)
    simp only [dataChannel, numChannels, hn, if_true, Option.bind_some]
    rw [hti (n % 37) hn, csa1_eq_pick, unmapped_eq, index_mod]

/-- the same for a channel map update (`reset( map )` keeps the hop of the connection) -/
theorem update_eq_csa1 (s : State) (map : List UInt8)
    (hl : map.length = 5) (hu : 2 ≤ usedCount map) (h5 : 5 ≤ s.hop) (h16 : s.hop ≤ 16) :
    ∃ s', resetMap s map = .ok s' ∧ s'.hop = s.hop ∧
      ∀ n, dataChannel s' (n % 37) = csa1 (chanUsed map) s.hop n :=
  data_channel_eq_csa1 s map s.hop hl hu h5 h16

example : (2 ≤ usedCount [0x03, 0, 0, 0, 0]) ∧ (2 ≤ usedCount [0xff, 0xff, 0xff, 0xff, 0x1f]) := by decide
/-- non-vacuity and a spot value: map {0,1}, hop 5: events 0.. use channels 1,0,1,0,1,0,1,0 -/
example : (List.range 8).map (fun n => dataChannel ((reset init [0x03, 0, 0, 0, 0] 5).state init) (n % 37))
    = [some 1, some 0, some 1, some 0, some 1, some 0, some 1, some 1] := by decide

/-- **C20, second sentence.** A connect request / update with fewer than two used channels or a
    hop outside 5..16 returns `false` and leaves the table (every `data_channel(i)`) unchanged. -/
theorem reset_rejects (s : State) (map : List UInt8) (hop : Nat) (hl : map.length = 5)
    (h : usedCount map < 2 ∨ hop < 5 ∨ 16 < hop) :
    ∃ s', reset s map hop = .rejected s' ∧ s'.table = s.table ∧
      ∀ i, dataChannel s' i = dataChannel s i := by
  by_cases hn : hop < 5 ∨ hop > 16
  · exact ⟨s, by simp [reset, hn], rfl, fun _ => rfl⟩
  · have hu : (remapTable (chanUsed map)).length < 2 := by
      unfold usedCount at h; omega
    exact ⟨{ s with hop := hop }, by simp [reset, hn, buildUsed_eq map hl, hu], rfl, fun _ => rfl⟩

/-- a rejected channel map update (`reset( map )`) leaves the whole object unchanged -/
theorem update_rejects (s : State) (map : List UInt8) (hl : map.length = 5)
    (h : usedCount map < 2 ∨ s.hop < 5 ∨ 16 < s.hop) : resetMap s map = .rejected s := by
  obtain ⟨s', h1, h2, _⟩ := reset_rejects s map s.hop hl h
  rw [resetMap, h1]
  congr 1
  by_cases hn : s.hop < 5 ∨ s.hop > 16
  · simp [reset, hn] at h1; exact h1.symm
  · have hu : (remapTable (chanUsed map)).length < 2 := by unfold usedCount at h; omega
    simp [reset, hn, buildUsed_eq map hl, hu] at h1; exact h1.symm

example : usedCount [0x01, 0, 0, 0, 0] < 2 := by decide

/-- `reset` accepts exactly the valid parameters -/
theorem reset_ok_iff (s : State) (map : List UInt8) (hop : Nat) (hl : map.length = 5) :
    (∃ s', reset s map hop = .ok s') ↔ (2 ≤ usedCount map ∧ 5 ≤ hop ∧ hop ≤ 16) := by
  constructor
  · intro ⟨s', h⟩
    by_cases hv : usedCount map < 2 ∨ hop < 5 ∨ 16 < hop
    · obtain ⟨s'', h', _⟩ := reset_rejects s map hop hl hv
      rw [h'] at h; cases h
    · omega
  · intro ⟨h1, h2, h3⟩
    obtain ⟨s', h, _⟩ := data_channel_eq_csa1 s map hop hl h1 h2 h3
    exact ⟨s', h⟩

/-- memory safety of the model: with a 5 byte map neither `map[]` nor `used_channels[]` is ever
    indexed out of bounds (the harness side of this claim is ASan) -/
theorem reset_never_oob (s : State) (map : List UInt8) (hop : Nat) (hl : map.length = 5) :
    reset s map hop ≠ .oob := by
  by_cases hv : usedCount map < 2 ∨ hop < 5 ∨ 16 < hop
  · obtain ⟨s', h, _⟩ := reset_rejects s map hop hl hv
    rw [h]; intro e; cases e
  · obtain ⟨s', h, _⟩ := data_channel_eq_csa1 s map hop hl (by omega) (by omega) (by omega)
    rw [h]; intro e; cases e

/-- class level remark (not reachable through `link_layer<>`, which calls `reset( map )` only
    on an established connection, i.e. after an accepted `reset( map, hop )`): a rejected
    `reset( map, hop )` with a valid hop but a bad map does overwrite `hop_`. -/
theorem rejected_reset_may_change_hop :
    reset { table := none, hop := 5 } [0x01, 0, 0, 0, 0] 7 = .rejected { table := none, hop := 7 } := by
  decide

/-! ### histories, as `link_layer<>` uses the class
  `connect map hop` = CONNECT_IND (`adv_received`: `channels_.reset( &body[28], body[33] & 0x1f )`),
  `update map` = LL_CHANNEL_MAP_IND at its instant (`handle_pending_ll_control`:
  `channels_.reset( &body[1] )`, result ignored).  An update can only happen on an established
  connection, i.e. when the latest connect was accepted. -/

inductive Op where
  | connect (map : List UInt8) (hop : Nat)
  | update (map : List UInt8)
deriving Repr, DecidableEq

def step (s : State) : Op → Res
  | .connect m h => reset s m h
  | .update m => resetMap s m

/-- the specification's state: the parameters of the current connection, if there is one -/
abbrev Conn := Option (List UInt8 × Nat)

def valid (m : List UInt8) (h : Nat) : Bool := decide (2 ≤ usedCount m) && decide (5 ≤ h) && decide (h ≤ 16)

def Conn.step : Conn → Op → Conn
  | _, .connect m h => if valid m h then some (m, h) else none   -- invalid: no connection is created
  | some (m0, h0), .update m => if valid m h0 then some (m, h0) else some (m0, h0)  -- invalid: not applied
  | none, .update _ => none

/-- updates only occur while connected; all maps are 5 bytes -/
def legal : Conn → List Op → Prop
  | _, [] => True
  | c, op :: ops =>
      (match op with
       | .connect m _ => m.length = 5
       | .update m => m.length = 5 ∧ c ≠ none) ∧ legal (c.step op) ops

def run (s : State) : List Op → State
  | [] => s
  | op :: ops => run ((step s op).state s) ops

def Conn.run (c : Conn) : List Op → Conn
  | [] => c
  | op :: ops => Conn.run (c.step op) ops

/-- the channel table in effect is that of the connection's current (last accepted) parameters -/
def Agrees (s : State) : Conn → Prop
  | none => True
  | some (m, h) => s.hop = h ∧ 5 ≤ h ∧ h ≤ 16 ∧ m.length = 5 ∧ 2 ≤ usedCount m ∧
      ∀ n, dataChannel s (n % 37) = csa1 (chanUsed m) h n

theorem step_agrees (s : State) (c : Conn) (op : Op) (ha : Agrees s c)
    (hl : match op with | .connect m _ => m.length = 5 | .update m => m.length = 5 ∧ c ≠ none) :
    Agrees ((step s op).state s) (c.step op) := by
  cases op with
  | connect m h =>
    simp only [step, Conn.step]
    by_cases hv : valid m h = true
    · simp only [valid, Bool.and_eq_true, decide_eq_true_eq] at hv
      obtain ⟨s', h1, h2, h3⟩ := data_channel_eq_csa1 s m h hl hv.1.1 hv.1.2 hv.2
      simp only [valid, hv, decide_true, Bool.and_self, if_true, h1, Res.state]
      exact ⟨h2, hv.1.2, hv.2, hl, hv.1.1, h3⟩
    · simp only [hv]; trivial
  | update m =>
    obtain ⟨hl5, hc⟩ := hl
    match c, ha, hc with
    | some (m0, h0), ha, _ =>
      obtain ⟨e, h5, h16, hl0, hu0, hd⟩ := ha
      simp only [step, Conn.step]
      by_cases hv : valid m h0 = true
      · simp only [valid, Bool.and_eq_true, decide_eq_true_eq] at hv
        obtain ⟨s', h1, h2, h3⟩ := update_eq_csa1 s m hl5 hv.1.1 (by omega) (by omega)
        simp only [valid, hv, decide_true, Bool.and_self, if_true, h1, Res.state]
        exact ⟨by omega, h5, h16, hl5, hv.1.1, by rw [e] at h3; exact h3⟩
      · have hr : resetMap s m = .rejected s := by
          apply update_rejects s m hl5
          simp only [valid, Bool.and_eq_true, decide_eq_true_eq] at hv
          omega
        simp only [hv, hr, Res.state]
        exact ⟨e, h5, h16, hl0, hu0, hd⟩

/-- **C20 for histories.** For every sequence of connect requests and channel map updates (valid
    or not) as the link layer issues them, starting from any state: if a connection exists at the
    end, its data channels are the CSA#1 channels of the last *accepted* map and of the hop of the
    accepted connect request — rejected requests had no effect. -/
theorem history_follows_csa1 (s : State) (c : Conn) (ops : List Op) (ha : Agrees s c)
    (hl : legal c ops) : Agrees (run s ops) (c.run ops) := by
  induction ops generalizing s c with
  | nil => exact ha
  | cons op ops ih =>
    obtain ⟨h1, h2⟩ := hl
    exact ih _ _ (step_agrees s c op ha h1) h2

/-- non-vacuity: connect, bad update (1 channel), rejected connect, connect, update -/
example : legal none [.connect [0xff,0,0,0,0] 7, .update [1,0,0,0,0], .connect [3,0,0,0,0] 4,
    .connect [0,0xf0,0,0,0] 16, .update [0,0,0xff,0,0]] ∧
    Conn.run none [.connect [0xff,0,0,0,0] 7, .update [1,0,0,0,0], .connect [3,0,0,0,0] 4,
    .connect [0,0xf0,0,0,0] 16, .update [0,0,0xff,0,0]] = some ([0,0,0xff,0,0], 16) := by
  refine ⟨?_, by decide⟩
  simp [legal, Conn.step, valid, usedCount]
  decide

end BluetoeModel.ChannelMap
