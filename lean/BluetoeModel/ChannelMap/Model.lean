/-
  Model of `bluetoe::link_layer::channel_map`.
  src: bluetoe/link_layer/channel_map.cpp, bluetoe/link_layer/include/bluetoe/channel_map.hpp

  The channel map (`ChM`, 5 bytes as received in CONNECT_IND / LL_CHANNEL_MAP_IND) is a
  `List UInt8`; every read of it is bounds checked (`none` = the C++ would read behind the 5 bytes).
-/
namespace BluetoeModel.ChannelMap

/-- `channel_map::max_number_of_data_channels` -/
abbrev numChannels : Nat := 37

/-- `map_` is not initialised by the constructor: `table = none` until the first successful
    `reset`; afterwards it always has 37 entries.  `hop` is `hop_` (`std::uint8_t`). -/
structure State where
  table : Option (List Nat)
  hop   : Nat
deriving Repr, DecidableEq

-- src: channel_map::channel_map()
def init : State := { table := none, hop := 0 }

-- src: channel_map.cpp:in_map   `map[ index / 8 ] & ( 1 << ( index % 8 ) )`
def inMap? (map : List UInt8) (index : Nat) : Option Bool :=
  (map[index / 8]?).map fun b => (b.toNat &&& (1 <<< (index % 8))) != 0

-- src: channel_map::build_used_channel_map  (channels 0..36 in ascending order that are in the map)
def buildUsedAux (map : List UInt8) : List Nat → Option (List Nat)
  | [] => some []
  | c :: cs => do
      let b ← inMap? map c
      let r ← buildUsedAux map cs
      pure (if b then c :: r else r)

def buildUsed (map : List UInt8) : Option (List Nat) :=
  buildUsedAux map (List.range numChannels)

/-- the body of the `for ( index = 0, channel = hop; index != 37; ++index )` loop of `reset`,
    `k` iterations left, current value of `channel` is `ch`; returns `map_[37-k ..]`.
    `used[ ch % used.length ]` out of bounds (or the division by 0) is `none`. -/
-- src: channel_map::reset (loop)
def fill (map : List UInt8) (used : List Nat) (hop : Nat) : Nat → Nat → Option (List Nat)
  | 0, _ => some []
  | k + 1, ch => do
      let b ← inMap? map ch
      let e ← if b then some ch else (if used.length = 0 then none else used[ch % used.length]?)
      let rest ← fill map used hop k ((ch + hop) % numChannels)
      pure (e :: rest)

inductive Res where
  | oob                       -- the C++ would read outside `map[0..5)` / `used_channels[0..count)`
  | rejected (s : State)      -- `return false`
  | ok (s : State)            -- `return true`
deriving Repr, DecidableEq

-- src: channel_map::reset( const std::uint8_t* map, const unsigned hop )
def reset (s : State) (map : List UInt8) (hop : Nat) : Res :=
  if hop < 5 ∨ hop > 16 then .rejected s
  else
    let s1 : State := { s with hop := hop }        -- `hop_ = hop;` happens before the map is checked
    match buildUsed map with
    | none => .oob
    | some used =>
      if used.length < 2 then .rejected s1
      else match fill map used hop numChannels hop with
        | none => .oob
        | some t => .ok { s1 with table := some t }

-- src: channel_map::reset( const std::uint8_t* map )
def resetMap (s : State) (map : List UInt8) : Res := reset s map s.hop

/-- `none` = assertion `index < 37` fails or `map_` was never written -/
-- src: channel_map::data_channel
def dataChannel (s : State) (index : Nat) : Option Nat :=
  if index < numChannels then s.table.bind (·[index]?) else none

def Res.state (s : State) : Res → State
  | .oob => s
  | .rejected s' => s'
  | .ok s' => s'

/-! ### Specification: Channel Selection Algorithm #1 (Core spec Vol 6, Part B, 4.5.8.2)

  "unmappedChannel = (lastUnmappedChannel + hopIncrement) mod 37 … lastUnmappedChannel shall be 0
  for the first connection event of a connection … If the unmappedChannel is the channel index of
  a used channel according to the channel map, it shall be used as the data channel index.  If
  not, … remappingIndex = unmappedChannel mod numUsedChannels … a remapping table containing all
  the used channels in ascending order, indexed from zero; the remappingIndex is then used to
  select the data channel index from the remapping table."

  The set of used channels is an arbitrary predicate `used : Nat → Bool` on 0..36. -/

/-- unmappedChannel of connection event number `n` (`n = 0`: first event of the connection) -/
def unmapped (hop : Nat) : Nat → Nat
  | 0 => (0 + hop) % 37
  | n + 1 => (unmapped hop n + hop) % 37

/-- the remapping table: all used channels in ascending order -/
def remapTable (used : Nat → Bool) : List Nat := (List.range 37).filter used

/-- data channel index of connection event number `n`; `none` only if there is no used channel -/
def csa1 (used : Nat → Bool) (hop n : Nat) : Option Nat :=
  let u := unmapped hop n
  if used u then some u
  else if (remapTable used).length = 0 then none
  else (remapTable used)[u % (remapTable used).length]?

/-- ChM: "the LSB [of the first byte] represents data channel index 0 … bit 36 index 36":
    channel `c` is bit `c % 8` of byte `c / 8` -/
def chanUsed (map : List UInt8) (c : Nat) : Bool :=
  match map[c / 8]? with
  | some b => b.toNat.testBit (c % 8)
  | none => false

end BluetoeModel.ChannelMap
