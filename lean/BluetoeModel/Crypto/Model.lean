/-
  C37 — executable model of bluetoe/bindings/nordic/nrf52/security_tool_box.cpp.

  Every 128-bit value of the toolbox is a `std::array<uint8_t,16>` holding the value **least
  significant byte first**; the model keeps exactly that representation (`Bytes = List UInt8` in
  memory order). The AES hardware (NRF_ECB) is the parameter `E : Cipher`, `E key block` with key
  and block most significant octet first (FIPS-197 / ECB data structure order).

  Pointer reads (`const std::uint8_t*` arguments and the local message buffers) go through `rd16`,
  buffer writes through `writeAt`; both return `none` where the C++ would leave the buffer.  The
  property theorems show that `none` is never produced for arguments of the documented sizes.
-/
namespace BluetoeModel.Crypto

abbrev Bytes := List UInt8

/-- `E key block`: the block cipher of the ECB peripheral, octets most significant first -/
abbrev Cipher := Bytes → Bytes → Bytes

/-- read 16 bytes at `buf + off`; `none`: out of bounds -/
def rd16 (buf : Bytes) (off : Nat) : Option Bytes :=
  if off + 16 ≤ buf.length then some ((buf.drop off).take 16) else none

/-- `std::copy( d.begin(), d.end(), &buf[ off ] )`; `none`: out of bounds -/
def writeAt (buf : Bytes) (off : Nat) (d : Bytes) : Option Bytes :=
  if off + d.length ≤ buf.length then some (buf.take off ++ d ++ buf.drop (off + d.length)) else none

/-- little endian value -/
def leNat : Bytes → Nat
  | [] => 0
  | b :: bs => b.toNat + 256 * leNat bs

/-- src: security_tool_box.cpp:aes_le — key and data are copied byte-reversed into the ECB data
    structure, the cipher text is copied byte-reversed into the result -/
def aesLe (E : Cipher) (key data : Bytes) : Bytes := (E key.reverse data.reverse).reverse

/-- src: security_tool_box.cpp:xor_ -/
def xor (a b : Bytes) : Bytes := List.zipWith (· ^^^ ·) a b

/-- src: security_tool_box.cpp:left_shift — loop body, `overflow` carried from index i to i+1 -/
def leftShiftAux (overflow : UInt8) : Bytes → Bytes
  | [] => []
  | x :: xs => ((x <<< 1) ||| overflow) :: leftShiftAux (if x &&& 0x80 != 0 then 1 else 0) xs

/-- src: security_tool_box.cpp:left_shift -/
def leftShift (input : Bytes) : Bytes := leftShiftAux 0 input

/-- `const uint128_t zero = {{ 0x00 }};` -/
def zero16 : Bytes := List.replicate 16 0

/-- `const uint128_t C = {{ 0x87 }};` — 0x87 at index 0 (least significant byte) -/
def constC : Bytes := 0x87 :: List.replicate 15 0

/-- `( k.back() & 0x80 ) != 0`; an empty array has no `back()` — never happens for cipher output -/
def backMsb (k : Bytes) : Bool :=
  match k.getLast? with
  | some x => x &&& 0x80 != 0
  | none => false

/-- src: security_tool_box.cpp:aes_cmac_k1_subkey_generation -/
def k1 (E : Cipher) (key : Bytes) : Bytes :=
  let k0 := aesLe E key zero16
  if !backMsb k0 then leftShift k0 else xor (leftShift k0) constC

/-- src: security_tool_box.cpp:aes_cmac_k2_subkey_generation -/
def k2 (E : Cipher) (key : Bytes) : Bytes :=
  let k1v := k1 E key
  if !backMsb k1v then leftShift k1v else xor (leftShift k1v) constC

/-- src: security_tool_box.cpp:security_tool_box::c1 -/
def c1 (E : Cipher) (tempKey rand p1 p2 : Bytes) : Bytes :=
  let p1' := aesLe E tempKey (xor rand p1)
  aesLe E tempKey (xor p1' p2)

/-- src: security_tool_box.cpp:security_tool_box::s1 — `r[8..16) = srand[0..8)`, `r[0..8) = mrand[0..8)` -/
def s1 (E : Cipher) (tempKey srand mrand : Bytes) : Bytes :=
  aesLe E tempKey (mrand.take 8 ++ srand.take 8)

/-- src: security_tool_box.cpp:security_tool_box::f4 — `u`, `v`: pointers to 32 bytes -/
def f4 (E : Cipher) (u v k : Bytes) (z : UInt8) : Option Bytes := do
  let m4 : Bytes := List.replicate 14 0 ++ [0x80, z]
  let u1 ← rd16 u 16
  let t0 := aesLe E k u1
  let u0 ← rd16 u 0
  let t1 := aesLe E k (xor t0 u0)
  let v1 ← rd16 v 16
  let t2 := aesLe E k (xor t1 v1)
  let v0 ← rd16 v 0
  let t3 := aesLe E k (xor t2 v0)
  pure (aesLe E k (xor t3 (xor (k2 E k) m4)))

/-- src: security_tool_box.cpp:f5_cmac — `buffer`: pointer to 64 bytes, blocks in reverse order -/
def f5cmac (E : Cipher) (key buffer : Bytes) : Option Bytes := do
  let m0 ← rd16 buffer 48
  let m1 ← rd16 buffer 32
  let m2 ← rd16 buffer 16
  let m3 ← rd16 buffer 0
  let t0 := aesLe E key m0
  let t1 := aesLe E key (xor t0 m1)
  let t2 := aesLe E key (xor t1 m2)
  pure (aesLe E key (xor t2 (xor (k2 E key) m3)))

/-- `salt` of f5_key, in memory order -/
def f5salt : Bytes :=
  [0xBE, 0x83, 0x60, 0x5A, 0xDB, 0x0B, 0x37, 0x60, 0x38, 0xA5, 0xF5, 0xAA, 0x91, 0x83, 0x88, 0x6C]

/-- src: security_tool_box.cpp:f5_key — `dh_key`: 32 bytes -/
def f5key (E : Cipher) (dhKey : Bytes) : Option Bytes := do
  let d1 ← rd16 dhKey 16
  let t0 := aesLe E f5salt d1
  let d0 ← rd16 dhKey 0
  pure (aesLe E f5salt (xor t0 (xor (k1 E f5salt) d0)))

/-- `addr.is_random() ? 1 : 0` -/
def flag (random : Bool) : UInt8 := if random then 1 else 0

/-- src: security_tool_box.cpp:security_tool_box::f5 — the statements filling `buffer[ 64 ]`
    (all 4 blocks in reverse order); a device address is its 6 bytes (memory order) and the
    random flag -/
def f5buffer (nonceCentral noncePeripheral : Bytes)
    (addrC : Bytes) (randC : Bool) (addrP : Bytes) (randP : Bool) : Option Bytes := do
  let buffer : Bytes := List.replicate 64 0
  let buffer ← writeAt buffer (11 + 48) [0x65, 0x6c, 0x74, 0x62]
  let buffer ← writeAt buffer 10 [0x80, 0x00, 0x01]
  let buffer ← writeAt buffer (32 + 11) nonceCentral
  let buffer ← writeAt buffer (16 + 11) noncePeripheral
  let buffer ← writeAt buffer (16 + 10) [flag randC]
  let buffer ← writeAt buffer (16 + 4) addrC
  let buffer ← writeAt buffer (16 + 3) [flag randP]
  writeAt buffer 13 addrP

/-- src: security_tool_box.cpp:security_tool_box::f5. Result: (mac_key, ltk). -/
def f5 (E : Cipher) (dhKey nonceCentral noncePeripheral : Bytes)
    (addrC : Bytes) (randC : Bool) (addrP : Bytes) (randP : Bool) : Option (Bytes × Bytes) := do
  let buffer ← f5buffer nonceCentral noncePeripheral addrC randC addrP randP
  let key ← f5key E dhKey
  let macKey ← f5cmac E key buffer
  let buffer ← writeAt buffer (15 + 48) [1]
  let ltk ← f5cmac E key buffer
  pure (macKey, ltk)

/-- src: security_tool_box.cpp:security_tool_box::f6 — the statements filling `m4_m3[ 32 ]` -/
def f6buffer (ioCaps : Bytes) (addrC : Bytes) (randC : Bool) (addrP : Bytes) (randP : Bool) :
    Option Bytes := do
  let m : Bytes := List.replicate 32 0
  let m ← writeAt m (16 + 13) ioCaps
  let m ← writeAt m (16 + 12) [flag randC]
  let m ← writeAt m 22 addrC
  let m ← writeAt m (16 + 5) [flag randP]
  let m ← writeAt m 15 addrP
  writeAt m 14 [0x80]

/-- src: security_tool_box.cpp:security_tool_box::f6 -/
def f6 (E : Cipher) (key n1 n2 r ioCaps : Bytes)
    (addrC : Bytes) (randC : Bool) (addrP : Bytes) (randP : Bool) : Option Bytes := do
  let m ← f6buffer ioCaps addrC randC addrP randP
  let m3 ← rd16 m 16
  let m4 ← rd16 m 0
  let t0 := aesLe E key n1
  let t1 := aesLe E key (xor t0 n2)
  let t2 := aesLe E key (xor t1 r)
  let t3 := aesLe E key (xor t2 m3)
  pure (aesLe E key (xor t3 (xor (k2 E key) m4)))

/-- src: security_tool_box.cpp:security_tool_box::g2 — result `read_32bit( t4.begin() )` -/
def g2 (E : Cipher) (u v x y : Bytes) : Option Nat := do
  let u1 ← rd16 u 16
  let t0 := aesLe E x u1
  let u0 ← rd16 u 0
  let t1 := aesLe E x (xor t0 u0)
  let v1 ← rd16 v 16
  let t2 := aesLe E x (xor t1 v1)
  let v0 ← rd16 v 0
  let t3 := aesLe E x (xor t2 v0)
  let t4 := aesLe E x (xor t3 (xor (k1 E x) y))
  pure (leNat (t4.take 4))

/-! ## is_valid_public_key — uECC is *modelled* by the curve predicate, not verified -/

def p256P : Nat := 0xffffffff00000001000000000000000000000000ffffffffffffffffffffffff
def p256B : Nat := 0x5ac635d8aa3a93e7b3ebbd55769886bc651d06b0cc53b0f63bce3c3e27d2604b

/-- model of uECC_valid_public_key (secp256r1): not the zero point, coordinates reduced,
    y² ≡ x³ − 3x + b (mod p) -/
def validPoint (x y : Nat) : Bool :=
  !(x == 0 && y == 0) && decide (x < p256P) && decide (y < p256P)
    && (y * y + 3 * x) % p256P == (x * x * x + p256B) % p256P

/-- src: security_tool_box.cpp:security_tool_box::is_valid_public_key — `public_key`: pointer to
    64 bytes, x then y, each least significant byte first (reversed before handed to uECC, which
    reads big endian) -/
def isValidPublicKey (publicKey : Bytes) : Option Bool :=
  if 64 ≤ publicKey.length then
    some (validPoint (leNat (publicKey.take 32)) (leNat ((publicKey.drop 32).take 32)))
  else none

end BluetoeModel.Crypto
