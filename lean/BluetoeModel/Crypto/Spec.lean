/-
  C37 — the specification side, independent of the toolbox model (imports nothing from it).

  * AES-CMAC as defined by RFC 4493 (sections 2.3 sub-key generation, 2.4 MAC generation) over an
    arbitrary 128-bit block cipher `E`, for messages of any length;
  * the security functions of the Core Specification Vol 3 Part H, 2.2.1 – 2.2.9
    (e, c1, s1, f4, f5, f6, g2).

  All values are octet strings **most significant octet first**, as in the specifications;
  a 128-bit value is a list of 16 octets.
-/
namespace BluetoeModel.Crypto.Spec

abbrev Octets := List UInt8

/-- value of an octet string, most significant octet first -/
def beNat (l : Octets) : Nat := l.foldl (fun acc b => acc * 256 + b.toNat) 0

/-- the `n` least significant octets of `v`, most significant first -/
def beOctets : Nat → Nat → Octets
  | 0, _ => []
  | n + 1, v => beOctets n (v / 256) ++ [UInt8.ofNat (v % 256)]

/-- bitwise exclusive or of two strings of equal length -/
def xor (a b : Octets) : Octets := List.zipWith (· ^^^ ·) a b

/-- RFC 4493: "x << 1: the left-shift of the string x by 1 bit" — as a number: doubling, the
    most significant bit is dropped -/
def shl1 (x : Octets) : Octets := beOctets x.length (2 * beNat x % 256 ^ x.length)

/-- RFC 4493: MSB(x), the left-most bit of the string -/
def msb (x : Octets) : Bool :=
  match x.head? with
  | some b => 128 ≤ b.toNat
  | none => false

def zero128 : Octets := List.replicate 16 0

/-- RFC 4493 2.3: const_Rb = 0x00000000000000000000000000000087 -/
def constRb : Octets := List.replicate 15 0 ++ [0x87]

/-- RFC 4493 2.3 steps 2 / 3 -/
def dbl (l : Octets) : Octets := if msb l then xor (shl1 l) constRb else shl1 l

/-- RFC 4493 2.3 Generate_Subkey: (K1, K2) -/
def subkeys (E : Octets → Octets → Octets) (k : Octets) : Octets × Octets :=
  let l := E k zero128
  let k1 := dbl l
  (k1, dbl k1)

/-- RFC 4493 2.4: padding(x) = x || 10^i -/
def pad (m : Octets) : Octets := m ++ [0x80] ++ List.replicate (15 - m.length) 0

/-- RFC 4493 2.4 steps 4 – 7: `x` is X of step 5/6, `m` the part of the message not yet consumed.
    A rest of exactly 16 octets is a complete last block (flag = true, K1), a shorter rest — also
    the empty message — is padded (flag = false, K2). -/
def cmacLoop (E : Octets → Octets → Octets) (k k1 k2 : Octets) (x : Octets) (m : Octets) : Octets :=
  if m.length ≤ 16 then
    let mLast := if m.length = 16 then xor m k1 else xor (pad m) k2
    E k (xor mLast x)
  else
    cmacLoop E k k1 k2 (E k (xor x (m.take 16))) (m.drop 16)
termination_by m.length
decreasing_by simp only [List.length_drop]; omega

/-- RFC 4493 2.4 AES-CMAC(K, M, len) with E in place of AES-128 -/
def cmac (E : Octets → Octets → Octets) (k m : Octets) : Octets :=
  let (k1, k2) := subkeys E k
  cmacLoop E k k1 k2 zero128 m

/-! ## Core Specification Vol 3 Part H 2.2 -/

/-- 2.2.3 c1 with p1 = pres ‖ preq ‖ rat' ‖ iat' and p2 = padding ‖ ia ‖ ra already formed:
    c1 = e(k, e(k, r XOR p1) XOR p2) -/
def c1 (E : Octets → Octets → Octets) (k r p1 p2 : Octets) : Octets :=
  E k (xor (E k (xor r p1)) p2)

/-- 2.2.4 s1(k, r1, r2) = e(k, r1' ‖ r2'), r1' / r2' the least significant 64 bits of r1 / r2 -/
def s1 (E : Octets → Octets → Octets) (k r1 r2 : Octets) : Octets :=
  E k (r1.drop 8 ++ r2.drop 8)

/-- 2.2.6 f4(U, V, X, Z) = AES-CMAC_X (U ‖ V ‖ Z) -/
def f4 (E : Octets → Octets → Octets) (u v x : Octets) (z : UInt8) : Octets :=
  cmac E x (u ++ v ++ [z])

/-- 2.2.7 SALT = 0x6C888391_AAF5A538_60370BDB_5A6083BE -/
def f5salt : Octets :=
  [0x6C, 0x88, 0x83, 0x91, 0xAA, 0xF5, 0xA5, 0x38, 0x60, 0x37, 0x0B, 0xDB, 0x5A, 0x60, 0x83, 0xBE]

/-- 2.2.7 keyID = 0x62746c65 -/
def keyID : Octets := [0x62, 0x74, 0x6c, 0x65]

/-- 2.2.7 f5(W, N1, N2, A1, A2) = (MacKey, LTK):
    T = AES-CMAC_SALT(W); AES-CMAC_T(Counter ‖ keyID ‖ N1 ‖ N2 ‖ A1 ‖ A2 ‖ Length = 256),
    Counter = 0 for the MacKey, 1 for the LTK; A1, A2: 56 bit (address type octet, then address) -/
def f5 (E : Octets → Octets → Octets) (w n1 n2 a1 a2 : Octets) : Octets × Octets :=
  let t := cmac E f5salt w
  (cmac E t ([0] ++ keyID ++ n1 ++ n2 ++ a1 ++ a2 ++ [0x01, 0x00]),
   cmac E t ([1] ++ keyID ++ n1 ++ n2 ++ a1 ++ a2 ++ [0x01, 0x00]))

/-- 2.2.8 f6(W, N1, N2, R, IOcap, A1, A2) = AES-CMAC_W (N1 ‖ N2 ‖ R ‖ IOcap ‖ A1 ‖ A2) -/
def f6 (E : Octets → Octets → Octets) (w n1 n2 r ioCap a1 a2 : Octets) : Octets :=
  cmac E w (n1 ++ n2 ++ r ++ ioCap ++ a1 ++ a2)

/-- 2.2.9 g2(U, V, X, Y) = AES-CMAC_X (U ‖ V ‖ Y) mod 2^32 -/
def g2 (E : Octets → Octets → Octets) (u v x y : Octets) : Nat :=
  beNat (cmac E x (u ++ v ++ y)) % 2 ^ 32

/-- a 56-bit address value of f5 / f6: most significant octet = address type (0 public,
    1 random), then the 48-bit address -/
def addr56 (random : Bool) (addrMsbFirst : Octets) : Octets :=
  (if random then 1 else 0) :: addrMsbFirst

/-! ## P-256 (FIPS 186-4 D.1.2.3) -/

def p256P : Nat := 2 ^ 256 - 2 ^ 224 + 2 ^ 192 + 2 ^ 96 - 1
def p256B : Nat := 0x5ac635d8aa3a93e7b3ebbd55769886bc651d06b0cc53b0f63bce3c3e27d2604b

/-- (x, y) is an affine point of the curve y² = x³ − 3x + b over GF(p) (so not the point at
    infinity) given by reduced coordinates -/
def OnP256 (x y : Nat) : Prop :=
  x < p256P ∧ y < p256P ∧ (y * y + 3 * x) % p256P = (x * x * x + p256B) % p256P

end BluetoeModel.Crypto.Spec
