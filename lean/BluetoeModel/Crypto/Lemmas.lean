import BluetoeModel.Crypto.Model
import BluetoeModel.Crypto.Spec
/-!
  Helper lemmas for C37: byte reversal turns the toolbox's memory-order operations into the
  specifications' octet-string operations.
-/
namespace BluetoeModel.Crypto

/-! ## bytes -/

theorem shl_or_toNat (x c : UInt8) (hc : c.toNat ≤ 1) :
    ((x <<< 1) ||| c).toNat = (2 * x.toNat) % 256 + c.toNat := by
  have hx := x.toNat_lt
  rw [UInt8.toNat_or, UInt8.toNat_shiftLeft]
  have e : x.toNat <<< ((1 : UInt8).toNat % 8) % 2 ^ 8 = (x.toNat % 128) <<< 1 := by
    simp only [Nat.shiftLeft_eq]; simp; omega
  rw [e, ← Nat.shiftLeft_add_eq_or_of_lt (by omega : c.toNat < 2 ^ 1)]
  simp only [Nat.shiftLeft_eq]; omega

theorem nat_and_128 (n : Nat) (h : n < 256) : n &&& 128 = 128 * (n / 128) := by
  have h1 : (n &&& 128) % 2 ^ 7 = 0 := by rw [Nat.and_mod_two_pow]; simp
  have h2 : (n &&& 128) / 2 ^ 7 = n / 128 % 2 := by
    rw [Nat.and_div_two_pow]; exact Nat.and_two_pow_sub_one_eq_mod (n / 2 ^ 7) 1
  omega

theorem msb_toNat (x : UInt8) : ((x &&& 0x80) != 0) = decide (128 ≤ x.toNat) := by
  have hx := x.toNat_lt
  have h : (x &&& 0x80).toNat = 128 * (x.toNat / 128) := by
    rw [UInt8.toNat_and]; exact nat_and_128 _ hx
  by_cases hb : 128 ≤ x.toNat
  · simp only [hb, decide_true, bne_iff_ne, ne_eq]
    intro h0; rw [h0] at h; simp at h; omega
  · simp only [hb, decide_false, bne_eq_false_iff_eq]
    apply UInt8.toNat_inj.mp
    rw [h]; simp; omega

/-! ## xor -/

theorem xor_eq_spec (a b : Bytes) : xor a b = Spec.xor a b := rfl

theorem length_xor (a b : Bytes) : (xor a b).length = min a.length b.length := by
  simp [xor]

theorem length_spec_xor (a b : Bytes) : (Spec.xor a b).length = min a.length b.length := by
  simp [Spec.xor]

theorem spec_xor_comm (a b : Bytes) : Spec.xor a b = Spec.xor b a := by
  unfold Spec.xor
  induction a generalizing b with
  | nil => simp
  | cons x xs ih =>
    cases b with
    | nil => simp
    | cons y ys => simp [ih, UInt8.xor_comm]

theorem reverse_xor {a b : Bytes} (h : a.length = b.length) :
    (xor a b).reverse = Spec.xor a.reverse b.reverse :=
  List.reverse_zipWith h

theorem zero_xor_aux (n : Nat) (m : Bytes) (h : m.length = n) :
    List.zipWith (· ^^^ ·) (List.replicate n (0 : UInt8)) m = m := by
  induction m generalizing n with
  | nil => simp
  | cons x xs ih =>
    cases n with
    | zero => simp at h
    | succ k => simp [List.replicate_succ, ih k (by simpa using h)]

theorem spec_zero_xor (m : Bytes) (h : m.length = 16) : Spec.xor Spec.zero128 m = m :=
  zero_xor_aux 16 m h

/-! ## aes_le -/

theorem reverse_aesLe (E : Cipher) (k d : Bytes) : (aesLe E k d).reverse = E k.reverse d.reverse := by
  simp [aesLe]

theorem length_aesLe (E : Cipher) (hE : ∀ k x, (E k x).length = 16) (k d : Bytes) :
    (aesLe E k d).length = 16 := by
  simp [aesLe, hE]

/-! ## numbers: little endian / big endian -/

/-- the `n` least significant bytes of `v`, least significant first -/
def leOctets : Nat → Nat → Bytes
  | 0, _ => []
  | n + 1, v => UInt8.ofNat (v % 256) :: leOctets n (v / 256)

theorem beOctets_eq (n v : Nat) : Spec.beOctets n v = (leOctets n v).reverse := by
  induction n generalizing v with
  | zero => rfl
  | succ k ih => simp [Spec.beOctets, leOctets, ih]

theorem beNat_append_singleton (l : Bytes) (x : UInt8) :
    Spec.beNat (l ++ [x]) = Spec.beNat l * 256 + x.toNat := by
  simp [Spec.beNat, List.foldl_append]

theorem beNat_reverse (l : Bytes) : Spec.beNat l.reverse = leNat l := by
  induction l with
  | nil => rfl
  | cons x xs ih => rw [List.reverse_cons, beNat_append_singleton, ih, leNat]; omega

theorem leOctets_leNat (l : Bytes) : leOctets l.length (leNat l) = l := by
  induction l with
  | nil => rfl
  | cons x xs ih =>
    have hx := x.toNat_lt
    have e1 : (x.toNat + 256 * leNat xs) % 256 = x.toNat := by omega
    have e2 : (x.toNat + 256 * leNat xs) / 256 = leNat xs := by omega
    simp only [List.length_cons, leOctets, leNat, e1, e2, ih, UInt8.ofNat_toNat]

/-! ## left_shift -/

theorem length_leftShiftAux (c : UInt8) (l : Bytes) : (leftShiftAux c l).length = l.length := by
  induction l generalizing c with
  | nil => rfl
  | cons x xs ih => simp [leftShiftAux, ih]

theorem leNat_leftShiftAux (c : UInt8) (hc : c.toNat ≤ 1) (l : Bytes) :
    leNat (leftShiftAux c l) = (2 * leNat l + c.toNat) % 256 ^ l.length := by
  induction l generalizing c with
  | nil => simp [leftShiftAux, leNat]; omega
  | cons x xs ih =>
    have hx := x.toNat_lt
    have hc' : (if (x &&& 0x80) != 0 then (1 : UInt8) else 0).toNat = x.toNat / 128 := by
      rw [msb_toNat]
      by_cases hb : 128 ≤ x.toNat
      · simp [hb]; omega
      · simp [hb]; omega
    have hc'' : (if (x &&& 0x80) != 0 then (1 : UInt8) else 0).toNat ≤ 1 := by rw [hc']; omega
    simp only [leftShiftAux, leNat, List.length_cons]
    rw [ih _ hc'', hc', shl_or_toNat x c hc, Nat.pow_succ, Nat.mul_comm (256 ^ xs.length) 256,
      Nat.mod_mul (x := 2 * (x.toNat + 256 * leNat xs) + c.toNat)]
    have e1 : (2 * (x.toNat + 256 * leNat xs) + c.toNat) % 256 = 2 * x.toNat % 256 + c.toNat := by omega
    have e2 : (2 * (x.toNat + 256 * leNat xs) + c.toNat) / 256 = 2 * leNat xs + x.toNat / 128 := by omega
    rw [e1, e2]

/-- `left_shift` on the memory-order array is `<< 1` of the 128 bit string -/
theorem reverse_leftShift (a : Bytes) : (leftShift a).reverse = Spec.shl1 a.reverse := by
  have h := leNat_leftShiftAux 0 (by decide) a
  simp only [UInt8.toNat_zero, Nat.add_zero] at h
  unfold Spec.shl1 leftShift
  rw [beOctets_eq, beNat_reverse, List.length_reverse, ← h, ← length_leftShiftAux 0 a, leOctets_leNat]

theorem length_leftShift (a : Bytes) : (leftShift a).length = a.length := length_leftShiftAux 0 a

/-! ## sub-keys -/

theorem reverse_constC : constC.reverse = Spec.constRb := by decide

theorem backMsb_eq (a : Bytes) : backMsb a = Spec.msb a.reverse := by
  unfold backMsb Spec.msb
  rw [List.head?_reverse]
  cases a.getLast? with
  | none => rfl
  | some x => exact msb_toNat x

/-- one doubling step of the sub-key generation, toolbox (memory order) vs RFC 4493 -/
theorem reverse_dbl (a : Bytes) (h : a.length = 16) :
    (if !backMsb a then leftShift a else xor (leftShift a) constC).reverse = Spec.dbl a.reverse := by
  unfold Spec.dbl
  rw [← backMsb_eq]
  cases backMsb a with
  | false => simp [reverse_leftShift]
  | true =>
    simp only [Bool.not_true, Bool.false_eq_true, if_false, if_true]
    rw [reverse_xor (by simp [length_leftShift, h, constC]), reverse_leftShift, reverse_constC]

theorem length_dbl (a : Bytes) (h : a.length = 16) :
    (if !backMsb a then leftShift a else xor (leftShift a) constC).length = 16 := by
  cases backMsb a <;> simp [length_leftShift, length_xor, h, constC]

theorem reverse_zero16 : zero16.reverse = Spec.zero128 := by decide

theorem reverse_k1 (E : Cipher) (hE : ∀ k x, (E k x).length = 16) (key : Bytes) :
    (k1 E key).reverse = (Spec.subkeys E key.reverse).1 := by
  unfold k1 Spec.subkeys
  simp only
  rw [reverse_dbl _ (length_aesLe E hE _ _), reverse_aesLe, reverse_zero16]

theorem length_k1 (E : Cipher) (hE : ∀ k x, (E k x).length = 16) (key : Bytes) :
    (k1 E key).length = 16 := by
  unfold k1; exact length_dbl _ (length_aesLe E hE _ _)

theorem reverse_k2 (E : Cipher) (hE : ∀ k x, (E k x).length = 16) (key : Bytes) :
    (k2 E key).reverse = (Spec.subkeys E key.reverse).2 := by
  unfold k2
  simp only
  rw [reverse_dbl _ (length_k1 E hE key), reverse_k1 E hE]
  rfl

theorem length_k2 (E : Cipher) (hE : ∀ k x, (E k x).length = 16) (key : Bytes) :
    (k2 E key).length = 16 := by
  unfold k2; exact length_dbl _ (length_k1 E hE key)

end BluetoeModel.Crypto
