import BluetoeModel.Crypto.Lemmas
import BluetoeModel.Crypto.Aes
/-!
  # C37 — Security toolbox functions compute the specified cryptography

  "The nRF52 security toolbox's c1, s1, f4, f5, f6, g2 and session key derivation return exactly
  the values defined by the Core specification (AES-128 and AES-CMAC over the specified byte
  layouts) for every input, and public keys are accepted only if they are valid P-256 points."

  The toolbox keeps every value least significant byte first, the specifications write octet
  strings most significant octet first, so each theorem has the shape
  `reverse (toolbox E args) = Spec.f E (reverse args)`, **for every block cipher `E`** with
  16-byte output (`hE`; the ECB peripheral always writes 16 bytes) and all inputs of the declared
  sizes (the C++ parameter types `uint128_t`, `io_capabilities_t`, `device_address`, and 32-byte
  coordinates behind the `const uint8_t*` parameters). `Spec.*` is RFC 4493 AES-CMAC for
  messages of any length and Core Vol 3 Part H 2.2, written without reference to the model.
  Functions with pointer arguments return `Option`; the theorems also state that the result is
  `some`, i.e. no read or write leaves a buffer (the harness side of that claim is ASan).

  "session key derivation": s1 (the legacy STK) and f5 (MacKey / LTK).

  `is_valid_public_key`: the P-256 arithmetic of uECC is **modelled** by the curve predicate, it
  is not verified; `valid_public_key_spec` states what the model accepts, the tie to uECC is the
  correspondence check only (valid points, off-curve points, coordinates ≥ p, zero).
-/
namespace BluetoeModel.Crypto
open Spec (cmacLoop)

section cmac
variable (E : Cipher) (k k1v k2v : Bytes)

theorem cmacLoop_append (x b rest : Bytes) (hb : b.length = 16) (hr : 0 < rest.length) :
    cmacLoop E k k1v k2v x (b ++ rest) = cmacLoop E k k1v k2v (E k (Spec.xor x b)) rest := by
  rw [cmacLoop]
  have : ¬ (b ++ rest).length ≤ 16 := by simp [hb]; omega
  simp only [this, if_false]
  rw [List.take_left' hb, List.drop_left' hb]

theorem cmacLoop_full (x m : Bytes) (hm : m.length = 16) :
    cmacLoop E k k1v k2v x m = E k (Spec.xor x (Spec.xor k1v m)) := by
  rw [cmacLoop]
  simp only [hm, Nat.le_refl, if_true]
  rw [spec_xor_comm (Spec.xor m k1v) x, spec_xor_comm m k1v]

theorem cmacLoop_partial (x m : Bytes) (hm : m.length < 16) :
    cmacLoop E k k1v k2v x m = E k (Spec.xor x (Spec.xor k2v (Spec.pad m))) := by
  rw [cmacLoop]
  have h1 : m.length ≤ 16 := by omega
  have h2 : ¬ m.length = 16 := by omega
  simp only [h1, h2, if_true, if_false]
  rw [spec_xor_comm (Spec.xor (Spec.pad m) k2v) x, spec_xor_comm (Spec.pad m) k2v]

end cmac

theorem rd16_left (a b : Bytes) (ha : a.length = 16) : rd16 (a ++ b) 0 = some a := by
  simp [rd16, ha, List.take_left' ha]

theorem rd16_right (a b : Bytes) (ha : a.length = 16) (hb : b.length = 16) :
    rd16 (a ++ b) 16 = some b := by
  simp [rd16, ha, hb, List.drop_left' ha, List.take_of_length_le (Nat.le_of_eq hb)]

theorem split32 (u : Bytes) (h : u.length = 32) :
    ∃ u0 u1, u = u0 ++ u1 ∧ u0.length = 16 ∧ u1.length = 16 :=
  ⟨u.take 16, u.drop 16, (List.take_append_drop 16 u).symm, by simp [h], by simp [h]⟩

theorem len_succ {l : Bytes} {n : Nat} (h : l.length = n + 1) :
    ∃ a t, l = a :: t ∧ t.length = n := by
  cases l with
  | nil => simp at h
  | cons a t => exact ⟨a, t, rfl, by simpa using h⟩

theorem len3 {l : Bytes} (h : l.length = 3) : ∃ a0 a1 a2, l = [a0, a1, a2] := by
  obtain ⟨a0, t0, rfl, h0⟩ := len_succ h
  obtain ⟨a1, t1, rfl, h1⟩ := len_succ h0
  obtain ⟨a2, t2, rfl, h2⟩ := len_succ h1
  obtain rfl := List.eq_nil_of_length_eq_zero h2
  exact ⟨_, _, _, rfl⟩

theorem len6 {l : Bytes} (h : l.length = 6) : ∃ a0 a1 a2 a3 a4 a5, l = [a0, a1, a2, a3, a4, a5] := by
  obtain ⟨a0, t0, rfl, h0⟩ := len_succ h
  obtain ⟨a1, t1, rfl, h1⟩ := len_succ h0
  obtain ⟨a2, t2, rfl, h2⟩ := len_succ h1
  obtain ⟨a3, t3, rfl, h3⟩ := len_succ h2
  obtain ⟨a4, t4, rfl, h4⟩ := len_succ h3
  obtain ⟨a5, t5, rfl, h5⟩ := len_succ h4
  obtain rfl := List.eq_nil_of_length_eq_zero h5
  exact ⟨_, _, _, _, _, _, rfl⟩

theorem len16 {l : Bytes} (h : l.length = 16) : ∃ a0 a1 a2 a3 a4 a5 a6 a7 a8 a9 a10 a11 a12 a13 a14 a15, l = [a0, a1, a2, a3, a4, a5, a6, a7, a8, a9, a10, a11, a12, a13, a14, a15] := by
  obtain ⟨a0, t0, rfl, h0⟩ := len_succ h
  obtain ⟨a1, t1, rfl, h1⟩ := len_succ h0
  obtain ⟨a2, t2, rfl, h2⟩ := len_succ h1
  obtain ⟨a3, t3, rfl, h3⟩ := len_succ h2
  obtain ⟨a4, t4, rfl, h4⟩ := len_succ h3
  obtain ⟨a5, t5, rfl, h5⟩ := len_succ h4
  obtain ⟨a6, t6, rfl, h6⟩ := len_succ h5
  obtain ⟨a7, t7, rfl, h7⟩ := len_succ h6
  obtain ⟨a8, t8, rfl, h8⟩ := len_succ h7
  obtain ⟨a9, t9, rfl, h9⟩ := len_succ h8
  obtain ⟨a10, t10, rfl, h10⟩ := len_succ h9
  obtain ⟨a11, t11, rfl, h11⟩ := len_succ h10
  obtain ⟨a12, t12, rfl, h12⟩ := len_succ h11
  obtain ⟨a13, t13, rfl, h13⟩ := len_succ h12
  obtain ⟨a14, t14, rfl, h14⟩ := len_succ h13
  obtain ⟨a15, t15, rfl, h15⟩ := len_succ h14
  obtain rfl := List.eq_nil_of_length_eq_zero h15
  exact ⟨_, _, _, _, _, _, _, _, _, _, _, _, _, _, _, _, rfl⟩

theorem rd16_at (pre blk post : Bytes) (off : Nat) (hoff : off = pre.length) (hb : blk.length = 16) :
    rd16 (pre ++ (blk ++ post)) off = some blk := by
  subst hoff
  simp [rd16, hb, List.take_left' hb]

theorem reverse_f5salt : f5salt.reverse = Spec.f5salt := by decide

theorem leNat_take (l : Bytes) (n : Nat) : leNat (l.take n) = leNat l % 256 ^ n := by
  induction n generalizing l with
  | zero => simp [leNat, Nat.mod_one]
  | succ m ih =>
    cases l with
    | nil => simp [leNat]
    | cons x xs =>
      have hx := x.toNat_lt
      simp only [List.take_succ_cons, leNat, ih]
      rw [Nat.pow_succ, Nat.mul_comm (256 ^ m) 256, Nat.mod_mul (x := x.toNat + 256 * leNat xs)]
      have e1 : (x.toNat + 256 * leNat xs) % 256 = x.toNat := by omega
      have e2 : (x.toNat + 256 * leNat xs) / 256 = leNat xs := by omega
      rw [e1, e2]

section props
variable (E : Cipher) (hE : ∀ k x, (E k x).length = 16)
include hE

/-- **sub-keys** (RFC 4493 2.3): `aes_cmac_k1/k2_subkey_generation` are K1, K2 of Generate_Subkey -/
theorem subkeys_eq_rfc4493 (key : Bytes) :
    ((k1 E key).reverse, (k2 E key).reverse) = Spec.subkeys E key.reverse := by
  rw [reverse_k1 E hE, reverse_k2 E hE]

/-- **c1** (Vol 3 Part H 2.2.3): e(k, e(k, r XOR p1) XOR p2) -/
theorem c1_eq_spec (tk r p1 p2 : Bytes) (hr : r.length = 16) (hp1 : p1.length = 16) (hp2 : p2.length = 16) :
    (c1 E tk r p1 p2).reverse = Spec.c1 E tk.reverse r.reverse p1.reverse p2.reverse := by
  unfold c1 Spec.c1
  simp only
  rw [reverse_aesLe, reverse_xor (by simp [length_aesLe E hE, hp2]), reverse_aesLe,
    reverse_xor (by simp [hr, hp1])]

omit hE in
/-- **s1** (2.2.4), the legacy session (short term) key: e(k, r1' ‖ r2') with r1 = Srand, r2 = Mrand -/
theorem s1_eq_spec (tk srand mrand : Bytes) (hs : srand.length = 16) (hm : mrand.length = 16) :
    (s1 E tk srand mrand).reverse = Spec.s1 E tk.reverse srand.reverse mrand.reverse := by
  unfold s1 Spec.s1
  rw [reverse_aesLe, List.reverse_append, List.reverse_take, List.reverse_take, hs, hm]

/-- **f4** (2.2.6): AES-CMAC_X(U ‖ V ‖ Z); no out-of-bounds read for 32-byte `u`, `v` -/
theorem f4_eq_spec (u v key : Bytes) (z : UInt8) (hu : u.length = 32) (hv : v.length = 32) :
    (f4 E u v key z).map List.reverse = some (Spec.f4 E u.reverse v.reverse key.reverse z) := by
  obtain ⟨u0, u1, rfl, hu0, hu1⟩ := split32 u hu
  obtain ⟨v0, v1, rfl, hv0, hv1⟩ := split32 v hv
  have hl := length_aesLe E hE
  simp only [f4, rd16_left _ _ hu0, rd16_right _ _ hu0 hu1, rd16_left _ _ hv0, rd16_right _ _ hv0 hv1,
    Option.bind_eq_bind, Option.bind_some, Option.pure_def, Option.map_some, Option.some.injEq]
  simp only [Spec.f4, Spec.cmac, List.reverse_append, List.append_assoc]
  rw [cmacLoop_append _ _ _ _ _ _ _ (by simp [hu1]) (by simp; omega),
    cmacLoop_append _ _ _ _ _ _ _ (by simp [hu0]) (by simp; omega),
    cmacLoop_append _ _ _ _ _ _ _ (by simp [hv1]) (by simp),
    cmacLoop_append _ _ _ _ _ _ _ (by simp [hv0]) (by simp),
    cmacLoop_partial _ _ _ _ _ _ (by simp), spec_zero_xor _ (by simp [hu1])]
  rw [reverse_aesLe, reverse_xor (by simp [hl, length_xor, length_k2 E hE]),
    reverse_xor (by simp [length_k2 E hE]), reverse_k2 E hE]
  rw [reverse_aesLe, reverse_xor (by simp [hl, hv0])]
  rw [reverse_aesLe, reverse_xor (by simp [hl, hv1])]
  rw [reverse_aesLe, reverse_xor (by simp [hl, hu0])]
  rw [reverse_aesLe]
  rfl

/-- **g2** (2.2.9): AES-CMAC_X(U ‖ V ‖ Y) mod 2^32 -/
theorem g2_eq_spec (u v x y : Bytes) (hu : u.length = 32) (hv : v.length = 32) (hy : y.length = 16) :
    g2 E u v x y = some (Spec.g2 E u.reverse v.reverse x.reverse y.reverse) := by
  obtain ⟨u0, u1, rfl, hu0, hu1⟩ := split32 u hu
  obtain ⟨v0, v1, rfl, hv0, hv1⟩ := split32 v hv
  have hl := length_aesLe E hE
  simp only [g2, rd16_left _ _ hu0, rd16_right _ _ hu0 hu1, rd16_left _ _ hv0, rd16_right _ _ hv0 hv1,
    Option.bind_eq_bind, Option.bind_some, Option.pure_def, Option.some.injEq]
  rw [leNat_take, ← beNat_reverse]
  simp only [Spec.g2, Spec.cmac, List.reverse_append, List.append_assoc]
  rw [cmacLoop_append _ _ _ _ _ _ _ (by simp [hu1]) (by simp; omega),
    cmacLoop_append _ _ _ _ _ _ _ (by simp [hu0]) (by simp; omega),
    cmacLoop_append _ _ _ _ _ _ _ (by simp [hv1]) (by simp; omega),
    cmacLoop_append _ _ _ _ _ _ _ (by simp [hv0]) (by simp [hy]),
    cmacLoop_full _ _ _ _ _ _ (by simp [hy]), spec_zero_xor _ (by simp [hu1])]
  rw [reverse_aesLe, reverse_xor (by simp [hl, length_xor, length_k1 E hE, hy]),
    reverse_xor (by simp [length_k1 E hE, hy]), reverse_k1 E hE]
  rw [reverse_aesLe, reverse_xor (by simp [hl, hv0])]
  rw [reverse_aesLe, reverse_xor (by simp [hl, hv1])]
  rw [reverse_aesLe, reverse_xor (by simp [hl, hu0])]
  rw [reverse_aesLe]

/-- f5, first step (2.2.7): T = AES-CMAC_SALT(W) -/
theorem f5key_eq_spec (dh : Bytes) (hd : dh.length = 32) :
    (f5key E dh).map List.reverse = some (Spec.cmac E Spec.f5salt dh.reverse) := by
  obtain ⟨d0, d1, rfl, hd0, hd1⟩ := split32 dh hd
  have hl := length_aesLe E hE
  simp only [f5key, rd16_left _ _ hd0, rd16_right _ _ hd0 hd1,
    Option.bind_eq_bind, Option.bind_some, Option.pure_def, Option.map_some, Option.some.injEq]
  simp only [Spec.cmac, List.reverse_append]
  rw [cmacLoop_append _ _ _ _ _ _ _ (by simp [hd1]) (by simp [hd0]),
    cmacLoop_full _ _ _ _ _ _ (by simp [hd0]), spec_zero_xor _ (by simp [hd1])]
  rw [reverse_aesLe, reverse_xor (by simp [hl, length_xor, length_k1 E hE, hd0]),
    reverse_xor (by simp [length_k1 E hE, hd0]), reverse_k1 E hE, reverse_aesLe, reverse_f5salt]

/-- f5_cmac on a 64 byte buffer b3 ‖ b2 ‖ b1 ‖ b0 (memory order) whose lowest block is the
    padded rest `last` of the message: AES-CMAC of rev b0 ‖ rev b1 ‖ rev b2 ‖ last -/
theorem f5cmac_eq_spec (key b3 b2 b1 b0 last : Bytes) (h3 : b3.length = 16) (h2 : b2.length = 16)
    (h1 : b1.length = 16) (h0 : b0.length = 16) (hlast : last.length < 16) (hlast' : 0 < last.length)
    (hpad : Spec.pad last = b3.reverse) :
    (f5cmac E key (b3 ++ (b2 ++ (b1 ++ b0)))).map List.reverse =
      some (Spec.cmac E key.reverse (b0.reverse ++ (b1.reverse ++ (b2.reverse ++ last)))) := by
  have hl := length_aesLe E hE
  have r48 : rd16 (b3 ++ (b2 ++ (b1 ++ b0))) 48 = some b0 := by
    have e : b3 ++ (b2 ++ (b1 ++ b0)) = (b3 ++ b2 ++ b1) ++ (b0 ++ []) := by simp
    rw [e]; exact rd16_at _ _ _ _ (by simp [h3, h2, h1]) h0
  have r32 : rd16 (b3 ++ (b2 ++ (b1 ++ b0))) 32 = some b1 := by
    have e : b3 ++ (b2 ++ (b1 ++ b0)) = (b3 ++ b2) ++ (b1 ++ b0) := by simp
    rw [e]; exact rd16_at _ _ _ _ (by simp [h3, h2]) h1
  have r16 : rd16 (b3 ++ (b2 ++ (b1 ++ b0))) 16 = some b2 := by
    exact rd16_at _ _ _ _ (by simp [h3]) h2
  have r0 : rd16 (b3 ++ (b2 ++ (b1 ++ b0))) 0 = some b3 := by
    exact rd16_at [] _ _ _ (by simp) h3
  simp only [f5cmac, r48, r32, r16, r0,
    Option.bind_eq_bind, Option.bind_some, Option.pure_def, Option.map_some, Option.some.injEq]
  simp only [Spec.cmac]
  rw [cmacLoop_append _ _ _ _ _ _ _ (by simp [h0]) (by simp; omega),
    cmacLoop_append _ _ _ _ _ _ _ (by simp [h1]) (by simp; omega),
    cmacLoop_append _ _ _ _ _ _ _ (by simp [h2]) hlast',
    cmacLoop_partial _ _ _ _ _ _ hlast, spec_zero_xor _ (by simp [h0]), hpad]
  rw [reverse_aesLe, reverse_xor (by simp [hl, length_xor, length_k2 E hE, h3]),
    reverse_xor (by simp [length_k2 E hE, h3]), reverse_k2 E hE]
  rw [reverse_aesLe, reverse_xor (by simp [hl, h2])]
  rw [reverse_aesLe, reverse_xor (by simp [hl, h1])]
  rw [reverse_aesLe]

omit hE in
theorem map_reverse_some {o : Option Bytes} {v : Bytes} (h : o.map List.reverse = some v) :
    ∃ m, o = some m ∧ m.reverse = v := by
  cases o with
  | none => simp at h
  | some m => exact ⟨m, rfl, by simpa using h⟩

/-- **f5** (2.2.7): (MacKey, LTK) = AES-CMAC_T(Counter ‖ keyID ‖ N1 ‖ N2 ‖ A1 ‖ A2 ‖ Length) for
    Counter = 0, 1 with T = AES-CMAC_SALT(DHKey); all buffer writes and block reads in bounds -/
theorem f5_eq_spec (dh nc np ac ap : Bytes) (rc rp : Bool) (hd : dh.length = 32)
    (hnc : nc.length = 16) (hnp : np.length = 16) (hac : ac.length = 6) (hap : ap.length = 6) :
    (f5 E dh nc np ac rc ap rp).map (fun r => (r.1.reverse, r.2.reverse)) =
      some (Spec.f5 E dh.reverse nc.reverse np.reverse
        (Spec.addr56 rc ac.reverse) (Spec.addr56 rp ap.reverse)) := by
  obtain ⟨n0, n1, n2, n3, n4, n5, n6, n7, n8, n9, n10, n11, n12, n13, n14, n15, rfl⟩ := len16 hnc
  obtain ⟨p0, p1, p2, p3, p4, p5, p6, p7, p8, p9, p10, p11, p12, p13, p14, p15, rfl⟩ := len16 hnp
  obtain ⟨a0, a1, a2, a3, a4, a5, rfl⟩ := len6 hac
  obtain ⟨q0, q1, q2, q3, q4, q5, rfl⟩ := len6 hap
  obtain ⟨T, hT, hTr⟩ := map_reverse_some (f5key_eq_spec E hE dh hd)
  have hb : f5buffer [n0, n1, n2, n3, n4, n5, n6, n7, n8, n9, n10, n11, n12, n13, n14, n15] [p0, p1, p2, p3, p4, p5, p6, p7, p8, p9, p10, p11, p12, p13, p14, p15] [a0, a1, a2, a3, a4, a5] rc [q0, q1, q2, q3, q4, q5] rp =
      some ([0, 0, 0, 0, 0, 0, 0, 0, 0, 0, 0x80, 0x00, 0x01, q0, q1, q2] ++ ([q3, q4, q5, flag rp, a0, a1, a2, a3, a4, a5, flag rc, p0, p1, p2, p3, p4] ++ ([p5, p6, p7, p8, p9, p10, p11, p12, p13, p14, p15, n0, n1, n2, n3, n4] ++ [n5, n6, n7, n8, n9, n10, n11, n12, n13, n14, n15, 0x65, 0x6c, 0x74, 0x62, 0]))) := rfl
  have hw : writeAt ([0, 0, 0, 0, 0, 0, 0, 0, 0, 0, 0x80, 0x00, 0x01, q0, q1, q2] ++ ([q3, q4, q5, flag rp, a0, a1, a2, a3, a4, a5, flag rc, p0, p1, p2, p3, p4] ++ ([p5, p6, p7, p8, p9, p10, p11, p12, p13, p14, p15, n0, n1, n2, n3, n4] ++ [n5, n6, n7, n8, n9, n10, n11, n12, n13, n14, n15, 0x65, 0x6c, 0x74, 0x62, 0]))) (15 + 48) [1] =
      some ([0, 0, 0, 0, 0, 0, 0, 0, 0, 0, 0x80, 0x00, 0x01, q0, q1, q2] ++ ([q3, q4, q5, flag rp, a0, a1, a2, a3, a4, a5, flag rc, p0, p1, p2, p3, p4] ++ ([p5, p6, p7, p8, p9, p10, p11, p12, p13, p14, p15, n0, n1, n2, n3, n4] ++ [n5, n6, n7, n8, n9, n10, n11, n12, n13, n14, n15, 0x65, 0x6c, 0x74, 0x62, 1]))) := rfl
  obtain ⟨m1, hm1, hm1r⟩ := map_reverse_some (f5cmac_eq_spec E hE T
    [0, 0, 0, 0, 0, 0, 0, 0, 0, 0, 0x80, 0x00, 0x01, q0, q1, q2] [q3, q4, q5, flag rp, a0, a1, a2, a3, a4, a5, flag rc, p0, p1, p2, p3, p4] [p5, p6, p7, p8, p9, p10, p11, p12, p13, p14, p15, n0, n1, n2, n3, n4] [n5, n6, n7, n8, n9, n10, n11, n12, n13, n14, n15, 0x65, 0x6c, 0x74, 0x62, 0] [q2, q1, q0, 0x01, 0x00] rfl rfl rfl rfl (by simp) (by simp) rfl)
  obtain ⟨m2, hm2, hm2r⟩ := map_reverse_some (f5cmac_eq_spec E hE T
    [0, 0, 0, 0, 0, 0, 0, 0, 0, 0, 0x80, 0x00, 0x01, q0, q1, q2] [q3, q4, q5, flag rp, a0, a1, a2, a3, a4, a5, flag rc, p0, p1, p2, p3, p4] [p5, p6, p7, p8, p9, p10, p11, p12, p13, p14, p15, n0, n1, n2, n3, n4] [n5, n6, n7, n8, n9, n10, n11, n12, n13, n14, n15, 0x65, 0x6c, 0x74, 0x62, 1] [q2, q1, q0, 0x01, 0x00] rfl rfl rfl rfl (by simp) (by simp) rfl)
  simp only [f5, hb, hT, hm1, hw, hm2, Option.bind_eq_bind, Option.bind_some, Option.pure_def,
    Option.map_some, Option.some.injEq]
  rw [hm1r, hm2r, hTr]
  rfl

/-- **f6** (2.2.8): AES-CMAC_W(N1 ‖ N2 ‖ R ‖ IOcap ‖ A1 ‖ A2) -/
theorem f6_eq_spec (key n1 n2 r io ac ap : Bytes) (rc rp : Bool) (hn1 : n1.length = 16)
    (hn2 : n2.length = 16) (hr : r.length = 16) (hio : io.length = 3) (hac : ac.length = 6)
    (hap : ap.length = 6) :
    (f6 E key n1 n2 r io ac rc ap rp).map List.reverse =
      some (Spec.f6 E key.reverse n1.reverse n2.reverse r.reverse io.reverse
        (Spec.addr56 rc ac.reverse) (Spec.addr56 rp ap.reverse)) := by
  obtain ⟨i0, i1, i2, rfl⟩ := len3 hio
  obtain ⟨a0, a1, a2, a3, a4, a5, rfl⟩ := len6 hac
  obtain ⟨q0, q1, q2, q3, q4, q5, rfl⟩ := len6 hap
  have hl := length_aesLe E hE
  have hb : f6buffer [i0, i1, i2] [a0, a1, a2, a3, a4, a5] rc [q0, q1, q2, q3, q4, q5] rp = some ([0, 0, 0, 0, 0, 0, 0, 0, 0, 0, 0, 0, 0, 0, 0x80, q0] ++ ([q1, q2, q3, q4, q5, flag rp, a0, a1, a2, a3, a4, a5, flag rc, i0, i1, i2] ++ [])) := rfl
  have r16 := rd16_at [0, 0, 0, 0, 0, 0, 0, 0, 0, 0, 0, 0, 0, 0, 0x80, q0] [q1, q2, q3, q4, q5, flag rp, a0, a1, a2, a3, a4, a5, flag rc, i0, i1, i2] [] 16 rfl rfl
  have r0 := rd16_at [] [0, 0, 0, 0, 0, 0, 0, 0, 0, 0, 0, 0, 0, 0, 0x80, q0] ([q1, q2, q3, q4, q5, flag rp, a0, a1, a2, a3, a4, a5, flag rc, i0, i1, i2] ++ []) 0 rfl rfl
  simp only [List.nil_append] at r0
  simp only [f6, hb, r16, r0, Option.bind_eq_bind, Option.bind_some, Option.pure_def, Option.map_some,
    Option.some.injEq]
  have hmsg : n1.reverse ++ n2.reverse ++ r.reverse ++ [i0, i1, i2].reverse ++ Spec.addr56 rc [a0, a1, a2, a3, a4, a5].reverse
        ++ Spec.addr56 rp [q0, q1, q2, q3, q4, q5].reverse =
      n1.reverse ++ (n2.reverse ++ (r.reverse ++ ([q1, q2, q3, q4, q5, flag rp, a0, a1, a2, a3, a4, a5, flag rc, i0, i1, i2].reverse ++ [q0]))) := by
    simp [Spec.addr56, flag]
  simp only [Spec.f6, Spec.cmac]
  rw [hmsg]
  rw [cmacLoop_append _ _ _ _ _ _ _ (by simp [hn1]) (by simp; omega),
    cmacLoop_append _ _ _ _ _ _ _ (by simp [hn2]) (by simp),
    cmacLoop_append _ _ _ _ _ _ _ (by simp [hr]) (by simp),
    cmacLoop_append _ _ _ _ _ _ _ (by simp) (by simp),
    cmacLoop_partial _ _ _ _ _ _ (by simp), spec_zero_xor _ (by simp [hn1])]
  rw [reverse_aesLe, reverse_xor (by simp [hl, length_xor, length_k2 E hE]),
    reverse_xor (by simp [length_k2 E hE]), reverse_k2 E hE]
  rw [reverse_aesLe, reverse_xor (by simp [hl])]
  rw [reverse_aesLe, reverse_xor (by simp [hl, hr])]
  rw [reverse_aesLe, reverse_xor (by simp [hl, hn2])]
  rw [reverse_aesLe]
  rfl

end props
/-! ## public keys -/

theorem p256P_eq : p256P = Spec.p256P := by decide
theorem p256B_eq : p256B = Spec.p256B := rfl

theorem zero_not_on_curve : ¬ Spec.OnP256 0 0 := by
  intro h; exact absurd h.2.2 (by decide)

theorem validPoint_iff (x y : Nat) : validPoint x y = true ↔ Spec.OnP256 x y := by
  unfold validPoint Spec.OnP256
  rw [← p256P_eq, ← p256B_eq]
  constructor
  · intro h
    simp only [Bool.and_eq_true, decide_eq_true_eq, beq_iff_eq] at h
    exact ⟨h.1.1.2, h.1.2, h.2⟩
  · intro h
    have hz : ¬ (x = 0 ∧ y = 0) := by
      rintro ⟨rfl, rfl⟩
      exact zero_not_on_curve (by unfold Spec.OnP256; rw [← p256P_eq, ← p256B_eq]; exact h)
    simp only [Bool.and_eq_true, decide_eq_true_eq, beq_iff_eq, Bool.not_eq_true', Bool.and_eq_false_imp]
    refine ⟨⟨⟨?_, h.1⟩, h.2.1⟩, h.2.2⟩
    intro hx
    cases hy : y == 0 with
    | false => rfl
    | true => exact absurd ⟨by simpa using hx, by simpa using hy⟩ hz

/-- **public keys**: `is_valid_public_key` (model: curve predicate, uECC itself not verified)
    reads exactly the 64 bytes and accepts exactly the affine points of P-256 with reduced
    coordinates; in particular the all-zero key is rejected -/
theorem valid_public_key_spec (pk : Bytes) (h : pk.length = 64) :
    ∃ b, isValidPublicKey pk = some b ∧
      (b = true ↔ Spec.OnP256 (leNat (pk.take 32)) (leNat ((pk.drop 32).take 32))) := by
  refine ⟨_, by simp [isValidPublicKey, h], validPoint_iff _ _⟩

theorem zero_public_key_rejected : isValidPublicKey (List.replicate 64 0) = some false := by decide

/-! ## non-vacuity

  The hypothesis `hE` is satisfied by the AES-128 the model driver runs (`Aes.aes`), so every
  theorem above applies to the function that is compared with the real toolbox; the length
  hypotheses are the C++ parameter types. -/

example : ∃ E : Cipher, ∀ k x, (E k x).length = 16 := ⟨Aes.aes, Aes.aes_length⟩

theorem f4_eq_spec_aes (u v key : Bytes) (z : UInt8) (hu : u.length = 32) (hv : v.length = 32) :
    (f4 Aes.aes u v key z).map List.reverse = some (Spec.f4 Aes.aes u.reverse v.reverse key.reverse z) :=
  f4_eq_spec Aes.aes Aes.aes_length u v key z hu hv

example : (List.replicate 32 (7 : UInt8)).length = 32 ∧ (List.replicate 16 (1 : UInt8)).length = 16 ∧
    (List.replicate 6 (2 : UInt8)).length = 6 ∧ (List.replicate 3 (3 : UInt8)).length = 3 := by decide

-- the sub-key branch with the carry-out / Rb reduction is taken by the toolbox model: for the
-- identity "cipher" `E k x = x ⊕ ff…ff` the block L = ff…ff has its top bit set
example : k1 (fun _ x => Spec.xor x (List.replicate 16 0xff)) zero16 =
    [0xfe ^^^ 0x87, 0xff, 0xff, 0xff, 0xff, 0xff, 0xff, 0xff, 0xff, 0xff, 0xff, 0xff, 0xff, 0xff, 0xff, 0xff] := by
  decide

-- the generator of P-256 is accepted (x, y least significant byte first)
example : validPoint 0x6b17d1f2e12c4247f8bce6e563a440f277037d812deb33a0f4a13945d898c296
    0x4fe342e2fe1a7f9b8ee7eb4a7c0f9e162bce33576b315ececbb6406837bf51f5 = true := by decide

end BluetoeModel.Crypto
