/-
  C38 — model of `security_tool_box::create_passkey` (bluetoe/bindings/nordic/nrf52/
  security_tool_box.cpp) **after** the fix `fixes/crypto-01-passkey-range.patch`, plus the model of
  the code as it was before (`createPasskeyOld`) for the witness theorem.

  The hardware RNG is the list of bytes it is going to deliver (`random_number8()` = pop the head).
  A stream that ends while the code still waits for a byte is the result `none` (on the target
  `random_number8` would keep polling `EVENTS_VALRDY`; in the harness the emulated RNG throws).
-/
namespace BluetoeModel.Crypto.Passkey

/-- little endian value of a byte array (a `uint128_t` is `std::array<uint8_t,16>`, least
    significant byte first) -/
def leNat : List UInt8 → Nat
  | [] => 0
  | b :: bs => b.toNat + 256 * leNat bs

/-- src: security_tool_box.cpp:create_passkey — body of the do-loop:
    `value = rnd8(); value |= rnd8() << 8; value |= ( rnd8() & 0x0f ) << 16;` (uint32_t, no overflow) -/
def draw (b0 b1 b2 : UInt8) : Nat :=
  (b0.toNat ||| (b1.toNat <<< 8)) ||| ((b2 &&& 0x0f).toNat <<< 16)

/-- src: security_tool_box.cpp:create_passkey — the braced initialiser of the result:
    `{ value & 0xff, ( value >> 8 ) & 0xff, value >> 16 }`, remaining 13 bytes value-initialised -/
def encode (value : Nat) : List UInt8 :=
  [UInt8.ofNat (value &&& 0xff), UInt8.ofNat ((value >>> 8) &&& 0xff), UInt8.ofNat (value >>> 16)]
    ++ List.replicate 13 0

/-- src: security_tool_box.cpp:create_passkey — `do { … } while ( value > 999999 );`
    result: the accepted value and the RNG bytes not consumed; `none`: RNG stream exhausted -/
def drawLoop : List UInt8 → Option (Nat × List UInt8)
  | b0 :: b1 :: b2 :: rest =>
      if draw b0 b1 b2 > 999999 then drawLoop rest else some (draw b0 b1 b2, rest)
  | _ => none

/-- src: security_tool_box.cpp:create_passkey (fixed). Result: the returned array and the
    remaining RNG stream. -/
def createPasskey (rng : List UInt8) : Option (List UInt8 × List UInt8) :=
  (drawLoop rng).map fun (v, rest) => (encode v, rest)

/-- src: security_tool_box.cpp:create_passkey at commit 193dfc0 (before the fix):
    `{ rnd8(), rnd8(), rnd8() }` -/
def createPasskeyOld : List UInt8 → Option (List UInt8 × List UInt8)
  | b0 :: b1 :: b2 :: rest => some ([b0, b1, b2] ++ List.replicate 13 0, rest)
  | _ => none

/-- the three RNG bytes that make `draw` return `w` (`w < 2^20`), keeping the four unused bits
    of the third byte as they are in `hi` -/
def tripleOf (w : Nat) (hi : UInt8) : List UInt8 :=
  [UInt8.ofNat (w % 256), UInt8.ofNat (w / 256 % 256), UInt8.ofNat (w / 65536 % 16 + 16 * (hi.toNat / 16))]

/-- replace the accepted draw of a stream by the draw that yields `w` (used to state uniformity) -/
def retarget (w : Nat) : List UInt8 → List UInt8
  | b0 :: b1 :: b2 :: rest =>
      if draw b0 b1 b2 > 999999 then b0 :: b1 :: b2 :: retarget w rest else tripleOf w b2 ++ rest
  | l => l

end BluetoeModel.Crypto.Passkey
