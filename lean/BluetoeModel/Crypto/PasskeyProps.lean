import BluetoeModel.Crypto.Passkey
/-!
  # C38 — Generated passkeys are six-digit values

  "Every passkey the peripheral generates for display is a uniformly chosen value between 000000
  and 999999."  — quantified over all random byte streams from the RNG.

  * range: `passkey_lt_million` (every stream, no hypothesis);
  * the code at commit 193dfc0 violated the range: `passkey_old_witness` (RNG bytes ff ff ff give
    16 777 215), replayed on the real code by the check;
  * termination, stated honestly: the loop ends exactly when some complete 3-byte draw of the
    stream is accepted (`passkey_exhausted_iff`, `passkey_terminates`); a draw is accepted for
    1 000 000 of its 1 048 576 equally likely 20-bit values (`draw_lt`, `draw_tripleOf`);
  * uniformity: `draw_eq_iff` — every value below 2^20 is produced by exactly the 16 byte triples
    `tripleOf w hi` (one per value of the 4 unused bits), and `retarget_*` — for any two passkeys
    `v w ≤ 999999`, `retarget w` is a length preserving bijection (inverse `retarget v`) between
    the RNG streams on which the code returns `v` and those on which it returns `w`, consuming the
    same number of bytes. Under independent uniformly distributed RNG bytes all 10^6 passkeys are
    therefore equally likely.
-/
namespace BluetoeModel.Crypto.Passkey

/-! ## arithmetic reading of the bit operations -/

theorem draw_eq (b0 b1 b2 : UInt8) :
    draw b0 b1 b2 = b0.toNat + 256 * b1.toNat + 65536 * (b2.toNat % 16) := by
  have h0 := b0.toNat_lt
  have h1 := b1.toNat_lt
  have hm : (b2 &&& 0x0f).toNat = b2.toNat % 16 := by
    rw [UInt8.toNat_and]; exact Nat.and_two_pow_sub_one_eq_mod b2.toNat 4
  unfold draw
  rw [hm, Nat.or_comm b0.toNat, ← Nat.shiftLeft_add_eq_or_of_lt (by omega : b0.toNat < 2 ^ 8),
    Nat.or_comm, ← Nat.shiftLeft_add_eq_or_of_lt (by simp only [Nat.shiftLeft_eq]; omega)]
  simp only [Nat.shiftLeft_eq]; omega

/-- one draw is a 20 bit value -/
theorem draw_lt (b0 b1 b2 : UInt8) : draw b0 b1 b2 < 2 ^ 20 := by
  have h0 := b0.toNat_lt
  have h1 := b1.toNat_lt
  rw [draw_eq]; omega

theorem leNat_encode (v : Nat) (h : v < 2 ^ 24) : leNat (encode v) = v := by
  have e1 : v &&& 0xff = v % 256 := Nat.and_two_pow_sub_one_eq_mod v 8
  have e2 : (v >>> 8) &&& 0xff = v / 256 % 256 := by
    rw [Nat.shiftRight_eq_div_pow]; exact Nat.and_two_pow_sub_one_eq_mod _ 8
  have e3 : v >>> 16 = v / 65536 := by rw [Nat.shiftRight_eq_div_pow]
  simp only [encode, e1, e2, e3, List.replicate, List.cons_append, List.nil_append, leNat,
    UInt8.toNat_ofNat']
  simp
  omega

theorem length_encode (v : Nat) : (encode v).length = 16 := by simp [encode]

/-- the loop only ever leaves with an accepted value; it consumes whole draws -/
theorem drawLoop_some {rng : List UInt8} {v : Nat} {rest : List UInt8}
    (h : drawLoop rng = some (v, rest)) :
    v ≤ 999999 ∧ ∃ used, rng = used ++ rest ∧ used.length % 3 = 0 ∧ 3 ≤ used.length := by
  fun_induction drawLoop rng with
  | case1 b0 b1 b2 tl hrej ih =>
    obtain ⟨hv, used, hu, hl, h3⟩ := ih h
    exact ⟨hv, b0 :: b1 :: b2 :: used, by simp [hu], by simp only [List.length_cons]; omega,
      by simp only [List.length_cons]; omega⟩
  | case2 b0 b1 b2 tl hacc =>
    simp only [Option.some.injEq, Prod.mk.injEq] at h
    obtain ⟨rfl, rfl⟩ := h
    exact ⟨by omega, [b0, b1, b2], rfl, by simp, by simp⟩
  | case3 l hl => simp at h

/-! ## range -/

/-- **C38, range (full strength).** For every RNG byte stream: whatever `create_passkey` returns
    is a 16 byte array whose (little endian, 128 bit) value is at most 999999. -/
theorem passkey_lt_million (rng pk rest : List UInt8) (h : createPasskey rng = some (pk, rest)) :
    pk.length = 16 ∧ leNat pk ≤ 999999 := by
  unfold createPasskey at h
  cases hd : drawLoop rng with
  | none => simp [hd] at h
  | some r =>
    obtain ⟨v, rest'⟩ := r
    simp only [hd, Option.map_some, Option.some.injEq, Prod.mk.injEq] at h
    obtain ⟨rfl, rfl⟩ := h
    have hv := (drawLoop_some hd).1
    exact ⟨length_encode v, by rw [leNat_encode v (by omega)]; exact hv⟩

/-- the RNG bytes consumed are a whole number (≥ 1) of 3-byte draws, the rest is untouched -/
theorem passkey_consumes_draws (rng pk rest : List UInt8) (h : createPasskey rng = some (pk, rest)) :
    ∃ used, rng = used ++ rest ∧ used.length % 3 = 0 ∧ 3 ≤ used.length := by
  unfold createPasskey at h
  cases hd : drawLoop rng with
  | none => simp [hd] at h
  | some r =>
    obtain ⟨v, rest'⟩ := r
    simp only [hd, Option.map_some, Option.some.injEq, Prod.mk.injEq] at h
    obtain ⟨_, rfl⟩ := h
    exact (drawLoop_some hd).2

-- non-vacuity: a stream whose first draw (1 048 575) is rejected and whose second is accepted
example : createPasskey [0xff, 0xff, 0xff, 0x3f, 0x42, 0xff, 0x77] =
    some ([0x3f, 0x42, 0x0f, 0, 0, 0, 0, 0, 0, 0, 0, 0, 0, 0, 0, 0], [0x77]) := by decide
example : leNat [0x3f, 0x42, 0x0f, 0, 0, 0, 0, 0, 0, 0, 0, 0, 0, 0, 0, 0] = 999999 := by decide

/-- the property's range sentence for an arbitrary generator `gen` -/
def PasskeyRange (gen : List UInt8 → Option (List UInt8 × List UInt8)) : Prop :=
  ∀ rng pk rest, gen rng = some (pk, rest) → leNat pk ≤ 999999

/-- the fixed code satisfies it … -/
theorem passkey_range_fixed : PasskeyRange createPasskey :=
  fun rng pk rest h => (passkey_lt_million rng pk rest h).2

/-- … the code at 193dfc0 did not: RNG bytes ff ff ff are returned as passkey 16 777 215. -/
theorem passkey_old_witness : ¬ PasskeyRange createPasskeyOld := by
  intro h
  have := h [0xff, 0xff, 0xff] ([0xff, 0xff, 0xff] ++ List.replicate 13 0) [] rfl
  revert this
  decide

/-! ## termination -/

/-- **Termination.** `create_passkey` waits for more RNG bytes for ever (model: `none`) exactly on
    the streams all of whose complete draws are rejected. -/
theorem passkey_exhausted_iff (rng : List UInt8) :
    createPasskey rng = none ↔
      ∀ n b0 b1 b2 tl, rng.drop (3 * n) = b0 :: b1 :: b2 :: tl → draw b0 b1 b2 > 999999 := by
  unfold createPasskey
  rw [Option.map_eq_none_iff]
  fun_induction drawLoop rng with
  | case1 b0 b1 b2 tl hrej ih =>
    rw [ih]
    constructor
    · intro h n
      cases n with
      | zero =>
        intro c0 c1 c2 tl' e
        simp only [Nat.mul_zero, List.drop_zero, List.cons.injEq] at e
        obtain ⟨rfl, rfl, rfl, _⟩ := e
        exact hrej
      | succ m =>
        intro c0 c1 c2 tl' e
        have : 3 * (m + 1) = 3 * m + 3 := by omega
        rw [this] at e
        exact h m c0 c1 c2 tl' (by simpa using e)
    · intro h n c0 c1 c2 tl' e
      refine h (n + 1) c0 c1 c2 tl' ?_
      have : 3 * (n + 1) = 3 * n + 3 := by omega
      rw [this]
      simpa using e
  | case2 b0 b1 b2 tl hacc =>
    simp only [reduceCtorEq, false_iff]
    intro h
    exact hacc (h 0 b0 b1 b2 tl rfl)
  | case3 l hl =>
    simp only [true_iff]
    intro n c0 c1 c2 tl' e
    exfalso
    cases n with
    | zero => exact hl c0 c1 c2 tl' (by simpa using e)
    | succ m =>
      have hlen : (l.drop (3 * (m + 1))).length = tl'.length + 3 := by rw [e]; simp
      rw [List.length_drop] at hlen
      match l, hl with
      | [], _ => simp at hlen
      | [_], _ => simp at hlen; omega
      | [_, _], _ => simp at hlen; omega
      | a :: b :: c :: r, hl => exact hl a b c r rfl

/-- as soon as the stream contains one accepted draw (at a draw boundary) a passkey is returned -/
theorem passkey_terminates (rng : List UInt8) (n : Nat) (b0 b1 b2 : UInt8) (tl : List UInt8)
    (hn : rng.drop (3 * n) = b0 :: b1 :: b2 :: tl) (hacc : draw b0 b1 b2 ≤ 999999) :
    (createPasskey rng).isSome := by
  cases h : createPasskey rng with
  | some _ => rfl
  | none =>
    have := (passkey_exhausted_iff rng).mp h n b0 b1 b2 tl hn
    omega

-- non-vacuity of `passkey_terminates`: second draw accepted
example : ([0xff, 0xff, 0xff, 1, 2, 3] : List UInt8).drop (3 * 1) = 1 :: 2 :: 3 :: [] ∧
    draw 1 2 3 ≤ 999999 := by decide

/-! ## uniformity -/

/-- `tripleOf w hi` is a draw with value `w` -/
theorem draw_tripleOf (w : Nat) (hw : w < 2 ^ 20) (hi : UInt8) :
    ∀ b0 b1 b2, tripleOf w hi = [b0, b1, b2] → draw b0 b1 b2 = w := by
  intro b0 b1 b2 h
  have hh := hi.toNat_lt
  simp only [tripleOf, List.cons.injEq, and_true] at h
  obtain ⟨rfl, rfl, rfl⟩ := h
  rw [draw_eq]
  simp only [UInt8.toNat_ofNat']
  omega

/-- and it is the only one with these four unused bits -/
theorem tripleOf_draw (b0 b1 b2 : UInt8) : tripleOf (draw b0 b1 b2) b2 = [b0, b1, b2] := by
  have h0 := b0.toNat_lt
  have h1 := b1.toNat_lt
  have h2 := b2.toNat_lt
  have e0 : draw b0 b1 b2 % 256 = b0.toNat := by rw [draw_eq]; omega
  have e1 : draw b0 b1 b2 / 256 % 256 = b1.toNat := by rw [draw_eq]; omega
  have e2 : draw b0 b1 b2 / 65536 % 16 + 16 * (b2.toNat / 16) = b2.toNat := by rw [draw_eq]; omega
  simp only [tripleOf, e0, e1, e2, UInt8.ofNat_toNat]

/-- **Uniformity of one draw.** The byte triples with value `w < 2^20` are exactly the 16 triples
    `tripleOf w hi` (`hi` ranging over the 16 values of the unused bits): every 20 bit value, hence
    every passkey, has the same number of pre-images. -/
theorem draw_eq_iff (w : Nat) (hw : w < 2 ^ 20) (b0 b1 b2 : UInt8) :
    draw b0 b1 b2 = w ↔ [b0, b1, b2] = tripleOf w b2 := by
  constructor
  · intro h; rw [← h, tripleOf_draw]
  · intro h; exact draw_tripleOf w hw b2 b0 b1 b2 h.symm

theorem retarget_length (w : Nat) (rng : List UInt8) : (retarget w rng).length = rng.length := by
  fun_induction retarget w rng with
  | case1 b0 b1 b2 tl hrej ih => simp [ih]
  | case2 b0 b1 b2 tl hacc => simp [tripleOf]
  | case3 l hl => rfl

/-- **Uniformity of the generator (1).** If the code returns passkey value `v` on a stream, it
    returns `w` on the retargeted stream, leaving the same RNG bytes unconsumed. -/
theorem retarget_value (w : Nat) (hw : w ≤ 999999) (rng : List UInt8) (v : Nat) (rest : List UInt8)
    (h : drawLoop rng = some (v, rest)) : drawLoop (retarget w rng) = some (w, rest) := by
  fun_induction retarget w rng with
  | case1 b0 b1 b2 tl hrej ih =>
    simp only [drawLoop, hrej, if_true] at h ⊢
    exact ih h
  | case2 b0 b1 b2 tl hacc =>
    simp only [drawLoop, hacc, if_false, Option.some.injEq, Prod.mk.injEq] at h
    obtain ⟨_, rfl⟩ := h
    have hd := draw_tripleOf w (by omega) b2
    simp only [tripleOf] at hd ⊢
    simp only [List.cons_append, List.nil_append, drawLoop, hd _ _ _ rfl]
    simp only [show ¬ w > 999999 by omega, if_false]
  | case3 l hl =>
    exfalso
    match l, hl, h with
    | [], _, h => simp [drawLoop] at h
    | [_], _, h => simp [drawLoop] at h
    | [_, _], _, h => simp [drawLoop] at h
    | a :: b :: c :: r, hl, _ => exact hl a b c r rfl

/-- **Uniformity of the generator (2).** Retargeting back gives the original stream: `retarget w`
    and `retarget v` are mutually inverse bijections between the streams producing `v` and the
    streams producing `w`. -/
theorem retarget_inverse (w : Nat) (hw : w ≤ 999999) (rng : List UInt8) (v : Nat) (rest : List UInt8)
    (h : drawLoop rng = some (v, rest)) : retarget v (retarget w rng) = rng := by
  fun_induction retarget w rng with
  | case1 b0 b1 b2 tl hrej ih =>
    simp only [drawLoop, hrej, if_true] at h
    simp only [retarget, hrej, if_true, ih h]
  | case2 b0 b1 b2 tl hacc =>
    simp only [drawLoop, hacc, if_false, Option.some.injEq, Prod.mk.injEq] at h
    obtain ⟨rfl, rfl⟩ := h
    have hd := draw_tripleOf w (by omega) b2
    have hb := b2.toNat_lt
    have hk : (UInt8.ofNat (w / 65536 % 16 + 16 * (b2.toNat / 16))).toNat / 16 = b2.toNat / 16 := by
      simp only [UInt8.toNat_ofNat']; omega
    have ht := tripleOf_draw b0 b1 b2
    simp only [tripleOf] at hd ht ⊢
    simp only [List.cons_append, List.nil_append, retarget, hd _ _ _ rfl,
      show ¬ w > 999999 by omega, if_false, tripleOf, hk, ht]
  | case3 l hl => simp only [retarget]

-- non-vacuity of the `retarget` theorems: a stream producing 123456 after one rejected draw
example : drawLoop [0xff, 0xff, 0x0f, 0x40, 0xe2, 0xa1, 9] = some (123456, [9]) := by decide
example : retarget 999999 [0xff, 0xff, 0x0f, 0x40, 0xe2, 0xa1, 9] =
    [0xff, 0xff, 0x0f, 0x3f, 0x42, 0xaf, 9] := by decide

end BluetoeModel.Crypto.Passkey
