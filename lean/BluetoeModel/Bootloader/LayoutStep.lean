import BluetoeModel.Bootloader.LayoutSim
/-!
  `bootloader_write_data`, `bootloader_progress_data`, the notification queue and the simulation
  relation.
-/
namespace BluetoeModel.Bootloader

/-- bytes `bootloader_write_data` moves into the buffers; ghost function with the structure of
    `dataWrite` -/
def dataTaken (cfg : Cfg) (c : Ctl) (bs : List UInt8) : Nat :=
  if !c.inFlash then 0
  else if bs.isEmpty then 0
  else if (c.buf c.next).freeSize cfg.page = 0 then
    let f := findNextBuffer cfg c
    if !f.2.2 then 0
    else writeTaken cfg (bs.length + 1) f.1 bs
  else writeTaken cfg (bs.length + 1) c bs

theorem dataWrite_sim {cfg : Cfg} (wf : cfg.WF) (c : Ctl) (bs : List UInt8) (L : Lay) (h : Sim cfg c L)
    (hok : CtlOK cfg c) (hfl : c.inFlash = true) :
    LoopOK cfg c L bs [] (dataWrite cfg c bs) (dataTaken cfg c bs) := by
  unfold dataWrite dataTaken
  simp only [hfl, Bool.not_true, Bool.false_eq_true, if_false]
  by_cases hemp : bs.isEmpty = true
  · simp only [hemp, if_true]
    have : bs = [] := by simpa using hemp
    subst this
    exact ⟨Nat.le_refl _, fun _ => rfl, fun hx => absurd rfl hx, h, by simp [Lay.feed, flashes], rfl⟩
  · simp only [hemp, Bool.false_eq_true, if_false]
    have hne : bs ≠ [] := by simpa using hemp
    have hlen : 0 < bs.length := List.length_pos_iff.mpr hne
    by_cases hfill : (c.buf c.next).st = .filling
    · have hptr := (h.2.2.cur.1 hfill).2.1
      have hfree : ¬ (c.buf c.next).freeSize cfg.page = 0 := by
        unfold Buf.freeSize; rw [if_pos hfill]; omega
      simp only [hfree, if_false]
      exact writeLoop_sim wf _ c bs [] L h hok hfill (by omega)
    · have hfree : (c.buf c.next).freeSize cfg.page = 0 := by
        unfold Buf.freeSize; rw [if_neg hfill]
      simp only [hfree, if_true]
      by_cases hfn : (findNextBuffer cfg c).2.2 = true
      · simp only [hfn, Bool.not_true, Bool.false_eq_true, if_false]
        obtain ⟨g1, g2, g3, g4⟩ := findNextBuffer_sim wf.1 h hfill hfn
        have hok2 := (findNextBuffer_ok wf c hok).ctl
        have key := writeLoop_sim wf (bs.length + 1) _ bs (findNextBuffer cfg c).2.1 L g1 hok2 g2 (by omega)
        exact ⟨key.le, key.all, key.part, key.sim, by rw [key.effs, g3]; rfl, by rw [key.inFlash, g4]⟩
      · simp only [hfn, Bool.not_false, if_true]
        obtain ⟨f1, f2⟩ := findNextBuffer_fail hfn
        rw [f1, f2]
        exact ⟨Nat.zero_le _, fun hz => absurd hz (by simp [bufferOverrunAttempt]), fun _ => ⟨rfl, hlen⟩, h,
          by simp [Lay.feed, flashes], rfl⟩

/-- `bootloader_progress_data` with a page flash outstanding -/
theorem progress_sim {cfg : Cfg} {c : Ctl} {L : Lay} (h : Sim cfg c L) (hb : 0 < L.busy) :
    Sim cfg (progressData c) { L with busy := L.busy - 1 } := by
  obtain ⟨hn, hu, hs⟩ := h
  unfold progressData
  refine ⟨?_, ?_, ?_⟩
  · show (c.setBuf c.used (c.buf c.used).free).next < 2; rw [setBuf_next]; exact hn
  · show (c.used + 1) % 2 < 2; omega
  · show SimB cfg ((c.setBuf c.used (c.buf c.used).free).buf (c.setBuf c.used (c.buf c.used).free).next)
      ((c.setBuf c.used (c.buf c.used).free).buf (((c.setBuf c.used (c.buf c.used).free).next + 1) % 2))
      (c.setBuf c.used (c.buf c.used).free).start
      (decide ((c.used + 1) % 2 = (c.setBuf c.used (c.buf c.used).free).next)) _
    rw [setBuf_next, setBuf_start]
    by_cases hun : c.used = c.next
    · rw [hun, buf_setBuf_self, buf_setBuf_next_other c _ hn]
      have hd : decide ((c.next + 1) % 2 = c.next) = false := by
        rcases lt2 hn with a | a <;> rw [a] <;> rfl
      rw [hd]
      rw [hun] at hs
      simp only [decide_true] at hs
      exact progress_sim_next hs hb
    · have huo : c.used = (c.next + 1) % 2 := by omega
      rw [huo, buf_setBuf_self, buf_setBuf_other_next c _ hn]
      have hd : decide (((c.next + 1) % 2 + 1) % 2 = c.next) = true := by
        rw [other_other hn]; simp
      rw [hd]
      have hdu : decide (c.used = c.next) = false := by simpa using hun
      rw [hdu] at hs
      exact progress_sim_other hs hb

/-- `Sim` does not look at the opcode, the checksum, the error code … -/
theorem Sim.congr {cfg : Cfg} {c c' : Ctl} {L : Lay} (h : Sim cfg c L) (e1 : c'.next = c.next)
    (e2 : c'.used = c.used) (e3 : c'.start = c.start) (e4 : c'.b0 = c.b0) (e5 : c'.b1 = c.b1) : Sim cfg c' L := by
  unfold Sim Ctl.buf at *
  rw [e1, e2, e3, e4, e5]
  exact h

/-! ### the notification queue: only the progress characteristic's entry matters here -/

theorem dequeue_q2 (s : Sys) :
    ((dequeue s).2 = some 2 → s.q2 = true ∧ (dequeue s).1.q2 = false) ∧
    ((dequeue s).2 ≠ some 2 → (dequeue s).1.q2 = s.q2) ∧
    (∀ i, (dequeue s).2 = some i → i < 3) := by
  have h3 : s.qnext % 3 = 0 ∨ s.qnext % 3 = 1 ∨ s.qnext % 3 = 2 := by omega
  unfold dequeue
  dsimp only
  rcases h3 with h | h | h
  · have h1 : (s.qnext + 1) % 3 = 1 := by omega
    have h2 : (s.qnext + 2) % 3 = 2 := by omega
    rw [h, h1, h2]
    cases hq0 : s.q0 <;> cases hq1 : s.q1 <;> cases hq2 : s.q2 <;> simp [Sys.q, Sys.setQ, hq0, hq1, hq2]
  · have h1 : (s.qnext + 1) % 3 = 2 := by omega
    have h2 : (s.qnext + 2) % 3 = 0 := by omega
    rw [h, h1, h2]
    cases hq0 : s.q0 <;> cases hq1 : s.q1 <;> cases hq2 : s.q2 <;> simp [Sys.q, Sys.setQ, hq0, hq1, hq2]
  · have h1 : (s.qnext + 1) % 3 = 0 := by omega
    have h2 : (s.qnext + 2) % 3 = 1 := by omega
    rw [h, h1, h2]
    cases hq0 : s.q0 <;> cases hq1 : s.q1 <;> cases hq2 : s.q2 <;> simp [Sys.q, Sys.setQ, hq0, hq1, hq2]

end BluetoeModel.Bootloader
