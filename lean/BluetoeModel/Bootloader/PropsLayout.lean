import BluetoeModel.Bootloader.LayoutCtrl
import BluetoeModel.Bootloader.Props
/-!
  # C39, third clause — "… and flashes received data at the addresses the client specified with
  the announced checksum chain."

  The theorems are about the code with fixes boot-01, boot-02, boot-03 applied.

  **Specification.** `Ghost` (computed from the operations and their ATT results only): while flash
  mode is on, `Lay` = the address of the first received byte not yet handed to `start_flash`
  (`cur`), the bytes that wait (`pend`), the checksum chain (`crc`). A received byte is appended;
  when the address behind it is a page boundary the page is flashed (`Lay.push`); an accepted Flush
  flashes what waits (`Lay.flush`). A flashed page is `pageImage`: the waiting bytes at their
  addresses, the rest of the page as `read_mem` returned it for exactly those addresses.
  `specCtrl` says which control point writes start / keep / end flash mode.

  **Theorems** (every configuration, every legal history, any next operation):
  * `flash_layout` — the `start_flash` calls of the operation are exactly the ones of the
    specification (same order, same addresses, same page content);
  * `spec_stream` — in the specification nothing is dropped or duplicated: the address of the next
    byte is `s0 + number of bytes taken since Start Flash(s0)`, and the checksum is the chain
    `crc( s0 )`, then every taken byte in order;
  * `data_taken` — a data write answered with success is taken completely; one answered
    `buffer_overrun_attempt` (0x83) is taken up to the end of a page (a strict prefix); outside
    flash mode it is refused (0x80) and nothing is taken;
  * `reported_checksum_start_flash` / `reported_checksum_flush` — the checksum in the response
    notification of Start Flash and of Flush is the specification's chain at the time it is sent.

  **Preconditions** (`Legal`), exactly:
  1. handler contract: `end_flash` is called only for a `start_flash` call that has not been
     answered yet (`0 < owed`);
  2. an *accepted* Start Flash arrives only when no page flash is outstanding (`owed = 0`) and no
     progress notification is queued (`q2 = false`).
  Without 2 the statement is false (`flash_layout_unrestricted_witness`, known finding
  `C39:flashed-page-mismatch:restart-while-page-flash-outstanding`): Stop Flash / Start Flash free
  the page buffers, the `end_flash` of the older page then frees the buffer that is being filled.
  The checksum function enters only through the chaining law `crcAdd_append`.
-/
namespace BluetoeModel.Bootloader

/-- bytes of a data write that are moved into the page buffers (sum of `moved`) -/
def taken (cfg : Cfg) (s : Sys) : Op → Nat
  | .data v => dataTaken cfg s.ctl v
  | _ => 0

/-- one operation, seen from the specification; `out` is what the implementation answered (only
    the ATT result and the kind of PDU are used), `k` the number of data bytes taken -/
def Ghost.step (cfg : Cfg) (g : Ghost) (op : Op) (out : Out) (k : Nat) : Ghost × List Effect :=
  match op with
  | .ctrl v => match out.res with
      | some code => specCtrl cfg g v code
      | none => (g, [])
  | .data v => match g.lay with
      | none => (g, [])
      | some L =>
        ({ g with lay := some (L.feed cfg (v.take k)).1, owed := g.owed + (L.feed cfg (v.take k)).2.length,
                  recv := g.recv ++ v.take k }, (L.feed cfg (v.take k)).2)
  | .endflash => ({ g with owed := g.owed - 1 }, [])
  | .output =>
    (if out.pdu = .progress then { g with lay := g.lay.map (fun L => { L with busy := L.busy - 1 }) } else g, [])

/-- the preconditions, see the file comment -/
def Legal (cfg : Cfg) (s : Sys) (g : Ghost) : Op → Prop
  | .endflash => 0 < g.owed
  | .ctrl v => ∀ rest, v = 3 :: rest → (step cfg s (.ctrl v)).2.res = some 0 → g.owed = 0 ∧ s.q2 = false
  | _ => True

/-- legal histories together with their specification state -/
inductive FlashReach (cfg : Cfg) : Sys → Ghost → Prop where
  | init : FlashReach cfg Sys.init Ghost.init
  | step {s g} (op : Op) : FlashReach cfg s g → Legal cfg s g op →
      FlashReach cfg (step cfg s op).1 (g.step cfg op (step cfg s op).2 (taken cfg s op)).1

theorem progressData_fields (c : Ctl) :
    (progressData c).opcode = c.opcode ∧ (progressData c).inFlash = c.inFlash := by
  unfold progressData
  exact ⟨(setBuf_fields _ _ _).1, setBuf_inFlash _ _ _⟩

theorem readData_fields (c : Ctl) :
    (readData c).1.opcode = c.opcode ∧ (readData c).1.inFlash = c.inFlash := by
  by_cases h8 : c.opcode = 8
  · rw [(readData_fst c h8).1]; exact ⟨(readNext_fields c).2.2.1, readNext_inFlash c⟩
  · rw [readData_other c h8]; exact ⟨rfl, rfl⟩

theorem readData_flashes (c : Ctl) : flashes (readData c).2.2.1 = [] := by
  by_cases h8 : c.opcode = 8
  · rw [(readData_fst c h8).2]; rfl
  · rw [readData_other c h8]; rfl

/-- one legal operation: the invariant is kept and the `start_flash` calls are the specification's -/
theorem flash_step {cfg : Cfg} (wf : cfg.WF) (s : Sys) (g : Ghost) (hg : GInv cfg s.ctl s.q2 g)
    (hok : CtlOK cfg s.ctl) (hrm : ReadMode s.ctl) (op : Op) (hl : Legal cfg s g op) :
    GInv cfg (step cfg s op).1.ctl (step cfg s op).1.q2 (g.step cfg op (step cfg s op).2 (taken cfg s op)).1 ∧
    flashes (step cfg s op).2.effs = (g.step cfg op (step cfg s op).2 (taken cfg s op)).2 := by
  cases op with
  | ctrl v =>
    have hsim := ctrlWrite_sim wf s.ctl s.q2 g v hg (by
      intro rest c' n d effs hv heq
      refine hl rest hv ?_
      simp only [step, heq])
    simp only [step, Ghost.step]
    generalize ctrlWrite cfg s.ctl v = res at hsim
    cases res with
    | oob => exact ⟨hg, rfl⟩
    | done c code n d effs => exact hsim
  | data v =>
    simp only [step, Ghost.step, taken]
    have hop := (dataWrite_ok wf s.ctl v hok).opcode
    cases hlay : g.lay with
    | none =>
      have h2 := hg.2
      rw [hlay] at h2
      have hnoop := dataWrite_noop cfg s.ctl v (.inl h2)
      have heff : (dataWrite cfg s.ctl v).2.2 = [] := by
        unfold dataWrite; simp [h2]
      refine ⟨?_, by rw [heff]; rfl⟩
      show GInv cfg (dataWrite cfg s.ctl v).1 s.q2 g
      rw [hnoop]; exact hg
    | some L =>
      have h2 := hg.2
      rw [hlay] at h2
      obtain ⟨hfl, hsim, hG⟩ := h2
      have key := dataWrite_sim wf s.ctl v L hsim hok hfl
      refine ⟨⟨fun h35 => ?_, ?_⟩, by rw [key.effs]; rfl⟩
      · show (dataWrite cfg s.ctl v).1.inFlash = true
        rw [key.inFlash]; exact hfl
      · show (dataWrite cfg s.ctl v).1.inFlash = true ∧ Sim cfg (dataWrite cfg s.ctl v).1 _ ∧ _
        refine ⟨by rw [key.inFlash]; exact hfl, key.sim, ?_⟩
        rw [feed_busy]
        show g.owed + _ + _ ≤ _
        omega
  | endflash =>
    simp only [step, Ghost.step]
    refine ⟨⟨hg.1, ?_⟩, rfl⟩
    have h2 := hg.2
    revert h2
    show (match g.lay with | none => _ | some L => _) → (match g.lay with | none => _ | some L => _)
    cases g.lay with
    | none => exact id
    | some L =>
      intro h2
      refine ⟨h2.1, h2.2.1, ?_⟩
      have : 0 < g.owed := hl
      have := h2.2.2
      show g.owed - 1 + 1 ≤ L.busy
      split at this <;> omega
  | output =>
    have hq := dequeue_ctl s
    obtain ⟨hq2a, hq2b, hq3⟩ := dequeue_q2 s
    rcases hd : dequeue s with ⟨s1, i⟩
    rw [hd] at hq hq2a hq2b hq3
    simp only [step, Ghost.step, hd]
    have e1 : s1.ctl = s.ctl := hq
    match i with
    | none =>
      have e2 : s1.q2 = s.q2 := hq2b (by simp)
      refine ⟨?_, rfl⟩
      show GInv cfg s1.ctl s1.q2 g
      rw [e1, e2]; exact hg
    | some 0 =>
      have e2 : s1.q2 = s.q2 := hq2b (by simp)
      refine ⟨?_, rfl⟩
      show GInv cfg s1.ctl s1.q2 (if Pdu.cp _ = Pdu.progress then _ else g)
      rw [if_neg (by simp), e1, e2]; exact hg
    | some 1 =>
      have e2 : s1.q2 = s.q2 := hq2b (by simp)
      refine ⟨?_, readData_flashes s1.ctl⟩
      show GInv cfg (readData s1.ctl).1 s1.q2 (if Pdu.data _ = Pdu.progress then _ else g)
      rw [if_neg (by simp), e1, e2]
      by_cases h8 : s.ctl.opcode = 8
      · have hnf := hrm h8
        have h2 := hg.2
        cases hlay : g.lay with
        | none =>
          refine ⟨fun h35 => ?_, ?_⟩
          · rw [(readData_fields s.ctl).1, h8] at h35; omega
          · rw [hlay]; show (readData s.ctl).1.inFlash = false
            rw [(readData_fields s.ctl).2]; exact hnf
        | some L => rw [hlay] at h2; rw [h2.1] at hnf; cases hnf
      · rw [readData_other s.ctl h8]; exact hg
    | some (n + 2) =>
      have hn : n + 2 < 3 := hq3 _ rfl
      have hn0 : n = 0 := by omega
      subst hn0
      obtain ⟨q2t, q2f⟩ := hq2a rfl
      refine ⟨?_, rfl⟩
      show GInv cfg (progressData s1.ctl) s1.q2 (if Pdu.progress = Pdu.progress then _ else g)
      have q2f' : s1.q2 = false := q2f
      rw [if_pos rfl, e1, q2f']
      have h2 := hg.2
      refine ⟨fun h35 => ?_, ?_⟩
      · rw [(progressData_fields s.ctl).2]; exact hg.1 ((progressData_fields s.ctl).1 ▸ h35)
      · revert h2
        cases g.lay with
        | none =>
          intro h2
          show (progressData s.ctl).inFlash = false
          rw [(progressData_fields s.ctl).2]; exact h2
        | some L =>
          intro h2
          rw [q2t] at h2
          have hb : 0 < L.busy := by have := h2.2.2; simp only [if_true] at this; omega
          refine ⟨by rw [(progressData_fields s.ctl).2]; exact h2.1, progress_sim h2.2.1 hb, ?_⟩
          have := h2.2.2
          simp only [if_true] at this
          show g.owed + (if false = true then 1 else 0) ≤ L.busy - 1
          simp only [Bool.false_eq_true, if_false]; omega

theorem ginv_init (cfg : Cfg) : GInv cfg Sys.init.ctl Sys.init.q2 Ghost.init :=
  ⟨fun h => by rcases h with h | h <;> exact absurd h (by decide), rfl⟩

theorem FlashReach.reach {cfg : Cfg} {s : Sys} {g : Ghost} (r : FlashReach cfg s g) : Reach cfg s := by
  induction r with
  | init => exact .init
  | step op _ _ ih => exact .step op ih

theorem FlashReach.inv {cfg : Cfg} (wf : cfg.WF) {s : Sys} {g : Ghost} (r : FlashReach cfg s g) :
    GInv cfg s.ctl s.q2 g := by
  induction r with
  | init => exact ginv_init cfg
  | step op r hl ih =>
    have hr := r.reach.inv wf
    exact (flash_step wf _ _ ih hr.1 hr.2.2 op hl).1

/-! ## "flashes received data at the addresses the client specified" -/

/-- **Layout.** For every configuration, after every legal history, whatever the next (legal)
    operation is: the `start_flash( address, page content )` calls it makes are exactly the calls
    of the specification — the waiting bytes of the client's stream at their addresses, page by
    page, in order. -/
theorem flash_layout {cfg : Cfg} (wf : cfg.WF) {s : Sys} {g : Ghost} (r : FlashReach cfg s g) (op : Op)
    (hl : Legal cfg s g op) :
    flashes (step cfg s op).2.effs = (g.step cfg op (step cfg s op).2 (taken cfg s op)).2 :=
  have hr := r.reach.inv wf
  (flash_step wf s g (r.inv wf) hr.1 hr.2.2 op hl).2

/-- **How much of a data write is taken.** In flash mode: everything when the write is answered
    with success, a strict prefix when it is answered `buffer_overrun_attempt`; no other answer
    occurs. Outside flash mode the write is refused and nothing is taken. -/
theorem data_taken {cfg : Cfg} (wf : cfg.WF) {s : Sys} {g : Ghost} (r : FlashReach cfg s g) (v : List UInt8) :
    (g.lay = none → (step cfg s (.data v)).2.res = some noOperationInProgress ∧ (step cfg s (.data v)).2.effs = []) ∧
    (g.lay ≠ none → taken cfg s (.data v) ≤ v.length ∧
      ((step cfg s (.data v)).2.res = some 0 → taken cfg s (.data v) = v.length) ∧
      ((step cfg s (.data v)).2.res ≠ some 0 →
        (step cfg s (.data v)).2.res = some bufferOverrunAttempt ∧ taken cfg s (.data v) < v.length)) := by
  have hg := r.inv wf
  have hok := (r.reach.inv wf).1
  constructor
  · intro hlay
    have h2 := hg.2
    rw [hlay] at h2
    have h2' : s.ctl.inFlash = false := h2
    simp only [step]
    unfold dataWrite
    simp [h2']
  · intro hlay
    cases hl : g.lay with
    | none => exact absurd hl hlay
    | some L =>
      have h2 := hg.2
      rw [hl] at h2
      have key := dataWrite_sim wf s.ctl v L h2.2.1 hok h2.1
      simp only [step, taken]
      refine ⟨key.le, fun h => key.all (by simpa using h), fun h => ?_⟩
      have := key.part (by intro hz; exact h (by rw [hz]))
      exact ⟨by rw [this.1], this.2⟩

/-! ## the specification itself: nothing dropped, nothing duplicated, checksum chain -/

theorem push_pos (cfg : Cfg) (L : Lay) (b : UInt8) :
    (L.push cfg b).1.cur + (L.push cfg b).1.pend.length = L.cur + L.pend.length + 1 ∧
    (L.push cfg b).1.crc = crcAdd L.crc [b] := by
  unfold Lay.push; split <;> simp <;> omega

theorem feed_pos (cfg : Cfg) (bs : List UInt8) : ∀ L : Lay,
    (L.feed cfg bs).1.cur + (L.feed cfg bs).1.pend.length = L.cur + L.pend.length + bs.length ∧
    (L.feed cfg bs).1.crc = crcChain L.crc bs := by
  induction bs with
  | nil => intro L; exact ⟨rfl, rfl⟩
  | cons b bs ih =>
    intro L
    simp only [Lay.feed, List.length_cons]
    obtain ⟨h1, h2⟩ := ih (L.push cfg b).1
    obtain ⟨p1, p2⟩ := push_pos cfg L b
    refine ⟨by omega, ?_⟩
    rw [h2, p2]; rfl

/-- what the specification state means in terms of the client's stream -/
def Ghost.StreamOK (g : Ghost) : Prop :=
  ∀ L, g.lay = some L →
    L.cur + L.pend.length = g.s0 + g.recv.length ∧ L.crc = crcChain (crcOfAddress g.s0) g.recv

theorem specCtrl_stream (cfg : Cfg) (g : Ghost) (v : List UInt8) (code : Nat) (h : g.StreamOK) :
    (specCtrl cfg g v code).1.StreamOK := by
  unfold specCtrl
  split
  · exact h
  · split
    · split
      · split
        · intro L hL
          simp only [Option.some.injEq] at hL
          subst hL
          exact ⟨rfl, rfl⟩
        · intro L hL; cases hL
      · intro L hL; cases hL
    · split
      · split
        · next L hlay =>
          split
          · intro L' hL'
            simp only [Option.some.injEq] at hL'
            subst hL'
            obtain ⟨a, b⟩ := h L hlay
            exact ⟨by simp [Lay.flush]; exact a, b⟩
          · intro L hL; cases hL
        · intro L hL; cases hL
      · split
        · split
          · exact h
          · intro L hL; cases hL
        · split
          · intro L hL; cases hL
          · exact h

theorem Ghost.step_stream (cfg : Cfg) (g : Ghost) (op : Op) (out : Out) (k : Nat) (h : g.StreamOK) :
    (g.step cfg op out k).1.StreamOK := by
  cases op with
  | ctrl v =>
    simp only [Ghost.step]
    split
    · exact specCtrl_stream cfg g v _ h
    · exact h
  | data v =>
    simp only [Ghost.step]
    split
    · exact h
    · next L hlay =>
      intro L' hL'
      simp only [Option.some.injEq] at hL'
      subst hL'
      obtain ⟨a, b⟩ := h L hlay
      obtain ⟨f1, f2⟩ := feed_pos cfg (v.take k) L
      refine ⟨?_, ?_⟩
      · show _ = g.s0 + (g.recv ++ v.take k).length
        rw [f1, List.length_append]; omega
      · show _ = crcChain (crcOfAddress g.s0) (g.recv ++ v.take k)
        rw [f2, b, crcChain_append]
  | endflash => exact h
  | output =>
    simp only [Ghost.step]
    split
    · intro L' hL'
      cases hlay : g.lay with
      | none => rw [hlay] at hL'; cases hL'
      | some L =>
        rw [hlay] at hL'
        simp only [Option.map_some, Option.some.injEq] at hL'
        subst hL'
        exact h L hlay
    · exact h

/-- **Stream.** After every legal history, in flash mode: the device address of the next data byte
    is the client's start address plus the number of bytes taken since the Start Flash procedure
    (`pend` are the last of them, `cur` the address of the first waiting one), and the checksum is
    the chain over `crc( start address )` and exactly those bytes, in order. -/
theorem spec_stream {cfg : Cfg} {s : Sys} {g : Ghost} (r : FlashReach cfg s g) : g.StreamOK := by
  induction r with
  | init => intro L hL; cases hL
  | step op _ _ ih => exact Ghost.step_stream cfg _ op _ _ ih

/-! ## "with the announced checksum chain" -/

/-- the control point notification is produced from the controller state at the time it is sent -/
theorem output_cp {cfg : Cfg} (s : Sys) (v : List UInt8) (h : (step cfg s .output).2.pdu = .cp v) :
    v = readControlPoint cfg s.ctl := by
  have hq := dequeue_ctl s
  simp only [step] at h
  generalize dequeue s = d at hq h
  obtain ⟨s1, i⟩ := d
  have e1 : s1.ctl = s.ctl := hq
  match i with
  | none => simp at h
  | some 0 => simp only [Pdu.cp.injEq] at h; rw [← h, e1]
  | some 1 => simp at h
  | some (n + 2) => simp at h

/-- **Checksum of the Start Flash response**: opcode, MTU, and the specification's chain (which is
    `crc( start address )` when no data has been received yet, `spec_stream`). -/
theorem reported_checksum_start_flash {cfg : Cfg} (wf : cfg.WF) {s : Sys} {g : Ghost} (r : FlashReach cfg s g)
    (h3 : s.ctl.opcode = 3) :
    ∃ L, g.lay = some L ∧ readControlPoint cfg s.ctl = [3, 23] ++ le L.crc 4 := by
  have hg := r.inv wf
  have hfl := hg.1 (.inl h3)
  have h2 := hg.2
  cases hlay : g.lay with
  | none => rw [hlay] at h2; rw [h2] at hfl; cases hfl
  | some L =>
    rw [hlay] at h2
    refine ⟨L, rfl, ?_⟩
    unfold readControlPoint
    simp only [h3]
    rw [h2.2.1.2.2.crc]
    rfl

/-- **Checksum of the Flush response**: the specification's chain and the consecutive number. -/
theorem reported_checksum_flush {cfg : Cfg} (wf : cfg.WF) {s : Sys} {g : Ghost} (r : FlashReach cfg s g)
    (h5 : s.ctl.opcode = 5) :
    ∃ L, g.lay = some L ∧
      readControlPoint cfg s.ctl = 5 :: (le L.crc 4 ++ le (s.ctl.buf s.ctl.next).cons 2) := by
  have hg := r.inv wf
  have hfl := hg.1 (.inr h5)
  have h2 := hg.2
  cases hlay : g.lay with
  | none => rw [hlay] at h2; rw [h2] at hfl; cases hfl
  | some L =>
    rw [hlay] at h2
    refine ⟨L, rfl, ?_⟩
    unfold readControlPoint
    simp only [h5]
    rw [h2.2.1.2.2.crc]
    rfl

/-! ## non-vacuity and the excluded histories -/

/-- decidable form of `Legal` -/
def legalb (cfg : Cfg) (s : Sys) (g : Ghost) : Op → Bool
  | .endflash => decide (0 < g.owed)
  | .ctrl v => !(v.head? = some 3 && (step cfg s (.ctrl v)).2.res = some 0) || (decide (g.owed = 0) && !s.q2)
  | _ => true

theorem legalb_legal {cfg : Cfg} {s : Sys} {g : Ghost} {op : Op} (h : legalb cfg s g op = true) : Legal cfg s g op := by
  cases op with
  | endflash => show 0 < g.owed; simpa [legalb] using h
  | ctrl v =>
    intro rest hv hres
    subst hv
    simp [legalb, hres] at h
    exact h
  | data v => trivial
  | output => trivial

/-- A legal history (white list [0x1000,0x1040) ∪ [0x2000,0x2020), page 16): Start Flash at 0x100e,
    18 data bytes (page 0x1000 = 14 bytes read back + 2 client bytes and page 0x1010 = 16 client
    bytes are flashed, both buffers busy), `end_flash` for the first page and its progress
    notification, 2 more data bytes. The next Flush flashes page 0x1020 with those 2 bytes. -/
example : ∃ s g, FlashReach cfg1 s g ∧ Legal cfg1 s g (.ctrl [5]) ∧ g.recv.length = 20 ∧ g.owed = 1 ∧
    flashes (step cfg1 s (.ctrl [5])).2.effs =
      [.startFlash 0x1020 16 ([19, 20] ++ memRange 0x1022 14)] := by
  have r1 := FlashReach.step (cfg := cfg1) (.ctrl [3, 0x0e, 0x10, 0, 0, 0, 0, 0, 0]) .init (legalb_legal (by decide +kernel))
  have r2 := FlashReach.step .output r1 trivial
  have r3 := FlashReach.step (.data [1, 2, 3, 4, 5, 6, 7, 8, 9, 10, 11, 12, 13, 14, 15, 16, 17, 18]) r2 trivial
  have r4 := FlashReach.step .endflash r3 (legalb_legal (by decide +kernel))
  have r5 := FlashReach.step .output r4 trivial
  have r6 := FlashReach.step (.data [19, 20]) r5 trivial
  exact ⟨_, _, r6, legalb_legal (by decide +kernel), by decide +kernel, by decide +kernel, by decide +kernel⟩

/-- a 20 byte write that needs a third page buffer is answered `buffer_overrun_attempt`; 18 bytes are taken -/
example : (step cfg1 (step cfg1 (step cfg1 Sys.init (.ctrl [3, 0x0e, 0x10, 0, 0, 0, 0, 0, 0])).1 .output).1
      (.data [1, 2, 3, 4, 5, 6, 7, 8, 9, 10, 11, 12, 13, 14, 15, 16, 17, 18, 19, 20])).2.res = some bufferOverrunAttempt ∧
    taken cfg1 (step cfg1 (step cfg1 Sys.init (.ctrl [3, 0x0e, 0x10, 0, 0, 0, 0, 0, 0])).1 .output).1
      (.data [1, 2, 3, 4, 5, 6, 7, 8, 9, 10, 11, 12, 13, 14, 15, 16, 17, 18, 19, 20]) = 18 := by
  decide +kernel

/-- the statement with the handler contract (precondition 1) only … -/
def LegalU (g : Ghost) : Op → Prop
  | .endflash => 0 < g.owed
  | _ => True

inductive FlashReachU (cfg : Cfg) : Sys → Ghost → Prop where
  | init : FlashReachU cfg Sys.init Ghost.init
  | step {s g} (op : Op) : FlashReachU cfg s g → LegalU g op →
      FlashReachU cfg (step cfg s op).1 (g.step cfg op (step cfg s op).2 (taken cfg s op)).1

def flash_layout_unrestricted : Prop :=
  ∀ cfg : Cfg, cfg.WF → ∀ s g, FlashReachU cfg s g → ∀ op, LegalU g op →
    flashes (step cfg s op).2.effs = (g.step cfg op (step cfg s op).2 (taken cfg s op)).2

/-- … fails. Start Flash 0x1000, 16 data bytes (page 0x1000 is being flashed), Stop Flash,
    Start Flash 0x1010, 3 data bytes, the handler's `end_flash` for page 0x1000, two
    `l2cap_output`s (the second one sends the progress notification and frees the buffer that holds
    the 3 bytes), 13 more data bytes: page 0x1010 is flashed with the old memory content in its
    first 3 bytes instead of the client's bytes. -/
def restartOps : List Op :=
  [.ctrl [3, 0x00, 0x10, 0, 0, 0, 0, 0, 0],
   .data [1, 2, 3, 4, 5, 6, 7, 8, 9, 10, 11, 12, 13, 14, 15, 16],
   .ctrl [4],
   .ctrl [3, 0x10, 0x10, 0, 0, 0, 0, 0, 0],
   .data [1, 2, 3],
   .endflash, .output, .output]

theorem flash_layout_unrestricted_witness : ¬ flash_layout_unrestricted := by
  intro h
  have r0 : FlashReachU cfg1 _ _ := .init
  have r1 := FlashReachU.step (.ctrl [3, 0x00, 0x10, 0, 0, 0, 0, 0, 0]) r0 trivial
  have r2 := FlashReachU.step (.data [1, 2, 3, 4, 5, 6, 7, 8, 9, 10, 11, 12, 13, 14, 15, 16]) r1 trivial
  have r3 := FlashReachU.step (.ctrl [4]) r2 trivial
  have r4 := FlashReachU.step (.ctrl [3, 0x10, 0x10, 0, 0, 0, 0, 0, 0]) r3 trivial
  have r5 := FlashReachU.step (.data [1, 2, 3]) r4 trivial
  have r6 := FlashReachU.step .endflash r5 (by show 0 < _; decide +kernel)
  have r7 := FlashReachU.step .output r6 trivial
  have r8 := FlashReachU.step .output r7 trivial
  have := h cfg1 cfg1_wf _ _ r8 (.data [4, 5, 6, 7, 8, 9, 10, 11, 12, 13, 14, 15, 16]) trivial
  revert this
  decide +kernel

end BluetoeModel.Bootloader
