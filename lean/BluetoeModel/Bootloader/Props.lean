import BluetoeModel.Bootloader.Lemmas
/-!
  # C39 — The bootloader only touches white-listed memory

  "For any sequence of control point and data writes, the bootloader flashes, reads back and
  checksums only memory that lies entirely inside its white-listed regions, never reads beyond the
  bytes of a written control point value, and flashes received data at the addresses the client
  specified with the announced checksum chain."  — over all control point / data write sequences
  (any opcode, length, address, data size) × page sizes × region lists.

  The theorems are about the code with `fixes/boot-01-read-procedure-length-check.patch` and
  `fixes/boot-02-flash-only-white-listed-pages.patch` applied. What is proved:

  * `flash_effects_inside_regions` (full strength, every history, page size and region list):
    everything the bootloader flashes (`start_flash`), reads back (`read_mem`) and checksums
    (`public_checksum32`) lies entirely inside one white-listed region;
  * `control_point_reads_le_size` (full strength): `read_address` never reads behind the value;
  * `effects_inside_regions_partial`: the Read procedure's `public_read_mem` calls are inside the
    white list too, for every history that contains no `Hazard` step;
  * `effects_inside_regions_witness`: with a `Hazard` step they are not (known finding): a data
    write that arrives in flash mode while a Read procedure is the current control point procedure
    advances the `start_address` the Read procedure reads from.
  Not proved here (checked by the correspondence only): the third clause (data lands at the client's
  addresses with the announced checksum chain).
-/
namespace BluetoeModel.Bootloader

/-- every history of control point writes, data writes, handler `end_flash` calls and `l2cap_output`s -/
inductive Reach (cfg : Cfg) : Sys → Prop where
  | init : Reach cfg Sys.init
  | step {s} (op : Op) : Reach cfg s → Reach cfg (step cfg s op).1

/-- The excluded input: a non-empty data write that arrives while flash mode is on **and** the
    last control point write was an accepted Read procedure (opcode 8). -/
def Hazard (s : Sys) : Op → Prop
  | .data v => s.ctl.opcode = 8 ∧ s.ctl.inFlash = true ∧ v ≠ []
  | _ => False

/-- histories without a `Hazard` step -/
inductive ReachSafe (cfg : Cfg) : Sys → Prop where
  | init : ReachSafe cfg Sys.init
  | step {s} (op : Op) : ReachSafe cfg s → ¬ Hazard s op → ReachSafe cfg (step cfg s op).1

theorem ctlOK_init (cfg : Cfg) : CtlOK cfg Sys.init.ctl := ⟨.inl rfl, .inl rfl⟩

theorem readOK_init (cfg : Cfg) : ReadOK cfg Sys.init.ctl := fun h => absurd h (by decide)

/-- one step from a state with fine buffers: buffers stay fine, the control point value is not
    over-read, every effect is inside the white list — given `ReadOK`, which the step preserves
    unless it is a `Hazard` -/
theorem step_inv {cfg : Cfg} (wf : cfg.WF) (s : Sys) (h : CtlOK cfg s.ctl) (op : Op) :
    CtlOK cfg (step cfg s op).1.ctl ∧ (step cfg s op).2.oob = false ∧
    (ReadOK cfg s.ctl → AllInside cfg (step cfg s op).2.effs) ∧
    (ReadOK cfg s.ctl → ¬ Hazard s op → ReadOK cfg (step cfg s op).1.ctl) ∧
    (∀ e ∈ (step cfg s op).2.effs, e.flashInside cfg) := by
  cases op with
  | ctrl v =>
    have hw := ctrlWrite_ok wf h v
    simp only [step]
    generalize ctrlWrite cfg s.ctl v = res at hw
    cases res with
    | oob => exact absurd hw (fun x => x)
    | done c code n d effs =>
      exact ⟨hw.1, (by first | rfl | trivial), fun _ => hw.2.2, fun hr _ => hw.2.1 hr, fun e he => Effect.inside_flashInside (hw.2.2 e he)⟩
  | data v =>
    have hd := dataWrite_ok wf s.ctl v h
    simp only [step]
    refine ⟨hd.ctl, (by first | rfl | trivial), fun _ => hd.effs, ?_, fun e he => Effect.inside_flashInside (hd.effs e he)⟩
    intro hr hz
    by_cases h8 : s.ctl.opcode = 8
    · have hno : s.ctl.inFlash = false ∨ v = [] := by
        by_cases hf : s.ctl.inFlash = true
        · by_cases hv : v = []
          · exact .inr hv
          · exact absurd ⟨h8, hf, hv⟩ hz
        · exact .inl (by simpa using hf)
      show ReadOK cfg (dataWrite cfg s.ctl v).1
      rw [dataWrite_noop cfg s.ctl v hno]; exact hr
    · intro h8'
      exact absurd (hd.opcode ▸ h8') h8
  | endflash =>
    exact ⟨h, (by first | rfl | trivial), fun _ => AllInside.nil, fun hr _ => hr, fun e he => by cases he⟩
  | output =>
    have hq := dequeue_ctl s
    simp only [step]
    generalize dequeue s = d at hq
    obtain ⟨s1, i⟩ := d
    have h1 : CtlOK cfg s1.ctl := by rw [show s1.ctl = s.ctl from hq]; exact h
    have hr1 : ReadOK cfg s.ctl → ReadOK cfg s1.ctl := by rw [show s1.ctl = s.ctl from hq]; exact id
    match i with
    | none => exact ⟨h1, (by first | rfl | trivial), fun _ => AllInside.nil, fun hr _ => hr1 hr, fun e he => by cases he⟩
    | some 0 => exact ⟨h1, (by first | rfl | trivial), fun _ => AllInside.nil, fun hr _ => hr1 hr, fun e he => by cases he⟩
    | some 1 =>
      exact ⟨readData_ctlOK s1.ctl h1, (by first | rfl | trivial), fun hr => (readData_ok wf s1.ctl h1 (hr1 hr)).2.2,
        fun hr _ => (readData_ok wf s1.ctl h1 (hr1 hr)).2.1, readData_flashInside s1.ctl⟩
    | some (n + 2) =>
      exact ⟨progressData_ctlOK s1.ctl h1, (by first | rfl | trivial), fun _ => AllInside.nil,
        fun hr _ => progressData_readOK s1.ctl (hr1 hr), fun e he => by cases he⟩

theorem Reach.ctlOK {cfg : Cfg} (wf : cfg.WF) {s : Sys} (r : Reach cfg s) : CtlOK cfg s.ctl := by
  induction r with
  | init => exact ctlOK_init cfg
  | step op _ ih => exact (step_inv wf _ ih op).1

theorem ReachSafe.inv {cfg : Cfg} (wf : cfg.WF) {s : Sys} (r : ReachSafe cfg s) :
    CtlOK cfg s.ctl ∧ ReadOK cfg s.ctl := by
  induction r with
  | init => exact ⟨ctlOK_init cfg, readOK_init cfg⟩
  | step op _ hz ih => exact ⟨(step_inv wf _ ih.1 op).1, (step_inv wf _ ih.1 op).2.2.2.1 ih.2 hz⟩

/-! ## "flashes, reads back and checksums only memory that lies entirely inside its white-listed
    regions" -/

/-- Full strength: for every configuration, after every history, whatever the next operation is,
    every `start_flash`, `read_mem` and `public_checksum32` call of that operation touches only
    memory that lies entirely inside one white-listed region. -/
theorem flash_effects_inside_regions {cfg : Cfg} (wf : cfg.WF) {s : Sys} (r : Reach cfg s) (op : Op) :
    ∀ e ∈ (step cfg s op).2.effs, e.flashInside cfg :=
  (step_inv wf s (r.ctlOK wf) op).2.2.2.2

example : (⟨16, [(0x1008, 0x1020)]⟩ : Cfg).WF := ⟨by decide, by intro r hr; simp at hr; subst hr; decide⟩

/-- The full statement including the Read procedure's `public_read_mem` calls … -/
def effects_inside_regions_full : Prop :=
  ∀ cfg : Cfg, cfg.WF → ∀ s, Reach cfg s → ∀ op, AllInside cfg (step cfg s op).2.effs

/-- … holds for every history without a `Hazard` step … -/
theorem effects_inside_regions_partial {cfg : Cfg} (wf : cfg.WF) {s : Sys} (r : ReachSafe cfg s) (op : Op) :
    AllInside cfg (step cfg s op).2.effs :=
  (step_inv wf s (r.inv wf).1 op).2.2.1 (r.inv wf).2

/-- execution of a history, for the witness and the non-vacuity examples -/
def runOps (cfg : Cfg) (s : Sys) : List Op → Sys
  | [] => s
  | op :: ops => runOps cfg (step cfg s op).1 ops

theorem reach_runOps {cfg : Cfg} {s : Sys} (r : Reach cfg s) (ops : List Op) : Reach cfg (runOps cfg s ops) := by
  induction ops generalizing s with
  | nil => exact r
  | cons op ops ih => exact ih (Reach.step op r)

def cfg1 : Cfg := ⟨16, [(0x1000, 0x1040), (0x2000, 0x2020)]⟩

theorem cfg1_wf : cfg1.WF :=
  ⟨by decide, by intro r hr; simp [cfg1] at hr; rcases hr with hr | hr <;> (subst hr; decide)⟩

/-- Start Flash at 0x1000, Read procedure for [0x2010, 0x2018), 12 data bytes, one `l2cap_output`
    (delivers the control point notification of Start Flash) -/
def witnessOps : List Op :=
  [.ctrl [3, 0x00, 0x10, 0, 0, 0, 0, 0, 0],
   .ctrl [8, 0x10, 0x20, 0, 0, 0, 0, 0, 0, 0x18, 0x20, 0, 0, 0, 0, 0, 0],
   .data [0, 1, 2, 3, 4, 5, 6, 7, 8, 9, 10, 11],
   .output]

/-- … and fails with one: after Start Flash, an accepted Read of [0x2010, 0x2018) and 12 data
    bytes, the next `l2cap_output` calls `public_read_mem( 0x201c, 20 )`, which leaves the white
    list [0x1000,0x1040) ∪ [0x2000,0x2020). -/
theorem effects_inside_regions_witness : ¬ effects_inside_regions_full := by
  intro h
  have hin := h cfg1 cfg1_wf _ (reach_runOps .init witnessOps) .output (.publicRead 0x201c 20) (by decide +kernel)
  obtain ⟨r, hr, h1, h2⟩ := hin
  simp [cfg1] at hr
  rcases hr with hr | hr <;> (subst hr; simp at h1 h2)

example : ReachSafe cfg1 (step cfg1 (step cfg1 Sys.init (.ctrl [3, 0x00, 0x10, 0, 0, 0, 0, 0, 0])).1
    (.data [1, 2, 3])).1 :=
  .step _ (.step _ .init (fun h => h)) (fun h => absurd h.1 (by decide))

/-! ## "never reads beyond the bytes of a written control point value" -/

/-- Full strength: after every history, for every written value (any opcode, any length),
    `read_address` stays inside the value (`oob` is the model's explicit out-of-bounds result). -/
theorem control_point_reads_le_size {cfg : Cfg} (wf : cfg.WF) {s : Sys} (r : Reach cfg s) (v : List UInt8) :
    (step cfg s (.ctrl v)).2.oob = false :=
  (step_inv wf s (r.ctlOK wf) (.ctrl v)).2.1

end BluetoeModel.Bootloader
