import BluetoeModel.Bootloader.Lemmas
/-!
  # C39 — The bootloader only touches white-listed memory

  "For any sequence of control point and data writes, the bootloader flashes, reads back and
  checksums only memory that lies entirely inside its white-listed regions, never reads beyond the
  bytes of a written control point value, and flashes received data at the addresses the client
  specified with the announced checksum chain."  — over all control point / data write sequences
  (any opcode, length, address, data size) × page sizes × region lists.

  The theorems are about the code with `fixes/boot-01-read-procedure-length-check.patch`,
  `fixes/boot-02-flash-only-white-listed-pages.patch` and
  `fixes/boot-03-new-procedure-leaves-flash-mode.patch` applied. This file: clauses 1 and 2,

  * `effects_inside_regions` (full strength, every history, page size and region list): everything
    the bootloader flashes (`start_flash`), reads back (`read_mem`), checksums
    (`public_checksum32`) and reads for the Read procedure (`public_read_mem`) lies entirely inside
    one white-listed region (`flash_effects_inside_regions` is the sub-statement without the Read
    procedure, which also holds without fix boot-03);
  * `control_point_reads_le_size` (full strength): `read_address` never reads behind the value.

  Clause 3 (data lands at the client's addresses with the announced checksum chain):
  `PropsLayout.lean`.
-/
namespace BluetoeModel.Bootloader

/-- every history of control point writes, data writes, handler `end_flash` calls and `l2cap_output`s -/
inductive Reach (cfg : Cfg) : Sys → Prop where
  | init : Reach cfg Sys.init
  | step {s} (op : Op) : Reach cfg s → Reach cfg (step cfg s op).1

theorem ctlOK_init (cfg : Cfg) : CtlOK cfg Sys.init.ctl := ⟨.inl rfl, .inl rfl⟩

theorem readOK_init (cfg : Cfg) : ReadOK cfg Sys.init.ctl := fun h => absurd h (by decide)

theorem readMode_init : ReadMode Sys.init.ctl := fun h => absurd h (by decide)

/-- one step from a state with fine buffers: buffers stay fine, the control point value is not
    over-read, every effect is inside the white list — given `ReadOK`, which the step preserves
    when the Read procedure is not current in flash mode (`ReadMode`, established by fix boot-03) -/
theorem step_inv {cfg : Cfg} (wf : cfg.WF) (s : Sys) (h : CtlOK cfg s.ctl) (op : Op) :
    CtlOK cfg (step cfg s op).1.ctl ∧ (step cfg s op).2.oob = false ∧
    (ReadOK cfg s.ctl → AllInside cfg (step cfg s op).2.effs) ∧
    (ReadOK cfg s.ctl → ReadMode s.ctl → ReadOK cfg (step cfg s op).1.ctl) ∧
    (∀ e ∈ (step cfg s op).2.effs, e.flashInside cfg) ∧
    (ReadMode s.ctl → ReadMode (step cfg s op).1.ctl) := by
  cases op with
  | ctrl v =>
    have hw := ctrlWrite_ok wf h v
    have hm := ctrlWrite_readMode cfg s.ctl v
    simp only [step]
    generalize ctrlWrite cfg s.ctl v = res at hw hm
    cases res with
    | oob => exact absurd hw (fun x => x)
    | done c code n d effs =>
      exact ⟨hw.1, (by first | rfl | trivial), fun _ => hw.2.2, fun hr _ => hw.2.1 hr,
        fun e he => Effect.inside_flashInside (hw.2.2 e he), fun hrm => hm hrm c rfl⟩
  | data v =>
    have hd := dataWrite_ok wf s.ctl v h
    simp only [step]
    have hmode : ReadMode s.ctl → ReadMode (dataWrite cfg s.ctl v).1 := by
      intro hrm
      by_cases h8 : s.ctl.opcode = 8
      · rw [dataWrite_noop cfg s.ctl v (.inl (hrm h8))]; exact hrm
      · exact readMode_of_ne (by rw [hd.opcode]; exact h8)
    refine ⟨hd.ctl, (by first | rfl | trivial), fun _ => hd.effs, ?_,
      fun e he => Effect.inside_flashInside (hd.effs e he), hmode⟩
    intro hr hrm
    by_cases h8 : s.ctl.opcode = 8
    · show ReadOK cfg (dataWrite cfg s.ctl v).1
      rw [dataWrite_noop cfg s.ctl v (.inl (hrm h8))]; exact hr
    · intro h8'
      exact absurd (hd.opcode ▸ h8') h8
  | endflash =>
    exact ⟨h, (by first | rfl | trivial), fun _ => AllInside.nil, fun hr _ => hr, (fun e he => by cases he), id⟩
  | output =>
    have hq := dequeue_ctl s
    simp only [step]
    generalize dequeue s = d at hq
    obtain ⟨s1, i⟩ := d
    have e1 : s1.ctl = s.ctl := hq
    have h1 : CtlOK cfg s1.ctl := by rw [e1]; exact h
    have hr1 : ReadOK cfg s.ctl → ReadOK cfg s1.ctl := by rw [e1]; exact id
    have hm1 : ReadMode s.ctl → ReadMode s1.ctl := by rw [e1]; exact id
    match i with
    | none => exact ⟨h1, (by first | rfl | trivial), fun _ => AllInside.nil, fun hr _ => hr1 hr, (fun e he => by cases he), hm1⟩
    | some 0 => exact ⟨h1, (by first | rfl | trivial), fun _ => AllInside.nil, fun hr _ => hr1 hr, (fun e he => by cases he), hm1⟩
    | some 1 =>
      exact ⟨readData_ctlOK s1.ctl h1, (by first | rfl | trivial), fun hr => (readData_ok wf s1.ctl h1 (hr1 hr)).2.2,
        fun hr _ => (readData_ok wf s1.ctl h1 (hr1 hr)).2.1, readData_flashInside s1.ctl,
        fun hrm => readData_readMode s1.ctl (hm1 hrm)⟩
    | some (n + 2) =>
      exact ⟨progressData_ctlOK s1.ctl h1, (by first | rfl | trivial), fun _ => AllInside.nil,
        fun hr _ => progressData_readOK s1.ctl (hr1 hr), (fun e he => by cases he),
        fun hrm => progressData_readMode s1.ctl (hm1 hrm)⟩

theorem Reach.ctlOK {cfg : Cfg} (wf : cfg.WF) {s : Sys} (r : Reach cfg s) : CtlOK cfg s.ctl := by
  induction r with
  | init => exact ctlOK_init cfg
  | step op _ ih => exact (step_inv wf _ ih op).1

/-- invariant of every history: buffers on white-listed pages, the Read procedure's range inside one
    region, the Read procedure never current in flash mode -/
theorem Reach.inv {cfg : Cfg} (wf : cfg.WF) {s : Sys} (r : Reach cfg s) :
    CtlOK cfg s.ctl ∧ ReadOK cfg s.ctl ∧ ReadMode s.ctl := by
  induction r with
  | init => exact ⟨ctlOK_init cfg, readOK_init cfg, readMode_init⟩
  | step op _ ih =>
    have h := step_inv wf _ ih.1 op
    exact ⟨h.1, h.2.2.2.1 ih.2.1 ih.2.2, h.2.2.2.2.2 ih.2.2⟩

/-! ## "flashes, reads back and checksums only memory that lies entirely inside its white-listed
    regions" -/

/-- **Full strength**: for every configuration, after every history, whatever the next operation
    is, every `start_flash`, `read_mem`, `public_checksum32` and `public_read_mem` call of that
    operation touches only memory that lies entirely inside one white-listed region. -/
theorem effects_inside_regions {cfg : Cfg} (wf : cfg.WF) {s : Sys} (r : Reach cfg s) (op : Op) :
    AllInside cfg (step cfg s op).2.effs :=
  (step_inv wf s (r.inv wf).1 op).2.2.1 (r.inv wf).2.1

/-- The sub-statement about flashing, reading back and checksumming (it does not depend on fix
    boot-03). -/
theorem flash_effects_inside_regions {cfg : Cfg} (wf : cfg.WF) {s : Sys} (r : Reach cfg s) (op : Op) :
    ∀ e ∈ (step cfg s op).2.effs, e.flashInside cfg :=
  (step_inv wf s (r.ctlOK wf) op).2.2.2.2.1

/-- non-vacuity: a well-formed configuration whose region is not page aligned -/
example : (⟨16, [(0x1008, 0x1020)]⟩ : Cfg).WF :=
  ⟨by decide, by intro r hr; simp at hr; subst hr; rw [W_eq]; decide⟩

/-- execution of a history, for the non-vacuity examples -/
def runOps (cfg : Cfg) (s : Sys) : List Op → Sys
  | [] => s
  | op :: ops => runOps cfg (step cfg s op).1 ops

theorem reach_runOps {cfg : Cfg} {s : Sys} (r : Reach cfg s) (ops : List Op) : Reach cfg (runOps cfg s ops) := by
  induction ops generalizing s with
  | nil => exact r
  | cons op ops ih => exact ih (Reach.step op r)

def cfg1 : Cfg := ⟨16, [(0x1000, 0x1040), (0x2000, 0x2020)]⟩

theorem cfg1_wf : cfg1.WF :=
  ⟨by decide, by intro r hr; simp [cfg1] at hr; rcases hr with hr | hr <;> (subst hr; rw [W_eq]; decide)⟩

/-- The input that broke the statement before fix boot-03 (Start Flash at 0x1000, Read procedure for
    [0x2010, 0x2018), 12 data bytes, `l2cap_output`s): the data write is now refused
    (`no_operation_in_progress`) and the Read procedure reads exactly [0x2010, 0x2018). -/
def formerWitnessOps : List Op :=
  [.ctrl [3, 0x00, 0x10, 0, 0, 0, 0, 0, 0],
   .ctrl [8, 0x10, 0x20, 0, 0, 0, 0, 0, 0, 0x18, 0x20, 0, 0, 0, 0, 0, 0],
   .data [0, 1, 2, 3, 4, 5, 6, 7, 8, 9, 10, 11],
   .output]

example : (step cfg1 (runOps cfg1 Sys.init (formerWitnessOps.take 2)) (.data [0, 1, 2, 3, 4, 5, 6, 7, 8, 9, 10, 11])).2.res
    = some noOperationInProgress := by decide +kernel

example : (step cfg1 (runOps cfg1 Sys.init formerWitnessOps) .output).2.effs = [.publicRead 0x2010 8] := by
  decide +kernel

/-! ## "never reads beyond the bytes of a written control point value" -/

/-- Full strength: after every history, for every written value (any opcode, any length),
    `read_address` stays inside the value (`oob` is the model's explicit out-of-bounds result). -/
theorem control_point_reads_le_size {cfg : Cfg} (wf : cfg.WF) {s : Sys} (r : Reach cfg s) (v : List UInt8) :
    (step cfg s (.ctrl v)).2.oob = false :=
  (step_inv wf s (r.ctlOK wf) (.ctrl v)).2.1

end BluetoeModel.Bootloader
