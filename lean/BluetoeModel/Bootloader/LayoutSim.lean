import BluetoeModel.Bootloader.LayoutBuf
/-!
  The simulation relation on the controller (`Sim`) and its preservation by `find_next_buffer`,
  the `while` loop of `bootloader_write_data`, `bootloader_progress_data`.
-/
namespace BluetoeModel.Bootloader

/-- controller in flash mode vs. flash specification -/
def Sim (cfg : Cfg) (c : Ctl) (L : Lay) : Prop :=
  c.next < 2 ∧ c.used < 2 ∧
  SimB cfg (c.buf c.next) (c.buf ((c.next + 1) % 2)) c.start (decide (c.used = c.next)) L

theorem lt2 {n : Nat} (h : n < 2) : n = 0 ∨ n = 1 := by omega

theorem buf_setBuf_self (c : Ctl) (i : Nat) (b : Buf) : (c.setBuf i b).buf i = b := by
  unfold Ctl.setBuf Ctl.buf; split <;> simp [*]

theorem buf_setBuf_next_other (c : Ctl) (b : Buf) (hn : c.next < 2) :
    (c.setBuf c.next b).buf ((c.next + 1) % 2) = c.buf ((c.next + 1) % 2) := by
  rcases lt2 hn with h | h <;> rw [h] <;> rfl

theorem buf_setBuf_other_next (c : Ctl) (b : Buf) (hn : c.next < 2) :
    (c.setBuf ((c.next + 1) % 2) b).buf c.next = c.buf c.next := by
  rcases lt2 hn with h | h <;> rw [h] <;> rfl

theorem setBuf_next (c : Ctl) (i : Nat) (b : Buf) : (c.setBuf i b).next = c.next := by
  unfold Ctl.setBuf; split <;> rfl
theorem setBuf_used (c : Ctl) (i : Nat) (b : Buf) : (c.setBuf i b).used = c.used := by
  unfold Ctl.setBuf; split <;> rfl
theorem setBuf_start (c : Ctl) (i : Nat) (b : Buf) : (c.setBuf i b).start = c.start := (setBuf_fields c i b).2.1

/-- `buffers_[next_buffer_]` replaced, `start_address` moved -/
theorem sim_upd {cfg : Cfg} {c : Ctl} {B' : Buf} {s' : Nat} {L' : Lay} (hn : c.next < 2) (hu : c.used < 2)
    (h : SimB cfg B' (c.buf ((c.next + 1) % 2)) s' (decide (c.used = c.next)) L') :
    Sim cfg { (c.setBuf c.next B') with start := s' } L' := by
  refine ⟨?_, ?_, ?_⟩
  · show (c.setBuf c.next B').next < 2; rw [setBuf_next]; exact hn
  · show (c.setBuf c.next B').used < 2; rw [setBuf_used]; exact hu
  · show SimB cfg ((c.setBuf c.next B').buf (c.setBuf c.next B').next)
      ((c.setBuf c.next B').buf (((c.setBuf c.next B').next + 1) % 2)) s'
      (decide ((c.setBuf c.next B').used = (c.setBuf c.next B').next)) L'
    rw [setBuf_next, setBuf_used, buf_setBuf_self, buf_setBuf_next_other c B' hn]
    exact h

theorem other_other {n : Nat} (h : n < 2) : ((n + 1) % 2 + 1) % 2 = n := by omega

theorem decide_other {u n : Nat} (hu : u < 2) (hn : n < 2) :
    decide (u = (n + 1) % 2) = !decide (u = n) := by
  rcases lt2 hu with a | a <;> rcases lt2 hn with b | b <;> subst a <;> subst b <;> rfl

/-- `find_next_buffer` took the other buffer -/
theorem sim_switch {cfg : Cfg} {c : Ctl} {O' : Buf} {L : Lay} (cons : Nat) (hn : c.next < 2) (hu : c.used < 2)
    (h : SimB cfg O' (c.buf c.next) c.start (!decide (c.used = c.next)) L) :
    Sim cfg { (c.setBuf ((c.next + 1) % 2) O') with cons := cons, next := (c.next + 1) % 2 } L := by
  refine ⟨?_, ?_, ?_⟩
  · show (c.next + 1) % 2 < 2; omega
  · show (c.setBuf ((c.next + 1) % 2) O').used < 2; rw [setBuf_used]; exact hu
  · show SimB cfg ((c.setBuf ((c.next + 1) % 2) O').buf ((c.next + 1) % 2))
      ((c.setBuf ((c.next + 1) % 2) O').buf (((c.next + 1) % 2 + 1) % 2)) (c.setBuf ((c.next + 1) % 2) O').start
      (decide ((c.setBuf ((c.next + 1) % 2) O').used = (c.next + 1) % 2)) L
    rw [buf_setBuf_self, other_other hn, buf_setBuf_other_next c O' hn, setBuf_used, setBuf_start,
      decide_other hu hn]
    exact h

theorem findNextBuffer_sim {cfg : Cfg} (hp : 0 < cfg.page) {c : Ctl} {L : Lay} (h : Sim cfg c L)
    (hB : (c.buf c.next).st ≠ .filling) (hok : (findNextBuffer cfg c).2.2 = true) :
    Sim cfg (findNextBuffer cfg c).1 L ∧ ((findNextBuffer cfg c).1.buf (findNextBuffer cfg c).1.next).st = .filling ∧
    flashes (findNextBuffer cfg c).2.1 = [] ∧ (findNextBuffer cfg c).1.inFlash = c.inFlash := by
  obtain ⟨hn, hu, hs⟩ := h
  unfold findNextBuffer at hok ⊢
  dsimp only at hok ⊢
  split
  · next hc =>
    simp only [Bool.and_eq_true, decide_eq_true_eq] at hc
    have hsw := switch_sim hp hs hB hc.1 ((c.cons + 1) % 65536)
    refine ⟨sim_switch _ hn hu hsw, ?_, rfl, ?_⟩
    · show ((c.setBuf ((c.next + 1) % 2) _).buf ((c.next + 1) % 2)).st = .filling
      rw [buf_setBuf_self]; rfl
    · show (c.setBuf ((c.next + 1) % 2) _).inFlash = c.inFlash
      exact setBuf_inFlash _ _ _
  · next hc => rw [if_neg hc] at hok; exact absurd hok (by simp)

theorem findNextBuffer_fail {cfg : Cfg} {c : Ctl} (hok : ¬ (findNextBuffer cfg c).2.2 = true) :
    (findNextBuffer cfg c).1 = c ∧ (findNextBuffer cfg c).2.1 = [] := by
  unfold findNextBuffer at hok ⊢
  dsimp only at hok ⊢
  split
  · next hc => rw [if_pos hc] at hok; exact absurd rfl hok
  · exact ⟨rfl, rfl⟩

/-- the number of bytes the `while` loop of `bootloader_write_data` moves into the buffers (the sum
    of its `moved` values); ghost function with the recursion structure of `writeLoop` -/
def writeTaken (cfg : Cfg) : Nat → Ctl → List UInt8 → Nat
  | 0, _, _ => 0
  | fuel + 1, c, bs =>
    if bs.isEmpty then 0
    else
      let w := Buf.writeData cfg.page (c.buf c.next) bs
      let c := { (c.setBuf c.next w.1) with start := (c.start + w.2.2) % W }
      let rest := bs.drop w.2.2
      if !rest.isEmpty then
        let f := findNextBuffer cfg c
        if !f.2.2 then w.2.2
        else w.2.2 + writeTaken cfg fuel f.1 rest
      else w.2.2

/-- what the loop establishes -/
structure LoopOK (cfg : Cfg) (c : Ctl) (L : Lay) (bs : List UInt8) (effs : List Effect)
    (r : Ctl × Nat × List Effect) (k : Nat) : Prop where
  le      : k ≤ bs.length
  all     : r.2.1 = 0 → k = bs.length
  part    : r.2.1 ≠ 0 → r.2.1 = bufferOverrunAttempt ∧ k < bs.length
  sim     : Sim cfg r.1 (Lay.feed cfg L (bs.take k)).1
  effs    : flashes r.2.2 = flashes effs ++ (Lay.feed cfg L (bs.take k)).2
  inFlash : r.1.inFlash = c.inFlash

theorem start_nowrap {cfg : Cfg} (wf : cfg.WF) {c : Ctl} {L : Lay} (h : Sim cfg c L) (hok : CtlOK cfg c)
    (hf : (c.buf c.next).st = .filling) (n : Nat) (hn : (c.buf c.next).ptr + n ≤ cfg.page) :
    (c.start + n) % W = c.start + n := by
  obtain ⟨_, _, hs⟩ := h
  obtain ⟨_, _, hpl, hcur, _⟩ := hs.cur.1 hf
  rcases hok.buf c.next with hi | ⟨⟨r, hr, h1, h2⟩, _⟩
  · rw [hf] at hi; cases hi
  · have hW := wf.2 r hr
    have := hs.start
    exact Nat.mod_eq_of_lt (by omega)

theorem writeLoop_sim {cfg : Cfg} (wf : cfg.WF) (fuel : Nat) :
    ∀ (c : Ctl) (bs : List UInt8) (effs : List Effect) (L : Lay), Sim cfg c L → CtlOK cfg c →
      (c.buf c.next).st = .filling → bs.length < fuel →
      LoopOK cfg c L bs effs (writeLoop cfg fuel c bs effs) (writeTaken cfg fuel c bs) := by
  induction fuel with
  | zero => intro c bs effs L _ _ _ hl; exact absurd hl (Nat.not_lt_zero _)
  | succ fuel ih =>
    intro c bs effs L h hok hf hl
    unfold writeLoop writeTaken
    by_cases hemp : bs.isEmpty = true
    · rw [if_pos hemp, if_pos hemp]
      have : bs = [] := by simpa using hemp
      subst this
      exact ⟨Nat.le_refl _, fun _ => rfl, fun hx => absurd rfl hx, h, by simp [Lay.feed], rfl⟩
    · rw [if_neg hemp, if_neg hemp]
      dsimp only
      have hne : bs ≠ [] := by simpa using hemp
      obtain ⟨hn, hu, hs⟩ := h
      have hsim0 : Sim cfg c L := ⟨hn, hu, hs⟩
      have hwok := writeData_ok wf (c.buf c.next) bs (hok.buf c.next)
      by_cases hsmall : (c.buf c.next).ptr + bs.length < cfg.page
      · -- everything fits into the current page
        obtain ⟨e1, e2, _, e4, e5⟩ := writeData_small hs hf bs hne hsmall
        have hrest : (List.drop (Buf.writeData cfg.page (c.buf c.next) bs).2.2 bs).isEmpty = true := by
          rw [e1]; simp
        simp only [hrest, Bool.not_true, Bool.false_eq_true, if_false]
        rw [e1, start_nowrap wf hsim0 hok hf bs.length (by omega)]
        refine ⟨Nat.le_refl _, fun _ => rfl, fun hx => absurd rfl hx, ?_, ?_, ?_⟩
        · rw [List.take_length]; exact sim_upd hn hu e5
        · rw [List.take_length, e2, e4]; simp
        · exact setBuf_inFlash _ _ _
      · -- the current page is completed
        have hge : cfg.page ≤ (c.buf c.next).ptr + bs.length := by omega
        obtain ⟨hptr⟩ : (c.buf c.next).ptr < cfg.page ∧ True := ⟨(hs.cur.1 hf).2.1, trivial⟩
        obtain ⟨e1, e2, e3, e5⟩ := writeData_fill hs hf bs hge
        have hstart := start_nowrap wf hsim0 hok hf (cfg.page - (c.buf c.next).ptr) (by omega)
        rw [e1, hstart]
        have hsim1 := sim_upd (s' := c.start + (cfg.page - (c.buf c.next).ptr)) hn hu e5
        have hok1 : CtlOK cfg { (c.setBuf c.next (Buf.writeData cfg.page (c.buf c.next) bs).1) with
            start := c.start + (cfg.page - (c.buf c.next).ptr) } := hok.setBuf c.next hwok.1
        have hB1 : (({ (c.setBuf c.next (Buf.writeData cfg.page (c.buf c.next) bs).1) with
            start := c.start + (cfg.page - (c.buf c.next).ptr) } : Ctl).buf
            ({ (c.setBuf c.next (Buf.writeData cfg.page (c.buf c.next) bs).1) with
            start := c.start + (cfg.page - (c.buf c.next).ptr) } : Ctl).next).st ≠ .filling := by
          show ((c.setBuf c.next (Buf.writeData cfg.page (c.buf c.next) bs).1).buf
            (c.setBuf c.next (Buf.writeData cfg.page (c.buf c.next) bs).1).next).st ≠ .filling
          rw [setBuf_next, buf_setBuf_self, e3]; decide
        by_cases hrest : (List.drop (cfg.page - (c.buf c.next).ptr) bs).isEmpty = true
        · simp only [hrest, Bool.not_true, Bool.false_eq_true, if_false]
          have hk : cfg.page - (c.buf c.next).ptr = bs.length := by
            have : bs.length ≤ cfg.page - (c.buf c.next).ptr := by simpa using hrest
            omega
          refine ⟨by omega, fun _ => hk, fun hx => absurd rfl hx, hsim1, ?_, ?_⟩
          · rw [flashes_append, e2]
          · exact setBuf_inFlash _ _ _
        · simp only [hrest, Bool.not_false, if_true]
          have hlt : cfg.page - (c.buf c.next).ptr < bs.length := by
            have : ¬ bs.length ≤ cfg.page - (c.buf c.next).ptr := by simpa using hrest
            omega
          by_cases hfn : (findNextBuffer cfg { (c.setBuf c.next (Buf.writeData cfg.page (c.buf c.next) bs).1) with
              start := c.start + (cfg.page - (c.buf c.next).ptr) }).2.2 = true
          · -- next buffer: recursion
            simp only [hfn, Bool.not_true, Bool.false_eq_true, if_false]
            obtain ⟨g1, g2, g3, g4⟩ := findNextBuffer_sim wf.1 hsim1 hB1 hfn
            have hok2 := (findNextBuffer_ok wf _ hok1).ctl
            have key := fun effs' => ih _ (List.drop (cfg.page - (c.buf c.next).ptr) bs) effs' _ g1 hok2 g2
              (by rw [List.length_drop]; omega)
            have i1 := (key []).le
            rw [List.length_drop] at i1
            dsimp only at i1
            have htake : bs.take (cfg.page - (c.buf c.next).ptr + writeTaken cfg fuel
                (findNextBuffer cfg { (c.setBuf c.next (Buf.writeData cfg.page (c.buf c.next) bs).1) with
                  start := c.start + (cfg.page - (c.buf c.next).ptr) }).1
                (List.drop (cfg.page - (c.buf c.next).ptr) bs)) =
                bs.take (cfg.page - (c.buf c.next).ptr) ++ (bs.drop (cfg.page - (c.buf c.next).ptr)).take
                  (writeTaken cfg fuel (findNextBuffer cfg { (c.setBuf c.next (Buf.writeData cfg.page (c.buf c.next) bs).1) with
                    start := c.start + (cfg.page - (c.buf c.next).ptr) }).1
                    (List.drop (cfg.page - (c.buf c.next).ptr) bs)) := List.take_add
            refine ⟨by omega, fun hz => by have := (key _).all hz; rw [List.length_drop] at this; dsimp only at this; omega,
              fun hz => ⟨((key _).part hz).1, by have := ((key _).part hz).2; rw [List.length_drop] at this; dsimp only at this; omega⟩, ?_, ?_, ?_⟩
            · rw [htake, feed_append]; exact (key _).sim
            · rw [htake, feed_append, (key _).effs, flashes_append, flashes_append, e2, g3]
              simp [List.append_assoc]
            · rw [(key _).inFlash, g4]; exact setBuf_inFlash _ _ _
          · -- no free buffer: `buffer_overrun_attempt`, the rest of the value is not taken
            simp only [hfn, Bool.not_false, if_true]
            obtain ⟨f1, f2⟩ := findNextBuffer_fail hfn
            rw [f1, f2]
            refine ⟨by omega, fun hz => absurd hz (by simp [bufferOverrunAttempt]), fun _ => ⟨rfl, hlt⟩, hsim1, ?_, ?_⟩
            · rw [flashes_append, flashes_append, e2]; simp [flashes]
            · exact setBuf_inFlash _ _ _

end BluetoeModel.Bootloader
