import BluetoeModel.Bootloader.Layout
/-!
  The simulation relation between the two `flash_buffer`s of the controller and the flash
  specification `Lay`, and its preservation by the `flash_buffer` operations. `B` is the buffer
  `buffers_[next_buffer_]`, `O` the other one, `u` says whether `used_buffer_ == next_buffer_`.
-/
namespace BluetoeModel.Bootloader

def Buf.flashing (b : Buf) : Nat := if b.st = .flashing then 1 else 0

/-- the buffer that is being filled holds the page prefix read back from memory followed by exactly
    the waiting bytes of the specification, at the specification's address -/
def CurOK (cfg : Cfg) (B : Buf) (L : Lay) : Prop :=
  (B.st = .filling → B.addr % cfg.page = 0 ∧ B.ptr < cfg.page ∧ L.pend.length ≤ B.ptr ∧
      L.cur = B.addr + (B.ptr - L.pend.length) ∧
      B.data = memRange B.addr (B.ptr - L.pend.length) ++ L.pend) ∧
  (B.st ≠ .filling → L.pend = [])

structure SimB (cfg : Cfg) (B O : Buf) (start : Nat) (u : Bool) (L : Lay) : Prop where
  start : start = L.cur + L.pend.length
  crc   : B.crc = L.crc
  busy  : B.flashing + O.flashing = L.busy
  cur   : CurOK cfg B L
  ofill : O.st ≠ .filling
  idle  : B.st = .idle → O.st = .idle ∧ u = false
  ring1 : B.st ≠ .idle → O.st = .idle → u = true
  ring2 : B.st ≠ .idle → O.st = .flashing → u = false

def flashes (effs : List Effect) : List Effect :=
  effs.filter (fun e => match e with | .startFlash .. => true | _ => false)

theorem flashes_append (a b : List Effect) : flashes (a ++ b) = flashes a ++ flashes b := by
  unfold flashes; rw [List.filter_append]

theorem st_cases (b : Buf) : b.st = .idle ∨ b.st = .filling ∨ b.st = .flashing := by
  cases b.st <;> simp

/-- `write_data` with a chunk that does not reach the end of the page -/
theorem writeData_small {cfg : Cfg} {B O : Buf} {start : Nat} {u : Bool} {L : Lay}
    (h : SimB cfg B O start u L) (hf : B.st = .filling) (bs : List UInt8) (hne : bs ≠ [])
    (hlt : B.ptr + bs.length < cfg.page) :
    (Buf.writeData cfg.page B bs).2.2 = bs.length ∧ (Buf.writeData cfg.page B bs).2.1 = [] ∧
    (Buf.writeData cfg.page B bs).1.st = .filling ∧
    (Lay.feed cfg L bs).2 = [] ∧
    SimB cfg (Buf.writeData cfg.page B bs).1 O (start + bs.length) u (Lay.feed cfg L bs).1 := by
  obtain ⟨hA, hptr, hpl, hcur, hdata⟩ := h.cur.1 hf
  have hmin : min (cfg.page - B.ptr) bs.length = bs.length := by omega
  have hfeed := feed_small cfg hA bs L B.ptr (by omega) hlt
  have hw : Buf.writeData cfg.page B bs =
      ({ B with data := B.data ++ bs, crc := crcAdd B.crc bs, ptr := B.ptr + bs.length }, [], bs.length) := by
    unfold Buf.writeData
    simp only [hmin, List.take_length]
    rw [if_neg (by show ¬ B.ptr + bs.length = cfg.page; omega)]
  rw [hw, hfeed]
  refine ⟨rfl, rfl, hf, rfl, ?_⟩
  have hfl : ({ B with data := B.data ++ bs, crc := crcAdd B.crc bs, ptr := B.ptr + bs.length } : Buf).flashing
      = B.flashing := rfl
  refine ⟨?_, ?_, ?_, ⟨fun _ => ⟨hA, ?_, ?_, ?_, ?_⟩, fun hn => absurd hf hn⟩, h.ofill, ?_, ?_, ?_⟩
  · simp only [List.length_append]; have := h.start; omega
  · show crcAdd B.crc bs = crcChain L.crc bs
    rw [crcChain_eq bs hne, h.crc]
  · rw [hfl]; exact h.busy
  · show B.ptr + bs.length < cfg.page; exact hlt
  · show (L.pend ++ bs).length ≤ B.ptr + bs.length
    simp only [List.length_append]; omega
  · show L.cur = B.addr + (B.ptr + bs.length - (L.pend ++ bs).length)
    simp only [List.length_append]; omega
  · show B.data ++ bs = memRange B.addr (B.ptr + bs.length - (L.pend ++ bs).length) ++ (L.pend ++ bs)
    have e : B.ptr + bs.length - (L.pend ++ bs).length = B.ptr - L.pend.length := by
      simp only [List.length_append]; omega
    rw [e, hdata, List.append_assoc]
  · intro hi; exact absurd (hf.symm.trans hi) (by decide)
  · intro _; exact h.ring1 (by rw [hf]; decide)
  · intro _; exact h.ring2 (by rw [hf]; decide)

theorem pageImage_full {cfg : Cfg} {B : Buf} {L : Lay} (hA : B.addr % cfg.page = 0) (hpl : L.pend.length ≤ B.ptr)
    (hcur : L.cur = B.addr + (B.ptr - L.pend.length)) (hptr : B.ptr < cfg.page)
    (hdata : B.data = memRange B.addr (B.ptr - L.pend.length) ++ L.pend) (chunk : List UInt8)
    (rest : Nat) (hrest : rest = cfg.page - (B.ptr + chunk.length)) :
    pageImage cfg L.cur (L.pend ++ chunk) =
      .startFlash B.addr cfg.page (B.data ++ chunk ++ memRange ((B.addr + (B.ptr + chunk.length)) % W) rest) := by
  have hlo : L.cur % cfg.page = B.ptr - L.pend.length := by
    rw [hcur, aligned_add_mod hA, Nat.mod_eq_of_lt (by omega)]
  unfold pageImage
  rw [hlo]
  have e1 : L.cur - (B.ptr - L.pend.length) = B.addr := by omega
  have e2 : L.cur + (L.pend ++ chunk).length = B.addr + (B.ptr + chunk.length) := by
    simp only [List.length_append]; omega
  have e3 : cfg.page - (B.ptr - L.pend.length + (L.pend ++ chunk).length) = rest := by
    simp only [List.length_append]; omega
  rw [e1, e2, e3, hdata]
  simp only [List.append_assoc]

/-- `write_data` with a chunk that reaches the end of the page: the page is flashed -/
theorem writeData_fill {cfg : Cfg} {B O : Buf} {start : Nat} {u : Bool} {L : Lay}
    (h : SimB cfg B O start u L) (hf : B.st = .filling) (bs : List UInt8)
    (hge : cfg.page ≤ B.ptr + bs.length) :
    (Buf.writeData cfg.page B bs).2.2 = cfg.page - B.ptr ∧
    flashes (Buf.writeData cfg.page B bs).2.1 = (Lay.feed cfg L (bs.take (cfg.page - B.ptr))).2 ∧
    (Buf.writeData cfg.page B bs).1.st = .flashing ∧
    SimB cfg (Buf.writeData cfg.page B bs).1 O (start + (cfg.page - B.ptr)) u
      (Lay.feed cfg L (bs.take (cfg.page - B.ptr))).1 := by
  obtain ⟨hA, hptr, hpl, hcur, hdata⟩ := h.cur.1 hf
  have hpage : 0 < cfg.page := by omega
  have hmin : min (cfg.page - B.ptr) bs.length = cfg.page - B.ptr := by omega
  have hlen : (bs.take (cfg.page - B.ptr)).length = cfg.page - B.ptr := by
    rw [List.length_take]; omega
  have hne : bs.take (cfg.page - B.ptr) ≠ [] := by
    intro e; rw [e] at hlen; simp at hlen; omega
  have hfeed := feed_fill cfg hA hpage (bs.take (cfg.page - B.ptr)) L B.ptr (by omega) (by omega) hne
  have himg := pageImage_full hA hpl hcur hptr hdata (bs.take (cfg.page - B.ptr)) 0 (by omega)
  have hw : Buf.writeData cfg.page B bs =
      ({ B with st := .flashing, data := B.data ++ bs.take (cfg.page - B.ptr),
                crc := crcAdd B.crc (bs.take (cfg.page - B.ptr)), ptr := cfg.page },
       [.startFlash B.addr cfg.page (B.data ++ bs.take (cfg.page - B.ptr))], cfg.page - B.ptr) := by
    unfold Buf.writeData
    simp only [hmin]
    rw [if_pos (by show B.ptr + (cfg.page - B.ptr) = cfg.page; omega)]
    unfold Buf.flush
    simp only [hf]
    have e : B.ptr + (cfg.page - B.ptr) = cfg.page := by omega
    simp only [e]
    have hc : (decide (BState.filling ≠ BState.filling) || decide (cfg.page = 0)) = false := by
      simp; omega
    rw [hc]
    simp
  rw [hw, hfeed, himg]
  refine ⟨rfl, ?_, rfl, ?_⟩
  · simp [flashes, memRange_zero]
  · have hO : O.flashing = O.flashing := rfl
    refine ⟨?_, ?_, ?_, ⟨fun hx => absurd hx (by simp), fun _ => rfl⟩, h.ofill, ?_, ?_, ?_⟩
    · show start + (cfg.page - B.ptr) = L.cur + L.pend.length + (bs.take (cfg.page - B.ptr)).length + ([] : List UInt8).length
      rw [hlen]; have := h.start; simp only [List.length_nil]; omega
    · show crcAdd B.crc (bs.take (cfg.page - B.ptr)) = crcChain L.crc (bs.take (cfg.page - B.ptr))
      rw [crcChain_eq _ hne, h.crc]
    · have hb : B.flashing = 0 := by unfold Buf.flashing; rw [hf]; rfl
      have := h.busy
      show (1 : Nat) + O.flashing = L.busy + 1
      omega
    · intro hi; exact absurd hi (by simp)
    · intro _; exact h.ring1 (by rw [hf]; decide)
    · intro _; exact h.ring2 (by rw [hf]; decide)

/-- `find_next_buffer` switches to the other buffer: possible only when that one is idle -/
theorem switch_sim {cfg : Cfg} {B O : Buf} {start : Nat} {u : Bool} {L : Lay}
    (hp : 0 < cfg.page) (h : SimB cfg B O start u L) (hB : B.st ≠ .filling) (hO : O.st = .idle) (cons : Nat) :
    SimB cfg (Buf.setStart cfg.page O start B.crc cons).1 B start (!u) L := by
  have hpend : L.pend = [] := h.cur.2 hB
  have hstart : start = L.cur := by have := h.start; rw [hpend] at this; simpa using this
  have hOf : O.flashing = 0 := by unfold Buf.flashing; rw [hO]; rfl
  refine ⟨h.start, h.crc, ?_, ⟨fun _ => ⟨?_, ?_, ?_, ?_, ?_⟩, fun hn => absurd rfl hn⟩, hB, ?_, ?_, ?_⟩
  · have := h.busy
    show (0 : Nat) + B.flashing = L.busy
    omega
  · exact sub_mod_aligned _ _
  · show start % cfg.page < cfg.page
    exact Nat.mod_lt _ hp
  · rw [hpend]; exact Nat.zero_le _
  · show L.cur = start - start % cfg.page + (start % cfg.page - L.pend.length)
    rw [hpend, hstart]
    have := Nat.mod_le L.cur cfg.page
    simp only [List.length_nil]; omega
  · show memRange (start - start % cfg.page) (start % cfg.page) =
      memRange (start - start % cfg.page) (start % cfg.page - L.pend.length) ++ L.pend
    rw [hpend]; simp
  · intro hi; exact absurd hi (by simp [Buf.setStart])
  · intro _ hBi
    have := (h.idle hBi).2
    rw [this]; rfl
  · intro _ hBf
    have := h.ring1 (by rw [hBf]; decide) hO
    rw [this]; rfl

/-- an accepted Flush procedure: `flush()` of the buffer that is being filled -/
theorem flush_sim {cfg : Cfg} {B O : Buf} {start : Nat} {u : Bool} {L : Lay}
    (h : SimB cfg B O start u L) (hok : (Buf.flush cfg.page B).2.2 = true) :
    flashes (Buf.flush cfg.page B).2.1 = (L.flush cfg).2 ∧
    SimB cfg (Buf.flush cfg.page B).1 O start u (L.flush cfg).1 := by
  unfold Buf.flush at hok ⊢
  split at hok
  · exact absurd hok (by simp)
  · next hc =>
    rw [if_neg hc]
    simp only [Bool.or_eq_true, decide_eq_true_eq, not_or, ne_eq, Decidable.not_not] at hc
    obtain ⟨hf, hp0⟩ := hc
    obtain ⟨hA, hptr, hpl, hcur, hdata⟩ := h.cur.1 hf
    have himg := pageImage_full hA hpl hcur hptr hdata [] (cfg.page - B.ptr) (by simp)
    simp only [List.append_nil, List.length_nil, Nat.add_zero] at himg
    have hne : cfg.page ≠ B.ptr := by omega
    simp only [if_pos hne]
    refine ⟨?_, ?_⟩
    · unfold Lay.flush
      rw [flashes_append]
      simp only [flashes, List.filter_cons, List.filter_nil, himg]
      rfl
    · refine ⟨?_, h.crc, ?_, ⟨fun hx => absurd hx (by simp), fun _ => rfl⟩, h.ofill, ?_, ?_, ?_⟩
      · show start = L.cur + L.pend.length + ([] : List UInt8).length
        have := h.start; simp only [List.length_nil]; omega
      · have hb : B.flashing = 0 := by unfold Buf.flashing; rw [hf]; rfl
        have := h.busy
        show (1 : Nat) + O.flashing = L.busy + 1
        omega
      · intro hi; exact absurd hi (by simp)
      · intro _; exact h.ring1 (by rw [hf]; decide)
      · intro _; exact h.ring2 (by rw [hf]; decide)

theorem free_st (b : Buf) : b.free.st = .idle := rfl
theorem free_crc (b : Buf) : b.free.crc = b.crc := rfl
theorem free_flashing (b : Buf) : b.free.flashing = 0 := rfl

/-- `bootloader_progress_data` frees `buffers_[used_buffer_]`; with a page flash outstanding that is
    a buffer in state `flashing`. `used_buffer_ == next_buffer_`: -/
theorem progress_sim_next {cfg : Cfg} {B O : Buf} {start : Nat} {L : Lay}
    (h : SimB cfg B O start true L) (hb : 0 < L.busy) :
    SimB cfg B.free O start false { L with busy := L.busy - 1 } := by
  have hBi : B.st ≠ .idle := fun hi => absurd (h.idle hi).2 (by decide)
  have hOf : O.st ≠ .flashing := fun hfl => absurd (h.ring2 hBi hfl) (by decide)
  have hOi : O.st = .idle := by
    rcases st_cases O with x | x | x
    · exact x
    · exact absurd x h.ofill
    · exact absurd x hOf
  have hO0 : O.flashing = 0 := by unfold Buf.flashing; rw [hOi]; rfl
  have hBf : B.st = .flashing := by
    rcases st_cases B with x | x | x
    · exact absurd x hBi
    · have : B.flashing = 0 := by unfold Buf.flashing; rw [x]; rfl
      have := h.busy; omega
    · exact x
  have hB1 : B.flashing = 1 := by unfold Buf.flashing; rw [hBf]; rfl
  have hpend : L.pend = [] := h.cur.2 (by rw [hBf]; decide)
  refine ⟨h.start, h.crc, ?_, ⟨fun hx => absurd hx (by simp [Buf.free]), fun _ => hpend⟩, h.ofill,
    fun _ => ⟨hOi, rfl⟩, fun hx => absurd rfl hx, fun hx => absurd rfl hx⟩
  have := h.busy
  show B.free.flashing + O.flashing = L.busy - 1
  rw [free_flashing]; omega

/-- `used_buffer_ != next_buffer_`: -/
theorem progress_sim_other {cfg : Cfg} {B O : Buf} {start : Nat} {L : Lay}
    (h : SimB cfg B O start false L) (hb : 0 < L.busy) :
    SimB cfg B O.free start true { L with busy := L.busy - 1 } := by
  have hBi : B.st ≠ .idle := by
    intro hi
    have hO := (h.idle hi).1
    have h1 : B.flashing = 0 := by unfold Buf.flashing; rw [hi]; rfl
    have h2 : O.flashing = 0 := by unfold Buf.flashing; rw [hO]; rfl
    have := h.busy; omega
  have hOf : O.st = .flashing := by
    rcases st_cases O with x | x | x
    · exact absurd (h.ring1 hBi x) (by decide)
    · exact absurd x h.ofill
    · exact x
  have hO1 : O.flashing = 1 := by unfold Buf.flashing; rw [hOf]; rfl
  refine ⟨h.start, h.crc, ?_, h.cur, (by simp [Buf.free]), fun hi => absurd hi hBi, fun _ _ => rfl,
    fun _ hx => absurd hx (by simp [Buf.free])⟩
  have := h.busy
  show B.flashing + O.free.flashing = L.busy - 1
  rw [free_flashing]; omega

/-- an accepted Start Flash procedure -/
theorem startFlash_sim {cfg : Cfg} (hp : 0 < cfg.page) (b0 b1 : Buf) (s : Nat) :
    SimB cfg (Buf.setStart cfg.page b0.free s (crcOfAddress s) 0).1 b1.free s true
      { cur := s, pend := [], crc := crcOfAddress s, busy := 0 } := by
  refine ⟨rfl, rfl, rfl, ⟨fun _ => ⟨sub_mod_aligned _ _, Nat.mod_lt _ hp, Nat.zero_le _, ?_, ?_⟩,
    fun hx => absurd rfl hx⟩, (by simp [Buf.free]), fun hi => absurd hi (by simp [Buf.setStart]),
    fun _ _ => rfl, fun _ hx => absurd hx (by simp [Buf.free])⟩
  · show s = s - s % cfg.page + (s % cfg.page - 0)
    have := Nat.mod_le s cfg.page; omega
  · show memRange (s - s % cfg.page) (s % cfg.page) = memRange (s - s % cfg.page) (s % cfg.page - 0) ++ []
    simp

end BluetoeModel.Bootloader
