import BluetoeModel.Bootloader.LayoutStep
/-!
  Control point writes and the flash specification: which procedures start, continue and end flash
  mode (`specCtrl`), and the invariant `GInv` that ties controller, notification queue and the
  ghost state together.
-/
namespace BluetoeModel.Bootloader

/-- ghost state of a history: the flash specification while flash mode is on, and the number of
    `start_flash` calls of the user handler whose `end_flash` is still to come -/
structure Ghost where
  lay  : Option Lay
  owed : Nat
  s0   : Nat            -- the address of the last accepted Start Flash
  recv : List UInt8     -- every data byte taken since then
deriving Repr, DecidableEq

def Ghost.init : Ghost := { lay := none, owed := 0, s0 := 0, recv := [] }

/-- The protocol (bootloader.md): an accepted Start Flash (re)starts flash mode at the given address;
    an accepted Flush flashes what is waiting; Start / Reset (accepted) and unknown opcodes change
    nothing; every other procedure and every refused request ends flash mode. `code` is the ATT
    result of the write. -/
def specCtrl (cfg : Cfg) (g : Ghost) (v : List UInt8) (code : Nat) : Ghost × List Effect :=
  match v with
  | [] => (g, [])
  | opb :: _ =>
    if opb.toNat = 3 then
      (if code = 0 then
        match readAddress v 1 with
        | some s => { g with lay := some { cur := s, pend := [], crc := crcOfAddress s, busy := 0 }, s0 := s, recv := [] }
        | none => { g with lay := none }
       else { g with lay := none }, [])
    else if opb.toNat = 5 then
      match g.lay with
      | some L => if code = 0 then ({ g with lay := some (L.flush cfg).1, owed := g.owed + 1 }, (L.flush cfg).2)
                  else ({ g with lay := none }, [])
      | none => ({ g with lay := none }, [])
    else if opb.toNat = 6 ∨ opb.toNat = 7 then (if code = 0 then g else { g with lay := none }, [])
    else if opb.toNat ≤ 8 then ({ g with lay := none }, [])
    else (g, [])

/-- controller + "progress notification queued" + ghost -/
def GInv (cfg : Cfg) (c : Ctl) (q2 : Bool) (g : Ghost) : Prop :=
  ((c.opcode = 3 ∨ c.opcode = 5) → c.inFlash = true) ∧
  match g.lay with
  | none => c.inFlash = false
  | some L => c.inFlash = true ∧ Sim cfg c L ∧ g.owed + (if q2 then 1 else 0) ≤ L.busy

theorem ginv_none {cfg : Cfg} {c : Ctl} {q2 : Bool} (g : Ghost) (h1 : c.inFlash = false)
    (h2 : c.opcode ≠ 3 ∧ c.opcode ≠ 5) : GInv cfg c q2 { g with lay := none } :=
  ⟨fun h => by rcases h with h | h; exact absurd h h2.1; exact absurd h h2.2, h1⟩

/-- same buffers, same flash mode, an opcode other than 3 / 5 -/
theorem ginv_congr {cfg : Cfg} {c c' : Ctl} {q2 : Bool} {g : Ghost} (h : GInv cfg c q2 g)
    (e0 : c'.inFlash = c.inFlash) (e1 : c'.next = c.next) (e2 : c'.used = c.used) (e3 : c'.start = c.start)
    (e4 : c'.b0 = c.b0) (e5 : c'.b1 = c.b1) (hop : c'.opcode = c.opcode ∨ (c'.opcode ≠ 3 ∧ c'.opcode ≠ 5)) :
    GInv cfg c' q2 g := by
  refine ⟨?_, ?_⟩
  · intro h35
    rcases hop with e | e
    · rw [e0]; exact h.1 (e ▸ h35)
    · rcases h35 with x | x
      · exact absurd x e.1
      · exact absurd x e.2
  · have h2 := h.2
    revert h2
    cases g.lay with
    | none => intro h2; show c'.inFlash = false; rw [e0]; exact h2
    | some L => intro h2; exact ⟨e0 ▸ h2.1, h2.2.1.congr e1 e2 e3 e4 e5, h2.2.2⟩

theorem requestError_ginv {cfg : Cfg} (c : Ctl) (q2 : Bool) (g : Ghost) (code : Nat) (effs : List Effect) :
    ∀ c' code' n d effs', requestError c code effs = .done c' code' n d effs' →
      GInv cfg c' q2 { g with lay := none } ∧ code' = code ∧ effs' = effs := by
  intro c' code' n d effs' h
  simp only [requestError, CtrlResult.done.injEq] at h
  obtain ⟨rfl, rfl, -, -, rfl⟩ := h
  exact ⟨ginv_none g rfl ⟨by show undefinedOpcode ≠ 3; decide, by show undefinedOpcode ≠ 5; decide⟩, rfl, rfl⟩

/-- the result of a control point write, seen from the flash specification -/
def CtrlSim (cfg : Cfg) (q2 : Bool) (g : Ghost) (v : List UInt8) : CtrlResult → Prop
  | .done c' code _ _ effs =>
    GInv cfg c' q2 (specCtrl cfg g v code).1 ∧ flashes effs = (specCtrl cfg g v code).2
  | .oob => True

theorem spec_leave (cfg : Cfg) (g : Ghost) (opb : UInt8) (rest : List UInt8) (code : Nat)
    (h3 : opb.toNat ≠ 3) (h5 : opb.toNat ≠ 5) (h6 : opb.toNat ≠ 6) (h7 : opb.toNat ≠ 7) (h8 : opb.toNat ≤ 8) :
    specCtrl cfg g (opb :: rest) code = ({ g with lay := none }, []) := by
  unfold specCtrl
  simp only [if_neg h3, if_neg h5, if_pos h8]
  rw [if_neg (by omega)]

theorem spec_67 (cfg : Cfg) (g : Ghost) (opb : UInt8) (rest : List UInt8) (code : Nat)
    (h : opb.toNat = 6 ∨ opb.toNat = 7) :
    specCtrl cfg g (opb :: rest) code = (if code = 0 then g else { g with lay := none }, []) := by
  unfold specCtrl
  simp only [if_neg (show ¬ opb.toNat = 3 by omega), if_neg (show ¬ opb.toNat = 5 by omega), if_pos h]

theorem spec_other (cfg : Cfg) (g : Ghost) (opb : UInt8) (rest : List UInt8) (code : Nat)
    (h : 8 < opb.toNat) : specCtrl cfg g (opb :: rest) code = (g, []) := by
  unfold specCtrl
  simp only [if_neg (show ¬ opb.toNat = 3 by omega), if_neg (show ¬ opb.toNat = 5 by omega),
    if_neg (show ¬ (opb.toNat = 6 ∨ opb.toNat = 7) by omega), if_neg (show ¬ opb.toNat ≤ 8 by omega)]

theorem ctrlLeaveFlash_sim {cfg : Cfg} (c : Ctl) (q2 : Bool) (g : Ghost) (opb : UInt8) (rest : List UInt8)
    (hop : c.opcode = opb.toNat) (ho : opb.toNat = 0 ∨ opb.toNat = 2 ∨ opb.toNat = 4) :
    CtrlSim cfg q2 g (opb :: rest) (ctrlLeaveFlash c (opb :: rest).length) := by
  have hs := fun code => spec_leave cfg g opb rest code (by omega) (by omega) (by omega) (by omega) (by omega)
  unfold ctrlLeaveFlash
  split
  · obtain ⟨x, y, z⟩ := requestError_ginv (cfg := cfg) c q2 g invalidLength [] _ _ _ _ _ rfl
    show GInv cfg _ q2 (specCtrl cfg g (opb :: rest) invalidLength).1 ∧ flashes [] = (specCtrl cfg g (opb :: rest) invalidLength).2
    rw [hs]; exact ⟨x, rfl⟩
  · show GInv cfg _ q2 (specCtrl cfg g (opb :: rest) 0).1 ∧ flashes [] = (specCtrl cfg g (opb :: rest) 0).2
    rw [hs]
    exact ⟨ginv_none g rfl ⟨by show c.opcode ≠ 3; omega, by show c.opcode ≠ 5; omega⟩, rfl⟩

theorem ctrlGetCrc_sim {cfg : Cfg} (c : Ctl) (q2 : Bool) (g : Ghost) (opb : UInt8) (rest : List UInt8)
    (hop : c.opcode = opb.toNat) (ho : opb.toNat = 1) :
    CtrlSim cfg q2 g (opb :: rest) (ctrlGetCrc cfg c (opb :: rest)) := by
  have hs := fun code => spec_leave cfg g opb rest code (by omega) (by omega) (by omega) (by omega) (by omega)
  unfold ctrlGetCrc
  split
  · obtain ⟨x, y, z⟩ := requestError_ginv (cfg := cfg) c q2 g invalidLength [] _ _ _ _ _ rfl
    show GInv cfg _ q2 (specCtrl cfg g (opb :: rest) invalidLength).1 ∧ flashes [] = (specCtrl cfg g (opb :: rest) invalidLength).2
    rw [hs]; exact ⟨x, rfl⟩
  · split
    · dsimp only
      split
      · obtain ⟨x, y, z⟩ := requestError_ginv (cfg := cfg) _ q2 g invalidOffset [] _ _ _ _ _ rfl
        show GInv cfg _ q2 (specCtrl cfg g (opb :: rest) invalidOffset).1 ∧ flashes [] = (specCtrl cfg g (opb :: rest) invalidOffset).2
        rw [hs]; exact ⟨x, rfl⟩
      · show GInv cfg _ q2 (specCtrl cfg g (opb :: rest) 0).1 ∧ flashes [_] = (specCtrl cfg g (opb :: rest) 0).2
        rw [hs]
        exact ⟨ginv_none g rfl ⟨by show c.opcode ≠ 3; omega, by show c.opcode ≠ 5; omega⟩, rfl⟩
    · trivial

theorem ctrlRead_sim {cfg : Cfg} (c : Ctl) (q2 : Bool) (g : Ghost) (opb : UInt8) (rest : List UInt8)
    (hop : c.opcode = opb.toNat) (ho : opb.toNat = 8) :
    CtrlSim cfg q2 g (opb :: rest) (ctrlRead cfg c (opb :: rest)) := by
  have hs := fun code => spec_leave cfg g opb rest code (by omega) (by omega) (by omega) (by omega) (by omega)
  unfold ctrlRead
  split
  · obtain ⟨x, y, z⟩ := requestError_ginv (cfg := cfg) c q2 g invalidLength [] _ _ _ _ _ rfl
    show GInv cfg _ q2 (specCtrl cfg g (opb :: rest) invalidLength).1 ∧ flashes [] = (specCtrl cfg g (opb :: rest) invalidLength).2
    rw [hs]; exact ⟨x, rfl⟩
  · split
    · dsimp only
      split
      · obtain ⟨x, y, z⟩ := requestError_ginv (cfg := cfg) _ q2 g invalidOffset [] _ _ _ _ _ rfl
        show GInv cfg _ q2 (specCtrl cfg g (opb :: rest) invalidOffset).1 ∧ flashes [] = (specCtrl cfg g (opb :: rest) invalidOffset).2
        rw [hs]; exact ⟨x, rfl⟩
      · split <;>
        · show GInv cfg _ q2 (specCtrl cfg g (opb :: rest) 0).1 ∧ flashes [] = (specCtrl cfg g (opb :: rest) 0).2
          rw [hs]
          exact ⟨ginv_none g rfl ⟨by show c.opcode ≠ 3; omega, by show c.opcode ≠ 5; omega⟩, rfl⟩
    · trivial

theorem ctrlStart_sim {cfg : Cfg} (c : Ctl) (q2 : Bool) (g : Ghost) (opb : UInt8) (rest : List UInt8)
    (_hop : c.opcode = opb.toNat) (ho : opb.toNat = 6) (hg : GInv cfg c q2 g) :
    CtrlSim cfg q2 g (opb :: rest) (ctrlStart c (opb :: rest)) := by
  have hs := fun code => spec_67 cfg g opb rest code (.inl ho)
  unfold ctrlStart
  split
  · obtain ⟨x, y, z⟩ := requestError_ginv (cfg := cfg) c q2 g invalidLength [] _ _ _ _ _ rfl
    show GInv cfg _ q2 (specCtrl cfg g (opb :: rest) invalidLength).1 ∧ flashes [] = (specCtrl cfg g (opb :: rest) invalidLength).2
    rw [hs]; exact ⟨x, rfl⟩
  · split
    · show GInv cfg c q2 (specCtrl cfg g (opb :: rest) 0).1 ∧ flashes [_] = (specCtrl cfg g (opb :: rest) 0).2
      rw [hs]
      exact ⟨hg, rfl⟩
    · trivial

theorem ctrlReset_sim {cfg : Cfg} (c : Ctl) (q2 : Bool) (g : Ghost) (opb : UInt8) (rest : List UInt8)
    (_hop : c.opcode = opb.toNat) (ho : opb.toNat = 7) (hg : GInv cfg c q2 g) :
    CtrlSim cfg q2 g (opb :: rest) (ctrlReset c (opb :: rest).length) := by
  have hs := fun code => spec_67 cfg g opb rest code (.inr ho)
  unfold ctrlReset
  split
  · obtain ⟨x, y, z⟩ := requestError_ginv (cfg := cfg) c q2 g invalidLength [] _ _ _ _ _ rfl
    show GInv cfg _ q2 (specCtrl cfg g (opb :: rest) invalidLength).1 ∧ flashes [] = (specCtrl cfg g (opb :: rest) invalidLength).2
    rw [hs]; exact ⟨x, rfl⟩
  · show GInv cfg c q2 (specCtrl cfg g (opb :: rest) 0).1 ∧ flashes [_] = (specCtrl cfg g (opb :: rest) 0).2
    rw [hs]
    exact ⟨hg, rfl⟩

theorem ctrlStartFlash_sim {cfg : Cfg} (wf : cfg.WF) (c : Ctl) (q2 : Bool) (g : Ghost) (opb : UInt8) (rest : List UInt8)
    (_hop : c.opcode = opb.toNat) (ho : opb.toNat = 3)
    (hleg : ∀ c' n d effs, ctrlStartFlash cfg c (opb :: rest) = .done c' 0 n d effs → g.owed = 0 ∧ q2 = false) :
    CtrlSim cfg q2 g (opb :: rest) (ctrlStartFlash cfg c (opb :: rest)) := by
  have hs : ∀ code, specCtrl cfg g (opb :: rest) code =
      (if code = 0 then
        match readAddress (opb :: rest) 1 with
        | some s => { g with lay := some { cur := s, pend := [], crc := crcOfAddress s, busy := 0 }, s0 := s, recv := [] }
        | none => { g with lay := none }
       else { g with lay := none }, []) := by
    intro code; unfold specCtrl; simp only [if_pos ho]
  unfold ctrlStartFlash at hleg ⊢
  split
  · obtain ⟨x, y, z⟩ := requestError_ginv (cfg := cfg) c q2 g invalidLength [] _ _ _ _ _ rfl
    show GInv cfg _ q2 (specCtrl cfg g (opb :: rest) invalidLength).1 ∧ flashes [] = (specCtrl cfg g (opb :: rest) invalidLength).2
    rw [hs, if_neg (by decide)]; exact ⟨x, rfl⟩
  · next hl =>
    rw [if_neg hl] at hleg
    split
    · next s hsome =>
      rw [hsome] at hleg
      dsimp only at hleg ⊢
      split
      · obtain ⟨x, y, z⟩ := requestError_ginv (cfg := cfg) _ q2 g invalidOffset [] _ _ _ _ _ rfl
        show GInv cfg _ q2 (specCtrl cfg g (opb :: rest) invalidOffset).1 ∧ flashes [] = (specCtrl cfg g (opb :: rest) invalidOffset).2
        rw [hs, if_neg (by decide)]; exact ⟨x, rfl⟩
      · next hfl =>
        rw [if_neg hfl] at hleg
        obtain ⟨ho0, hq⟩ := hleg _ _ _ _ rfl
        show GInv cfg _ q2 (specCtrl cfg g (opb :: rest) 0).1 ∧ flashes [_] = (specCtrl cfg g (opb :: rest) 0).2
        rw [hs, if_pos rfl, hsome]
        refine ⟨⟨fun _ => rfl, rfl, ⟨by show (0 : Nat) < 2; decide, by show (0 : Nat) < 2; decide, startFlash_sim wf.1 c.b0 c.b1 s⟩, ?_⟩, rfl⟩
        show g.owed + (if q2 then 1 else 0) ≤ 0
        rw [ho0, hq]; decide
    · trivial

theorem ctrlFlush_sim {cfg : Cfg} (c : Ctl) (q2 : Bool) (g : Ghost) (opb : UInt8) (rest : List UInt8)
    (ho : opb.toNat = 5)
    (hg2 : match g.lay with
      | none => c.inFlash = false
      | some L => c.inFlash = true ∧ Sim cfg c L ∧ g.owed + (if q2 then 1 else 0) ≤ L.busy) :
    CtrlSim cfg q2 g (opb :: rest) (ctrlFlush cfg c) := by
  unfold ctrlFlush
  split
  · next hnf =>
    obtain ⟨x, y, z⟩ := requestError_ginv (cfg := cfg) c q2 g invalidState [] _ _ _ _ _ rfl
    show GInv cfg _ q2 (specCtrl cfg g (opb :: rest) invalidState).1 ∧ flashes [] = (specCtrl cfg g (opb :: rest) invalidState).2
    have hs : specCtrl cfg g (opb :: rest) invalidState = ({ g with lay := none }, []) := by
      unfold specCtrl
      simp only [if_neg (show ¬ opb.toNat = 3 by omega), if_pos ho]
      cases g.lay with
      | none => rfl
      | some L => simp [invalidState]
    rw [hs]; exact ⟨x, rfl⟩
  · next hnf =>
    have hfl : c.inFlash = true := by simpa using hnf
    have h2 := hg2
    cases hlay : g.lay with
    | none => rw [hlay] at h2; rw [h2] at hfl; cases hfl
    | some L =>
      rw [hlay] at h2
      obtain ⟨_, ⟨hn, hu, hsb⟩, hG⟩ := h2
      dsimp only
      split
      · obtain ⟨x, y, z⟩ := requestError_ginv (cfg := cfg) c q2 g invalidState [] _ _ _ _ _ rfl
        show GInv cfg _ q2 (specCtrl cfg g (opb :: rest) invalidState).1 ∧ flashes [] = (specCtrl cfg g (opb :: rest) invalidState).2
        have hs : specCtrl cfg g (opb :: rest) invalidState = ({ g with lay := none }, []) := by
          unfold specCtrl
          simp only [if_neg (show ¬ opb.toNat = 3 by omega), if_pos ho, hlay]
          simp [invalidState]
        rw [hs]; exact ⟨x, rfl⟩
      · next hok =>
        have hok' : (Buf.flush cfg.page (c.buf c.next)).2.2 = true := by simpa using hok
        obtain ⟨f1, f2⟩ := flush_sim hsb hok'
        have hs : specCtrl cfg g (opb :: rest) 0 = ({ g with lay := some (L.flush cfg).1, owed := g.owed + 1 }, (L.flush cfg).2) := by
          unfold specCtrl
          simp only [if_neg (show ¬ opb.toNat = 3 by omega), if_pos ho, hlay]
          simp
        show GInv cfg (c.setBuf c.next _) q2 (specCtrl cfg g (opb :: rest) 0).1 ∧ flashes _ = (specCtrl cfg g (opb :: rest) 0).2
        rw [hs]
        refine ⟨⟨fun _ => ?_, ?_, ?_, ?_⟩, f1⟩
        · rw [setBuf_inFlash]; exact hfl
        · show (c.setBuf c.next _).inFlash = true; rw [setBuf_inFlash]; exact hfl
        · exact (sim_upd (s' := c.start) hn hu f2).congr rfl rfl (setBuf_start _ _ _) rfl rfl
        · show g.owed + 1 + (if q2 then 1 else 0) ≤ L.busy + 1
          omega

/-- every control point write, seen from the flash specification; `hleg`: an *accepted* Start Flash
    arrives only when no page flash of an earlier procedure is outstanding -/
theorem ctrlWrite_sim {cfg : Cfg} (wf : cfg.WF) (c : Ctl) (q2 : Bool) (g : Ghost) (v : List UInt8)
    (hg : GInv cfg c q2 g)
    (hleg : ∀ rest c' n d effs, v = 3 :: rest → ctrlWrite cfg c v = .done c' 0 n d effs → g.owed = 0 ∧ q2 = false) :
    CtrlSim cfg q2 g v (ctrlWrite cfg c v) := by
  unfold ctrlWrite at hleg ⊢
  cases v with
  | nil => exact ⟨hg, rfl⟩
  | cons opb rest =>
    dsimp only at hleg ⊢
    have hg0 : ∀ (h35 : opb.toNat ≠ 3 ∧ opb.toNat ≠ 5), GInv cfg { c with opcode := opb.toNat } q2 g :=
      fun h35 => ginv_congr hg rfl rfl rfl rfl rfl rfl (.inr h35)
    split
    · next ho => exact ctrlLeaveFlash_sim _ q2 g opb rest rfl ho
    · split
      · next ho => exact ctrlGetCrc_sim _ q2 g opb rest rfl ho
      · split
        · next ho =>
          refine ctrlStartFlash_sim wf _ q2 g opb rest rfl ho ?_
          intro c' n d effs heq
          have h3 : opb = 3 := by
            apply UInt8.toNat_inj.mp; exact ho
          subst h3
          refine hleg rest c' n d effs rfl ?_
          simp only [if_true, show (3 : UInt8).toNat = 3 by decide]
          exact heq
        · split
          · next h3 ho =>
            refine ctrlFlush_sim _ q2 g opb rest ho ?_
            have h2 := hg.2
            revert h2
            cases g.lay with
            | none => exact id
            | some L => intro h2; exact ⟨h2.1, h2.2.1.congr rfl rfl rfl rfl rfl, h2.2.2⟩
          · split
            · next ho => exact ctrlStart_sim _ q2 g opb rest rfl ho (hg0 (by omega))
            · split
              · next ho => exact ctrlReset_sim _ q2 g opb rest rfl ho (hg0 (by omega))
              · split
                · next ho => exact ctrlRead_sim _ q2 g opb rest rfl ho
                · next h0 h1 h3 h5 h6 h7 h8 =>
                  show GInv cfg _ q2 (specCtrl cfg g (opb :: rest) invalidOpcode).1 ∧ flashes [] = (specCtrl cfg g (opb :: rest) invalidOpcode).2
                  rw [spec_other cfg g opb rest _ (by omega)]
                  exact ⟨hg0 (by omega), rfl⟩

end BluetoeModel.Bootloader
