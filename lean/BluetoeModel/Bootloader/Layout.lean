import BluetoeModel.Bootloader.Lemmas
/-!
  Specification of the flash procedure ("data is flashed at the client's addresses with the
  announced checksum chain") and the lemmas that relate one `flash_buffer` to it.

  The specification `Lay` knows nothing about buffers: it keeps the device address of the first
  received byte that has not been handed to `start_flash` yet (`cur`), the received bytes that are
  still waiting (`pend`, they belong to the addresses `cur, cur + 1, …`), the checksum chain
  (`crc`) and the number of page flashes that were started and not yet reported as finished
  (`busy`). Bytes are fed one at a time (`Lay.push`); when the address behind the byte is a page
  boundary, the page is flashed (`pageImage`).
-/
namespace BluetoeModel.Bootloader

structure Lay where
  cur  : Nat
  pend : List UInt8
  crc  : Nat
  busy : Nat
deriving Repr, DecidableEq

/-- The `start_flash` call that writes the waiting bytes `pend` to the addresses `cur, cur + 1, …`:
    the page that contains `cur`, with `pend` at offset `cur % page` and everything else as
    `read_mem` returns it for exactly those addresses. -/
def pageImage (cfg : Cfg) (cur : Nat) (pend : List UInt8) : Effect :=
  .startFlash (cur - cur % cfg.page) cfg.page
    (memRange (cur - cur % cfg.page) (cur % cfg.page) ++ pend ++
      memRange ((cur + pend.length) % W) (cfg.page - (cur % cfg.page + pend.length)))

/-- one received byte -/
def Lay.push (cfg : Cfg) (L : Lay) (b : UInt8) : Lay × List Effect :=
  if (L.cur + L.pend.length + 1) % cfg.page = 0 then
    ({ cur := L.cur + L.pend.length + 1, pend := [], crc := crcAdd L.crc [b], busy := L.busy + 1 },
      [pageImage cfg L.cur (L.pend ++ [b])])
  else ({ L with pend := L.pend ++ [b], crc := crcAdd L.crc [b] }, [])

/-- received bytes, in order -/
def Lay.feed (cfg : Cfg) (L : Lay) : List UInt8 → Lay × List Effect
  | [] => (L, [])
  | b :: bs => ((Lay.feed cfg (L.push cfg b).1 bs).1, (L.push cfg b).2 ++ (Lay.feed cfg (L.push cfg b).1 bs).2)

/-- an accepted Flush procedure -/
def Lay.flush (cfg : Cfg) (L : Lay) : Lay × List Effect :=
  ({ L with cur := L.cur + L.pend.length, pend := [], busy := L.busy + 1 }, [pageImage cfg L.cur L.pend])

/-- the checksum chain, byte by byte -/
def crcChain (c : Nat) (bs : List UInt8) : Nat := bs.foldl (fun c b => crcAdd c [b]) c

/-! ### the chaining law of the handler's `checksum32( p, n, old )` — the only fact about the
    checksum the proofs use -/

theorem foldl_sum (bs : List UInt8) : ∀ s : Nat, bs.foldl (fun s b => s + b.toNat) s = s + sumBytes bs := by
  unfold sumBytes
  induction bs with
  | nil => intro s; rfl
  | cons b bs ih =>
    intro s
    simp only [List.foldl_cons]
    rw [ih (s + b.toNat), ih (0 + b.toNat)]
    omega

theorem sumBytes_append (a b : List UInt8) : sumBytes (a ++ b) = sumBytes a + sumBytes b := by
  show (a ++ b).foldl _ 0 = _
  rw [List.foldl_append, foldl_sum b, ← sumBytes]

/-- `checksum32( p2, n2, checksum32( p1, n1, c ) ) = checksum32( p1 ++ p2, n1 + n2, c )` -/
theorem crcAdd_append (c : Nat) (a b : List UInt8) : crcAdd (crcAdd c a) b = crcAdd c (a ++ b) := by
  unfold crcAdd
  rw [sumBytes_append]
  omega

theorem crcChain_eq (bs : List UInt8) (hne : bs ≠ []) : ∀ c, crcChain c bs = crcAdd c bs := by
  induction bs with
  | nil => exact absurd rfl hne
  | cons b bs ih =>
    intro c
    cases bs with
    | nil => rfl
    | cons b' bs' =>
      have := ih (by simp) (crcAdd c [b])
      show crcChain (crcAdd c [b]) (b' :: bs') = _
      rw [this, crcAdd_append]
      rfl

theorem crcChain_append (c : Nat) (a b : List UInt8) : crcChain (crcChain c a) b = crcChain c (a ++ b) := by
  unfold crcChain; rw [List.foldl_append]

/-! ### arithmetic with a variable page size -/

theorem aligned_add_mod {A n : Nat} (hA : A % n = 0) (x : Nat) : (A + x) % n = x % n := by
  rw [Nat.add_mod, hA, Nat.zero_add, Nat.mod_mod]

theorem sub_mod_aligned (a n : Nat) : (a - a % n) % n = 0 := by
  have h := Nat.div_add_mod a n
  have : a - a % n = n * (a / n) := by omega
  rw [this, Nat.mul_mod_right]

theorem memRange_zero (a : Nat) : memRange a 0 = [] := rfl

/-! ### feeding a chunk that stays inside the page / that ends exactly at the page end -/

theorem feed_small (cfg : Cfg) {A : Nat} (hA : A % cfg.page = 0) :
    ∀ (chunk : List UInt8) (L : Lay) (p : Nat), L.cur + L.pend.length = A + p → p + chunk.length < cfg.page →
      Lay.feed cfg L chunk =
        ({ cur := L.cur, pend := L.pend ++ chunk, crc := crcChain L.crc chunk, busy := L.busy }, []) := by
  intro chunk
  induction chunk with
  | nil => intro L p _ _; simp [Lay.feed, crcChain]
  | cons b bs ih =>
    intro L p hpos hlt
    simp only [List.length_cons] at hlt
    have hne : ¬ (L.cur + L.pend.length + 1) % cfg.page = 0 := by
      rw [hpos, Nat.add_assoc, aligned_add_mod hA, Nat.mod_eq_of_lt (by omega)]; omega
    have hpush : L.push cfg b = ({ L with pend := L.pend ++ [b], crc := crcAdd L.crc [b] }, []) := by
      unfold Lay.push; rw [if_neg hne]
    unfold Lay.feed
    rw [hpush]
    dsimp only
    rw [ih _ (p + 1) (by simp only [List.length_append, List.length_singleton]; omega) (by omega)]
    simp [crcChain]

theorem feed_fill (cfg : Cfg) {A : Nat} (hA : A % cfg.page = 0) (hp : 0 < cfg.page) :
    ∀ (chunk : List UInt8) (L : Lay) (p : Nat), L.cur + L.pend.length = A + p → p + chunk.length = cfg.page →
      chunk ≠ [] →
      Lay.feed cfg L chunk =
        ({ cur := L.cur + L.pend.length + chunk.length, pend := [], crc := crcChain L.crc chunk, busy := L.busy + 1 },
          [pageImage cfg L.cur (L.pend ++ chunk)]) := by
  intro chunk
  induction chunk with
  | nil => intro L p _ _ h; exact absurd rfl h
  | cons b bs ih =>
    intro L p hpos hlen _
    simp only [List.length_cons] at hlen
    cases bs with
    | nil =>
      simp only [List.length_nil] at hlen
      have hz : (L.cur + L.pend.length + 1) % cfg.page = 0 := by
        rw [hpos, Nat.add_assoc, aligned_add_mod hA, show p + 1 = cfg.page by omega, Nat.mod_self]
      unfold Lay.feed Lay.push
      rw [if_pos hz]
      simp [Lay.feed, crcChain]
    | cons b' bs' =>
      simp only [List.length_cons] at hlen
      have hne : ¬ (L.cur + L.pend.length + 1) % cfg.page = 0 := by
        rw [hpos, Nat.add_assoc, aligned_add_mod hA, Nat.mod_eq_of_lt (by omega)]; omega
      have hpush : L.push cfg b = ({ L with pend := L.pend ++ [b], crc := crcAdd L.crc [b] }, []) := by
        unfold Lay.push; rw [if_neg hne]
      unfold Lay.feed
      rw [hpush]
      dsimp only
      rw [ih _ (p + 1) (by simp only [List.length_append, List.length_singleton]; omega)
        (by simp only [List.length_cons]; omega) (by simp)]
      simp only [List.length_append, List.length_cons, List.append_assoc,
        List.singleton_append, List.nil_append, crcChain, List.foldl_cons]
      have e : L.cur + (L.pend.length + (([] : List UInt8).length + 1)) + (bs'.length + 1) =
          L.cur + L.pend.length + (bs'.length + 1 + 1) := by simp only [List.length_nil]; omega
      rw [e]

theorem feed_append (cfg : Cfg) (a b : List UInt8) : ∀ L : Lay,
    Lay.feed cfg L (a ++ b) =
      ((Lay.feed cfg (Lay.feed cfg L a).1 b).1, (Lay.feed cfg L a).2 ++ (Lay.feed cfg (Lay.feed cfg L a).1 b).2) := by
  induction a with
  | nil => intro L; simp [Lay.feed]
  | cons x xs ih =>
    intro L
    simp only [List.cons_append, Lay.feed]
    rw [ih]
    simp [List.append_assoc]

/-- every flashed page makes one page flash outstanding -/
theorem feed_busy (cfg : Cfg) (bs : List UInt8) : ∀ L : Lay,
    (Lay.feed cfg L bs).1.busy = L.busy + (Lay.feed cfg L bs).2.length := by
  induction bs with
  | nil => intro L; simp [Lay.feed]
  | cons b bs ih =>
    intro L
    simp only [Lay.feed]
    rw [ih]
    unfold Lay.push
    split <;> simp <;> omega

end BluetoeModel.Bootloader
