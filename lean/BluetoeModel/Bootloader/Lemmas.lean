import BluetoeModel.Bootloader.Model
/-!
  Invariants of the bootloader controller: every buffer that is not idle sits on a page that lies
  entirely inside one white-listed region (`BufOK`), and while the Read procedure is the current
  control point procedure its `[start_address, end_address)` lies inside one region (`ReadOK`).
-/
namespace BluetoeModel.Bootloader

/-- what the C++ types guarantee for every configuration that compiles: a non-empty page and
    region ends that are `std::uintptr_t` values -/
def Cfg.WF (cfg : Cfg) : Prop := 0 < cfg.page ∧ ∀ r ∈ cfg.regions, r.2 < W

/-- `[a, a + n)` lies entirely inside one white-listed region -/
def InRegion (cfg : Cfg) (a n : Nat) : Prop := ∃ r ∈ cfg.regions, r.1 ≤ a ∧ a + n ≤ r.2

/-- the memory an effect touches lies entirely inside one white-listed region -/
def Effect.inside (cfg : Cfg) : Effect → Prop
  | .readMem a n => InRegion cfg a n
  | .startFlash a n _ => InRegion cfg a n
  | .checksum a n => InRegion cfg a n
  | .publicRead a n => InRegion cfg a n
  | .run _ => True
  | .reset => True

/-- the same, for the effects of flashing and checksumming only -/
def Effect.flashInside (cfg : Cfg) : Effect → Prop
  | .publicRead _ _ => True
  | e => e.inside cfg

theorem Effect.inside_flashInside {cfg : Cfg} {e : Effect} (h : e.inside cfg) : e.flashInside cfg := by
  cases e <;> first | exact h | trivial

def AllInside (cfg : Cfg) (effs : List Effect) : Prop := ∀ e ∈ effs, e.inside cfg

theorem AllInside.nil {cfg : Cfg} : AllInside cfg [] := by intro e h; cases h

theorem AllInside.append {cfg : Cfg} {a b : List Effect} (ha : AllInside cfg a) (hb : AllInside cfg b) :
    AllInside cfg (a ++ b) := by
  intro e h
  rcases List.mem_append.mp h with h | h
  · exact ha e h
  · exact hb e h

theorem acceptable_spec {cfg : Cfg} {s e : Nat} (h : acceptable cfg s e = true) :
    ∃ r ∈ cfg.regions, r.1 ≤ s ∧ e ≤ r.2 := by
  unfold acceptable at h
  rw [List.any_eq_true] at h
  obtain ⟨r, hr, hc⟩ := h
  simp only [Bool.and_eq_true, decide_eq_true_eq] at hc
  exact ⟨r, hr, hc.1, hc.2⟩

theorem flashable_spec {cfg : Cfg} {a : Nat} (h : flashablePage cfg a = true) :
    InRegion cfg (a - a % cfg.page) cfg.page := by
  unfold flashablePage at h
  simp only [Bool.and_eq_true, decide_eq_true_eq] at h
  obtain ⟨r, hr, h1, h2⟩ := acceptable_spec h.2
  exact ⟨r, hr, h1, h2⟩

theorem InRegion.mono {cfg : Cfg} {a n a' n' : Nat} (h : InRegion cfg a n) (h1 : a ≤ a') (h2 : a' + n' ≤ a + n) :
    InRegion cfg a' n' := by
  obtain ⟨r, hr, h3, h4⟩ := h
  exact ⟨r, hr, by omega, by omega⟩

/-- a buffer that is not idle sits on a white-listed page -/
def BufOK (cfg : Cfg) (b : Buf) : Prop := b.st = .idle ∨ (InRegion cfg b.addr cfg.page ∧ b.ptr ≤ cfg.page)

theorem bufOK_free (cfg : Cfg) (b : Buf) : BufOK cfg b.free := .inl rfl

theorem setStart_ok {cfg : Cfg} (wf : cfg.WF) (b : Buf) (a crc cons : Nat) (h : flashablePage cfg a = true) :
    BufOK cfg (Buf.setStart cfg.page b a crc cons).1 ∧ AllInside cfg (Buf.setStart cfg.page b a crc cons).2 := by
  have hr := flashable_spec h
  have hlt : a % cfg.page < cfg.page := Nat.mod_lt _ wf.1
  refine ⟨.inr ⟨hr, Nat.le_of_lt hlt⟩, ?_⟩
  intro e he
  simp only [Buf.setStart, List.mem_singleton] at he
  subst he
  exact hr.mono (Nat.le_refl _) (by omega)

theorem flush_ok {cfg : Cfg} (wf : cfg.WF) (b : Buf) (h : BufOK cfg b) :
    BufOK cfg (Buf.flush cfg.page b).1 ∧ AllInside cfg (Buf.flush cfg.page b).2.1 := by
  unfold Buf.flush
  split
  · exact ⟨h, AllInside.nil⟩
  · next hc =>
    simp only [Bool.or_eq_true, decide_eq_true_eq, not_or, ne_eq, Decidable.not_not] at hc
    rcases h with h | ⟨hreg, hptr⟩
    · exact absurd h (by rw [hc.1]; decide)
    · refine ⟨.inr ⟨hreg, hptr⟩, ?_⟩
      obtain ⟨r, hr, h1, h2⟩ := hreg
      have hW := wf.2 r hr
      have hmod : (b.addr + b.ptr) % W = b.addr + b.ptr := Nat.mod_eq_of_lt (by omega)
      apply AllInside.append
      · intro e he
        split at he
        · simp only [List.mem_singleton] at he
          subst he
          rw [hmod]
          exact ⟨r, hr, by omega, by omega⟩
        · cases he
      · intro e he
        simp only [List.mem_singleton] at he
        subst he
        exact ⟨r, hr, h1, h2⟩

theorem writeData_ok {cfg : Cfg} (wf : cfg.WF) (b : Buf) (bs : List UInt8) (h : BufOK cfg b) :
    BufOK cfg (Buf.writeData cfg.page b bs).1 ∧ AllInside cfg (Buf.writeData cfg.page b bs).2.1 := by
  have hkey : ∀ b1 : Buf, b1.st = b.st → b1.addr = b.addr →
      b1.ptr = b.ptr + min (cfg.page - b.ptr) bs.length → BufOK cfg b1 := by
    intro b1 e1 e2 e3
    rcases h with h | ⟨hreg, hptr⟩
    · exact .inl (e1.trans h)
    · exact .inr ⟨e2 ▸ hreg, by rw [e3]; omega⟩
  unfold Buf.writeData
  dsimp only
  split
  · exact flush_ok wf _ (hkey _ rfl rfl rfl)
  · exact ⟨hkey _ rfl rfl rfl, AllInside.nil⟩

/-- both flash buffers are fine -/
def CtlOK (cfg : Cfg) (c : Ctl) : Prop := BufOK cfg c.b0 ∧ BufOK cfg c.b1

/-- while the Read procedure is current, `[start_address, end_address)` is inside one region -/
def ReadOK (cfg : Cfg) (c : Ctl) : Prop :=
  c.opcode = 8 → ∃ r ∈ cfg.regions, r.1 ≤ c.start ∧ c.start ≤ c.stop ∧ c.stop ≤ r.2

theorem CtlOK.buf {cfg : Cfg} {c : Ctl} (h : CtlOK cfg c) (i : Nat) : BufOK cfg (c.buf i) := by
  unfold Ctl.buf; split
  · exact h.1
  · exact h.2

theorem CtlOK.setBuf {cfg : Cfg} {c : Ctl} (h : CtlOK cfg c) (i : Nat) {b : Buf} (hb : BufOK cfg b) :
    CtlOK cfg (c.setBuf i b) := by
  unfold Ctl.setBuf; split
  · exact ⟨hb, h.2⟩
  · exact ⟨h.1, hb⟩

theorem setBuf_fields (c : Ctl) (i : Nat) (b : Buf) :
    (c.setBuf i b).opcode = c.opcode ∧ (c.setBuf i b).start = c.start ∧ (c.setBuf i b).stop = c.stop := by
  unfold Ctl.setBuf; split <;> exact ⟨rfl, rfl, rfl⟩

theorem setBuf_inFlash (c : Ctl) (i : Nat) (b : Buf) : (c.setBuf i b).inFlash = c.inFlash := by
  unfold Ctl.setBuf; split <;> rfl

/-- outcome of a step of the controller: buffers fine, effects inside, opcode untouched -/
structure StepOK (cfg : Cfg) (c c' : Ctl) (effs : List Effect) : Prop where
  ctl    : CtlOK cfg c'
  effs   : AllInside cfg effs
  opcode : c'.opcode = c.opcode

theorem findNextBuffer_ok {cfg : Cfg} (wf : cfg.WF) (c : Ctl) (h : CtlOK cfg c) :
    StepOK cfg c (findNextBuffer cfg c).1 (findNextBuffer cfg c).2.1 := by
  unfold findNextBuffer
  dsimp only
  split
  · next hc =>
    simp only [Bool.and_eq_true, decide_eq_true_eq] at hc
    have hs := setStart_ok wf (c.buf ((c.next + 1) % 2)) c.start (c.buf c.next).crc ((c.cons + 1) % 65536) hc.2
    exact ⟨h.setBuf _ hs.1, hs.2, (setBuf_fields c _ _).1⟩
  · exact ⟨h, AllInside.nil, rfl⟩

theorem writeLoop_ok {cfg : Cfg} (wf : cfg.WF) (fuel : Nat) : ∀ (c : Ctl) (bs : List UInt8) (effs : List Effect),
    CtlOK cfg c → AllInside cfg effs →
    StepOK cfg c (writeLoop cfg fuel c bs effs).1 (writeLoop cfg fuel c bs effs).2.2 := by
  induction fuel with
  | zero => intro c bs effs h he; exact ⟨h, he, rfl⟩
  | succ fuel ih =>
    intro c bs effs h he
    unfold writeLoop
    split
    · exact ⟨h, he, rfl⟩
    · dsimp only
      have hw := writeData_ok wf (c.buf c.next) bs (h.buf c.next)
      have hc1 : CtlOK cfg { (c.setBuf c.next (Buf.writeData cfg.page (c.buf c.next) bs).1) with
          start := (c.start + (Buf.writeData cfg.page (c.buf c.next) bs).2.2) % W } :=
        h.setBuf c.next hw.1
      have hop1 : ({ (c.setBuf c.next (Buf.writeData cfg.page (c.buf c.next) bs).1) with
          start := (c.start + (Buf.writeData cfg.page (c.buf c.next) bs).2.2) % W } : Ctl).opcode = c.opcode :=
        (setBuf_fields c _ _).1
      split
      · have hf := findNextBuffer_ok wf _ hc1
        split
        · exact ⟨hf.ctl, (he.append hw.2).append hf.effs, hf.opcode.trans hop1⟩
        · have := ih _ (bs.drop (Buf.writeData cfg.page (c.buf c.next) bs).2.2) _ hf.ctl
            ((he.append hw.2).append hf.effs)
          exact ⟨this.ctl, this.effs, this.opcode.trans (hf.opcode.trans hop1)⟩
      · exact ⟨hc1, he.append hw.2, hop1⟩

theorem dataWrite_ok {cfg : Cfg} (wf : cfg.WF) (c : Ctl) (bs : List UInt8) (h : CtlOK cfg c) :
    StepOK cfg c (dataWrite cfg c bs).1 (dataWrite cfg c bs).2.2 := by
  unfold dataWrite
  split
  · exact ⟨h, AllInside.nil, rfl⟩
  · split
    · exact ⟨h, AllInside.nil, rfl⟩
    · split
      · dsimp only
        have hf := findNextBuffer_ok wf c h
        split
        · exact ⟨hf.ctl, hf.effs, hf.opcode⟩
        · have := writeLoop_ok wf (bs.length + 1) _ bs _ hf.ctl hf.effs
          exact ⟨this.ctl, this.effs, this.opcode.trans hf.opcode⟩
      · exact writeLoop_ok wf (bs.length + 1) c bs [] h AllInside.nil

/-- a data write that changes anything happens in flash mode with a non-empty value -/
theorem dataWrite_noop (cfg : Cfg) (c : Ctl) (bs : List UInt8) (h : c.inFlash = false ∨ bs = []) :
    (dataWrite cfg c bs).1 = c := by
  unfold dataWrite
  rcases h with h | h
  · simp [h]
  · subst h; split <;> rfl

/-! ### control point writes -/

/-- a control point write never reads behind the value, leaves the buffers fine, (re-)establishes
    `ReadOK` and has all its effects inside the white list -/
def ResOK (cfg : Cfg) : CtrlResult → Prop
  | .done c _ _ _ effs => CtlOK cfg c ∧ ReadOK cfg c ∧ AllInside cfg effs
  | .oob => False

theorem readAddress_some (v : List UInt8) (off : Nat) (h : off + 8 ≤ v.length) :
    ∃ x, readAddress v off = some x := by
  unfold readAddress; rw [if_pos h]; exact ⟨_, rfl⟩

theorem requestError_ok {cfg : Cfg} {c : Ctl} (h : CtlOK cfg c) (code : Nat) : ResOK cfg (requestError c code) :=
  ⟨h, fun h8 => absurd h8 (by show undefinedOpcode ≠ 8; decide), AllInside.nil⟩

theorem ctrlLeaveFlash_ok {cfg : Cfg} {c : Ctl} (h : CtlOK cfg c) (hop : c.opcode ≠ 8) (n : Nat) :
    ResOK cfg (ctrlLeaveFlash c n) := by
  unfold ctrlLeaveFlash; split
  · exact requestError_ok h _
  · exact ⟨⟨bufOK_free _ _, bufOK_free _ _⟩, fun h8 => absurd h8 hop, AllInside.nil⟩

theorem ctrlGetCrc_ok {cfg : Cfg} {c : Ctl} (h : CtlOK cfg c) (hop : c.opcode ≠ 8) (v : List UInt8) :
    ResOK cfg (ctrlGetCrc cfg c v) := by
  unfold ctrlGetCrc; split
  · exact requestError_ok h _
  · next hl =>
    simp only [ne_eq, Decidable.not_not] at hl
    obtain ⟨s, hs⟩ := readAddress_some v 1 (by omega)
    obtain ⟨e, he⟩ := readAddress_some v 9 (by omega)
    rw [hs, he]
    dsimp only
    split
    · refine requestError_ok ?_ _; exact h
    · next hc =>
      simp only [Bool.or_eq_true, decide_eq_true_eq, Bool.not_eq_true', not_or, Nat.not_lt,
        Bool.not_eq_false] at hc
      obtain ⟨r, hr, h1, h2⟩ := acceptable_spec hc.2
      refine ⟨h, fun h8 => absurd h8 hop, ?_⟩
      intro eff heff
      simp only [List.mem_singleton] at heff
      subst heff
      exact ⟨r, hr, h1, by have := hc.1; omega⟩

theorem ctrlStartFlash_ok {cfg : Cfg} (wf : cfg.WF) {c : Ctl} (h : CtlOK cfg c) (hop : c.opcode ≠ 8)
    (v : List UInt8) : ResOK cfg (ctrlStartFlash cfg c v) := by
  unfold ctrlStartFlash; split
  · exact requestError_ok h _
  · next hl =>
    simp only [ne_eq, Decidable.not_not] at hl
    obtain ⟨s, hs⟩ := readAddress_some v 1 (by omega)
    rw [hs]
    dsimp only
    split
    · refine requestError_ok ?_ _; exact h
    · next hc =>
      simp only [Bool.not_eq_true', Bool.not_eq_false] at hc
      have hst := setStart_ok wf c.b0.free s (crcOfAddress s) 0 hc
      exact ⟨⟨hst.1, bufOK_free _ _⟩, fun h8 => absurd h8 hop, hst.2⟩

theorem ctrlFlush_ok {cfg : Cfg} (wf : cfg.WF) {c : Ctl} (h : CtlOK cfg c) (hop : c.opcode ≠ 8) :
    ResOK cfg (ctrlFlush cfg c) := by
  unfold ctrlFlush; split
  · exact requestError_ok h _
  · dsimp only
    have hf := flush_ok wf (c.buf c.next) (h.buf c.next)
    split
    · exact requestError_ok h _
    · exact ⟨h.setBuf _ hf.1, fun h8 => absurd ((setBuf_fields c _ _).1 ▸ h8) hop, hf.2⟩

theorem ctrlStart_ok {cfg : Cfg} {c : Ctl} (h : CtlOK cfg c) (hop : c.opcode ≠ 8) (v : List UInt8) :
    ResOK cfg (ctrlStart c v) := by
  unfold ctrlStart; split
  · exact requestError_ok h _
  · next hl =>
    simp only [ne_eq, Decidable.not_not] at hl
    obtain ⟨s, hs⟩ := readAddress_some v 1 (by omega)
    rw [hs]
    refine ⟨h, fun h8 => absurd h8 hop, ?_⟩
    intro e he
    simp only [List.mem_singleton] at he
    subst he; trivial

theorem ctrlReset_ok {cfg : Cfg} {c : Ctl} (h : CtlOK cfg c) (hop : c.opcode ≠ 8) (n : Nat) :
    ResOK cfg (ctrlReset c n) := by
  unfold ctrlReset; split
  · exact requestError_ok h _
  · refine ⟨h, fun h8 => absurd h8 hop, ?_⟩
    intro e he
    simp only [List.mem_singleton] at he
    subst he; trivial

theorem ctrlRead_ok {cfg : Cfg} {c : Ctl} (h : CtlOK cfg c) (v : List UInt8) :
    ResOK cfg (ctrlRead cfg c v) := by
  unfold ctrlRead; split
  · exact requestError_ok h _
  · next hl =>
    simp only [ne_eq, Decidable.not_not] at hl
    obtain ⟨s, hs⟩ := readAddress_some v 1 (by omega)
    obtain ⟨e, he⟩ := readAddress_some v 9 (by omega)
    rw [hs, he]
    dsimp only
    split
    · refine requestError_ok ?_ _; exact h
    · next hc =>
      simp only [Bool.or_eq_true, decide_eq_true_eq, Bool.not_eq_true', not_or, Nat.not_lt,
        Bool.not_eq_false] at hc
      obtain ⟨r, hr, h1, h2⟩ := acceptable_spec hc.2
      have hread : ∀ c' : Ctl, c'.start = s → c'.stop = e → ReadOK cfg c' := by
        intro c' e1 e2 _
        exact ⟨r, hr, by omega, by omega, by omega⟩
      split
      · exact ⟨h, hread _ rfl rfl, AllInside.nil⟩
      · exact ⟨h, hread _ rfl rfl, AllInside.nil⟩

/-- fix boot-03: while the Read procedure is the current control point procedure the controller is
    not in flash mode (so no data write can move `start_address`) -/
def ReadMode (c : Ctl) : Prop := c.opcode = 8 → c.inFlash = false

/-- the controller a control point write leaves behind -/
def CtrlResult.ctl? : CtrlResult → Option Ctl
  | .done c _ _ _ _ => some c
  | .oob => none

theorem requestError_readMode (c : Ctl) (code : Nat) (effs : List Effect) :
    ∀ c', (requestError c code effs).ctl? = some c' → ReadMode c' := by
  intro c' h
  simp only [requestError, CtrlResult.ctl?, Option.some.injEq] at h
  subst h
  intro h8
  exact absurd h8 (by show undefinedOpcode ≠ 8; decide)

theorem readMode_of_ne {c : Ctl} (h : c.opcode ≠ 8) : ReadMode c := fun h8 => absurd h8 h

theorem ctrlRead_readMode (cfg : Cfg) (c : Ctl) (v : List UInt8) :
    ∀ c', (ctrlRead cfg c v).ctl? = some c' → ReadMode c' := by
  intro c'
  unfold ctrlRead
  split
  · exact requestError_readMode _ _ _ c'
  · split
    · dsimp only
      split
      · exact requestError_readMode _ _ _ c'
      · split <;>
        · intro h
          simp only [CtrlResult.ctl?, Option.some.injEq] at h
          subst h
          intro _; rfl
    · intro h; simp [CtrlResult.ctl?] at h

/-- every control point write leaves `ReadMode` established: either the opcode is not 8 afterwards,
    or it is an accepted Read, which leaves flash mode -/
theorem ctrlWrite_readMode (cfg : Cfg) (c : Ctl) (v : List UInt8) (hm : ReadMode c) :
    ∀ c', (ctrlWrite cfg c v).ctl? = some c' → ReadMode c' := by
  intro c'
  unfold ctrlWrite
  cases v with
  | nil =>
    intro h
    simp only [CtrlResult.ctl?, Option.some.injEq] at h
    subst h; exact hm
  | cons opb rest =>
    dsimp only
    have key : ∀ (r : CtrlResult), opb.toNat ≠ 8 →
        (∀ c', r.ctl? = some c' → c'.opcode = opb.toNat ∨ c'.opcode = undefinedOpcode) →
        r.ctl? = some c' → ReadMode c' := by
      intro r hne hr h
      rcases hr c' h with e | e
      · exact readMode_of_ne (by rw [e]; exact hne)
      · exact readMode_of_ne (by rw [e]; decide)
    split
    · next ho =>
      refine key _ (by omega) ?_
      intro c'' h
      unfold ctrlLeaveFlash at h
      split at h <;> simp only [requestError, CtrlResult.ctl?, Option.some.injEq] at h <;> subst h
      · exact .inr rfl
      · exact .inl rfl
    · split
      · next ho =>
        refine key _ (by omega) ?_
        intro c'' h
        unfold ctrlGetCrc at h
        split at h
        · simp only [requestError, CtrlResult.ctl?, Option.some.injEq] at h; subst h; exact .inr rfl
        · split at h
          · dsimp only at h
            split at h <;> simp only [requestError, CtrlResult.ctl?, Option.some.injEq] at h <;> subst h
            · exact .inr rfl
            · exact .inl rfl
          · simp [CtrlResult.ctl?] at h
      · split
        · next ho =>
          refine key _ (by omega) ?_
          intro c'' h
          unfold ctrlStartFlash at h
          split at h
          · simp only [requestError, CtrlResult.ctl?, Option.some.injEq] at h; subst h; exact .inr rfl
          · split at h
            · dsimp only at h
              split at h <;> simp only [requestError, CtrlResult.ctl?, Option.some.injEq] at h <;> subst h
              · exact .inr rfl
              · exact .inl rfl
            · simp [CtrlResult.ctl?] at h
        · split
          · next ho =>
            refine key _ (by omega) ?_
            intro c'' h
            unfold ctrlFlush at h
            split at h
            · simp only [requestError, CtrlResult.ctl?, Option.some.injEq] at h; subst h; exact .inr rfl
            · dsimp only at h
              split at h <;> simp only [requestError, CtrlResult.ctl?, Option.some.injEq] at h <;> subst h
              · exact .inr rfl
              · exact .inl (setBuf_fields _ _ _).1
          · split
            · next ho =>
              refine key _ (by omega) ?_
              intro c'' h
              unfold ctrlStart at h
              split at h
              · simp only [requestError, CtrlResult.ctl?, Option.some.injEq] at h; subst h; exact .inr rfl
              · split at h
                · simp only [CtrlResult.ctl?, Option.some.injEq] at h; subst h; exact .inl rfl
                · simp [CtrlResult.ctl?] at h
            · split
              · next ho =>
                refine key _ (by omega) ?_
                intro c'' h
                unfold ctrlReset at h
                split at h <;> simp only [requestError, CtrlResult.ctl?, Option.some.injEq] at h <;> subst h
                · exact .inr rfl
                · exact .inl rfl
              · split
                · exact ctrlRead_readMode cfg _ _ c'
                · next ho =>
                  intro h
                  simp only [CtrlResult.ctl?, Option.some.injEq] at h
                  subst h
                  exact readMode_of_ne ho

/-- the same relative to the state before the write: `ReadOK` is preserved -/
def ResOK' (cfg : Cfg) (c : Ctl) : CtrlResult → Prop
  | .done c' _ _ _ effs => CtlOK cfg c' ∧ (ReadOK cfg c → ReadOK cfg c') ∧ AllInside cfg effs
  | .oob => False

theorem ResOK.weaken {cfg : Cfg} {c : Ctl} {res : CtrlResult} (h : ResOK cfg res) : ResOK' cfg c res := by
  cases res with
  | done c' code n d effs => exact ⟨h.1, fun _ => h.2.1, h.2.2⟩
  | oob => exact h

theorem ctrlWrite_ok {cfg : Cfg} (wf : cfg.WF) {c : Ctl} (h : CtlOK cfg c)
    (v : List UInt8) : ResOK' cfg c (ctrlWrite cfg c v) := by
  unfold ctrlWrite
  cases v with
  | nil => exact ⟨h, id, AllInside.nil⟩
  | cons opb rest =>
    dsimp only
    have hc : CtlOK cfg { c with opcode := opb.toNat } := h
    split
    · next ho => exact (ctrlLeaveFlash_ok hc (by show opb.toNat ≠ 8; omega) _).weaken
    · split
      · next ho => exact (ctrlGetCrc_ok hc (by show opb.toNat ≠ 8; omega) _).weaken
      · split
        · next ho => exact (ctrlStartFlash_ok wf hc (by show opb.toNat ≠ 8; omega) _).weaken
        · split
          · next ho => exact (ctrlFlush_ok wf hc (by show opb.toNat ≠ 8; omega)).weaken
          · split
            · next ho => exact (ctrlStart_ok hc (by show opb.toNat ≠ 8; omega) _).weaken
            · split
              · next ho => exact (ctrlReset_ok hc (by show opb.toNat ≠ 8; omega) _).weaken
              · split
                · exact (ctrlRead_ok hc _).weaken
                · next ho =>
                  exact ⟨hc, fun _ h8 => absurd h8 ho, AllInside.nil⟩

/-! ### the read procedure and progress -/

/-! Equations are stated through `readNext` and rewritten with `rw`: a definitional unfolding
    check of a term `… % W` against a structure projection makes Lean unfold `Nat.mod` on `2^64`. -/
theorem readNext_fields (c : Ctl) :
    (readNext c).start = (c.start + readLen c) % W ∧ (readNext c).stop = c.stop ∧
    (readNext c).opcode = c.opcode ∧ (readNext c).b0 = c.b0 ∧ (readNext c).b1 = c.b1 := by
  unfold readNext
  exact ⟨rfl, rfl, rfl, rfl, rfl⟩

theorem readNext_inFlash (c : Ctl) : (readNext c).inFlash = c.inFlash := by
  unfold readNext; rfl

theorem readData_fst (c : Ctl) (h8 : c.opcode = 8) :
    (readData c).1 = readNext c ∧ (readData c).2.2.1 = [Effect.publicRead c.start (readLen c)] := by
  unfold readData
  rw [if_pos h8]
  by_cases hc : (readNext c).start = (readNext c).stop
  · rw [if_pos hc]; exact ⟨rfl, rfl⟩
  · rw [if_neg hc]; exact ⟨rfl, rfl⟩

theorem readData_other (c : Ctl) (h8 : ¬ c.opcode = 8) : readData c = (c, List.replicate readSize 0, [], false, false) := by
  unfold readData
  rw [if_neg h8]

theorem readData_ctlOK {cfg : Cfg} (c : Ctl) (h : CtlOK cfg c) : CtlOK cfg (readData c).1 := by
  by_cases h8 : c.opcode = 8
  · rw [(readData_fst c h8).1]
    obtain ⟨-, -, -, e0, e1⟩ := readNext_fields c
    unfold CtlOK
    rw [e0, e1]
    exact h
  · rw [readData_other c h8]; exact h

theorem readData_ok {cfg : Cfg} (wf : cfg.WF) (c : Ctl) (h : CtlOK cfg c) (hr : ReadOK cfg c) :
    CtlOK cfg (readData c).1 ∧ ReadOK cfg (readData c).1 ∧ AllInside cfg (readData c).2.2.1 := by
  refine ⟨readData_ctlOK c h, ?_⟩
  by_cases h8 : c.opcode = 8
  · obtain ⟨r, hreg, h1, h2, h3⟩ := hr h8
    have hW := wf.2 r hreg
    obtain ⟨e1, e2, -, -, -⟩ := readNext_fields c
    have hlen : readLen c ≤ c.stop - c.start := by
      unfold readLen
      have : c.stop + W - c.start = (c.stop - c.start) + W := by omega
      rw [this, Nat.add_mod_right, Nat.mod_eq_of_lt (by omega)]
      exact Nat.min_le_right _ _
    have hs : (c.start + readLen c) % W = c.start + readLen c := Nat.mod_eq_of_lt (by omega)
    rw [(readData_fst c h8).1, (readData_fst c h8).2]
    constructor
    · intro _
      refine ⟨r, hreg, ?_, ?_, ?_⟩
      · rw [e1, hs]; omega
      · rw [e1, hs, e2]; omega
      · rw [e2]; exact h3
    · intro e he
      simp only [List.mem_singleton] at he
      subst he
      exact ⟨r, hreg, h1, by omega⟩
  · rw [readData_other c h8]
    exact ⟨hr, AllInside.nil⟩

theorem progressData_ctlOK {cfg : Cfg} (c : Ctl) (h : CtlOK cfg c) : CtlOK cfg (progressData c) := by
  unfold progressData
  exact h.setBuf _ (bufOK_free _ _)

theorem progressData_readOK {cfg : Cfg} (c : Ctl) (hr : ReadOK cfg c) : ReadOK cfg (progressData c) := by
  unfold progressData
  have hf := setBuf_fields c c.used (c.buf c.used).free
  intro h8
  have h8' : c.opcode = 8 := hf.1 ▸ h8
  obtain ⟨r, hreg, h1, h2, h3⟩ := hr h8'
  refine ⟨r, hreg, ?_, ?_, ?_⟩
  · show r.1 ≤ (c.setBuf c.used (c.buf c.used).free).start; rw [hf.2.1]; exact h1
  · show (c.setBuf c.used (c.buf c.used).free).start ≤ (c.setBuf c.used (c.buf c.used).free).stop
    rw [hf.2.1, hf.2.2]; exact h2
  · show (c.setBuf c.used (c.buf c.used).free).stop ≤ r.2; rw [hf.2.2]; exact h3

theorem readData_flashInside {cfg : Cfg} (c : Ctl) : ∀ e ∈ (readData c).2.2.1, e.flashInside cfg := by
  intro e he
  by_cases h8 : c.opcode = 8
  · rw [(readData_fst c h8).2] at he
    simp only [List.mem_singleton] at he
    subst he; trivial
  · rw [readData_other c h8] at he
    cases he

theorem setQ_ctl (s : Sys) (i : Nat) (v : Bool) : (s.setQ i v).ctl = s.ctl := by
  unfold Sys.setQ; split
  · rfl
  · split <;> rfl

theorem dequeue_ctl (s : Sys) : (dequeue s).1.ctl = s.ctl := by
  unfold dequeue
  dsimp only
  split
  · exact setQ_ctl _ _ _
  · split
    · exact setQ_ctl _ _ _
    · split
      · exact setQ_ctl _ _ _
      · rfl

theorem readData_readMode (c : Ctl) (h : ReadMode c) : ReadMode (readData c).1 := by
  by_cases h8 : c.opcode = 8
  · rw [(readData_fst c h8).1]
    intro _
    rw [readNext_inFlash]; exact h h8
  · rw [readData_other c h8]; exact h

theorem progressData_readMode (c : Ctl) (h : ReadMode c) : ReadMode (progressData c) := by
  unfold progressData
  intro h8
  have h8' : c.opcode = 8 := (setBuf_fields c c.used (c.buf c.used).free).1 ▸ h8
  show (c.setBuf c.used (c.buf c.used).free).inFlash = false
  rw [setBuf_inFlash]; exact h h8'


end BluetoeModel.Bootloader
