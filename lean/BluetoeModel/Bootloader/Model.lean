/-
  Model of the bootloader service (`bluetoe/services/bootloader.hpp`): `details::flash_buffer`,
  `details::controller` (control point opcodes, data writes, read procedure, progress) inside a
  `bluetoe::server<>` with one connection whose three CCCDs are configured (notification queue of
  the three characteristics, `l2cap_output`). Every call of the user handler that touches device
  memory is recorded as an `Effect`.

  The model is the code **with** `fixes/boot-01-read-procedure-length-check.patch`,
  `fixes/boot-02-flash-only-white-listed-pages.patch` and
  `fixes/boot-03-new-procedure-leaves-flash-mode.patch` applied.
-/
namespace BluetoeModel.Bootloader

/-- `std::uintptr_t` arithmetic wraps modulo `W` (64 bit harness host; `sizeof(uint8_t*) = 8`).
    Irreducible: the elaborator must never unfold `x % W` down to `Nat.mod` on the 2^64 literal in a
    definitional equality check (that made builds slow and load dependent); proofs that need the
    value use `W_eq`. -/
@[irreducible] def W : Nat := 2 ^ 64
theorem W_eq : W = 2 ^ 64 := by unfold W; rfl
def ptrSize : Nat := 8

/-- `page_size< page >`, `white_list< memory_region< start, end >… >` (end exclusive) -/
structure Cfg where
  page    : Nat
  regions : List (Nat × Nat)
deriving Repr

-- src: bootloader.hpp:white_list<…>::acceptable
def acceptable (cfg : Cfg) (s e : Nat) : Bool :=
  cfg.regions.any (fun r => decide (r.1 ≤ s) && decide (e ≤ r.2))

-- src: bootloader.hpp:controller::flashable_page (fix boot-02). The C++ tests `page_start <
-- page_end` on wrapping `uintptr_t`s; for `page_start < W` and `0 < page < W` that is exactly
-- "`page_start + page` does not wrap", which is what the model states.
def flashablePage (cfg : Cfg) (a : Nat) : Bool :=
  let ps := a - a % cfg.page
  decide (ps + cfg.page < W) && acceptable cfg ps (ps + cfg.page)

/-- calls of the user handler -/
inductive Effect where
  | readMem (a n : Nat)                 -- read_mem( a, n, … )
  | startFlash (a n : Nat) (values : List UInt8)   -- start_flash( a, values, n ); `values` = `buffer_`
  | checksum (a n : Nat)                -- public_checksum32( a, n )
  | publicRead (a n : Nat)              -- public_read_mem( a, n, … )
  | run (a : Nat)
  | reset
deriving Repr, DecidableEq

/-! ### the mock handler of the harness (harness/boot.cpp) -/
def mockMem (a : Nat) : UInt8 := UInt8.ofNat (a % 251)
def memRange (a n : Nat) : List UInt8 := (List.range n).map (fun i => mockMem ((a + i) % W))
def sumBytes (bs : List UInt8) : Nat := bs.foldl (fun s b => s + b.toNat) 0
def crcAdd (old : Nat) (bs : List UInt8) : Nat := (old + sumBytes bs) % 2 ^ 32       -- checksum32( p, n, old )
def digest (bs : List UInt8) : Nat := bs.foldl (fun h b => (h * 31 + b.toNat) % 2 ^ 32) 0
def le (n : Nat) : Nat → List UInt8        -- little endian, n bytes
  | 0 => []
  | k + 1 => UInt8.ofNat (n % 256) :: le (n / 256) k
def crcOfAddress (a : Nat) : Nat := sumBytes (le a 8)                                  -- checksum32( address )
def publicChecksum (a n : Nat) : Nat := (sumBytes (memRange a (min n 4096))) % 2 ^ 32

inductive BState where
  | idle | filling | flashing
deriving Repr, DecidableEq

/-- `flash_buffer< PageSize >`; `data` is `buffer_[0 .. ptr_)` -/
structure Buf where
  st   : BState
  addr : Nat
  ptr  : Nat
  crc  : Nat
  cons : Nat
  data : List UInt8
deriving Repr, DecidableEq

-- src: flash_buffer::flash_buffer (addr_/crc_/consecutive_ are uninitialised: modelled as 0, never
-- observed before set_start_address through the operations of the harness)
def Buf.init : Buf := { st := .idle, addr := 0, ptr := 0, crc := 0, cons := 0, data := [] }

-- src: flash_buffer::free_size
def Buf.freeSize (page : Nat) (b : Buf) : Nat := if b.st = .filling then page - b.ptr else 0

-- src: flash_buffer::free
def Buf.free (b : Buf) : Buf := { b with st := .idle, ptr := 0, data := [] }

-- src: flash_buffer::set_start_address
def Buf.setStart (page : Nat) (b : Buf) (address crc cons : Nat) : Buf × List Effect :=
  let ptr := address % page
  let addr := address - ptr
  ({ st := .filling, addr := addr, ptr := ptr, crc := crc, cons := cons, data := memRange addr ptr },
   [.readMem addr ptr])

-- src: flash_buffer::flush
def Buf.flush (page : Nat) (b : Buf) : Buf × List Effect × Bool :=
  if b.st ≠ .filling || b.ptr = 0 then (b, [], false)
  else
    let rest := if page ≠ b.ptr then memRange ((b.addr + b.ptr) % W) (page - b.ptr) else []
    let effs := if page ≠ b.ptr then [Effect.readMem ((b.addr + b.ptr) % W) (page - b.ptr)] else []
    let data := b.data ++ rest
    ({ b with st := .flashing, data := data }, effs ++ [.startFlash b.addr page data], true)

-- src: flash_buffer::write_data (returns the number of bytes taken)
def Buf.writeData (page : Nat) (b : Buf) (bs : List UInt8) : Buf × List Effect × Nat :=
  let n := min (page - b.ptr) bs.length
  let chunk := bs.take n
  let b1 := { b with data := b.data ++ chunk, crc := crcAdd b.crc chunk, ptr := b.ptr + n }
  if b1.ptr = page then ((Buf.flush page b1).1, (Buf.flush page b1).2.1, n)
  else (b1, [], n)

/-- `controller< UserHandler, MemRegions, PageSize >` -/
structure Ctl where
  opcode  : Nat
  start   : Nat      -- start_address
  stop    : Nat      -- end_address
  error   : Nat
  check   : Nat      -- check_sum
  inFlash : Bool
  next    : Nat      -- next_buffer_
  used    : Nat      -- used_buffer_
  cons    : Nat      -- consecutive_
  b0      : Buf
  b1      : Buf
deriving Repr, DecidableEq

def undefinedOpcode : Nat := 0xff

-- src: controller::controller
def Ctl.init : Ctl :=
  { opcode := undefinedOpcode, start := 0, stop := 0, error := 0, check := 0, inFlash := false,
    next := 0, used := 0, cons := 0, b0 := Buf.init, b1 := Buf.init }

def Ctl.buf (c : Ctl) (i : Nat) : Buf := if i = 0 then c.b0 else c.b1
def Ctl.setBuf (c : Ctl) (i : Nat) (b : Buf) : Ctl := if i = 0 then { c with b0 := b } else { c with b1 := b }

/-- ATT codes -/
def invalidOffset : Nat := 0x07
def invalidLength : Nat := 0x0d
def noOperationInProgress : Nat := 0x80
def invalidOpcode : Nat := 0x81
def invalidState : Nat := 0x82
def bufferOverrunAttempt : Nat := 0x83

/-- result of a control point write -/
inductive CtrlResult where
  | done (c : Ctl) (code : Nat) (notify : Bool) (dataInd : Bool) (effs : List Effect)
  | oob                                  -- `read_address` would read behind the written value
deriving Repr

-- src: controller::read_address; `none` = the 8 bytes are not all inside the written value
def readAddress (value : List UInt8) (off : Nat) : Option Nat :=
  if off + 8 ≤ value.length then
    some (((value.drop off).take 8).foldr (fun b acc => b.toNat + 256 * acc) 0)
  else none

-- src: controller::request_error
def requestError (c : Ctl) (code : Nat) (effs : List Effect := []) : CtrlResult :=
  .done { c with opcode := undefinedOpcode, inFlash := false } code false false effs

/-! `bootloader_write_control_point`, one definition per `case` of its `switch`; `c` already has
    `opcode = *value`, `n = write_size` -/

-- src: bootloader_write_control_point, case opc_get_version / opc_get_sizes / opc_stop_flash
def ctrlLeaveFlash (c : Ctl) (n : Nat) : CtrlResult :=
  if n ≠ 1 then requestError c invalidLength
  else .done { c with inFlash := false, next := 0, used := 0, b0 := c.b0.free, b1 := c.b1.free } 0 true false []

-- src: bootloader_write_control_point, case opc_get_crc (`in_flash_mode = false` = fix boot-03)
def ctrlGetCrc (cfg : Cfg) (c : Ctl) (value : List UInt8) : CtrlResult :=
  if value.length ≠ 17 then requestError c invalidLength
  else match readAddress value 1, readAddress value 9 with
    | some s, some e =>
      let c := { c with inFlash := false, start := s }
      if s > e || !acceptable cfg s e then requestError c invalidOffset
      else .done { c with check := publicChecksum s (e - s) } 0 true false [.checksum s (e - s)]
    | _, _ => .oob

-- src: bootloader_write_control_point, case opc_start_flash
def ctrlStartFlash (cfg : Cfg) (c : Ctl) (value : List UInt8) : CtrlResult :=
  if value.length ≠ 9 then requestError c invalidLength
  else match readAddress value 1 with
    | some s =>
      let c := { c with start := s, check := crcOfAddress s, cons := 0, next := 0, used := 0, inFlash := true }
      if !flashablePage cfg s then requestError c invalidOffset
      else
        let r := Buf.setStart cfg.page c.b0.free s c.check 0
        .done { c with b0 := r.1, b1 := c.b1.free } 0 true false r.2
    | none => .oob

-- src: bootloader_write_control_point, case opc_flush
def ctrlFlush (cfg : Cfg) (c : Ctl) : CtrlResult :=
  if !c.inFlash then requestError c invalidState
  else
    let r := Buf.flush cfg.page (c.buf c.next)
    if !r.2.2 then requestError c invalidState
    else .done (c.setBuf c.next r.1) 0 true false r.2.1

-- src: bootloader_write_control_point, case opc_start
def ctrlStart (c : Ctl) (value : List UInt8) : CtrlResult :=
  if value.length ≠ 9 then requestError c invalidLength
  else match readAddress value 1 with
    | some s => .done c 0 true false [.run s]
    | none => .oob

-- src: bootloader_write_control_point, case opc_reset
def ctrlReset (c : Ctl) (n : Nat) : CtrlResult :=
  if n ≠ 1 then requestError c invalidLength
  else .done c 0 true false [.reset]

-- src: bootloader_write_control_point, case opc_read (length check = fix boot-01,
-- `in_flash_mode = false` = fix boot-03)
def ctrlRead (cfg : Cfg) (c : Ctl) (value : List UInt8) : CtrlResult :=
  if value.length ≠ 17 then requestError c invalidLength
  else match readAddress value 1, readAddress value 9 with
    | some s, some e =>
      let c := { c with inFlash := false, error := 0, start := s, stop := e, check := crcOfAddress s }
      if s > e || !acceptable cfg s e then requestError c invalidOffset
      else if s ≠ e then .done c 0 false true []
      else .done c 0 true false []
    | _, _ => .oob

-- src: controller::bootloader_write_control_point
def ctrlWrite (cfg : Cfg) (c : Ctl) (value : List UInt8) : CtrlResult :=
  match value with
  | [] => .done c invalidLength false false []
  | opb :: _ =>
    let op := opb.toNat
    let c := { c with opcode := op }
    if op = 0 ∨ op = 2 ∨ op = 4 then ctrlLeaveFlash c value.length
    else if op = 1 then ctrlGetCrc cfg c value
    else if op = 3 then ctrlStartFlash cfg c value
    else if op = 5 then ctrlFlush cfg c
    else if op = 6 then ctrlStart c value
    else if op = 7 then ctrlReset c value.length
    else if op = 8 then ctrlRead cfg c value
    else .done c invalidOpcode false false []

-- src: controller::find_next_buffer (with the fix boot-02 page check)
def findNextBuffer (cfg : Cfg) (c : Ctl) : Ctl × List Effect × Bool :=
  let nxt := (c.next + 1) % 2
  if (c.buf nxt).st = .idle && flashablePage cfg c.start then
    let cons := (c.cons + 1) % 65536
    let r := Buf.setStart cfg.page (c.buf nxt) c.start (c.buf c.next).crc cons
    ({ (c.setBuf nxt r.1) with cons := cons, next := nxt }, r.2, true)
  else (c, [], false)

/-- the `while ( write_size )` loop of `bootloader_write_data`; at most one buffer switch per
    page, `fuel` bounds the number of iterations (a value has at most 20 bytes) -/
def writeLoop (cfg : Cfg) : Nat → Ctl → List UInt8 → List Effect → Ctl × Nat × List Effect
  | 0, c, _, effs => (c, 0, effs)
  | fuel + 1, c, bs, effs =>
    if bs.isEmpty then (c, 0, effs)
    else
      let w := Buf.writeData cfg.page (c.buf c.next) bs
      let c := { (c.setBuf c.next w.1) with start := (c.start + w.2.2) % W }
      let rest := bs.drop w.2.2
      if !rest.isEmpty then
        let f := findNextBuffer cfg c
        if !f.2.2 then (f.1, bufferOverrunAttempt, effs ++ w.2.1 ++ f.2.1)
        else writeLoop cfg fuel f.1 rest (effs ++ w.2.1 ++ f.2.1)
      else (c, 0, effs ++ w.2.1)

-- src: controller::bootloader_write_data
def dataWrite (cfg : Cfg) (c : Ctl) (bs : List UInt8) : Ctl × Nat × List Effect :=
  if !c.inFlash then (c, noOperationInProgress, [])
  else if bs.isEmpty then (c, 0, [])
  else if (c.buf c.next).freeSize cfg.page = 0 then
    let f := findNextBuffer cfg c
    if !f.2.2 then (f.1, bufferOverrunAttempt, f.2.1)
    else writeLoop cfg (bs.length + 1) f.1 bs f.2.1
  else writeLoop cfg (bs.length + 1) c bs []

/-- what a read handler hands to `l2cap_output` -/
inductive Pdu where
  | cp (value : List UInt8) | data (value : List UInt8) | progress | nothing
deriving Repr, DecidableEq

def readSize : Nat := 20     -- MTU 23

-- src: controller::bootloader_read_control_point (read_size = 20, zeroed output buffer)
def readControlPoint (cfg : Cfg) (c : Ctl) : List UInt8 :=
  let op := UInt8.ofNat c.opcode
  if c.opcode = 0 then [0, 0x47, 0x11]
  else if c.opcode = 1 then op :: le c.check 4
  else if c.opcode = 2 then [op, 8] ++ le cfg.page 4 ++ le 2 4
  else if c.opcode = 3 then [op, 23] ++ le (c.buf c.next).crc 4
  else if c.opcode = 4 then [op]
  else if c.opcode = 5 then op :: (le (c.buf c.next).crc 4 ++ le (c.buf c.next).cons 2)
  else if c.opcode = 8 then op :: (le c.check 4 ++ [UInt8.ofNat c.error])
  else op :: List.replicate (readSize - 1) 0       -- out_size left as passed in

/-- `out_size = std::min( read_size, end_address - start_address )` (wrapping subtraction) -/
def readLen (c : Ctl) : Nat := min readSize ((c.stop + W - c.start) % W)

/-- the controller after one successful `public_read_mem` of `bootloader_read_data` -/
def readNext (c : Ctl) : Ctl :=
  { c with error := 0, check := crcAdd c.check (memRange c.start (readLen c)), start := (c.start + readLen c) % W }

-- src: controller::bootloader_read_data; returns (state, value, effects, cp-callback, data-callback)
def readData (c : Ctl) : Ctl × List UInt8 × List Effect × Bool × Bool :=
  if c.opcode = 8 then
    if (readNext c).start = (readNext c).stop then
      (readNext c, memRange c.start (readLen c), [.publicRead c.start (readLen c)], true, false)
    else
      (readNext c, memRange c.start (readLen c), [.publicRead c.start (readLen c)], false, true)
  else (c, List.replicate readSize 0, [], false, false)

-- src: controller::bootloader_progress_data
def progressData (c : Ctl) : Ctl :=
  { (c.setBuf c.used (c.buf c.used).free) with used := (c.used + 1) % 2 }

/-- controller + the connection's notification queue (bit per characteristic: control point,
    data, progress; `qnext` = `next_`); indications are confirmed at once by the harness -/
structure Sys where
  ctl   : Ctl
  q0    : Bool
  q1    : Bool
  q2    : Bool
  qnext : Nat
deriving Repr, DecidableEq

def Sys.init : Sys := { ctl := Ctl.init, q0 := false, q1 := false, q2 := false, qnext := 0 }

inductive Op where
  | ctrl (value : List UInt8) | data (value : List UInt8) | endflash | output
deriving Repr, DecidableEq

/-- `res`: `none` = no ATT response (output / endflash), `some 0` = Write Response, `some c` = error -/
structure Out where
  res  : Option Nat
  effs : List Effect
  pdu  : Pdu
  oob  : Bool := false
deriving Repr

def Sys.q (s : Sys) (i : Nat) : Bool := if i = 0 then s.q0 else if i = 1 then s.q1 else s.q2
def Sys.setQ (s : Sys) (i : Nat) (v : Bool) : Sys :=
  if i = 0 then { s with q0 := v } else if i = 1 then { s with q1 := v } else { s with q2 := v }

-- src: notification_queue_impl::dequeue_indication_or_confirmation (Size = 3, nothing outstanding)
def dequeue (s : Sys) : Sys × Option Nat :=
  let i0 := s.qnext % 3
  let i1 := (s.qnext + 1) % 3
  let i2 := (s.qnext + 2) % 3
  if s.q i0 then ({ (s.setQ i0 false) with qnext := (i0 + 1) % 3 }, some i0)
  else if s.q i1 then ({ (s.setQ i1 false) with qnext := (i1 + 1) % 3 }, some i1)
  else if s.q i2 then ({ (s.setQ i2 false) with qnext := (i2 + 1) % 3 }, some i2)
  else (s, none)

def step (cfg : Cfg) (s : Sys) : Op → Sys × Out
  -- src: mixin_write_notification_control_point_handler::call_write_handler + server::notify
  | .ctrl v =>
    match ctrlWrite cfg s.ctl v with
    | .done c code notify dataInd effs =>
      ({ s with ctl := c, q0 := s.q0 || notify, q1 := s.q1 || dataInd }, { res := some code, effs := effs, pdu := .nothing })
    | .oob => (s, { res := none, effs := [], pdu := .nothing, oob := true })
  -- src: mixin_write_handler::call_write_handler
  | .data v =>
    let (c, code, effs) := dataWrite cfg s.ctl v
    ({ s with ctl := c }, { res := some code, effs := effs, pdu := .nothing })
  -- src: bootloader::end_flash -> controller::end_flash -> server::notify< progress_uuid >
  | .endflash => ({ s with q2 := true }, { res := none, effs := [], pdu := .nothing })
  -- src: server::l2cap_output
  | .output =>
    match dequeue s with
    | (s1, some 0) => (s1, { res := none, effs := [], pdu := .cp (readControlPoint cfg s1.ctl) })
    | (s1, some 1) =>
      let (c, bytes, effs, cpCb, dataCb) := readData s1.ctl
      ({ s1 with ctl := c, q0 := s1.q0 || cpCb, q1 := s1.q1 || dataCb }, { res := none, effs := effs, pdu := .data bytes })
    | (s1, some _) => ({ s1 with ctl := progressData s1.ctl }, { res := none, effs := [], pdu := .progress })
    | (s1, none) => (s1, { res := none, effs := [], pdu := .nothing })

end BluetoeModel.Bootloader
