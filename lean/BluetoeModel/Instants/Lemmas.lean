import BluetoeModel.Instants.Model
/-!
  Helper lemmas for C21: arithmetic modulo 2^16, the effect of one radio callback on a link layer
  with a pending procedure (`pending_step`).
-/
namespace BluetoeModel.Instants

/-! ### arithmetic modulo 2^16 -/

theorem instanceDistance_eq (c i : Nat) (hc : c < W) (hi : i < W) :
    instanceDistance c i = sub16 i c := by
  simp only [instanceDistance, sub16, W] at *
  split <;> omega

theorem sub16_advance (i c k : Nat) (hc : c < W) (hi : i < W) (hk : k ≤ sub16 i c) :
    sub16 i ((c + k) % W) = sub16 i c - k := by
  simp only [sub16, W] at *
  omega

theorem sub16_back (i c b : Nat) (hc : c < W) (hi : i < W) (hb : sub16 i c + b < W) :
    sub16 i (sub16 c b) = sub16 i c + b := by
  simp only [sub16, W] at *
  omega

theorem sub16_eq_zero (i c : Nat) (hc : c < W) (hi : i < W) : sub16 i c = 0 ↔ i = c := by
  simp only [sub16, W] at *
  omega

theorem mod_W_lt (n : Nat) : n % W < W := Nat.mod_lt _ (by decide)

/-! ### vocabulary -/

/-- number of connection events from the planned event to the instant (mod 2^16) -/
def dist (s : LL) : Nat := sub16 s.instant s.counter

/-- `dist` plus the number of events the planned event can still be moved back by
    `try_event_cancelation` -/
def room (s : LL) : Nat := dist s + (s.lastLat - 1)

/-- the connection parameters the property talks about -/
structure Params where
  map      : Nat
  interval : Nat
  latency  : Nat
  timeout  : Nat
  phyRx    : Nat
  phyTx    : Nat
deriving DecidableEq, Repr

def params (s : LL) : Params := ⟨s.map, s.interval, s.latency, s.timeout, s.phyRx, s.phyTx⟩

/-- "applied with the parameters it carried": the parameters in force after the procedure -/
def carried (q : Params) : Proc → Params
  | .chanMap m => { q with map := m % 2 ^ 37 }
  | .connUpdate p => { q with interval := p.interval, latency := p.latency, timeout := p.timeout }
  | .phy a b => { q with phyRx := if a = 0 then q.phyRx else a, phyTx := if b = 0 then q.phyTx else b }

/-- parameter sets the specification allows (channel map with at least two channels, connection
    parameters accepted by `check_timing_paremeters`) -/
def Proc.Valid : Proc → Prop
  | .chanMap m => 2 ≤ (usedChannels m).length
  | .connUpdate p => p.valid = true
  | .phy _ _ => True

/-- a Connection Update whose parameters `parse_timing_parameters_from_connection_update_request`
    refuses: the link ends at the instant -/
def Proc.Refused (pr : Proc) : Prop := ∃ p, pr = .connUpdate p ∧ p.valid = false

/-- a procedure was accepted by `handle_ll_control_data` and the next event is not planned yet -/
structure AcceptInv (s : LL) (pr : Proc) (I : Nat) : Prop where
  up   : s.up = true
  pend : s.pending = some pr
  inst : s.instant = I
  cnt  : s.counter < W
  ilt  : I < W
  lat  : s.latency ≤ 499
  pos  : 0 < dist s
  far  : dist s < 32767

/-- invariant of a link layer with procedure `pr` pending for instant `I` (between radio callbacks) -/
structure PendInv (s : LL) (pr : Proc) (I : Nat) : Prop where
  up   : s.up = true
  pend : s.pending = some pr
  inst : s.instant = I
  cnt  : s.counter < W
  ilt  : I < W
  lat  : s.latency ≤ 499
  ll   : 1 ≤ s.lastLat
  pos  : 0 < dist s
  far  : room s < 32767

def evCost : In → Nat
  | .ev _ _ => 1
  | .lost => 1
  | _ => 0

/-- what one radio callback does to a link layer with `pr` pending for instant `I` -/
inductive Outcome (pr : Proc) (I : Nat) (s : LL) (i : In) (s' : LL) : Prop where
  | ended (hup : s'.up = false) (hi : i = .lost) (hto : s.timeout * 10000 ≤ s.sinceLast)
  | applied (hup : s'.up = true) (hp : s'.pending = none) (hc : s'.counter = I) (hl : s'.lastLat = 1)
      (hpar : params s' = carried (params s) pr)
  | closed (hup : s'.up = false) (hi : i = .disconnect)
  | refused (hup : s'.up = false) (hc : s'.counter = I) (hr : pr.Refused)
  | waiting (inv : PendInv s' pr I) (hne : s'.counter ≠ I) (hpar : params s' = params s)
      (hm : room s' + evCost i ≤ room s)

/-! ### applying a procedure -/

theorem applyProc_valid (s : LL) (pr : Proc) (hv : pr.Valid) :
    (applyProc s pr).2 = false ∧ params (applyProc s pr).1 = carried (params s) pr := by
  cases pr with
  | connUpdate p =>
    simp only [Proc.Valid] at hv
    simp [applyProc, hv, params, carried]
  | chanMap m =>
    simp only [Proc.Valid] at hv
    have h : ¬ (usedChannels m).length < 2 := by omega
    simp [applyProc, h, params, carried]
  | phy a b => simp [applyProc, params, carried]

theorem applyProc_frame (s : LL) (pr : Proc) :
    (applyProc s pr).1.up = s.up ∧ (applyProc s pr).1.counter = s.counter := by
  cases pr with
  | connUpdate p =>
    simp only [applyProc]
    split <;> simp
  | chanMap m =>
    simp only [applyProc]
    split <;> simp
  | phy a b => simp [applyProc]

theorem finishEvent_not_at_instant (s : LL) (pr : Proc) (hp : s.pending = some pr)
    (hne : s.instant ≠ s.counter) : finishEvent s = s := by
  simp [finishEvent, handlePending, hp, hne]

theorem finishEvent_at_instant (s : LL) (pr : Proc) (hp : s.pending = some pr)
    (he : s.instant = s.counter) (hv : pr.Valid) :
    finishEvent s = { (applyProc s pr).1 with pending := none, lastLat := 1 } := by
  have h2 := (applyProc_valid s pr hv).1
  simp [finishEvent, handlePending, hp, he, h2]

theorem applyProc_refused (s : LL) (pr : Proc) (hr : pr.Refused) : (applyProc s pr).2 = true := by
  obtain ⟨p, rfl, hp⟩ := hr
  simp [applyProc, hp]

theorem finishEvent_at_instant_refused (s : LL) (pr : Proc) (hp : s.pending = some pr)
    (he : s.instant = s.counter) (hr : pr.Refused) :
    finishEvent s = forceDisconnect { (applyProc s pr).1 with pending := none, lastLat := 1 } := by
  have h2 := applyProc_refused s pr hr
  simp [finishEvent, handlePending, hp, he, h2]

/-! ### planning the next event while a procedure is pending -/

theorem planAdvance_eq (s : LL) (listen : Bool) (pr : Proc) (hp : s.pending = some pr)
    (hc : s.counter < W) (hi : s.instant < W) (hd : 0 < dist s) :
    planAdvance s listen
      = min (((if (listen || s.listenAlways) = true then 0 else s.latency) + 1) % W) (dist s) := by
  have hdist : instanceDistance s.counter s.instant = dist s := instanceDistance_eq _ _ hc hi
  simp [planAdvance, hp, hdist, hd]

theorem planAdvance_le (s : LL) (listen : Bool) (pr : Proc) (hp : s.pending = some pr)
    (hc : s.counter < W) (hi : s.instant < W) (hd : 0 < dist s) :
    planAdvance s listen ≤ dist s := by
  rw [planAdvance_eq s listen pr hp hc hi hd]
  exact Nat.min_le_right _ _

theorem planAdvance_pos (s : LL) (listen : Bool) (pr : Proc) (hp : s.pending = some pr)
    (hc : s.counter < W) (hi : s.instant < W) (hd : 0 < dist s) (hl : s.latency ≤ 499) :
    1 ≤ planAdvance s listen := by
  rw [planAdvance_eq s listen pr hp hc hi hd]
  have h1 : 1 ≤ ((if (listen || s.listenAlways) = true then 0 else s.latency) + 1) % W := by
    simp only [W]
    split <;> omega
  exact Nat.le_min.mpr ⟨h1, hd⟩

/-- the common part of `end_event` and `timeout`: the planned event was moved `k` events ahead
    (`k ≤ dist`), then `handle_pending_ll_control` runs: either the instant is reached and the
    procedure takes effect (valid parameters) or the link ends (refused parameters), or nothing
    happens -/
theorem advance_step (s s1 : LL) (pr : Proc) (I k : Nat) (hv : pr.Valid ∨ pr.Refused)
    (hup : s1.up = true) (hp : s1.pending = some pr) (hin : s1.instant = I)
    (hc : s.counter < W) (hI : I < W)
    (hcnt : s1.counter = (s.counter + k) % W) (hk2 : k ≤ sub16 I s.counter) :
    (((finishEvent s1).up = true ∧ (finishEvent s1).pending = none ∧ (finishEvent s1).counter = I
        ∧ (finishEvent s1).lastLat = 1 ∧ params (finishEvent s1) = carried (params s1) pr))
    ∨ ((finishEvent s1).up = false ∧ (finishEvent s1).counter = I ∧ pr.Refused)
    ∨ (finishEvent s1 = s1 ∧ s1.counter ≠ I ∧ s1.counter < W ∧ 0 < dist s1
        ∧ dist s1 + k = sub16 I s.counter) := by
  have hd1 : dist s1 = sub16 I s.counter - k := by
    simp only [dist, hin, hcnt]
    exact sub16_advance I s.counter k hc hI hk2
  have hc1 : s1.counter < W := by rw [hcnt]; exact mod_W_lt _
  have hi1 : s1.instant < W := by rw [hin]; exact hI
  by_cases hz : dist s1 = 0
  · have he : s1.instant = s1.counter := (sub16_eq_zero s1.instant s1.counter hc1 hi1).mp hz
    have hf := applyProc_frame s1 pr
    rcases hv with hv | hr
    · left
      rw [finishEvent_at_instant s1 pr hp he hv]
      have hpar := (applyProc_valid s1 pr hv).2
      refine ⟨?_, rfl, ?_, rfl, ?_⟩
      · show (applyProc s1 pr).1.up = true
        rw [hf.1]; exact hup
      · show (applyProc s1 pr).1.counter = I
        rw [hf.2, ← he]; exact hin
      · show params (applyProc s1 pr).1 = carried (params s1) pr
        exact hpar
    · right; left
      rw [finishEvent_at_instant_refused s1 pr hp he hr]
      refine ⟨rfl, ?_, hr⟩
      show (applyProc s1 pr).1.counter = I
      rw [hf.2, ← he]; exact hin
  · right; right
    have hne : s1.instant ≠ s1.counter := fun he =>
      hz ((sub16_eq_zero s1.instant s1.counter hc1 hi1).mpr he)
    rw [finishEvent_not_at_instant s1 pr hp hne]
    refine ⟨rfl, ?_, hc1, by omega, by omega⟩
    intro he
    exact hne (by rw [hin, he])

/-! ### the link layer only goes down through `force_disconnect` -/

theorem handleCtrl_up (s : LL) (c : Ctrl) : (handleCtrl s c).1.up = s.up := by
  cases c with
  | proc pr i =>
    simp only [handleCtrl]
    split <;> rfl
  | phyNoChange => rfl
  | terminate r => rfl
  | other => rfl

theorem handleQueue_up (q : List Pdu) : ∀ s : LL, (handleQueue s q).1.up = s.up := by
  induction q with
  | nil => intro s; rfl
  | cons p rest ih =>
    intro s
    by_cases h3 : p.llid = 3
    · by_cases hd : (handleCtrl s (classify p.payload)).2 = true
      · simp [handleQueue, h3, hd, handleCtrl_up]
      · by_cases hps : (handleCtrl s (classify p.payload)).1.pending.isSome = true
        · simp [handleQueue, h3, hd, hps, handleCtrl_up]
        · have e : handleQueue s (p :: rest) = handleQueue (handleCtrl s (classify p.payload)).1 rest := by
            simp [handleQueue, h3, hd, hps]
          rw [e, ih, handleCtrl_up]
    · by_cases h2' : p.llid = 2
      · have e : handleQueue s (p :: rest) = handleQueue s rest := by simp [handleQueue, h2']
        rw [e, ih]
      · simp [handleQueue, h3, h2']

theorem handleReceived_up (s : LL) : (handleReceived s).1.up = s.up := by
  unfold handleReceived
  split
  · rfl
  · exact handleQueue_up _ _

theorem handlePending_up (s : LL) : (handlePending s).1.up = s.up := by
  cases hpp : s.pending with
  | none => simp [handlePending, hpp]
  | some pr =>
    by_cases he : s.instant = s.counter
    · simp [handlePending, hpp, he, (applyProc_frame s pr).1]
    · simp [handlePending, hpp, he]

/-- `finishEvent` on a link that is up: if the link is down afterwards, the deferred PDU is gone -/
theorem finishEvent_dead (s : LL) (hup : s.up = true) (hd : (finishEvent s).up = false) :
    (finishEvent s).pending = none := by
  by_cases h2 : (handlePending s).2 = true
  · simp [finishEvent, h2, forceDisconnect]
  · have e : finishEvent s = (handlePending s).1 := by simp [finishEvent, h2]
    rw [e, handlePending_up, hup] at hd
    exact absurd hd (by decide)

/-- `end_event` on a link that is up: if the link is down afterwards, the deferred PDU is gone -/
theorem endEvent_dead (s : LL) (pdus : List Pdu) (listen : Bool) (hup : s.up = true)
    (hd : (endEvent s pdus listen).up = false) : (endEvent s pdus listen).pending = none := by
  by_cases hr : (handleReceived (enqueue s pdus)).2 = true
  · simp [endEvent, hr, forceDisconnect]
  · have e : endEvent s pdus listen
        = finishEvent (planNext (handleReceived (enqueue s pdus)).1 listen) := by
      simp [endEvent, hr]
    rw [e] at hd ⊢
    refine finishEvent_dead _ ?_ hd
    show (handleReceived (enqueue s pdus)).1.up = true
    rw [handleReceived_up]
    exact hup

theorem quietEvent_dead (s : LL) (h : s.up = false → s.pending = none)
    (hd : (quietEvent s).up = false) : (quietEvent s).pending = none := by
  by_cases hup : s.up = true
  · have e : quietEvent s = endEvent s [] false := by simp [quietEvent, hup]
    rw [e] at hd ⊢
    exact endEvent_dead s [] false hup hd
  · have hup' : s.up = false := by cases hs : s.up <;> simp_all
    have e : quietEvent s = s := by simp [quietEvent, hup']
    rw [e]
    exact h hup'

/-- a local disconnect ends the connection and drops the deferred PDU -/
theorem localDisconnect_down (s : LL) (hup : s.up = true) :
    (localDisconnect s).up = false ∧ (localDisconnect s).pending = none := by
  have h1 : (quietEvent s).up = false → (quietEvent s).pending = none :=
    quietEvent_dead s (fun h => by rw [hup] at h; exact absurd h (by decide))
  have h2 := quietEvent_dead (quietEvent s) h1
  have h3 := quietEvent_dead (quietEvent (quietEvent s)) h2
  by_cases h : (quietEvent (quietEvent (quietEvent s))).up = true
  · simp [localDisconnect, h, forceDisconnect]
  · have h' : (quietEvent (quietEvent (quietEvent s))).up = false := by
      cases hs : (quietEvent (quietEvent (quietEvent s))).up <;> simp_all
    have e : localDisconnect s = quietEvent (quietEvent (quietEvent s)) := by
      simp [localDisconnect, h']
    rw [e]
    exact ⟨h', h3 h'⟩

theorem cancelEvent_up (s : LL) (t : Nat) : (cancelEvent s t).up = s.up := by
  by_cases hch : s.changed = true
  · simp [cancelEvent, hch]
  · by_cases hl1 : s.lastLat = 1
    · simp [cancelEvent, hl1]
    · simp [cancelEvent, hch, hl1]

theorem cancel_noop (s : LL) (t : Nat) (h : s.lastLat = 1) : cancelEvent s t = s := by
  simp [cancelEvent, h]

end BluetoeModel.Instants
