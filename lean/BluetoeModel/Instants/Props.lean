import BluetoeModel.Instants.Lemmas
/-!
  # C21 — Instant-based procedures apply at their instant or end the link

  "A received Connection Update, Channel Map or PHY Update indication is applied, with the
  parameters it carried, at exactly the connection event whose counter equals its instant, or the
  connection is terminated with 'Instant Passed' when that instant can no longer be met. A pending
  procedure never stops the peripheral from processing further received data for longer than until
  its instant, and peripheral latency never skips the instant."

  The model is the code with fixes/instants-01 (instant comparisons), -02 (copy of the deferred PDU)
  and -03 (no rescheduling of the event a procedure was applied to) and the parameter check of fix
  timing-01 (`BluetoeModel.Timing.checkTiming`): a Connection Update whose parameters are refused
  ends the link *at its instant* (`Proc.Refused`, `Outcome.refused`).  All statements are over every
  16 bit event counter and instant (wrap-around included), every peripheral latency ≤ 499 (the
  bound `check_timing_paremeters` enforces), every listen decision of the latency configuration,
  and every history of connection events (with arbitrary received PDUs), lost events and
  `try_event_cancelation` calls.
-/
namespace BluetoeModel.Instants

/-! ## 1. Reception: accepted with 0 < distance < 32767, or terminated with Instant Passed -/

/-- "… or the connection is terminated with 'Instant Passed' when that instant can no longer be
    met": an indication processed after event `s.counter` is refused (link ends with reason 0x28)
    exactly when `refuses`, otherwise it becomes the pending procedure, its instant lies
    `0 < d < 32767` events ahead, and nothing else changes. -/
theorem indication_accepted_or_terminated (s : LL) (pr : Proc) (i : Nat) (hi : i < W) :
    (refuses pr i s.counter = true →
        handleCtrl s (.proc pr i) = ({ s with instant := i, reason := 0x28 }, true))
    ∧ (refuses pr i s.counter = false →
        handleCtrl s (.proc pr i) = ({ s with instant := i, pending := some pr }, false)
        ∧ 0 < sub16 i s.counter ∧ sub16 i s.counter < 32767) := by
  have hm : i % W = i := Nat.mod_eq_of_lt hi
  constructor
  · intro hr
    simp [handleCtrl, hm, hr]
  · intro hr
    refine ⟨by simp [handleCtrl, hm, hr], ?_⟩
    have h1 : instantPassed i s.counter = false := by
      cases h : instantPassed i s.counter with
      | false => rfl
      | true => simp [refuses, h] at hr
    simp [instantPassed] at h1
    omega

/-- a link that is up with an accepted indication satisfies the hypotheses of the theorems below -/
theorem accepted_indication_invariant (s : LL) (pr : Proc) (i : Nat) (hi : i < W) (hup : s.up = true)
    (hc : s.counter < W) (hl : s.latency ≤ 499) (hr : refuses pr i s.counter = false) :
    AcceptInv (handleCtrl s (.proc pr i)).1 pr i := by
  have h := (indication_accepted_or_terminated s pr i hi).2 hr
  rw [h.1]
  exact ⟨hup, rfl, rfl, hc, hi, hl, h.2.1, h.2.2⟩

/-- full strength reading of "terminated … when that instant can no longer be met": the link is
    only ended when the instant is the current event or lies in the past -/
def terminated_only_when_instant_passed_full : Prop :=
  ∀ (pr : Proc) (i c : Nat), c < W → i < W → refuses pr i c = true →
    (sub16 i c = 0 ∨ 32767 ≤ sub16 i c)

/-- … which the code does not satisfy: a Connection Update received in event 0 with instant 1 (the
    next event, which could be met) ends the link (pinned by the repository's test
    `connection_update_request_invalid_instance`; known finding) -/
theorem terminated_only_when_instant_passed_witness : ¬ terminated_only_when_instant_passed_full := by
  intro h
  have := h (.connUpdate ⟨1, 0, 6, 0, 100⟩) 1 0 (by decide) (by decide) (by decide)
  revert this
  decide

/-- the strongest true statement: excluding exactly "Connection Update whose instant is the event
    after the one that carried it" -/
theorem terminated_only_when_instant_passed_partial (pr : Proc) (i c : Nat)
    (hex : ¬ ∃ p, pr = .connUpdate p ∧ i = c + 1) (hr : refuses pr i c = true) :
    sub16 i c = 0 ∨ 32767 ≤ sub16 i c := by
  have h1 : instantPassed i c = true := by
    cases h : instantPassed i c with
    | true => rfl
    | false =>
      cases pr with
      | connUpdate p =>
        simp [refuses, h] at hr
        exact absurd ⟨p, rfl, hr⟩ hex
      | chanMap m => simp [refuses, h] at hr
      | phy a b => simp [refuses, h] at hr
  simp [instantPassed] at h1
  omega

example : refuses (.chanMap 3) 7 7 = true ∧ refuses (.phy 2 2) 6 7 = true
    ∧ refuses (.connUpdate ⟨1, 0, 6, 0, 100⟩) 32774 7 = true ∧ refuses (.phy 2 2) 2 65535 = false := by
  decide

/-! ## 2. One radio callback while a procedure is pending -/

theorem step_ev (s : LL) (p : List Pdu) (l : Bool) (hup : s.up = true) :
    step s (.ev p l) = endEvent s p l := by simp [step, hup]

theorem step_lost (s : LL) (hup : s.up = true) : step s .lost = lostEvent s := by simp [step, hup]

theorem step_cancel (s : LL) (t : Nat) (hup : s.up = true) :
    step s (.cancel t) = cancelEvent s t := by simp [step, hup]

theorem step_disconnect (s : LL) (hup : s.up = true) : step s .disconnect = localDisconnect s := by
  simp [step, hup]

theorem step_connect_up (s : LL) (l c h t : Nat) (hup : s.up = true) : step s (.connect l c h t) = s := by
  simp [step, hup]

/-- planning the next event right after an indication was accepted (or while it is pending) -/
theorem plan_step (s : LL) (pr : Proc) (I : Nat) (listen : Bool) (hv : pr.Valid ∨ pr.Refused)
    (h : AcceptInv s pr I) :
    ((finishEvent (planNext s listen)).up = true ∧ (finishEvent (planNext s listen)).pending = none
        ∧ (finishEvent (planNext s listen)).counter = I ∧ (finishEvent (planNext s listen)).lastLat = 1
        ∧ params (finishEvent (planNext s listen)) = carried (params s) pr)
    ∨ ((finishEvent (planNext s listen)).up = false ∧ (finishEvent (planNext s listen)).counter = I
        ∧ pr.Refused)
    ∨ (PendInv (finishEvent (planNext s listen)) pr I ∧ (finishEvent (planNext s listen)).counter ≠ I
        ∧ params (finishEvent (planNext s listen)) = params s
        ∧ room (finishEvent (planNext s listen)) + 1 ≤ dist s) := by
  obtain ⟨hup, hp, hin, hc, hI, hl, hpos, hfar⟩ := h
  have hi : s.instant < W := by rw [hin]; exact hI
  have hk1 := planAdvance_pos s listen pr hp hc hi hpos hl
  have hk2 := planAdvance_le s listen pr hp hc hi hpos
  have hds : dist s = sub16 I s.counter := by simp only [dist, hin]
  have hstep := advance_step s (planNext s listen) pr I (planAdvance s listen) hv hup hp hin hc hI rfl
    (by rw [← hds]; exact hk2)
  rcases hstep with h1 | h2 | ⟨he, hne, hc1, hpos1, hd1⟩
  · left
    exact h1
  · right; left
    exact h2
  · right; right
    rw [he]
    have hll : (planNext s listen).lastLat = planAdvance s listen := rfl
    refine ⟨⟨hup, hp, hin, hc1, hI, hl, by rw [hll]; exact hk1, hpos1, ?_⟩, hne, rfl, ?_⟩
    · simp only [room, hll]
      omega
    · simp only [room, hll]
      omega

/-- **the step lemma**: a radio callback on a link layer with `pr` pending for `I` either ends the
    link by supervision timeout, or plans the event `I` and applies exactly the carried
    parameters, or leaves the procedure pending, the parameters untouched, the planned event
    before `I`, with `room` decreased by every connection event -/
theorem pending_step (s : LL) (pr : Proc) (I : Nat) (hv : pr.Valid ∨ pr.Refused) (h : PendInv s pr I)
    (i : In) :
    Outcome pr I s i (step s i) := by
  have hup := h.up
  have hp := h.pend
  have hin := h.inst
  have hds : dist s = sub16 I s.counter := by simp only [dist, hin]
  cases i with
  | ev pdus listen =>
    rw [step_ev s pdus listen hup]
    have e0 : endEvent s pdus listen = finishEvent (planNext (enqueue s pdus) listen) := by
      simp [endEvent, handleReceived, enqueue, hp]
    rw [e0]
    have hA : AcceptInv (enqueue s pdus) pr I :=
      ⟨hup, hp, hin, h.cnt, h.ilt, h.lat, h.pos, by have := h.far; simp only [room] at this; show dist s < 32767; omega⟩
    rcases plan_step (enqueue s pdus) pr I listen hv hA with h1 | h2 | ⟨inv, hne, hpar, hm⟩
    · exact Outcome.applied h1.1 h1.2.1 h1.2.2.1 h1.2.2.2.1 h1.2.2.2.2
    · exact Outcome.refused h2.1 h2.2.1 h2.2.2
    · refine Outcome.waiting inv hne hpar ?_
      have hd : dist (enqueue s pdus) = dist s := rfl
      simp only [evCost, room] at *
      omega
  | lost =>
    rw [step_lost s hup]
    by_cases hto : s.sinceLast < s.timeout * 10000
    · have e0 : lostEvent s = finishEvent (advanceOne s) := by simp [lostEvent, hto]
      rw [e0]
      have hstep := advance_step s (advanceOne s) pr I 1 hv hup hp hin h.cnt h.ilt rfl
        (by rw [← hds]; exact h.pos)
      rcases hstep with h1 | h2 | ⟨he, hne, hc1, hpos1, hd1⟩
      · exact Outcome.applied h1.1 h1.2.1 h1.2.2.1 h1.2.2.2.1 h1.2.2.2.2
      · exact Outcome.refused h2.1 h2.2.1 h2.2.2
      · rw [he]
        have hll : (advanceOne s).lastLat = s.lastLat := rfl
        have hfar := h.far
        have hl1 := h.ll
        refine Outcome.waiting ⟨hup, hp, hin, hc1, h.ilt, h.lat, hl1, hpos1, ?_⟩ hne rfl ?_
        · simp only [room, hll] at *
          omega
        · simp only [room, hll, evCost] at *
          omega
    · have e0 : lostEvent s = forceDisconnect s := by simp [lostEvent, hto]
      rw [e0]
      exact Outcome.ended rfl rfl (by omega)
  | cancel t =>
    rw [step_cancel s t hup]
    by_cases hch : s.changed = true
    · have e0 : cancelEvent s t = s := by simp [cancelEvent, hch]
      rw [e0]
      exact Outcome.waiting h (by
        intro he
        have := (sub16_eq_zero s.instant s.counter h.cnt (hin ▸ h.ilt)).mpr (by rw [hin, he])
        have hpos := h.pos
        simp only [dist] at hpos
        omega) rfl (by simp [evCost])
    · by_cases hl1 : s.lastLat = 1
      · rw [cancel_noop s t hl1]
        exact Outcome.waiting h (by
          intro he
          have := (sub16_eq_zero s.instant s.counter h.cnt (hin ▸ h.ilt)).mpr (by rw [hin, he])
          have hpos := h.pos
          simp only [dist] at hpos
          omega) rfl (by simp [evCost])
      · -- the planned event is moved `back` events towards the present
        have hfar := h.far
        have hll := h.ll
        have hpos := h.pos
        simp only [room] at hfar
        have e0 : cancelEvent s t =
            { s with counter := sub16 s.counter (s.lastLat - min (max 1 t) s.lastLat),
                     chIdx := (s.chIdx + 518 - (s.lastLat - min (max 1 t) s.lastLat)) % 37,
                     sinceLast := s.sinceLast - (s.lastLat - min (max 1 t) s.lastLat) * (s.interval * 1250),
                     lastLat := 1 } := by
          simp [cancelEvent, hch, hl1]
        rw [e0]
        have hmv : 1 ≤ min (max 1 t) s.lastLat := Nat.le_min.mpr ⟨Nat.le_max_left 1 t, hll⟩
        have hback : s.lastLat - min (max 1 t) s.lastLat ≤ s.lastLat - 1 := by omega
        have hd' : sub16 I (sub16 s.counter (s.lastLat - min (max 1 t) s.lastLat))
            = sub16 I s.counter + (s.lastLat - min (max 1 t) s.lastLat) :=
          sub16_back I s.counter _ h.cnt h.ilt (by simp only [W]; rw [← hds]; omega)
        have hcW : sub16 s.counter (s.lastLat - min (max 1 t) s.lastLat) < W := by
          simp only [sub16]; exact mod_W_lt _
        refine Outcome.waiting ⟨hup, hp, hin, hcW, h.ilt, h.lat, Nat.le_refl 1, ?_, ?_⟩ ?_ rfl ?_
        · show 0 < sub16 s.instant (sub16 s.counter (s.lastLat - min (max 1 t) s.lastLat))
          rw [hin, hd', ← hds]; omega
        · show sub16 s.instant (sub16 s.counter (s.lastLat - min (max 1 t) s.lastLat)) + (1 - 1) < 32767
          rw [hin, hd', ← hds]; omega
        · intro he
          have hz := (sub16_eq_zero I _ hcW h.ilt).mpr he.symm
          rw [hd', ← hds] at hz
          omega
        · show sub16 s.instant (sub16 s.counter (s.lastLat - min (max 1 t) s.lastLat)) + (1 - 1) + evCost (In.cancel t)
            ≤ room s
          rw [hin, hd', ← hds]
          simp only [room, evCost]
          omega
  | disconnect =>
    rw [step_disconnect s hup]
    exact Outcome.closed (localDisconnect_down s hup).1 rfl
  | connect l c h' t =>
    rw [step_connect_up s l c h' t hup]
    exact Outcome.waiting h (by
      intro he
      have := (sub16_eq_zero s.instant s.counter h.cnt (hin ▸ h.ilt)).mpr (by rw [hin, he])
      have hpos := h.pos
      simp only [dist] at hpos
      omega) rfl (by simp [evCost])

/-! ## 3. Whole histories -/

/-- the meaning of "`pr` with instant `I`, pending in `s`, is handled correctly along the inputs":
    at every radio callback either the link ends by supervision timeout or because the local host
    disconnects, or — only for a Connection
    Update whose parameters `check_timing_paremeters` refuses — the link ends in the callback that
    plans the event whose counter is `I`, or the callback plans the
    event whose counter is `I` and from then on exactly the carried parameters are in force (and
    the event can not be moved to an earlier one any more), or the procedure stays pending, the
    planned event is not `I`, the parameters in force are unchanged — and so on for the rest. -/
def Handled (pr : Proc) (I : Nat) : LL → List In → Prop
  | _, [] => True
  | s, i :: is =>
      ((step s i).up = false ∧ i = .lost ∧ s.timeout * 10000 ≤ s.sinceLast)
      ∨ ((step s i).up = false ∧ i = .disconnect)
      ∨ ((step s i).up = false ∧ (step s i).counter = I ∧ pr.Refused)
      ∨ ((step s i).up = true ∧ (step s i).pending = none ∧ (step s i).counter = I
          ∧ params (step s i) = carried (params s) pr ∧ ∀ t, cancelEvent (step s i) t = step s i)
      ∨ ((step s i).up = true ∧ (step s i).pending = some pr ∧ (step s i).instant = I
          ∧ (step s i).counter ≠ I ∧ params (step s i) = params s ∧ Handled pr I (step s i) is)

/-- **C21, main theorem**: "… is applied, with the parameters it carried, at exactly the connection
    event whose counter equals its instant" — for every valid procedure pending for any instant, and
    *every* history of connection events (any received PDUs, any listen decision = any peripheral
    latency configuration), lost events and event cancelations. -/
theorem applied_at_instant_or_terminated (pr : Proc) (I : Nat) (hv : pr.Valid ∨ pr.Refused)
    (ins : List In) :
    ∀ s, PendInv s pr I → Handled pr I s ins := by
  induction ins with
  | nil => intro s _; simp [Handled]
  | cons i is ih =>
    intro s h
    simp only [Handled]
    cases pending_step s pr I hv h i with
    | ended hup hi hto => exact Or.inl ⟨hup, hi, hto⟩
    | closed hup hi => exact Or.inr (Or.inl ⟨hup, hi⟩)
    | refused hup hc hr => exact Or.inr (Or.inr (Or.inl ⟨hup, hc, hr⟩))
    | applied hup hp hc hl hpar =>
      exact Or.inr (Or.inr (Or.inr (Or.inl ⟨hup, hp, hc, hpar, fun t => cancel_noop _ t hl⟩)))
    | waiting inv hne hpar hm =>
      exact Or.inr (Or.inr (Or.inr (Or.inr ⟨inv.up, inv.pend, inv.inst, hne, hpar, ih _ inv⟩)))

/-- the hypothesis is established by the connection event in which the indication was accepted:
    that event's planning either reaches the instant at once or yields `PendInv` -/
theorem accepted_then_planned (s : LL) (pr : Proc) (I : Nat) (listen : Bool) (hv : pr.Valid ∨ pr.Refused)
    (h : AcceptInv s pr I) :
    ((finishEvent (planNext s listen)).pending = none ∧ (finishEvent (planNext s listen)).counter = I
        ∧ params (finishEvent (planNext s listen)) = carried (params s) pr)
    ∨ ((finishEvent (planNext s listen)).up = false ∧ (finishEvent (planNext s listen)).counter = I
        ∧ pr.Refused)
    ∨ (PendInv (finishEvent (planNext s listen)) pr I
        ∧ room (finishEvent (planNext s listen)) + 1 ≤ sub16 I s.counter) := by
  have hin := h.inst
  rcases plan_step s pr I listen hv h with h1 | h2 | ⟨inv, _, _, hm⟩
  · exact Or.inl ⟨h1.2.1, h1.2.2.1, h1.2.2.2.2⟩
  · exact Or.inr (Or.inl h2)
  · refine Or.inr (Or.inr ⟨inv, ?_⟩)
    have hds : dist s = sub16 I s.counter := by simp only [dist, hin]
    omega

-- non-vacuity: a concrete pending state (channel map update for instant 2 planned at counter 65533,
-- i.e. across the wrap-around) satisfies the invariant, and the procedure is valid
example : PendInv { init false 3 65533 10 with pending := some (.chanMap 0xffff), instant := 2 }
    (.chanMap 0xffff) 2 := by
  constructor <;> decide

example : (Proc.chanMap 0xffff).Valid := by
  show 2 ≤ (usedChannels 0xffff).length
  decide

-- interval 6 (7.5 ms), latency 0, timeout 72 (720 ms) is accepted; interval 664, latency 5 with the
-- timeout 996 = (1 + 5) · 664 · 1.25 ms · 2 exactly (not strictly greater) is refused, as are
-- interval 5 and WinSize 0
example : (Proc.connUpdate ⟨5, 3, 6, 0, 72⟩).Valid := by
  show ConnParams.valid ⟨5, 3, 6, 0, 72⟩ = true
  decide

example : (Proc.connUpdate ⟨4, 158, 664, 5, 996⟩).Refused ∧ (Proc.connUpdate ⟨1, 0, 5, 0, 72⟩).Refused
    ∧ (Proc.connUpdate ⟨0, 0, 6, 0, 72⟩).Refused ∧ (Proc.connUpdate ⟨4, 158, 664, 5, 997⟩).Valid :=
  ⟨⟨_, rfl, by decide⟩, ⟨_, rfl, by decide⟩, ⟨_, rfl, by decide⟩, by
    show ConnParams.valid ⟨4, 158, 664, 5, 997⟩ = true
    decide⟩

/-! ## 4. "never stops the peripheral from processing received data for longer than until its instant" -/

/-- number of connection events (taken place or lost) in a history -/
def events : List In → Nat
  | [] => 0
  | i :: is => evCost i + events is

/-- the procedure is still pending after every callback of the history -/
def pendingAll (s : LL) : List In → Prop
  | [] => True
  | i :: is => (step s i).up = true ∧ (step s i).pending.isSome = true ∧ pendingAll (step s i) is

/-- while the procedure is pending (received data is not processed), fewer connection events can
    pass than `room s` ≤ distance to the instant − 1: after an indication at distance `d` was
    accepted, the procedure is applied (or the link ended) by the `(d − 1)`-th following connection
    event at the latest, whatever the latency, lost events and cancelations. -/
theorem pending_blocks_at_most_until_instant (pr : Proc) (I : Nat) (hv : pr.Valid ∨ pr.Refused)
    (ins : List In) :
    ∀ s, PendInv s pr I → pendingAll s ins → events ins + 1 ≤ room s := by
  induction ins with
  | nil =>
    intro s h _
    have := h.pos
    simp only [events, room]
    omega
  | cons i is ih =>
    intro s h hall
    simp only [pendingAll] at hall
    obtain ⟨hu, hs, hrest⟩ := hall
    cases pending_step s pr I hv h i with
    | ended hup _ _ => rw [hup] at hu; exact absurd hu (by decide)
    | refused hup _ _ => rw [hup] at hu; exact absurd hu (by decide)
    | closed hup _ => rw [hup] at hu; exact absurd hu (by decide)
    | applied _ hp _ _ _ => rw [hp] at hs; exact absurd hs (by decide)
    | waiting inv _ _ hm =>
      have := ih _ inv hrest
      simp only [events]
      omega

/-- … and as soon as nothing is pending, `handle_received_data` works the queue off completely
    (unless a new procedure becomes pending, the link ends, or the head of the queue is a PDU the
    loop never consumes — an LLID 1 PDU with the default MTU) -/
theorem data_processed_when_nothing_pending (q : List Pdu) :
    ∀ s : LL, (handleQueue s q).2 = false → (handleQueue s q).1.pending = none →
      (handleQueue s q).1.rxq = []
      ∨ ∃ p rest, (handleQueue s q).1.rxq = p :: rest ∧ p.llid ≠ 3 ∧ p.llid ≠ 2 := by
  induction q with
  | nil => intro s _ _; left; simp [handleQueue]
  | cons p rest ih =>
    intro s h2 hp
    by_cases h3 : p.llid = 3
    · by_cases hd : (handleCtrl s (classify p.payload)).2 = true
      · simp [handleQueue, h3, hd] at h2
      · by_cases hps : (handleCtrl s (classify p.payload)).1.pending.isSome = true
        · simp [handleQueue, h3, hd, hps] at hp
          simp [hp] at hps
        · have e : handleQueue s (p :: rest) = handleQueue (handleCtrl s (classify p.payload)).1 rest := by
            simp [handleQueue, h3, hd, hps]
          rw [e] at h2 hp ⊢
          exact ih _ h2 hp
    · by_cases h2' : p.llid = 2
      · have e : handleQueue s (p :: rest) = handleQueue s rest := by simp [handleQueue, h2']
        rw [e] at h2 hp ⊢
        exact ih s h2 hp
      · right
        exact ⟨p, rest, by simp [handleQueue, h3, h2'], h3, h2'⟩

/-! ## 5. "peripheral latency never skips the instant" -/

/-- for every peripheral latency (all of `uint16_t`), every listen decision (every latency
    configuration and event flag set) and every counter / instant: the next planned event is at
    most `dist` events ahead, i.e. lies on or before the instant. The same holds for a lost event
    (one event ahead). -/
theorem latency_never_skips_instant (s : LL) (listen : Bool) (hc : s.counter < W) (hi : s.instant < W)
    (hp : s.pending.isSome = true) (hd : 0 < dist s) :
    planAdvance s listen ≤ dist s
    ∧ dist (planNext s listen) = dist s - planAdvance s listen
    ∧ dist (advanceOne s) = dist s - 1 := by
  cases hpp : s.pending with
  | none => simp [hpp] at hp
  | some pr =>
    have hk := planAdvance_le s listen pr hpp hc hi hd
    refine ⟨hk, ?_, ?_⟩
    · exact sub16_advance s.instant s.counter _ hc hi hk
    · exact sub16_advance s.instant s.counter 1 hc hi hd

/-- latency 5 at counter 65534, PHY update pending for instant 1: only 3 events are skipped -/
def exLatency : LL := { init false 5 65534 10 with pending := some (.phy 2 2), instant := 1 }

example : planAdvance exLatency false = 3 ∧ (planNext exLatency false).counter = 1 := by decide

/-! ## 6. the event a procedure was applied to is not moved to an earlier event (fix 03) -/

theorem applied_event_not_rescheduled (s : LL) (pr : Proc) (hp : s.pending = some pr)
    (he : s.instant = s.counter) (t : Nat) :
    cancelEvent (handlePending s).1 t = (handlePending s).1 := by
  apply cancel_noop
  simp [handlePending, hp, he]

/-! ## 6b. a pending procedure dies with its connection -/

/-- whenever a connection ends — supervision timeout, local disconnect, LL_TERMINATE_IND, Instant
    Passed, refused parameters — the deferred PDU is dropped in the same step -/
theorem connection_end_drops_pending (s : LL) (i : In) (hup : s.up = true)
    (hd : (step s i).up = false) : (step s i).pending = none := by
  cases i with
  | ev pdus listen =>
    rw [step_ev s pdus listen hup] at hd ⊢
    exact endEvent_dead s pdus listen hup hd
  | lost =>
    rw [step_lost s hup] at hd ⊢
    by_cases hto : s.sinceLast < s.timeout * 10000
    · have e : lostEvent s = finishEvent (advanceOne s) := by simp [lostEvent, hto]
      rw [e] at hd ⊢
      exact finishEvent_dead _ hup hd
    · simp [lostEvent, hto, forceDisconnect]
  | cancel t =>
    rw [step_cancel s t hup, cancelEvent_up, hup] at hd
    exact absurd hd (by decide)
  | disconnect =>
    rw [step_disconnect s hup]
    exact (localDisconnect_down s hup).2
  | connect l c h t =>
    rw [step_connect_up s l c h t hup, hup] at hd
    exact absurd hd (by decide)

/-- **over all histories** (connection events with arbitrary PDUs, lost events, cancelations, local
    disconnects and new connections, in any order): whenever the link layer is not connected,
    nothing is deferred … -/
theorem pending_procedure_dies_with_connection (ins : List In) :
    ∀ s : LL, (s.up = false → s.pending = none) →
      (run s ins).up = false → (run s ins).pending = none := by
  induction ins with
  | nil => intro s h; exact h
  | cons i is ih =>
    intro s h
    refine ih (step s i) ?_
    intro hd
    by_cases hup : s.up = true
    · exact connection_end_drops_pending s i hup hd
    · have hup' : s.up = false := by cases hs : s.up <;> simp_all
      cases i with
      | connect l c h' t =>
        have e : step s (.connect l c h' t) = reconnect s l c h' t := by simp [step, hup']
        rw [e] at hd
        exact absurd hd (by simp [reconnect, init])
      | ev pdus listen =>
        have e : step s (.ev pdus listen) = s := by simp [step, hup']
        rw [e]; exact h hup'
      | lost =>
        have e : step s .lost = s := by simp [step, hup']
        rw [e]; exact h hup'
      | cancel t =>
        have e : step s (.cancel t) = s := by simp [step, hup']
        rw [e]; exact h hup'
      | disconnect =>
        have e : step s .disconnect = s := by simp [step, hup']
        rw [e]; exact h hup'

/-- … hence a new connection starts with nothing pending: its received data is processed from the
    first event on and no parameters of an old procedure can ever be applied to it -/
theorem new_connection_starts_clean (s : LL) (ins : List In) (l c h t : Nat)
    (h0 : s.up = false → s.pending = none) (hd : (run s ins).up = false) :
    (step (run s ins) (.connect l c h t)).up = true
    ∧ (step (run s ins) (.connect l c h t)).pending = none
    ∧ (step (run s ins) (.connect l c h t)).rxq = [] := by
  have hp := pending_procedure_dies_with_connection ins s h0 hd
  have e : step (run s ins) (.connect l c h t) = reconnect (run s ins) l c h t := by simp [step, hd]
  rw [e]
  exact ⟨rfl, hp, rfl⟩

-- non-vacuity: channel map for instant 140 pending, supervision timeout after four lost events
-- (timeout 100 ms, interval 30 ms), reconnect: nothing pending, the ping of the first event is processed
def exLost : LL :=
  run (init true 0 100 10 10)
    [.ev [⟨3, [0x01, 0xff, 0xff, 0, 0, 0, 140, 0]⟩] false, .lost, .lost, .lost, .lost]

example : (step (init true 0 100 10 10) (.ev [⟨3, [0x01, 0xff, 0xff, 0, 0, 0, 140, 0]⟩] false)).pending
      = some (.chanMap 0xffff)
    ∧ exLost.up = false ∧ exLost.pending = none
    ∧ (step (step exLost (.connect 0 130 7 3200)) (.ev [⟨3, [0x12]⟩] false)).rxq = []
    ∧ (step (step exLost (.connect 0 130 7 3200)) (.ev [⟨3, [0x12]⟩] false)).map = 0x1fffffffff := by
  decide

/-! ## 7. end to end on bytes (non-vacuity of the whole chain) -/

/-- LL_CHANNEL_MAP_IND (map 0x000000ffff, instant 0x0066) received in event 100 with latency 0 … -/
def exS1 : LL := step (init true 0 100 10) (.ev [⟨3, [0x01, 0xff, 0xff, 0, 0, 0, 0x66, 0x00]⟩] false)
/-- … then an event with an LL_PING_REQ -/
def exS2 : LL := step exS1 (.ev [⟨3, [0x12]⟩] false)

-- pending at event 101 (old map), applied for event 102; the ping waits until then
example : exS1.pending = some (.chanMap 0xffff) ∧ exS1.counter = 101 ∧ exS1.map = 0x1fffffffff
    ∧ exS2.pending = none ∧ exS2.counter = 102 ∧ exS2.map = 0xffff ∧ exS2.rxq = [⟨3, [0x12]⟩] := by
  decide

end BluetoeModel.Instants
