/-
  Model of the instant based link layer procedures (LL_CONNECTION_UPDATE_IND, LL_CHANNEL_MAP_IND,
  LL_PHY_UPDATE_IND) of bluetoe's `link_layer<>`, *with the fixes* fixes/instants-01…03 applied.
  src: bluetoe/link_layer/include/bluetoe/link_layer.hpp, peripheral_latency.hpp, channel_map.cpp

  All 16 bit quantities (`connEventCounter`, instants, latency) are `Nat`s kept below 65536 by
  explicit `% 65536`.  One model step is one callback of the scheduled radio into the link layer:
  `end_event` (a connection event took place), `timeout` (the event was lost) and
  `try_event_cancelation` (the host queued data while an event with peripheral latency is planned).
-/
import BluetoeModel.Timing.Model

namespace BluetoeModel.Instants

def W : Nat := 65536

/-- `static_cast< std::uint16_t >( a - b )` for `a b < 65536` -/
def sub16 (a b : Nat) : Nat := (a + W - b) % W

/-! ### PDUs -/

/-- a received data channel PDU: LLID and payload (bytes as `Nat`s below 256) -/
structure Pdu where
  llid    : Nat
  payload : List Nat
deriving Repr, DecidableEq

/-- `read_16bit`; the payload bytes are below 256 -/
def le16 (lo hi : Nat) : Nat := lo % 256 + 256 * (hi % 256)

/-- parameters of LL_CONNECTION_UPDATE_IND in protocol units (1.25 ms, 10 ms) -/
structure ConnParams where
  winSize   : Nat
  winOffset : Nat
  interval  : Nat
  latency   : Nat
  timeout   : Nat
deriving Repr, DecidableEq

/-- a procedure with an instant, with the parameters carried by its PDU -/
inductive Proc where
  | connUpdate (p : ConnParams)
  | chanMap (m : Nat)                 -- ChM, 40 bit little endian
  | phy (cToP pToC : Nat)
deriving Repr, DecidableEq

/-- what the opcode / size dispatch of `handle_ll_control_data` distinguishes (for this property) -/
inductive Ctrl where
  | proc (pr : Proc) (instant : Nat)
  | phyNoChange                       -- LL_PHY_UPDATE_IND with both PHY fields 0: handled at once
  | terminate (reason : Nat)
  | other                             -- every other control PDU: answered / ignored (component llctrl)
deriving Repr, DecidableEq

-- src: phy_update_request_impl::valid_phy_encoding
def validPhy (c : Nat) : Bool := c == 0 || c == 1 || c == 2

-- src: link_layer::handle_ll_control_data (opcode == … && size == …) / handle_phy_request
def classify : List Nat → Ctrl
  | [] => .other
  | op :: rest =>
    if op = 0x00 then
      match rest with
      | [ws, wo0, wo1, i0, i1, l0, l1, t0, t1, n0, n1] =>
          .proc (.connUpdate ⟨ws, le16 wo0 wo1, le16 i0 i1, le16 l0 l1, le16 t0 t1⟩) (le16 n0 n1)
      | _ => .other
    else if op = 0x02 then
      match rest with
      | [r] => .terminate r
      | _ => .other
    else if op = 0x01 then
      match rest with
      | [m0, m1, m2, m3, m4, n0, n1] =>
          .proc (.chanMap (m0 + 256 * (m1 + 256 * (m2 + 256 * (m3 + 256 * m4))))) (le16 n0 n1)
      | _ => .other
    else if op = 0x18 then
      match rest with
      | [c, p, n0, n1] =>
          if validPhy c && validPhy p then
            if c = 0 ∧ p = 0 then .phyNoChange else .proc (.phy c p) (le16 n0 n1)
          else .other
      | _ => .other
    else .other

/-! ### channel map (only what is needed to name the data channel of the planned event) -/

def usedChannels (m : Nat) : List Nat := (List.range 37).filter (fun c => m.testBit c)

-- src: channel_map::reset / data_channel : map_[ index ], `none` = read outside `used_channels`
def dataChannel (m hop idx : Nat) : Option Nat :=
  let ch := (hop * (idx + 1)) % 37
  if m.testBit ch then some ch
  else
    let used := usedChannels m
    if used.length = 0 then none else used[ch % used.length]?

/-! ### link layer state -/

structure LL where
  up           : Bool            -- state_ ∈ {connected, connection_changed}; false: advertising again
  changed      : Bool            -- state_ == connection_changed
  reason       : Nat             -- disconnecting_reason_
  counter      : Nat             -- event_counter_: connEventCounter of the planned connection event
  chIdx        : Nat             -- channel_index_
  lastLat      : Nat             -- last_latency_ (disarmable_connection_state)
  listenAlways : Bool            -- peripheral latency configuration in use
  pending      : Option Proc     -- copy of the defered PDU (defered_ll_control_pdu_buffer_)
  instant      : Nat             -- defered_conn_event_counter_
  rxq          : List Pdu        -- received PDUs not yet handled by handle_received_data
  map          : Nat             -- channel map in use
  hop          : Nat
  interval     : Nat             -- connection_interval_ / 1.25 ms
  latency      : Nat             -- peripheral_latency_
  timeout      : Nat             -- timeout_value_ (10 ms)
  phyRx        : Nat
  phyTx        : Nat
  sinceLast    : Nat             -- time_since_last_event_ in µs
deriving Repr, DecidableEq

/-- state after CONNECT_IND (interval 30 ms, all 37 channels, the given latency / hop / supervision
    timeout) and the first connection event, with the planned event's counter set to `counter`
    (the harness' `reset` / `connect`) -/
-- src: link_layer::adv_received + first end_event
def init (listenAlways : Bool) (latency counter hop : Nat) (timeout : Nat := 3200) : LL :=
  let l := if listenAlways then 1 else latency + 1
  { up := true, changed := false, reason := 0x08, counter := counter % W, chIdx := l % 37, lastLat := l,
    listenAlways := listenAlways, pending := none, instant := 0, rxq := [],
    map := 0x1fffffffff, hop := hop, interval := 24, latency := latency, timeout := timeout,
    phyRx := 1, phyTx := 1, sinceLast := l * (24 * 1250) }

/-- a new connection on the same link layer object: `adv_received` resets the connection state,
    channel map, timing, PDU buffers and the disconnect reason; it does **not** touch the deferred
    PDU (`defered_ll_control_pdu_`, `defered_conn_event_counter_`) — that one must have been
    dropped when the previous connection ended (`start_advertising_impl`) -/
-- src: link_layer::adv_received + first end_event
def reconnect (s : LL) (latency counter hop timeout : Nat) : LL :=
  { init s.listenAlways latency counter hop timeout with pending := s.pending, instant := s.instant }

-- src: link_layer::force_disconnect + start_advertising_impl + reset_phy
def forceDisconnect (s : LL) : LL :=
  { s with up := false, changed := false, pending := none, phyRx := 1, phyTx := 1 }

-- src: link_layer::instant_passed  (fix 01)
def instantPassed (instant counter : Nat) : Bool :=
  let d := sub16 instant counter
  d == 0 || d ≥ 32767

/-- the parameters of a Connection Update pass `parse_timing_parameters_from_connection_update_request`
    (window offset ≤ interval) and `check_timing_paremeters`, as modelled by
    `BluetoeModel.Timing.parseUpdate` / `checkTiming` (code with fix timing-01: connInterval 6..3200,
    WinSize ≥ 1 and ≤ 10 ms and ≤ interval, timeout 100 ms..32 s, latency ≤ 499, timeout strictly
    greater than (1 + latency) · interval · 2); a failing `delta_time` assertion (`none`, excluded
    by the range checks that come first) counts as refused -/
-- src: link_layer::check_timing_paremeters + parse_timing_parameters_from_connection_update_request
def ConnParams.valid (p : ConnParams) : Bool :=
  (BluetoeModel.Timing.parseUpdate ⟨p.winSize, p.winOffset, p.interval, p.latency, p.timeout⟩).2 == some true

/-- the instant checks of the three procedures (fix 01): Connection Update keeps the refusal of
    "instant = next event" of the original code (`== connection_event_counter() + 1`, compared as
    `int`, hence never true for counter 0xffff) -/
-- src: link_layer::handle_ll_control_data (LL_CONNECTION_UPDATE_IND / LL_CHANNEL_MAP_IND / phy)
def refuses (pr : Proc) (i counter : Nat) : Bool :=
  instantPassed i counter ||
    (match pr with
     | .connUpdate _ => i == counter + 1
     | _ => false)

/-- the handling of one control PDU; `true` = `ll_result::disconnect`.
    `s.counter` is still the counter of the connection event in which the PDU was received. -/
-- src: link_layer::handle_ll_control_data, phy_update_request_impl::handle_phy_request
def handleCtrl (s : LL) : Ctrl → LL × Bool
  | .proc pr i =>
      -- defered_conn_event_counter_ is a std::uint16_t
      if refuses pr (i % W) s.counter then ({ s with instant := i % W, reason := 0x28 }, true)
      else ({ s with instant := i % W, pending := some pr }, false)
  | .phyNoChange => (s, false)
  | .terminate r => ({ s with reason := r }, true)
  | .other => (s, false)

/-- the loop of `handle_received_data` over the queue of received PDUs; returns the state (with the
    PDUs that were not consumed left in `rxq`) and whether the link has to be disconnected -/
-- src: link_layer::handle_received_data (for-loop)
def handleQueue (s : LL) : List Pdu → LL × Bool
  | [] => ({ s with rxq := [] }, false)
  | p :: rest =>
    if p.llid = 3 then
      if (handleCtrl s (classify p.payload)).2 then
        ({ (handleCtrl s (classify p.payload)).1 with rxq := rest }, true)
      else if (handleCtrl s (classify p.payload)).1.pending.isSome then
        ({ (handleCtrl s (classify p.payload)).1 with rxq := rest }, false)
      else handleQueue (handleCtrl s (classify p.payload)).1 rest
    else if p.llid = 2 then handleQueue s rest          -- L2CAP data: consumed by handle_l2cap_input
    else ({ s with rxq := p :: rest }, false)           -- neither branch of the loop frees the PDU

-- src: link_layer::handle_received_data ("if ( !defered_ll_control_pdu_.empty() ) return")
def handleReceived (s : LL) : LL × Bool :=
  if s.pending.isSome then (s, false) else handleQueue s s.rxq

/-- `instance_distance` exactly as computed in `plan_next_connection_event` (int promotion of
    `~event_counter_` made explicit) -/
def instanceDistance (counter instant : Nat) : Nat :=
  if counter < instant then instant - counter else (instant + (65535 - counter) + 1) % W

/-- number of connection events the next planned event lies ahead (`connection_peripheral_latency`
    at the end of `plan_next_connection_event`) -/
-- src: connection_state_base::plan_next_connection_event
def planAdvance (s : LL) (listen : Bool) : Nat :=
  let lat0 := if listen || s.listenAlways then 0 else s.latency
  let lat1 := (lat0 + 1) % W
  match s.pending with
  | some _ =>
      let d := instanceDistance s.counter s.instant
      if d > 0 then min lat1 d else lat1
  | none => lat1

-- src: connection_state_base::plan_next_connection_event
def planNext (s : LL) (listen : Bool) : LL :=
  { s with counter := (s.counter + planAdvance s listen) % W, chIdx := (s.chIdx + planAdvance s listen) % 37,
           sinceLast := planAdvance s listen * (s.interval * 1250), lastLat := planAdvance s listen }

/-- the procedure takes effect (`channels_.reset`, `parse_timing_parameters_from_connection_update_
    request`, `radio_set_phy`); `true` = disconnect (invalid connection parameters) -/
def applyProc (s : LL) : Proc → LL × Bool
  | .chanMap m =>
      -- channel_map::reset refuses maps with less than 2 used channels, the result is ignored
      (if (usedChannels m).length < 2 then s else { s with map := m % 2 ^ 37 }, false)
  | .connUpdate p =>
      let s := { s with interval := p.interval, latency := p.latency, timeout := p.timeout }
      if p.valid then ({ s with changed := true }, false) else (s, true)
  | .phy a b =>
      ({ s with phyRx := if a = 0 then s.phyRx else a, phyTx := if b = 0 then s.phyTx else b }, false)

-- src: link_layer::handle_pending_ll_control( connection_event_counter() )
def handlePending (s : LL) : LL × Bool :=
  match s.pending with
  | some pr =>
      if s.instant = s.counter then
        -- fix 03: the planned event can not be moved to an earlier event any more (lastLat := 1)
        ({ (applyProc s pr).1 with pending := none, lastLat := 1 }, (applyProc s pr).2)
      else (s, false)
  | none => (s, false)

/-- the tail shared by `end_event` and `timeout`: pending procedures that affect the planned event
    are applied, then the event is set up -/
-- src: link_layer::end_event / timeout ("if ( handle_pending_ll_control( … ) == disconnect )")
def finishEvent (s : LL) : LL :=
  if (handlePending s).2 then forceDisconnect (handlePending s).1 else (handlePending s).1

/-- `ll_data_pdu_buffer::received`: PDUs with a payload are queued for the link layer -/
def enqueue (s : LL) (pdus : List Pdu) : LL :=
  { s with rxq := s.rxq ++ pdus.filter (fun p => p.payload.length ≠ 0 ∧ p.llid ≠ 0), changed := false }

-- src: link_layer::end_event
def endEvent (s : LL) (pdus : List Pdu) (listen : Bool) : LL :=
  if (handleReceived (enqueue s pdus)).2 then forceDisconnect (handleReceived (enqueue s pdus)).1
  else finishEvent (planNext (handleReceived (enqueue s pdus)).1 listen)

/-- the planned event is lost: `plan_next_connection_event_after_timeout` -/
def advanceOne (s : LL) : LL :=
  { s with counter := (s.counter + 1) % W, chIdx := (s.chIdx + 1) % 37,
           sinceLast := s.sinceLast + s.interval * 1250 }

-- src: link_layer::timeout + plan_next_connection_event_after_timeout
def lostEvent (s : LL) : LL :=
  if s.sinceLast < s.timeout * 10000 then finishEvent (advanceOne s) else forceDisconnect s

/-- `times`: number of connection intervals the radio reports to be needed until the earliest
    possible event (`max( 1, … )` in the code) -/
-- src: link_layer::try_event_cancelation, reschedule_on_pending_data_impl,
--      peripheral_latency_move_connection_event
def cancelEvent (s : LL) (times : Nat) : LL :=
  if s.changed then s
  else if s.lastLat = 1 then s
  else
    let moved := min (max 1 times) s.lastLat
    let back := s.lastLat - moved
    { s with counter := sub16 s.counter back, chIdx := (s.chIdx + 518 - back) % 37,
             sinceLast := s.sinceLast - back * (s.interval * 1250), lastLat := 1 }

/-- a connection event in which the central sends an empty PDU -/
def quietEvent (s : LL) : LL := if s.up then endEvent s [] false else s

/-- the harness' `disconnect`: three quiet connection events, then the local host calls
    `disconnect()`: LL_TERMINATE_IND (reason 0x16) is queued, and once it is sent and acknowledged
    (three more quiet events with the test radio) `end_event` calls `force_disconnect()`.
    Assumption (kept by the generator): no Connection Update reaches its instant in those last three
    events — `handle_pending_ll_control` would set `state_ = connection_changed` and the pending
    local disconnect would be forgotten (see docs, observation (e)). -/
-- src: link_layer::disconnect + send_control_pdus + end_event ("disconnecting && termination_send_")
def localDisconnect (s : LL) : LL :=
  if (quietEvent (quietEvent (quietEvent s))).up then
    forceDisconnect { quietEvent (quietEvent (quietEvent s)) with reason := 0x16 }
  else quietEvent (quietEvent (quietEvent s))

inductive In where
  | ev (pdus : List Pdu) (listen : Bool)
  | lost
  | cancel (times : Nat)
  | disconnect                                   -- local host ends the connection
  | connect (latency counter hop timeout : Nat)  -- CONNECT_IND while advertising
deriving Repr, DecidableEq

def step (s : LL) (i : In) : LL :=
  if s.up then
    match i with
    | .ev pdus listen => endEvent s pdus listen
    | .lost => lostEvent s
    | .cancel t => cancelEvent s t
    | .disconnect => localDisconnect s
    | .connect _ _ _ _ => s
  else
    match i with
    | .connect l c h t => reconnect s l c h t
    | _ => s

def run (s : LL) : List In → LL
  | [] => s
  | i :: is => run (step s i) is

/-! ### `plan_next_connection_event` for every peripheral latency configuration -/

/-- option bits: 1 pending_transmit_data, 2 unacknowledged_data, 4 last_received_not_empty,
    8 last_transmitted_not_empty, 16 last_received_had_more_data, 32 listen_always;
    event bits: 1 unacknowledged_data, 2 last_received_not_empty, 4 last_transmitted_not_empty,
    8 last_received_had_more_data, 16 pending_outgoing_data, 32 error_occured -/
-- src: connection_state_base::plan_next_connection_event (the big `if`)
def listenDecision (cfg flags : Nat) : Bool :=
  (cfg.testBit 1 && flags.testBit 0) || (cfg.testBit 2 && flags.testBit 1)
    || (cfg.testBit 3 && flags.testBit 2) || (cfg.testBit 4 && flags.testBit 3)
    || (cfg.testBit 0 && flags.testBit 4) || cfg.testBit 5 || flags.testBit 5

end BluetoeModel.Instants
