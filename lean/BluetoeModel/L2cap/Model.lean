/-
  Model of the L2CAP channel multiplexer `bluetoe::details::l2cap< LinkLayer, ChannelData, Channels... >`
  and of the signaling channel `bluetoe::l2cap::signaling_channel<>`.
  src: bluetoe/l2cap.hpp, bluetoe/link_layer/include/bluetoe/l2cap_signaling_channel.hpp
  (with fixes/l2cap-01-signaling-response-identifier.patch applied; the original `l2cap_input` of the
   signaling channel is `Orig.sigInput` in Orig.lean)

  Channel list of the harness: a scriptable mock on CID 4 (channel MTU 23..65), the real signaling
  channel on CID 5, a scriptable mock on CID 6 (MTU 23): `maximum_mtu_size = 65`. The link layer below
  is a counter of free output buffers of `maximum_mtu_size + 4` bytes.
-/
namespace BluetoeModel.L2cap

abbrev Bytes := List UInt8

/-- `l2cap<>::maximum_mtu_size` for the harness' channel list -/
def maxMtu : Nat := 65

/-! ### signaling channel -/

inductive Status where
  | idle | queued | transmitted
deriving Repr, DecidableEq

structure Sig where
  status : Status          -- pending_status_
  ident  : Nat             -- identifier_ (std::uint8_t)
  params : List Nat        -- interval_min_, interval_max_, latency_, timeout_ (uint16_t each)
deriving Repr, DecidableEq

-- src: signaling_channel::signaling_channel
def Sig.init : Sig := { status := .idle, ident := 1, params := [0, 0, 0, 0] }

-- src: signaling_channel::reject_command
def rejectCommand (input : Bytes) : Bytes :=
  match input with
  | _ :: id :: _ => if id = 0 then [] else [0x01, id, 2, 0, 0, 0]
  | _ => []

/-- `static_cast< std::uint8_t >( identifier_ + 1 )`, skipping `invalid_identifier` -/
def nextIdent (i : Nat) : Nat := if (i + 1) % 256 = 0 then (i + 2) % 256 else (i + 1) % 256

/-- `in_size >= 2 && input[ 1 ] == identifier_` -/
def matchingIdentifier (s : Sig) : Bytes → Bool
  | _ :: id :: _ => id.toNat == s.ident
  | _ => false

/-- `in_size > 0 ? input[ 0 ] : 0` -/
def code : Bytes → UInt8
  | c :: _ => c
  | [] => 0

-- src: signaling_channel::l2cap_input (fixed: the response has to carry the request's identifier)
def sigInput (s : Sig) (input : Bytes) : Sig × Bytes :=
  if code input = 0x13 ∧ s.status = .transmitted ∧ matchingIdentifier s input = true then
    ({ s with status := .idle, ident := nextIdent s.ident }, [])
  else
    (s, rejectCommand input)

def lo (n : Nat) : UInt8 := UInt8.ofNat (n % 256)
def hi (n : Nat) : UInt8 := UInt8.ofNat (n / 256 % 256)

-- src: signaling_channel::l2cap_output
def sigOutput (s : Sig) : Sig × Bytes :=
  if s.status = .queued then
    ({ s with status := .transmitted },
     [0x12, UInt8.ofNat s.ident, 8, 0] ++ (s.params.map fun p => [lo p, hi p]).flatten)
  else (s, [])

-- src: signaling_channel::connection_parameter_update_request
def sigRequest (s : Sig) (a b c d : Nat) : Sig × Bool :=
  if s.status = .idle then ({ s with status := .queued, params := [a, b, c, d] }, true)
  else (s, false)

/-! ### the scriptable mock channels of the harness (CID 4 and 6) -/

structure Mock where
  mode : Nat               -- 0: no answer, 1: echo, 2: fill the whole output buffer
  outq : List Bytes        -- PDUs waiting for l2cap_output
deriving Repr, DecidableEq

def mockInput (cid : Nat) (m : Mock) (input : Bytes) (outSize : Nat) : Bytes :=
  match m.mode with
  | 0 => []
  | 1 => (UInt8.ofNat (0xA0 + cid) :: input).take outSize
  | _ => List.replicate outSize 0x55

def mockOutput (m : Mock) (outSize : Nat) : Mock × Bytes :=
  match m.outq with
  | [] => (m, [])
  | p :: q => ({ m with outq := q }, p.take outSize)

/-! ### the multiplexer -/

structure S where
  sig  : Sig
  att  : Mock              -- CID 4
  sm   : Mock              -- CID 6
  bufs : Nat               -- free output buffers of the link layer
deriving Repr, DecidableEq

def S.init : S := { sig := Sig.init, att := ⟨1, []⟩, sm := ⟨1, []⟩, bufs := 0 }

/-- `read_16bit( p )` -/
def u16 (a b : UInt8) : Nat := a.toNat + 256 * b.toNat

/-- header of an outgoing frame: `write_16bit( out, size ); write_16bit( out + 2, channel_id )` -/
def frame (cid : Nat) (payload : Bytes) : Bytes :=
  [lo payload.length, hi payload.length, lo cid, hi cid] ++ payload

structure InResult where
  consumed : Bool
  dels     : List (Nat × Bytes)     -- (channel id, payload) handed to a channel's l2cap_input
  tx       : List Bytes             -- frames handed to commit_l2cap_output_buffer
deriving Repr, DecidableEq

/-- `for_< Channels... >::each( l2cap_input_handler )`: the channel whose id matches gets the payload;
    result: new state, was it handled, the channel's answer -/
-- src: l2cap::l2cap_input_handler::each
def dispatch (s : S) (cid : Nat) (payload : Bytes) : S × Bool × Bytes :=
  if cid = 4 then (s, true, mockInput 4 s.att payload maxMtu)
  else if cid = 5 then let (g, out) := sigInput s.sig payload; ({ s with sig := g }, true, out)
  else if cid = 6 then (s, true, mockInput 6 s.sm payload maxMtu)
  else (s, false, [])

-- src: l2cap::handle_l2cap_input
def handleInput (s : S) (input : Bytes) : S × InResult :=
  match input with
  | l0 :: l1 :: c0 :: c1 :: payload =>
      if input.length ≠ u16 l0 l1 + 4 then (s, ⟨true, [], []⟩)
      else if s.bufs = 0 then (s, ⟨false, [], []⟩)          -- allocate_l2cap_output_buffer failed
      else
        let cid := u16 c0 c1
        let (s', handled, out) := dispatch s cid payload
        let dels := if handled then [(cid, payload)] else []
        if handled ∧ out ≠ [] then ({ s' with bufs := s'.bufs - 1 }, ⟨true, dels, [frame cid out]⟩)
        else (s', ⟨true, dels, []⟩)
  | _ => (s, ⟨true, [], []⟩)                               -- in_size < 4: swallowed

/-- `for_< Channels... >::each( l2cap_output_handler )`: channels are asked in order until one has
    output -/
-- src: l2cap::l2cap_output_handler::each
def collectOutput (s : S) : S × Nat × Bytes :=
  let (a, o4) := mockOutput s.att maxMtu
  if o4 ≠ [] then ({ s with att := a }, 4, o4)
  else
    let (g, o5) := sigOutput s.sig
    if o5 ≠ [] then ({ s with att := a, sig := g }, 5, o5)
    else
      let (m, o6) := mockOutput s.sm maxMtu
      ({ s with att := a, sig := g, sm := m }, 6, o6)

-- src: l2cap::transmit_single_pending_l2cap_output
def transmitSingle (s : S) : S × Option Bytes :=
  if s.bufs = 0 then (s, none)
  else
    let (s', cid, out) := collectOutput s
    if out ≠ [] then ({ s' with bufs := s'.bufs - 1 }, some (frame cid out)) else (s', none)

/-- every frame sent takes a buffer, so the number of buffers bounds the loop -/
-- src: l2cap::transmit_pending_l2cap_output
def transmitPending : Nat → S → S × List Bytes
  | 0, s => (s, [])
  | n + 1, s =>
      match transmitSingle s with
      | (s', none) => (s', [])
      | (s', some f) => let (s'', fs) := transmitPending n s'; (s'', f :: fs)

inductive Op where
  | bufs (n : Nat) | mode (cid m : Nat) | queue (cid : Nat) (p : Bytes)
  | input (f : Bytes) | output | request (a b c d : Nat)
deriving Repr, DecidableEq

inductive Out where
  | ok
  | input (r : InResult)
  | output (tx : List Bytes)
  | request (accepted : Bool)
deriving Repr, DecidableEq

def step (s : S) : Op → S × Out
  | .bufs n => ({ s with bufs := s.bufs + n }, .ok)
  | .mode cid m => (if cid = 4 then { s with att := { s.att with mode := m } }
                    else { s with sm := { s.sm with mode := m } }, .ok)
  | .queue cid p => (if cid = 4 then { s with att := { s.att with outq := s.att.outq ++ [p] } }
                     else { s with sm := { s.sm with outq := s.sm.outq ++ [p] } }, .ok)
  | .input f => let (s', r) := handleInput s f; (s', .input r)
  | .output => let (s', tx) := transmitPending s.bufs s; (s', .output tx)
  | .request a b c d => let (g, r) := sigRequest s.sig a b c d; ({ s with sig := g }, .request r)

def run (s : S) : List Op → S × List Out
  | [] => (s, [])
  | op :: ops =>
      let (s', o) := step s op
      let (s'', os) := run s' ops
      (s'', o :: os)

end BluetoeModel.L2cap
