import BluetoeModel.L2cap.Model
/-! Helper lemmas for the C31 theorems. -/
namespace BluetoeModel.L2cap

theorem nextIdent_ne_zero (i : Nat) : nextIdent i ≠ 0 := by
  unfold nextIdent; split <;> omega

theorem nextIdent_lt (i : Nat) : nextIdent i < 256 := by
  unfold nextIdent; split <;> omega

theorem nextIdent_ne_self (i : Nat) (h : i < 256) : nextIdent i ≠ i := by
  unfold nextIdent; split <;> omega

theorem nextIdent_spec (i : Nat) (h : i < 256) : nextIdent i = if i = 255 then 1 else i + 1 := by
  unfold nextIdent; split <;> split <;> omega

theorem rejectCommand_spec (input : Bytes) :
    rejectCommand input = [] ∨ ∃ c id rest, input = c :: id :: rest ∧ id ≠ 0 ∧ rejectCommand input = [0x01, id, 2, 0, 0, 0] := by
  match input with
  | [] => exact Or.inl rfl
  | [_] => exact Or.inl rfl
  | c :: id :: rest =>
    by_cases h : id = 0
    · left; simp [rejectCommand, h]
    · right; exact ⟨c, id, rest, rfl, h, by simp [rejectCommand, h]⟩

theorem rejectCommand_length (input : Bytes) : (rejectCommand input).length ≤ 6 := by
  rcases rejectCommand_spec input with h | ⟨_, _, _, _, _, h⟩ <;> simp [h]

theorem sigInput_length (s : Sig) (input : Bytes) : (sigInput s input).2.length ≤ 6 := by
  unfold sigInput; split
  · simp
  · exact rejectCommand_length input

theorem mockInput_length (cid : Nat) (m : Mock) (input : Bytes) (n : Nat) : (mockInput cid m input n).length ≤ n := by
  unfold mockInput
  split
  · simp
  · exact List.length_take_le _ _
  · simp

theorem dispatch_length (s : S) (cid : Nat) (p : Bytes) : (dispatch s cid p).2.2.length ≤ maxMtu := by
  unfold dispatch
  split
  · exact mockInput_length _ _ _ _
  · split
    · have := sigInput_length s.sig p
      simp only [maxMtu]; omega
    · split
      · exact mockInput_length _ _ _ _
      · simp

theorem frame_length (cid : Nat) (p : Bytes) : (frame cid p).length = p.length + 4 := by
  simp [frame]

/-- ident stays a valid identifier, for every operation -/
theorem sigInput_ident (s : Sig) (input : Bytes) (h : s.ident ≠ 0 ∧ s.ident < 256) : (sigInput s input).1.ident ≠ 0 ∧ (sigInput s input).1.ident < 256 := by
  unfold sigInput; split
  · exact ⟨nextIdent_ne_zero _, nextIdent_lt _⟩
  · exact h

theorem dispatch_ident (s : S) (cid : Nat) (p : Bytes) (h : s.sig.ident ≠ 0 ∧ s.sig.ident < 256) :
    (dispatch s cid p).1.sig.ident ≠ 0 ∧ (dispatch s cid p).1.sig.ident < 256 := by
  unfold dispatch
  split
  · exact h
  · split
    · exact sigInput_ident _ _ h
    · split <;> exact h

theorem handleInput_sig (s : S) (f : Bytes) :
    (handleInput s f).1.sig = s.sig ∨ ∃ cid p, (handleInput s f).1.sig = (dispatch s cid p).1.sig := by
  unfold handleInput
  split
  · next l0 l1 c0 c1 p =>
    split
    · left; rfl
    · split
      · left; rfl
      · right
        refine ⟨u16 c0 c1, p, ?_⟩
        dsimp only
        split <;> rfl
  · left; rfl

theorem handleInput_ident (s : S) (f : Bytes) (h : s.sig.ident ≠ 0 ∧ s.sig.ident < 256) :
    (handleInput s f).1.sig.ident ≠ 0 ∧ (handleInput s f).1.sig.ident < 256 := by
  rcases handleInput_sig s f with h1 | ⟨cid, p, h1⟩
  · rw [h1]; exact h
  · rw [h1]; exact dispatch_ident s cid p h

theorem collectOutput_ident (s : S) : (collectOutput s).1.sig.ident = s.sig.ident := by
  unfold collectOutput sigOutput
  simp only
  split
  · rfl
  · split <;> (split <;> rfl)

theorem transmitSingle_ident (s : S) : (transmitSingle s).1.sig.ident = s.sig.ident := by
  unfold transmitSingle
  split
  · rfl
  · have := collectOutput_ident s
    generalize collectOutput s = x at this
    obtain ⟨s', cid, out⟩ := x
    simp only
    split <;> exact this

theorem transmitPending_ident : ∀ (n : Nat) (s : S), (transmitPending n s).1.sig.ident = s.sig.ident := by
  intro n
  induction n with
  | zero => intro s; rfl
  | succ n ih =>
    intro s
    unfold transmitPending
    have := transmitSingle_ident s
    generalize transmitSingle s = x at this
    obtain ⟨s', o⟩ := x
    cases o with
    | none => exact this
    | some f => simp only; rw [ih]; exact this

theorem step_ident (s : S) (op : Op) (h : s.sig.ident ≠ 0 ∧ s.sig.ident < 256) :
    (step s op).1.sig.ident ≠ 0 ∧ (step s op).1.sig.ident < 256 := by
  cases op with
  | bufs n => exact h
  | mode cid m => simp only [step]; split <;> exact h
  | queue cid p => simp only [step]; split <;> exact h
  | input f => exact handleInput_ident s f h
  | output => simp only [step]; rw [transmitPending_ident]; exact h
  | request a b c d => simp only [step, sigRequest]; split <;> exact h

theorem run_fst_cons (s : S) (op : Op) (ops : List Op) : (run s (op :: ops)).1 = (run (step s op).1 ops).1 := by
  simp [run]

theorem run_ident (ops : List Op) : ∀ (s : S), s.sig.ident ≠ 0 ∧ s.sig.ident < 256 →
    (run s ops).1.sig.ident ≠ 0 ∧ (run s ops).1.sig.ident < 256 := by
  induction ops with
  | nil => intro s h; exact h
  | cons op ops ih => intro s h; rw [run_fst_cons]; exact ih _ (step_ident s op h)

end BluetoeModel.L2cap
