import BluetoeModel.L2cap.Lemmas
/-!
  C31 — L2CAP channel multiplexing and signaling are well behaved.  Only property theorems.
-/
namespace BluetoeModel.L2cap

def knownCid (cid : Nat) : Prop := cid = 4 ∨ cid = 5 ∨ cid = 6

theorem handleInput_eq (s : S) (l0 l1 c0 c1 : UInt8) (p : Bytes)
    (hl : (l0 :: l1 :: c0 :: c1 :: p).length = u16 l0 l1 + 4) (hb : s.bufs ≠ 0) :
    handleInput s (l0 :: l1 :: c0 :: c1 :: p) =
      if (dispatch s (u16 c0 c1) p).2.1 = true ∧ (dispatch s (u16 c0 c1) p).2.2 ≠ [] then
        ({ (dispatch s (u16 c0 c1) p).1 with bufs := (dispatch s (u16 c0 c1) p).1.bufs - 1 },
         ⟨true, if (dispatch s (u16 c0 c1) p).2.1 = true then [(u16 c0 c1, p)] else [],
          [frame (u16 c0 c1) (dispatch s (u16 c0 c1) p).2.2]⟩)
      else ((dispatch s (u16 c0 c1) p).1,
         ⟨true, if (dispatch s (u16 c0 c1) p).2.1 = true then [(u16 c0 c1, p)] else [], []⟩) := by
  unfold handleInput
  simp only
  rw [if_neg (by intro h; exact h hl), if_neg hb]

theorem handleInput_mismatch (s : S) (l0 l1 c0 c1 : UInt8) (p : Bytes)
    (hl : (l0 :: l1 :: c0 :: c1 :: p).length ≠ u16 l0 l1 + 4) :
    handleInput s (l0 :: l1 :: c0 :: c1 :: p) = (s, ⟨true, [], []⟩) := by
  unfold handleInput
  simp only
  rw [if_pos hl]

theorem dispatch_known (s : S) (cid : Nat) (p : Bytes) (h : knownCid cid) : (dispatch s cid p).2.1 = true := by
  unfold dispatch; rcases h with h | h | h <;> simp [h]

theorem dispatch_unknown (s : S) (cid : Nat) (p : Bytes) (h : ¬ knownCid cid) : dispatch s cid p = (s, false, []) := by
  unfold dispatch
  rw [if_neg (fun x => h (Or.inl x)), if_neg (fun x => h (Or.inr (Or.inl x))), if_neg (fun x => h (Or.inr (Or.inr x)))]

/-- "An L2CAP frame is delivered to exactly the channel its CID names and only if its length field
    matches": for every state with an output buffer available and every byte string `f`, the list of
    deliveries of `handle_l2cap_input( f )` is the single pair (CID of the header, payload behind the
    header) if `f` has a header, its length field + 4 is the size of `f` and the CID is one of the
    channels; in every other case nothing is delivered to any channel. -/
theorem delivered_iff_cid_and_length (s : S) (f : Bytes) (hb : s.bufs ≠ 0) :
    (∀ l0 l1 c0 c1 p, f = l0 :: l1 :: c0 :: c1 :: p → f.length = u16 l0 l1 + 4 → knownCid (u16 c0 c1) →
        (handleInput s f).2.dels = [(u16 c0 c1, p)]) ∧
    ((¬ ∃ l0 l1 c0 c1 p, f = l0 :: l1 :: c0 :: c1 :: p ∧ f.length = u16 l0 l1 + 4 ∧ knownCid (u16 c0 c1)) →
        (handleInput s f).2.dels = []) := by
  constructor
  · intro l0 l1 c0 c1 p hf hl hk
    subst hf
    rw [handleInput_eq s l0 l1 c0 c1 p hl hb, dispatch_known s _ p hk]
    split <;> rfl
  · intro hn
    match f, hn with
    | l0 :: l1 :: c0 :: c1 :: p, hn =>
      by_cases hl : (l0 :: l1 :: c0 :: c1 :: p).length = u16 l0 l1 + 4
      · have hu : ¬ knownCid (u16 c0 c1) := fun hk => hn ⟨l0, l1, c0, c1, p, rfl, hl, hk⟩
        rw [handleInput_eq s l0 l1 c0 c1 p hl hb, dispatch_unknown s _ p hu]
        simp
      · rw [handleInput_mismatch s l0 l1 c0 c1 p hl]
    | [], _ => rfl
    | [_], _ => rfl
    | [_, _], _ => rfl
    | [_, _, _], _ => rfl

/-- non-vacuity: a frame for CID 5 with a matching length -/
example : (handleInput { S.init with bufs := 1 } [2, 0, 5, 0, 0x0a, 0x01]).2.dels = [(5, [0x0a, 0x01])] := by decide

/-- "frames for unknown CIDs are dropped": nothing is delivered, nothing is sent, the state of every
    channel and the number of buffers stay as they are, and the frame is reported consumed. -/
theorem unknown_cid_dropped (s : S) (l0 l1 c0 c1 : UInt8) (p : Bytes) (hb : s.bufs ≠ 0)
    (hu : ¬ knownCid (u16 c0 c1)) :
    handleInput s (l0 :: l1 :: c0 :: c1 :: p) = (s, ⟨true, [], []⟩) := by
  by_cases hl : (l0 :: l1 :: c0 :: c1 :: p).length = u16 l0 l1 + 4
  · rw [handleInput_eq s l0 l1 c0 c1 p hl hb, dispatch_unknown s _ p hu]
    simp
  · exact handleInput_mismatch s l0 l1 c0 c1 p hl

example : ¬ knownCid (u16 0x40 0) := by unfold knownCid; decide

/-- "replies use the same CID and fit the allocated buffer": every frame that
    `handle_l2cap_input` commits carries the CID of the request frame, its length field is its
    payload size (`frame`), and it fits the buffer of `maximum_mtu_size + 4` bytes that was
    allocated; at most one frame is committed per input. -/
theorem reply_same_cid_and_fits (s : S) (l0 l1 c0 c1 : UInt8) (p : Bytes) :
    ∀ r ∈ (handleInput s (l0 :: l1 :: c0 :: c1 :: p)).2.tx,
      ∃ out, r = frame (u16 c0 c1) out ∧ out ≠ [] ∧ r.length ≤ maxMtu + 4 ∧
        (handleInput s (l0 :: l1 :: c0 :: c1 :: p)).2.tx = [r] := by
  intro r hr
  by_cases hl : (l0 :: l1 :: c0 :: c1 :: p).length = u16 l0 l1 + 4
  · by_cases hb : s.bufs = 0
    · unfold handleInput at hr
      simp only at hr
      rw [if_neg (by intro h; exact h hl), if_pos hb] at hr
      simp at hr
    · rw [handleInput_eq s l0 l1 c0 c1 p hl hb] at hr ⊢
      have hlen := dispatch_length s (u16 c0 c1) p
      split at hr
      · next hc =>
        rw [if_pos hc]
        simp only [List.mem_singleton] at hr
        subst hr
        exact ⟨_, rfl, hc.2, by rw [frame_length]; omega, rfl⟩
      · simp at hr
  · rw [handleInput_mismatch s l0 l1 c0 c1 p hl] at hr
    simp at hr

/-- non-vacuity: the echoing mock on CID 4 answers on CID 4 -/
example : (handleInput { S.init with bufs := 1 } [1, 0, 4, 0, 9]).2.tx = [frame 4 [0xA4, 9]] := by decide

/-- "accepts only a matching response" (full strength, for every state and every input): the
    signaling channel leaves the state `transmitted` exactly when the input is a Connection Parameter
    Update Response (code 0x13) of at least two bytes whose identifier is the one of the request. -/
theorem accepts_only_matching_response (s : Sig) (input : Bytes) (ht : s.status = .transmitted) :
    ((sigInput s input).1.status ≠ .transmitted ↔
      ∃ id rest, input = 0x13 :: id :: rest ∧ id.toNat = s.ident) ∧
    ((sigInput s input).1.status = .transmitted ∨ (sigInput s input).1.status = .idle) := by
  unfold sigInput
  constructor
  · constructor
    · intro h
      split at h
      · next hc =>
        obtain ⟨h1, _, h3⟩ := hc
        match input, h1, h3 with
        | c :: id :: rest, h1, h3 =>
          simp only [code] at h1
          simp only [matchingIdentifier, beq_iff_eq] at h3
          exact ⟨id, rest, by rw [h1], h3⟩
      · exact absurd ht h
    · rintro ⟨id, rest, rfl, hid⟩
      simp [code, matchingIdentifier, ht, hid]
  · split
    · right; rfl
    · left; exact ht

example : (sigInput { status := .transmitted, ident := 1, params := [] } [0x13, 1, 2, 0, 0, 0]).1.status = .idle := by decide
example : (sigInput { status := .transmitted, ident := 1, params := [] } [0x13, 0x77, 2, 0, 0, 0]).1.status = .transmitted := by decide

/-- in the other states nothing is accepted: the state does not change at all -/
theorem no_response_accepted_unless_transmitted (s : Sig) (input : Bytes) (ht : s.status ≠ .transmitted) :
    (sigInput s input).1 = s := by
  unfold sigInput
  rw [if_neg (fun h => ht h.2.1)]

/-- "sends a queued Connection Parameter Update Request once": the request PDU is produced by
    `l2cap_output` exactly in the state `queued`, carries the current identifier and the queued
    parameters, and moves the channel to `transmitted`, where `l2cap_output` produces nothing and a
    further request is refused; a request is accepted only in `idle`. -/
theorem update_request_sent_once (s : Sig) :
    (s.status = .queued →
        (sigOutput s).2 = [0x12, UInt8.ofNat s.ident, 8, 0] ++ (s.params.map fun p => [lo p, hi p]).flatten ∧
        (sigOutput s).1.status = .transmitted ∧ (sigOutput s).1.ident = s.ident ∧
        (sigOutput (sigOutput s).1).2 = []) ∧
    (s.status ≠ .queued → sigOutput s = (s, [])) ∧
    (∀ a b c d, (sigRequest s a b c d).2 = true ↔ s.status = .idle) ∧
    (∀ a b c d, s.status ≠ .idle → sigRequest s a b c d = (s, false)) := by
  refine ⟨?_, ?_, ?_, ?_⟩
  · intro h; simp [sigOutput, h]
  · intro h; simp [sigOutput, h]
  · intro a b c d; unfold sigRequest; split <;> simp [*]
  · intro a b c d h; simp [sigRequest, h]

/-- "uses non-zero identifiers that advance per completed request": for every history of
    operations the identifier is never 0 (so every request PDU, which carries `identifier_`, has a
    non-zero identifier), and completing a request replaces it by the next value of the cycle
    1, 2, …, 255, 1, … — different from the one just used. -/
theorem identifier_nonzero_and_advances (ops : List Op) :
    ((run S.init ops).1.sig.ident ≠ 0 ∧ (run S.init ops).1.sig.ident < 256) ∧
    (∀ (s : Sig) (input : Bytes), s.ident < 256 → (sigInput s input).1.status ≠ s.status →
        (sigInput s input).1.ident = (if s.ident = 255 then 1 else s.ident + 1) ∧
        (sigInput s input).1.ident ≠ s.ident) ∧
    (∀ (s : Sig) (input : Bytes), (sigInput s input).1.status = s.status → (sigInput s input).1.ident = s.ident) := by
  refine ⟨run_ident ops S.init (by decide), ?_, ?_⟩
  · intro s input hlt h
    unfold sigInput at h ⊢
    split
    · exact ⟨nextIdent_spec _ hlt, nextIdent_ne_self _ hlt⟩
    · next hc => rw [if_neg hc] at h; exact absurd rfl h
  · intro s input h
    unfold sigInput at h ⊢
    split
    · next hc =>
      rw [if_pos hc] at h
      simp only at h
      rw [hc.2.1] at h
      exact absurd h (by decide)
    · rfl

/-- the request PDU carries the identifier as a byte: no truncation, never 0 -/
theorem request_identifier_byte_nonzero (ops : List Op) :
    (UInt8.ofNat (run S.init ops).1.sig.ident).toNat = (run S.init ops).1.sig.ident ∧
    UInt8.ofNat (run S.init ops).1.sig.ident ≠ 0 := by
  obtain ⟨h0, hlt⟩ := run_ident ops S.init (by decide)
  have h1 : (UInt8.ofNat (run S.init ops).1.sig.ident).toNat = (run S.init ops).1.sig.ident := by
    simp [UInt8.toNat_ofNat']; omega
  refine ⟨h1, ?_⟩
  intro h
  rw [h] at h1
  exact h0 h1.symm

/-- "answers other commands with Command Reject echoing a non-zero identifier": every non-empty
    answer of the signaling channel is `01 id 02 00 00 00` with `id` the (non-zero) identifier of the
    command; and every command that is not the accepted response, has an identifier byte and a
    non-zero identifier gets that answer; commands without identifier or with identifier 0 get none. -/
theorem reject_echoes_nonzero_id (s : Sig) (input : Bytes) :
    ((sigInput s input).2 = [] ∨
      ∃ c id rest, input = c :: id :: rest ∧ id ≠ 0 ∧ (sigInput s input).2 = [0x01, id, 2, 0, 0, 0]) ∧
    (∀ c id rest, input = c :: id :: rest → (sigInput s input).1 = s →
      (sigInput s input).2 = if id = 0 then [] else [0x01, id, 2, 0, 0, 0]) := by
  constructor
  · unfold sigInput
    split
    · left; rfl
    · exact rejectCommand_spec input
  · intro c id rest hi hs
    subst hi
    unfold sigInput at hs ⊢
    split
    · next hc =>
      rw [if_pos hc] at hs
      have := congrArg Sig.status hs
      simp only at this
      rw [hc.2.1] at this
      exact absurd this (by decide)
    · simp [rejectCommand]

example : (sigInput Sig.init [0x12, 3, 8, 0, 1, 0, 2, 0, 0, 0, 0, 1]).2 = [1, 3, 2, 0, 0, 0] := by decide

end BluetoeModel.L2cap
