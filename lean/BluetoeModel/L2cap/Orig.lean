import BluetoeModel.L2cap.Model
/-!
  `signaling_channel::l2cap_input` as it is in the repository *before*
  fixes/l2cap-01-signaling-response-identifier.patch, and the witness that "accepts only a matching
  response" is false of it (replayed on the real code by corpus/C31/01-response-identifier.ops).
-/
namespace BluetoeModel.L2cap.Orig
open BluetoeModel.L2cap

-- src: signaling_channel::l2cap_input (original)
def sigInput (s : Sig) (input : Bytes) : Sig × Bytes :=
  if code input = 0x13 ∧ s.status = .transmitted then
    ({ s with status := .idle, ident := nextIdent s.ident }, [])
  else
    (s, rejectCommand input)

/-- full statement: a response ends the procedure only if it carries the identifier of the request -/
def accepts_only_matching_response_full : Prop :=
  ∀ (s : Sig) (input : Bytes), s.status = .transmitted → (sigInput s input).1.status = .idle →
    matchingIdentifier s input = true

/-- request sent with identifier 0x01, response with identifier 0x77: the procedure completes and
    the identifier advances to 0x02 -/
theorem accepts_only_matching_response_witness : ¬ accepts_only_matching_response_full := by
  intro h
  have := h { status := .transmitted, ident := 1, params := [0, 0, 0, 0] } [0x13, 0x77, 2, 0, 0, 0] rfl (by decide)
  exact absurd this (by decide)

theorem mismatching_response_advances_identifier :
    (sigInput { status := .transmitted, ident := 1, params := [0, 0, 0, 0] } [0x13, 0x77, 2, 0, 0, 0]).1
      = { status := .idle, ident := 2, params := [0, 0, 0, 0] } := by decide

end BluetoeModel.L2cap.Orig
