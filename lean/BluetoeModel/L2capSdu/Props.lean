import BluetoeModel.L2capSdu.Inv
/-!
  C19 — L2CAP fragmentation and reassembly are exact and memory safe.
  Only the property theorems (and non-vacuity examples); the proofs' invariants are in
  Lemmas.lean (receive), TxLemmas.lean (transmit) and Inv.lean (histories).
-/
namespace BluetoeModel.L2capSdu

private theorem step_next_eq {s s' : S} {g : Got} {cb : Nat} (h : step s .next = (s', .next g cb)) :
    s'.rx = (nextReceived s.cfg s.rx).1 ∧ s'.cfg = s.cfg ∧ (nextReceived s.cfg s.rx).2.2 = g := by
  simp only [step, Prod.mk.injEq, Out.next.injEq] at h
  obtain ⟨hs, hg, _⟩ := h
  subst hs
  exact ⟨rfl, rfl, hg⟩

/-- "For any sequence of incoming start/continuation fragments, including malformed or interleaved
    ones, reassembly never writes outside its buffer": for every configuration (MTU, layout) and every
    history of operations (any PDUs received, any order of next / free, any transmit activity) the
    model never takes the out-of-bounds branch of `writeAt?` on `receive_buffer_`, and
    `receive_buffer_used_ + receive_size_` stays within the buffer. No hypothesis. -/
theorem reassembly_in_bounds (c : Cfg) (maxTx : Nat) (ops : List Op) :
    let s := (run (S.init c maxTx) ops).1
    s.rx.oob = false ∧ s.rx.buf.length = c.cap ∧ s.rx.used + s.rx.size ≤ c.cap := by
  have h := run_rxInv (c := c) ops (s := S.init c maxTx) ⟨rfl, rxBound_init c⟩
  exact ⟨h.rxb.noOob, h.rxb.len, h.rxb.bound⟩

/-- "[reassembly] only delivers an SDU whose bytes are exactly one start fragment followed by its
    continuations with the length its header announces": after any history, if
    `next_ll_l2cap_received()` hands out the reassembly buffer `x`, then `x` is the most recent
    start fragment `p` of the consumed PDU stream (LLID 2, with its LL header) followed by the bodies
    `cs` of all PDUs with LLID ≠ 2, 3 consumed since — nothing missing, nothing added —, and the
    L2CAP frame in it has exactly the announced length `n` (+ 4 header bytes). -/
theorem delivered_is_start_plus_continuations (c : Cfg) (maxTx : Nat) (ops : List Op)
    (hcap : c.cap < 65536) (x : Bytes) (cb : Nat) (s' : S)
    (h : step (run (S.init c maxTx) ops).1 .next = (s', .next (.sdu x) cb)) :
    ∃ p cs n, lastTrain c s'.rx.log = some (p, cs) ∧ pduType p = 2 ∧
      l2capLen? (body c p) = some n ∧ n ≤ c.mtu ∧ x = p ++ cs.flatten ∧
      x.length = n + c.overall ∧ (x.drop c.llOverhead).length = n + 4 := by
  have hi := run_rxInvE (c := c) hcap ops (s := S.init c maxTx) ⟨rfl, rxBound_init c, rxExact_init c⟩
  generalize (run (S.init c maxTx) ops).1 = s at h hi
  have hi' := step_rxInvE hcap .next hi
  rw [h] at hi'
  obtain ⟨hs', _, hx⟩ := step_next_eq h
  rw [hi.cfg] at hs' hx
  simp only at hi'
  -- the handed out SDU is the buffer content of a complete state
  have hc : s'.rx.complete = true ∧ x = s'.rx.buf.take s'.rx.used := by
    rw [hs']
    unfold nextReceived at hx ⊢
    split
    · next hcm =>
      rw [if_pos hcm] at hx
      simp only [Got.sdu.injEq] at hx
      exact ⟨hcm, hx.symm⟩
    · next hcm =>
      rw [if_neg hcm] at hx
      exact rxLoop_sdu c _ _ _ _ hx
  obtain ⟨hcm, hxe⟩ := hc
  simp only [Rx.complete, Bool.and_eq_true, bne_iff_ne, ne_eq, beq_iff_eq] at hcm
  obtain ⟨p, cs, n, h1, h2, h3, h4, h5, h6⟩ := hi'.rxe.train hcm.1
  have hlen : x.length = n + c.overall := by
    rw [hxe, List.length_take]
    have := hi'.rxb.bound; have := hi'.rxb.len
    omega
  refine ⟨p, cs, n, h1, h2, h3, h4, by rw [hxe, h5], hlen, ?_⟩
  rw [List.length_drop, hlen]; simp only [Cfg.overall]; omega

/-- non-vacuity: MTU 24, a 10 byte frame (announced length 6) received as start + continuation -/
example :
    step (run (S.init ⟨24, 0⟩ 29) [.rx [2, 6, 6, 0, 4, 0, 1, 2], .rx [1, 4, 3, 4, 5, 6]]).1 .next
      = ((step (run (S.init ⟨24, 0⟩ 29) [.rx [2, 6, 6, 0, 4, 0, 1, 2], .rx [1, 4, 3, 4, 5, 6]]).1 .next).1,
         .next (.sdu [2, 6, 6, 0, 4, 0, 1, 2, 3, 4, 5, 6]) 2) := by decide

/-- "…only delivers an SDU…" for SDUs that are handed out of the radio's buffer: whatever
    `next_ll_l2cap_received()` hands out as PDU is the PDU at the head of what is left of the
    radio's queue (unchanged, still queued) and is an LL control PDU or a start fragment whose body
    is a complete L2CAP frame of the announced length. Holds in every state. -/
theorem handed_out_pdu_is_head_and_complete (s s' : S) (x : Bytes) (cb : Nat)
    (h : step s .next = (s', .next (.pdu x) cb)) :
    (∃ q', s'.rx.rxq = x :: q' ∧ (x :: q') <:+ s.rx.rxq) ∧
    (pduType x = 3 ∨ (pduType x = 2 ∧ ∃ n, l2capLen? (body s.cfg x) = some n ∧ n + 4 = (body s.cfg x).length)) := by
  obtain ⟨hs', _, hx⟩ := step_next_eq h
  rw [hs']
  unfold nextReceived at hx ⊢
  split
  · next hcm => rw [if_pos hcm] at hx; simp at hx
  · next hcm =>
    rw [if_neg hcm] at hx
    have := rxLoop_pdu s.cfg s.rx.rxq s.rx 0 x (by simpa using hcm) hx
    exact ⟨this.2.1, this.2.2⟩

/-- exactly-once hand over: `free_ll_l2cap_received()` after a PDU was handed out removes exactly
    that PDU from the radio's queue and leaves the reassembly untouched (so an LL control PDU or an
    unfragmented SDU between the fragments of another SDU is neither handed out twice nor does it
    end the reassembly); after an SDU was handed out of the reassembly buffer it releases that
    buffer and leaves the radio's queue alone. Holds in every state. -/
theorem free_frees_what_was_handed_out (s s1 : S) (x : Bytes) (cb : Nat) :
    (step s .next = (s1, .next (.pdu x) cb) →
      (step s1 .free).2 = .free false ∧ s1.rx.rxq = x :: (step s1 .free).1.rx.rxq ∧
      (step s1 .free).1.rx.used = s1.rx.used ∧ (step s1 .free).1.rx.size = s1.rx.size ∧
      (step s1 .free).1.rx.buf = s1.rx.buf) ∧
    (step s .next = (s1, .next (.sdu x) cb) →
      (step s1 .free).2 = .free false ∧ (step s1 .free).1.rx.rxq = s1.rx.rxq ∧
      (step s1 .free).1.rx.used = 0 ∧ (step s1 .free).1.rx.size = 0) := by
  constructor
  · intro h
    obtain ⟨hs', _, hx⟩ := step_next_eq h
    have key : s1.rx.complete = false ∧ ∃ q', s1.rx.rxq = x :: q' := by
      rw [hs']
      unfold nextReceived at hx ⊢
      split
      · next hcm => rw [if_pos hcm] at hx; simp at hx
      · next hcm =>
        rw [if_neg hcm] at hx
        have := rxLoop_pdu s.cfg s.rx.rxq s.rx 0 x (by simpa using hcm) hx
        obtain ⟨a, ⟨q', b, _⟩, _⟩ := this
        exact ⟨a, q', b⟩
    obtain ⟨hnc, q', hq⟩ := key
    simp only [step, freeReceived, hnc, hq, Bool.false_eq_true, if_false]
    simp
  · intro h
    obtain ⟨hs', _, hx⟩ := step_next_eq h
    have key : s1.rx.complete = true := by
      rw [hs']
      unfold nextReceived at hx ⊢
      split
      · next hcm => exact hcm
      · next hcm =>
        rw [if_neg hcm] at hx
        exact (rxLoop_sdu s.cfg _ _ _ _ hx).1
    simp only [step, freeReceived, key, if_true]
    simp

/-- "Every outgoing L2CAP SDU larger than the link layer payload is sent as one start fragment
    followed by continuation fragments whose payloads concatenate to the SDU": after any history of
    operations that respects the callers' contract (`OpOk`: length field ≤ MTU, `max_tx_size()` larger
    than the LL overhead) — any schedule of free radio buffers, `max_tx_size()` changes, interleaved LL
    PDUs, received traffic — the PDUs `try_send_pdus` has committed for the SDU handed over last
    (`frags`) are one LLID-2 PDU followed by LLID-1 PDUs (`Shape`), their payloads concatenate to a
    prefix of that SDU, and to exactly the SDU once `transmit_size_` is 0.  (`sendSdu_records_frame`:
    the recorded SDU is the frame the L2CAP layer wrote.) -/
theorem fragments_concat_eq_sdu (c : Cfg) (maxTx : Nat) (ops : List Op) (hcap : c.cap < 65536)
    (hmax : c.llOverhead < maxTx) (hok : ∀ op ∈ ops, OpOk c op) :
    let t := (run (S.init c maxTx) ops).1.tx
    Shape t.frags ∧ (t.frags.map (payload c)).flatten <+: t.sdu ∧
    (t.size = 0 → (t.frags.map (payload c)).flatten = t.sdu) := by
  have h := (run_txInv (c := c) hcap ops hok (s := S.init c maxTx) ⟨rfl, txInv_init c maxTx hmax, by intro x hx; simp [S.init, Tx.init] at hx⟩).tx
  refine ⟨h.shape, h.prefix, ?_⟩
  intro h0
  rcases h.st with ⟨_, _, d⟩ | ⟨_, b, _⟩ | ⟨_, _, _, e, f⟩
  · exact d
  · simp only [Cfg.overall] at b; omega
  · rw [e, ← f, h0]; rfl

/-- non-vacuity: MTU 65, max_tx_size 29: a 40 byte frame is sent as 27 + 13 payload bytes -/
example :
    let f : Bytes := [36, 0, 4, 0] ++ List.replicate 36 7
    let t := (run (S.init ⟨65, 0⟩ 29) [.bufs 3, .send f]).1.tx
    t.frags.length = 2 ∧ t.size = 0 ∧ (t.frags.map (payload ⟨65, 0⟩)).flatten = f ∧ t.sdu = f := by decide

/-- "…each within the current maximum PDU size" — the maximum **at the time each fragment is
    allocated**, for every history of size changes: after any history of operations that respects
    the callers' contract — in particular with `max_tx_size()` changed (grown or shrunk, `.maxTx n`
    with any `n` above the LL overhead) at any point, also between the fragments of an SDU that is
    stalled because the radio ran out of transmit buffers — every PDU `try_send_pdus` has ever
    committed (`allocLog` pairs it with the value `max_tx_size()` had when `sendOne` computed the size of
    its buffer; `maxTx` is read anew in every loop iteration) is not larger than that value. -/
theorem fragments_le_max_tx (c : Cfg) (maxTx : Nat) (ops : List Op) (hcap : c.cap < 65536)
    (hmax : c.llOverhead < maxTx) (hok : ∀ op ∈ ops, OpOk c op) :
    ∀ x ∈ (run (S.init c maxTx) ops).1.tx.allocLog, x.1.length ≤ x.2 :=
  (run_txInv (c := c) hcap ops hok (s := S.init c maxTx)
    ⟨rfl, txInv_init c maxTx hmax, by intro x hx; simp [S.init, Tx.init] at hx⟩).log

/-- non-vacuity, the scenario of the missed mutation: MTU 65, `max_tx_size()` 33, one buffer: the
    start fragment (33 bytes) goes out, the SDU stalls; the maximum shrinks to 29; three buffers later
    the continuations are 29 and 4 bytes, allocated against 29 — not against the 33 of the start. -/
example :
    let f : Bytes := [56, 0, 4, 0] ++ List.replicate 56 7
    let t := (run (S.init ⟨65, 0⟩ 33) [.bufs 1, .send f, .pump 27, .maxTx 29, .bufs 3, .pump 27]).1.tx
    t.allocLog.map (fun x => (x.1.length, x.2)) = [(33, 33), (29, 29), (4, 29)] ∧ t.size = 0 := by
  set_option maxRecDepth 8000 in decide

/-- the same per loop iteration: whenever `try_send_pdus` builds a PDU (the SDU is not yet sent
    completely and the radio has a buffer) the PDU is not larger than the radio's `max_tx_size()` of
    that moment, carries at least one payload byte, and its LL length field is its payload length. -/
theorem fragment_le_max_tx_step (c : Cfg) (t : Tx) (h : TxInv c t) (hs : t.size ≠ 0) :
    ∃ pdu copy, sendOne c t = some (pdu, copy) ∧ pdu.length ≤ t.maxTx ∧ c.llOverhead < pdu.length ∧
      pdu[1]? = some (UInt8.ofNat ((pdu.length - c.llOverhead) % 256)) := by
  obtain ⟨pdu, copy, h1, _, _, h2, h3, h4, _⟩ := sendOne_spec h hs
  exact ⟨pdu, copy, h1, h2, h3, h4⟩

/-- non-vacuity of `TxInv` with an SDU in flight -/
example : ∃ t : Tx, TxInv ⟨65, 0⟩ t ∧ t.size ≠ 0 :=
  ⟨(run (S.init ⟨65, 0⟩ 29) [.bufs 1, .send ([36, 0, 4, 0] ++ List.replicate 36 7)]).1.tx,
   (run_txInv (c := ⟨65, 0⟩) (by decide) _
      (by intro op hop
          simp only [List.mem_cons, List.not_mem_nil, or_false] at hop
          rcases hop with rfl | rfl
          · exact trivial
          · exact ⟨36, rfl, by decide, by decide⟩)
      ⟨rfl, txInv_init _ _ (by decide), by intro x hx; simp [S.init, Tx.init] at hx⟩).tx, by decide⟩

/-- memory safety of the transmit side: under the callers' contract the model never reads behind
    `transmit_buffer_` and never trips the layout's size assertion, `transmit_buffer_used_ +
    transmit_size_` stays within the buffer. -/
theorem transmit_in_bounds (c : Cfg) (maxTx : Nat) (ops : List Op) (hcap : c.cap < 65536)
    (hmax : c.llOverhead < maxTx) (hok : ∀ op ∈ ops, OpOk c op) :
    let t := (run (S.init c maxTx) ops).1.tx
    t.fault = false ∧ t.buf.length = c.cap ∧ t.used + t.size ≤ c.cap := by
  have h := (run_txInv (c := c) hcap ops hok (s := S.init c maxTx) ⟨rfl, txInv_init c maxTx hmax, by intro x hx; simp [S.init, Tx.init] at hx⟩).tx
  refine ⟨h.noFault, h.len, ?_⟩
  rcases h.st with ⟨a, b, _⟩ | ⟨a, _, b, _⟩ | ⟨_, b, _⟩ <;> omega

end BluetoeModel.L2capSdu
