import BluetoeModel.L2capSdu.Model
/-!
  The receive side of `ll_l2cap_sdu_buffer` as it is in the repository *before*
  fixes/l2capsdu-01-reassembly-overflow.patch and fixes/l2capsdu-02-free-during-reassembly.patch,
  and concrete witnesses that the full-strength statements of C19 are false of that code.
  The same inputs are replayed on the real code by corpus/C19/*.ops.
-/
namespace BluetoeModel.L2capSdu.Orig
open BluetoeModel.L2capSdu

-- src: add_to_receive_buffer (original: copies `end - begin` bytes, accounts `min`)
def addToReceiveBuffer (r : Rx) (d : Bytes) : Rx :=
  let copy := min r.size d.length
  match writeAt? r.buf r.used d with
  | some b => { r with buf := b, used := r.used + copy, size := r.size - copy }
  | none => { r with oob := true }

-- src: next_ll_l2cap_received (original loop body: a start fragment does not restart)
def rxData (c : Cfg) (r : Rx) (p : Bytes) : Rx × Bool :=
  if pduType p = 2 then
    match l2capLen? (body c p) with
    | some len =>
        if len + 4 = (body c p).length then (r, true)
        else if len ≤ c.mtu then
          (addToReceiveBuffer { r with size := (len + c.overall) % 65536 } p, false)
        else (r, false)
    | none => (r, false)
  else
    (addToReceiveBuffer r (body c p), false)

def rxLoop (c : Cfg) : List Bytes → Rx → Rx × Got
  | [], r => ({ r with rxq := [] }, .none)
  | p :: q, r =>
      if r.oob then ({ r with rxq := p :: q }, .none)
      else if pduType p = 3 then ({ r with rxq := p :: q }, .pdu p)
      else
        let (r', handOut) := rxData c r p
        if handOut then ({ r' with rxq := p :: q }, .pdu p)
        else if r'.complete then ({ r' with rxq := q }, .sdu (r'.buf.take r'.used))
        else rxLoop c q r'

def nextReceived (c : Cfg) (r : Rx) : Rx × Got :=
  if r.complete then (r, .sdu (r.buf.take r.used)) else rxLoop c r.rxq r

-- src: free_ll_l2cap_received (original: `if ( receive_buffer_used_ )`)
def freeReceived (r : Rx) : Rx :=
  if r.used ≠ 0 then { r with used := 0, size := 0 }
  else { r with rxq := r.rxq.drop 1 }

def cfg : Cfg := ⟨24, 0⟩
/-- start fragment announcing 24 bytes, carrying 6 of them -/
def start24 : Bytes := [2, 10, 24, 0, 4, 0, 1, 2, 3, 4, 5, 6]

/-- MTU 24 (buffer of 30 bytes): a start fragment announcing 24 bytes followed by a 27 byte
    continuation writes 9 bytes behind `receive_buffer_` (12 + 27 > 30). -/
theorem reassembly_overflow_witness :
    (nextReceived cfg { Rx.init cfg with rxq := [start24, [1, 27] ++ List.replicate 27 7] }).1.oob = true := by
  decide

/-- a continuation without any start fragment that is larger than the whole buffer -/
theorem continuation_without_start_overflow_witness :
    (nextReceived cfg { Rx.init cfg with rxq := [[1, 31] ++ List.replicate 31 7] }).1.oob = true := by
  decide

/-- a second start fragment is appended behind the first one instead of restarting: after two start
    fragments of 12 bytes, 24 bytes of the buffer are used and a third one overflows it -/
theorem second_start_appends_witness :
    (nextReceived cfg { Rx.init cfg with rxq := [start24, start24] }).1.used = 24 ∧
    (nextReceived cfg { Rx.init cfg with rxq := [start24, start24, start24] }).1.oob = true := by
  decide

/-- an LL control PDU between two fragments is handed out twice (free resets the reassembly instead
    of freeing the PDU) and the SDU is lost -/
theorem ll_pdu_handed_out_twice_witness :
    let r0 : Rx := { Rx.init cfg with rxq := [start24, [3, 2, 9, 9], [1, 18] ++ List.replicate 18 5] }
    let (r1, g1) := nextReceived cfg r0
    let (r2, g2) := nextReceived cfg (freeReceived r1)
    let (_, g3) := nextReceived cfg (freeReceived r2)
    g1 = .pdu [3, 2, 9, 9] ∧ g2 = .pdu [3, 2, 9, 9] ∧ g3 = .none := by
  decide

end BluetoeModel.L2capSdu.Orig
