/-
  Model of `ll_l2cap_sdu_buffer< BufferedRadio, ReceiveCallbacks, MTUSize >` (MTUSize > 23):
  fragmentation of outgoing L2CAP SDUs into LL data PDUs and reassembly of incoming ones.
  src: bluetoe/link_layer/include/bluetoe/ll_l2cap_sdu_buffer.hpp
  (with the fixes fixes/l2capsdu-01-reassembly-overflow.patch and
   fixes/l2capsdu-02-free-during-reassembly.patch applied; the code before the fixes is
   modelled in Orig.lean for the witness theorems)

  The buffered radio below the SDU buffer is the mock of harness/l2capsdu.cpp: a FIFO of
  received LL PDUs, a counter of free transmit buffers, a settable `max_tx_size()` and a log of
  committed PDUs.  A PDU is the byte string `pdu.buffer[0 .. pdu.size)`: 2 header bytes,
  `ovh` layout bytes, body (layout = tests/test_tools/test_layout.hpp `layout_with_overhead`).
-/
namespace BluetoeModel.L2capSdu

abbrev Bytes := List UInt8

structure Cfg where
  mtu : Nat          -- MTUSize
  ovh : Nat          -- BufferedRadio::layout_overhead
deriving Repr, DecidableEq

/-- `ll_overhead = header_size + layout_overhead` -/
def Cfg.llOverhead (c : Cfg) : Nat := 2 + c.ovh
/-- `overall_overhead = header_size + layout_overhead + l2cap_header_size` -/
def Cfg.overall (c : Cfg) : Nat := c.llOverhead + 4
/-- `sizeof receive_buffer_ = sizeof transmit_buffer_ = MTUSize + overall_overhead` -/
def Cfg.cap (c : Cfg) : Nat := c.mtu + c.overall

/-- `std::copy( d.begin(), d.end(), &buf[ pos ] )`; `none` when the copy would leave the array -/
def writeAt? (buf : Bytes) (pos : Nat) (d : Bytes) : Option Bytes :=
  if pos + d.length ≤ buf.length then some (buf.take pos ++ d ++ buf.drop (pos + d.length)) else none

/-- `layout::header( pdu ) & pdu_type_mask` -/
def pduType : Bytes → Nat
  | b :: _ => b.toNat % 4
  | [] => 0

/-- `layout::body( pdu )` -/
def body (c : Cfg) (p : Bytes) : Bytes := p.drop c.llOverhead

/-- `read_16bit( body.first )` guarded by `body_size >= l2cap_header_size` -/
def l2capLen? : Bytes → Option Nat
  | b0 :: b1 :: _ :: _ :: _ => some (b0.toNat + 256 * b1.toNat)
  | _ => none

/-! ### receive side -/

structure Rx where
  buf  : Bytes          -- receive_buffer_
  size : Nat            -- receive_size_  (std::uint16_t)
  used : Nat            -- receive_buffer_used_
  oob  : Bool           -- a write left receive_buffer_ (undefined behaviour in the C++)
  rxq  : List Bytes     -- the radio's FIFO of received PDUs (next_received / free_received)
  log  : List Bytes     -- ghost: every data PDU (LLID ≠ 3) looked at by the reassembly, in order
deriving Repr, DecidableEq

def Rx.init (c : Cfg) : Rx :=
  { buf := List.replicate c.cap 0, size := 0, used := 0, oob := false, rxq := [], log := [] }

-- src: add_to_receive_buffer  (fixed: drops the SDU when the fragment exceeds the outstanding size)
def addToReceiveBuffer (r : Rx) (d : Bytes) : Rx :=
  if r.size < d.length then { r with used := 0, size := 0 }
  else match writeAt? r.buf r.used d with
    | some b => { r with buf := b, used := r.used + d.length, size := r.size - d.length }
    | none => { r with oob := true }

/-- `receive_buffer_used_ != 0 && receive_size_ == 0`: a completely reassembled SDU is waiting -/
def Rx.complete (r : Rx) : Bool := r.used != 0 && r.size == 0

/-- what the body of the `for` loop of `next_ll_l2cap_received` does with one data PDU;
    `true` = `return pdu` (unfragmented SDU, handed out of the radio's buffer, not freed) -/
-- src: next_ll_l2cap_received (loop body, LLID ≠ 3)
def rxData (c : Cfg) (r : Rx) (p : Bytes) : Rx × Bool :=
  let r := { r with log := r.log ++ [p] }
  if pduType p = 2 then
    -- fixed: a start fragment ends the reassembly of a previous, incomplete SDU
    let r := { r with used := 0, size := 0 }
    match l2capLen? (body c p) with
    | some len =>
        if len + 4 = (body c p).length then (r, true)
        else if len ≤ c.mtu then
          (addToReceiveBuffer { r with size := (len + c.overall) % 65536 } p, false)
        else (r, false)
    | none => (r, false)
  else
    (addToReceiveBuffer r (body c p), false)

inductive Got where
  | none
  | pdu (p : Bytes)     -- a PDU of the radio (LL control PDU or unfragmented SDU)
  | sdu (s : Bytes)     -- `{ receive_buffer_, receive_buffer_used_ }`
deriving Repr, DecidableEq

/-- the `for ( pdu = next_received(); pdu.size; … )` loop; second component: number of calls of
    `pdu_receive_data_callback` -/
-- src: next_ll_l2cap_received (loop)
def rxLoop (c : Cfg) : List Bytes → Rx → Nat → Rx × Nat × Got
  | [], r, cb => ({ r with rxq := [] }, cb, .none)
  | p :: q, r, cb =>
      if r.oob then ({ r with rxq := p :: q }, cb, .none)
      else if pduType p = 3 then ({ r with rxq := p :: q }, cb, .pdu p)
      else
        let (r', handOut) := rxData c r p
        if handOut then ({ r' with rxq := p :: q }, cb + 1, .pdu p)
        else if r'.complete then ({ r' with rxq := q }, cb + 1, .sdu (r'.buf.take r'.used))
        else rxLoop c q r' (cb + 1)

-- src: next_ll_l2cap_received (without the leading try_send_pdus)
def nextReceived (c : Cfg) (r : Rx) : Rx × Nat × Got :=
  if r.complete then (r, 0, .sdu (r.buf.take r.used))
  else rxLoop c r.rxq r 0

-- src: free_ll_l2cap_received (fixed: only a complete SDU lives in receive_buffer_);
-- `true` = the radio's `free_received()` was called without a PDU (mock: underflow)
def freeReceived (r : Rx) : Rx × Bool :=
  if r.complete then ({ r with used := 0, size := 0 }, false)
  else match r.rxq with
    | [] => (r, true)
    | _ :: q => ({ r with rxq := q }, false)

/-! ### transmit side -/

structure Tx where
  buf    : Bytes        -- transmit_buffer_
  size   : Nat          -- transmit_size_ (std::uint16_t)
  used   : Nat          -- transmit_buffer_used_
  fault  : Bool         -- read behind transmit_buffer_ / layout assertion (undefined behaviour)
  freeTx : Nat          -- radio: free LL transmit buffers
  maxTx  : Nat          -- radio: max_tx_size()
  sent   : List Bytes   -- radio: log of committed PDUs
  frags  : List Bytes   -- ghost: the PDUs try_send_pdus committed for the SDU handed over last
  sdu    : Bytes        -- ghost: that SDU (the L2CAP frame in transmit_buffer_, as far as its length field says)
  allocLog : List (Bytes × Nat)  -- ghost: every PDU try_send_pdus committed, with the radio's max_tx_size()
                                 --        at the moment its buffer was allocated
deriving Repr, DecidableEq

def Tx.init (c : Cfg) (maxTx : Nat) : Tx :=
  { buf := List.replicate c.cap 0, size := 0, used := 0, fault := false, freeTx := 0, maxTx := maxTx,
    sent := [], frags := [], sdu := [], allocLog := [] }

/-- fresh transmit buffers of the mock radio are filled with 0xEE -/
def fresh (n : Nat) : Bytes := List.replicate n 0xEE

/-- one iteration of the `while ( transmit_size_ )` loop with a buffer available:
    the PDU handed to `commit_transmit_buffer` and the number of bytes taken from
    `transmit_buffer_`; `none` = undefined behaviour (assertion of the layout, read behind the array) -/
-- src: try_send_pdus (loop body)
def sendOne (c : Cfg) (t : Tx) : Option (Bytes × Nat) :=
  let first := t.used = 0
  let want := min (t.size + (if first then 0 else c.llOverhead)) t.maxTx
  if want < c.llOverhead then none                 -- layout::header( buffer, … ) asserts the size
  else if first then
    let copy := min want t.size
    if t.buf.length < copy then none
    else
      -- copy transmit_buffer_[0, copy), then overwrite the LL header
      let raw := t.buf.take copy ++ fresh (want - copy)
      some ([2, UInt8.ofNat ((copy - c.llOverhead) % 256)] ++ raw.drop 2, copy)
  else
    let copy := min (want - c.llOverhead) t.size
    if t.buf.length < t.used + copy then none
    else
      some ([1, UInt8.ofNat (copy % 256)] ++ fresh c.ovh ++ (t.buf.drop t.used).take copy
              ++ fresh (want - c.llOverhead - copy), copy)

/-- every iteration either returns or consumes one free transmit buffer of the radio, so the
    number of free buffers is the recursion measure -/
-- src: try_send_pdus
def trySendLoop (c : Cfg) : Nat → Tx → Tx
  | 0, t => if t.size = 0 then { t with used := 0 } else t    -- allocate_transmit_buffer: empty
  | n + 1, t =>
      if t.size = 0 then { t with used := 0 }
      else match sendOne c t with
        | none => { t with fault := true }
        | some (pdu, copy) =>
            trySendLoop c n { t with freeTx := n, sent := t.sent ++ [pdu], frags := t.frags ++ [pdu],
                                     allocLog := t.allocLog ++ [(pdu, t.maxTx)],
                                     size := t.size - copy, used := t.used + copy }

def trySend (c : Cfg) (t : Tx) : Tx := if t.fault then t else trySendLoop c t.freeTx t

/-- `allocate_l2cap_transmit_buffer( frame.size - 4 )`, fill (the harness writes 0xCC into the LL
    header / layout bytes and the L2CAP frame behind them), `commit_l2cap_transmit_buffer`;
    `false` = no buffer (an SDU is still being sent) -/
-- src: allocate_l2cap_transmit_buffer, commit_l2cap_transmit_buffer
def sendSdu (c : Cfg) (t : Tx) (frame : Bytes) : Tx × Bool :=
  if t.used ≠ 0 ∨ t.size ≠ 0 then (t, false)
  else match l2capLen? frame, writeAt? t.buf 0 (List.replicate c.llOverhead 0xCC ++ frame) with
    | some len, some b =>
        (trySend c { t with buf := b, used := 0, size := (len + c.overall) % 65536,
                            frags := [], sdu := (b.drop c.llOverhead).take (len + 4) }, true)
    | _, _ => ({ t with fault := true }, true)

-- src: allocate_ll_transmit_buffer (returns the size of the buffer obtained)
def allocateLl (c : Cfg) (t : Tx) (payload : Nat) : Tx × Nat :=
  let t := trySend c t
  (t, if t.freeTx = 0 then 0 else payload + c.llOverhead)

-- src: allocate_ll_transmit_buffer + commit_ll_transmit_buffer
def sendLl (c : Cfg) (t : Tx) (pdu : Bytes) : Tx × Bool :=
  let t := trySend c t
  match t.freeTx with
  | 0 => (t, false)
  | n + 1 => ({ t with freeTx := n, sent := t.sent ++ [pdu] }, true)

/-! ### the whole buffer: operations of the line protocol -/

structure S where
  cfg : Cfg
  rx  : Rx
  tx  : Tx
deriving Repr, DecidableEq

def S.init (c : Cfg) (maxTx : Nat) : S := { cfg := c, rx := Rx.init c, tx := Tx.init c maxTx }

inductive Op where
  | rx (p : Bytes) | next | free
  | maxTx (n : Nat) | bufs (n : Nat) | send (frame : Bytes) | pump (n : Nat) | llsend (p : Bytes)
deriving Repr, DecidableEq

inductive Out where
  | ok
  | next (g : Got) (cb : Nat)
  | free (underflow : Bool)
  | send (accepted : Bool)
  | pump (got : Nat)
deriving Repr, DecidableEq

def step (s : S) : Op → S × Out
  | .rx p => ({ s with rx := { s.rx with rxq := s.rx.rxq ++ [p] } }, .ok)
  | .next =>
      let t := trySend s.cfg s.tx                       -- next_ll_l2cap_received starts with try_send_pdus
      let (r, cb, g) := nextReceived s.cfg s.rx
      ({ s with rx := r, tx := t }, .next g cb)
  | .free => let (r, u) := freeReceived s.rx; ({ s with rx := r }, .free u)
  | .maxTx n => ({ s with tx := { s.tx with maxTx := n } }, .ok)
  | .bufs n => ({ s with tx := { s.tx with freeTx := s.tx.freeTx + n } }, .ok)
  | .send f => let (t, a) := sendSdu s.cfg s.tx f; ({ s with tx := t }, .send a)
  | .pump n => let (t, g) := allocateLl s.cfg s.tx n; ({ s with tx := t }, .pump g)
  | .llsend p => let (t, a) := sendLl s.cfg s.tx p; ({ s with tx := t }, .send a)

def run (s : S) : List Op → S × List Out
  | [] => (s, [])
  | op :: ops =>
      let (s', o) := step s op
      let (s'', os) := run s' ops
      (s'', o :: os)

end BluetoeModel.L2capSdu
