import BluetoeModel.L2capSdu.Lemmas
import BluetoeModel.L2capSdu.TxLemmas
/-! Invariants lifted to whole histories of operations. -/
namespace BluetoeModel.L2capSdu

/-- what the callers guarantee: the L2CAP layer writes a length field ≤ MTUSize into a buffer it got
    from `allocate_l2cap_transmit_buffer( ≤ MTUSize )`; `max_tx_size()` leaves room for a payload -/
def OpOk (c : Cfg) : Op → Prop
  | .send f => ∃ len, l2capLen? f = some len ∧ len ≤ c.mtu ∧ f.length ≤ c.mtu + 4
  | .maxTx n => c.llOverhead < n
  | _ => True

theorem trySendLoop_sdu (c : Cfg) : ∀ (n : Nat) (t : Tx), (trySendLoop c n t).sdu = t.sdu := by
  intro n
  induction n with
  | zero => intro t; unfold trySendLoop; split <;> rfl
  | succ n ih =>
    intro t
    unfold trySendLoop
    split
    · rfl
    · split
      · rfl
      · rw [ih]

theorem trySend_sdu (c : Cfg) (t : Tx) : (trySend c t).sdu = t.sdu := by
  unfold trySend; split
  · rfl
  · exact trySendLoop_sdu c _ t

theorem sendSdu_inv {c : Cfg} {t : Tx} {f : Bytes} (hcap : c.cap < 65536) (h : TxInv c t)
    (hok : OpOk c (.send f)) : TxInv c (sendSdu c t f).1 ∧ (LogOk t → LogOk (sendSdu c t f).1) := by
  obtain ⟨len, hlen, hm, hfl⟩ := hok
  unfold sendSdu
  split
  · exact ⟨h, id⟩
  · next hidle =>
    have hw := writeAt?_some (buf := t.buf) (pos := 0) (d := List.replicate c.llOverhead 0xCC ++ f)
      (by have := h.len; simp only [Cfg.cap, Cfg.overall] at this ⊢; simp; omega)
    have hbl := writeAt?_length hw
    generalize List.take 0 t.buf ++ (List.replicate c.llOverhead 0xCC ++ f) ++
      List.drop (0 + (List.replicate c.llOverhead (0xCC : UInt8) ++ f).length) t.buf = b at hw hbl
    rw [hlen, hw]
    simp only
    have hmod : (len + c.overall) % 65536 = len + c.overall := by
      apply Nat.mod_eq_of_lt; simp only [Cfg.cap] at hcap; omega
    have key : TxInv c { t with buf := b, used := 0, size := (len + c.overall) % 65536, frags := [],
                                sdu := (b.drop c.llOverhead).take (len + 4) } := by
      refine ⟨?_, h.noFault, h.maxTx, by simp [Shape], Or.inr (Or.inl ⟨rfl, ?_, ?_, rfl, ?_⟩)⟩
      · simpa [h.len] using hbl
      · simp only [hmod]; omega
      · simp only [hmod, Cfg.cap]; omega
      · simp only [hmod, List.drop_take]
        congr 1
        simp only [Cfg.overall]; omega
    exact ⟨(trySend_inv key).1, fun hl => trySend_log key hl⟩

/-- a well formed frame handed to an idle buffer is the SDU the ghost field records -/
theorem sendSdu_records_frame {c : Cfg} {t : Tx} {f : Bytes} {len : Nat} (h : TxInv c t)
    (hlen : l2capLen? f = some len) (hwf : len + 4 = f.length) (hm : len ≤ c.mtu)
    (hidle : t.used = 0 ∧ t.size = 0) : (sendSdu c t f).1.sdu = f ∧ (sendSdu c t f).2 = true := by
  unfold sendSdu
  rw [if_neg (by omega)]
  have hw := writeAt?_some (buf := t.buf) (pos := 0) (d := List.replicate c.llOverhead 0xCC ++ f)
    (by have := h.len; simp only [Cfg.cap, Cfg.overall] at this ⊢; simp; omega)
  rw [hlen, hw]
  simp only [trySend_sdu, and_true]
  have : (List.replicate c.llOverhead (0xCC : UInt8)).length = c.llOverhead := by simp
  simp only [List.take_zero, List.nil_append, List.append_assoc]
  rw [List.drop_left' this, hwf]
  simp

structure RxInv (c : Cfg) (s : S) : Prop where
  cfg : s.cfg = c
  rxb : RxBound c s.rx

structure RxInvE (c : Cfg) (s : S) : Prop where
  cfg : s.cfg = c
  rxb : RxBound c s.rx
  rxe : RxExact c s.rx

theorem step_rxInv {c : Cfg} {s : S} (op : Op) (h : RxInv c s) : RxInv c (step s op).1 := by
  obtain ⟨hc, hb⟩ := h
  cases op <;> simp only [step]
  · exact ⟨hc, rxBound_rxq _ hb⟩
  · exact ⟨hc, by rw [hc]; exact nextReceived_bound hb⟩
  · exact ⟨hc, freeReceived_bound hb⟩
  all_goals exact ⟨hc, hb⟩

theorem step_rxInvE {c : Cfg} {s : S} (hcap : c.cap < 65536) (op : Op) (h : RxInvE c s) : RxInvE c (step s op).1 := by
  obtain ⟨hc, hb, he⟩ := h
  cases op <;> simp only [step]
  · exact ⟨hc, rxBound_rxq _ hb, rxExact_rxq _ he⟩
  · exact ⟨hc, by rw [hc]; exact nextReceived_bound hb, by rw [hc]; exact nextReceived_exact hcap hb he⟩
  · exact ⟨hc, freeReceived_bound hb, freeReceived_exact he⟩
  all_goals exact ⟨hc, hb, he⟩

theorem run_fst_cons (s : S) (op : Op) (ops : List Op) : (run s (op :: ops)).1 = (run (step s op).1 ops).1 := by
  simp [run]

theorem run_rxInv {c : Cfg} (ops : List Op) : ∀ {s : S}, RxInv c s → RxInv c (run s ops).1 := by
  induction ops with
  | nil => intro s h; exact h
  | cons op ops ih => intro s h; rw [run_fst_cons]; exact ih (step_rxInv op h)

theorem run_rxInvE {c : Cfg} (hcap : c.cap < 65536) (ops : List Op) :
    ∀ {s : S}, RxInvE c s → RxInvE c (run s ops).1 := by
  induction ops with
  | nil => intro s h; exact h
  | cons op ops ih => intro s h; rw [run_fst_cons]; exact ih (step_rxInvE hcap op h)

structure TxInvS (c : Cfg) (s : S) : Prop where
  cfg : s.cfg = c
  tx : TxInv c s.tx
  log : LogOk s.tx

theorem txInv_frame {c : Cfg} {t : Tx} (h : TxInv c t) (n : Nat) (l : List Bytes) :
    TxInv c { t with freeTx := n, sent := l } := ⟨h.len, h.noFault, h.maxTx, h.shape, h.st⟩

theorem step_txInv {c : Cfg} {s : S} (hcap : c.cap < 65536) (op : Op) (hok : OpOk c op) (h : TxInvS c s) :
    TxInvS c (step s op).1 := by
  obtain ⟨hc, ht, hl⟩ := h
  cases op <;> simp only [step]
  · exact ⟨hc, ht, hl⟩
  · exact ⟨hc, by rw [hc]; exact (trySend_inv ht).1, by rw [hc]; exact trySend_log ht hl⟩
  · exact ⟨hc, ht, hl⟩
  · exact ⟨hc, ⟨ht.len, ht.noFault, hok, ht.shape, ht.st⟩, hl⟩
  · exact ⟨hc, txInv_frame ht _ _, hl⟩
  · exact ⟨hc, by rw [hc]; exact (sendSdu_inv hcap ht hok).1, by rw [hc]; exact (sendSdu_inv hcap ht hok).2 hl⟩
  · exact ⟨hc, by rw [hc]; simp only [allocateLl]; exact (trySend_inv ht).1,
           by rw [hc]; simp only [allocateLl]; exact trySend_log ht hl⟩
  · refine ⟨hc, ?_, ?_⟩
    · rw [hc]
      simp only [sendLl]
      have := (trySend_inv (c := c) ht).1
      split
      · exact this
      · exact txInv_frame this _ _
    · rw [hc]
      simp only [sendLl]
      have := trySend_log (c := c) ht hl
      split
      · exact this
      · exact this

theorem run_txInv {c : Cfg} (hcap : c.cap < 65536) (ops : List Op) (hok : ∀ op ∈ ops, OpOk c op) :
    ∀ {s : S}, TxInvS c s → TxInvS c (run s ops).1 := by
  induction ops with
  | nil => intro s h; exact h
  | cons op ops ih =>
    intro s h
    rw [run_fst_cons]
    exact ih (fun o ho => hok o (List.mem_cons_of_mem _ ho)) (step_txInv hcap op (hok op List.mem_cons_self) h)

end BluetoeModel.L2capSdu
