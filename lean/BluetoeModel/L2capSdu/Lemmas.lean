import BluetoeModel.L2capSdu.Model
/-! Invariants of the receive side (reassembly). -/
namespace BluetoeModel.L2capSdu

/-- the spec-level view of the consumed PDU stream: the most recent start fragment and the bodies
    of all continuations seen since -/
def trainStep (c : Cfg) (cur : Option (Bytes × List Bytes)) (p : Bytes) : Option (Bytes × List Bytes) :=
  if pduType p = 2 then some (p, []) else cur.map (fun x => (x.1, x.2 ++ [body c p]))

def lastTrain (c : Cfg) (log : List Bytes) : Option (Bytes × List Bytes) := log.foldl (trainStep c) none

theorem lastTrain_append (c : Cfg) (log : List Bytes) (p : Bytes) :
    lastTrain c (log ++ [p]) = trainStep c (lastTrain c log) p := by
  simp [lastTrain, List.foldl_append]

theorem writeAt?_some {buf d : Bytes} {pos : Nat} (h : pos + d.length ≤ buf.length) :
    writeAt? buf pos d = some (buf.take pos ++ d ++ buf.drop (pos + d.length)) := by
  simp [writeAt?, h]

theorem writeAt?_length {buf d b : Bytes} {pos : Nat} (h : writeAt? buf pos d = some b) :
    b.length = buf.length := by
  unfold writeAt? at h
  split at h
  · cases h; simp; omega
  · cases h

theorem writeAt?_take {buf d b : Bytes} {pos : Nat} (h : writeAt? buf pos d = some b) :
    b.take (pos + d.length) = buf.take pos ++ d := by
  unfold writeAt? at h
  split at h
  · next hle =>
    cases h
    have h1 : (buf.take pos ++ d).length = pos + d.length := by simp; omega
    rw [List.append_assoc, ← List.append_assoc, ← h1, List.take_left']
    rfl
  · cases h

theorem l2capLen?_length {b : Bytes} {n : Nat} (h : l2capLen? b = some n) : 4 ≤ b.length := by
  match b, h with
  | _ :: _ :: _ :: _ :: _, _ => simp

theorem l2capLen?_lt {b : Bytes} {n : Nat} (h : l2capLen? b = some n) : n < 65536 := by
  match b, h with
  | b0 :: b1 :: _ :: _ :: _, h =>
    simp [l2capLen?] at h
    have := b0.toNat_lt; have := b1.toNat_lt
    omega

theorem body_length (c : Cfg) (p : Bytes) : (body c p).length = p.length - c.llOverhead := by
  simp [body]

/-- memory safety invariant (no hypothesis on the configuration) -/
structure RxBound (c : Cfg) (r : Rx) : Prop where
  len : r.buf.length = c.cap
  noOob : r.oob = false
  bound : r.used + r.size ≤ c.cap

/-- exactness invariant -/
structure RxExact (c : Cfg) (r : Rx) : Prop where
  zero : r.used = 0 → r.size = 0
  train : r.used ≠ 0 → ∃ p cs n, lastTrain c r.log = some (p, cs) ∧ pduType p = 2 ∧
      l2capLen? (body c p) = some n ∧ n ≤ c.mtu ∧ r.buf.take r.used = p ++ cs.flatten ∧
      r.used + r.size = n + c.overall

theorem rxBound_init (c : Cfg) : RxBound c (Rx.init c) := by
  constructor <;> simp [Rx.init]

theorem rxExact_init (c : Cfg) : RxExact c (Rx.init c) := by
  constructor <;> simp [Rx.init]

theorem add_bound {c : Cfg} {r : Rx} (d : Bytes) (h : RxBound c r) : RxBound c (addToReceiveBuffer r d) := by
  obtain ⟨hl, ho, hb⟩ := h
  unfold addToReceiveBuffer
  split
  · constructor <;> simp [*]
  · next hs =>
    have hw := writeAt?_some (buf := r.buf) (pos := r.used) (d := d) (by omega)
    rw [hw]
    constructor
    · simp; omega
    · simpa using ho
    · simp; omega

theorem add_log (r : Rx) (d : Bytes) : (addToReceiveBuffer r d).log = r.log := by
  unfold addToReceiveBuffer
  split
  · rfl
  · split <;> rfl

theorem add_rxq (r : Rx) (d : Bytes) : (addToReceiveBuffer r d).rxq = r.rxq := by
  unfold addToReceiveBuffer
  split
  · rfl
  · split <;> rfl

theorem rxData_bound {c : Cfg} {r : Rx} (p : Bytes) (h : RxBound c r) : RxBound c (rxData c r p).1 := by
  obtain ⟨hl, ho, hb⟩ := h
  unfold rxData
  simp only
  split
  · split
    · next len hlen =>
      split
      · constructor <;> simp [*]
      · split
        · next hm =>
          apply add_bound
          constructor
          · simpa using hl
          · simpa using ho
          · simp only [Nat.zero_add]
            have : (len + c.overall) % 65536 ≤ len + c.overall := Nat.mod_le _ _
            simp only [Cfg.cap]; omega
        · constructor <;> simp [*]
    · constructor <;> simp [*]
  · apply add_bound
    constructor <;> simp [*]

theorem rxData_rxq (c : Cfg) (r : Rx) (p : Bytes) : (rxData c r p).1.rxq = r.rxq := by
  unfold rxData
  simp only
  split
  · split
    · split
      · rfl
      · split
        · rw [add_rxq]
        · rfl
    · rfl
  · rw [add_rxq]

/-- continuation fragment: exactness is preserved -/
theorem add_exact_cont {c : Cfg} {r : Rx} (p : Bytes) (ht : pduType p ≠ 2)
    (hb : RxBound c r) (he : RxExact c r) :
    RxExact c (addToReceiveBuffer { r with log := r.log ++ [p] } (body c p)) := by
  obtain ⟨hl, ho, hbd⟩ := hb
  obtain ⟨hz, htr⟩ := he
  unfold addToReceiveBuffer
  simp only
  split
  · constructor <;> simp
  · next hs =>
    have hw := writeAt?_some (buf := r.buf) (pos := r.used) (d := body c p) (by omega)
    rw [hw]
    have hw' := writeAt?_take hw
    constructor
    · simp only
      intro h0
      have : r.used = 0 := by omega
      have := hz this
      omega
    · simp only
      intro hne
      by_cases hu : r.used = 0
      · have := hz hu
        omega
      · obtain ⟨q, cs, n, h1, h2, h3, h4, h5, h6⟩ := htr hu
        refine ⟨q, cs ++ [body c p], n, ?_, h2, h3, h4, ?_, ?_⟩
        · rw [lastTrain_append, h1]; simp [trainStep, ht]
        · rw [hw', h5]; simp
        · omega

/-- start fragment: exactness is established -/
theorem add_exact_start {c : Cfg} {r : Rx} (p : Bytes) (n : Nat) (ht : pduType p = 2)
    (hlen : l2capLen? (body c p) = some n) (hm : n ≤ c.mtu) (hcap : c.cap < 65536)
    (hl : r.buf.length = c.cap) :
    RxExact c (addToReceiveBuffer { r with log := r.log ++ [p], used := 0, size := (n + c.overall) % 65536 } p) := by
  have hmod : (n + c.overall) % 65536 = n + c.overall := by
    apply Nat.mod_eq_of_lt; simp only [Cfg.cap] at hcap; omega
  have hp : 4 ≤ (body c p).length := l2capLen?_length hlen
  rw [body_length] at hp
  unfold addToReceiveBuffer
  simp only [hmod]
  split
  · constructor <;> simp
  · next hs =>
    have hw := writeAt?_some (buf := r.buf) (pos := 0) (d := p) (by simp only [Cfg.cap] at hl; omega)
    rw [hw]
    have hw' := writeAt?_take hw
    constructor
    · simp only; intro h0; omega
    · simp only
      intro _
      refine ⟨p, [], n, ?_, ht, hlen, hm, ?_, ?_⟩
      · rw [lastTrain_append]; simp [trainStep, ht]
      · simpa using hw'
      · omega

theorem rxData_exact {c : Cfg} {r : Rx} (p : Bytes) (hcap : c.cap < 65536)
    (hb : RxBound c r) (he : RxExact c r) : RxExact c (rxData c r p).1 := by
  unfold rxData
  simp only
  split
  · next ht =>
    split
    · next len hlen =>
      split
      · constructor <;> simp
      · split
        · next hm => exact add_exact_start p len ht hlen hm hcap hb.len
        · constructor <;> simp
    · constructor <;> simp
  · next ht => exact add_exact_cont p ht hb he

/-- a state with the queue replaced -/
theorem rxBound_rxq {c : Cfg} {r : Rx} (q : List Bytes) (h : RxBound c r) : RxBound c { r with rxq := q } :=
  ⟨h.len, h.noOob, h.bound⟩

theorem rxExact_rxq {c : Cfg} {r : Rx} (q : List Bytes) (h : RxExact c r) : RxExact c { r with rxq := q } :=
  ⟨h.zero, h.train⟩

theorem rxLoop_inv (c : Cfg) (hcap : c.cap < 65536) (q : List Bytes) : ∀ (r : Rx) (cb : Nat),
    RxBound c r → RxExact c r →
    RxBound c (rxLoop c q r cb).1 ∧ RxExact c (rxLoop c q r cb).1 := by
  induction q with
  | nil => intro r cb hb he; exact ⟨rxBound_rxq _ hb, rxExact_rxq _ he⟩
  | cons p q ih =>
    intro r cb hb he
    unfold rxLoop
    split
    · exact ⟨rxBound_rxq _ hb, rxExact_rxq _ he⟩
    · split
      · exact ⟨rxBound_rxq _ hb, rxExact_rxq _ he⟩
      · have hb' := rxData_bound (c := c) p hb
        have he' := rxData_exact (c := c) p hcap hb he
        generalize rxData c r p = x at hb' he'
        obtain ⟨r', handOut⟩ := x
        simp only
        split
        · exact ⟨rxBound_rxq _ hb', rxExact_rxq _ he'⟩
        · split
          · exact ⟨rxBound_rxq _ hb', rxExact_rxq _ he'⟩
          · exact ih r' (cb + 1) hb' he'

/-- memory safety alone needs no hypothesis on the configuration -/
theorem rxLoop_bound (c : Cfg) (q : List Bytes) : ∀ (r : Rx) (cb : Nat),
    RxBound c r → RxBound c (rxLoop c q r cb).1 := by
  induction q with
  | nil => intro r cb hb; exact rxBound_rxq _ hb
  | cons p q ih =>
    intro r cb hb
    unfold rxLoop
    split
    · exact rxBound_rxq _ hb
    · split
      · exact rxBound_rxq _ hb
      · have hb' := rxData_bound (c := c) p hb
        generalize rxData c r p = x at hb'
        obtain ⟨r', handOut⟩ := x
        simp only
        split
        · exact rxBound_rxq _ hb'
        · split
          · exact rxBound_rxq _ hb'
          · exact ih r' (cb + 1) hb'

theorem nextReceived_bound {c : Cfg} {r : Rx} (hb : RxBound c r) : RxBound c (nextReceived c r).1 := by
  unfold nextReceived
  split
  · exact hb
  · exact rxLoop_bound c _ r 0 hb

theorem nextReceived_exact {c : Cfg} {r : Rx} (hcap : c.cap < 65536) (hb : RxBound c r) (he : RxExact c r) :
    RxExact c (nextReceived c r).1 := by
  unfold nextReceived
  split
  · exact he
  · exact (rxLoop_inv c hcap _ r 0 hb he).2

theorem freeReceived_bound {c : Cfg} {r : Rx} (hb : RxBound c r) : RxBound c (freeReceived r).1 := by
  unfold freeReceived
  split
  · exact ⟨hb.len, hb.noOob, by simp⟩
  · split
    · exact hb
    · exact rxBound_rxq _ hb

theorem freeReceived_exact {c : Cfg} {r : Rx} (he : RxExact c r) : RxExact c (freeReceived r).1 := by
  unfold freeReceived
  split
  · constructor <;> simp
  · split
    · exact he
    · exact rxExact_rxq _ he

/-- what `rxLoop` hands out as SDU is the buffer content of the state it returns -/
theorem rxLoop_sdu (c : Cfg) (q : List Bytes) : ∀ (r : Rx) (cb : Nat) (x : Bytes),
    (rxLoop c q r cb).2.2 = .sdu x →
    (rxLoop c q r cb).1.complete = true ∧ x = (rxLoop c q r cb).1.buf.take (rxLoop c q r cb).1.used := by
  induction q with
  | nil => intro r cb x h; simp [rxLoop] at h
  | cons p q ih =>
    intro r cb x
    unfold rxLoop
    split
    · intro h; simp at h
    · split
      · intro h; simp at h
      · generalize rxData c r p = y
        obtain ⟨r', handOut⟩ := y
        simp only
        split
        · intro h; simp at h
        · split
          · next hc =>
            intro h
            simp only [Got.sdu.injEq] at h
            refine ⟨by simpa [Rx.complete] using hc, h.symm⟩
          · exact ih r' (cb + 1) x

theorem rxData_handOut {c : Cfg} {r : Rx} {p : Bytes} (h : (rxData c r p).2 = true) :
    (rxData c r p).1.used = 0 ∧ pduType p = 2 ∧
      ∃ n, l2capLen? (body c p) = some n ∧ n + 4 = (body c p).length := by
  unfold rxData at h ⊢
  simp only at h ⊢
  split
  · next ht =>
    rw [if_pos ht] at h
    split
    · next len hlen =>
      rw [hlen] at h
      simp only at h
      split
      · next he => exact ⟨rfl, ht, len, hlen, he⟩
      · next he =>
        rw [if_neg he] at h
        split at h <;> simp at h
    · next hn =>
      split at h
      · next len hlen => simp [hlen] at hn
      · simp at h
  · next ht => rw [if_neg ht] at h; simp at h

/-- what `rxLoop` hands out as PDU is the head of what is left of the radio's queue, it stays
    there, and it is an LL control PDU or a complete, unfragmented SDU -/
theorem rxLoop_pdu (c : Cfg) (q : List Bytes) : ∀ (r : Rx) (cb : Nat) (x : Bytes),
    r.complete = false → (rxLoop c q r cb).2.2 = .pdu x →
    (rxLoop c q r cb).1.complete = false ∧ (∃ q', (rxLoop c q r cb).1.rxq = x :: q' ∧ (x :: q') <:+ q) ∧
    (pduType x = 3 ∨ (pduType x = 2 ∧ ∃ n, l2capLen? (body c x) = some n ∧ n + 4 = (body c x).length)) := by
  induction q with
  | nil => intro r cb x _ h; simp [rxLoop] at h
  | cons p q ih =>
    intro r cb x hnc
    unfold rxLoop
    split
    · intro h; simp at h
    · split
      · next ht =>
        intro h
        simp only [Got.pdu.injEq] at h
        subst h
        exact ⟨by simpa [Rx.complete] using hnc, ⟨q, rfl, List.suffix_refl _⟩, Or.inl ht⟩
      · have hh := @rxData_handOut c r p
        generalize rxData c r p = y at hh
        obtain ⟨r', handOut⟩ := y
        simp only
        split
        · next hho =>
          intro h
          simp only [Got.pdu.injEq] at h
          subst h
          obtain ⟨h0, h2, h3⟩ := hh hho
          simp only at h0
          exact ⟨by simp [Rx.complete, h0], ⟨q, rfl, List.suffix_refl _⟩, Or.inr ⟨h2, h3⟩⟩
        · split
          · intro h; simp at h
          · next hc =>
            intro h
            obtain ⟨a, ⟨q', b1, b2⟩, d⟩ := ih r' (cb + 1) x (by simpa using hc) h
            exact ⟨a, ⟨q', b1, List.IsSuffix.trans b2 (List.suffix_cons _ _)⟩, d⟩

end BluetoeModel.L2capSdu
