import BluetoeModel.L2capSdu.Model
/-! Invariants of the transmit side (fragmentation). -/
namespace BluetoeModel.L2capSdu

/-- the L2CAP payload of a fragment: everything behind the LL header and the layout bytes -/
def payload (c : Cfg) (p : Bytes) : Bytes := p.drop c.llOverhead

/-- one start fragment (LLID 2) followed by continuation fragments (LLID 1) -/
def Shape : List Bytes → Prop
  | [] => True
  | p :: ps => pduType p = 2 ∧ ∀ q ∈ ps, pduType q = 1

theorem shape_append {l : List Bytes} {p : Bytes} (h : Shape l) (hne : l ≠ []) (hp : pduType p = 1) :
    Shape (l ++ [p]) := by
  cases l with
  | nil => exact absurd rfl hne
  | cons a as =>
    obtain ⟨h1, h2⟩ := h
    refine ⟨h1, ?_⟩
    intro q hq
    rcases List.mem_append.mp hq with h | h
    · exact h2 q h
    · simp at h; subst h; exact hp

structure TxInv (c : Cfg) (t : Tx) : Prop where
  len : t.buf.length = c.cap
  noFault : t.fault = false
  maxTx : c.llOverhead < t.maxTx
  shape : Shape t.frags
  st : (t.size = 0 ∧ t.used = 0 ∧ (t.frags.map (payload c)).flatten = t.sdu)
     ∨ (t.used = 0 ∧ c.overall ≤ t.size ∧ t.size ≤ c.cap ∧ t.frags = [] ∧
        (t.buf.take t.size).drop c.llOverhead = t.sdu)
     ∨ (c.llOverhead ≤ t.used ∧ t.used + t.size ≤ c.cap ∧ t.frags ≠ [] ∧
        (t.frags.map (payload c)).flatten = (t.buf.take t.used).drop c.llOverhead ∧
        (t.buf.take (t.used + t.size)).drop c.llOverhead = t.sdu)

theorem txInv_init (c : Cfg) (m : Nat) (hm : c.llOverhead < m) : TxInv c (Tx.init c m) := by
  constructor <;> simp [Tx.init, Shape, hm]

/-- the fragments sent so far are a prefix of the SDU -/
theorem TxInv.prefix {c : Cfg} {t : Tx} (h : TxInv c t) :
    (t.frags.map (payload c)).flatten <+: t.sdu := by
  rcases h.st with ⟨_, _, h⟩ | ⟨_, _, _, h, _⟩ | ⟨_, _, _, h1, h2⟩
  · rw [h]; exact List.prefix_refl _
  · simp [h]
  · rw [h1, ← h2]
    have : t.buf.take t.used <+: t.buf.take (t.used + t.size) := by
      rw [List.take_add]; exact List.prefix_append _ _
    obtain ⟨s, hs⟩ := this
    rw [← hs]
    by_cases hl : c.llOverhead ≤ (t.buf.take t.used).length
    · rw [List.drop_append_of_le_length hl]; exact List.prefix_append _ _
    · have : (t.buf.take t.used).drop c.llOverhead = [] := List.drop_eq_nil_of_le (by omega)
      rw [this]; exact List.nil_prefix

theorem first_payload (c : Cfg) (x : UInt8) (raw : Bytes) :
    payload c ([2, x] ++ raw.drop 2) = raw.drop c.llOverhead := by
  have h : c.llOverhead = c.ovh + 2 := by simp only [Cfg.llOverhead]; omega
  simp only [payload, h, List.cons_append, List.nil_append, List.drop_succ_cons, List.drop_drop]
  rw [Nat.add_comm]

theorem cont_payload (c : Cfg) (y : UInt8) (chunk : Bytes) :
    payload c ([1, y] ++ fresh c.ovh ++ chunk ++ fresh 0) = chunk := by
  have : ([1, y] ++ fresh c.ovh : Bytes).length = c.llOverhead := by
    simp only [fresh, Cfg.llOverhead, List.length_append, List.length_cons, List.length_nil, List.length_replicate]
  simp only [payload, fresh, List.replicate_zero, List.append_nil]
  rw [← this, List.drop_left']
  rfl

theorem pduType_two (x : UInt8) (l : Bytes) : pduType ([2, x] ++ l) = 2 := by simp [pduType]
theorem pduType_one (x : UInt8) (l : Bytes) : pduType ([1, x] ++ l) = 1 := by simp [pduType]

/-- result of one loop iteration in a state satisfying the invariant -/
theorem sendOne_spec {c : Cfg} {t : Tx} (h : TxInv c t) (hs : t.size ≠ 0) :
    ∃ pdu copy, sendOne c t = some (pdu, copy) ∧ 0 < copy ∧ copy ≤ t.size ∧
      pdu.length ≤ t.maxTx ∧ c.llOverhead < pdu.length ∧
      pdu[1]? = some (UInt8.ofNat ((pdu.length - c.llOverhead) % 256)) ∧
      TxInv c { t with sent := t.sent ++ [pdu], frags := t.frags ++ [pdu],
                       size := t.size - copy, used := t.used + copy } := by
  obtain ⟨hl, hf, hm, hsh, hst⟩ := h
  have hov : c.overall = c.llOverhead + 4 := rfl
  have hll : 2 ≤ c.llOverhead := by simp [Cfg.llOverhead]
  rcases hst with ⟨h0, _, _⟩ | ⟨hu, hlo, hhi, hfr, hsdu⟩ | ⟨hlo, hhi, hfr, hfl, hsdu⟩
  · exact absurd h0 hs
  · -- first fragment
    have hw : min (t.size + 0) t.maxTx = min t.size t.maxTx := by simp
    have hcopy : min (min t.size t.maxTx) t.size = min t.size t.maxTx := by omega
    refine ⟨[2, UInt8.ofNat ((min t.size t.maxTx - c.llOverhead) % 256)] ++ (t.buf.take (min t.size t.maxTx)).drop 2,
            min t.size t.maxTx, ?_, by omega, by omega, ?_, ?_, ?_, ?_⟩
    · unfold sendOne
      simp only [hu, if_true, hw, hcopy, Nat.sub_self, fresh, List.replicate_zero, List.append_nil]
      rw [if_neg (by omega), if_neg (by omega)]
    · simp; omega
    · simp; omega
    · simp
      congr 2; omega
    · refine ⟨hl, hf, hm, ?_, Or.inr (Or.inr ⟨?_, ?_, ?_, ?_, ?_⟩)⟩
      · simp only [hfr, List.nil_append]
        exact ⟨pduType_two _ _, by simp⟩
      · simp only [hu]; omega
      · simp only [hu]; omega
      · simp
      · simp only [hfr, hu, List.nil_append, Nat.zero_add, List.map_cons, List.map_nil, List.flatten_cons,
          List.flatten_nil, List.append_nil]
        exact first_payload c _ _
      · simp only [hu, Nat.zero_add]
        rw [← hsdu]; congr 2; omega
  · -- continuation fragment
    have hune : ¬ t.used = 0 := by omega
    have hbody : min (min (t.size + c.llOverhead) t.maxTx - c.llOverhead) t.size
        = min (t.size + c.llOverhead) t.maxTx - c.llOverhead := by omega
    refine ⟨[1, UInt8.ofNat ((min (t.size + c.llOverhead) t.maxTx - c.llOverhead) % 256)] ++ fresh c.ovh
              ++ (t.buf.drop t.used).take (min (t.size + c.llOverhead) t.maxTx - c.llOverhead) ++ fresh 0,
            min (t.size + c.llOverhead) t.maxTx - c.llOverhead, ?_, by omega, by omega, ?_, ?_, ?_, ?_⟩
    · unfold sendOne
      simp only [hune, if_false, hbody, Nat.sub_self]
      rw [if_neg (by omega), if_neg (by omega)]
    · simp [fresh, Cfg.llOverhead] at *; omega
    · simp [fresh, Cfg.llOverhead] at *; omega
    · simp [fresh, Cfg.llOverhead] at *
      congr 2; omega
    · refine ⟨hl, hf, hm, ?_, Or.inr (Or.inr ⟨?_, ?_, ?_, ?_, ?_⟩)⟩
      · exact shape_append hsh hfr (by rw [List.append_assoc, List.append_assoc]; exact pduType_one _ _)
      · simp only; omega
      · simp only; omega
      · simp
      · simp only [List.map_append, List.flatten_append, List.map_cons, List.map_nil, List.flatten_cons,
          List.flatten_nil, List.append_nil, hfl, cont_payload]
        rw [List.take_add]
        rw [List.drop_append_of_le_length (by simp; omega)]
      · simp only
        rw [← hsdu]; congr 2; omega

/-- the loop keeps the invariant, never faults, and only appends to the logs -/
theorem trySendLoop_inv (c : Cfg) : ∀ (n : Nat) (t : Tx), TxInv c t →
    TxInv c (trySendLoop c n t) ∧ (trySendLoop c n t).maxTx = t.maxTx := by
  intro n
  induction n with
  | zero =>
    intro t h
    unfold trySendLoop
    split
    · next h0 =>
      refine ⟨⟨h.len, h.noFault, h.maxTx, h.shape, ?_⟩, rfl⟩
      rcases h.st with ⟨a, b, d⟩ | ⟨a, b, _⟩ | ⟨a, b, d, e, f⟩
      · exact Or.inl ⟨a, rfl, d⟩
      · rw [Cfg.overall] at b; omega
      · refine Or.inl ⟨h0, rfl, ?_⟩
        rw [e, ← f, h0]; rfl
    · exact ⟨h, rfl⟩
  | succ n ih =>
    intro t h
    unfold trySendLoop
    split
    · next h0 =>
      refine ⟨⟨h.len, h.noFault, h.maxTx, h.shape, ?_⟩, rfl⟩
      rcases h.st with ⟨a, b, d⟩ | ⟨a, b, _⟩ | ⟨a, b, d, e, f⟩
      · exact Or.inl ⟨a, rfl, d⟩
      · rw [Cfg.overall] at b; omega
      · refine Or.inl ⟨h0, rfl, ?_⟩
        rw [e, ← f, h0]; rfl
    · next h0 =>
      obtain ⟨pdu, copy, hso, _, _, _, _, _, hinv⟩ := sendOne_spec h h0
      rw [hso]
      simp only
      have hinv' : TxInv c { t with freeTx := n, sent := t.sent ++ [pdu], frags := t.frags ++ [pdu],
                                    allocLog := t.allocLog ++ [(pdu, t.maxTx)],
                                    size := t.size - copy, used := t.used + copy } :=
        ⟨hinv.len, hinv.noFault, hinv.maxTx, hinv.shape, hinv.st⟩
      exact ih _ hinv'

/-- every PDU `try_send_pdus` ever committed was not larger than `max_tx_size()` as it was when the
    buffer for that PDU was allocated -/
def LogOk (t : Tx) : Prop := ∀ x ∈ t.allocLog, x.1.length ≤ x.2

theorem trySendLoop_log (c : Cfg) : ∀ (n : Nat) (t : Tx), TxInv c t → LogOk t → LogOk (trySendLoop c n t) := by
  intro n
  induction n with
  | zero => intro t _ hl; unfold trySendLoop; split <;> exact hl
  | succ n ih =>
    intro t h hl
    unfold trySendLoop
    split
    · exact hl
    · next h0 =>
      obtain ⟨pdu, copy, hso, _, _, hle, _, _, hinv⟩ := sendOne_spec h h0
      rw [hso]
      simp only
      have hinv' : TxInv c { t with freeTx := n, sent := t.sent ++ [pdu], frags := t.frags ++ [pdu],
                                    allocLog := t.allocLog ++ [(pdu, t.maxTx)],
                                    size := t.size - copy, used := t.used + copy } :=
        ⟨hinv.len, hinv.noFault, hinv.maxTx, hinv.shape, hinv.st⟩
      apply ih _ hinv'
      intro x hx
      simp only at hx
      rcases List.mem_append.mp hx with hx | hx
      · exact hl x hx
      · simp only [List.mem_singleton] at hx; subst hx; exact hle

theorem trySend_log {c : Cfg} {t : Tx} (h : TxInv c t) (hl : LogOk t) : LogOk (trySend c t) := by
  unfold trySend
  rw [h.noFault]
  exact trySendLoop_log c _ t h hl

theorem trySend_inv {c : Cfg} {t : Tx} (h : TxInv c t) :
    TxInv c (trySend c t) ∧ (trySend c t).maxTx = t.maxTx := by
  unfold trySend
  rw [h.noFault]
  exact trySendLoop_inv c _ t h

end BluetoeModel.L2capSdu
