import BluetoeModel.AttHandles.Lemmas
/-!
  # C04 — Attribute handles are consistent with the declared database

  "For any server declaration, every attribute has a unique non-zero handle, handles increase in
  declaration order and honour requested fixed handles, and every handle that an attribute reports
  is the handle under which that attribute is accessed. Characteristic declarations name their own
  value handle, and include declarations name the real first and last handle and UUID of the
  included service."

  Quantifier: every `ServerDecl` value `d` with `d.WF` (= the static_asserts of the templates, i.e.
  "the declaration compiles", plus: the handles fit below 0xFFFF so that no `std::uint16_t`
  computation wraps).  The statements about `include_service<>` are FALSE of the code
  (`handles_consistent_full`, witnesses at the end); everything else is proved for every
  declaration without `include_service<>` (`NoIncludes d`), and `fixed_honoured_*` for all
  declarations.
-/
namespace BluetoeModel.AttHandles

/-! ### non-vacuity: a declaration with fixed handles, gaps, a CCCD and a secondary service -/

def exChar : CharDecl :=
  { uuid := .u16 0x2A56, props := 0x1A, handles := .triple 0x12 0x14 0x18, hasCccd := true,
    userDesc := none, descs := [], readable := true, value := [1] }

def exDecl : ServerDecl :=
  [ { uuid := .u16 0x1801, secondary := false, fixed := none, includes := [],
      chars := [{ exChar with handles := .auto, hasCccd := false }] },
    { uuid := .u16 0x1234, secondary := true, fixed := some 0x10, includes := [], chars := [exChar] } ]

theorem exDecl_WF : exDecl.WF :=
  ⟨by decide, by simp [servicesWF, charsWF, exDecl, exChar, svcHandle, svcEndHandle, charsEndHandle,
      charEndHandle, selectHandles, CharHandles.WF, CharDecl.nAttrs], by decide⟩

theorem exDecl_noIncludes : NoIncludes exDecl := by
  intro s hs; simp [exDecl] at hs; rcases hs with rfl | rfl <;> rfl

example : handles exDecl = [1, 2, 3, 0x10, 0x12, 0x14, 0x18] := by decide

/-! ### "every attribute has a unique non-zero handle, handles increase in declaration order" -/

/-- handles strictly increase with the attribute index (hence are unique) -/
theorem handles_strict_mono (d : ServerDecl) (hw : d.WF) (hi : NoIncludes d) :
    (handles d).Pairwise (· < ·) := by
  rw [handles_eq d hi]; exact (servicesHandles_sorted 1 d hw.asserts).1

/-- every attribute has a handle in 1 … 0xFFFF (0 is `invalid_attribute_handle`) -/
theorem handles_nonzero (d : ServerDecl) (hw : d.WF) (hi : NoIncludes d) :
    ∀ x ∈ handles d, 0 < x ∧ x ≤ 0xFFFF := by
  rw [handles_eq d hi]
  intro x hx
  have := (servicesHandles_sorted 1 d hw.asserts).2 x hx
  have := hw.fits
  omega

/-- there is one handle per attribute, and `handles d` lists `handle_by_index( i )` -/
theorem handles_length (d : ServerDecl) : (handles d).length = nAttrs d := by
  unfold handles
  generalize nAttrs d = n
  generalize 0 = i
  induction n generalizing i with
  | zero => rfl
  | succ n ih => simp [handlesFrom, ih]

theorem handles_getElem (d : ServerDecl) (hi : NoIncludes d) (i : Nat) (h : i < nAttrs d) :
    (handles d)[i]? = some (handleByIndex d i) := by
  have hl : i < (servicesHandles 1 d).length := by rw [length_servicesHandles 1 d hi]; exact h
  have := servicesHandleByIndex_eq 1 0 d hi i
  rw [handles_eq d hi]
  simp only [Nat.zero_add] at this
  unfold handleByIndex
  rw [this, List.getElem?_eq_getElem hl]; rfl

example : (handles exDecl)[4]? = some (handleByIndex exDecl 4) :=
  handles_getElem exDecl exDecl_noIncludes 4 (by decide)

/-! ### "every handle that an attribute reports is the handle under which it is accessed" -/

/-- `first_index_by_handle( h )` is the number of attributes with a handle below `h` when that is a
    valid index, and invalid otherwise -/
theorem first_index_count (d : ServerDecl) (hw : d.WF) (hi : NoIncludes d) (h : Nat) :
    firstIndexByHandle d h =
      (if (handles d).countP (fun x => decide (x < h)) < nAttrs d
       then some ((handles d).countP (fun x => decide (x < h))) else none) := by
  have := servicesFirstIndexByHandle_eq 1 0 d hi hw.asserts h
  rw [handles_eq d hi]
  unfold firstIndexByHandle
  rw [this, length_servicesHandles 1 d hi]
  simp

/-- the documented contract of `first_index_by_handle`: "the index of the attribute with the
    lowest handle that is equal or larger than the given handle" (none if there is no such) -/
theorem first_index_spec (d : ServerDecl) (hw : d.WF) (hi : NoIncludes d) (h : Nat) :
    match firstIndexByHandle d h with
    | some i => i < nAttrs d ∧ h ≤ handleByIndex d i ∧ ∀ j, j < i → handleByIndex d j < h
    | none => ∀ j, j < nAttrs d → handleByIndex d j < h := by
  rw [first_index_count d hw hi h]
  have hs := handles_strict_mono d hw hi
  by_cases hc : (handles d).countP (fun x => decide (x < h)) < nAttrs d
  · rw [if_pos hc]
    refine ⟨hc, ?_, ?_⟩
    · have := (not_congr (lt_iff_lt_countP hs h _ _ (handles_getElem d hi _ hc))).mpr (Nat.lt_irrefl _)
      omega
    · intro j hj
      exact (lt_iff_lt_countP hs h j _ (handles_getElem d hi j (by omega))).mpr hj
  · rw [if_neg hc]
    intro j hj
    exact (lt_iff_lt_countP hs h j _ (handles_getElem d hi j hj)).mpr (by omega)

example : firstIndexByHandle exDecl 0x13 = some 5 ∧ firstIndexByHandle exDecl 0x19 = none := by decide

/-- looking up the handle of attribute `i` finds attribute `i` -/
theorem index_handle_inverse (d : ServerDecl) (hw : d.WF) (hi : NoIncludes d) (i : Nat)
    (h : i < nAttrs d) : indexByHandle d (handleByIndex d i) = some i := by
  have hs := handles_strict_mono d hw hi
  have hc : (handles d).countP (fun x => decide (x < handleByIndex d i)) = i := by
    -- i is not below the count (its handle is not < itself), everything below i is
    have h1 := (not_congr (lt_iff_lt_countP hs (handleByIndex d i) i _ (handles_getElem d hi i h))).mp
      (Nat.lt_irrefl _)
    by_cases h0 : (handles d).countP (fun x => decide (x < handleByIndex d i)) < i
    · exfalso
      -- the attribute at index `count` has a handle < handle i, hence is counted
      have hk := handles_getElem d hi _ (show (handles d).countP (fun x => decide (x < handleByIndex d i)) < nAttrs d by omega)
      have hlt : handleByIndex d ((handles d).countP (fun x => decide (x < handleByIndex d i))) < handleByIndex d i := by
        have := List.pairwise_iff_getElem.mp hs
        have hl := handles_length d
        have e1 := handles_getElem d hi i h
        rw [List.getElem?_eq_getElem (by omega)] at hk e1
        have := this _ i (by omega) (by omega) h0
        rw [Option.some.inj hk, Option.some.inj e1] at this
        exact this
      have := (lt_iff_lt_countP hs (handleByIndex d i) _ _ hk).mp hlt
      omega
    · omega
  unfold indexByHandle
  rw [first_index_count d hw hi, hc, if_pos h]
  simp

/-- a successful lookup returns a valid index whose attribute has exactly that handle -/
theorem index_by_handle_sound (d : ServerDecl) (hw : d.WF) (hi : NoIncludes d) (h i : Nat)
    (hl : indexByHandle d h = some i) : i < nAttrs d ∧ handleByIndex d i = h := by
  unfold indexByHandle at hl
  have hs := first_index_spec d hw hi h
  cases hf : firstIndexByHandle d h with
  | none => rw [hf] at hl; simp at hl
  | some k =>
    rw [hf] at hl hs
    simp only at hl hs
    by_cases he : handleByIndex d k = h
    · rw [if_pos he] at hl
      have := Option.some.inj hl
      subst this
      exact ⟨hs.1, he⟩
    · rw [if_neg he] at hl; simp at hl

example : indexByHandle exDecl 0x14 = some 5 ∧ indexByHandle exDecl 0x13 = none := by decide

/-! ### "… every handle that an attribute reports is the handle under which that attribute is
    accessed": the index the server uses for a Read / Read Blob / Write / Prepare Write addressed to
    handle `h` (`check_handle`) and for Find Information `h … h` -/

/-- **access by handle is exact**: `check_handle` serves handle `h` with the attribute at index `i`
    iff `i` is an attribute and `h` is exactly its handle; in particular a handle inside a hole of
    the handle space (fixed handles), handle 0 and every handle behind the table are answered
    Invalid Handle and never alias another attribute -/
theorem access_by_handle_exact (d : ServerDecl) (hw : d.WF) (hi : NoIncludes d) (h i : Nat) :
    accessIndex d h = some i ↔ (i < nAttrs d ∧ handleByIndex d i = h) := by
  unfold accessIndex
  constructor
  · intro ha
    by_cases h0 : h = 0
    · rw [if_pos h0] at ha; cases ha
    · rw [if_neg h0] at ha
      exact index_by_handle_sound d hw hi h i ha
  · intro ⟨hlt, he⟩
    have hmem : handleByIndex d i ∈ handles d := List.mem_of_getElem? (handles_getElem d hi i hlt)
    have hpos := (handles_nonzero d hw hi _ hmem).1
    rw [if_neg (by omega), ← he]
    exact index_handle_inverse d hw hi i hlt

/-- no attribute is served for a handle that no attribute has -/
theorem access_by_handle_hole (d : ServerDecl) (hw : d.WF) (hi : NoIncludes d) (h : Nat)
    (hh : ∀ i, i < nAttrs d → handleByIndex d i ≠ h) : accessIndex d h = none := by
  cases ha : accessIndex d h with
  | none => rfl
  | some i =>
    have := (access_by_handle_exact d hw hi h i).mp ha
    exact absurd this.2 (hh i this.1)

/-- Find Information for the single handle `h > 0` lists the same attribute (or none) -/
theorem find_info_single_exact (d : ServerDecl) (hw : d.WF) (hi : NoIncludes d) (h : Nat) (h0 : 0 < h) :
    findInfoIndex d h = accessIndex d h := by
  unfold findInfoIndex accessIndex indexByHandle
  rw [if_neg (by omega)]
  have hs := first_index_spec d hw hi h
  cases hf : firstIndexByHandle d h with
  | none => rfl
  | some k =>
    rw [hf] at hs
    simp only at hs ⊢
    by_cases he : handleByIndex d k = h
    · rw [if_pos he, if_neg (by omega)]
    · rw [if_neg he, if_pos (by omega)]

-- non-vacuity: exDecl has holes (0x13 lies between two attributes); 0x14 is attribute 5
example : accessIndex exDecl 0x14 = some 5 ∧ accessIndex exDecl 0x13 = none ∧ accessIndex exDecl 0 = none ∧
    findInfoIndex exDecl 0x13 = none ∧ firstIndexByHandle exDecl 0x13 = some 5 := by decide

/-! ### "… and honour requested fixed handles" (holds for every declaration, includes or not) -/

theorem servicesHandleByIndex_append (sh si : Nat) (pre rest : List ServiceDecl) (k : Nat) :
    servicesHandleByIndex sh si (pre ++ rest) (si + nAttrs pre + k) =
      servicesHandleByIndex (servicesEndHandle sh pre) (si + nAttrs pre) rest (si + nAttrs pre + k) := by
  induction pre generalizing sh si with
  | nil => simp [nAttrs, servicesEndHandle]
  | cons s pre ih =>
    simp only [List.cons_append, servicesHandleByIndex, nAttrs, servicesEndHandle]
    have : ¬ si + (s.nAttrs + nAttrs pre) + k < si + s.nAttrs := by omega
    rw [if_neg this]
    have e : si + (s.nAttrs + nAttrs pre) = si + s.nAttrs + nAttrs pre := by omega
    rw [e, ih]

theorem charsHandleByIndex_append (sh si : Nat) (pre rest : List CharDecl) (k : Nat) :
    charsHandleByIndex sh si (pre ++ rest) (si + charsAttrs pre + k) =
      charsHandleByIndex (charsEndHandle sh pre) (si + charsAttrs pre) rest (si + charsAttrs pre + k) := by
  induction pre generalizing sh si with
  | nil => simp [charsAttrs, charsEndHandle]
  | cons c pre ih =>
    simp only [List.cons_append, charsHandleByIndex, charsAttrs, charsEndHandle]
    have : ¬ si + (c.nAttrs + charsAttrs pre) + k < si + c.nAttrs := by omega
    rw [if_neg this]
    have e : si + (c.nAttrs + charsAttrs pre) = si + c.nAttrs + charsAttrs pre := by omega
    rw [e, ih]

/-- a service declared with `attribute_handle< h >` has its declaration attribute at handle `h` -/
theorem fixed_honoured_service (pre post : List ServiceDecl) (s : ServiceDecl) (h : Nat)
    (hf : s.fixed = some h) : handleByIndex (pre ++ s :: post) (nAttrs pre) = h := by
  have := servicesHandleByIndex_append 1 0 pre (s :: post) 0
  simp only [Nat.zero_add, Nat.add_zero] at this
  unfold handleByIndex
  rw [this]
  have hp : 0 < s.nAttrs := by unfold ServiceDecl.nAttrs ServiceDecl.nServiceAttrs; omega
  simp [servicesHandleByIndex, hp, svcHandleByIndex, svcHandle, hf]

/-- a characteristic declared with `attribute_handle< h >` / `attribute_handles< D, V, C >` in a
    service without includes has its declaration at `h` / `D` and its value at `h + 1` / `V`
    (and, for three or more attributes and `C ≠ 0`, its third attribute at `C`) -/
theorem fixed_honoured_characteristic (pre post : List ServiceDecl) (s : ServiceDecl)
    (cpre cpost : List CharDecl) (c : CharDecl) (hs : s.chars = cpre ++ c :: cpost)
    (hi : s.includes = []) (k : Nat) (hk : k < c.nAttrs) :
    handleByIndex (pre ++ s :: post) (nAttrs pre + 1 + charsAttrs cpre + k) =
      charHandleByIndex (charsEndHandle (svcHandle (servicesEndHandle 1 pre) s + 1) cpre)
        (nAttrs pre + 1 + charsAttrs cpre) c (nAttrs pre + 1 + charsAttrs cpre + k) := by
  have hn : s.nAttrs = 1 + (charsAttrs cpre + (c.nAttrs + charsAttrs cpost)) := by
    have hca : ∀ (a b : List CharDecl), charsAttrs (a ++ b) = charsAttrs a + charsAttrs b := by
      intro a b; induction a with
      | nil => simp [charsAttrs]
      | cons x a ih => simp [charsAttrs, ih]; omega
    simp [ServiceDecl.nAttrs, ServiceDecl.nServiceAttrs, hi, hs, hca, charsAttrs]
  have h1 := servicesHandleByIndex_append 1 0 pre (s :: post) (1 + charsAttrs cpre + k)
  simp only [Nat.zero_add] at h1
  unfold handleByIndex
  have e : nAttrs pre + 1 + charsAttrs cpre + k = nAttrs pre + (1 + charsAttrs cpre + k) := by omega
  rw [e, h1]
  simp only [servicesHandleByIndex]
  rw [if_pos (by omega)]
  unfold svcHandleByIndex
  rw [if_neg (by omega), hs]
  have h2 := charsHandleByIndex_append (svcHandle (servicesEndHandle 1 pre) s + 1) (nAttrs pre + 1)
    cpre (c :: cpost) k
  have e2 : nAttrs pre + (1 + charsAttrs cpre + k) = nAttrs pre + 1 + charsAttrs cpre + k := by omega
  rw [e2, h2]
  simp only [charsHandleByIndex]
  rw [if_pos (by omega)]

theorem fixed_honoured_start (sh si : Nat) (c : CharDecl) (h : Nat) (hc : c.handles = .start h) :
    charHandleByIndex sh si c (si + 0) = h ∧ charHandleByIndex sh si c (si + 1) = h + 1 := by
  simp [charHandleByIndex, hc, selectHandles]

theorem fixed_honoured_triple (sh si : Nat) (c : CharDecl) (D V C : Nat)
    (hc : c.handles = .triple D V C) (h0 : C ≠ 0) :
    charHandleByIndex sh si c (si + 0) = D ∧ charHandleByIndex sh si c (si + 1) = V ∧
    charHandleByIndex sh si c (si + 2) = C := by
  simp [charHandleByIndex, hc, selectHandles, h0]

example : handleByIndex exDecl 3 = 0x10 :=
  fixed_honoured_service [exDecl[0]] [] exDecl[1] 0x10 rfl

example : handleByIndex exDecl 4 = 0x12 ∧ handleByIndex exDecl 5 = 0x14 ∧ handleByIndex exDecl 6 = 0x18 := by
  decide

/-! ### "Characteristic declarations name their own value handle" -/

/-- in the attribute table every characteristic declaration is directly followed by the value
    attribute of the same characteristic -/
def Follows (l : List Proto) : Prop :=
  ∀ pre c rest, l = pre ++ Proto.charDecl c :: rest → ∃ rest', rest = Proto.charValue c :: rest'

theorem follows_append {l₁ l₂ : List Proto} (h₁ : Follows l₁) (h₂ : Follows l₂) : Follows (l₁ ++ l₂) := by
  intro pre c rest he
  rcases List.append_eq_append_iff.mp he with ⟨a', ha, hb⟩ | ⟨c', ha, hb⟩
  · -- the declaration lies in l₂
    exact h₂ a' c rest hb
  · cases c' with
    | nil =>
      simp at hb
      exact h₂ [] c rest (by simpa using hb.symm)
    | cons x c'' =>
      simp only [List.cons_append, List.cons.injEq] at hb
      obtain ⟨hx, hr⟩ := hb
      subst hx
      obtain ⟨r, hr'⟩ := h₁ pre c c'' ha
      exact ⟨r ++ l₂, by rw [hr, hr']; simp⟩

theorem follows_of_no_decl {l : List Proto} (h : ∀ c, Proto.charDecl c ∉ l) : Follows l := by
  intro pre c rest he
  exact absurd (by rw [he]; simp) (h c)

theorem follows_charProto (c : CharDecl) : Follows (charProto c) := by
  intro pre c' rest he
  unfold charProto at he
  cases pre with
  | nil =>
    simp only [List.nil_append, List.cons.injEq, Proto.charDecl.injEq] at he
    obtain ⟨hc, hr⟩ := he
    subst hc
    exact ⟨_, hr.symm⟩
  | cons x pre =>
    exfalso
    simp only [List.cons_append, List.cons.injEq] at he
    obtain ⟨_, he⟩ := he
    have hm : Proto.charDecl c' ∈ pre ++ Proto.charDecl c' :: rest := by simp
    rw [← he] at hm
    simp only [List.mem_cons, List.mem_append, List.mem_map] at hm
    rcases hm with hm | (hm | hm) | hm
    · cases hm
    · split at hm <;> simp at hm
    · split at hm <;> simp at hm
    · obtain ⟨p, _, hp⟩ := hm; cases hp

theorem follows_protoAttrs (d : ServerDecl) : Follows (protoAttrs d) := by
  induction d with
  | nil => exact follows_of_no_decl (by simp [protoAttrs])
  | cons s d ih =>
    simp only [protoAttrs]
    refine follows_append ?_ ih
    unfold svcProto
    have hc : Follows (charsProto s.chars) := by
      induction s.chars with
      | nil => exact follows_of_no_decl (by simp [charsProto])
      | cons c cs ihc => exact follows_append (follows_charProto c) ihc
    have : Proto.svcDecl s :: (s.includes.map Proto.incl ++ charsProto s.chars)
        = ([Proto.svcDecl s] ++ s.includes.map Proto.incl) ++ charsProto s.chars := by simp
    rw [this]
    exact follows_append (follows_of_no_decl (by simp)) hc

theorem length_protoAttrs (d : ServerDecl) : (protoAttrs d).length = nAttrs d := by
  have hc : ∀ c : CharDecl, (charProto c).length = c.nAttrs := by
    intro c
    unfold charProto CharDecl.nAttrs
    cases c.hasCccd <;> cases c.userDesc <;> simp <;> omega
  have hcs : ∀ cs : List CharDecl, (charsProto cs).length = charsAttrs cs := by
    intro cs; induction cs with
    | nil => rfl
    | cons c cs ih => simp [charsProto, charsAttrs, hc, ih]
  induction d with
  | nil => rfl
  | cons s d ih =>
    simp [protoAttrs, svcProto, nAttrs, ServiceDecl.nAttrs, ServiceDecl.nServiceAttrs, hcs, ih]
    omega

theorem renderFrom_getElem (d : ServerDecl) (s : Nat) (l : List Proto) (k : Nat) :
    (renderFrom d s l)[k]? = (l[k]?).map (render d (s + k)) := by
  induction l generalizing s k with
  | nil => simp [renderFrom]
  | cons p l ih =>
    cases k with
    | zero => simp [renderFrom]
    | succ k =>
      simp only [renderFrom, List.getElem?_cons_succ, ih]
      have : s + 1 + k = s + (k + 1) := by omega
      rw [this]

theorem lo_hi_roundtrip (n : Nat) (h : n ≤ 0xFFFF) : (lo n).toNat + 256 * (hi n).toNat = n := by
  simp [lo, hi]; omega

/-- The attribute at index `i` is the declaration of characteristic `c`  ⟹  the attribute at
    `i + 1` is the value attribute of `c` (type = the declared UUID), the declaration reads as
    properties, value handle, UUID, and the 16 bit value handle it names is the handle under which
    exactly that value attribute is found. -/
theorem char_decl_names_value_handle (d : ServerDecl) (hw : d.WF) (hni : NoIncludes d) (i : Nat)
    (c : CharDecl) (hp : (protoAttrs d)[i]? = some (.charDecl c)) :
    ∃ vh, (attrs d)[i]? = some ⟨.u16 uuidCharacteristic,
              some ([UInt8.ofNat c.props, lo vh, hi vh] ++ c.uuid.bytes)⟩ ∧
      (∃ v, (attrs d)[i + 1]? = some ⟨c.uuid, v⟩) ∧
      indexByHandle d ((lo vh).toNat + 256 * (hi vh).toNat) = some (i + 1) := by
  -- split the table at i
  have hlt : i < (protoAttrs d).length := by
    rcases Nat.lt_or_ge i (protoAttrs d).length with h | h
    · exact h
    · rw [List.getElem?_eq_none h] at hp; cases hp
  have hsplit : protoAttrs d = (protoAttrs d).take i ++ Proto.charDecl c :: (protoAttrs d).drop (i + 1) := by
    have h1 := List.getElem?_eq_getElem hlt
    rw [h1] at hp
    have := Option.some.inj hp
    rw [← this]
    exact (List.take_append_drop i _).symm.trans (by rw [List.drop_eq_getElem_cons hlt])
  obtain ⟨r, hr⟩ := follows_protoAttrs d _ c _ hsplit
  have hnext : (protoAttrs d)[i + 1]? = some (.charValue c) := by
    have : (protoAttrs d)[i + 1]? = ((protoAttrs d).drop (i + 1))[0]? := by simp
    rw [this, hr]; rfl
  have hlt1 : i + 1 < nAttrs d := by
    rw [← length_protoAttrs d]
    rcases Nat.lt_or_ge (i + 1) (protoAttrs d).length with h | h
    · exact h
    · rw [List.getElem?_eq_none h] at hnext; cases hnext
  refine ⟨handleByIndex d (i + 1), ?_, ?_, ?_⟩
  · unfold attrs
    rw [renderFrom_getElem, hp]; simp [render]
  · unfold attrs
    rw [renderFrom_getElem, hnext]; simp [render]
  · have hb : handleByIndex d (i + 1) ≤ 0xFFFF := by
      have hm := List.mem_of_getElem? (handles_getElem d hni (i + 1) hlt1)
      exact (handles_nonzero d hw hni _ hm).2
    rw [lo_hi_roundtrip _ hb]
    exact index_handle_inverse d hw hni (i + 1) hlt1

example : (protoAttrs exDecl)[4]? = some (.charDecl exChar) := by decide

/-! ### `include_service<>`: the full statement is false of the code -/

/-- the full-strength statement about the handle mapping (no restriction on includes) -/
def handles_consistent_full : Prop :=
  ∀ d : ServerDecl, d.WF →
    (handles d).Pairwise (· < ·) ∧ (∀ x ∈ handles d, 0 < x) ∧
    ∀ i, i < nAttrs d → indexByHandle d (handleByIndex d i) = some i

/-- `server< service< uuid16<0x1234>, is_secondary_service, characteristic<…> >,
            service< uuid16<0x1235>, include_service< uuid16<0x1234> > > >` -/
def inclDecl : ServerDecl :=
  [ { uuid := .u16 0x1234, secondary := true, fixed := none, includes := [],
      chars := [{ exChar with handles := .auto, hasCccd := false }] },
    { uuid := .u16 0x1235, secondary := false, fixed := none, includes := [.u16 0x1234], chars := [] } ]

theorem inclDecl_WF : inclDecl.WF :=
  ⟨by decide, by simp [servicesWF, charsWF, inclDecl, exChar, svcHandle, svcEndHandle, charsEndHandle,
      charEndHandle, selectHandles, CharHandles.WF, CharDecl.nAttrs], by decide⟩

/-- the include attribute (index 4) gets `invalid_attribute_handle`: `next_char_mapping` starts the
    characteristics at `service_handle + 1 / StartIndex + 1` although an include attribute follows
    the service declaration -/
theorem include_handle_is_invalid : handles inclDecl = [1, 2, 3, 4, 0] := by decide

theorem handles_consistent_full_witness : ¬ handles_consistent_full := by
  intro h
  have := (h inclDecl inclDecl_WF).2.1 0 (by rw [include_handle_is_invalid]; simp)
  omega

/-- `server< service< uuid16<0x1235>, include_service< uuid16<0x1234> >, characteristic<…> >,
            service< uuid16<0x1234>, is_secondary_service, characteristic<…> > >` -/
def inclCharDecl : ServerDecl :=
  [ { uuid := .u16 0x1235, secondary := false, fixed := none, includes := [.u16 0x1234],
      chars := [{ exChar with handles := .auto, hasCccd := false }] },
    { uuid := .u16 0x1234, secondary := true, fixed := none, includes := [],
      chars := [{ exChar with handles := .auto, hasCccd := false }] } ]

/-- with a characteristic behind the include, the characteristic declaration (index 2, found under
    handle 3) names value handle 0x0000 and the value attribute has no handle -/
theorem include_char_decl_names_handle_zero :
    handles inclCharDecl = [1, 2, 3, 0, 4, 5, 6] ∧
    ((attrs inclCharDecl)[2]?).map (·.value) = some (some [0x1A, 0, 0, 0x56, 0x2A]) := by decide

/-- an included service at fixed handles 0x10 … 0x12 is named as 0x0001 … 0x0003:
    `service_handles<>` sums `number_of_attributes` from 1 and ignores `attribute_handle<>` -/
def inclFixedDecl : ServerDecl :=
  [ { uuid := .u16 0x1234, secondary := true, fixed := some 0x10, includes := [],
      chars := [{ exChar with handles := .auto, hasCccd := false }] },
    { uuid := .u16 0x1235, secondary := false, fixed := some 0x20, includes := [.u16 0x1234], chars := [] } ]

theorem include_range_ignores_fixed_handles :
    handleByIndex inclFixedDecl 0 = 0x10 ∧ handleByIndex inclFixedDecl 2 = 0x12 ∧
    ((attrs inclFixedDecl)[4]?).map (·.value) = some (some [1, 0, 3, 0, 0x34, 0x12]) := by decide

end BluetoeModel.AttHandles
